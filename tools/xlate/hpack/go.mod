module verif/tools/xlate/hpack

go 1.17
