// Translator for C49: regenerates coq/gen/Actions.v from the Go source and the module documentation.
//   action_check_table   : commands accepted by bfe_basic/action.ActionFileCheck with their parameter count (-1 = any)
//   rewrite_allowed      : keys of mod_rewrite.allowActions
//   header_check_table   : commands accepted by mod_header.ActionFileCheck with parameter count (-1 = checked elsewhere)
//   header_variables     : keys of mod_header.VariableHandlers (names usable as %name in header values)
//   redirect_check_table : commands accepted by mod_redirect.ActionFileCheck with parameter count
//   doc_rewrite / doc_header / doc_redirect : commands listed in the "### Actions" table of docs/en_us/modules/<mod>/<mod>.md
//                          (doc_header with the number of documented parameters)
//   doc_variables        : variable names (without %) of the "Builtin Variables" table of mod_header.md
//   action_header_prefix : bfe_basic/action.HeaderPrefix
// Fails (non-zero exit) if the source no longer has the expected shape.
package main

import (
	"bufio"
	"flag"
	"fmt"
	"go/ast"
	"go/parser"
	"go/token"
	"os"
	"path/filepath"
	"sort"
	"strconv"
	"strings"
)

func die(f string, a ...interface{}) {
	fmt.Fprintf(os.Stderr, "xlate/actions: "+f+"\n", a...)
	os.Exit(1)
}

// string constants of a package directory
func consts(dir string) (map[string]string, map[string]*ast.File) {
	fset := token.NewFileSet()
	pkgs, err := parser.ParseDir(fset, dir, func(fi os.FileInfo) bool { return !strings.HasSuffix(fi.Name(), "_test.go") }, 0)
	if err != nil {
		die("parse %s: %v", dir, err)
	}
	cs := map[string]string{}
	files := map[string]*ast.File{}
	for _, p := range pkgs {
		for fn, f := range p.Files {
			files[filepath.Base(fn)] = f
			for _, d := range f.Decls {
				gd, ok := d.(*ast.GenDecl)
				if !ok || gd.Tok != token.CONST {
					continue
				}
				for _, s := range gd.Specs {
					vs := s.(*ast.ValueSpec)
					for i, n := range vs.Names {
						if i < len(vs.Values) {
							if bl, ok := vs.Values[i].(*ast.BasicLit); ok && bl.Kind == token.STRING {
								v, _ := strconv.Unquote(bl.Value)
								cs[n.Name] = v
							}
						}
					}
				}
			}
		}
	}
	return cs, files
}

func strOf(e ast.Expr, cs map[string]string) (string, bool) {
	switch x := e.(type) {
	case *ast.BasicLit:
		if x.Kind == token.STRING {
			v, err := strconv.Unquote(x.Value)
			return v, err == nil
		}
	case *ast.Ident:
		v, ok := cs[x.Name]
		return v, ok
	case *ast.SelectorExpr:
		v, ok := cs[x.Sel.Name]
		return v, ok
	}
	return "", false
}

func intOf(e ast.Expr) (int, bool) {
	switch x := e.(type) {
	case *ast.BasicLit:
		if x.Kind == token.INT {
			n, err := strconv.Atoi(x.Value)
			return n, err == nil
		}
	case *ast.UnaryExpr:
		if x.Op == token.SUB {
			n, ok := intOf(x.X)
			return -n, ok
		}
	}
	return 0, false
}

func findFunc(files map[string]*ast.File, name string) *ast.FuncDecl {
	for _, f := range files {
		for _, d := range f.Decls {
			if fd, ok := d.(*ast.FuncDecl); ok && fd.Name.Name == name && fd.Recv == nil {
				return fd
			}
		}
	}
	return nil
}

type entry struct {
	name  string
	arity int
}

// the first switch statement on *conf.Cmd in fn: per case clause the command names and the parameter count found
// in the clause body: either `paramsLenCheck = N` or `if len(conf.Params) != N`; none found => -1.
func checkTable(fn *ast.FuncDecl, cs map[string]string, what string) []entry {
	var sw *ast.SwitchStmt
	ast.Inspect(fn.Body, func(n ast.Node) bool {
		if s, ok := n.(*ast.SwitchStmt); ok && sw == nil {
			if st, ok := s.Tag.(*ast.StarExpr); ok {
				if sel, ok := st.X.(*ast.SelectorExpr); ok && sel.Sel.Name == "Cmd" {
					sw = s
				}
			}
		}
		return true
	})
	if sw == nil {
		die("%s: switch *conf.Cmd not found", what)
	}
	var out []entry
	for _, st := range sw.Body.List {
		cc := st.(*ast.CaseClause)
		if cc.List == nil {
			continue // default: must be the rejecting branch
		}
		arity := -1
		found := false
		for _, b := range cc.Body {
			ast.Inspect(b, func(n ast.Node) bool {
				switch x := n.(type) {
				case *ast.AssignStmt:
					if id, ok := x.Lhs[0].(*ast.Ident); ok && id.Name == "paramsLenCheck" {
						if v, ok := intOf(x.Rhs[0]); ok && !found {
							arity, found = v, true
						}
					}
				case *ast.BinaryExpr:
					if x.Op == token.NEQ && !found {
						if call, ok := x.X.(*ast.CallExpr); ok {
							if id, ok := call.Fun.(*ast.Ident); ok && id.Name == "len" {
								if v, ok := intOf(x.Y); ok {
									arity, found = v, true
								}
							}
						}
					}
				}
				return true
			})
		}
		for _, e := range cc.List {
			s, ok := strOf(e, cs)
			if !ok {
				die("%s: case label is not a string constant", what)
			}
			out = append(out, entry{s, arity})
		}
	}
	if len(out) == 0 {
		die("%s: empty command table", what)
	}
	return out
}

// string keys of the package-level map literal `name`
func mapKeys(files map[string]*ast.File, cs map[string]string, name string) []string {
	var out []string
	for _, f := range files {
		for _, d := range f.Decls {
			gd, ok := d.(*ast.GenDecl)
			if !ok || gd.Tok != token.VAR {
				continue
			}
			for _, s := range gd.Specs {
				vs := s.(*ast.ValueSpec)
				if len(vs.Names) != 1 || vs.Names[0].Name != name || len(vs.Values) != 1 {
					continue
				}
				cl, ok := vs.Values[0].(*ast.CompositeLit)
				if !ok {
					die("%s is not a composite literal", name)
				}
				for _, el := range cl.Elts {
					kv := el.(*ast.KeyValueExpr)
					s, ok := strOf(kv.Key, cs)
					if !ok {
						die("%s key is not a string constant", name)
					}
					out = append(out, s)
				}
			}
		}
	}
	if len(out) == 0 {
		die("%s not found", name)
	}
	sort.Strings(out)
	return out
}

func allowList(files map[string]*ast.File, cs map[string]string) []string {
	var out []string
	for _, f := range files {
		for _, d := range f.Decls {
			gd, ok := d.(*ast.GenDecl)
			if !ok || gd.Tok != token.VAR {
				continue
			}
			for _, s := range gd.Specs {
				vs := s.(*ast.ValueSpec)
				if len(vs.Names) != 1 || vs.Names[0].Name != "allowActions" || len(vs.Values) != 1 {
					continue
				}
				cl, ok := vs.Values[0].(*ast.CompositeLit)
				if !ok {
					die("allowActions is not a composite literal")
				}
				for _, el := range cl.Elts {
					kv := el.(*ast.KeyValueExpr)
					s, ok := strOf(kv.Key, cs)
					if !ok {
						die("allowActions key is not a string constant")
					}
					out = append(out, s)
				}
			}
		}
	}
	if len(out) == 0 {
		die("mod_rewrite.allowActions not found")
	}
	return out
}

// rows of the markdown table that follows the heading "### Actions": first column and number of comma separated
// items of the third column (-1 if there is no third column)
func docTable(path string) []entry {
	f, err := os.Open(path)
	if err != nil {
		die("%v", err)
	}
	defer f.Close()
	var out []entry
	sc := bufio.NewScanner(f)
	in := false
	for sc.Scan() {
		ln := strings.TrimSpace(sc.Text())
		if strings.HasPrefix(ln, "#") {
			in = strings.TrimSpace(strings.TrimLeft(ln, "#")) == "Actions"
			continue
		}
		if !in || !strings.HasPrefix(ln, "|") {
			continue
		}
		cols := strings.Split(strings.Trim(ln, "|"), "|")
		name := strings.TrimSpace(cols[0])
		if name == "Action" || strings.HasPrefix(name, "-") || name == "" {
			continue
		}
		ar := -1
		if len(cols) >= 3 {
			ar = len(strings.Split(cols[2], ","))
		}
		out = append(out, entry{name, ar})
	}
	if len(out) == 0 {
		die("%s: no action table", path)
	}
	return out
}

// names listed as `| %name | ... |` in the table that follows the heading "Builtin Variables"
func docVariables(path string) []entry {
	f, err := os.Open(path)
	if err != nil {
		die("%v", err)
	}
	defer f.Close()
	var out []entry
	sc := bufio.NewScanner(f)
	in := false
	for sc.Scan() {
		ln := strings.TrimSpace(sc.Text())
		if strings.HasPrefix(ln, "#") {
			in = strings.Contains(ln, "Builtin Variables")
			continue
		}
		if !in || !strings.HasPrefix(ln, "|") {
			continue
		}
		cols := strings.Split(strings.Trim(ln, "|"), "|")
		name := strings.TrimSpace(cols[0])
		if !strings.HasPrefix(name, "%") {
			continue
		}
		out = append(out, entry{name[1:], 0})
	}
	if len(out) == 0 {
		die("%s: no variable table", path)
	}
	return out
}

func bytesLit(s string) string {
	var sb strings.Builder
	sb.WriteString("[")
	for i := 0; i < len(s); i++ {
		if i > 0 {
			sb.WriteString(";")
		}
		sb.WriteString(strconv.Itoa(int(s[i])))
	}
	sb.WriteString("]")
	return sb.String()
}

func emitTable(sb *strings.Builder, name string, es []entry, withArity bool) {
	if withArity {
		fmt.Fprintf(sb, "Definition %s : list (list Z * Z) := [\n", name)
	} else {
		fmt.Fprintf(sb, "Definition %s : list (list Z) := [\n", name)
	}
	for i, e := range es {
		sep := ";"
		if i == len(es)-1 {
			sep = ""
		}
		if withArity {
			ar := strconv.Itoa(e.arity)
			if e.arity < 0 {
				ar = "(" + ar + ")"
			}
			fmt.Fprintf(sb, "  (%s, %s)%s  (* %s *)\n", bytesLit(e.name), ar, sep, e.name)
		} else {
			fmt.Fprintf(sb, "  %s%s  (* %s *)\n", bytesLit(e.name), sep, e.name)
		}
	}
	sb.WriteString("].\n\n")
}

func main() {
	repo := flag.String("repo", "/repo", "repository root")
	out := flag.String("out", "", "output directory (coq/gen)")
	flag.Parse()
	if *out == "" {
		die("-out required")
	}
	acs, afiles := consts(filepath.Join(*repo, "bfe_basic/action"))
	afn := findFunc(afiles, "ActionFileCheck")
	if afn == nil {
		die("bfe_basic/action.ActionFileCheck not found")
	}
	actionTable := checkTable(afn, acs, "bfe_basic/action.ActionFileCheck")
	prefix, ok := acs["HeaderPrefix"]
	if !ok {
		die("HeaderPrefix not found")
	}

	_, rfiles := consts(filepath.Join(*repo, "bfe_modules/mod_rewrite"))
	allowed := allowList(rfiles, acs)
	sort.Strings(allowed)
	var allowedE []entry
	for _, a := range allowed {
		allowedE = append(allowedE, entry{a, 0})
	}

	hcs, hfiles := consts(filepath.Join(*repo, "bfe_modules/mod_header"))
	hfn := findFunc(hfiles, "ActionFileCheck")
	if hfn == nil {
		die("mod_header.ActionFileCheck not found")
	}
	headerTable := checkTable(hfn, hcs, "mod_header.ActionFileCheck")
	var headerVars []entry
	for _, v := range mapKeys(hfiles, hcs, "VariableHandlers") {
		headerVars = append(headerVars, entry{v, 0})
	}

	dcs, dfiles := consts(filepath.Join(*repo, "bfe_modules/mod_redirect"))
	dfn := findFunc(dfiles, "ActionFileCheck")
	if dfn == nil {
		die("mod_redirect.ActionFileCheck not found")
	}
	redirectTable := checkTable(dfn, dcs, "mod_redirect.ActionFileCheck")

	docs := filepath.Join(*repo, "docs/en_us/modules")
	docRewrite := docTable(filepath.Join(docs, "mod_rewrite/mod_rewrite.md"))
	docHeader := docTable(filepath.Join(docs, "mod_header/mod_header.md"))
	docRedirect := docTable(filepath.Join(docs, "mod_redirect/mod_redirect.md"))
	docVars := docVariables(filepath.Join(docs, "mod_header/mod_header.md"))

	var sb strings.Builder
	sb.WriteString("(* GENERATED by tools/xlate/actions from bfe_basic/action/action.go, bfe_modules/mod_{rewrite,header,redirect}/action.go\n")
	sb.WriteString("   and docs/en_us/modules/mod_{rewrite,header,redirect}/*.md -- do not edit. *)\n")
	sb.WriteString("From Coq Require Import List ZArith.\nImport ListNotations.\nOpen Scope Z_scope.\n\n")
	emitTable(&sb, "action_check_table", actionTable, true)
	fmt.Fprintf(&sb, "Definition action_header_prefix : list Z := %s.  (* %s *)\n\n", bytesLit(prefix), prefix)
	emitTable(&sb, "rewrite_allowed", allowedE, false)
	emitTable(&sb, "header_check_table", headerTable, true)
	emitTable(&sb, "header_variables", headerVars, false)
	emitTable(&sb, "redirect_check_table", redirectTable, true)
	emitTable(&sb, "doc_rewrite", docRewrite, false)
	emitTable(&sb, "doc_header", docHeader, true)
	emitTable(&sb, "doc_redirect", docRedirect, false)
	emitTable(&sb, "doc_variables", docVars, false)
	p := filepath.Join(*out, "Actions.v")
	old, _ := os.ReadFile(p)
	if string(old) != sb.String() {
		if err := os.WriteFile(p, []byte(sb.String()), 0644); err != nil {
			die("%v", err)
		}
	}
}
