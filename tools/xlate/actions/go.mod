module verif/tools/xlate/actions

go 1.13
