module verif/tools/xlate/h2consts

go 1.13
