module verif/tools/xlate/cond

go 1.13
