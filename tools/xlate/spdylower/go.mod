module verif/tools/xlate/spdylower

go 1.13
