module verif/tools/xlate/hopheaders

go 1.17
