module verif/tools/xlate/tlssuites

go 1.17
