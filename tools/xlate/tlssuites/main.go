// Translator for C41: /repo/bfe_tls/{cipher_suites.go,common.go} -> coq/gen/TlsSuites.v
// (cipherSuites table as (id, flags); suite flag bits; protocol version constants and defaults;
//  TLS_FALLBACK_SCSV; the id sets of CheckSuiteECDHE and checkCipherSuiteHttp2Accepted; grade
//  names; curve / point-format / compression constants used by readClientHello).
// Fails loudly when the expected shape is not found; writes the .v only when content changes.
package main

import (
	"bytes"
	"flag"
	"fmt"
	"go/ast"
	"go/parser"
	"go/token"
	"os"
	"path/filepath"
	"strconv"
	"strings"
)

func die(f string, a ...interface{}) {
	fmt.Fprintf(os.Stderr, "xlate/tlssuites: "+f+"\n", a...)
	os.Exit(1)
}

var consts = map[string]int64{}
var strConsts = map[string]string{}

func eval(e ast.Expr, iota int64) (int64, bool) {
	switch x := e.(type) {
	case *ast.BasicLit:
		if x.Kind == token.INT {
			v, err := strconv.ParseInt(x.Value, 0, 64)
			if err != nil {
				return 0, false
			}
			return v, true
		}
	case *ast.Ident:
		if x.Name == "iota" {
			return iota, true
		}
		v, ok := consts[x.Name]
		return v, ok
	case *ast.ParenExpr:
		return eval(x.X, iota)
	case *ast.BinaryExpr:
		a, ok1 := eval(x.X, iota)
		b, ok2 := eval(x.Y, iota)
		if !ok1 || !ok2 {
			return 0, false
		}
		switch x.Op {
		case token.OR:
			return a | b, true
		case token.SHL:
			return a << uint(b), true
		case token.ADD:
			return a + b, true
		}
	}
	return 0, false
}

func collectConsts(file *ast.File) {
	for _, d := range file.Decls {
		gd, ok := d.(*ast.GenDecl)
		if !ok || gd.Tok != token.CONST {
			continue
		}
		var last []ast.Expr
		for i, s := range gd.Specs {
			vs := s.(*ast.ValueSpec)
			vals := vs.Values
			if len(vals) == 0 {
				vals = last
			} else {
				last = vals
			}
			for j, n := range vs.Names {
				if j >= len(vals) {
					continue
				}
				if bl, ok := vals[j].(*ast.BasicLit); ok && bl.Kind == token.STRING {
					s, _ := strconv.Unquote(bl.Value)
					strConsts[n.Name] = s
					continue
				}
				if v, ok := eval(vals[j], int64(i)); ok {
					consts[n.Name] = v
				}
			}
		}
	}
}

func need(name string) int64 {
	v, ok := consts[name]
	if !ok {
		die("constant %s not found", name)
	}
	return v
}

// ids for which a `switch id { case X: return true ... }` function returns true
func switchTrueIds(file *ast.File, fn string) []int64 {
	for _, d := range file.Decls {
		fd, ok := d.(*ast.FuncDecl)
		if !ok || fd.Name.Name != fn || fd.Recv != nil {
			continue
		}
		var out []int64
		found := false
		for _, st := range fd.Body.List {
			sw, ok := st.(*ast.SwitchStmt)
			if !ok {
				if rs, ok := st.(*ast.ReturnStmt); ok && found {
					if id, ok := rs.Results[0].(*ast.Ident); !ok || id.Name != "false" {
						die("%s: trailing return is not false", fn)
					}
				}
				continue
			}
			found = true
			for _, c := range sw.Body.List {
				cc := c.(*ast.CaseClause)
				if len(cc.Body) != 1 {
					die("%s: unexpected case body", fn)
				}
				rs, ok := cc.Body[0].(*ast.ReturnStmt)
				if !ok || len(rs.Results) != 1 {
					die("%s: unexpected case body", fn)
				}
				val := rs.Results[0].(*ast.Ident).Name
				if cc.List == nil { // default
					if val != "false" {
						die("%s: default is not false", fn)
					}
					continue
				}
				if val != "true" {
					die("%s: case does not return true", fn)
				}
				for _, e := range cc.List {
					v, ok := eval(e, 0)
					if !ok {
						die("%s: cannot evaluate case label", fn)
					}
					out = append(out, v)
				}
			}
		}
		if !found {
			die("%s: no switch found", fn)
		}
		return out
	}
	die("function %s not found", fn)
	return nil
}

func zlist(xs []int64) string {
	s := make([]string, len(xs))
	for i, x := range xs {
		s[i] = strconv.FormatInt(x, 10)
	}
	return "[" + strings.Join(s, "; ") + "]"
}

func coqBytes(s string) string {
	p := make([]string, len(s))
	for i := 0; i < len(s); i++ {
		p[i] = strconv.Itoa(int(s[i]))
	}
	return "[" + strings.Join(p, "; ") + "]"
}

func main() {
	repo := flag.String("repo", "/repo", "bfe source tree")
	out := flag.String("out", "", "output directory (coq/gen)")
	flag.Parse()
	if *out == "" {
		die("-out required")
	}
	fset := token.NewFileSet()
	var files []*ast.File
	for _, n := range []string{"common.go", "cipher_suites.go"} {
		src := filepath.Join(*repo, "bfe_tls", n)
		f, err := parser.ParseFile(fset, src, nil, 0)
		if err != nil {
			die("parse %s: %v", src, err)
		}
		files = append(files, f)
	}
	// two passes so that constants defined from other constants resolve regardless of order
	for pass := 0; pass < 2; pass++ {
		for _, f := range files {
			collectConsts(f)
		}
	}
	cs := files[1]
	var table *ast.CompositeLit
	for _, d := range cs.Decls {
		gd, ok := d.(*ast.GenDecl)
		if !ok || gd.Tok != token.VAR {
			continue
		}
		for _, s := range gd.Specs {
			vs := s.(*ast.ValueSpec)
			for i, n := range vs.Names {
				if n.Name == "cipherSuites" && i < len(vs.Values) {
					table, _ = vs.Values[i].(*ast.CompositeLit)
				}
			}
		}
	}
	if table == nil {
		die("var cipherSuites composite literal not found")
	}
	// the struct must have id first and flags sixth
	okShape := false
	for _, d := range cs.Decls {
		gd, ok := d.(*ast.GenDecl)
		if !ok || gd.Tok != token.TYPE {
			continue
		}
		for _, s := range gd.Specs {
			ts := s.(*ast.TypeSpec)
			if ts.Name.Name != "cipherSuite" {
				continue
			}
			st := ts.Type.(*ast.StructType)
			var names []string
			for _, f := range st.Fields.List {
				for _, n := range f.Names {
					names = append(names, n.Name)
				}
			}
			if len(names) >= 6 && names[0] == "id" && names[5] == "flags" {
				okShape = true
			}
		}
	}
	if !okShape {
		die("type cipherSuite: expected fields id (1st) and flags (6th)")
	}
	var rows []string
	for i, e := range table.Elts {
		cl, ok := e.(*ast.CompositeLit)
		if !ok || len(cl.Elts) < 6 {
			die("cipherSuites[%d]: unexpected element", i)
		}
		id, ok1 := eval(cl.Elts[0], 0)
		fl, ok2 := eval(cl.Elts[5], 0)
		if !ok1 || !ok2 {
			die("cipherSuites[%d]: cannot evaluate id/flags", i)
		}
		rows = append(rows, fmt.Sprintf("  (%d, %d)", id, fl))
	}
	if len(rows) == 0 {
		die("cipherSuites is empty")
	}
	grade := func(n string) string {
		s, ok := strConsts[n]
		if !ok {
			die("string constant %s not found", n)
		}
		return coqBytes(s)
	}
	var b bytes.Buffer
	b.WriteString("(* GENERATED by tools/xlate/tlssuites from /repo/bfe_tls/cipher_suites.go and common.go -- do not edit. *)\n")
	b.WriteString("From Coq Require Import List ZArith.\nImport ListNotations.\nOpen Scope Z_scope.\n\n")
	b.WriteString("(* cipherSuites: (id, flags) in table order *)\nDefinition suite_table : list (Z * Z) := [\n" + strings.Join(rows, ";\n") + "\n].\n\n")
	for _, p := range [][2]string{{"fl_ecdhe", "suiteECDHE"}, {"fl_ecdsa", "suiteECDSA"}, {"fl_tls12", "suiteTLS12"},
		{"fl_rc4", "suiteRC4"}, {"fl_chacha20", "suiteChacha20"},
		{"version_ssl30", "VersionSSL30"}, {"version_tls10", "VersionTLS10"}, {"version_tls11", "VersionTLS11"},
		{"version_tls12", "VersionTLS12"}, {"default_min_version", "minVersion"}, {"default_max_version", "maxVersion"},
		{"tls_fallback_scsv", "TLS_FALLBACK_SCSV"}, {"curve_p256", "CurveP256"}, {"curve_p384", "CurveP384"},
		{"curve_p521", "CurveP521"}, {"point_format_uncompressed", "pointFormatUncompressed"},
		{"compression_none", "compressionNone"}, {"rc4_disable", "disableRC4"}, {"rc4_enable", "enableRC4"},
		{"rc4_only", "onlyRC4"}} {
		b.WriteString(fmt.Sprintf("Definition %s : Z := %d.\n", p[0], need(p[1])))
	}
	b.WriteString("\nDefinition ecdhe_ids : list Z := " + zlist(switchTrueIds(cs, "CheckSuiteECDHE")) + ".\n")
	b.WriteString("Definition h2_accepted_ids : list Z := " + zlist(switchTrueIds(cs, "checkCipherSuiteHttp2Accepted")) + ".\n\n")
	b.WriteString("Definition grade_aplus : list Z := " + grade("GradeAPlus") + ".\n")
	b.WriteString("Definition grade_a : list Z := " + grade("GradeA") + ".\n")
	b.WriteString("Definition grade_b : list Z := " + grade("GradeB") + ".\n")
	b.WriteString("Definition grade_c : list Z := " + grade("GradeC") + ".\n")
	dst := filepath.Join(*out, "TlsSuites.v")
	if old, err := os.ReadFile(dst); err == nil && bytes.Equal(old, b.Bytes()) {
		return
	}
	if err := os.WriteFile(dst, b.Bytes(), 0o644); err != nil {
		die("write %s: %v", dst, err)
	}
}
