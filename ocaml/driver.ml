(* Generic line-protocol driver around the extracted model (module Model: run agree prop kf, type val).
   Hand-written, unverified; cross-checked on every run by the in-Coq vm_compute sample.
   stdin : "<class> <input val> => <impl output val>" per line (lines starting with '#' are skipped)
   stdout: "<agree 0/1> <prop 0/1> <kf int> <model output val>" per case line *)
open Model

let rec pos_of_int n = if n = 1 then XH else if n land 1 = 0 then XO (pos_of_int (n lsr 1)) else XI (pos_of_int (n lsr 1))
let z_of_int n = if n = 0 then Z0 else if n > 0 then Zpos (pos_of_int n) else Zneg (pos_of_int (-n))
let rec int_of_pos = function XH -> 1 | XO p -> 2 * int_of_pos p | XI p -> 2 * int_of_pos p + 1
let rec pos_bits = function XH -> 1 | XO p | XI p -> 1 + pos_bits p

(* decimal digit arrays for numbers beyond 62 bits *)
let pos_of_decimal (s : string) : positive =
  (* s: non-empty decimal digits, value > 0 *)
  let d = Array.init (String.length s) (fun i -> Char.code s.[i] - 48) in
  let is_zero () = Array.for_all (fun x -> x = 0) d in
  let div2 () = let r = ref 0 in
    Array.iteri (fun i x -> let v = !r * 10 + x in d.(i) <- v / 2; r := v mod 2) d; !r in
  let bits = ref [] in
  while not (is_zero ()) do bits := div2 () :: !bits done;
  (* bits: MSB first *)
  match !bits with
  | [] -> failwith "pos_of_decimal 0"
  | _ :: rest -> List.fold_left (fun acc b -> if b = 1 then XI acc else XO acc) XH rest
let decimal_of_pos (p : positive) : string =
  let rec bits p acc = match p with XH -> 1 :: acc | XO q -> bits q (0 :: acc) | XI q -> bits q (1 :: acc) in
  let bl = bits p [] in (* MSB first *)
  let d = ref [0] in (* little endian digits *)
  let mul2add b = let carry = ref b in
    d := List.map (fun x -> let v = 2 * x + !carry in carry := v / 10; v mod 10) !d;
    if !carry > 0 then d := !d @ [!carry] in
  List.iter mul2add bl;
  String.concat "" (List.rev_map string_of_int !d)

let z_of_string (s : string) : z =
  let neg = String.length s > 0 && s.[0] = '-' in
  let body = if neg then String.sub s 1 (String.length s - 1) else s in
  if String.length body = 0 then failwith ("bad int: " ^ s);
  String.iter (fun c -> if c < '0' || c > '9' then failwith ("bad int: " ^ s)) body;
  if String.length body <= 17 then z_of_int (int_of_string s)
  else if String.for_all (fun c -> c = '0') body then Z0
  else let p = pos_of_decimal body in if neg then Zneg p else Zpos p
let string_of_pos p = if pos_bits p <= 61 then string_of_int (int_of_pos p) else decimal_of_pos p
let string_of_z = function Z0 -> "0" | Zpos p -> string_of_pos p | Zneg p -> "-" ^ string_of_pos p

let zbyte = Array.init 256 z_of_int
let hexv c = match c with '0'..'9' -> Char.code c - 48 | 'a'..'f' -> Char.code c - 87 | _ -> failwith "bad hex"
let bytes_of_hex (s : string) (off : int) : z list =
  let n = (String.length s - off) / 2 in
  if (String.length s - off) land 1 = 1 then failwith "odd hex";
  let rec go i acc = if i < 0 then acc else go (i - 1) (zbyte.(hexv s.[off + 2*i] * 16 + hexv s.[off + 2*i + 1]) :: acc) in
  go (n - 1) []
let hexd = "0123456789abcdef"
let int_of_z_small = function Z0 -> 0 | Zpos p -> int_of_pos p | Zneg p -> - (int_of_pos p)

let rec print_val (b : Buffer.t) (v : val0) : unit =
  match v with
  | VZ z -> Buffer.add_string b (string_of_z z)
  | VB l -> Buffer.add_char b 'x';
    List.iter (fun z -> let n = int_of_z_small z in
                if n < 0 || n > 255 then Buffer.add_string b (Printf.sprintf "<%d>" n)
                else (Buffer.add_char b hexd.[n lsr 4]; Buffer.add_char b hexd.[n land 15])) l
  | VL l -> Buffer.add_char b '[';
    List.iteri (fun i x -> if i > 0 then Buffer.add_char b ' '; print_val b x) l;
    Buffer.add_char b ']'

(* tokens: "[" "]" "x..." ints ; '[' and ']' may be glued to neighbours *)
let tokenize (s : string) : string list =
  let toks = ref [] and cur = Buffer.create 16 in
  let flush () = if Buffer.length cur > 0 then (toks := Buffer.contents cur :: !toks; Buffer.clear cur) in
  String.iter (fun c -> match c with
    | ' ' | '\t' | '\r' -> flush ()
    | '[' | ']' -> flush (); toks := String.make 1 c :: !toks
    | c -> Buffer.add_char cur c) s;
  flush (); List.rev !toks

let rec parse_val (toks : string list) : val0 * string list =
  match toks with
  | [] -> failwith "unexpected end"
  | "[" :: r -> let rec items acc r = (match r with
                  | "]" :: r' -> (VL (List.rev acc), r')
                  | _ -> let (v, r') = parse_val r in items (v :: acc) r') in items [] r
  | t :: r when String.length t > 0 && t.[0] = 'x' -> (VB (bytes_of_hex t 1), r)
  | t :: r -> (VZ (z_of_string t), r)

let () =
  let out = Buffer.create 65536 in
  (try while true do
     let line = input_line stdin in
     if String.length line > 0 && line.[0] <> '#' then begin
       let toks = tokenize line in
       match toks with
       | _cls :: rest ->
         let (i, r1) = parse_val rest in
         (match r1 with
          | "=>" :: r2 ->
            let (o, r3) = parse_val r2 in
            if r3 <> [] then failwith ("trailing tokens: " ^ line);
            let m = run i in
            let a = agree i o and p = prop i o and k = kf i in
            Buffer.add_string out (if a then "1 " else "0 ");
            Buffer.add_string out (if p then "1 " else "0 ");
            Buffer.add_string out (string_of_z k); Buffer.add_char out ' ';
            print_val out m; Buffer.add_char out '\n';
            if Buffer.length out > 60000 then (print_string (Buffer.contents out); Buffer.clear out)
          | _ -> failwith ("missing => : " ^ line))
       | [] -> ()
     end
   done with End_of_file -> ());
  print_string (Buffer.contents out)
