From Bfe Require Import lib.Val model.CondPrim run.RunC18.
Theorem C18_tmp : True. Proof. exact I. Qed.
Print Assumptions C18_tmp.
