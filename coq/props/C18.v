(* C18: condition primitives implement their documented matching.  Property theorems only.
   Model: coq/model/CondPrim.v -- fetchers and matchers of primitive.go; buildPrimitive is interpreted over the
   wiring table coq/gen/CondProtos.v regenerated from build.go on every run.  Documentation side: string_specs /
   spec_match in the same file, written from docs/en_us/condition/**.  External functions (regexp, net.ParseIP,
   murmur3, time parsing) are the fields of [ext], universally quantified.  Fold-case is ASCII. *)
From Coq Require Import List ZArith Bool.
From Bfe Require Import lib.Val lib.Bytes gen.CondProtos model.CondParse model.CondPrim proofs.CondPrimProofs run.RunC18.
Import ListNotations.
Open Scope Z_scope.

(* Table theorem: each of the 37 documented string primitives (host/path/url/ua/query/cookie/header/response/
   tls/context families) is wired by buildPrimitive to the fetcher of its documented attribute and to the matcher
   constructor of its documented test, with the documented argument positions and case-insensitivity flag. *)
Theorem C18_wiring_matches_doc : forallb srow_compat string_specs = true.
Proof. exact string_specs_compat. Qed.
Print Assumptions C18_wiring_matches_doc.

(* For every external-function record x, every documented string primitive name, every argument list that Build
   accepts, and every request r outside known-finding class 1: Match returns exactly the documented verdict --
   exact / one-of / prefix / suffix / substring / path-element-prefix / regexp / hash-bucket test with the documented
   case handling on the documented attribute, and false when the attribute is missing. *)
Theorem C18_string_primitives_meet_doc : forall x name args r c s,
  lookup name string_specs = Some s -> build_call x name args = Some c -> kf1 x name args r = false ->
  spec_match x name args r = Some (cond_match x c r).
Proof. exact string_prims_meet_spec. Qed.
Print Assumptions C18_string_primitives_meet_doc.

(* The matcher lemmas behind it: the code upper-cases both sides, the documentation says "case insensitive". *)
Theorem C18_in_spec : forall f pats v,
  mem_bytes (fold_up f v) (map (fold_up f) pats) = existsb (fun p => ci_eq f p v) pats.
Proof. exact in_spec. Qed.
Print Assumptions C18_in_spec.
Theorem C18_prefix_spec : forall f pats v,
  existsb (fun p => is_prefix p (fold_up f v)) (map (fold_up f) pats) = existsb (fun p => is_prefix (ci f p) (ci f v)) pats.
Proof. exact prefix_spec. Qed.
Theorem C18_suffix_spec : forall f pats v,
  existsb (fun p => is_suffix p (fold_up f v)) (map (fold_up f) pats) = existsb (fun p => is_suffix (ci f p) (ci f v)) pats.
Proof. exact suffix_spec. Qed.
Theorem C18_contain_spec : forall f pats v,
  existsb (fun p => contains p (fold_up f v)) (map (fold_up f) pats) = existsb (fun p => contains (ci f p) (ci f v)) pats.
Proof. exact contain_spec. Qed.
Theorem C18_path_element_spec : forall f pats v,
  existsb (fun p => is_prefix p (fold_up f (add_slash v))) (map (fun q => fold_up f (add_slash q)) pats)
  = existsb (fun p => is_prefix (ci f (add_slash p)) (ci f (add_slash v))) pats.
Proof. exact pathelem_spec. Qed.
Print Assumptions C18_path_element_spec.

(* "A missing attribute makes the primitive false": full statement
     forall x name args r c, build_call x name args = Some c -> attr_missing name args r = true -> cond_match x c r = false
   is FALSE of the code (C18_missing_false_refuted); proved with the guard that excludes exactly finding class 1
   (header / query value and User-Agent primitives whose test accepts the empty string). *)
Theorem C18_missing_false_partial : forall x name args r c,
  build_call x name args = Some c -> attr_missing name args r = true -> kf1 x name args r = false ->
  cond_match x c r = false.
Proof. exact missing_false_partial. Qed.
Print Assumptions C18_missing_false_partial.
Theorem C18_missing_false_refuted : exists x name args r c,
  build_call x name args = Some c /\ attr_missing name args r = true /\ cond_match x c r = true.
Proof. exact missing_refuted. Qed.
Print Assumptions C18_missing_false_refuted.

(* ALL 56 primitives (the 37 string primitives above and default_t, req_cip_trusted, req_proto_secure,
   req_query_exist, ses_tls_client_auth, the four IP ranges, req_vip_in, req_cip_hash_in, the five *_key_in /
   key_prefix_in primitives, req_tag_match and the two time ranges): for all external functions x, every call that
   Build accepts and every request outside finding classes 1 and 2, Match returns the documented verdict doc_match
   (inclusive IP ranges on the 16-byte form, hash bucket membership, key presence, tag name before ':', inclusive
   time windows in the pattern's zone; false when the inspected address / response / TLS state is missing). *)
Theorem C18_model_meets_doc : forall x name args r c,
  build_call x name args = Some c -> kf1 x name args r = false -> kf2 name args r = false ->
  doc_match x name args r = Some (cond_match x c r).
Proof. exact model_meets_doc. Qed.
Print Assumptions C18_model_meets_doc.

(* Every implementation observation that agrees with the model satisfies the executable property outside the
   listed finding classes. *)
Theorem C18_agree_implies_prop : forall i o, agree_C18 i o = true -> kf_C18 i = 0 -> prop_C18 i o = true.
Proof. exact agree_implies_prop_C18. Qed.
Print Assumptions C18_agree_implies_prop.

(* Central theorem: on every input outside the two finding classes the model's answer satisfies the property. *)
Theorem C18_prop_of_model : forall i, kf_C18 i = 0 -> prop_C18 i (run_C18 i) = true.
Proof. exact prop_C18_of_model. Qed.
Print Assumptions C18_prop_of_model.

(* Non-vacuity *)
Example C18_ex_host : forall x,
  option_map (fun c => cond_match x c {| r_host := [69;120;46;99;111;109;58;56;48]; r_hosttag := []; r_secure := false;
     r_sproto := []; r_hproto := []; r_method := []; r_tags := None; r_uri := []; r_path := []; r_query := [];
     r_cookies := []; r_headers := []; r_resp := None; r_cip := None; r_sip := None; r_vip := None; r_trusted := false;
     r_tls := None; r_context := None |})
    (build_call x (* req_host_in *) [114;101;113;95;104;111;115;116;95;105;110] [(1, (* "a|ex.COM" *) [97;124;101;120;46;67;79;77])])
  = Some true.
Proof. intros x. vm_compute. reflexivity. Qed.
