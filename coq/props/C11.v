(* C11: basic route rules follow the documented precedence.  Property theorems only.
   Model: model/BasicRoute.v (basic_rule_tree.go: hostTrees/pathTrees over radix trees; route_table_load.go checks).
   `load_rules rules` is convertBasicRule for one product (None = the loader rejects the rule set: a host or path
   fails checkHostInBasicRule/checkPathInBasicRule, an empty rule, or a duplicate path key within one host key).
   `doc_route rules host path` is the documented choice (docs/zh_cn/introduction/route.md, "basic rule matching
   order") computed from the flat rule list, without trees and without string reversal:
     host class = the rules whose exact host equals the request host (case-insensitive, one trailing dot ignored);
                  if there is none, the rules "*.suffix" with  host = label ++ suffix  for ONE dot-free label;
                  if there is none, the any-host rules ("*" or no host);   classes are never mixed;
     inside the class = the rule whose exact path equals the request path; else the prefix rule "P*" with the
                  longest key (P + "/") that is a prefix of the request path + "/"; the any-path rule "*" has the
                  empty key and is therefore last. *)
From Coq Require Import List ZArith Bool.
From Bfe Require Import lib.Val lib.ValProofs lib.Bytes model.BasicRoute proofs.BasicRouteProofs run.RunC11.
Import ListNotations.
Open Scope Z_scope.

(* HEADLINE.  For every rule set the loader accepts and every request host/path, BasicRouteRuleTree.Get on the
   tree built by Insert returns exactly the documented choice. *)
Theorem C11_get_refines_doc : forall rules t host path,
  load_rules rules = Some t -> tree_get t host path = doc_route rules host path.
Proof. exact get_refines_doc. Qed.
Print Assumptions C11_get_refines_doc.

(* No fallback to another host class: the first non-empty class (exact, single-label wildcard, any-host) decides,
   even when no path rule inside it matches (the lookup then misses and the advanced rules take over). *)
Theorem C11_no_cross_class_fallback : forall rules t host path,
  load_rules rules = Some t ->
  let ents := entries_of rules in
  let H := nh host in
  (filter (host_exact H) ents <> [] ->
     tree_get t host path = path_select (filter (host_exact H) ents) path) /\
  (filter (host_exact H) ents = [] -> filter (host_wild H) ents <> [] ->
     tree_get t host path = path_select (filter (host_wild H) ents) path) /\
  (filter (host_exact H) ents = [] -> filter (host_wild H) ents = [] ->
     tree_get t host path = path_select (filter host_any ents) path).
Proof. exact no_cross_class_fallback. Qed.
Print Assumptions C11_no_cross_class_fallback.

(* A wildcard host matches exactly one label: host_wild holds iff the normalised request host is
   label ++ suffix with a dot-free label ("*.a.com" matches "b.a.com", not "c.b.a.com", not "a.com"). *)
Theorem C11_wildcard_single_label : forall S H,
  one_label_before S H = true <-> exists L, H = L ++ S /\ has_dot L = false.
Proof. exact one_label_iff. Qed.
Print Assumptions C11_wildcard_single_label.

(* The prefix rule chosen is a longest one. *)
Theorem C11_longest_path_elements : forall l,
  match longest_entry l with
  | Some e => In e l /\ forall e', In e' l -> (length (pkey (e_path e')) <= length (pkey (e_path e)))%nat
  | None => l = []
  end.
Proof. exact longest_entry_spec. Qed.
Print Assumptions C11_longest_path_elements.

(* Prefix rules match whole path elements: the key is empty (any path) or ends with "/", and is a prefix of the
   request path with "/" appended when missing; hence "/foo*" matches "/foo", "/foo/" and "/foo/bar", not "/foobar". *)
Theorem C11_prefix_on_elements : forall path e,
  path_prefix path e = true ->
  (exists rest, slash_end path = pkey (e_path e) ++ rest) /\
  (pkey (e_path e) = [] \/ exists k0, pkey (e_path e) = k0 ++ [SLASH]).
Proof. exact path_prefix_elements. Qed.
Print Assumptions C11_prefix_on_elements.

(* Using the exported API directly (NewBasicRouteRuleTree + Insert per rule) on rules that pass the loader's checks
   builds the same tree as the loader, so the headline theorem covers both ways of building a tree. *)
Theorem C11_insert_all_checked : forall rules,
  forallb check_rule rules = true -> insert_all rules = load_rules rules.
Proof. exact insert_all_checked. Qed.
Print Assumptions C11_insert_all_checked.

(* CENTRAL THEOREM.  The executable property the harness evaluates on the implementation's observations holds of the
   model on every well-formed input (mode 0 = through the loader, mode 1 = direct Insert; rule list; query list).
   There is no known-finding class (kf_C11 = 0). *)
Theorem C11_prop_of_model : forall i, wf_C11 i = true -> kf_C11 i = 0 -> prop_C11 i (run_C11 i) = true.
Proof. exact prop_C11_of_model. Qed.
Print Assumptions C11_prop_of_model.
(* a corpus case (corpus/C11/doc.case, "wf-example": rule {*.a.com, /x*} -> C, lookups b.a.com /x/y) is well-formed *)
Example C11_wf_example :
  wf_C11 (VL [VZ 0; VL [VL [VL [VB [42;46;97;46;99;111;109]]; VL [VB [47;120;42]]; VB [67]]];
              VL [VL [VB [98;46;97;46;99;111;109]; VB [47;120;47;121]]]]) = true.
Proof. exact eq_refl. Qed.

(* Tests (vm_compute): every row of the host and path tables of route.md and its two worked examples, through
   the loader and the tree; also non-vacuity of the theorems above (accepted rule sets, hits in all classes). *)
From Coq Require Import String.
Local Open Scope string_scope.
Example C11_doc_host_table :
  via_tree (one "*" "/") "www.test1.com" "/" = hit /\
  via_tree (one "" "/") "www.test1.com" "/" = hit /\
  via_tree (one "*.test1.com" "") "host.test1.com" "/x" = hit /\
  via_tree (one "*.test1.com" "") "vip.host.test1.com" "/x" = miss /\
  via_tree (one "*.test1.com" "") "example.com" "/x" = miss /\
  via_tree (one "*.test1.com" "") "test1.com" "/x" = miss.
Proof. exact doc_host_table. Qed.
Example C11_doc_path_table :
  via_tree (one "h" "*") "h" "" = hit /\ via_tree (one "h" "") "h" "" = hit /\
  via_tree (one "h" "*") "h" "/" = hit /\ via_tree (one "h" "*") "h" "/a/b" = hit /\
  via_tree (one "h" "/") "h" "" = miss /\ via_tree (one "h" "/") "h" "/" = hit /\ via_tree (one "h" "/") "h" "/a" = miss /\
  via_tree (one "h" "/*") "h" "" = miss /\ via_tree (one "h" "/*") "h" "/" = hit /\ via_tree (one "h" "/*") "h" "/a" = hit /\
  via_tree (one "h" "/*") "h" "/a/b" = hit /\ via_tree (one "h" "/*") "h" "/a/" = hit /\
  via_tree (one "h" "/a/b/*") "h" "/a/b/c" = hit /\ via_tree (one "h" "/a/b/*") "h" "/a/b/c/d" = hit /\
  via_tree (one "h" "/a/b/*") "h" "/a/b" = hit /\ via_tree (one "h" "/a/b/*") "h" "/a/c" = miss /\
  via_tree (one "h" "/a/b/*") "h" "/a/" = miss.
Proof. exact doc_path_table. Qed.
Example C11_doc_examples :
  via_tree doc_rules4 "vip.b.test1.com" "/interface/d" = Some (Some (b "PhpCluster")) /\
  via_tree doc_rules4 "vip.b.test1.com" "/other" = Some (Some (b "StaticCluster2")) /\
  via_tree doc_rules4 "www.test1.com" "/other" = Some None /\
  via_tree doc_rules4 "WWW.Test1.com." "/interface/d" = Some (Some (b "PhpCluster4")) /\
  via_tree doc_demo "www.a.com" "/a/b" = Some (Some (b "Demo-B")) /\
  via_tree doc_demo "www.a.com" "/a/b/c" = Some (Some (b "Demo-A")) /\
  via_tree doc_demo "www.a.com" "/ab" = Some None /\
  via_tree doc_demo "x.a.com" "/ab" = Some (Some (b "Demo-C")) /\
  via_tree doc_demo "www.c.com" "/" = Some (Some (b "ADVANCED_MODE")) /\
  via_tree doc_demo "www.d.com" "/" = Some None /\
  load_rules [mkRule [b "h"] [b "/foo*"; b "/foo/*"] (b "C")] = None.
Proof. exact doc_examples. Qed.
