(* C11: basic route rules follow the documented precedence.  Property theorems only. *)
From Coq Require Import List ZArith Bool.
From Bfe Require Import lib.Val lib.Bytes model.BasicRoute run.RunC11.
Import ListNotations.
Open Scope Z_scope.

Example C11_placeholder : kf_C11 (VL []) = 0.
Proof. exact eq_refl. Qed.
Print Assumptions C11_placeholder.
