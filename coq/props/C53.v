(* C53: rate limiting jails keys after the threshold.  Property theorems only.
   cfg = (period, stay, threshold) of one prison rule; step1/run1 = recordAndCheck for one key over request
   times; run_ops = the rule over a history of (key, time) requests; the clock is an input. *)
From Coq Require Import List ZArith Bool.
From Bfe Require Import lib.Val lib.ValProofs model.Prison proofs.PrisonProofs run.RunC53.
Import ListNotations.
Open Scope Z_scope.

(* Jail after the threshold.  For every rule with threshold >= 1 and stay > 0 and every key not yet known to the
   rule: a first request at t1 followed by threshold-1 further requests at arbitrary times ts inside
   [.., t1+period] are all admitted; one more request at any t <= t1+period (the (threshold+1)-th inside one
   period) is denied, and the key is left in prison with free time t1 + period + stay
   (StayPeriod plus the rest of that period). *)
Theorem C53_jail_after_threshold : forall c t1 ts t,
  1 <= c_threshold c -> 0 < c_stay c ->
  Z.of_nat (length ts) = c_threshold c - 1 ->
  Forall (fun x => x <= t1 + c_period c) ts -> t <= t1 + c_period c ->
  run1 c (None, None) (t1 :: ts ++ [t]) = repeat false (S (length ts)) ++ [true] /\
  final1 c (None, None) (t1 :: ts ++ [t]) = (None, Some (t1 + c_period c + c_stay c)).
Proof. exact jail_after_threshold_lemma. Qed.
Print Assumptions C53_jail_after_threshold.

(* Requests below the threshold are never denied.  For every rule (period >= 0) and every non-decreasing sequence
   of request times of one key, starting from an unknown key: if every window [a, a+period] that starts at one of
   the request times a contains at most threshold requests (count_in), then no request is denied. *)
Theorem C53_below_threshold_never_denied : forall c ts,
  0 <= c_period c -> (match ts with [] => True | t :: r => nondecr t r end) ->
  (forall a, In a ts -> count_in ts a (a + c_period c) <= c_threshold c) ->
  run1 c (None, None) ts = repeat false (length ts).
Proof. exact below_threshold_never_denied_lemma. Qed.
Print Assumptions C53_below_threshold_never_denied.

(* While in prison: every request of the key at a time before the free time f is denied and leaves the
   prison record unchanged (denied requests are not counted and do not extend the sentence). *)
Theorem C53_stays_jailed : forall c f ts, Forall (fun t => t < f) ts ->
  run1 c (None, Some f) ts = repeat true (length ts) /\ final1 c (None, Some f) ts = (None, Some f).
Proof. exact stays_jailed_lemma. Qed.
Print Assumptions C53_stays_jailed.

(* Release: the first request at or after the free time is admitted, the prison record is removed and a fresh
   counting window (count 1, start t) begins. *)
Theorem C53_release : forall c f t, 1 <= c_threshold c -> f <= t ->
  step1 c (None, Some f) t = ((Some (1, t), None), false).
Proof. exact release_lemma. Qed.
Print Assumptions C53_release.

(* Other keys are unaffected: in every history (any interleaving, any times) the verdicts given to key k are
   exactly those of the single-key machine run on the times of k's own requests (no-eviction model). *)
Theorem C53_keys_independent : forall c k ops, 0 <= k ->
  verdicts_of k ops (run_ops c empty_state ops) = run1 c (None, None) (times_of k ops).
Proof. exact keys_independent. Qed.
Print Assumptions C53_keys_independent.

(* For all rules and all histories (all keys, all timings, sorted or not) the modelled rule gives exactly the
   verdicts of the reference automaton written from the statement (spec_run in run/RunC53.v: a window opens at
   the first counted request and lasts period; the (threshold+1)-th request in it jails the key until
   window start + period + stay; jailed requests are denied and not counted; afterwards a new window opens). *)
Theorem C53_model_is_reference : forall c ops,
  run_ops c empty_state ops = spec_run c (fun _ => k0) ops.
Proof. exact model_is_reference. Qed.
Print Assumptions C53_model_is_reference.

(* With bounded dictionaries (LRU eviction of counters and prison records, reloads) a key may be forgotten, but nobody
   is denied without cause: for every rule with period >= 0, every capacity and every history whose request times are
   non-decreasing and whose reloads change only the dictionary sizes (stable), each denied request (key k, time t) of the LRU model is preceded by a window [s, s+period], s a
   request time of k, that already holds more than threshold requests of k, and t < s + period + stay. *)
Theorem C53_eviction_denials_justified : forall c, 0 <= c_period c -> forall ops past st m,
  Inv c past st -> times_le past m -> sorted_from m ops = true -> stable ops = true ->
  all_justified c past ops (run_lru c st ops) = true.
Proof. exact run_lru_justified. Qed.
Print Assumptions C53_eviction_denials_justified.

(* Several rules per product (ModulePrison.processRules / prisonHandler): for all global and product rule lists (any
   periods, thresholds, matching or not, actions CLOSE / FINISH / other) and all request histories, the model's
   return codes and its AllChecked / AllPrison increments are exactly those obtained when every matching rule judges
   every request it is reached by with its own reference automaton - a rule that admits a request never hides it from
   the later rules; only a denying CLOSE/FINISH rule ends the processing. *)
Theorem C53_multi_rules_reference : forall x, run_minp x = spec_minp x.
Proof. exact multi_is_reference. Qed.
Print Assumptions C53_multi_rules_reference.

(* Central theorem.  wf_C53 i: the input is a decodable several-rules input, or it decodes as a single-rule history, no reload changes period/stay/threshold (stable), and either the number of distinct keys does not exceed either
   dictionary size (no eviction possible; prop_C53 = equality with the reference automaton), or period >= 0 and the
   request times are non-decreasing (eviction possible; prop_C53 = every denial is justified).  On every such input
   the executable property predicate the harness evaluates on the implementation holds of the model; there is no
   known-finding class. *)
Theorem C53_prop_of_model : forall i, wf_C53 i = true -> kf_C53 i = 0 -> prop_C53 i (run_C53 i) = true.
Proof. exact prop_C53_of_model. Qed.
Print Assumptions C53_prop_of_model.

(* an eviction corpus case (corpus/C53/boundaries.case, evict-access) is well-formed too *)
Example C53_wf_evict_example :
  let i := VL [VZ 5; VZ 4; VZ 1; VZ 1; VZ 100;
               VL [VL [VZ 0; VZ 0]; VL [VZ 1; VZ 0]; VL [VZ 0; VZ 0]; VL [VZ 1; VZ 0]; VL [VZ 0; VZ 0]; VL [VZ 1; VZ 0]]] in
  wf_C53 i = true /\ run_C53 i = VL [VZ 0; VZ 0; VZ 0; VZ 0; VZ 0; VZ 0].
Proof. exact C53_wf_evict_example_lemma. Qed.

(* a corpus case (corpus/C53/boundaries.case, jail) is well-formed *)
Example C53_wf_example :
  let i := VL [VZ 5; VZ 4; VZ 2; VZ 100; VZ 100;
               VL [VL [VZ 1; VZ 0]; VL [VZ 2; VZ 0]; VL [VZ 1; VZ 2]; VL [VZ 1; VZ 4]; VL [VZ 2; VZ 4]; VL [VZ 1; VZ 8];
                   VL [VZ 1; VZ 10]; VL [VZ 1; VZ 12]]] in
  wf_C53 i = true /\ run_C53 i = VL [VZ 0; VZ 0; VZ 0; VZ 1; VZ 0; VZ 1; VZ 0; VZ 0].
Proof. exact C53_wf_example_lemma. Qed.

(* LRU eviction is part of the model (run_lru): with a single access slot two alternating keys keep evicting each
   other's counter and are never jailed, whereas unbounded dictionaries jail both (threshold 1). *)
Example C53_eviction_example :
  run_lru {| c_period := 5; c_stay := 4; c_threshold := 1 |} {| l_acc := []; l_pr := []; l_acap := 1; l_pcap := 100 |}
          [(0, 0); (1, 0); (0, 0); (1, 0); (0, 0); (1, 0)] = [false; false; false; false; false; false]
  /\ run_ops {| c_period := 5; c_stay := 4; c_threshold := 1 |} empty_state
          [(0, 0); (1, 0); (0, 0); (1, 0); (0, 0); (1, 0)] = [false; false; true; true; true; true].
Proof. exact C53_evict_example_lemma. Qed.

(* Non-vacuity: period 5, stay 4, threshold 2; key 1 is jailed at its third request (t=3) until 0+5+4 = 9,
   still denied at t=8, released at t=9; key 2 is never affected. *)
Example C53_example :
  let c := {| c_period := 5; c_stay := 4; c_threshold := 2 |} in
  run_ops c empty_state [(1, 0); (2, 0); (1, 1); (1, 3); (2, 3); (1, 8); (1, 9); (1, 10)]
  = [false; false; false; true; false; true; false; false].
Proof. exact C53_example_lemma. Qed.
