(* C03: selection never returns an ineligible target.  Property theorems only.
   gsub = (name, gslb weight, backends); a backend is eligible (wb_elig) iff Avail() && weight > 0;
   balance p subs retry h n = BalanceGslb.Balance with p = (mode, retryMax, crossRetry), req.RetryTime = retry,
   murmur3 value h of the hash key and n = the clock-seeded random number of randomSelectExclude; the result is
   the observation (code 0 = a backend is returned, 1..6 = the error, SubclusterName, backend id, RetryTime,
   IsCrossCluster, req.ErrCode) and the new balancer state.  mode ranges over WRR smooth, WLC smooth, sticky. *)
From Coq Require Import List ZArith Bool.
From Bfe Require Import lib.Val model.Swrr model.Wlc model.Sticky model.Gslb proofs.SwrrProofs proofs.WlcProofs proofs.GslbProofs run.RunC03.
Import ListNotations.
Open Scope Z_scope.

(* Whenever Balance returns a backend (for every mode, retry count, hash and random choice): it belongs to the
   reported sub-cluster, is available and has positive weight; the sub-cluster is not GSLB_BLACKHOLE; if it is the
   first choice (no cross-cluster retry) its gslb weight is positive and retry <= retryMax; if it was chosen for a
   cross-cluster retry its weight is non-negative and crossRetry > 0. *)
Theorem C03_backend_eligible : forall p subs retry h n,
  NoDup (map s_name subs) ->
  let o := fst (balance p subs retry h n) in
  o_code o = 0 ->
  exists s, In s subs /\ s_name s = o_sub o /\ is_bh (s_name s) = false /\
            (exists b, In b (s_bs s) /\ wb_elig b = true /\ wb_id b = o_bid o) /\
            (o_cross o = 0 -> 0 < s_w s /\ retry <= snd (fst p)) /\
            (o_cross o = 1 -> 0 <= s_w s /\ 0 < snd p).
Proof. exact balance_returns_eligible. Qed.
Print Assumptions C03_backend_eligible.

(* Complete characterisation of one call (spec_balance, Gslb.v, is the executable predicate the harness evaluates
   on the implementation's observations): RetryTooMany iff retry > retryMax+crossRetry; else NoSubCluster iff no
   positive gslb weight; else with fc = owner of the hash residue among the positive sub-clusters: Blackhole iff fc is
   GSLB_BLACKHOLE; else a backend of fc iff retry <= retryMax and fc has an eligible backend; else NoBackend iff
   crossRetry <= 0; else NoSubClusterCross iff no other non-negative non-blackhole sub-cluster exists; else for the
   sub-cluster x chosen among those: a backend of x iff x has an eligible backend, otherwise CrossRetryBalance.
   "An error exactly when no eligible target exists" is this statement, phase by phase.  The credit-free view of
   the balancer (names, weights, backend ids/weights/availability) is not changed by the call. *)
Theorem C03_error_iff_none : forall p subs retry h n,
  NoDup (map s_name subs) ->
  spec_balance p (pj subs) retry h (fst (balance p subs retry h n)) = true /\
  pj (snd (balance p subs retry h n)) = pj subs.
Proof. exact balance_spec. Qed.
Print Assumptions C03_error_iff_none.

(* The per-algorithm facts used above: SubCluster.balance returns an eligible backend of its list, and fails
   exactly when the list has none (empty list included), for smooth WRR, smooth WLC and sticky. *)
Theorem C03_sub_balance_eligible : forall m bs h p bs',
  sub_balance m bs h = Some (p, bs') -> elig_in (map pj_b bs) p = true /\ map pj_b bs' = map pj_b bs.
Proof. exact sub_balance_some. Qed.
Print Assumptions C03_sub_balance_eligible.
Theorem C03_sub_balance_error_iff : forall m bs h,
  sub_balance m bs h = None <-> has_elig (map pj_b bs) = false.
Proof. exact sub_balance_none. Qed.
Print Assumptions C03_sub_balance_error_iff.

(* The model satisfies the executable property on every well-formed input: operation histories of Balance, SetAvail,
   connection-count changes, BalanceGslb.Reload (sub-clusters re-weighted, removed, added) and BackendReload; each
   Reload conf lists a sub-cluster once (gop_ok).  kf_C03 = 0 everywhere. *)
Theorem C03_prop_of_model : forall i p conf ops,
  dec_in i = Some (p, conf, ops) -> NoDup (map (fun s : key * Z * list (Z * Z) => fst (fst s)) conf) ->
  forallb gop_ok ops = true ->
  prop_C03 i (run_C03 i) = true.
Proof. exact prop_of_model_C03. Qed.
Print Assumptions C03_prop_of_model.

(* Non-vacuity: sub-cluster "a" (weight 1) has only a weight-0 backend, "b" (weight 0) has an eligible one:
   the first choice a fails in-cluster, the cross retry returns backend 7 of b; with crossRetry = 0: NoBackend. *)
Example C03_example :
  let subs := g_init [([97], 1, [(3, 0)]); ([98], 0, [(7, 2)])] in
  fst (balance (MWrr, 2, 1) subs 0 12345 0) = mkObs 0 [98] 7 2 1 0 /\
  fst (balance (MWrr, 2, 0) subs 0 12345 0) = mkObs 3 [97] (-1) 2 0 3.
Proof. exact (conj eq_refl eq_refl). Qed.

(* ---- slow start (input kind 9: one BalanceRR, Balance(WrrSmooth / WlcSmooth) with SetSlowStart, Update, SetAvail,
   SetRestart and the clock seam).  ss_good is the invariant "elapsed, slowStartTime >= 0; outside a ramp weight =
   target; target <= 0 implies weight <= 0"; it holds after Init and is preserved by every operation (C01 file) and
   by Balance.  In every such state one Balance call returns -1 iff no backend is eligible after checkSlowStart, and
   otherwise an available backend whose effective AND configured (target) weights are positive: a backend configured
   with weight <= 0 is never returned, not even in the call that consumes its restart flag. *)
Theorem C03_slowstart_never_nonpositive : forall wlc T l p l',
  0 <= T -> Forall ss_good l -> pick2 (bal_of wlc) T l = (p, l') ->
  Forall ss_good l' /\
  ((p = -1 /\ filter elig (map fst (check_ss T l)) = []) \/
   (exists x, In x (check_ss T l) /\ b_id (fst x) = p /\ sb_ok x = true)).
Proof. exact (fun wlc T l p l' => pick2_spec (bal_of wlc) T l p l' (bal_of_ok wlc)). Qed.
Print Assumptions C03_slowstart_never_nonpositive.

(* Central statement: wf_C03 (executable: the input decodes as a BalanceGslb history incl. reloads, the sub-cluster
   names are pairwise distinct, initially and in every Reload conf) and kf_C03 = 0 imply that the model's own run satisfies the predicate the harness evaluates on
   the implementation.  (Kind 9 slow-start inputs are covered by C03_slowstart_never_nonpositive instead.) *)
Theorem C03_central : forall i, wf_C03 i = true -> kf_C03 i = 0 -> prop_C03 i (run_C03 i) = true.
Proof. exact central_C03. Qed.
Print Assumptions C03_central.
Example C03_central_nonvacuous : wf_C03 sample_C03 = true.
Proof. exact sample_C03_wf. Qed.
