(* C03 placeholder; replaced below *)
From Coq Require Import List ZArith Bool.
From Bfe Require Import lib.Val model.Gslb run.RunC03.
Import ListNotations.
Open Scope Z_scope.
Example C03_placeholder : kf_C03 (VZ 0) = 0.
Proof. exact eq_refl. Qed.
Print Assumptions C03_placeholder.
