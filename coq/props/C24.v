From Coq Require Import List ZArith Bool.
From Bfe Require Import lib.Val model.Http1Req proofs.Http1ReqProofs run.RunC24.
Import ListNotations.
Open Scope Z_scope.

Theorem C24_placeholder : kf_C24 (VZ 0) = 0.
Proof. exact placeholder_c24. Qed.
Print Assumptions C24_placeholder.
