(* C24: accepted HTTP/1 requests have unambiguous framing.  Property theorems only.
   Model: model/Http1Req.v -- parse_stream V = generic request-stream skeleton (read the request line and
   the (obs-fold joined) header lines as bfe_net/textproto does, validate, read the body according to the
   framing decision, repeat).  V_bfe = validators as coded in ReadRequest / ReadMIMEHeaderAndKeys /
   fixTransferEncoding / fixLength AFTER the repairs (/repo 17390c5 fe4368d 9b4c453 a2f18b3 e9e83bf a604fb2);
   V_ref = RFC 7230 (method token, HTTP/d.d, no whitespace before the first field, field-name = token,
   Transfer-Encoding exactly "chunked", all Content-Length values the same 1*DIGIT). *)
From Coq Require Import List ZArith Bool.
From Bfe Require Import lib.Val lib.Bytes model.Http1Req proofs.Http1ReqProofs run.RunC24.
Import ListNotations.
Open Scope Z_scope.

(* Generic composition: if validator set V1 refines V2 on single request heads (every head V1 accepts, V2
   accepts with the same method/target/version/fields/framing), then on every byte stream and with any
   fuel the requests V1 accepts are, in order and with identical content, body and boundaries, an initial
   segment of the requests V2 accepts. *)
Theorem skeleton_refinement :
  forall V1 V2 : validators,
    (forall hd m, validate V1 hd = inr m -> validate V2 hd = inr m) ->
    forall fuel s qs e, parse_stream V1 fuel s = (qs, e) ->
      exists qs' e', parse_stream V2 fuel s = (qs ++ qs', e').
Proof. exact skeleton_refinement_gen. Qed.
Print Assumptions skeleton_refinement.

(* Pointwise refinement for BFE: a request head that is in neither of the two remaining finding classes
   (head_class = 0: the version is HTTP/d.d whenever ParseHTTPVersion accepts it; no header line with an
   empty field name) and that BFE's validators accept is accepted by the RFC 7230 validators with the same
   result.  Whitespace before the colon, non-token names, Transfer-Encoding other than exactly "chunked",
   whitespace before the first field, non-token methods, empty / conflicting / signed Content-Length need
   no guard any more: the repaired code rejects them. *)
Theorem C24_head_refinement :
  forall hd m, head_class hd = 0 -> validate V_bfe hd = inr m -> validate V_ref hd = inr m.
Proof. exact head_refine. Qed.
Print Assumptions C24_head_refinement.

(* The framing decision itself (Transfer-Encoding / Content-Length => chunked | length n) refines RFC 7230's
   on EVERY header block, unconditionally. *)
Theorem C24_framing_refinement : forall h fr, bfe_frame h = inr fr -> ref_frame h = inr fr.
Proof. exact frame_refine. Qed.
Print Assumptions C24_framing_refinement.

(* Every request head the repaired BFE accepts has: a token method, no whitespace before the first field,
   token field names only, a Transfer-Encoding that is absent or exactly one "chunked", and, when
   Content-Length is present without chunked, framing by its (single-valued) 1*DIGIT value. *)
Theorem C24_accepted_wellformed : forall hd m, validate V_bfe hd = inr m ->
  is_token (r_method m) = true /\ h_leadws hd = false /\ names_ok (r_fields m) = true /\
  te_decision (r_fields m) <> None /\
  (get_all s_cl (r_fields m) <> [] -> r_framing m = FrChunked \/
     exists n, parse_dec (cl_first (get_all s_cl (r_fields m))) = Some n /\ r_framing m = FrLen n).
Proof. exact C24_accepted_wellformed_lemma. Qed.
Print Assumptions C24_accepted_wellformed.

(* Headline (guarded by the two remaining classes): for EVERY byte stream in which no request head that
   BFE reaches has a lax version or an empty-name line, every request the modelled ReadRequest loop accepts
   is the request the RFC 7230 reference parser finds at the same place: same method, target, version, same
   non-framing fields (canonical names), same body and the same end offset -- so BFE accepts nothing at a
   point where the reference parser rejects. *)
Theorem C24_partial : forall s,
  stream_class (S (length s)) s = 0 -> prop_core s (fst (bfe_run s)) = true.
Proof. exact C24_partial_lemma. Qed.
Print Assumptions C24_partial.

(* Central theorem, through the executable predicates the harness evaluates on the implementation's output:
   every input is a byte string (wf = VB s); outside the finding classes the model satisfies the property. *)
Theorem C24_prop_of_model : forall s,
  kf_C24 (VB s) = 0 -> prop_C24 (VB s) (run_C24 (VB s)) = true.
Proof. exact C24_prop_of_model_lemma. Qed.
Print Assumptions C24_prop_of_model.

(* The unguarded property is still refuted by the two remaining classes: (2) ": v" -- a line with an empty
   field name is skipped by textproto (pinned by its baseline test TestReadMIMEHeaderNoKey); (5) "HTTP/+1.1"
   -- ParseHTTPVersion accepts signs / leading zeros / multi-digit numbers (HTTP/3.14 is pinned by the
   baseline test TestParseHTTPVersion).  Confirmed on the real ReadRequest (corpus/C24/witness.case). *)
Theorem C24_refuted : refuted w_emptyname 2 /\ refuted w_version 5.
Proof. exact C24_refuted_lemma. Qed.
Print Assumptions C24_refuted.

(* The former witnesses of the repaired classes ("X-A : 1", "X(bad): 1", "Transfer-Encoding: identity, chunked",
   " Host: a" as first line, "Content-Length: ") are now rejected without accepting any request. *)
Theorem C24_fixed : 
  rejected w_wscolon 12 /\ rejected w_nontoken 12 /\ rejected w_te 7 /\ rejected w_leadws 6 /\ rejected w_emptycl 8.
Proof. exact C24_fixed_lemma. Qed.
Print Assumptions C24_fixed.

(* After the fix (/repo 17390c5): two Content-Length fields whose values differ are rejected. *)
Theorem C24_conflicting_content_length_rejected : forall h a b r,
  has_key s_te h = false -> get_all s_cl h = a :: b :: r -> bytes_eqb (trim4 a) (trim4 b) = false ->
  bfe_frame h = inl 8.
Proof. exact C24_cl_conflict_rejected_lemma. Qed.
Print Assumptions C24_conflicting_content_length_rejected.

(* Non-vacuity of C24_partial: a pipelined stream (chunked POST with a trailer, then a GET with two equal
   Content-Length fields) is outside all classes; both requests are accepted with bodies "abc" and "xy". *)
Example C24_nonvacuous :
  wf_bytes w_pipeline = true /\ kf_C24 (VB w_pipeline) = 0 /\
  length (fst (bfe_run w_pipeline)) = 2%nat /\ snd (bfe_run w_pipeline) = 0 /\
  map o_body (fst (bfe_run w_pipeline)) = [[97;98;99]; [120;121]].
Proof. exact C24_nonvacuous_lemma. Qed.
