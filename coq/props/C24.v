(* C24: accepted HTTP/1 requests have unambiguous framing.  Property theorems only.
   Model: model/Http1Req.v -- parse_stream V = generic request-stream skeleton (read the request line and
   the (obs-fold joined) header lines as bfe_net/textproto does, validate, read the body according to the
   framing decision, repeat).  V_bfe = validators as coded in ReadRequest / ReadMIMEHeaderAndKeys /
   fixTransferEncoding / fixLength; V_ref = RFC 7230 (method token, HTTP/d.d, no whitespace before the first
   field, field-name = token, Transfer-Encoding exactly "chunked", all Content-Length values the same 1*DIGIT). *)
From Coq Require Import List ZArith Bool.
From Bfe Require Import lib.Val lib.Bytes model.Http1Req proofs.Http1ReqProofs run.RunC24.
Import ListNotations.
Open Scope Z_scope.

(* Generic composition: if validator set V1 refines V2 on single request heads (every head V1 accepts, V2
   accepts with the same method/target/version/fields/framing), then on every byte stream and with any
   fuel the requests V1 accepts are, in order and with identical content, body and boundaries, an initial
   segment of the requests V2 accepts. *)
Theorem skeleton_refinement :
  forall V1 V2 : validators,
    (forall hd m, validate V1 hd = inr m -> validate V2 hd = inr m) ->
    forall fuel s qs e, parse_stream V1 fuel s = (qs, e) ->
      exists qs' e', parse_stream V2 fuel s = (qs ++ qs', e').
Proof. exact skeleton_refinement_gen. Qed.
Print Assumptions skeleton_refinement.

(* Pointwise refinement for BFE: a request head that is in none of the six finding classes
   (head_class = 0: method is a token and version is HTTP/d.d; no whitespace before the first field; every
   field name is a token; Transfer-Encoding, if present, is exactly "chunked"; no empty Content-Length)
   and that BFE's validators accept is accepted by the RFC 7230 validators with the same result. *)
Theorem C24_head_refinement :
  forall hd m, head_class hd = 0 -> validate V_bfe hd = inr m -> validate V_ref hd = inr m.
Proof. exact head_refine. Qed.
Print Assumptions C24_head_refinement.

(* Headline (guarded): for EVERY byte stream in which no request head that BFE reaches falls in a finding
   class, every request the modelled ReadRequest loop accepts is the request the RFC 7230 reference parser
   finds at the same place: same method, target, version, same non-framing fields (canonical names), same
   body and the same end offset -- so BFE accepts nothing at a point where the reference parser rejects.
   (The unguarded statement is false: see C24_refuted.) *)
Theorem C24_partial : forall s,
  stream_class (S (length s)) s = 0 -> prop_core s (fst (bfe_run s)) = true.
Proof. exact C24_partial_lemma. Qed.
Print Assumptions C24_partial.

(* The same through the executable predicates the harness evaluates on the implementation's output. *)
Theorem C24_prop_of_model : forall s,
  kf_C24 (VB s) = 0 -> prop_C24 (VB s) (run_C24 (VB s)) = true.
Proof. exact C24_prop_of_model_lemma. Qed.
Print Assumptions C24_prop_of_model.

(* The full property is refuted for the code as it is: one witness stream per finding class
   (1 "X-A : 1"; 2 "X(bad): 1"; 3 "Transfer-Encoding: identity, chunked" + Content-Length;
    4 whitespace before the first field; 5 "HTTP/+1.1"; 6 empty Content-Length) on which the model of BFE
   accepts a request that the reference parser rejects.  Each was confirmed on the real ReadRequest
   (corpus/C24/witness.case). *)
Theorem C24_refuted :
  refuted w_wscolon 1 /\ refuted w_nontoken 2 /\ refuted w_te 3 /\ refuted w_leadws 4 /\
  refuted w_version 5 /\ refuted w_emptycl 6.
Proof. exact C24_refuted_lemma. Qed.
Print Assumptions C24_refuted.

(* After the fix (/repo 17390c5): two Content-Length fields whose values differ are rejected. *)
Theorem C24_conflicting_content_length_rejected : forall h a b r,
  has_key s_te h = false -> get_all s_cl h = a :: b :: r -> bytes_eqb (trim4 a) (trim4 b) = false ->
  bfe_frame h = inl 8.
Proof. exact C24_cl_conflict_rejected_lemma. Qed.
Print Assumptions C24_conflicting_content_length_rejected.

(* Non-vacuity of C24_partial: a pipelined stream (chunked POST with a trailer, then a GET with two equal
   Content-Length fields) is outside all classes; both requests are accepted with bodies "abc" and "xy". *)
Example C24_nonvacuous :
  wf_bytes w_pipeline = true /\ kf_C24 (VB w_pipeline) = 0 /\
  length (fst (bfe_run w_pipeline)) = 2%nat /\ snd (bfe_run w_pipeline) = 0 /\
  map o_body (fst (bfe_run w_pipeline)) = [[97;98;99]; [120;121]].
Proof. exact C24_nonvacuous_lemma. Qed.
