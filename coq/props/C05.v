(* C05: balancer calls are total and terminate under concurrent change.  Property theorems only.
   Model: model/SimpleRR.v (BalanceRR of bfe_balance/bal_slb/bal_rr.go).  `dyn` = (backend list, script): the script
   is the adversarial environment, a flip-set applied after every Avail() read of the running call, so the
   theorems quantify over every interleaving of SetAvail / IncConnNum / DecConnNum with the scan.
   `returned r` = the call returned a backend (ROk, non-empty admissible set) or an error (RErr);
   RPanic / RFuel are the two ways a Go call fails to do so (run-time panic / never leaving the loop).
   The model is of the code after /repo commit faad7ac (fix of simpleBalance / leastConnsSimpleBalance).
   Data-race freedom is NOT covered: the model assumes the mutex discipline (see props/C05.json). *)
From Coq Require Import List ZArith Bool.
From Bfe Require Import lib.Val model.SimpleRR run.RunC05 proofs.SimpleRRProofs.
Import ListNotations.
Open Scope Z_scope.

(* WrrSmooth (the algorithm BalanceGslb uses): for every backend list, every subset of positions scanned and
   every environment script the call returns a backend or "all backend is down". *)
Theorem C05_smooth_total : forall idx (s : dyn), returned (snd (smooth idx s)).
Proof. exact smooth_total. Qed.
Print Assumptions C05_smooth_total.

(* WrrSticky: same; in particular hash % totalWeight never divides by zero (candidates non-empty => total > 0). *)
Theorem C05_sticky_total : forall h (s : dyn), returned (snd (sticky h s)).
Proof. exact sticky_total. Qed.
Print Assumptions C05_sticky_total.

(* WlcSmooth: same, although the candidate list of leastConnsBalance can become empty under mid-call flips. *)
Theorem C05_wlc_smooth_total : forall s : dyn, returned (snd (wlc_smooth s)).
Proof. exact wlc_smooth_total. Qed.
Print Assumptions C05_wlc_smooth_total.

(* WlcSimple: same (the candidate list can become empty under mid-call flips - see C05_ex_wlc - and is then an error;
   before /repo commit faad7ac it was rand.Int() % 0). *)
Theorem C05_wlc_simple_total : forall s : dyn, returned (snd (wlc_simple s)).
Proof. exact wlc_simple_total. Qed.
Print Assumptions C05_wlc_simple_total.

(* WrrSimple (after the repair of simpleBalance): for EVERY backend list (also empty, also negative weights), every
   brr.next in range and EVERY environment script the call returns a backend or an error within
   len(script) + 2*len probes - it can neither panic nor spin while holding the lock. *)
Theorem C05_simple_total : forall bs sc next,
  (bs = [] \/ 0 <= next < Z.of_nat (length bs)) ->
  is_returned (snd (simple (length sc + 2 * length bs) (bs, sc) next)) = true.
Proof. exact simple_total. Qed.
Print Assumptions C05_simple_total.

(* BalanceGslb.Balance (sub-cluster choice by hash or the single short-cut, in-cluster attempt, cross-cluster retry;
   WRR / sticky / WLC): for every cluster, every req.RetryTime, every hash and every script running through the
   whole call (flips consumed during the first sub-cluster's scan also hit the cross-retry sub-cluster) the call
   returns a backend or one of its error codes. *)
Theorem C05_gslb_total : forall algo h retry sc c, returned (gres (gslb_balance algo h retry sc c)).
Proof. exact gslb_total. Qed.
Print Assumptions C05_gslb_total.

(* The hash conf is written by the loader (cluster_conf.HashConfCheck, modelled by hash_conf_check on the optional
   fields HashStrategy / HashHeader / SessionSticky) and read by BalanceGslb.getHashKey, which dereferences *HashHeader
   for the two CLIENTID strategies.  A conf is either rejected at load or Balance is total with it: *)
Theorem C05_checked_hashconf_total : forall sp strat hk stp st hc algo h retry sc c,
  hash_conf_check sp strat hk stp st = Some hc ->
  returned (gres (gslb_balance_hc hc algo h retry sc c)).
Proof. intros. apply gslb_hc_total. eapply check_hc_ok. eassumption. Qed.
Print Assumptions C05_checked_hashconf_total.
(* ... and the check cannot be weakened for ClientIdPreferred: without a header the call panics *)
Example C05_ex_hashconf_needed : forall algo h sc c, 0 <= grmax c + gcross c ->
  gres (gslb_balance_hc (2, 0, false) algo h 0 sc c) = RPanic.
Proof.
  intros algo h sc c H. unfold gslb_balance_hc, gres.
  destruct (0 >? grmax c + gcross c) eqn:E; [|reflexivity].
  rewrite Z.gtb_ltb in E. apply Z.ltb_lt in E. exfalso. apply (Z.lt_irrefl 0). eapply Z.le_lt_trans; eassumption.
Qed.

(* Wire level (central theorem): for EVERY input - initial conf + history of Balance / SetAvail / conn change / Update
   with scripts, or a BalanceGslb cluster + history - every Balance of the modelled history returns a backend or an
   error: prop_C05 holds of the model run.  No finding class is left: kf_C05 is 0 on every input (brr.next stays in
   range and the lists keep their length through every operation). *)
Theorem C05_kf_zero : forall i, kf_C05 i = 0.
Proof. exact kf_zero. Qed.
Print Assumptions C05_kf_zero.
Theorem C05_prop_of_model : forall i, prop_C05 i (run_C05 i) = true.
Proof. exact model_satisfies_prop_all. Qed.
Print Assumptions C05_prop_of_model.

(* Non-vacuity *)
(* one mid-scan flip changes the pick of WrrSmooth: the oracle is really consulted *)
Example C05_ex_smooth :
  snd (smooth [0%nat; 1%nat] ([mkBe 1 100 100 true 0; mkBe 2 200 200 true 0], [[(2, 0, 0)]])) = ROk [1]
  /\ snd (smooth [0%nat; 1%nat] ([mkBe 1 100 100 true 0; mkBe 2 200 200 true 0], [])) = ROk [2].
Proof. exact ex_smooth_flip. Qed.
(* the inputs that made the old code spin or panic now return errors / a backend *)
Example C05_ex_former_witnesses :
  snd (simple (simple_fuel neg_witness) neg_witness 0) = RErr 1 /\
  snd (simple (simple_fuel flip_witness) flip_witness 0) = RErr 1 /\
  snd (simple 5 (fst flip_witness, []) 0) = ROk [1] /\
  snd (simple 0 ([], []) 0) = RErr 1.
Proof. exact former_witnesses. Qed.
(* two tied backends both go down between the two passes of leastConnsBalance: error instead of rand % 0 *)
Example C05_ex_wlc : snd (wlc_simple wlc_witness) = RErr 1 /\ snd (wlc_simple (fst wlc_witness, [])) = ROk [1; 2].
Proof. exact wlc_witness_err. Qed.
(* a well-formed history outside the finding classes (SetAvail, WrrSimple with a mid-scan flip, WrrSmooth) *)
Example C05_ex_wire :
  let i := VL [VL [VL [VZ 1; VZ 1]; VL [VZ 2; VZ 2]];
               VL [VL [VZ 2; VZ 2; VZ 0]; VL [VZ 1; VZ 0; VB []; VL [VL [VL [VZ 1; VZ 0; VZ 0]]]]; VL [VZ 1; VZ 1; VB []; VL []]]] in
  kf_C05 i = 0 /\ run_C05 i <> VErr 0.
Proof. exact ex_wire. Qed.
(* a gslb history: the flip after backend 1's read takes it down; the next call fails in-cluster, sets RetryTime to
   retryMax and cross-retries into the weight-0 sub-cluster 1 *)
Example C05_ex_wire_gslb :
  let i := VL [VL [VZ 7; VL [VL [VZ 0; VZ 1; VL [VL [VZ 1; VZ 1]]]; VL [VZ 1; VZ 0; VL [VL [VZ 2; VZ 1]]]]; VZ 1; VZ 1];
               VL [VL [VZ 6; VZ 1; VZ 0; VB [1]; VL [VL [VL [VZ 1; VZ 0; VZ 0]]]];
                   VL [VZ 6; VZ 1; VZ 0; VB [1]; VL []]]] in
  run_C05 i = VL [VL [VZ 0; VL [VZ 0; VZ 1]; VZ 0; VZ 0; VL [VL [VL [VL [VZ 1; VZ 100; VZ 100]]; VZ 0]; VL [VL [VL [VZ 2; VZ 100; VZ 100]]; VZ 0]]];
                  VL [VZ 0; VL [VZ 0; VZ 2]; VZ 1; VZ 1; VL [VL [VL [VL [VZ 1; VZ 100; VZ 100]]; VZ 0]; VL [VL [VL [VZ 2; VZ 100; VZ 100]]; VZ 0]]]].
Proof. exact ex_wire_gslb. Qed.
(* a gslb history with a REJECTED reload (all weights 0 are written in place, totalWeight 3 is kept): the next Balance
   falls back to the last sub-cluster of the walk and returns its backend *)
Example C05_ex_rejected_reload :
  let i := VL [VL [VZ 7; VL [VL [VZ 0; VZ 1; VL [VL [VZ 1; VZ 1]]]; VL [VZ 1; VZ 2; VL [VL [VZ 2; VZ 1]]]]; VZ 1; VZ 1];
               VL [VL [VZ 7; VL [VL [VZ 0; VZ 0]; VL [VZ 1; VZ 0]]]; VL [VZ 6; VZ 1; VZ 0; VB [1]; VL []]]] in
  match run_C05 i with
  | VL [VL [VZ 1; _]; VL [_; VL [VZ 0; VZ 2]; VZ 1; VZ 0; _]] => True
  | _ => False
  end.
Proof. exact ex_rejected_reload. Qed.
