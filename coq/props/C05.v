(* C05: balancer calls are total and terminate under concurrent change.  Property theorems only.
   Model: model/SimpleRR.v (BalanceRR of bfe_balance/bal_slb/bal_rr.go).  `dyn` = (backend list, script): the script
   is the adversarial environment, a flip-set applied after every Avail() read of the running call, so the
   theorems quantify over every interleaving of SetAvail / IncConnNum / DecConnNum with the scan.
   `returned r` = the call returned a backend (ROk, non-empty admissible set) or an error (RErr);
   RPanic / RFuel are the two ways a Go call fails to do so (run-time panic / never leaving the loop).
   Data-race freedom is NOT covered: the model assumes the mutex discipline (see props/C05.json). *)
From Coq Require Import List ZArith Bool.
From Bfe Require Import lib.Val model.SimpleRR run.RunC05 proofs.SimpleRRProofs.
Import ListNotations.
Open Scope Z_scope.

(* WrrSmooth (the algorithm BalanceGslb uses): for every backend list, every subset of positions scanned and
   every environment script the call returns a backend or "all backend is down". *)
Theorem C05_smooth_total : forall idx (s : dyn), returned (snd (smooth idx s)).
Proof. exact smooth_total. Qed.
Print Assumptions C05_smooth_total.

(* WrrSticky: same; in particular hash % totalWeight never divides by zero (candidates non-empty => total > 0). *)
Theorem C05_sticky_total : forall h (s : dyn), returned (snd (sticky h s)).
Proof. exact sticky_total. Qed.
Print Assumptions C05_sticky_total.

(* WlcSmooth: same, although the candidate list of leastConnsBalance can become empty under mid-call flips. *)
Theorem C05_wlc_smooth_total : forall s : dyn, returned (snd (wlc_smooth s)).
Proof. exact wlc_smooth_total. Qed.
Print Assumptions C05_wlc_smooth_total.

(* WlcSimple is NOT total under concurrent change: two equally loaded backends that both go down between the
   two passes of leastConnsBalance leave an empty candidate list and randomBalance computes rand.Int() % 0. *)
Theorem C05_wlc_simple_refuted : exists s : dyn, snd (wlc_simple s) = RPanic.
Proof. exists wlc_witness. exact wlc_simple_refuted. Qed.
Print Assumptions C05_wlc_simple_refuted.
(* ... and it is total whenever the environment does not move during the call. *)
Theorem C05_wlc_simple_partial : forall s : dyn, snd s = [] -> returned (snd (wlc_simple s)).
Proof. exact wlc_simple_static_total. Qed.
Print Assumptions C05_wlc_simple_partial.

(* WrrSimple is refuted three ways.  (a) an empty list (Update with an empty conf) panics on backends[0]: *)
Theorem C05_simple_refuted_empty : forall fuel sc next, snd (simple (S fuel) ([], sc) next) = RPanic.
Proof. exact simple_empty_panics. Qed.
Print Assumptions C05_simple_refuted_empty.
(* (b) with NO concurrent change at all: backend 1 available with weight -1 (accepted by the cluster-table
   loader, which only wants one positive weight), backend 2 (weight 1) down: the call never returns, for every
   amount of fuel, i.e. it spins forever while holding the BalanceRR lock. *)
Theorem C05_simple_refuted :
  exists (bs : list be), forall fuel, snd (simple fuel (bs, []) 0) = RFuel.
Proof. exists (fst neg_witness). exact simple_livelock_static. Qed.
Print Assumptions C05_simple_refuted.
(* (c) with positive weights only: one SetAvail(false) arriving between two probes of the scan. *)
Theorem C05_simple_refuted_one_flip :
  exists (bs : list be) id, (forall b, In b bs -> bw b > 0) /\
    (forall fuel, snd (simple fuel (bs, [[(id, 0, 0)]]) 0) = RFuel) /\
    snd (simple 5 (bs, []) 0) = ROk [1].
Proof.
  exists (fst flip_witness), 1. split.
  - intros b [<-|[<-|[]]]; reflexivity.
  - split; [exact simple_livelock_one_flip|exact simple_no_flip_returns].
Qed.
Print Assumptions C05_simple_refuted_one_flip.

(* WrrSimple, guarded: on every non-empty list whose weights are all >= 0 (any credits, any availability, every
   brr.next in range) and without concurrent change the call returns a backend or "all backend is down" within
   2*len+1 probes.  The guard excludes exactly the three refuted classes: empty list, a negative weight, a mid-call flip. *)
Theorem C05_simple_partial : forall bs next,
  (forall b, In b bs -> 0 <= bw b) -> 0 <= next < Z.of_nat (length bs) ->
  is_returned (snd (simple (2 * length bs + 1) (bs, []) next)) = true.
Proof. exact simple_static_total. Qed.
Print Assumptions C05_simple_partial.

(* Wire level: for every input (initial conf + history of Balance / SetAvail / conn change / Update, with scripts)
   that is outside the three finding classes, every Balance of the modelled history returns a backend or an error. *)
Theorem C05_prop_of_model : forall i, kf_C05 i = 0 -> prop_C05 i (run_C05 i) = true.
Proof. exact model_satisfies_prop. Qed.
Print Assumptions C05_prop_of_model.

(* Non-vacuity *)
(* one mid-scan flip changes the pick of WrrSmooth: the oracle is really consulted *)
Example C05_ex_smooth :
  snd (smooth [0%nat; 1%nat] ([mkBe 1 100 100 true 0; mkBe 2 200 200 true 0], [[(2, 0, 0)]])) = ROk [1]
  /\ snd (smooth [0%nat; 1%nat] ([mkBe 1 100 100 true 0; mkBe 2 200 200 true 0], [])) = ROk [2].
Proof. exact ex_smooth_flip. Qed.
(* C05_simple_partial applies to the one-flip witness list without its flip: it returns backend 1 *)
Example C05_ex_partial :
  (forall b, In b (fst flip_witness) -> 0 <= bw b) /\ snd (simple 5 (fst flip_witness, []) 0) = ROk [1].
Proof. exact ex_partial. Qed.
(* a well-formed history outside the finding classes (SetAvail, WrrSimple with a mid-scan flip, WrrSmooth) *)
Example C05_ex_wire :
  let i := VL [VL [VL [VZ 1; VZ 1]; VL [VZ 2; VZ 2]];
               VL [VL [VZ 2; VZ 2; VZ 0]; VL [VZ 1; VZ 0; VB []; VL [VL [VL [VZ 1; VZ 0; VZ 0]]]]; VL [VZ 1; VZ 1; VB []; VL []]]] in
  kf_C05 i = 0 /\ run_C05 i <> VErr 0.
Proof. exact ex_wire. Qed.
