(* C41: TLS negotiation picks mutually supported parameters and resists downgrade.  Property theorems only.
   `negotiate cfg hello` is the model of bfe_tls serverHandshakeState.readClientHello (decision part):
   Alert code = the handshake is refused with that alert; Done resume vers suite alpn npn protos = the
   handshake proceeds (abbreviated when resume) with these parameters.  `eff cfg hello` is the
   configuration as seen by this connection: the rule returned by ServerRule.Get for the connection's
   server name and the key type of the certificate chosen by Config.getCertificateForName. *)
From Coq Require Import List ZArith Bool.
From Bfe Require Import lib.Val lib.Bytes gen.TlsSuites model.TlsNego proofs.TlsNegoProofs run.RunC41.
Import ListNotations.
Open Scope Z_scope.

(* CENTRAL THEOREM.  For every well-formed harness input (decodable, non-empty configured version range)
   outside known-finding class 3 the model's own outcome satisfies the executable property that the
   harness evaluates on the implementation's outcome. *)
Theorem C41_prop_of_model : forall i,
  wf_C41 i = true -> kf_C41 i = 0 -> prop_C41 i (run_C41 i) = true.
Proof. exact prop_of_model. Qed.
Print Assumptions C41_prop_of_model.

(* Reload path.  HttpsListener.UpdateSessionTicketKey replaces the listener's Config by Config.Clone()
   with a new ticket key.  The negotiation outcome is invariant under Clone, hence under any number of
   reloads: `serve c h` (what the harness observes: outcome on the listener's live Config after
   c_reloads reloads, and the list of Config fields other than the ticket key that differ from the
   configured ones) is (negotiate c h, []).  The harness derives the field list by reflection over
   bfe_tls.Config, so a field that Clone forgets to copy shows up as a non-empty list. *)
Theorem C41_clone_invariant : forall c h, negotiate (clone c) h = negotiate c h.
Proof. exact clone_invariant. Qed.
Print Assumptions C41_clone_invariant.
Theorem C41_reload_invariant : forall c h, fst (serve c h) = negotiate c h /\ snd (serve c h) = [].
Proof. exact reload_invariant. Qed.
Print Assumptions C41_reload_invariant.

(* Every accepted handshake (full or resumed from a ticket or from the session-ID cache) runs at a version
   inside the configured range [MinVersion or SSLv3, MaxVersion or TLS1.2], not above the client's, and
   inside the grade of the rule selected for the connection (A: at least TLS 1.0, A+: TLS 1.2). *)
Theorem C41_version_in_range : forall c h r v s a n p,
  min_version c <= max_version c ->
  negotiate c h = Done r v s a n p ->
  min_version c <= v /\ v <= max_version c /\ v <= h_vers h /\
  (grade_of (eff c h) = grade_a -> version_tls10 <= v) /\
  (grade_of (eff c h) = grade_aplus -> version_tls12 <= v).
Proof. exact version_in_range_conn. Qed.
Print Assumptions C41_version_in_range.

(* Every accepted handshake (normal loop, equivalent-priority loop, ECDHE-without-extensions retry, ticket
   or cache resumption) uses a suite the client offered, that is in the server's list and implemented, and
   that is enabled for the connection's rule: ChaCha20 only when the rule allows it, RC4 per the grade
   policy, TLS-1.2-only suites only at TLS 1.2, ECDSA suites exactly when the selected certificate's key
   is ECDSA. *)
Theorem C41_suite_mutual : forall c h r v s a n p,
  min_version c <= max_version c ->
  negotiate c h = Done r v s a n p ->
  mem s (h_suites h) = true /\ mem s (cfg_suites c) = true /\ spec_suite_ok (eff c h) h v s = true.
Proof. exact suite_mutual_conn. Qed.
Print Assumptions C41_suite_mutual.

(* The grade policy of common.go (checkVersionGrade + checkCipherGrade) on completed handshakes:
   A+: TLS 1.2 and no RC4;  A: >= TLS 1.0 and no RC4;  B: no RC4 from TLS 1.0 up, only RC4 at SSLv3;
   C with Ssl3PoodleProofed: only RC4 at SSLv3. *)
Theorem C41_grade_policy : forall c h r v s a n p fl,
  min_version c <= max_version c ->
  negotiate c h = Done r v s a n p -> suite_flags s = Some fl ->
  let g := grade_of (eff c h) in
  let rc4 := has fl fl_rc4 in
  (g = grade_aplus -> version_tls12 <= v /\ rc4 = false) /\
  (g = grade_a -> version_tls10 <= v /\ rc4 = false) /\
  (g = grade_b -> (version_tls10 <= v -> rc4 = false) /\ (v < version_tls10 -> rc4 = true)) /\
  (g = grade_c -> c_poodle c = true -> v = version_ssl30 -> rc4 = true).
Proof. exact grade_policy. Qed.
Print Assumptions C41_grade_policy.

(* A ClientHello carrying TLS_FALLBACK_SCSV with a version below the server's highest enabled version
   (MaxVersion, or TLS 1.2 when MaxVersion is left at its default 0) is never accepted -- with or without
   a resumable session.  (True after /repo fix 1cb6dd6; before it both halves failed.) *)
Theorem C41_scsv_refused : forall c h,
  In tls_fallback_scsv (h_suites h) -> h_vers h < max_version c ->
  exists code, negotiate c h = Alert code.
Proof. exact scsv_refused_conn. Qed.
Print Assumptions C41_scsv_refused.

(* ... and when the version and compression offer are otherwise acceptable the alert is inappropriate_fallback *)
Theorem C41_scsv_alert : forall c h v0 v,
  In tls_fallback_scsv (h_suites h) -> h_vers h < max_version c ->
  mutual_version c (h_vers h) = Some v0 -> check_version_grade v0 (grade_of (eff c h)) = Some v ->
  In compression_none (h_comp h) ->
  negotiate c h = Alert alert_inappropriate_fallback.
Proof. exact scsv_alert_conn. Qed.
Print Assumptions C41_scsv_alert.

(* ALPN.  Full statement (FALSE for the code, see C41_alpn_mutual_refuted):
     negotiate c h = Done r v s a n p -> a <> [] -> In a (h_alpn h) /\ In a (server_protos (eff c h)).
   Proved part: it holds whenever validateHttp2Accepted did not replace the selection. *)
Theorem C41_alpn_mutual_partial : forall c h r v s a n p,
  negotiate c h = Done r v s a n p -> a <> [] ->
  a = fst (fst (app_proto (eff c h) h)) ->
  In a (h_alpn h) /\ In a (server_protos (eff c h)).
Proof. exact alpn_mutual_partial_conn. Qed.
Print Assumptions C41_alpn_mutual_partial.

(* Known finding 3: the client offers only "h2" with an AES-CBC suite, the server lists only "h2";
   the handshake proceeds with ALPN "http/1.1", which neither side listed. *)
Theorem C41_alpn_mutual_refuted :
  let c := cfg_default [proto_h2] in
  let h := hello_simple 771 [47] [proto_h2] NoTicket in
  negotiate c h = Done false 771 47 proto_http11 false [] /\
  ~ In proto_http11 (h_alpn h) /\ ~ In proto_http11 (server_protos (eff c h)).
Proof. exact alpn_mutual_refuted_lemma. Qed.
Print Assumptions C41_alpn_mutual_refuted.

(* Non-vacuity *)
Example C41_h2_negotiated :
  negotiate (cfg_default [proto_h2; proto_http11]) (hello_simple 771 [47; 49199] [proto_http11; proto_h2] NoTicket)
  = Done false 771 49199 proto_h2 false [].
Proof. exact nonvacuous_h2. Qed.
Example C41_scsv_default_max :
  negotiate (cfg_default []) (hello_simple 770 [47; 22016] [] NoTicket) = Alert alert_inappropriate_fallback.
Proof. exact nonvacuous_scsv_default_max. Qed.
Example C41_scsv_resumption :
  let h := hello_simple 770 [47; 22016] [] (GoodTicket 770 47 0) in
  negotiate (cfg_default []) h = Alert alert_inappropriate_fallback /\
  negotiate (cfg_default []) (hello_simple 770 [47] [] (GoodTicket 770 47 0)) = Done true 770 47 [] false [].
Proof. exact nonvacuous_scsv_resumption. Qed.
(* corpus/C41: grade B selected by SNI rule, SSLv3 client offering AES and RC4 -> RC4;
   wildcard certificate with an ECDSA key selected for "WWW.A.COM." -> the ECDSA suite;
   both corpus inputs are well-formed *)
Example C41_corpus_cases :
  wf_C41 corpus_sni_grade_b = true /\ run_C41 corpus_sni_grade_b = VL [VL [VZ 1; VZ 0; VZ 768; VZ 5; VB []; VZ 0; VL []]; VL []] /\
  wf_C41 corpus_wildcard_cert = true /\
  run_C41 corpus_wildcard_cert = VL [VL [VZ 1; VZ 0; VZ 771; VZ 49195; VB []; VZ 0; VL []]; VL []].
Proof. exact corpus_cases_ok. Qed.
