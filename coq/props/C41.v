(* C41: TLS negotiation picks mutually supported parameters and resists downgrade.  Property theorems only.
   `negotiate cfg hello` is the model of bfe_tls serverHandshakeState.readClientHello (decision part):
   Alert code = the handshake is refused with that alert; Done resume vers suite alpn npn protos = the
   handshake proceeds (abbreviated when resume) with these parameters. *)
From Coq Require Import List ZArith Bool.
From Bfe Require Import lib.Val lib.Bytes gen.TlsSuites model.TlsNego proofs.TlsNegoProofs run.RunC41.
Import ListNotations.
Open Scope Z_scope.

(* Every accepted handshake (full or resumed) runs at a version inside the configured range
   [MinVersion or SSLv3, MaxVersion or TLS1.2], not above the client's, and inside the rule's grade
   (A: at least TLS 1.0, A+: TLS 1.2). *)
Theorem C41_version_in_range : forall c h r v s a n p,
  min_version c <= max_version c ->
  negotiate c h = Done r v s a n p ->
  min_version c <= v /\ v <= max_version c /\ v <= h_vers h /\
  (grade_of c = grade_a -> version_tls10 <= v) /\ (grade_of c = grade_aplus -> version_tls12 <= v).
Proof. exact version_in_range. Qed.
Print Assumptions C41_version_in_range.

(* Every accepted handshake (normal loop, equivalent-priority loop, ECDHE-without-extensions retry, or
   resumption) uses a suite the client offered, that is in the server's list and implemented, and that
   is enabled for the connection's rule: ChaCha20 only when the rule allows it, RC4 per the grade policy,
   TLS-1.2-only suites only at TLS 1.2, ECDSA suites exactly when the certificate key is ECDSA. *)
Theorem C41_suite_mutual : forall c h r v s a n p,
  min_version c <= max_version c ->
  negotiate c h = Done r v s a n p ->
  mem s (h_suites h) = true /\ mem s (cfg_suites c) = true /\ spec_suite_ok c h v s = true.
Proof. exact suite_mutual_full. Qed.
Print Assumptions C41_suite_mutual.

(* A ClientHello carrying TLS_FALLBACK_SCSV with a version below the server's highest enabled version
   (MaxVersion, or TLS 1.2 when MaxVersion is left at its default 0) is never accepted -- with or without
   a valid session ticket.  (True after /repo fix 1cb6dd6; before it both halves failed.) *)
Theorem C41_scsv_refused : forall c h,
  In tls_fallback_scsv (h_suites h) -> h_vers h < max_version c ->
  exists code, negotiate c h = Alert code.
Proof. exact scsv_refused. Qed.
Print Assumptions C41_scsv_refused.

(* ... and when the version and compression offer are otherwise acceptable the alert is inappropriate_fallback *)
Theorem C41_scsv_alert : forall c h v0 v,
  In tls_fallback_scsv (h_suites h) -> h_vers h < max_version c ->
  mutual_version c (h_vers h) = Some v0 -> check_version_grade v0 (grade_of c) = Some v ->
  In compression_none (h_comp h) ->
  negotiate c h = Alert alert_inappropriate_fallback.
Proof. exact scsv_alert_86. Qed.
Print Assumptions C41_scsv_alert.

(* ALPN.  Full statement (FALSE for the code, see C41_alpn_mutual_refuted):
     negotiate c h = Done r v s a n p -> a <> [] -> In a (h_alpn h) /\ In a (server_protos c).
   Proved part: it holds whenever validateHttp2Accepted did not replace the selection. *)
Theorem C41_alpn_mutual_partial : forall c h r v s a n p,
  negotiate c h = Done r v s a n p -> a <> [] ->
  a = fst (fst (app_proto c h)) ->
  In a (h_alpn h) /\ In a (server_protos c).
Proof. exact alpn_mutual_partial. Qed.
Print Assumptions C41_alpn_mutual_partial.

(* Known finding 3: the client offers only "h2" with an AES-CBC suite, the server lists only "h2";
   the handshake proceeds with ALPN "http/1.1", which neither side listed. *)
Theorem C41_alpn_mutual_refuted :
  let c := cfg_default [proto_h2] in
  let h := hello_simple 771 [47] [proto_h2] NoTicket in
  negotiate c h = Done false 771 47 proto_http11 false [] /\
  ~ In proto_http11 (h_alpn h) /\ ~ In proto_http11 (server_protos c).
Proof. exact alpn_mutual_refuted_lemma. Qed.
Print Assumptions C41_alpn_mutual_refuted.

(* The executable property evaluated by the harness holds of the model on every decodable input with a
   non-empty configured version range, outside known-finding class 3. *)
Theorem C41_prop_of_model : forall i c h,
  decode i = Some (c, h) -> min_version c <= max_version c ->
  kf_C41 i = 0 -> prop_C41 i (run_C41 i) = true.
Proof. exact prop_of_model. Qed.
Print Assumptions C41_prop_of_model.

(* Non-vacuity *)
Example C41_h2_negotiated :
  negotiate (cfg_default [proto_h2; proto_http11]) (hello_simple 771 [47; 49199] [proto_http11; proto_h2] NoTicket)
  = Done false 771 49199 proto_h2 false [].
Proof. exact nonvacuous_h2. Qed.
Example C41_scsv_default_max :
  negotiate (cfg_default []) (hello_simple 770 [47; 22016] [] NoTicket) = Alert alert_inappropriate_fallback.
Proof. exact nonvacuous_scsv_default_max. Qed.
Example C41_scsv_resumption :
  let h := hello_simple 770 [47; 22016] [] (GoodTicket 770 47 0) in
  negotiate (cfg_default []) h = Alert alert_inappropriate_fallback /\
  negotiate (cfg_default []) (hello_simple 770 [47] [] (GoodTicket 770 47 0)) = Done true 770 47 [] false [].
Proof. exact nonvacuous_scsv_resumption. Qed.
