(* C26: hop-by-hop headers are not forwarded.  Property theorems only. *)
From Coq Require Import List ZArith Bool.
From Bfe Require Import lib.Val lib.Bytes gen.HopHeaders model.HopByHop proofs.HopByHopProofs run.RunC26
     proofs.HopByHopRunProofs.
Import ListNotations.
Open Scope Z_scope.

(* Every hop-by-hop name of the property (Connection, Keep-Alive, Proxy-Authenticate, Proxy-Authorization, Te, Trailer,
   Transfer-Encoding, Upgrade) is in bfe_basic.HopHeaders or in bfe_http.reqWriteExcludeHeader - both lists are
   regenerated from the Go source on every run (gen/HopHeaders.v). *)
Theorem C26_tables_cover_spec :
  forallb (fun k => mem_bytes k hop_list || mem_bytes k write_exclude) spec_hop_names = true.
Proof. exact spec_names_covered. Qed.
Print Assumptions C26_tables_cover_spec.

(* For EVERY header map m (a Go map: unique keys) that the request carries when the proxy prepares the outgoing request:
   no entry whose key is one of the listed hop-by-hop names survives hopByHopHeaderRemove followed by the write-exclude
   filter of Request.write, with the single exception the property allows: the entry Te = ["trailers"].  In particular
   a field whose first line is empty ("Connection:" then "Connection: x") is removed too (fixed in /repo e2925fe). *)
Theorem C26_listed_removed : forall m k vs,
  NoDup (map fst m) -> In k spec_hop_names -> In (k, vs) (to_backend m) -> k = s_te /\ vs = [s_trailers].
Proof. exact listed_removed. Qed.
Print Assumptions C26_listed_removed.

(* The stage adds nothing: every forwarded entry was in the request's header map. *)
Theorem C26_nothing_added : forall m e, In e (to_backend m) -> In e m.
Proof. exact to_backend_sub. Qed.
Print Assumptions C26_nothing_added.

(* The clause "any field named in the client's Connection header never reaches the backend" is FALSE of the code:
   for "Connection: x-foo, close" + "X-Foo: 1" the backend receives "X-Foo: 1" (known finding 1). *)
Theorem C26_connection_tokens_refuted :
  exists pairs ls k, backend_lines host_C26 pairs = Some ls /\ nominated (conn_tokens pairs) k = true /\
                     In (line_of k [49]) ls.
Proof. exact connection_tokens_refuted. Qed.
Print Assumptions C26_connection_tokens_refuted.

(* The guarded statement, end to end through the wire functions the harness evaluates on the real server: for EVERY
   input whose header names are token strings (wf_C26; it also says a chunked body only comes with modes 2/3) and that
   is outside known-finding class 1 (kf_C26 i = 0: no field that survives to the backend is named by a token of the
   client's Connection fields), the header block the model sends to the backend satisfies prop_C26: no line named
   Connection, Keep-Alive, Proxy-Authenticate, Proxy-Authorization, Te (other than "Te: trailers"), Trailer,
   Transfer-Encoding (other than BFE's own "chunked" framing of a relayed chunked body) or Upgrade, in any letter case,
   and no line named by a Connection token.  The model is tied to the running server by agree_C26 on every case. *)
Theorem C26_connection_tokens_partial : forall i,
  wf_C26 i = true -> kf_C26 i = 0 -> prop_C26 i (run_C26 i) = true.
Proof. exact prop_C26_of_model. Qed.
Print Assumptions C26_connection_tokens_partial.

(* The guard is exact: every well-formed input of finding class 1 (kf_C26 i = 1) does violate the property on the
   model - class 1 contains no input on which the code behaves correctly. *)
Theorem C26_finding_class_exact : forall i,
  wf_C26 i = true -> kf_C26 i = 1 -> prop_C26 i (run_C26 i) = false.
Proof. exact kf_C26_exact. Qed.
Print Assumptions C26_finding_class_exact.

(* Non-vacuity of the exactness statement: the corpus case kf1-conn-nominated ("Connection: x-foo, close", "X-Foo: 1"). *)
Example C26_finding_class_nonvacuous : wf_C26 corpus_kf1 = true /\ kf_C26 corpus_kf1 = 1.
Proof. exact corpus_kf1_ok. Qed.

(* Non-vacuity of the guarded statement (corpus case wf-example): "Connection: close", "te: trailers", "Transfer-Encoding: chunked", "X-Foo: 1"
   with a chunked body; the backend gets Host, Transfer-Encoding: chunked (own framing), Te: trailers, X-Foo: 1. *)
Example C26_partial_nonvacuous :
  wf_C26 ex_wire = true /\ kf_C26 ex_wire = 0 /\
  run_C26 ex_wire = VL (map VB [line_of s_host host_C26; line_of s_transfer_encoding s_chunked;
                                line_of s_te s_trailers; [88;45;70;111;111;58;32;49]]).
Proof. exact ex_wire_ok. Qed.

(* Non-vacuity: a parsed header block with all eight listed fields, X-Foo and Te: trailers; only the last two survive. *)
Example C26_listed_removed_nonvacuous :
  let m := parse_headers ex_pairs in
  NoDup (map fst m) /\ length m = 9%nat /\ to_backend (hdel s_te m ++ [(s_te, [s_trailers])]) =
     [([88;45;70;111;111], [[50]]); (s_te, [s_trailers])].
Proof. exact listed_removed_nonvacuous. Qed.
