(* C45: TLS handshake messages round-trip and parse safely.  Property theorems only.
   marshal_X / unmarshal_X are the byte-level models of bfe_tls *Msg.marshal / *Msg.unmarshal and of
   sessionState.marshal/unmarshal; unmarshal returns Ok v (Go: true, fields v), Bad (Go: false) or Fuel
   (loop fuel exhausted; never happens, see C45_unmarshal_total).  All slicing in the model is checked,
   so a Go read outside the message (a panic on the exact-capacity slice the harness passes) would be a
   disagreement with the model.  wf_* (coq/run/RunC45.v) are the "values within field widths". *)
From Coq Require Import List ZArith Bool.
From Bfe Require Import lib.Val lib.Bytes model.TlsMsgs proofs.TlsMsgsProofs proofs.TlsMsgsWireProofs run.RunC45.
Import ListNotations.
Open Scope Z_scope.

(* ClientHello with every extension BFE knows (NPN, server_name, status_request, supported curves /
   point formats, session ticket, signature algorithms, renegotiation_info, ALPN): parsing the
   marshalled bytes gives back the same message (ch_parsed m = m with padding := false and
   extensionIds := the extension ids marshal wrote; clientHelloMsg.equal ignores these two).
   wf_ch requires: 16-bit version/suites/curves/sigalgs, 32-byte random, session id <= 32, compression
   and point lists < 256, ALPN names 1..255 bytes, no ticket bytes without ticketSupported, every
   extension and the extension block < 2^16 bytes, and secureRenegotiation = true whenever the suite list
   contains the renegotiation SCSV 0x00ff (the SCSV is the same signal as the extension).
   True after /repo fix 36ca57a (unmarshal matched 0xff02 instead of renegotiation_info 0xff01). *)
Theorem C45_roundtrip_client_hello : forall m,
  wf_ch m = true -> unmarshal_ch (marshal_ch m) = Ok (ch_parsed m).
Proof. exact roundtrip_ch. Qed.
Print Assumptions C45_roundtrip_client_hello.

(* ServerHello (NPN list, status_request, session ticket, renegotiation_info, ALPN). *)
Theorem C45_roundtrip_server_hello : forall m,
  wf_sh m = true -> unmarshal_sh (marshal_sh m) = Ok m.
Proof. exact roundtrip_sh. Qed.
Print Assumptions C45_roundtrip_server_hello.

(* Certificate: every certificate 1..2^24-1 bytes (RFC 5246 ASN.1Cert<1..2^24-1>), list < 2^24 bytes. *)
Theorem C45_roundtrip_certificate : forall certs,
  forallb (wf_str 1 16777216) certs = true -> blen (flat_map enc_cert24 certs) < 16777216 ->
  unmarshal_cert (marshal_cert certs) = Ok certs.
Proof. exact roundtrip_cert. Qed.
Print Assumptions C45_roundtrip_certificate.

(* sessionState (the plaintext of a session ticket). *)
Theorem C45_roundtrip_session_state : forall s,
  wf_ss s = true -> unmarshal_ss (marshal_ss s) = Ok s.
Proof. exact roundtrip_ss. Qed.
Print Assumptions C45_roundtrip_session_state.

Theorem C45_roundtrip_new_session_ticket : forall t,
  blen t < 65536 -> unmarshal_nst (marshal_nst t) = Ok t.
Proof. exact roundtrip_nst. Qed.
Print Assumptions C45_roundtrip_new_session_ticket.

(* Finished: any verify_data (the parser ignores the length field, marshal writes only its low byte). *)
Theorem C45_roundtrip_finished : forall v, unmarshal_fin (marshal_fin v) = Ok v.
Proof. exact roundtrip_fin. Qed.
Print Assumptions C45_roundtrip_finished.

Theorem C45_roundtrip_server_key_exchange : forall k, unmarshal_ske (marshal_ske k) = Ok k.
Proof. exact roundtrip_ske. Qed.
Print Assumptions C45_roundtrip_server_key_exchange.

Theorem C45_roundtrip_client_key_exchange : forall k,
  blen k < 16777216 -> unmarshal_cke (marshal_cke k) = Ok k.
Proof. exact roundtrip_cke. Qed.
Print Assumptions C45_roundtrip_client_key_exchange.

Theorem C45_roundtrip_certificate_status : forall ty resp,
  0 <= ty < 256 -> blen resp < 16777212 -> (ty = 1 \/ resp = []) ->
  unmarshal_cs (marshal_cs ty resp) = Ok (ty, resp).
Proof. exact roundtrip_cs. Qed.
Print Assumptions C45_roundtrip_certificate_status.

Theorem C45_roundtrip_certificate_verify : forall (has : bool) sah sg,
  (if has then 0 <= sah < 65536 else sah = 0) -> blen sg < 65536 ->
  unmarshal_cv has (marshal_cv has sah sg) = Ok (sah, sg).
Proof. exact roundtrip_cv. Qed.
Print Assumptions C45_roundtrip_certificate_verify.

Theorem C45_roundtrip_next_proto : forall proto,
  blen proto < 256 -> unmarshal_np (marshal_np proto) = Ok proto.
Proof. exact roundtrip_np. Qed.
Print Assumptions C45_roundtrip_next_proto.

(* CertificateRequest (hasSignatureAndHash is set by the caller on both sides, as in the handshake):
   1..255 certificate types (the parser rejects an empty list), signature algorithms only when
   hasSignatureAndHash, CA names < 2^16 each and in total. *)
Theorem C45_roundtrip_certificate_request : forall (has : bool) types sigalgs cas,
  1 <= blen types < 256 -> forallb wf_u16 sigalgs = true -> blen sigalgs < 32768 ->
  (has = false -> sigalgs = []) ->
  forallb (wf_str 0 65536) cas = true -> blen (flat_map enc_vec16 cas) < 65536 ->
  unmarshal_creq has (marshal_creq has types sigalgs cas) = Ok (types, sigalgs, cas).
Proof. exact roundtrip_creq. Qed.
Print Assumptions C45_roundtrip_certificate_request.

(* Parse safety.  For every byte string and each of the 12 message types the modelled unmarshal ends in
   Ok (Go: true) or Bad (Go: false): no loop runs out of fuel, so the model -- whose every slice is
   bounds-checked -- is total; not_crash is exactly what prop_C45 demands of the implementation's
   observation for a parse case (a Go panic or out-of-slice read is reported as [-2]). *)
Theorem C45_unmarshal_total : forall mt (flag : bool) d,
  In mt [1; 2; 3; 4; 5; 7; 8; 9; 10; 11; 12; 13] -> not_crash (unmarshal_any mt flag d) = true.
Proof. exact parse_safe. Qed.
Print Assumptions C45_unmarshal_total.

Theorem C45_unmarshal_client_hello_total : forall d, unmarshal_ch d <> Fuel.
Proof. exact unmarshal_ch_total. Qed.
Print Assumptions C45_unmarshal_client_hello_total.

(* the executable property holds of the model on every parse case *)
Theorem C45_prop_of_model_parse : forall mt flag d,
  In mt [1; 2; 3; 4; 5; 7; 8; 9; 10; 11; 12; 13] ->
  prop_C45 (VL [VZ 2; VZ mt; VZ flag; VB d]) (run_C45 (VL [VZ 2; VZ mt; VZ flag; VB d])) = true.
Proof. exact prop_parse_of_model. Qed.
Print Assumptions C45_prop_of_model_parse.

(* CENTRAL THEOREM.  For every well-formed harness input (a known message id; for a round-trip case,
   fields of the right shape) the model's own output satisfies the executable property the harness
   evaluates on the implementation: a value within field widths (and in canonical wire form) parses back
   to equal fields, and every parse ends in true/false.  There is no known-finding class (kf_C45 = 0). *)
Theorem C45_prop_of_model : forall i,
  wf_C45 i = true -> kf_C45 i = 0 -> prop_C45 i (run_C45 i) = true.
Proof. exact prop_of_model. Qed.
Print Assumptions C45_prop_of_model.

(* Non-vacuity: a ClientHello using all nine extensions is within the widths and round-trips. *)
Example C45_client_hello_example :
  wf_ch ch_example = true /\ length (ch_exts ch_example) = 9%nat /\
  unmarshal_ch (marshal_ch ch_example) = Ok (ch_parsed ch_example).
Proof. exact ch_example_ok. Qed.
Example C45_server_hello_example :
  wf_sh sh_example = true /\ length (sh_exts sh_example) = 5%nat.
Proof. exact sh_example_ok. Qed.
(* a generated corpus case (corpus/C45 rt-ch-all) is a well-formed input within the field widths *)
Example C45_corpus_case_wf :
  wf_C45 corpus_rt_ch_all = true /\
  (exists f, corpus_rt_ch_all = VL [VZ 1; VZ 1; VZ 0; VL f] /\ wf_any 1 false f = true).
Proof. exact corpus_rt_ch_all_wf. Qed.
