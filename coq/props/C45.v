From Coq Require Import List ZArith Bool.
From Bfe Require Import lib.Val lib.Bytes model.TlsMsgs run.RunC45.
Theorem C45_tmp : run_C45 (VZ 0) = VErr 0.
Proof. reflexivity. Qed.
Print Assumptions C45_tmp.
