(* C31: HPACK decoding conforms to RFC 7541.  Property theorems only.
   The decoder model is the transcription of hpack.go (Decoder.Write/Close, parseHeaderFieldRepr, readVarInt,
   readString, dynamicTable) after the /repo fix "hpack huffmanDecode rejects EOS / over-long or non-EOS padding";
   rfc_decode / rfc_repr / rfc_int / rfc_string / rfc_huff_decode are the RFC 7541 reference (specification). *)
From Coq Require Import List ZArith Bool.
From Bfe Require Import lib.Val lib.Bytes gen.HpackTables model.Huffman model.Hpack run.RunC31
  proofs.HuffmanProofs proofs.HuffmanTrieProofs proofs.HuffmanEquivProofs proofs.HpackProofs proofs.HpackRfcProofs proofs.HpackIncrProofs proofs.HpackLimProofs proofs.HpackEmitProofs proofs.HpackSafeProofs proofs.HpackC31Proofs.
Import ListNotations.
Open Scope Z_scope.

(* RFC 7541 5.2, for EVERY byte string v: the reference Huffman decoder returns s exactly when the bits of v are
   the codes of s followed by fewer than 8 padding bits that are all ones.  Hence more than 7 bits of padding,
   padding that is not a prefix of EOS, an encoded EOS and an incomplete code are all rejected. *)
Theorem C31_huffman_accepts_exactly : forall v s, rfc_huff_decode v = Some s <-> huff_valid (bytes_bits v) s.
Proof. exact rfc_huff_decode_iff. Qed.
Print Assumptions C31_huffman_accepts_exactly.

(* readVarInt refines the RFC 5.1 integer (at most 9 continuation octets): same value and rest, or both fail. *)
Theorem C31_varint_refines_rfc : forall n p, 0 <= n -> wf_bytes p = true -> rd_rfc (read_varint n p) (rfc_int n p).
Proof. exact read_varint_rfc. Qed.
Print Assumptions C31_varint_refines_rfc.

(* C31_incremental.  For EVERY Huffman decoder function hd, every decoder state d and every list of chunks, feeding
   the chunks one Write at a time (stopping at the first error, then Close) gives exactly the same final state,
   emitted fields and status as one Write of their concatenation: the saveBuf / errNeedMore logic is transparent. *)
Theorem C31_incremental : forall hd chunks d acc, dec_run hd d chunks acc = dec_run hd d [concat chunks] acc.
Proof. exact dec_run_concat. Qed.
Print Assumptions C31_incremental.

(* HEADLINE.  For every table size mx >= 0 and EVERY list of byte-string chunks, the decoder model
   (NewDecoder(mx); Write(chunk)...; Close()) never reaches a panic site (nil trie node, eviction from an empty
   table) and: if the RFC 7541 reference decoder accepts the concatenated input, the model reports no error,
   emitted exactly the reference fields (names, values, never-index flags) and holds the same dynamic table
   (entries, maximum); if the reference rejects it (index 0 or beyond the tables, size update above the allowed
   maximum - however large - or after the first field of the block (4.2), integer longer than 9 continuation
   octets, Huffman padding > 7 bits / not all ones / EOS / incomplete code, truncated block) the model reports
   an error.  Huffman strings are decoded by the RFC bit-level decoder in both. *)
Theorem C31_decoder_refines_rfc : forall mx chunks, 0 <= mx -> forallb wf_bytes chunks = true ->
  let '(d, fs, st) := dec_run huff_decode_spec (new_decoder mx) chunks [] in
  st <> ST_PANIC /\
  match rfc_decode mx (concat chunks) with
  | Some (t, want) => st = 0 /\ fs = want /\ trel (ddt d) t
  | None => st <> 0
  end.
Proof. exact decoder_refines_rfc. Qed.
Print Assumptions C31_decoder_refines_rfc.

(* SetEmitEnabled: TABLE EVOLUTION IS INDEPENDENT OF THE EMIT FLAG.  For every Huffman decoder, string limit M >= 0,
   decoder state d, emit budget b (SetEmitEnabled(false) after b emitted fields; negative = never) and chunk list:
   whenever the block is accepted with emit always enabled, it is accepted with budget b, the final decoder state
   (dynamic table entries and sizes, saved bytes, firstField) is identical, and exactly the first b fields are emitted. *)
Theorem C31_emit_independent : forall hd M, 0 <= M -> forall d b chunks dd fs,
  dec_run_lim hd M d chunks [] = (dd, fs, 0) -> dec_run_e hd M d b chunks [] = (dd, take_b b fs, 0).
Proof. exact emit_independent. Qed.
Print Assumptions C31_emit_independent.

(* NO PANIC, any mode: for every Huffman decoder that does not panic, every string limit, emit budget, chunking of
   byte strings and starting state satisfying the table invariant, the model never reaches a panic site. *)
Theorem C31_never_panics : forall hd, (forall v, hd v <> HPanic) -> forall M chunks d b acc,
  safe_state d -> forallb wf_bytes chunks = true ->
  let '(dd, _, st) := dec_run_e hd M d b chunks acc in st <> ST_PANIC.
Proof. exact run_e_safe. Qed.
Print Assumptions C31_never_panics.

(* CENTRAL THEOREM: on every well-formed wire input the model's output satisfies the executable property that the
   harness evaluates on the implementation's observation (no finding class: kf_C31 = 0 everywhere).
   wf_C31: table size >= 0, bytes in range, default string-length limit (SetMaxStringLength not called), any emit
   budget; generated inputs with a string limit are checked against model and property but are outside this theorem.
   run_C31 uses the bit-level Huffman decoder; agree_C31 additionally requires the byte-trie transcription
   (huff_decode) to give the same observation - see C31_trie_step_agrees and level_note. *)
Theorem C31_central : forall i, wf_C31 i = true -> kf_C31 i = 0 -> prop_C31 i (run_C31 i) = true.
Proof. exact C31_central_lemma. Qed.
Print Assumptions C31_central.
Example C31_central_nonvacuous :
  wf_C31 ex_input31 = true /\ agree_C31 ex_input31 (run_C31 ex_input31) = true
  /\ run_C31 ex_input31 = VL [VL [VL [VB [58;109;101;116;104;111;100]; VB [71;69;84]; VZ 0]; VL [VB [120]; VB [48]; VZ 0]]; VZ 0; VZ 34; VZ 64; VZ 1].
Proof. exact ex_input31_ok. Qed.

(* The byte-trie Huffman decoder (transcription of addDecoderNode + the fixed huffmanDecode with cur/cbits/sbits)
   returns, for EVERY byte string, exactly what the RFC bit-level decoder returns - a string or an error, never
   a panic (nil node) and never fuel exhaustion.  So everything above also holds with the trie decoder. *)
Theorem C31_trie_equals_bitlevel : forall v, wf_bytes v = true -> huff_decode v = huff_decode_spec v.
Proof. exact huff_decode_eq_spec. Qed.
Print Assumptions C31_trie_equals_bitlevel.
Theorem C31_decoder_refines_rfc_trie : forall mx chunks, 0 <= mx -> forallb wf_bytes chunks = true ->
  let '(d, fs, st) := dec_run huff_decode (new_decoder mx) chunks [] in
  st <> ST_PANIC /\
  match rfc_decode mx (concat chunks) with
  | Some (t, want) => st = 0 /\ fs = want /\ trel (ddt d) t
  | None => st <> 0
  end.
Proof. exact decoder_refines_rfc_trie. Qed.
Print Assumptions C31_decoder_refines_rfc_trie.
Theorem C31_run_trie_eq : forall i, wf_C31 i = true ->
  match decode_input i with Some (_, _, k, _) => k < 0 | None => True end -> run_C31_trie i = run_C31 i.
Proof. exact run_C31_trie_eq. Qed.
Print Assumptions C31_run_trie_eq.

(* The 256-ary trie built by the transcription of addDecoderNode agrees with the bit-level code on every
   (internal node, next byte) pair - 15 x 256 cases - and on 1280 encoded strings covering every symbol. *)
Theorem C31_trie_step_agrees : trie_step_agrees = true /\ trie_symbols_agree = true.
Proof. exact (conj trie_step_agrees_true trie_symbols_agree_true). Qed.
Print Assumptions C31_trie_step_agrees.

(* Non-vacuity: the pre-fix panic witness (literal field, value = Huffman '0' '1' followed by EOS) is now an
   error in the trie model and in the reference; a valid block (":method: GET", then a literal with incremental
   indexing using a Huffman value with 3 bits of padding) is accepted with two fields. *)
Example C31_witness_rejected :
  run_C31_trie (VL [VZ 4096; VZ 0; VZ (-1); VL [VB [0;0;133;0;127;255;255;255]]]) = VL [VL []; VZ 4; VZ 0; VZ 4096; VZ 0]
  /\ rfc_decode 4096 [0;0;133;0;127;255;255;255] = None.
Proof. exact (conj eq_refl eq_refl). Qed.
Example C31_valid_accepted :
  match rfc_decode 4096 [130; 64; 1; 120; 129; 7] with
  | Some (t, fs) => length fs = 2%nat /\ length (rents t) = 1%nat
  | None => False
  end.
Proof. exact (conj eq_refl eq_refl). Qed.
