(* C31: HPACK decoding conforms to RFC 7541.  Property theorems only.
   The decoder model is the transcription of hpack.go (Decoder.Write/Close, parseHeaderFieldRepr, readVarInt,
   readString, dynamicTable) after the /repo fix "hpack huffmanDecode rejects EOS / over-long or non-EOS padding";
   rfc_decode / rfc_repr / rfc_int / rfc_string / rfc_huff_decode are the RFC 7541 reference (specification). *)
From Coq Require Import List ZArith Bool.
From Bfe Require Import lib.Val lib.Bytes gen.HpackTables model.Huffman model.Hpack run.RunC31
  proofs.HuffmanProofs proofs.HuffmanTrieProofs proofs.HpackProofs proofs.HpackRfcProofs proofs.HpackC31Proofs.
Import ListNotations.
Open Scope Z_scope.

(* RFC 7541 5.2, for EVERY byte string v: the reference Huffman decoder returns s exactly when the bits of v are
   the codes of s followed by fewer than 8 padding bits that are all ones.  Hence more than 7 bits of padding,
   padding that is not a prefix of EOS, an encoded EOS and an incomplete code are all rejected. *)
Theorem C31_huffman_accepts_exactly : forall v s, rfc_huff_decode v = Some s <-> huff_valid (bytes_bits v) s.
Proof. exact rfc_huff_decode_iff. Qed.
Print Assumptions C31_huffman_accepts_exactly.

(* readVarInt refines the RFC 5.1 integer (at most 9 continuation octets): same value and rest, or both fail. *)
Theorem C31_varint_refines_rfc : forall n p, 0 <= n -> wf_bytes p = true -> rd_rfc (read_varint n p) (rfc_int n p).
Proof. exact read_varint_rfc. Qed.
Print Assumptions C31_varint_refines_rfc.

(* HEADLINE (whole-block delivery).  For every table size mx >= 0 and EVERY byte string p, the decoder model
   (NewDecoder(mx); Write(p); Close()) with the RFC Huffman decoder never reaches a panic site (nil node,
   eviction from an empty table) and: if the RFC reference decoder accepts p, the model reports no error, emitted
   exactly the reference fields (names, values, never-index flags) and holds the same dynamic table (entries,
   maximum); if the reference rejects p (index 0 or beyond the tables, size update above the allowed maximum,
   integer longer than 9 continuation octets, bad Huffman padding / EOS, truncated block) the model reports an error. *)
Theorem C31_decoder_refines_rfc_partial : forall mx p, 0 <= mx -> wf_bytes p = true ->
  let '(d, fs, st) := dec_run huff_decode_spec (new_decoder mx) [p] [] in
  st <> ST_PANIC /\
  match rfc_decode mx p with
  | Some (t, want) => st = 0 /\ fs = want /\ trel (ddt d) t
  | None => st <> 0
  end.
Proof. exact decoder_refines_rfc_oneshot. Qed.
Print Assumptions C31_decoder_refines_rfc_partial.
(* Full statement not proved (see level_note):
     forall chunks, the same for dec_run huff_decode (new_decoder mx) chunks [] against rfc_decode mx (concat chunks)
   i.e. (1) arbitrary splitting across Write calls (C31_incremental) and (2) the byte-trie Huffman decoder in place
   of the bit-level one.  Both are tied by the correspondence check (random splits, crafted Huffman tails). *)

(* the same through the executable predicate that the harness evaluates on the implementation's observation *)
Theorem C31_prop_of_model : forall mx p, 0 <= mx -> wf_bytes p = true ->
  prop_C31 (VL [VZ mx; VL [VB p]]) (observe huff_decode_spec mx [p]) = true.
Proof. exact prop_C31_of_model_oneshot. Qed.
Print Assumptions C31_prop_of_model.

(* The 256-ary trie built by the transcription of addDecoderNode agrees with the bit-level code on every
   (internal node, next byte) pair - 15 x 256 cases - and on 1280 encoded strings covering every symbol. *)
Theorem C31_trie_step_agrees : trie_step_agrees = true /\ trie_symbols_agree = true.
Proof. exact (conj trie_step_agrees_true trie_symbols_agree_true). Qed.
Print Assumptions C31_trie_step_agrees.

(* Non-vacuity: the pre-fix panic witness (literal field, value = Huffman '0' '1' followed by EOS) is now an
   error in the trie model and in the reference; a valid block (":method: GET", then a literal with incremental
   indexing using a Huffman value with 3 bits of padding) is accepted with two fields. *)
Example C31_witness_rejected :
  run_C31 (VL [VZ 4096; VL [VB [0;0;133;0;127;255;255;255]]]) = VL [VL []; VZ 4; VZ 0; VZ 4096; VZ 0]
  /\ rfc_decode 4096 [0;0;133;0;127;255;255;255] = None.
Proof. exact (conj eq_refl eq_refl). Qed.
Example C31_valid_accepted :
  match rfc_decode 4096 [130; 64; 1; 120; 129; 7] with
  | Some (t, fs) => length fs = 2%nat /\ length (rents t) = 1%nat
  | None => False
  end.
Proof. exact (conj eq_refl eq_refl). Qed.
