(* C06: the backend health state machine follows the configured thresholds.  Property theorems only.
   Model: model/Health.v - state (avail, failNum, succNum, live checkers with an outstanding check, released,
   restarted, thresholds); operations ReqFail n (n OnFail calls), ReqSucc (OnSuccess), CheckOk / CheckFail (result of
   the outstanding health check), Release (reload removed the backend), SetThr (check conf changed).
   h_init ft st = fresh backend; hrun s ops = the list of states after each operation.
   Timers and sockets are outside the model: the outcome of each health check is an input. *)
From Coq Require Import List ZArith Bool.
From Bfe Require Import lib.Val model.Health run.RunC06 proofs.HealthProofs.
Import ListNotations.
Open Scope Z_scope.

(* At most one health checker exists in every reachable state, for every history. *)
Theorem C06_single_checker : forall ft st ops s,
  In s (hrun (h_init ft st) ops) -> 0 <= checkers s <= 1.
Proof. exact single_checker. Qed.
Print Assumptions C06_single_checker.

(* A checker runs only while the backend is out of rotation, and a backend that is out of rotation and has
   not been removed is being checked (so it can come back). *)
Theorem C06_checker_iff_out : forall ft st ops s, In s (hrun (h_init ft st) ops) ->
  (avail s = true -> checkers s = 0) /\ (avail s = false -> released s = false -> checkers s = 1).
Proof. exact checker_iff_out. Qed.
Print Assumptions C06_checker_iff_out.

(* The backend leaves rotation exactly at a request failure (group) that brings the consecutive failure count
   failNum (reset by OnSuccess and by the return to rotation) to the configured threshold; no other operation
   takes it out. *)
Theorem C06_out_iff_threshold : forall s o,
  (avail s = true /\ avail (hstep s o) = false) <->
  (exists n, o = ReqFail n /\ avail s = true /\ failN s + n >= failT s).
Proof. exact out_iff_threshold. Qed.
Print Assumptions C06_out_iff_threshold.

(* It returns to rotation exactly at a successful health check that completes succNum + 1 >= threshold, where the
   threshold is the one configured when that check was issued (check() reads the conf before CheckConnect). *)
Theorem C06_back_after_succT : forall s o,
  (avail s = false /\ avail (hstep s o) = true) <->
  (o = CheckOk /\ avail s = false /\ checkers s >= 1 /\ succN s + 1 >= reqT s).
Proof. exact back_iff_succ. Qed.
Print Assumptions C06_back_after_succT.

(* succNum counts CONSECUTIVE successful checks: a failed check resets it, a success below the threshold adds one
   and leaves availability unchanged; and whenever no checker runs on a live backend succNum is 0. *)
Theorem C06_consecutive_successes : forall s, checkers s >= 1 ->
  succN (hstep s CheckFail) = 0 /\
  (succN s + 1 < reqT s -> succN (hstep s CheckOk) = succN s + 1 /\ avail (hstep s CheckOk) = avail s).
Proof. exact check_counts. Qed.
Print Assumptions C06_consecutive_successes.
Theorem C06_succnum_zero_at_start : forall ft st ops s, In s (hrun (h_init ft st) ops) ->
  checkers s = 0 -> released s = false -> succN s = 0.
Proof. exact succnum_zero_at_start. Qed.
Print Assumptions C06_succnum_zero_at_start.

(* A backend removed by reload stops being checked: after Release no operation starts a checker, and the
   outstanding check (if any) is the last one. *)
Theorem C06_release_stops : forall s o, released s = true ->
  released (hstep s o) = true /\ checkers (hstep s o) <= checkers s /\
  ((o = CheckOk \/ o = CheckFail) -> checkers s >= 1 -> checkers (hstep s o) = checkers s - 1).
Proof. exact release_stops. Qed.
Print Assumptions C06_release_stops.

(* Removal of the whole cluster (the check conf disappears AND the backend is released) releases the backend in every
   state; and once released - by Release or RemoveCluster, whether the backend is up, down with a check outstanding, with
   or without a check conf - no later history raises the number of checkers again. *)
Theorem C06_cluster_removal_releases : forall s,
  released (hstep s RemoveCluster) = true /\ checkers (hstep s RemoveCluster) = checkers s /\
  avail (hstep s RemoveCluster) = avail s.
Proof. exact remove_cluster_releases. Qed.
Print Assumptions C06_cluster_removal_releases.
Theorem C06_released_forever : forall ops s, released s = true ->
  Forall (fun s' => released s' = true /\ checkers s' <= checkers s) (hrun s ops).
Proof. exact released_forever. Qed.
Print Assumptions C06_released_forever.

(* Wire level: for every well-formed input the model's observations satisfy prop_C06, the specification monitor
   (model/Health.v mon_step: own bookkeeping of consecutive failures / successes, written from the property text). *)
Theorem C06_prop_of_model : forall i, dec_input i <> None -> prop_C06 i (run_C06 i) = true.
Proof. exact model_satisfies_prop. Qed.
Print Assumptions C06_prop_of_model.

(* Non-vacuity: threshold 3/2, a success resets the failure run, leaves at the 3rd consecutive failure, a failed check
   resets the success run, comes back, leaves again, is released while a check is outstanding. *)
Example C06_ex_run :
  map (fun s => (avail s, checkers s)) (hrun (h_init 3 2) ex_ops) =
  [(true,0);(true,0);(true,0);(true,0);(false,1);(false,1);(false,1);(false,1);(false,1);(true,0);(false,1);(false,1);(false,0);(false,0)].
Proof. exact ex_run. Qed.
Example C06_ex_wire :
  let i := VL [VZ 2; VZ 2; VL [VL [VZ 1; VZ 1]; VL [VZ 1; VZ 3]; VL [VZ 3]; VL [VZ 6; VZ 1; VZ 1]; VL [VZ 3]; VL [VZ 5]; VL [VZ 4]]] in
  dec_input i <> None /\ run_C06 i <> VErr 0.
Proof. exact ex_wire. Qed.
