From Coq Require Import List ZArith Bool.
From Bfe Require Import lib.Val model.Health run.RunC06.
Theorem C06_placeholder : True. Proof. exact I. Qed.
Print Assumptions C06_placeholder.
