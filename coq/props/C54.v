(* C54: compressed responses decompress to the original body.  Property theorems only.
   The codec (compress/gzip, andybalholm/brotli and the client's decompressor) is abstract: W is the compressor
   state, wwrite/wflush/wclose return the bytes they append to the output, decomp is the decompressor. *)
From Coq Require Import List ZArith Bool.
From Bfe Require Import lib.Val lib.ValProofs lib.Bytes model.StaticFile model.Compress proofs.CompressProofs run.RunC54.
Import ListNotations.
Open Scope Z_scope.

(* For every codec that round-trips (any writes with flushes anywhere, then close, decompress to the concatenation
   of the writes) and whose flush always emits something: for every backend body, every way the backend hands it
   out in chunks (including empty reads), every flush size > 0 and every sequence of client read-buffer sizes ps,
   if the client reading GzipFilter/BrotliFilter.Read reaches EOF, the bytes it received decompress to exactly
   the backend body. *)
Theorem C54_decodes_to_original :
  forall (W : Type) (wwrite : W -> bytes -> W * bytes) (wflush wclose : W -> W * bytes) (w0 : W)
         (decomp : bytes -> option bytes),
  (forall ops, no_close ops -> decomp (snd (wexec W wwrite wflush wclose w0 (ops ++ [OC]))) = Some (writes ops)) ->
  (forall w, snd (wflush w) <> []) ->
  forall chunks flush ps cs outs, 0 < flush ->
  consume W wwrite wflush wclose flush {| f_src := chunks; f_w := w0; f_buf := []; f_closed := false |} ps = (cs, outs, true) ->
  decomp outs = Some (concat chunks).
Proof. exact decodes_to_original_sec. Qed.
Print Assumptions C54_decodes_to_original.

(* The two codec hypotheses are satisfiable (a concrete framing codec), so the theorem is not vacuous. *)
Theorem C54_codec_hypotheses_satisfiable :
  (forall ops, no_close ops -> t_decomp (snd (wexec unit t_write t_flush t_close tt (ops ++ [OC]))) = Some (writes ops)) /\
  (forall w, snd (t_flush w) <> []).
Proof. exact (conj t_codec_ok t_flush_emits). Qed.
Print Assumptions C54_codec_hypotheses_satisfiable.

(* Each Read pulls min(flushSize, what is left) bytes from the backend, however the backend chunks its data. *)
Theorem C54_read_consumes_min : forall chunks n, 0 <= n -> total (fst (take_n n chunks)) = Z.min n (total chunks).
Proof. exact take_n_total. Qed.
Print Assumptions C54_read_consumes_min.

(* Header decisions of compressHandler, for every Accept-Encoding, response Content-Encoding and rule:
   when the module wraps the body (h_wrapped <> 0) then the announced Content-Encoding is the filter applied,
   the request's Accept-Encoding has that token and the rule's command asks for it (C54_only_if_accepted);
   Content-Length is gone (C54_no_stale_content_length); the response was not already encoded; a rule matched. *)
Theorem C54_only_if_accepted_no_stale_length : forall ae cenc has_clen has_rule cmd,
  let r := handler ae cenc has_clen has_rule cmd in
  h_wrapped r <> 0 ->
  ((h_wrapped r = 1 /\ h_cenc r = GZIP /\ has_token ae GZIP = true /\ cmd = 0) \/
   (h_wrapped r = 2 /\ h_cenc r = BR /\ has_token ae BR = true /\ cmd = 1)) /\
  h_has_clen r = false /\ (cenc = [] \/ cenc = IDENTITY) /\ has_rule = true.
Proof. exact handler_only_if_accepted. Qed.
Print Assumptions C54_only_if_accepted_no_stale_length.

(* when it does not wrap the body, Content-Encoding and Content-Length are left as they were *)
Theorem C54_untouched_when_not_compressed : forall ae cenc has_clen has_rule cmd,
  let r := handler ae cenc has_clen has_rule cmd in
  h_wrapped r = 0 -> h_cenc r = cenc /\ h_has_clen r = has_clen.
Proof. exact handler_untouched. Qed.
Print Assumptions C54_untouched_when_not_compressed.

(* a response that already carries a Content-Encoding other than "identity" is never touched *)
Theorem C54_already_encoded_untouched : forall ae cenc has_clen has_rule cmd,
  cenc <> [] -> cenc <> IDENTITY ->
  handler ae cenc has_clen has_rule cmd = {| h_cenc := cenc; h_has_clen := has_clen; h_wrapped := 0 |}.
Proof. exact handler_already_encoded. Qed.
Print Assumptions C54_already_encoded_untouched.

(* Central theorem: every decodable input (filter run, with or without a failing backend; handler call with any rule
   situation) is well-formed, there is no known-finding class, and the executable property predicate evaluated on the
   implementation (decoded = body and the backend body closed once; failing backend: error reported and a prefix
   delivered; headers as in the statement) holds of the model. *)
Theorem C54_prop_of_model : forall i, wf_C54 i = true -> kf_C54 i = 0 -> prop_C54 i (run_C54 i) = true.
Proof. exact prop_C54_of_model. Qed.
Print Assumptions C54_prop_of_model.

(* a corpus case (corpus/C54/basics.case, h-gzip) is well-formed: gzip rule, "gzip" accepted, Content-Length dropped *)
Example C54_wf_example :
  let i := VL [VZ 2; VZ 0; VZ 1; VB GZIP; VB []; VZ 1; VZ 6; VZ 64; VB [104; 101; 108; 108; 111]] in
  wf_C54 i = true /\ run_C54 i = VL [VB GZIP; VZ 0; VZ 1; VB [104; 101; 108; 108; 111]; VZ 1].
Proof. exact C54_wf_example_lemma. Qed.

(* Non-vacuity: body 10..15 in chunks of 3, 2, 1 bytes, flush size 4, client buffers 3, 100, 1, 100: the reads pull
   4, 2, 0 (close), 0 (EOF) bytes and the received stream decodes to the body. *)
Example C54_example :
  consume unit t_write t_flush t_close 4
    {| f_src := [[10; 11; 12]; [13; 14]; [15]]; f_w := tt; f_buf := []; f_closed := false |} [3; 100; 1; 100; 100; 100]
  = ([4; 2; 0; 0], [1; 10; 1; 11; 1; 12; 1; 13; 0; 1; 14; 1; 15; 0; 2], true)
  /\ t_decomp [1; 10; 1; 11; 1; 12; 1; 13; 0; 1; 14; 1; 15; 0; 2] = Some [10; 11; 12; 13; 14; 15].
Proof. exact C54_example_lemma. Qed.
