From Coq Require Import List ZArith Bool.
From Bfe Require Import lib.Val model.Compress run.RunC54.
Example C54_placeholder : True. Proof. exact I. Qed.
Print Assumptions C54_placeholder.
