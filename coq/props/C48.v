(* C48: module callbacks run in order and verdicts are honoured.  Property theorems only. *)
From Coq Require Import List ZArith Bool.
From Bfe Require Import lib.Val lib.ValProofs model.Callbacks run.RunC48 proofs.CallbacksProofs proofs.CallbacksTieProofs.
Import ListNotations.
Open Scope Z_scope.

(* For every filter chain (any length, any verdict codes) the handlers that HandlerList.FilterXxx invokes
   are exactly the chain's prefix up to and including the first handler whose verdict is not "continue":
   registration order, stop at the first non-continue verdict, later handlers never run. *)
Theorem C48_order_and_stop : forall chain,
  fst (run_chain chain) = firstn (S (first_non_continue chain)) chain.
Proof. exact run_chain_calls. Qed.
Print Assumptions C48_order_and_stop.

(* The verdict of the walk is that first non-continue verdict (continue when every handler continues);
   every handler before it continued, and it did not. *)
Theorem C48_walk_verdict : forall chain,
  snd (run_chain chain) = nth (first_non_continue chain) chain VGoOn
  /\ (forall k, (k < first_non_continue chain)%nat -> ret (nth k chain VGoOn) = VGoOn)
  /\ ((first_non_continue chain < length chain)%nat -> ret (nth (first_non_continue chain) chain VGoOn) <> VGoOn).
Proof. intro c. split; [apply run_chain_verdict|split; [apply before_stop_continue|apply stop_not_continue]]. Qed.
Print Assumptions C48_walk_verdict.

(* Number of invocations: min(length, index of first non-continue + 1). *)
Theorem C48_later_never_run : forall chain,
  length (fst (run_chain chain)) = Nat.min (length chain) (S (first_non_continue chain)).
Proof. exact run_chain_count. Qed.
Print Assumptions C48_later_never_run.

(* The server's verdict switch is total: every (callback point, verdict) pair has one of five reactions, and the
   pairs it ignores (treated as continue) are exactly those outside the listed table `honoured`
   (e.g. Response at HandleForward, Close at HandleReadResponse, any verdict at HandleFinish). *)
Theorem C48_verdict_table_total : forall p r,
  (reaction p r = RIgnore \/ reaction p r = RCloseDirect \/ reaction p r = RCloseAfterReply
   \/ reaction p r = RRedirect \/ reaction p r = RResponse)
  /\ (reaction p r = RIgnore <-> honoured p r = false).
Proof. intros p r. split; [apply reaction_total|apply reaction_ignored_iff]. Qed.
Print Assumptions C48_verdict_table_total.

(* ---- the server's reaction, for one request through ReverseProxy.ServeHTTP + FinishReq on the model ----
   react chains p = reaction of the server to the verdict of the chain registered at point p;
   earlier_pass chains p = every request-phase point before p let the request pass. *)

(* A close verdict (HandleAccept, HandleHandshake on TLS connections; HandleBeforeLocation / FoundProduct / AfterLocation) sends nothing to the client,
   contacts no backend and closes the connection. *)
Theorem C48_close_sends_nothing : forall chains bst p,
  In p [PBeforeLocation; PFoundProduct; PAfterLocation] -> earlier_pass chains p -> react chains p = RCloseDirect ->
  let q := serve_request chains bst in q_reply q = no_reply /\ q_contacted q = 0 /\ q_keep q = false.
Proof. exact close_sends_nothing. Qed.
Print Assumptions C48_close_sends_nothing.
Theorem C48_accept_close_sends_nothing : forall h bst tls chains,
  react chains PAccept = RCloseDirect \/ (tls = true /\ react chains PHandshake = RCloseDirect) ->
  let k := serve_conn h bst tls chains in k_reply k = no_reply /\ k_contacted k = 0 /\ k_open k = 0.
Proof. exact accept_close_sends_nothing. Qed.
Print Assumptions C48_accept_close_sends_nothing.

(* A redirect verdict at a request-phase point sends exactly that redirect (code, Location, body) without contacting a backend. *)
Theorem C48_redirect_exact : forall chains bst p,
  In p [PBeforeLocation; PFoundProduct; PAfterLocation] -> earlier_pass chains p -> react chains p = RRedirect ->
  let q := serve_request chains bst in
  q_reply q = redir_reply (variant (verdict_at chains p)) /\ q_contacted q = 0.
Proof. exact redirect_exact. Qed.
Print Assumptions C48_redirect_exact.

(* A response verdict at a request-phase point contacts no backend and sends exactly the module's response - provided the
   HandleReadResponse chain, which the server still runs on that response, neither finishes nor redirects. *)
Theorem C48_response_exact : forall chains bst p,
  In p [PBeforeLocation; PFoundProduct; PAfterLocation] -> earlier_pass chains p -> react chains p = RResponse ->
  let q := serve_request chains bst in
  q_contacted q = 0 /\ (react chains PReadResponse = RIgnore -> q_reply q = mod_reply (variant (verdict_at chains p))).
Proof. exact response_exact. Qed.
Print Assumptions C48_response_exact.

(* A finish verdict closes the connection after a reply, at every point where the server honours it. *)
Theorem C48_finish_closes_after_reply : forall chains bst,
  (forall p, In p [PBeforeLocation; PFoundProduct; PAfterLocation] -> earlier_pass chains p ->
             react chains p = RCloseAfterReply ->
             let q := serve_request chains bst in q_keep q = false /\ r_status (q_reply q) <> 0 /\ q_contacted q = 0)
  /\ (earlier_pass chains PForward -> react chains PForward = RCloseAfterReply ->
      let q := serve_request chains bst in q_keep q = false /\ r_status (q_reply q) <> 0 /\ q_contacted q = 0)
  /\ (earlier_pass chains PForward -> react chains PReadResponse = RCloseAfterReply ->
      let q := serve_request chains bst in q_keep q = false /\ r_status (q_reply q) <> 0)
  /\ (react chains PRequestFinish = RCloseAfterReply -> q_keep (serve_request chains bst) = false).
Proof.
  intros chains bst. split; [intros p; apply finish_closes_request_point|].
  split; [apply finish_closes_forward|]. split; [apply finish_closes_read_response|apply finish_closes_at_request_finish].
Qed.
Print Assumptions C48_finish_closes_after_reply.

(* A (point, verdict) pair the switch ignores behaves exactly as continue. *)
Theorem C48_ignored_is_continue : forall chains bst p calls rest,
  In p [PBeforeLocation; PFoundProduct; PAfterLocation] -> react chains p = RIgnore ->
  request_points chains bst (p :: rest) calls = request_points chains bst rest (calls ++ [(p, fst (run_chain (chains p)))]).
Proof. exact ignored_is_continue. Qed.
Print Assumptions C48_ignored_is_continue.

(* CENTRAL THEOREM, partial (guard: the input lies in the explicit finite domain c48_domain).  For every input of the
   domain - handler count 1 or 2; any two callback points p < q among the nine scripted with every chain of length <= h at p and
   every chain of length <= 1 at q over the verdicts Finish / continue / Redirect / Response / Close, plain connections and, when
   HandleAccept or HandleHandshake is involved, TLS connections as well; plus every triple (request-phase point or HandleForward,
   HandleReadResponse, HandleRequestFinish) of single-handler chains incl. unknown verdict values and other variants; more than
   13 000 inputs, enumerated completely inside Coq - the model's output satisfies the executable property predicate that the
   harness evaluates on the implementation: prop_C48 i (run_C48 i) = true.  (The full statement for all chains is not proved;
   outside the domain the implication is tested on every generated case.) *)
Theorem C48_prop_of_run_partial : forall i, In i c48_domain -> kf_C48 i = 0 -> prop_C48 i (run_C48 i) = true.
Proof. exact prop_of_run_bounded. Qed.
Print Assumptions C48_prop_of_run_partial.

(* Non-vacuity: a 4-handler chain continue, continue, Response(variant 1), Close: the first three run, verdict Response. *)
Example C48_chain_example : run_chain [1; 11; 13; 4] = ([1; 11; 13], 13) /\ first_non_continue [1; 11; 13; 4] = 2%nat.
Proof. exact (conj eq_refl eq_refl). Qed.
(* Non-vacuity for the reaction theorems: Close at HandleFoundProduct after BeforeLocation passed; Response at AfterLocation. *)
Example C48_close_example :
  let chains := fun p => if p =? 3 then [1; 4] else [1; 1] in
  earlier_pass chains 3 /\ react chains 3 = RCloseDirect /\ q_calls (serve_request chains 200) = [(2, [1; 1]); (3, [1; 4]); (7, [1; 1])].
Proof. exact close_example. Qed.
(* a corpus case (Response at HandleBeforeLocation, then Finish at HandleReadResponse) lies in the domain of the central theorem *)
Example C48_corpus_case_in_domain :
  in_domain (VL [VZ 2; VZ 200; VZ 0; vLZ []; vLZ []; vLZ [3]; vLZ []; vLZ []; vLZ []; vLZ [0]; vLZ []; vLZ []]) = true
  /\ (10000 <? Z.of_nat (length c48_domain)) = true.
Proof. exact corpus_case_in_domain. Qed.
