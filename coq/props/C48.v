(* C48: module callbacks run in order and verdicts are honoured.  Property theorems only. *)
From Coq Require Import List ZArith Bool.
From Bfe Require Import lib.Val lib.ValProofs model.Callbacks run.RunC48 proofs.CallbacksProofs.
Import ListNotations.
Open Scope Z_scope.

(* For every filter chain (any length, any verdict codes) the handlers that HandlerList.FilterXxx invokes
   are exactly the chain's prefix up to and including the first handler whose verdict is not "continue":
   registration order, stop at the first non-continue verdict, later handlers never run. *)
Theorem C48_order_and_stop : forall chain,
  fst (run_chain chain) = firstn (S (first_non_continue chain)) chain.
Proof. exact run_chain_calls. Qed.
Print Assumptions C48_order_and_stop.

(* The verdict of the walk is that first non-continue verdict (continue when every handler continues);
   every handler before it continued, and it did not. *)
Theorem C48_walk_verdict : forall chain,
  snd (run_chain chain) = nth (first_non_continue chain) chain VGoOn
  /\ (forall k, (k < first_non_continue chain)%nat -> ret (nth k chain VGoOn) = VGoOn)
  /\ ((first_non_continue chain < length chain)%nat -> ret (nth (first_non_continue chain) chain VGoOn) <> VGoOn).
Proof. intro c. split; [apply run_chain_verdict|split; [apply before_stop_continue|apply stop_not_continue]]. Qed.
Print Assumptions C48_walk_verdict.

(* Number of invocations: min(length, index of first non-continue + 1). *)
Theorem C48_later_never_run : forall chain,
  length (fst (run_chain chain)) = Nat.min (length chain) (S (first_non_continue chain)).
Proof. exact run_chain_count. Qed.
Print Assumptions C48_later_never_run.

(* The server's verdict switch is total: every (callback point, verdict) pair has one of five reactions, and the
   pairs it ignores (treated as continue) are exactly those outside the listed table `honoured`
   (e.g. Response at HandleForward, Close at HandleReadResponse, any verdict at HandleFinish). *)
Theorem C48_verdict_table_total : forall p r,
  (reaction p r = RIgnore \/ reaction p r = RCloseDirect \/ reaction p r = RCloseAfterReply
   \/ reaction p r = RRedirect \/ reaction p r = RResponse)
  /\ (reaction p r = RIgnore <-> honoured p r = false).
Proof. intros p r. split; [apply reaction_total|apply reaction_ignored_iff]. Qed.
Print Assumptions C48_verdict_table_total.

(* Non-vacuity: a 4-handler chain continue, continue, Response(variant 1), Close: the first three run, verdict Response. *)
Example C48_chain_example : run_chain [1; 11; 13; 4] = ([1; 11; 13], 13) /\ first_non_continue [1; 11; 13; 4] = 2%nat.
Proof. exact (conj eq_refl eq_refl). Qed.
