(* C08: retries are safe and bounded.  Property theorems only. *)
From Coq Require Import List ZArith Bool.
From Bfe Require Import lib.Val model.Retry proofs.RetryProofs run.RunC08 proofs.RetryTieProofs.
Import ListNotations.
Open Scope Z_scope.

(* For every configuration (RetryMax, CrossRetry >= 0, any retry level), request and sequence of per-iteration events
   (balancing failures, cross-retry balance misses, RoundTrip outcomes of every error type), the number of RoundTrips
   of clusterInvoke never exceeds min(20, 1 + RetryMax + CrossRetry). *)
Theorem C08_bounded : forall c r evs,
  0 <= retry_max c -> 0 <= cross_retry c ->
  Z.of_nat (length (attempts c r evs)) <= Z.min 20 (1 + retry_max c + cross_retry c).
Proof. exact bounded. Qed.
Print Assumptions C08_bounded.

(* If attempt k was followed by another attempt then attempt k failed while connecting, or the request is a body-less GET
   and the cluster's retry level is RetryGet. *)
Theorem C08_resend_only_if_safe : forall c r evs k a b,
  nth_error (attempts c r evs) k = Some a ->
  nth_error (attempts c r evs) (S k) = Some b ->
  snd a = ConnectErr \/ (is_get r = true /\ bodyless r = true /\ retry_level c = RetryGet).
Proof. exact resend_only_if_safe. Qed.
Print Assumptions C08_resend_only_if_safe.

(* A request that is not a body-less GET under RetryGet (so its body may have been consumed by an attempt) gets past the
   connect phase at most once: it is never replayed. *)
Theorem C08_no_replay_after_body : forall c r evs,
  (is_get r && bodyless r && (retry_level c =? RetryGet)) = false ->
  (length (filter past_connect (attempts c r evs)) <= 1)%nat.
Proof. exact no_replay_after_body. Qed.
Print Assumptions C08_no_replay_after_body.

(* The sub-cluster chosen for a cross attempt (randomSelectExclude, any random draw) is never the one subClusterBalance
   returned in the same Balance call, is not the blackhole and has weight >= 0. *)
Theorem C08_cross_distinct : forall subs excl rnd k,
  random_select_exclude subs excl rnd = Some k ->
  k <> excl /\ exists sc, nth_error subs k = Some sc /\ snd sc = false /\ 0 <= fst sc.
Proof. exact cross_distinct. Qed.
Print Assumptions C08_cross_distinct.

(* The property predicate the harness evaluates on the implementation's observations (prop_body: bounded, resend only
   if safe, never replayed, bytes seen exactly by the live attempts, cross attempts leave the first sub-cluster, a status
   is returned) holds of EVERY observation the model allows, for every request, step script and every sequence of
   balancer choices: the model satisfies the property on all inputs (no known-finding class). *)
Theorem C08_prop_of_model : forall i choices o,
  0 <= retry_max (i_cfg i) -> 0 <= cross_retry (i_cfg i) ->
  model_obs i choices = Some o -> prop_body i o = true.
Proof. exact prop_of_model. Qed.
Print Assumptions C08_prop_of_model.

Theorem C08_prop_of_run : forall v i,
  decode_C08 v = Some i -> i_topo i = 0 -> 0 <= retry_max (i_cfg i) -> 0 <= cross_retry (i_cfg i) ->
  run_C08 v <> VErr 1 -> prop_C08 v (run_C08 v) = true.
Proof. exact prop_of_run. Qed.
Print Assumptions C08_prop_of_run.

(* The same for the topologies whose in-cluster selection always fails (primary sub-cluster without backend: Balance raises
   RetryTime to RetryMax and selects across sub-clusters; no backend anywhere: ErrBkCrossRetryBalance until the budget is
   used up): every observation the model allows satisfies prop_body_x (bounded; at most CrossRetry + 1 attempts, none when
   cross retry is disabled or nothing has a backend; resend only if safe; never replayed; only backends of the other
   sub-cluster). *)
Theorem C08_prop_of_model_x : forall i choices o,
  0 <= retry_max (i_cfg i) -> 0 <= cross_retry (i_cfg i) ->
  model_obs_x i choices = Some o -> prop_body_x i o = true.
Proof. exact prop_of_model_x. Qed.
Print Assumptions C08_prop_of_model_x.

(* Non-vacuity. *)
Example C08_get_retried :
  attempts (mkCfg 2 1 1) (mkReq true true) [EvAttempt false ReadHdrErr; EvAttempt false ConnectErr; EvAttempt false WriteErr; EvAttempt false Ok; EvAttempt false Ok]
  = [(0, ReadHdrErr); (1, ConnectErr); (2, WriteErr); (3, Ok)].
Proof. exact ex_get_retried. Qed.
Example C08_post_not_replayed :
  attempts (mkCfg 2 1 1) (mkReq false false) [EvAttempt false ConnectErr; EvAttempt false ReadHdrErr; EvAttempt false Ok]
  = [(0, ConnectErr); (1, ReadHdrErr)].
Proof. exact ex_post_not_replayed. Qed.
Example C08_budget :
  map fst (attempts (mkCfg 1 1 0) (mkReq true true) (repeat (EvAttempt false ConnectErr) 10)) = [0; 1; 2].
Proof. exact ex_budget. Qed.
Example C08_select : random_select_exclude [(100, false); (0, false); (0, true); (0, false)] 0 5 = Some 3%nat.
Proof. exact ex_select. Qed.
Example C08_model_obs_example :
  model_obs (mkI (mkCfg 1 1 1) (mkReq true true) [1; 2; 0] 0) [0; 1; 4; 2]
  = Some (VL [vLZ [0; 1; 4]; vLZ [0; 4]; VZ 500]).
Proof. reflexivity. Qed.
(* topologies where the in-cluster selection always fails: Balance raises RetryTime to RetryMax (EvAttempt true) resp. returns
   ErrBkCrossRetryBalance (EvCrossBalance): at most CrossRetry + 1 attempts resp. none *)
Example C08_jump_example :
  model_obs_x (mkI (mkCfg 2 1 1) (mkReq true true) [12; 0] 1) [6; 5; 5] = Some (VL [vLZ [6; 5]; vLZ [5]; VZ 500])
  /\ model_obs_x (mkI (mkCfg 2 3 1) (mkReq true true) [0] 2) [5] = Some (VL [vLZ []; vLZ []; VZ 500])
  /\ attempts (mkCfg 2 1 1) (mkReq true true) [EvAttempt true ConnectErr; EvAttempt true ReadHdrErr; EvAttempt true Ok]
     = [(2, ConnectErr); (3, ReadHdrErr)].
Proof. repeat split; reflexivity. Qed.
