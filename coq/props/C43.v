(* C43: CBC padding removal accepts exactly valid padding.  Property theorems only. *)
From Coq Require Import List ZArith Bool.
From Bfe Require Import lib.Val lib.ValProofs model.CbcPad proofs.CbcPadProofs run.RunC43.
Import ListNotations.
Open Scope Z_scope.

(* For every payload of well-formed bytes (any length below 2^31, the Go int32 mask range) the
   modelled removePadding returns exactly: (payload minus p+1 bytes, 255) when the last byte p has
   p+1 <= length and the final p+1 bytes all equal p; (payload minus 1 byte, 0) otherwise. *)
Theorem C43_exact : forall pl,
  wf_bytes pl = true -> Z.of_nat (length pl) < 2^31 -> remove_padding pl = spec_remove pl.
Proof. exact remove_padding_exact. Qed.
Print Assumptions C43_exact.

(* The same statement through the executable predicate the harness evaluates on the implementation. *)
Theorem C43_prop_of_model : forall pl,
  wf_bytes pl = true -> Z.of_nat (length pl) < 2^31 -> prop_C43 (VB pl) (run_C43 (VB pl)) = true.
Proof. exact prop_C43_of_model. Qed.
Print Assumptions C43_prop_of_model.

(* Non-vacuity: a 300-byte payload with p = 255 (the case the pre-fix code got wrong), valid and invalid. *)
Example C43_p255_valid :
  let pl := repeat 7 44 ++ repeat 255 256 in
  wf_bytes pl = true /\ valid_padding pl = true /\ remove_padding pl = (repeat 7 44, 255).
Proof. exact C43_p255_valid_lemma. Qed.
Example C43_p255_invalid :
  let pl := repeat 255 44 ++ [0] ++ repeat 255 255 in
  wf_bytes pl = true /\ valid_padding pl = false /\ remove_padding pl = (firstn 299 pl, 0).
Proof. exact C43_p255_invalid_lemma. Qed.

(* The CBC branch of halfConn.decrypt (remover selected by protocol version; record accepted iff padding good and
   the remainder is exactly content ‖ MAC): for every record with a valid MAC over its first clen bytes, TLS 1.0-1.2
   accept exactly when the padding is valid (last byte p, final p+1 bytes all p) and covers exactly the bytes after
   the MAC; SSLv3 (0x0300) checks the padding length only. *)
Theorem C43_record_verdict : forall vers clen macSize full,
  wf_bytes full = true -> Z.of_nat (length full) < 2^31 -> 0 <= clen -> 0 <= macSize ->
  cbc_record_ok vers clen macSize full = spec_record_ok vers clen macSize full.
Proof. exact cbc_record_ok_spec. Qed.
Print Assumptions C43_record_verdict.

Theorem C43_record_prop_of_model : forall vers clen full,
  wf_bytes full = true -> Z.of_nat (length full) < 2^31 -> 0 <= clen ->
  prop_C43 (VL [VZ 2; VZ vers; VZ clen; VB full]) (run_C43 (VL [VZ 2; VZ vers; VZ clen; VB full])) = true.
Proof. exact prop_C43_record_of_model. Qed.
Print Assumptions C43_record_prop_of_model.

(* SSLv3 remover: accepts exactly when p+1 <= length and removes p+1 bytes, for every payload. *)
Theorem C43_ssl30_exact : forall pl, wf_bytes pl = true -> remove_padding_ssl30 pl = spec_remove_ssl30 pl.
Proof. exact remove_padding_ssl30_exact. Qed.
Print Assumptions C43_ssl30_exact.
Theorem C43_ssl30_prop_of_model : forall pl,
  wf_bytes pl = true -> prop_C43 (VL [VZ 3; VB pl]) (run_C43 (VL [VZ 3; VB pl])) = true.
Proof. exact prop_C43_ssl30_of_model. Qed.
Print Assumptions C43_ssl30_prop_of_model.
