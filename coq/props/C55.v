(* C55: FastCGI requests and responses are encoded faithfully.  Property theorems only. *)
From Coq Require Import List ZArith Bool.
From Bfe Require Import lib.Val lib.Bytes model.Fcgi run.RunC55.
Import ListNotations.
Open Scope Z_scope.

Example C55_placeholder : run_C55 (VZ 0) = VErr 0.
Proof. exact eq_refl. Qed.
Print Assumptions C55_placeholder.
