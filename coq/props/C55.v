(* C55: FastCGI requests and responses are encoded faithfully.  Property theorems only.
   Model: model/Fcgi.v (bfe_fcgi/fcgi_client.go after the repair of writePairs, /repo commit 7cc6931). *)
From Coq Require Import List ZArith Bool.
From Bfe Require Import lib.Val lib.Bytes model.Fcgi proofs.FcgiProofs run.RunC55.
Import ListNotations.
Open Scope Z_scope.

(* bc is the way the body reaches the client: bc > 0 an io.Reader (the req.Body / bufio ReadFrom path), bc <= 0 an
   io.WriterTo (bytes.Reader / bytes.Buffer as in Post, PostForm, PostFile) that writes -bc bytes per Write, 0 = the
   whole body in ONE Write (the direct-write path of bufio.Writer, where streamWriter.Write itself splits the records).
   C55_pairs_roundtrip / C55_body_roundtrip: for EVERY delivery mode, EVERY parameter list (names and values of any length below 2^31,
   including values that do not fit one record and names longer than a record) and EVERY body, the bytes
   FCGIClient.Do writes are a well-formed FastCGI record sequence (request id 1 throughout) which the
   specification's decoders read as: BEGIN_REQUEST(responder, flags 0); a PARAMS stream, closed by an empty
   record, whose name-value pairs are exactly the parameters; a STDIN stream, closed by an empty record, whose
   content is exactly the body; and nothing else.  (Before the repair this was false: values were cut so that
   8+|name|+|value| <= 65500, and names longer than 65492 bytes crashed the client.) *)
Theorem C55_request_roundtrip : forall bc ps body,
  Forall (fun kv => blen (fst kv) < 2^31 /\ blen (snd kv) < 2^31) ps ->
  spec_request (do_written bc ps body) = Some (ps, body).
Proof. exact request_roundtrip. Qed.
Print Assumptions C55_request_roundtrip.

(* The two halves under the names used in DESIGN.md. *)
Theorem C55_pairs_roundtrip : forall bc ps body,
  Forall (fun kv => blen (fst kv) < 2^31 /\ blen (snd kv) < 2^31) ps ->
  option_map fst (spec_request (do_written bc ps body)) = Some ps.
Proof. exact pairs_roundtrip. Qed.
Print Assumptions C55_pairs_roundtrip.
Theorem C55_body_roundtrip : forall bc ps body,
  Forall (fun kv => blen (fst kv) < 2^31 /\ blen (snd kv) < 2^31) ps ->
  option_map snd (spec_request (do_written bc ps body)) = Some body.
Proof. exact body_roundtrip. Qed.
Print Assumptions C55_body_roundtrip.

(* C55_payload_le_65535: every record of the PARAMS and STDIN streams carries at most 65500 <= 65535 bytes,
   so the 16-bit contentLength field never wraps. *)
Theorem C55_payload_le_65535 : forall bc ps body,
  Forall (fun content => blen content <= 65500) (params_records ps ++ stdin_records_m bc body).
Proof. exact records_bounded. Qed.
Print Assumptions C55_payload_le_65535.

(* C55_stdout_only is REFUTED for the code as it is (known finding 1): the stream handed to the HTTP response
   parser contains the content of every record type.  Witness: "ok" on STDOUT followed by "ERR" on STDERR. *)
Theorem C55_stdout_only_refuted :
  exists resp, spec_stdout resp = [111; 107] /\ fst (client_stream resp) = [111; 107; 69; 82; 82]
               /\ has_other_content resp = true.
Proof. exact stdout_only_refuted_lemma. Qed.
Print Assumptions C55_stdout_only_refuted.

(* C55_stdout_only_partial: for every responder byte sequence (well-formed or not) in which no record other than
   STDOUT carries content, the response stream is exactly the STDOUT content that precedes END_REQUEST
   within the well-formed prefix of the reply. *)
Theorem C55_stdout_only_partial : forall resp,
  has_other_content resp = false -> fst (client_stream resp) = spec_stdout resp.
Proof. exact stdout_only_partial. Qed.
Print Assumptions C55_stdout_only_partial.

(* C55_end_request: once the reply contains a complete END_REQUEST record the reader reports a clean EOF. *)
Theorem C55_end_request : forall resp,
  existsb (fun r => f_type r =? T_END) (fst (spec_records resp)) = true -> snd (client_stream resp) = 0.
Proof. exact end_request_eof. Qed.
Print Assumptions C55_end_request.

(* The executable property the harness evaluates on the implementation holds of the model on every input outside
   the listed finding class (kf_C55 = 0, i.e. no content in non-STDOUT records). *)
Theorem C55_prop_of_model : forall ps body bc resp,
  Forall (fun kv => blen (fst kv) < 2^31 /\ blen (snd kv) < 2^31) ps ->
  kf_C55 (in_C55 ps body bc resp) = 0 ->
  prop_C55 (in_C55 ps body bc resp) (run_C55 (in_C55 ps body bc resp)) = true.
Proof. exact prop_C55_of_model. Qed.
Print Assumptions C55_prop_of_model.

(* CENTRAL THEOREM, all inputs (both operations: op 1 = FCGIClient.Do over a scripted connection, op 2 =
   Transport.RoundTrip end to end with buildMetaValsAndMethod and readResponse): for every well-formed input
   (wf_C55, executable: decodable; parameter sizes < 2^31; for op 2 the reply lies in the modelled sub-language of
   readResponse and the decidable side condition meta_ok holds, i.e. each CGI meta-variable the specification
   expects is among those the model computes - this inclusion is evaluated, not proved symbolically) outside the
   finding class (kf_C55 = 0), the property predicate the harness evaluates holds of the model's output. *)
Theorem C55_central : forall i, wf_C55 i = true -> kf_C55 i = 0 -> prop_C55 i (run_C55 i) = true.
Proof. exact central_C55. Qed.
Print Assumptions C55_central.

(* the parameter names computed by buildMetaValsAndMethod + RoundTrip are pairwise distinct for every request *)
Theorem C55_meta_names_distinct : forall q, distinct_keys (meta_pairs q) = true.
Proof. exact meta_pairs_distinct. Qed.
Print Assumptions C55_meta_names_distinct.

(* corpus-style cases of both operations satisfy wf and kf = 0, and the op 2 case is inside the model *)
Example C55_central_nonvacuous :
  wf_C55 ex_op1 = true /\ kf_C55 ex_op1 = 0 /\ wf_C55 ex_op2 = true /\ kf_C55 ex_op2 = 0
  /\ run_C55 ex_op2 <> VErr 7 /\ run_C55 ex_op2 <> VErr 0.
Proof. exact central_examples_C55. Qed.

(* Non-vacuity: two parameters (one with a 200-byte value: 4-byte length form), a body, a reply with END_REQUEST. *)
Example C55_nonvacuous :
  let ps := [([72; 79; 83; 84], [97]); ([81], repeat 7 200)] in
  Forall (fun kv => blen (fst kv) < 2^31 /\ blen (snd kv) < 2^31) ps
  /\ kf_C55 (in_C55 ps [1; 2; 3] 7 [1;6;0;1;0;2;0;0;111;107; 1;3;0;1;0;8;0;0;0;0;0;0;0;0;0;0]) = 0
  /\ run_C55 (in_C55 ps [1; 2; 3] 7 [1;6;0;1;0;2;0;0;111;107; 1;3;0;1;0;8;0;0;0;0;0;0;0;0;0;0]) <> VErr 0.
Proof. exact nonvacuous_lemma. Qed.
