(* C20: the hash set behaves as a bounded set.  Property theorems only.
   Model: coq/model/HashSet.v -- (A) the Go arrays (ha, next, freeNode, length, pool slots) with
   add/del/exist/getFreeNode/recyleNode as in hash_set.go / node_pool.go (after the fix of nodePool.add,
   /repo commit 9e3ff23), (B) buckets as key lists, (S) a bounded mathematical set.
   The hash function is a universally quantified variable. *)
From Coq Require Import List ZArith Bool.
From Bfe Require Import lib.Val lib.ValProofs model.HashSet run.RunC20 proofs.HashSetProofs proofs.HashSetArrayProofs.
Import ListNotations.
Open Scope Z_scope.

(* HEADLINE (array level, all histories).  For every hash function (murmur3, fnv, a constant = all keys
   collide, ...), every capacity > 0, every number of buckets > 0 (any load factor), element size, fixed-length flag and EVERY sequence of Add / Remove /
   Exist / Len whose hash column is the hash of the key (`consistent hash`): the answers computed on the Go
   arrays -- bucket heads `ha`, `next` links, the free-node list, `length`, the byte-pool slots -- equal the
   answers of a bounded mathematical set: Add answers "full" exactly when the set holds cap elements and then
   changes nothing; keys longer than the element size are rejected by every operation; a fixed-length set
   refuses shorter keys; Exist is membership; Len is the cardinality.  Free-list reuse after removals,
   deletion at the head / in the middle / at the end of a collision chain are all covered. *)
Theorem C20_refines_set : forall (hash : key -> Z) (c : cfg) (ops : list op),
  0 < cap c -> 0 < hsz c -> Forall (consistent hash) ops ->
  snd (run_ops c (init c) ops) = sp_run c [] ops.
Proof. exact array_refines_set. Qed.
Print Assumptions C20_refines_set.

(* The two halves of the headline: arrays -> bucket lists needs no assumption on the hash column at all
   (representation invariant Abs: chains acyclic, pairwise disjoint, disjoint from the free list, chain keys =
   bucket list, |free list| = cap - length) ... *)
Theorem C20_array_refines_buckets : forall c ops,
  0 < cap c -> 0 < hsz c -> snd (run_ops c (init c) ops) = bl_run c bl_init ops.
Proof. exact array_refines_bl. Qed.
Print Assumptions C20_array_refines_buckets.

(* ... and bucket lists -> set holds for every configuration. *)
Theorem C20_buckets_refine_set : forall (hash : key -> Z) (c : cfg) (ops : list op),
  Forall (consistent hash) ops -> bl_run c bl_init ops = sp_run c [] ops.
Proof. exact bl_refines_set. Qed.
Print Assumptions C20_buckets_refine_set.

(* Adding to a full set fails and changes nothing -- in EVERY state (no corruption of existing members). *)
Theorem C20_full_fails_clean : forall c s k h, cap c <= len s -> step c s (OAdd k h) = (s, 1).
Proof. exact full_fails_clean. Qed.
Print Assumptions C20_full_fails_clean.

(* A key longer than the element size is rejected by every operation and the state is unchanged. *)
Theorem C20_long_key_rejected : forall c s k h, ksz c < klen k ->
  (len s < cap c -> step c s (OAdd k h) = (s, 2)) /\
  step c s (ORemove k h) = (s, 2) /\ step c s (OExist k h) = (s, 0).
Proof. exact long_key_rejected. Qed.
Print Assumptions C20_long_key_rejected.

(* Fixed code: a short key offered to a fixed-length set is refused with the pool's error and the arrays are
   exactly as before (the node taken from the free list is given back).  Before the fix Add returned nil, Len
   grew and the stale slot content became a member (corpus/C20/fixed_short_key.case). *)
Theorem C20_fixed_short_key_refused : forall c s k h,
  fixed c = true -> klen k < ksz c -> len s < cap c ->
  0 <= free s < Z.of_nat (length (nxt s)) ->
  np_exist (fuel_of c) s (getZ (ha s) (bucket c h)) k = Some false ->
  step c s (OAdd k h) = (s, 3).
Proof. exact fixed_short_key_refused. Qed.
Print Assumptions C20_fixed_short_key_refused.

(* The executable lock-step check (representation invariant + abstraction after every operation) that
   agree_C20 evaluates on every harness history is sound for what it claims. *)
Theorem C20_sim_check_sound : forall c ops s b,
  sim_check c s b ops = true -> snd (run_ops c s ops) = bl_run c b ops.
Proof. exact sim_check_sound. Qed.
Print Assumptions C20_sim_check_sound.

(* CENTRAL: the executable property evaluated by the harness on the implementation's answers holds of the
   model on every well-formed wire input.  wf_C20 (executable): the input decodes and, in set mode, the hash
   column is a function of the key (same key => same hash value), which is what any hashFunc produces. *)
Theorem C20_prop_of_model : forall v, wf_C20 v = true -> kf_C20 v = 0 -> prop_C20 v (run_C20 v) = true.
Proof. exact prop_C20_of_model. Qed.
Print Assumptions C20_prop_of_model.
Example C20_wf_corpus_cases :
  wf_C20 (VL [VZ 2; VZ 2; VZ 1; VZ 3; VL [VL [VZ 1; VB [1;1]; VZ 1]; VL [VZ 1; VB [1]; VZ 1]; VL [VZ 4];
              VL [VZ 3; VB [1]; VZ 1]; VL [VZ 2; VB [1;1]; VZ 1]; VL [VZ 1; VB [0]; VZ 0]; VL [VZ 3; VB [1;1]; VZ 1]; VL [VZ 4]]; VZ 10]) = true
  /\ wf_C20 (VL [VZ 2; VZ 2; VZ 1; VZ (-1); VL [VL [VZ 1; VZ 0; VB [1;1]]; VL [VZ 2; VZ 0]; VL [VZ 1; VZ 2; VB [1;1]]; VL [VZ 3]]; VZ 0]) = true.
Proof. exact wf_C20_example. Qed.

(* The byte pools used directly (byte_pool.BytePool / FixedBytePool: Set, Get, MaxElemSize): for every
   sequence of operations with non-negative indices the slot model answers like a last-write-wins map -- Get
   returns the key of the last accepted Set on that index (initially empty / elemSize zero bytes), Set refuses
   an index >= elemNum and a key of the wrong length without changing anything. *)
Theorem C20_pool_last_write_wins : forall c ops sl m,
  lenZ sl = cap c -> (forall j, 0 <= j < cap c -> getK sl j = alookup j m (pool_default c)) ->
  forallb pop_ok ops = true -> pool_run c sl ops = psp_run c m ops.
Proof. exact pool_refines. Qed.
Print Assumptions C20_pool_last_write_wins.

(* Non-vacuity: capacity 3, constant hash (one chain): fill, overflow, remove from the middle of the chain,
   free-list reuse, over-long key; and a fixed-length set refusing a short key. *)
Example C20_history :
  snd (run_ops ex_cfg (init ex_cfg) ex_ops) = [0; 0; 0; 3; 1; 1; 0; 0; 1; 1; 2; 0; 1; 3; 1; 0; 0; 2]
  /\ sp_run ex_cfg [] ex_ops = snd (run_ops ex_cfg (init ex_cfg) ex_ops)
  /\ sim_check ex_cfg (init ex_cfg) bl_init ex_ops = true
  /\ Forall (consistent (fun _ => 7)) ex_ops.
Proof. exact ex_run. Qed.
Example C20_fixed_short :
  let c := {| cap := 2; ksz := 2; fixed := true; nb := 10 |} in
  snd (run_ops c (init c) [OAdd [1;1] 1; OAdd [1] 1; OLen; OExist [1] 1; OExist [1;1] 1; ORemove [1] 1; OLen])
  = [0; 3; 1; 0; 1; 0; 1].
Proof. exact ex_fixed_short. Qed.
