(* C20 placeholder, replaced once proofs are in *)
From Coq Require Import List ZArith Bool.
From Bfe Require Import lib.Val model.HashSet run.RunC20.
Import ListNotations.
Open Scope Z_scope.
Example C20_smoke : snd (run_ops {| cap := 2; ksz := 2; fixed := false |} (init {| cap := 2; ksz := 2; fixed := false |})
   [OAdd [1] 3; OAdd [1] 3; OExist [1] 3; OLen; ORemove [1] 3; OLen]) = [0; 0; 1; 1; 0; 0].
Proof. exact eq_refl. Qed.
Print Assumptions C20_smoke.
