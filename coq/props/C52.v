(* C52: CORS headers are granted only to allowed origins and vary on Origin.  Property theorems only.
   Model: model/Cors.v (mod_cors after the /repo fix 8ead692 of addVaryHeader). *)
From Coq Require Import List ZArith Bool String.
From Bfe Require Import lib.Val lib.Bytes model.Cors proofs.CorsProofs run.RunC52.
Import ListNotations.
Open Scope Z_scope.

(* Non-preflight callback (HandleReadResponse).  For every rule, request and backend response header h:
   if the callback changed any Access-Control-* field of the response, then the request's Origin is allowed by the
   rule (non-empty and: the rule lists %origin, or is the wildcard rule, or lists exactly this origin), the
   Access-Control-Allow-Origin field is exactly one line holding "*" for the wildcard rule and the echoed request
   origin otherwise, and Access-Control-Allow-Credentials is untouched unless the rule enables credentials. *)
Theorem C52_only_allowed : forall (r : rule) (q : req) (h : hdrs),
  aca_same h (cors_handler r q h) = false ->
  origin_allowed (r_origins r) (origin_of q) = true
  /\ h_acao (cors_handler r q h) = [expected_acao (r_origins r) (origin_of q)]
  /\ (h_acac (cors_handler r q h) = h_acac h \/ (r_cred r = true /\ h_acac (cors_handler r q h) = [s_true])).
Proof. exact only_allowed_handler. Qed.
Print Assumptions C52_only_allowed.

(* Preflight callback (HandleFoundProduct): the 204 response it creates carries Access-Control-* fields only for
   an allowed origin, with the same value rule. *)
Theorem C52_only_allowed_preflight : forall (r : rule) (q : req) (h' : hdrs),
  preflight_handler r q = Some h' -> aca_same empty_hdrs h' = false ->
  origin_allowed (r_origins r) (origin_of q) = true
  /\ h_acao h' = [expected_acao (r_origins r) (origin_of q)]
  /\ (h_acac h' = [] \/ (r_cred r = true /\ h_acac h' = [s_true])).
Proof. exact only_allowed_preflight. Qed.
Print Assumptions C52_only_allowed_preflight.

(* Vary.  Whenever the non-preflight callback granted anything, the Vary field afterwards consists of all the
   lines it had before (any number of lines, any values) followed by zero or more added lines, and one of its
   comma-separated tokens is "*" or (case-insensitively) "Origin". *)
Theorem C52_vary_origin : forall (r : rule) (q : req) (h : hdrs),
  aca_same h (cors_handler r q h) = false ->
  (exists extra, h_vary (cors_handler r q h) = h_vary h ++ extra)
  /\ vary_lists_origin (h_vary (cors_handler r q h)) = true.
Proof. exact vary_origin_handler. Qed.
Print Assumptions C52_vary_origin.

(* The same from the request side: an allowed origin on a non-preflight request of a product with rules is granted
   the configured value and the response varies on Origin, whatever Vary lines the backend sent. *)
Theorem C52_granted_varies : forall (r : rule) (q : req) (h : hdrs),
  nonempty (origin_of q) = true -> is_preflight q = false -> q_has_rules q = true ->
  origin_allowed (r_origins r) (origin_of q) = true ->
  let h' := cors_handler r q h in
  h_acao h' = [expected_acao (r_origins r) (origin_of q)]
  /\ (exists extra, h_vary h' = h_vary h ++ extra) /\ vary_lists_origin (h_vary h') = true.
Proof. exact vary_origin_granted. Qed.
Print Assumptions C52_granted_varies.

Theorem C52_vary_origin_preflight : forall (r : rule) (q : req) (h' : hdrs),
  preflight_handler r q = Some h' -> aca_same empty_hdrs h' = false -> vary_lists_origin (h_vary h') = true.
Proof. exact vary_origin_preflight. Qed.
Print Assumptions C52_vary_origin_preflight.

(* The executable predicate that the harness evaluates on the implementation's observations holds of the model on
   every well-formed input (no known-finding class is excluded: kf_C52 = 0 everywhere). *)
Theorem C52_prop_of_model : forall i, wf_C52 i = true -> kf_C52 i = 0 -> prop_C52 i (run_C52 i) = true.
Proof. intros i H _. exact (prop_C52_of_model i H). Qed.
Print Assumptions C52_prop_of_model.

(* Non-vacuity: the case the unfixed code got wrong (two pre-existing Vary lines without Origin), a denied origin,
   and a preflight. *)
Example C52_ex_grant :
  rule_ok ex_rule = true /\
  cors_handler ex_rule ex_req ex_rsp =
    mkHdrs [bs "Accept-Encoding"; bs "Cookie , User-Agent"; bs "Origin"] [bs "http://a.example"] [bs "true"] [] [] [] []
  /\ aca_same ex_rsp (cors_handler ex_rule ex_req ex_rsp) = false.
Proof. exact ex_grant. Qed.
Example C52_ex_deny : origin_allowed (r_origins ex_rule) (origin_of ex_req_other) = false
  /\ cors_handler ex_rule ex_req_other ex_rsp = ex_rsp.
Proof. exact ex_deny. Qed.
Example C52_ex_preflight :
  preflight_handler (mkRule [bs "%origin"] false [] [bs "PUT"; bs "GET"] [] (Some 600)) ex_pre =
  Some (mkHdrs [bs "Origin"] [bs "http://a.example"] [] [bs "PUT,GET"] [] [bs "600"] []).
Proof. exact ex_preflight. Qed.
