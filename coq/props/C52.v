(* C52: CORS headers are granted only to allowed origins and vary on Origin.  Property theorems only.
   Model: model/Cors.v (mod_cors after the /repo fix 8ead692 of addVaryHeader). *)
From Coq Require Import List ZArith Bool String.
From Bfe Require Import lib.Val lib.Bytes model.Cors proofs.CorsProofs run.RunC52.
Import ListNotations.
Open Scope Z_scope.

(* A product's configuration is a list of rules [(m, r)]: m says whether the rule's condition matches the request
   (condition evaluation is external); find_rule picks the first matching rule, as the callbacks do.

   Non-preflight callback (HandleReadResponse).  For every rule list, request and backend response header h:
   if the callback changed any Access-Control-* field of the response, then the product has rules, some rule matches,
   and with r the FIRST matching rule: the request's Origin is allowed by r (non-empty and: r lists %origin, or is
   the wildcard rule, or lists exactly this origin), Access-Control-Allow-Origin is exactly one line holding "*" for
   the wildcard rule and the echoed request origin otherwise, and Access-Control-Allow-Credentials is untouched unless
   r enables credentials. *)
Theorem C52_only_allowed : forall (rs : rules) (q : req) (h : hdrs),
  aca_same h (cors_handler rs q h) = false ->
  exists r, q_has_rules q = true /\ find_rule rs = Some r
  /\ origin_allowed (r_origins r) (origin_of q) = true
  /\ h_acao (cors_handler rs q h) = [expected_acao (r_origins r) (origin_of q)]
  /\ (h_acac (cors_handler rs q h) = h_acac h \/ (r_cred r = true /\ h_acac (cors_handler rs q h) = [s_true])).
Proof. exact only_allowed_handler. Qed.
Print Assumptions C52_only_allowed.

(* Preflight callback (HandleFoundProduct): the 204 response it creates carries Access-Control-* fields only for
   an origin allowed by the first matching rule, with the same value rule. *)
Theorem C52_only_allowed_preflight : forall (rs : rules) (q : req) (h' : hdrs),
  preflight_handler rs q = Some h' -> aca_same empty_hdrs h' = false ->
  exists r, find_rule rs = Some r
  /\ origin_allowed (r_origins r) (origin_of q) = true
  /\ h_acao h' = [expected_acao (r_origins r) (origin_of q)]
  /\ (h_acac h' = [] \/ (r_cred r = true /\ h_acac h' = [s_true])).
Proof. exact only_allowed_preflight. Qed.
Print Assumptions C52_only_allowed_preflight.

(* Denied: no rules for the product, no matching rule, or an Origin the first matching rule does not allow (this
   includes a missing/empty Origin): the response header is left exactly as it was - no Access-Control-* field and
   no Vary change. *)
Theorem C52_denied_unchanged : forall (rs : rules) (q : req) (h : hdrs),
  (q_has_rules q = false \/ find_rule rs = None
   \/ (exists r, find_rule rs = Some r /\ origin_allowed (r_origins r) (origin_of q) = false)) ->
  cors_handler rs q h = h.
Proof. exact denied_unchanged. Qed.
Print Assumptions C52_denied_unchanged.

(* First match wins: non-matching rules before, and any rules after, the first matching rule have no influence. *)
Theorem C52_first_match_wins : forall (pre : rules) (r : rule) (post : rules) (q : req) (h : hdrs),
  forallb (fun mr => negb (fst mr)) pre = true ->
  cors_handler (pre ++ (true, r) :: post) q h = cors_handler [(true, r)] q h
  /\ preflight_handler (pre ++ (true, r) :: post) q = preflight_handler [(true, r)] q.
Proof. exact first_match_wins. Qed.
Print Assumptions C52_first_match_wins.

(* Vary.  Whenever the non-preflight callback granted anything, the Vary field afterwards consists of all the
   lines it had before (any number of lines, any values) followed by zero or more added lines, and one of its
   comma-separated tokens is "*" or (case-insensitively) "Origin". *)
Theorem C52_vary_origin : forall (rs : rules) (q : req) (h : hdrs),
  aca_same h (cors_handler rs q h) = false ->
  (exists extra, h_vary (cors_handler rs q h) = h_vary h ++ extra)
  /\ vary_lists_origin (h_vary (cors_handler rs q h)) = true.
Proof. exact vary_origin_handler. Qed.
Print Assumptions C52_vary_origin.

(* The same from the request side: an origin allowed by the first matching rule on a non-preflight request is
   granted the configured value and the response varies on Origin, whatever Vary lines the backend sent. *)
Theorem C52_granted_varies : forall (rs : rules) (r : rule) (q : req) (h : hdrs),
  nonempty (origin_of q) = true -> is_preflight q = false -> q_has_rules q = true ->
  find_rule rs = Some r -> origin_allowed (r_origins r) (origin_of q) = true ->
  let h' := cors_handler rs q h in
  h_acao h' = [expected_acao (r_origins r) (origin_of q)]
  /\ (exists extra, h_vary h' = h_vary h ++ extra) /\ vary_lists_origin (h_vary h') = true.
Proof. exact vary_origin_granted. Qed.
Print Assumptions C52_granted_varies.

Theorem C52_vary_origin_preflight : forall (rs : rules) (q : req) (h' : hdrs),
  preflight_handler rs q = Some h' -> aca_same empty_hdrs h' = false -> vary_lists_origin (h_vary h') = true.
Proof. exact vary_origin_preflight. Qed.
Print Assumptions C52_vary_origin_preflight.

(* The executable predicate that the harness evaluates on the implementation's observations (per step, against the
   configuration of the last successful reload) holds of the model on every well-formed history (no known-finding class is excluded: kf_C52 = 0 everywhere). *)
Theorem C52_prop_of_model : forall i, wf_C52 i = true -> kf_C52 i = 0 -> prop_C52 i (run_C52 i) = true.
Proof. intros i H _. exact (prop_C52_of_model i H). Qed.
Print Assumptions C52_prop_of_model.

(* Non-vacuity: the case the unfixed code got wrong (two pre-existing Vary lines without Origin;
   the rule list has a non-matching wildcard rule first and a matching wildcard rule last), a denied origin,
   and a preflight. *)
Example C52_ex_grant :
  rule_ok ex_rule = true /\
  cors_handler [(false, ex_rule_star); (true, ex_rule); (true, ex_rule_star)] ex_req ex_rsp =
    mkHdrs [bs "Accept-Encoding"; bs "Cookie , User-Agent"; bs "Origin"] [bs "http://a.example"] [bs "true"] [] [] [] []
  /\ aca_same ex_rsp (cors_handler [(false, ex_rule_star); (true, ex_rule); (true, ex_rule_star)] ex_req ex_rsp) = false.
Proof. exact ex_grant. Qed.
Example C52_ex_deny : origin_allowed (r_origins ex_rule) (origin_of ex_req_other) = false
  /\ cors_handler [(false, ex_rule_star); (true, ex_rule); (true, ex_rule_star)] ex_req_other ex_rsp = ex_rsp.
Proof. exact ex_deny. Qed.
Example C52_ex_preflight :
  preflight_handler [(true, mkRule [bs "%origin"] false [] [bs "PUT"; bs "GET"] [] (Some 600))] ex_pre =
  Some (mkHdrs [bs "Origin"] [bs "http://a.example"] [] [bs "PUT,GET"] [] [bs "600"] []).
Proof. exact ex_preflight. Qed.

(* Reload (loadRuleData -> CorsRuleFileLoad -> CorsRuleTable.Update), for every history.  A successful reload REPLACES
   the rule table: the rest of the history behaves exactly as on a module that only ever loaded the new configuration,
   whatever was loaded before; a rejected rule file changes nothing. *)
Theorem C52_reload_replaces : forall (t c : conf) (ops : list cop),
  conf_ok c = true -> run_ops t (OLoad c :: ops) = VL [VZ 1] :: run_ops c ops.
Proof. exact reload_replaces. Qed.
Print Assumptions C52_reload_replaces.
Theorem C52_failed_reload_keeps : forall (t c : conf) (ops : list cop),
  conf_ok c = false -> run_ops t (OLoad c :: ops) = VErr 1 :: run_ops t ops.
Proof. exact failed_reload_keeps. Qed.
Print Assumptions C52_failed_reload_keeps.
(* A product that the configuration in force does not list is granted nothing by either callback: the response
   header is returned untouched and no preflight response is made - also when an earlier configuration had rules for it. *)
Theorem C52_dropped_product_denied : forall (t c : conf) (p : bytes) (q : req) (h : hdrs) (ops : list cop),
  conf_ok c = true -> lookup p c = None ->
  run_ops t (OLoad c :: OReq p q h 0 :: ops) = VL [VZ 1] :: VL [VZ 0; enc_hdrs h] :: run_ops c ops
  /\ run_ops t (OLoad c :: OReq p q h 1 :: ops) = VL [VZ 1] :: VL [VZ 0; VL []] :: run_ops c ops.
Proof. exact dropped_product_denied. Qed.
Print Assumptions C52_dropped_product_denied.

(* A corpus case satisfies the well-formedness predicate of C52_prop_of_model; the reload witness history
   (pa granted; reload without pa; pa untouched; pb granted) runs as described. *)
Example C52_wf_example : wf_C52 w_corpus = true /\ kf_C52 w_corpus = 0 /\ prop_C52 w_corpus (run_C52 w_corpus) = true.
Proof. exact wf_corpus_example. Qed.
Example C52_reload_example :
  wf_C52 w_reload = true /\
  match run_C52 w_reload with
  | VL [l1; VL [_; VL (_ :: acao1 :: _)]; l2; VL [_; VL (_ :: acao2 :: _)]; VL [_; VL (_ :: acao3 :: _)]] =>
    l1 = VL [VZ 1] /\ l2 = VL [VZ 1] /\ acao1 <> VL [] /\ acao2 = VL [] /\ acao3 = acao1
  | _ => False
  end.
Proof. exact reload_example. Qed.
