(* C33: HTTP/2 inbound flow control is enforced and replenished.  Property theorems only. *)
From Coq Require Import List ZArith Bool.
From Bfe Require Import lib.Val model.H2Flow model.H2Stream run.RunC33.
Import ListNotations.
Open Scope Z_scope.
