(* C33: HTTP/2 inbound flow control is enforced and replenished.  Property theorems only.
   Model: model/H2Flow.v (flow.go) + model/H2Stream.v (serve-loop steps of bfe_http2/server.go);
   c_inflow = sc.inflow.n, s_inflow = st.inflow.n, s_buf = unread octets in the request body pipe. *)
From Coq Require Import List ZArith Bool.
From Bfe Require Import lib.Val model.H2Flow model.H2Stream run.RunC33 proofs.H2StreamProofs proofs.H2StreamCentralProofs.
Import ListNotations.
Open Scope Z_scope.

(* Headline.  In every state reachable by any well-formed script of client frames and handler actions
   (connection still alive): the connection window plus all unread buffered octets never exceeds the
   initial 65535 (nothing is over-advertised); it is EXACTLY 65535 unless a stream was closed while its
   pipe still held unread octets (ghost flag c_p3, known finding 1); every open stream has window +
   unread = its initial window exactly; no stream ever exceeds it. *)
Theorem C33_conservation : forall c,
  reach c -> c_dead c = false ->
  c_inflow c + sumbuf (c_streams c) <= init_window /\
  (c_p3 c = false -> c_inflow c + sumbuf (c_streams c) = init_window) /\
  (forall st, In st (c_streams c) -> s_state st = 1 -> s_inflow st + s_buf st = c_isw c) /\
  (forall st, In st (c_streams c) -> 0 <= s_buf st /\ s_inflow st + s_buf st <= c_isw c).
Proof. exact conservation. Qed.
Print Assumptions C33_conservation.

(* The unguarded equation is false of the code as it is: RST_STREAM while 60 octets are unread
   (default window: closeStream releases the buffer, no connection-level WINDOW_UPDATE). *)
Theorem C33_conservation_refuted :
  exists c, reach c /\ c_dead c = false /\ c_inflow c + sumbuf (c_streams c) < init_window.
Proof. exact conservation_refuted. Qed.
Print Assumptions C33_conservation_refuted.

(* One serve-loop step, any state satisfying the invariant: no panic site; the invariant is kept; and
   if the frame is within the windows, the server's connection window moves exactly as the client
   computes it: minus the DATA frame length (padding included), plus the WINDOW_UPDATE(0) increments
   written in this step.  (Since the two fixes in /repo this holds on every path, including
   content-length overrun and writes to a closed body.) *)
Theorem C33_step_exact : forall c o c' evs,
  Good c -> c_bug c = false -> wf_op o = true -> step c o = (c', evs) ->
  c_bug c' = false /\
  (c_dead c' = false ->
   Good c' /\ c_isw c' = c_isw c /\ (within c o -> c_inflow c' = c_inflow c - debit o + wu_of evs 0)).
Proof. exact step_post. Qed.
Print Assumptions C33_step_exact.

(* Whole histories: for a client that respects the windows, the window it reconstructs from its own
   DATA frames and the WINDOW_UPDATE frames it received equals the server's at every barrier. *)
Theorem C33_never_over_advertised : forall ops c c' out,
  Good c -> c_bug c = false -> c_dead c = false -> forallb wf_op ops = true -> respects c ops ->
  run_ops c ops = (c', out) -> c_dead c' = false ->
  c_inflow c' = view_run (c_inflow c) ops out.
Proof. exact client_view_exact. Qed.
Print Assumptions C33_never_over_advertised.

(* Excess is answered with RST_STREAM(FLOW_CONTROL_ERROR) and nothing is taken. *)
Theorem C33_excess_is_flow_error : forall c id dlen pad es c' evs,
  Good c -> c_bug c = false -> wf_op (OData id dlen pad es) = true -> id <> 0 ->
  c_inflow c < frame_len dlen pad ->
  step_data c id dlen pad es = (c', evs) -> evs = [(2, id, 3)] /\ c_inflow c' = c_inflow c.
Proof. exact excess_conn_is_flow_error. Qed.
Print Assumptions C33_excess_is_flow_error.

Theorem C33_stream_excess_is_flow_error : forall c st dlen pad es c' evs,
  Good c -> c_bug c = false -> wf_op (OData (s_id st) dlen pad es) = true ->
  find_live (s_id st) (c_streams c) = Some st -> s_state st = 1 -> s_trailer st = false ->
  (negb (s_decl st =? -1) && (s_decl st <? s_bytes st + dlen)) = false ->
  s_inflow st < frame_len dlen pad -> 0 < frame_len dlen pad ->
  step_data c (s_id st) dlen pad es = (c', evs) -> evs = [(2, s_id st, 3)].
Proof. exact excess_stream_is_flow_error. Qed.
Print Assumptions C33_stream_excess_is_flow_error.

(* Non-vacuity: a padded DATA frame, a partial read, a content-length overrun (refunded since the fix). *)
Example C33_nonvacuous :
  let ops := [OHeaders 1 false 0 5; OData 1 3 7 false; ORead 1 2; OData 1 9 (-1) false] in
  wf_cfg 100 0 = true /\ forallb wf_op ops = true /\
  snd (run_ops (init_conn 100 0) ops) =
    [[]; [(1, 0, 8); (1, 1, 8)]; [(1, 0, 2); (1, 1, 2); (6, 1, 2)]; [(1, 0, 9); (2, 1, 1)]] /\
  c_inflow (fst (run_ops (init_conn 100 0) ops)) = 65534.
Proof. exact (conj eq_refl (conj eq_refl (conj eq_refl eq_refl))). Qed.

(* ---- central statement: the predicate the harness evaluates on the implementation, on the model ---- *)
(* Full statement (NOT proved in general):
     forall i, wf_script i = true -> kf_C33 i = 0 -> prop_C33 i (run_C33 i) = true.
   Proved: (a) for every accepted input, prop_C33 on the model's own output is the client-side validator
   spec_run applied to the model's trace (the wire encoding is read back exactly); *)
Theorem C33_prop_on_model : forall i isw maxs ops,
  dec_script i = Some (isw, maxs, ops) ->
  prop_C33 i (run_C33 i) =
  spec_run (if isw =? 0 then init_window else isw) (mkK init_window [] false) ops
           (snd (run_ops (init_conn isw maxs) ops)).
Proof. exact prop_C33_on_model. Qed.
Print Assumptions C33_prop_on_model.

(* (b) the central statement for ALL scripts of length <= 4 over two alphabets (41371 + 30941 scripts,
   enumerated completely in Coq): stream window 4 (padding, END_STREAM, content-length 2, exact fill, one
   octet over, second and unknown stream, partial/full reads, Body.Close, handler return, RST), and the
   default 65535 windows (connection window exactly full / one over across two streams). *)
Theorem C33_central_bounded_partial : forall i isw ops,
  dec_script i = Some (isw, 0, ops) ->
  (isw = 4 /\ In ops (scripts 4 al33)) \/ (isw = 0 /\ In ops (scripts 4 al33d)) ->
  kf_C33 i = 0 -> prop_C33 i (run_C33 i) = true.
Proof. exact prop_C33_bounded. Qed.
Print Assumptions C33_central_bounded_partial.

(* wf_script is the executable well-formedness predicate (= the decoder accepts); a corpus case satisfies it
   and lies in the bounded language *)
Example C33_wf_corpus_case :
  let i := VL [VL [VZ 4; VZ 0]; VL [VL [VZ 1; VZ 1; VZ 0; VZ 0; VZ (-1)]; VL [VZ 2; VZ 1; VZ 3; VZ 0; VZ 0];
                                   VL [VZ 6; VZ 1; VZ 9; VZ 0; VZ 0]; VL [VZ 2; VZ 1; VZ 5; VZ (-1); VZ 0]]] in
  wf_script i = true /\ kf_C33 i = 0 /\
  dec_script i = Some (4, 0, [OHeaders 1 false 0 (-1); OData 1 3 0 false; ORead 1 9; OData 1 5 (-1) false]) /\
  prop_C33 i (run_C33 i) = true.
Proof. vm_compute. repeat split. Qed.
