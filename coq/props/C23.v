(* C23: chunked transfer coding is decoded exactly.  Property theorems only. *)
From Coq Require Import List ZArith Bool.
From Bfe Require Import lib.Val lib.Bytes model.Chunked proofs.ChunkedProofs run.RunC23.
Import ListNotations.
Open Scope Z_scope.

(* parseHexUint accepts exactly the size tokens of 1..16 hex digits and returns their value; every other token
   (empty, 17 or more digits, any non-hex byte such as a chunk extension, sign or 0x prefix) is an error. *)
Theorem C23_size_exact : forall tok,
  parse_hex tok = (hex_value tok, 0) /\ size_ok tok = true \/
  fst (parse_hex tok) = 0 /\ snd (parse_hex tok) <> 0 /\ size_ok tok = false.
Proof. exact parse_hex_exact. Qed.
Print Assumptions C23_size_exact.
