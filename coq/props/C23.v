(* C23: chunked transfer coding is decoded exactly.  Property theorems only.
   Model: coq/model/Chunked.v (bfe_http/chunked.go after fix commit 46f0dc6).  Error codes: 1 = io.EOF (clean end),
   2 = io.ErrUnexpectedEOF, 3 = line too long, 4/6/7 = bad chunk size, 5 = malformed chunk (no CR LF after data). *)
From Coq Require Import List ZArith Bool.
From Bfe Require Import lib.Val lib.Bytes model.Chunked proofs.ChunkedProofs run.RunC23.
Import ListNotations.
Open Scope Z_scope.

(* Reading a chunked body to the end with ANY sequence of read-buffer sizes gives exactly what the reference
   decoder for the chunked grammar (ref_decode_all, the specification) gives: the same data bytes; a clean end
   (io.EOF) if and only if the wire is a well-formed chunked body, and then exactly the chunks and the last-chunk
   line have been consumed; in every other case a real error (never "no error", never a clean end). *)
Theorem C23_decode_exact : forall sizes wire,
  let '(d, e, rest) := decode_all sizes wire in
  let '(d', ok, rest') := ref_decode_all wire in
  d = d' /\ e <> 0 /\ (e = 1 <-> ok = true) /\ (ok = true -> rest = rest').
Proof. exact decode_all_exact. Qed.
Print Assumptions C23_decode_exact.

(* Round trip: for every list of chunks handed to the chunked writer (empty writes are skipped, sizes < 2^64) and
   every sequence of read-buffer sizes, the chunked reader returns exactly the concatenation of the chunks, ends
   with io.EOF and leaves nothing of the encoder output unread. *)
Theorem C23_roundtrip : forall chunks sizes, Forall (fun d => blen d < 2 ^ 64) chunks ->
  decode_all sizes (encode_chunks chunks) = (concat chunks, 1, []).
Proof. exact decode_encode_roundtrip. Qed.
Print Assumptions C23_roundtrip.

(* A chunk-size token is accepted iff it is 1 to 16 hex digits, and then with its value; every other token
   (empty, 17 or more digits, any non-hex byte such as a chunk extension, a sign or a 0x prefix) is an error. *)
Theorem C23_reject_bad_size : forall tok,
  parse_hex tok = (hex_value tok, 0) /\ size_ok tok = true \/
  fst (parse_hex tok) = 0 /\ snd (parse_hex tok) <> 0 /\ size_ok tok = false.
Proof. exact parse_hex_exact. Qed.
Print Assumptions C23_reject_bad_size.

(* The executable predicate the harness evaluates on the implementation holds of the model on every input of the
   three operation kinds (decode / encode / size token); there is no known-finding class left (kf_C23 = 0). *)
Theorem C23_prop_of_model_decode : forall wire sizes pieces,
  let i := VL [VZ 1; VB wire; vLZ sizes; pieces] in prop_C23 i (run_C23 i) = true.
Proof. exact prop_C23_decode. Qed.
Print Assumptions C23_prop_of_model_decode.
Theorem C23_prop_of_model_encode : forall chunks, Forall (fun d => blen d < 2 ^ 64) chunks ->
  let i := VL [VZ 2; vLB chunks] in prop_C23 i (run_C23 i) = true.
Proof. exact prop_C23_encode. Qed.
Print Assumptions C23_prop_of_model_encode.
Theorem C23_prop_of_model_size : forall line,
  let i := VL [VZ 3; VB line] in prop_C23 i (run_C23 i) = true.
Proof. exact prop_C23_size. Qed.
Print Assumptions C23_prop_of_model_size.

(* CENTRAL THEOREM.  wf_C23 is the executable well-formedness of a harness input (one of the three operation shapes;
   read sizes a list of integers; encoder chunks byte strings shorter than 2^64).  On every well-formed input the
   predicate the harness evaluates on the implementation's observation holds of the model's observation; kf_C23 is
   0 everywhere (no known-finding class is left). *)
Theorem C23_prop_of_model : forall i, wf_C23 i = true -> kf_C23 i = 0 -> prop_C23 i (run_C23 i) = true.
Proof. exact prop_C23_of_model. Qed.
Print Assumptions C23_prop_of_model.
(* corpus cases (trunc-after-data, an encoder input with an empty write, the empty size token) are well-formed *)
Example C23_wf_corpus :
  wf_C23 (VL [VZ 1; VB [53;13;10;104;101;108;108;111]; VL [VZ 3]; VL [VZ 2]]) = true /\
  wf_C23 (VL [VZ 2; VL [VB [104;105]; VB []]]) = true /\ wf_C23 (VL [VZ 3; VB []]) = true.
Proof. exact wf_C23_corpus. Qed.

(* What the code did before the fix (old parseHexUint kept as parse_hex_prefix): the empty token and a 17-digit
   token were accepted (as 0 = last chunk, and as 5 after silent wrap-around) although the grammar rejects them. *)
Theorem C23_prefix_bad_size_refuted :
  parse_hex_prefix [] 0 = (0, 0) /\
  parse_hex_prefix [49;48;48;48;48;48;48;48;48;48;48;48;48;48;48;48;53] 0 = (5, 0) /\
  size_ok [] = false /\ size_ok [49;48;48;48;48;48;48;48;48;48;48;48;48;48;48;48;53] = false.
Proof. exact parse_hex_prefix_defects. Qed.
Print Assumptions C23_prefix_bad_size_refuted.

(* Non-vacuity: a body whose data contains CR LF "0" CR LF, with an empty write in the middle. *)
Example C23_roundtrip_example :
  decode_all [2; 7] (encode_chunks [[104; 105]; []; [13; 10; 48; 13; 10]]) = ([104; 105; 13; 10; 48; 13; 10], 1, []).
Proof. exact roundtrip_example. Qed.
