(* C49: rewrite, header and redirect actions have their documented effect.  Property theorems only.
   Model: model/Actions.v (bfe_basic/action after /repo fixes ba1d58d, ddd9210, ccf0ec4, 3ed95ca; mod_rewrite, mod_header,
   mod_redirect loaders); command tables: gen/Actions.v, regenerated from the Go source and the docs on every run. *)
From Coq Require Import List ZArith Bool String.
From Bfe Require Import lib.Val lib.Bytes gen.Actions model.Actions proofs.ActionsProofs run.RunC49.
Import ListNotations.
Open Scope Z_scope.

(* Every command listed in the "Actions" table of docs/en_us/modules/mod_rewrite, mod_header, mod_redirect is a
   command of the corresponding ActionFileCheck switch (for mod_header with the documented number of parameters),
   and every documented rewrite command is also in mod_rewrite.allowActions.  (Failed before ba1d58d:
   HOST_SUFFIX_REPLACE was documented and allowed but rejected by ActionFileCheck.) *)
Theorem C49_documented_accepted : documented_accepted = true.
Proof. vm_compute. reflexivity. Qed.
Print Assumptions C49_documented_accepted.

(* Every variable of the "Builtin Variables" table of mod_header.md is a key of mod_header.VariableHandlers, and each
   documented SET / ADD command with the value "%name" (alone or as "id=%name; x") is a valid configuration - hence
   accepted by the model's loader (C49_valid_header_accepted); the harness loads exactly these actions through
   ActionFileCheck + actionConvert for every variable of the module's table. *)
Theorem C49_documented_variables : documented_variables_valid = true.
Proof. vm_compute. reflexivity. Qed.
Print Assumptions C49_documented_variables.

(* QUERY_DEL, for every raw query string and every key list: after the action no parameter whose decoded key
   (url.ParseQuery decoding: %XX, '+', keys without '=') is one of the deleted keys remains. *)
Theorem C49_query_del_complete : forall (raw : bytes) (keys : list bytes) (k : bytes),
  In k keys -> ~ In k (map fst (parse_query (query_del raw keys))).
Proof. exact query_del_complete. Qed.
Print Assumptions C49_query_del_complete.

(* ... and the other parameters are unchanged: the decoded (key, value) list afterwards is exactly the old list
   without the deleted keys, same values, same order. *)
Theorem C49_query_del_preserves_others : forall (raw : bytes) (keys : list bytes),
  parse_query (query_del raw keys) = filter (fun kv => negb (mem (fst kv) keys)) (parse_query raw).
Proof. exact query_del_parse. Qed.
Print Assumptions C49_query_del_preserves_others.
Theorem C49_query_del_preserves_others_In : forall (raw : bytes) (keys : list bytes) (k v : bytes),
  ~ In k keys -> (In (k, v) (parse_query raw) <-> In (k, v) (parse_query (query_del raw keys))).
Proof. exact query_del_preserves_others. Qed.
Print Assumptions C49_query_del_preserves_others_In.

(* QUERY_DEL_ALL_EXCEPT: exactly the parameters with a listed key survive. *)
Theorem C49_query_del_all_except : forall (raw : bytes) (keys : list bytes),
  parse_query (query_del_all_except raw keys) = filter (fun kv => mem (fst kv) keys) (parse_query raw).
Proof. exact query_del_all_except_parse. Qed.
Print Assumptions C49_query_del_all_except.
Theorem C49_query_del_all_except_only : forall (raw : bytes) (keys : list bytes) (k : bytes),
  In k (map fst (parse_query (query_del_all_except raw keys))) -> In k keys.
Proof. exact query_del_all_except_only. Qed.
Print Assumptions C49_query_del_all_except_only.

(* Acceptance: a documented command with valid parameters (documented count for mod_header, the single parameter
   for mod_redirect with scheme http|https, the loader's count for mod_rewrite; no empty parameter) loads. *)
Theorem C49_valid_rewrite_accepted : forall cmd params,
  valid_rewrite_conf cmd params = true -> rewrite_accepts cmd params = true.
Proof. exact valid_rewrite_accepted. Qed.
Print Assumptions C49_valid_rewrite_accepted.
Theorem C49_valid_header_accepted : forall cmd params,
  valid_header_conf cmd params = true -> header_accepts cmd params = true /\ header_cmd cmd <> None.
Proof. exact valid_header_accepted. Qed.
Print Assumptions C49_valid_header_accepted.
Theorem C49_valid_redirect_accepted : forall cmd params,
  valid_redirect_conf cmd params = true -> redirect_accepts cmd params = true /\ rd_cmd_of cmd <> None.
Proof. exact valid_redirect_accepted. Qed.
Print Assumptions C49_valid_redirect_accepted.

(* Effects: each rewrite command maps (Host, path, raw query) as rw_effect (run/RunC49.v) describes: HOST_SET /
   PATH_SET set the field; PATH_PREFIX_ADD/TRIM add / trim the prefix and keep one leading "/";
   HOST_SET_FROM_PATH_PREFIX moves the first path segment to Host; HOST_SUFFIX_REPLACE replaces a matching suffix of
   Host; QUERY_ADD appends key=value; QUERY_DEL / QUERY_DEL_ALL_EXCEPT / QUERY_RENAME as above and below. *)
Theorem C49_rewrite_effect : forall (c : rwcmd) (params : list bytes) (u : url),
  rw_effect c params u (rw_do c params u) = true.
Proof. exact rw_effect_model. Qed.
Print Assumptions C49_rewrite_effect.
(* The parsed query cached on the request (Request.Query, which later actions and conditions read) is updated
   together with the raw query: after QUERY_DEL it holds none of the deleted keys, after QUERY_DEL_ALL_EXCEPT only
   listed keys. *)
Theorem C49_cache_effect : forall (c : rwcmd) (params : list bytes) (u : url),
  cache_effect c params (s_cache (rw_step c params (mkSt u None))) = true.
Proof. exact cache_effect_model. Qed.
Print Assumptions C49_cache_effect.

(* Header commands: the named field of the named side becomes [v] (SET), old values ++ [v] (ADD) or absent (DEL),
   v = the value template with every %name replaced by that variable's value (vars) and %% by %;
   every other field and the other side are untouched. *)
Theorem C49_header_effect : forall vars cmd params req rsp req' rsp',
  header_run vars cmd params req rsp = Some (req', rsp') -> header_effect vars cmd params req rsp req' rsp' = true.
Proof. exact header_effect_model. Qed.
Print Assumptions C49_header_effect.
Theorem C49_redirect_effect : forall cmd params u target,
  redirect_run cmd params u = Some target -> redirect_effect cmd params u target = true.
Proof. exact redirect_effect_model. Qed.
Print Assumptions C49_redirect_effect.

(* bfe_basic/action used directly (Action.UnmarshalJSON + Do): header commands change only the request header as
   SET/ADD/DEL say, all other commands only the URL as C49_rewrite_effect says. *)
Theorem C49_direct_effect : forall cmd params u h st' h',
  direct_run cmd params u h = Some (st', h') -> direct_effect (to_upper cmd) params u h st' h' = true.
Proof. exact direct_effect_model. Qed.
Print Assumptions C49_direct_effect.

(* Reload of the rewrite rule table (loadConfData -> ReWriteConfLoad -> ReWriteTable.Update), for every history: a
   successful reload REPLACES the table - the rest of the history does not depend on anything loaded before - and a
   product that the configuration in force does not list is left untouched by rewriteHandler. *)
Theorem C49_rewrite_reload_replaces : forall (t c : rw_conf) (ops : list rwop),
  rw_conf_ok c = true -> run_rw_ops t (RLoad c :: ops) = VL [VZ 1] :: run_rw_ops c ops.
Proof. exact rw_reload_replaces. Qed.
Print Assumptions C49_rewrite_reload_replaces.
Theorem C49_rewrite_dropped_product_untouched : forall (t c : rw_conf) (p : bytes) (u : url) (ops : list rwop),
  rw_conf_ok c = true -> rw_lookup p c = None ->
  run_rw_ops t (RLoad c :: RReq p u :: ops) = VL [VZ 1] :: enc_st (mkSt u None) :: run_rw_ops c ops.
Proof. exact rw_dropped_product_untouched. Qed.
Print Assumptions C49_rewrite_dropped_product_untouched.

(* The same for the redirect rule table (loadConfData -> redirectConfLoad -> RedirectTable.Update): a successful reload
   replaces the table, and a product the configuration in force does not list is never redirected. *)
Theorem C49_redirect_reload_replaces : forall (t c : rd_conf) (ops : list rdop),
  rd_conf_ok c = true -> run_rd_ops t (DLoad c :: ops) = VL [VZ 1] :: run_rd_ops c ops.
Proof. exact rd_reload_replaces. Qed.
Print Assumptions C49_redirect_reload_replaces.
Theorem C49_redirect_dropped_product : forall (t c : rd_conf) (p : bytes) (u : url) (ops : list rdop),
  rd_conf_ok c = true -> rd_lookup p c = None ->
  run_rd_ops t (DLoad c :: DReq p u :: ops) = VL [VZ 1] :: VL [VZ 0] :: run_rd_ops c ops.
Proof. exact rd_dropped_product_not_redirected. Qed.
Print Assumptions C49_redirect_dropped_product.

(* ... and for the header rule table (loadConfData -> HeaderConfLoad -> HeaderTable.Update; rules of product "global"
   apply before the request's product): replaced wholesale; with neither "global" nor the product listed, both
   headers are left untouched. *)
Theorem C49_header_reload_replaces : forall vars (t c : hd_conf) (ops : list hdop),
  hd_conf_ok c = true -> run_hd_ops vars t (HLoad c :: ops) = VL [VZ 1] :: run_hd_ops vars c ops.
Proof. exact hd_reload_replaces. Qed.
Print Assumptions C49_header_reload_replaces.
Theorem C49_header_dropped_product : forall vars (t c : hd_conf) (p : bytes) (a b : header) (ops : list hdop),
  hd_conf_ok c = true -> hd_lookup s_global c = None -> hd_lookup p c = None ->
  run_hd_ops vars t (HLoad c :: HReq p a b :: ops) = VL [VZ 1] :: VL [enc_hdr a; enc_hdr b] :: run_hd_ops vars c ops.
Proof. exact hd_dropped_product_untouched. Qed.
Print Assumptions C49_header_dropped_product.

(* The executable property evaluated by the harness on the implementation holds of the model on every decodable
   input; no known-finding class is excluded (kf_C49 = 0 everywhere). *)
Theorem C49_prop_of_model : forall i, wf_C49 i = true -> kf_C49 i = 0 -> prop_C49 i (run_C49 i) = true.
Proof. intros i H _. exact (prop_C49_of_model i H). Qed.
Print Assumptions C49_prop_of_model.

(* QUERY_RENAME with plain names (non-empty, none of % + & = ;): every parameter whose decoded key is the old name
   - however written - gets the new key; values, order and all other parameters are unchanged. *)
Theorem C49_query_rename : forall (raw old new : bytes),
  plain_name old = true -> plain_name new = true ->
  parse_query (query_rename raw old new) = map (rename_pair old new) (parse_query raw).
Proof. exact query_rename_parse. Qed.
Print Assumptions C49_query_rename.

(* a corpus case (QUERY_DEL a on "%61=1&b=2&a&a=3") is well-formed, outside every finding class, and handled as
   stated *)
Example C49_wf_example : wf_C49 ex_corpus_case = true /\ kf_C49 ex_corpus_case = 0
  /\ run_C49 ex_corpus_case = VL [VB (bs "example.com"); VB (bs "/"); VB (bs "b=2"); VL [VL [VL [VB (bs "b"); VL [VB (bs "2")]]]]].
Proof. exact wf_example. Qed.

(* Non-vacuity: the encodings that survived the old raw-string edit (%61=1, bare a) are deleted now. *)
Example C49_query_del_examples :
  query_del (bs "%61=1&b=2&a&a=3&A=4&a%20b=5") [bs "a"] = bs "b=2&A=4&a%20b=5"
  /\ parse_query (bs "%61=1&b=2&a&a=3") = [(bs "a", bs "1"); (bs "b", bs "2"); (bs "a", []); (bs "a", bs "3")]
  /\ query_del_all_except (bs "%61=1&b=2&a&c") [bs "a"] = bs "%61=1&a".
Proof. exact query_del_examples. Qed.
Example C49_query_rename_example :
  plain_name (bs "a") = true /\ plain_name (bs "new") = true
  /\ query_rename (bs "%61=1&b=2&a&a=3&x=a") (bs "a") (bs "new") = bs "new=1&b=2&new&new=3&x=a".
Proof. exact query_rename_example. Qed.
