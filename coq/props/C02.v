(* C02: hash based / sticky selection is deterministic and weight-partitioned.  Property theorems only.
   target = (key, weight, avail); key = AddrInfo of a backend or name of a sub-cluster (byte string, Go string order);
   sticky bs h   = stickyBalance on backends bs with murmur3 value h (weights x100, eligible = avail && weight > 0);
   sub_pick ss h = subClusterBalance (eligible = weight > 0, `single` short-cut);
   walk          = the loop "value -= weight; if value < 0 return". *)
From Coq Require Import List ZArith Bool Permutation.
From Bfe Require Import lib.Val model.Sticky proofs.StickyProofs run.RunC02.
Import ListNotations.
Open Scope Z_scope.

(* Order independence: for every reordering of the configured backends (pairwise distinct AddrInfo) and every
   hash value the same backend is chosen; the same for sub-clusters (distinct names). *)
Theorem C02_order_independent : forall (cfg cfg' : list target) (h : Z),
  Permutation cfg cfg' -> NoDup (map t_key cfg) -> sticky cfg h = sticky cfg' h.
Proof. exact sticky_order_independent. Qed.
Print Assumptions C02_order_independent.
Theorem C02_order_independent_sub : forall (cfg cfg' : list target) (h : Z),
  Permutation cfg cfg' -> NoDup (map t_key cfg) -> sub_pick cfg h = sub_pick cfg' h.
Proof. exact sub_pick_order_independent. Qed.
Print Assumptions C02_order_independent_sub.

(* Residue partition: over a list of positive weights, for every residue 0 <= v < W the walk returns the
   target i whose interval [w_0+..+w_(i-1), +w_i) contains v; so target i receives exactly w_i of every W
   consecutive residues and the "never come here" branch is unreachable. *)
Theorem C02_residue_partition : forall (ts : list (key * Z)) (v : Z),
  Forall (fun t => 0 < snd t) ts -> 0 <= v < sumw ts ->
  exists i k w, nth_error ts i = Some (k, w) /\ walk ts v = Some k /\ prefix ts i <= v < prefix ts i + w.
Proof. exact walk_interval. Qed.
Print Assumptions C02_residue_partition.

(* The selection of the model is the specification used by the harness predicate: the owner of the residue
   h mod W in the key-sorted eligible list (backends: scale 100, availability respected; sub-clusters: scale 1). *)
Theorem C02_sticky_is_owner : forall bs h, sticky bs h = spec_pick 100 true bs h.
Proof. exact sticky_spec. Qed.
Print Assumptions C02_sticky_is_owner.
Theorem C02_sub_is_owner : forall subs h, sub_pick subs h = spec_pick 1 false subs h.
Proof. exact sub_pick_spec. Qed.
Print Assumptions C02_sub_is_owner.

(* The `single` short-cut of subClusterBalance (exactly one positive weight) agrees with the general walk. *)
Theorem C02_single_consistent : forall k w h, 0 < w -> walk [(k, w)] (h mod sumw [(k, w)]) = Some k.
Proof. exact single_consistent. Qed.
Print Assumptions C02_single_consistent.

(* The model satisfies the executable property on every well-formed input of both kinds (kf_C02 = 0 everywhere):
   kind 1 = BalanceRR sticky on explicit permutations of the configuration, kind 2 = BalanceGslb (sub-cluster
   by hash, then sticky backend by the same hash). *)
Theorem C02_prop_of_model_sticky : forall bs h k ps l perms,
  dec_targets bs = Some l -> dec_perms (length l) ps = Some perms -> wf_hash h = true ->
  distinct_keys (map t_key l) = true ->
  prop_C02 (VL [VZ 1; bs; VZ h; VB k; ps]) (run_C02 (VL [VZ 1; bs; VZ h; VB k; ps])) = true.
Proof. exact prop_of_model_sticky. Qed.
Print Assumptions C02_prop_of_model_sticky.
Theorem C02_prop_of_model_gslb : forall ss h st k n subs,
  dec_subs ss = Some subs -> wf_hash h = true -> 0 <= n <= 8 ->
  distinct_keys (map (fun s : subc => fst (fst s)) subs) = true ->
  forallb (fun s : subc => distinct_keys (map t_key (snd s))) subs = true ->
  prop_C02 (VL [VZ 2; ss; VZ h; VZ st; VB k; VZ n]) (run_C02 (VL [VZ 2; ss; VZ h; VZ st; VB k; VZ n])) = true.
Proof. exact prop_of_model_gslb. Qed.
Print Assumptions C02_prop_of_model_gslb.

(* Non-vacuity: three backends given in two orders, AddrInfo "b:1" (w 2), "a:1" (w 1), "a:10" (w 3, down):
   sorted eligible list is a:1 (residues 0..99), b:1 (100..299); hash 250 -> b:1, hash 300 -> a:1. *)
Example C02_example :
  let a1 := ([97;58;49], 1, true) in let a10 := ([97;58;49;48], 3, false) in let b1 := ([98;58;49], 2, true) in
  sticky [b1; a1; a10] 250 = Some [98;58;49] /\ sticky [a10; a1; b1] 250 = Some [98;58;49] /\
  sticky [b1; a1; a10] 300 = Some [97;58;49].
Proof. exact (conj eq_refl (conj eq_refl eq_refl)). Qed.

(* Reload histories on one BalanceRR (kind 3 inputs: Init, sticky picks interleaved with BalanceRR.Update — adds,
   removals, weight changes, reordering — and SetAvail): every pick of the model is the owner of the hash residue in
   the key-sorted eligible list of the CURRENT configuration, i.e. the answer of a freshly built balancer; by
   C02_order_independent the order in which the history left the list does not matter. *)
Theorem C02_prop_of_model_history : forall c ops conf os,
  dec_hist c ops = Some (conf, os) ->
  prop_C02 (VL [VZ 3; c; ops]) (run_C02 (VL [VZ 3; c; ops])) = true.
Proof. exact prop_of_model_hist. Qed.
Print Assumptions C02_prop_of_model_history.
