(* C37: HTTP/2 control-frame floods are bounded.  Property theorems only.
   conn = the scheduler-relevant part of bfe_http2.serverConn (model/H2Ctl.v): `zero c` is writeSched.zero (the control
   frames waiting to be written), `queued c` is sc.queuedControlFrames, `closed c` says that serve() has returned (which
   closes the connection).  run_events limit c evs = the state after the serve loop handled the events evs one per
   iteration (PING, SETTINGS, DATA on unknown streams, handler frames, RST_STREAM, graceful GOAWAY, writer completions,
   ...), each
   iteration ending with the check `queuedControlFrames > limit -> return`. *)
From Coq Require Import List ZArith Bool.
From Bfe Require Import lib.Val model.H2Ctl run.RunC37 proofs.H2CtlProofs.
Import ListNotations.
Open Scope Z_scope.

(* The counter BFE compares with the limit is exactly the number of control frames pending in the write scheduler,
   after every history of serve-loop events (writeFrame ++, take --, forgetStream untouched). *)
Theorem C37_counter_is_queue_length : forall limit evs c,
  queued c = Z.of_nat (length (zero c)) ->
  queued (run_events limit c evs) = Z.of_nat (length (zero (run_events limit c evs))).
Proof. exact counter_is_queue_length. Qed.
Print Assumptions C37_counter_is_queue_length.

(* Whatever the client sends and wherever it stops reading: after every serve-loop iteration either the connection
   has been closed or at most `limit` control frames are pending; and at no time are there more than
   limit + per_iteration_max (= limit + 2: one event queues at most a WINDOW_UPDATE and a RST_STREAM). *)
Theorem C37_bounded : forall limit evs c,
  ((closed c = false -> queued c <= limit) /\ queued c <= limit + per_iteration_max) ->
  let c' := run_events limit c evs in
  (closed c' = false -> queued c' <= limit) /\ queued c' <= limit + per_iteration_max.
Proof. exact bounded. Qed.
Print Assumptions C37_bounded.

(* Closing is final. *)
Theorem C37_closed_forever : forall limit evs c, closed c = true -> closed (run_events limit c evs) = true.
Proof. exact closed_forever. Qed.
Print Assumptions C37_closed_forever.

(* A client that does not read (the writer goroutine is blocked in a flush) and sends more than `limit` PINGs gets
   the connection closed with exactly limit + 1 acks pending: memory does not grow past that. *)
Theorem C37_flood_closes : forall limit ids,
  0 <= limit -> limit < Z.of_nat (length ids) ->
  let c := run_events limit conn_blocked (map EPing ids) in
  closed c = true /\ queued c = limit + 1 /\ Z.of_nat (length (zero c)) = limit + 1.
Proof. exact flood_closes. Qed.
Print Assumptions C37_flood_closes.

(* Graceful shutdown (CloseNotifyCh closed -> goAway(NO_ERROR): in_goaway) does not switch the accounting off: the same
   flood after the GOAWAY is still counted and closes the connection at limit + 1 pending frames. *)
Theorem C37_flood_closes_in_goaway : forall limit ids,
  0 <= limit -> limit < Z.of_nat (length ids) ->
  let c := run_events limit conn_blocked (EGoAway :: map EPing ids) in
  closed c = true /\ queued c = limit + 1 /\ Z.of_nat (length (zero c)) = limit + 1 /\ in_goaway c = true.
Proof. exact flood_closes_goaway. Qed.
Print Assumptions C37_flood_closes_in_goaway.

(* ... and up to `limit` PINGs are tolerated: the connection stays open and every ack is still queued, in order. *)
Theorem C37_flood_below_stays_open : forall limit ids,
  Z.of_nat (length ids) <= limit ->
  let c := run_events limit conn_blocked (map EPing ids) in
  closed c = false /\ zero c = rev ids.
Proof. exact flood_below_stays_open. Qed.
Print Assumptions C37_flood_below_stays_open.

(* THE central statement.  wf_C37 i (executable): i = [limit stall ops] with limit, stall >= 0, every operation decodable
   and the drain operation [7] only in last position -- what the generator produces.  On every such input the model's
   own observation run_C37 i satisfies the executable predicate prop_C37 that the harness evaluates on the
   implementation's samples (counter = number of pending control frames; open => at most limit; never more than
   limit + 2; closed stays closed).  kf_C37 is constantly 0: no finding class. *)
Theorem C37_central : forall i, wf_C37 i = true -> kf_C37 i = 0 -> prop_C37 i (run_C37 i) = true.
Proof. exact prop_C37_central. Qed.
Print Assumptions C37_central.

(* Non-vacuity: a flood across a limit of 5 with a blocked handler and a 2-frames-per-iteration event closes the
   connection at 7 = limit + 2 pending frames; a flood below the limit drains in FIFO order
   and leaves the counter at 0.  The first input is a generated-style case and satisfies wf_C37. *)
Example C37_example_flood :
  let i := VL [VZ 5; VZ 0; VL [VL [VZ 1; VZ 5]; VL [VZ 5; VZ 1]; VL [VZ 4; VZ 1; VZ 77]; VL [VZ 7]]] in
  run_C37 i = VL [vLZ [0;0;0;0]; vLZ [5;5;0;0]; vLZ [5;5;1;0]; vLZ [7;7;-1;1]; VL [VZ 7; VL []]; vLZ [7;7;-1;1]]
  /\ wf_C37 i = true /\ prop_C37 i (run_C37 i) = true.
Proof. exact ex_flood_input. Qed.
Example C37_example_drain :
  let i := VL [VZ 10; VZ 2; VL [VL [VZ 1; VZ 3]; VL [VZ 4; VZ 1; VZ 77]; VL [VZ 7]]] in
  run_C37 i = VL [vLZ [0;0;0;0]; vLZ [3;3;0;0]; vLZ [5;5;0;0]; VL [VZ 7; vLZ [1;2;3;0;-77;MARKER]]; vLZ [0;0;0;0]].
Proof. exact ex_drain_input. Qed.
