(* C50: static file serving stays inside the document root.  Property theorems only. *)
From Coq Require Import List ZArith Bool.
From Bfe Require Import lib.Val lib.ValProofs lib.Bytes model.StaticFile proofs.StaticFileProofs run.RunC50.
Import ListNotations.
Open Scope Z_scope.

(* Whatever bytes a request path consists of (dot segments, empty segments, backslashes, NUL, ...),
   the element list that http.Dir.Open computes with path.Clean("/" ++ name) contains no empty, "."
   or ".." element and no element containing '/': it cannot climb out of the directory it is joined to. *)
Theorem C50_clean_rooted_no_dotdot : forall name,
  Forall (fun e => (e <> [] /\ e <> DOT /\ e <> DOTDOT) /\ ~ In SLASH e) (clean_name name).
Proof. exact clean_rooted_no_dotdot_lemma. Qed.
Print Assumptions C50_clean_rooted_no_dotdot.

(* For every file system, document root and requested name: if http.Dir(root).Open(name) yields a regular
   file with bytes c, then the path given to the operating system is root ++ rel for a rel made only of
   ordinary elements (no "", ".", "..", '/', NUL) and c is exactly what the file system stores at that path. *)
Theorem C50_under_root : forall fs root name c,
  dir_open fs root name = RFile c ->
  exists rel, Forall (fun e => (e <> [] /\ e <> DOT /\ e <> DOTDOT) /\ ~ In SLASH e) rel /\ has_nul rel = false /\
              opened_path root name = Some (root ++ rel) /\
              fs_get fs (root ++ rel) = Some (NFile c).
Proof. exact dir_open_under_root. Qed.
Print Assumptions C50_under_root.

(* For every request (any method, path, Accept-Encoding), rule (root, default file) and module setting
   (pre-compressed lookup on or off): a 200 response carries exactly the bytes (empty for HEAD) and the decimal
   length of a regular file stored at root ++ rel with rel free of "..", and the method is GET or HEAD.
   This covers the requested file, its pre-compressed sibling and the default file. *)
Theorem C50_exact_bytes_and_length : forall fs root meth name ae def compress,
  r_status (serve fs root meth name ae def compress) = 200 ->
  exists rel c, Forall (fun e => (e <> [] /\ e <> DOT /\ e <> DOTDOT) /\ ~ In SLASH e) rel /\ has_nul rel = false /\
    fs_get fs (root ++ rel) = Some (NFile c) /\
    r_clen (serve fs root meth name ae def compress) = dec_of_Z (blen c) /\
    r_body (serve fs root meth name ae def compress) = (if bytes_eqb meth HEAD then [] else c) /\
    (meth = GET \/ meth = HEAD).
Proof. exact serve_200_under_root. Qed.
Print Assumptions C50_exact_bytes_and_length.

(* Methods other than GET and HEAD are answered 405 with no body and no Content-Length. *)
Theorem C50_methods : forall fs root meth name ae def compress,
  meth <> GET -> meth <> HEAD ->
  serve fs root meth name ae def compress = {| r_status := 405; r_body := []; r_clen := []; r_cenc := [] |}.
Proof. exact serve_methods. Qed.
Print Assumptions C50_methods.

(* The status is one of 200/404/405/500 and every non-200 answer has no body and no Content-Length/-Encoding. *)
Theorem C50_status_range : forall fs root meth name ae def compress,
  let r := serve fs root meth name ae def compress in
  (r_status r = 200 \/ r_status r = 404 \/ r_status r = 405 \/ r_status r = 500) /\
  (r_status r <> 200 -> r_body r = [] /\ r_clen r = [] /\ r_cenc r = []).
Proof. exact serve_status_range. Qed.
Print Assumptions C50_status_range.

(* Missing files are answered 404: a GET/HEAD for a plain path "/e1/../en" (no empty, ".", "..", NUL or over-long
   element; plain_path in run/RunC50.v) under a root of ordinary elements, with nothing stored at root/e1/../en,
   no default file and pre-compressed lookup off, gets 404 without body. *)
Theorem C50_missing_404 : forall fs root meth name ae es,
  (meth = GET \/ meth = HEAD) -> plain_path name = Some es -> forallb plain_elem root = true ->
  fs_get fs (root ++ es) = None ->
  serve fs root meth name ae [] false = {| r_status := 404; r_body := []; r_clen := []; r_cenc := [] |}.
Proof. exact missing_404. Qed.
Print Assumptions C50_missing_404.

(* The requested file is the one served: in a tree whose every entry has its parent directories listed
   (fs_closed), a GET/HEAD for a plain path naming a regular file returns 200 with exactly its bytes (HEAD: none),
   its decimal length, and no Content-Encoding, whatever the default file is. *)
Theorem C50_plain_file_served : forall fs root meth name ae def es c,
  (meth = GET \/ meth = HEAD) -> plain_path name = Some es -> fs_closed fs = true ->
  fs_get fs (root ++ es) = Some (NFile c) ->
  serve fs root meth name ae def false =
    {| r_status := 200; r_body := if bytes_eqb meth HEAD then [] else c; r_clen := dec_of_Z (blen c); r_cenc := [] |}.
Proof. exact plain_file_served. Qed.
Print Assumptions C50_plain_file_served.

(* Pre-compressed siblings.  For every request and tree: a Content-Encoding is announced only on a 200 answer,
   only with EnableCompress, only "gzip"/"br", only when Accept-Encoding carries that token, and the bytes/length
   are those of a file stored under the root in an element ending with ".gz" / ".br" respectively. *)
Theorem C50_encoding_only_for_accepted_sibling_under_root : forall x,
  let r := serve_input x in prop_enc x (r_status r) (r_body r) (r_clen r) (r_cenc r) = true.
Proof. exact prop_enc_of_model. Qed.
Print Assumptions C50_encoding_only_for_accepted_sibling_under_root.

(* Sibling selection for plain paths (prop_sibling in run/RunC50.v): with EnableCompress, in a parent-closed tree,
   the first accepted encoding (gzip before br) whose sibling "<path>.<ext>" exists is the one served, with that
   Content-Encoding and that file's bytes; without such a sibling the file itself without Content-Encoding;
   nothing there and no default file => 404. *)
Theorem C50_sibling_selection : forall x,
  let r := serve_input x in prop_sibling x (r_status r) (r_body r) (r_clen r) (r_cenc r) = true.
Proof. exact prop_sibling_of_model. Qed.
Print Assumptions C50_sibling_selection.

(* Central theorem: the executable property predicate evaluated by the harness on the implementation
   (prop_C50 = prop_resp && prop_enc && prop_sibling && no file left open; for requests no rule covers: not handled;
   a rule file either fails to load or its BROWSE rule is enforced)
   holds of the model on EVERY well-formed (decodable) input: all methods, paths, Accept-Encoding values, default
   files, settings, rule routes and file systems.  There is no known-finding class (kf_C50 = 0 everywhere). *)
Theorem C50_prop_of_model : forall i, wf_C50 i = true -> kf_C50 i = 0 -> prop_C50 i (run_C50 i) = true.
Proof. exact prop_C50_of_model. Qed.
Print Assumptions C50_prop_of_model.

(* Non-vacuity: root /w with a.txt inside and a sentinel /s outside; "/../s" is answered 404,
   "/x/../a.txt" serves the file inside. *)
Example C50_example :
  let fs := [([[119]], NDir); ([[119]; [97]], NFile [1; 2; 3]); ([[115]], NFile [9])] in
  r_status (serve fs [[119]] GET [47; 46; 46; 47; 115] [] [] false) = 404 /\
  serve fs [[119]] GET [47; 120; 47; 46; 46; 47; 97] [] [] false
    = {| r_status := 200; r_body := [1; 2; 3]; r_clen := [51]; r_cenc := [] |}.
Proof. exact C50_example_lemma. Qed.

(* Non-vacuity of the central theorem: a corpus case (corpus/C50/basics.case, sibling-gz) is well-formed; the model
   serves the pre-compressed sibling a.txt.gz with Content-Encoding gzip. *)
Example C50_wf_example :
  wf_C50 corpus_sibling_gz = true /\
  run_C50 corpus_sibling_gz = VL [VZ 200; VB [71;90;66;89;84;69;83]; VB [55]; VB GZIP; VL [VZ 0; VZ 0; VZ 0; VZ 0]].
Proof. exact C50_wf_example_lemma. Qed.
