(* C47: WebSocket and TLS stream tunnels are byte-transparent.  Property theorems only (proofs in proofs/TunnelProofs.v).

   Model (model/Tunnel.v): the state at the moment the upgrade / handshake is established - `ce` / `be` are the bytes that
   arrived together with the upgrade request / the 101 response and sit in the proxy's bufio buffers, `cp` / `bp` what
   the client / backend will still send.  Steps (endpoint writes of any size, the two buffered-data flushes, copy-loop
   reads of any size and writes, endpoint reads, closes, EOF detection, the shutdown timer) are interleaved ARBITRARILY:
   a schedule is any list of labels. *)
From Coq Require Import List ZArith Bool.
From Bfe Require Import lib.Val model.Tunnel proofs.TunnelProofs run.RunC47.
Import ListNotations.
Open Scope Z_scope.

(* For EVERY interleaving: the bytes delivered to the backend so far are a prefix of (early client bytes ++ client
   payload) - in order, unchanged, nothing skipped, nothing delivered twice - and symmetrically for the client. *)
Theorem C47_transparent :
  forall ce cp be bp sched,
    let s := exec (init ce cp be bp) sched in
    prefix (recv (cb s)) (ce ++ cp) /\ prefix (recv (bc s)) (be ++ bp).
Proof. exact transparent. Qed.
Print Assumptions C47_transparent.

(* The exact accounting behind it: delivered ++ (in the proxy and on the wires, in pipeline order) ++ not yet written is
   ALWAYS exactly early ++ payload.  In particular the buffered early bytes are forwarded exactly once (the peeked
   buffer is written once and the copy loop reads the raw connection, not the bufio reader). *)
Theorem C47_early_bytes_once :
  forall ce cp be bp sched,
    let s := exec (init ce cp be bp) sched in
    recv (cb s) ++ (wire_out (cb s) ++ hold (cb s) ++ buf (cb s) ++ wire_in (cb s)) ++ tosend (cb s) = ce ++ cp /\
    recv (bc s) ++ (wire_out (bc s) ++ hold (bc s) ++ buf (bc s) ++ wire_in (bc s)) ++ tosend (bc s) = be ++ bp.
Proof. exact transparent_full. Qed.
Print Assumptions C47_early_bytes_once.

(* Equality at quiescence without close: if neither endpoint has closed and no step (other than an endpoint deciding to
   close) can change the state any more, each end has received EXACTLY everything the other end was given to send: the
   bytes that came with the upgrade first, then the payload.  `quiescent s` = every non-close label leaves s unchanged. *)
Theorem C47_complete_at_quiescence :
  forall ce cp be bp sched,
    let s := exec (init ce cp be bp) sched in
    quiescent s -> src_closed (cb s) = false -> src_closed (bc s) = false ->
    recv (cb s) = ce ++ cp /\ recv (bc s) = be ++ bp.
Proof. exact complete_at_quiescence. Qed.
Print Assumptions C47_complete_at_quiescence.

(* When either side closes, the other side is closed too: in every quiescent state reached by any schedule in which the
   client or the backend has closed, the proxy has closed BOTH connections and both endpoints have read EOF. *)
Theorem C47_close_propagates :
  forall ce cp be bp sched,
    let s := exec (init ce cp be bp) sched in
    quiescent s -> src_closed (cb s) = true \/ src_closed (bc s) = true ->
    pclosed s = true /\ dst_eof (cb s) = true /\ dst_eof (bc s) = true.
Proof. exact close_propagates. Qed.
Print Assumptions C47_close_propagates.

(* The model satisfies, on EVERY input, the property predicate that the harness evaluates on the implementation's
   observations (prop_C47: each end received exactly early ++ all chunks sent by the other end, and saw the close);
   together with agree_C47 = equality of observation and model output on every run this ties the property to the code. *)
Theorem C47_prop_of_model : forall i, prop_C47 i (run_C47 i) = true.
Proof. exact prop_C47_of_model. Qed.
Print Assumptions C47_prop_of_model.

(* Non-vacuity: early bytes on both sides, chunks both ways, the client closes: everything arrives, both ends see EOF. *)
Example C47_example :
  let s := exec (init [1;2] [3;4;5] [9] [8;7])
                ([LFlushC; LFlushB] ++ drain 10 ++ chunk_sched [(CB, 2%nat); (BC, 2%nat); (CB, 1%nat)]
                 ++ [LClose CB; LEof CB; LShutdown; LRecvEof CB; LRecvEof BC]) in
  (recv (cb s), recv (bc s), dst_eof (cb s), dst_eof (bc s)) = ([1;2;3;4;5], [9;8;7], true, true).
Proof. exact tunnel_example. Qed.

(* Non-vacuity of the quiescence hypotheses: the final state of that schedule is quiescent (and the client has closed). *)
Example C47_quiescent_example :
  let s := exec (init [1;2] [3;4;5] [9] [8;7])
                ([LFlushC; LFlushB] ++ drain 10 ++ chunk_sched [(CB, 2%nat); (BC, 2%nat); (CB, 1%nat)]
                 ++ [LClose CB; LEof CB; LShutdown; LRecvEof CB; LRecvEof BC]) in
  quiescent s /\ src_closed (cb s) = true.
Proof. exact quiescent_example. Qed.
