(* C56: DoH forwards the client's query with a correct client-subnet option.  Property theorems only.
   Model: model/Doh.v (mod_doh RequestToDnsMsg after the /repo fix 52f710c of setClientSubnet); the DNS wire
   codec (miekg/dns) is an explicit table argument [o] of its values, never assumed. *)
From Coq Require Import List ZArith Bool.
From Bfe Require Import lib.Val lib.Bytes model.Doh proofs.DohProofs run.RunC56.
Import ListNotations.
Open Scope Z_scope.

(* Address family and prefix length.  Whenever a request (GET or POST, any codec behaviour o) is forwarded with an
   appended option, the request has a client address cip (Request.ClientAddr if set, else Request.RemoteAddr), the
   option has scope 0 and: for an IPv4 cip (4 bytes, or 16 bytes IPv4-mapped) family 1, source prefix 32 and exactly
   the 4 IPv4 bytes; for any other (16-byte) address family 2, prefix 128 and the 16 address bytes. *)
Theorem C56_family_prefix : forall (o : oracle) (q : dreq) canon ne no udp ttl (e : ecs),
  request_to_dns_msg o q = Forwarded canon ne no udp ttl e ->
  exists cip, client_ip q = Some cip /\ e_scope e = 0 /\
  match to4 cip with
  | Some a => e_family e = 1 /\ e_mask e = 32 /\ e_addr e = a /\ length a = 4%nat
  | None => e_family e = 2 /\ e_mask e = 128 /\ e_addr e = cip /\ length cip = 16%nat
  end.
Proof. exact family_prefix. Qed.
Print Assumptions C56_family_prefix.

(* Message preserved: a forwarded message is the parse of the buffer the code read (canonical bytes equal) with
   exactly one more additional record, the OPT RR carrying the option for the client address. *)
Theorem C56_message_preserved : forall (o : oracle) (q : dreq) canon ne no udp ttl (e : ecs),
  request_to_dns_msg o q = Forwarded canon ne no udp ttl e ->
  exists buf p cip, code_buffer q = Some buf /\ unpack o buf = Some p /\ canon = p_canon p
                /\ ne = p_nextra p + 1 /\ no = p_nopt p + 1
                /\ client_ip q = Some cip /\ client_subnet cip = Some e.
Proof. exact forwarded_inv. Qed.
Print Assumptions C56_message_preserved.

(* Without Request.RemoteAddr (and only then) the parsed message is forwarded with nothing appended. *)
Theorem C56_no_remote_plain : forall (o : oracle) (q : dreq) canon ne no,
  request_to_dns_msg o q = ForwardedPlain canon ne no ->
  d_remote q = None /\ exists buf p, code_buffer q = Some buf /\ unpack o buf = Some p /\ canon = p_canon p
                /\ ne = p_nextra p /\ no = p_nopt p.
Proof. exact plain_inv. Qed.
Print Assumptions C56_no_remote_plain.

(* A POST body whose reader fails (e.g. body shorter than Content-Length: io.ErrUnexpectedEOF) before limit bytes
   were delivered is rejected, whatever the delivered prefix looks like. *)
Theorem C56_read_error_rejected : forall (o : oracle) (q : dreq) (k : Z),
  d_method q = s_POST -> d_fail q = Some k -> k < d_limit q -> request_to_dns_msg o q = Rejected.
Proof. exact read_error_rejected. Qed.
Print Assumptions C56_read_error_rejected.

(* Malformed requests are rejected: no / several / undecodable dns= values, other methods, or bytes the codec
   does not parse. *)
Theorem C56_malformed_rejected : forall (o : oracle) (q : dreq),
  (code_buffer q = None \/ exists buf, code_buffer q = Some buf /\ unpack o buf = None) ->
  request_to_dns_msg o q = Rejected.
Proof. exact malformed_rejected. Qed.
Print Assumptions C56_malformed_rejected.

(* Oversized POST bodies.  Full statement (FALSE of the code):
     forall o q, d_method q = s_POST -> d_limit q < blen (d_body q) -> request_to_dns_msg o q = Rejected.
   Refuted by a real case: 39-byte body, limit 12 -> the 12-byte header is parsed and forwarded. *)
Theorem C56_oversize_rejected_refuted :
  wf_C56 w_trunc = true /\ run_C56 w_trunc = w_trunc_out /\ prop_C56 w_trunc (run_C56 w_trunc) = false
  /\ kf_C56 w_trunc = 1.
Proof. exact trunc_refuted. Qed.
Print Assumptions C56_oversize_rejected_refuted.
(* Proved part: rejected whenever the truncated prefix does not parse (guard = complement of finding class 1). *)
Theorem C56_oversize_rejected_partial : forall (o : oracle) (q : dreq),
  d_method q = s_POST -> d_limit q < blen (d_body q) -> kf_truncated o q = false ->
  request_to_dns_msg o q = Rejected.
Proof. exact oversize_rejected_partial. Qed.
Print Assumptions C56_oversize_rejected_partial.

(* A client message that already has an OPT RR is forwarded with two OPT RRs (finding class 2). *)
Theorem C56_single_opt_refuted :
  wf_C56 w_opt = true /\ run_C56 w_opt = w_opt_out /\ prop_C56 w_opt (run_C56 w_opt) = false /\ kf_C56 w_opt = 2.
Proof. exact second_opt_refuted. Qed.
Print Assumptions C56_single_opt_refuted.

(* The whole specification (doh_spec: reject exactly the malformed/oversized/incompletely read, otherwise client message + one OPT
   RR, exactly one OPT RR in total, option matching the client address) holds of the model outside the two
   finding classes, for every client address of 4 or 16 bytes. *)
Theorem C56_spec_partial : forall (o : oracle) (q : dreq),
  match client_ip q with Some cip => valid_ip cip | None => true end = true ->
  kf_truncated o q = false -> kf_second_opt o q = false ->
  doh_spec o q (request_to_dns_msg o q) = true.
Proof. exact model_meets_spec. Qed.
Print Assumptions C56_spec_partial.
Theorem C56_prop_of_model : forall i, wf_C56 i = true -> kf_C56 i = 0 -> prop_C56 i (run_C56 i) = true.
Proof. exact prop_C56_of_model. Qed.
Print Assumptions C56_prop_of_model.

(* Concurrent queries (DnsClient.Fetch from two clients while the upstream has not answered yet).  For every pair of
   requests that are each forwardable and carry different message IDs: BOTH messages reach the upstream, each with
   its own ID and with the client-subnet option of ITS client, and each client is answered with the reply to its
   own ID.  (The implementation satisfies this only if the upstream client does not coalesce identical questions:
   dns.Client.SingleInflight must be false - also checked directly through NewDnsClient.) *)
Theorem C56_concurrent_each_forwarded : forall o1 q1 o2 q2,
  pair_wf o1 q1 o2 q2 = true ->
  exists i1 e1 i2 e2 c1 c2,
    fwd_entry o1 q1 = Some (i1, e1) /\ fwd_entry o2 q2 = Some (i2, e2) /\ i1 <> i2
    /\ client_ip q1 = Some c1 /\ client_ip q2 = Some c2 /\ ecs_matches c1 e1 = true /\ ecs_matches c2 e2 = true
    /\ run_pair o1 q1 o2 q2 =
       VL [VL [VZ 1; VZ i1]; VL [VZ 1; VZ i2];
           VL (if i1 <=? i2 then [enc_entry (i1, e1); enc_entry (i2, e2)] else [enc_entry (i2, e2); enc_entry (i1, e1)])].
Proof. exact pair_each_forwarded. Qed.
Print Assumptions C56_concurrent_each_forwarded.
Theorem C56_pair_prop_of_model : forall o1 q1 o2 q2,
  pair_wf o1 q1 o2 q2 = true -> prop_pair q1 q2 (run_pair o1 q1 o2 q2) = true.
Proof. exact prop_pair_model. Qed.
Print Assumptions C56_pair_prop_of_model.

(* Non-vacuity *)
Example C56_v4_example :
  wf_C56 w_v4 = true /\ kf_C56 w_v4 = 0 /\ run_C56 w_v4 = w_v4_out /\ prop_C56 w_v4 w_v4_out = true.
Proof. exact v4_example. Qed.
Example C56_to4_examples :
  to4 [192; 0; 2; 1] = Some [192; 0; 2; 1]
  /\ to4 [0;0;0;0;0;0;0;0;0;0;255;255;192;0;2;1] = Some [192; 0; 2; 1]
  /\ to4 [32;1;13;184;0;0;0;0;0;0;0;0;0;0;0;1] = None.
Proof. exact to4_examples. Qed.
Example C56_b64_example : b64url_decode [65; 81; 73; 68] = Some [1; 2; 3] /\ b64url_decode [65; 81; 10; 73] = Some [1; 2]
  /\ b64url_decode [65] = None /\ b64url_decode [65; 81; 61; 61] = None.
Proof. exact b64_example. Qed.
