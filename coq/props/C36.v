From Coq Require Import List ZArith Bool.
From Bfe Require Import lib.Val model.H2Prio run.RunC36.
Import ListNotations.
Open Scope Z_scope.
Example C36_placeholder : walk (fun x => if x =? 2 then Some 1 else None) 5 (Some 2) 1 = Some true.
Proof. exact walk_ex. Qed.
Print Assumptions C36_placeholder.
