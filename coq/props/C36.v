(* C36: the HTTP/2 priority tree stays acyclic and priority processing terminates.  Property theorems only.
   Vocabulary (model/H2Prio.v): a state holds every stream object ever created (`nodes`), the key set of
   sc.streams (`opn`), the parent pointer `par x` and weight of each object.  `reach par x z` = z is reached
   from x by following one or more parent pointers; `acyclic par` = no x with `reach par x x`.
   `pstep s o` is one operation (open a stream / closeStream / adjustStreamPriority), returning None exactly
   when the ancestor walk inside adjustStreamPriority has not finished after |nodes| iterations. *)
From Coq Require Import List ZArith Bool.
From Bfe Require Import lib.Val lib.ValProofs model.H2Prio proofs.H2PrioProofs run.RunC36.
Import ListNotations.
Open Scope Z_scope.

(* adjustStreamPriority itself, on ANY acyclic parent map (open set, fuel, arguments arbitrary): whenever the
   call returns, the new parent map is acyclic.  Covers the three cases plain re-parent, re-parent under a
   descendant (the descendant is first moved to the stream's old parent) and exclusive re-parenting. *)
Theorem C36_adjust_acyclic : forall isopen par fuel sid dep excl par',
  acyclic par -> adjust_par isopen par fuel sid dep excl = Some par' -> acyclic par'.
Proof. exact adjust_par_acyclic. Qed.
Print Assumptions C36_adjust_acyclic.

(* One step of any kind from a well-formed state (edges inside nodes, open streams are nodes, acyclic):
   the step completes (the walk needs at most |nodes| iterations) and the result is again well-formed. *)
Theorem C36_acyclic_preserved : forall s o,
  wfp s -> exists s', pstep s o = Some s' /\ wfp s'.
Proof. exact pstep_wfp. Qed.
Print Assumptions C36_acyclic_preserved.

(* For every history of stream creations, closes, PRIORITY frames and prioritised HEADERS starting from an
   empty connection: no stream is its own ancestor ... *)
Theorem C36_no_stream_own_ancestor : forall s x, preach s -> ~ reach (par s) x x.
Proof. exact no_stream_own_ancestor. Qed.
Print Assumptions C36_no_stream_own_ancestor.

(* ... and the next priority update terminates (the fuel-bounded walk never reports exhaustion). *)
Theorem C36_walk_terminates : forall s o, preach s -> pstep s o <> None.
Proof. exact priority_processing_terminates. Qed.
Print Assumptions C36_walk_terminates.

(* The walk lemma on its own: on an acyclic map whose edges stay inside `nodes`, the ancestor walk started at
   a node answers within |nodes| iterations. *)
Theorem C36_walk_fuel_suffices : forall nodes par p st,
  acyclic par -> closed_in nodes par -> (forall x, p = Some x -> In x nodes) ->
  walk par (length nodes) p st <> None.
Proof. exact walk_terminates. Qed.
Print Assumptions C36_walk_fuel_suffices.

(* The executable property the harness evaluates on the implementation's tables (one table per operation,
   every table's parent chains end at nil) holds of the model on every operation list. *)
Theorem C36_prop_of_model : forall ops, prop_C36 (enc_ops ops) (run_C36 (enc_ops ops)) = true.
Proof. exact prop_C36_of_model. Qed.
Print Assumptions C36_prop_of_model.

(* Serve-loop entry points: for every script of HEADERS frames opening streams (with or without the PRIORITY flag,
   any dependency incl. the stream itself, unknown or closed streams, exclusive or not), PRIORITY frames and
   RST_STREAMs, the model (processHeaders = create stream, then adjustStreamPriority if flagged; processPriority =
   adjustStreamPriority; reset = delete from the map) yields one acyclic table per frame: nothing hangs. *)
Theorem C36_prop_of_model_live : forall lops, prop_C36 (enc_live lops) (run_C36 (enc_live lops)) = true.
Proof. exact prop_C36_of_model_live. Qed.
Print Assumptions C36_prop_of_model_live.

(* Non-vacuity: a history that re-parents stream 1 under its grandchild 5 (5 moves to the root first), closes 3
   and then makes 5 exclusive child of the root; the (id,parent) tables after every step. *)
Example C36_example_history :
  option_map (map (map (fun r => let '(x, p, _, _) := r in (x, p)))) (prun pst0 ex_ops) =
  Some [ [(1,0)]; [(3,0);(1,0)]; [(5,0);(3,0);(1,0)]; [(5,0);(3,1);(1,0)]; [(5,3);(3,1);(1,0)];
         [(5,0);(3,1);(1,5)]; [(5,0);(3,1);(1,5)]; [(5,0);(3,1);(1,5)] ].
Proof. exact ex_ops_run. Qed.
