(* C19: IP dictionaries report exact membership.  Property theorems only.
   Model: coq/model/IpDict.v (IPItems.InsertPair/Sort with mergeItems/checkMerge and the zero-address
   tombstones, IPTable.Search); sort.Sort is a parameter. *)
From Coq Require Import List ZArith Bool Sorted Permutation.
From Bfe Require Import lib.Val lib.ValProofs model.IpDict run.RunC19 proofs.IpDictProofs.
Import ListNotations.
Open Scope Z_scope.

(* HEADLINE.  sort.Sort is only assumed to return a permutation of its input that is sorted w.r.t. the
   (non-strict) Less of ipPairs -- `valid_sorter`; the two calls inside IPItems.Sort may even behave
   differently (s1, s2).  For every such sorter, every collection of loaded ranges (start <= end, nested /
   overlapping / adjacent / duplicated, IPv4-mapped or IPv6) that does not collide with the tombstone
   encoding (`no_zero_sentinel`: at most one range, or no range starts at :: and none is 0.0.0.0-0.0.0.0),
   every set of single addresses and every probe address:
   IPTable.Search reports the probe exactly when it equals a loaded single address or lies inside a loaded
   range, bounds included.  This is what mod_block and mod_trust_clientip rely on. *)
Theorem C19_search_exact : forall s1 s2 items singles ip,
  valid_sorter s1 -> valid_sorter s2 ->
  forallb wf_rng items = true -> no_zero_sentinel items = true ->
  table_search singles (build2 s1 s2 items) ip = spec singles items ip.
Proof. exact search_exact. Qed.
Print Assumptions C19_search_exact.

(* The guard cannot be dropped (genuine defect, known finding 1): two ranges starting at :: -- after the
   merge the tombstone (::,::) and the survivor (::,::9) have equal keys, Go's insertion sort (what sort.Sort
   runs below 13 elements) puts the tombstone first and the reslice drops the survivor: ::3 is not found. *)
Theorem C19_refuted_v6zero_start :
  exists items ip, forallb wf_rng items = true /\
    table_search [] (build go_insertion_sort items) ip = false /\ spec [] items ip = true.
Proof. exact refuted_v6zero. Qed.
Print Assumptions C19_refuted_v6zero_start.

(* Known finding 2: 0.0.0.0-0.0.0.5, 0.0.0.2-0.0.0.9 and the pair 0.0.0.0-0.0.0.0: endIP == 0.0.0.0 is
   taken for a tombstone, is never merged and ends up in front of the merged range 0.0.0.0-0.0.0.9 that has
   the same start: the binary search stops at it and 0.0.0.1 is not found. *)
Theorem C19_refuted_v4zero_pair :
  exists items ip, forallb wf_rng items = true /\
    table_search [] (build go_insertion_sort items) ip = false /\ spec [] items ip = true.
Proof. exact refuted_v4zero. Qed.
Print Assumptions C19_refuted_v4zero_pair.

(* The hypothesis on sort.Sort is satisfiable: Go's insertion sort (as modelled) is a valid sorter. *)
Theorem C19_insertion_sort_valid : valid_sorter go_insertion_sort.
Proof. exact go_insertion_sort_valid. Qed.
Print Assumptions C19_insertion_sort_valid.

(* sort.Search is modelled by its contract (first index whose start is <= ip); the contract applies because
   the array left by IPItems.Sort is sorted by descending start. *)
Theorem C19_final_sorted : forall s1 s2 items,
  valid_sorter s1 -> valid_sorter s2 -> Forall good items ->
  StronglySorted (fun a b => fst b <= fst a) (build2 s1 s2 items).
Proof. exact final_sorted. Qed.
Print Assumptions C19_final_sorted.

(* The executable predicate the harness evaluates on the implementation's answers holds of the model on
   every decodable input (bytes non-negative) outside the two known-finding classes. *)
Theorem C19_prop_of_model : forall v i,
  dec_input v = Some i -> wf_input i -> kf_C19 v = 0 -> prop_C19 v (run_C19 v) = true.
Proof. exact prop_C19_of_model. Qed.
Print Assumptions C19_prop_of_model.

(* Non-vacuity: nested, overlapping, touching, adjacent and duplicate ranges around 10.0.0.0 and one IPv6
   range; the guard holds, three ranges survive the merge, and the search agrees with the specification
   on bounds and bounds +-1. *)
Example C19_nonvacuous :
  let a := Z4 + 167772160 in
  let items := [(a + 10, a + 20); (a + 15, a + 30); (a + 12, a + 13); (a + 30, a + 31); (a + 33, a + 40);
                (a + 10, a + 20); (5, 9)] in
  forallb wf_rng items = true /\ no_zero_sentinel items = true /\
  build go_insertion_sort items = [(a + 33, a + 40); (a + 10, a + 31); (5, 9)] /\
  map (fun ip => table_search [7] (build go_insertion_sort items) ip) [a + 9; a + 10; a + 31; a + 32; a + 33; a + 41; 4; 5; 9; 10; 7]
  = [false; true; true; false; true; false; false; true; true; false; true].
Proof. exact C19_nonvacuous_lemma. Qed.
