(* C19: IP dictionaries report exact membership.  Property theorems only.
   Model: coq/model/IpDict.v (IPItems.InsertPair / InsertSingle, IPItems.Sort = sort + mergeItems + reslice as
   repaired by /repo commit db8c170, IPTable.Search); sort.Sort is a parameter. *)
From Coq Require Import List ZArith Bool Sorted Permutation.
From Bfe Require Import lib.Val lib.ValProofs model.IpDict run.RunC19 proofs.IpDictProofs.
Import ListNotations.
Open Scope Z_scope.

(* HEADLINE (no guard).  sort.Sort is only assumed to return a permutation of its input that is sorted w.r.t.
   the (non-strict) Less of ipPairs -- `valid_sorter`.  For every such sorter, EVERY collection of loaded ranges
   (start <= end; nested, overlapping, touching, adjacent, duplicated; IPv4-mapped or IPv6; including ranges
   starting at :: or 0.0.0.0 and the pairs ::-:: and 0.0.0.0-0.0.0.0), every set of single addresses and every
   probe address: IPTable.Search reports the probe exactly when it equals a loaded single address or lies inside
   a loaded range, bounds included.  This is what mod_block and mod_trust_clientip rely on. *)
Theorem C19_search_exact : forall sorter, valid_sorter sorter ->
  forall items singles ip, forallb wf_rng items = true ->
  table_search singles (build sorter items) ip = spec singles items ip.
Proof. exact search_exact. Qed.
Print Assumptions C19_search_exact.

(* The hypothesis on sort.Sort is satisfiable: Go's insertion sort (as modelled) is a valid sorter. *)
Theorem C19_insertion_sort_valid : valid_sorter go_insertion_sort.
Proof. exact go_insertion_sort_valid. Qed.
Print Assumptions C19_insertion_sort_valid.

(* sort.Search is modelled by its contract (first index whose start is <= ip); the contract applies because
   the array left by IPItems.Sort is sorted by descending start ... *)
Theorem C19_final_sorted : forall sorter, valid_sorter sorter ->
  forall items, forallb wf_rng items = true ->
  StronglySorted (fun a b => fst b <= fst a) (build sorter items).
Proof. exact final_sorted. Qed.
Print Assumptions C19_final_sorted.

(* ... and its entries are pairwise disjoint and non-touching: every later entry ends before the start of
   every earlier one (so the one candidate the binary search looks at is the only possible hit). *)
Theorem C19_final_separated : forall sorter, valid_sorter sorter ->
  forall items, forallb wf_rng items = true ->
  StronglySorted (fun a b => snd b < fst a) (build sorter items).
Proof. exact final_separated. Qed.
Print Assumptions C19_final_separated.

(* An IPv4 address given as a 4-byte net.IP (To4(), ParseCIDR) and as its 16-byte IPv4-mapped form is the same
   address for InsertPair, InsertSingle and Search (all three only look at To16()). *)
Theorem C19_v4_forms_same_address : forall b, length b = 4%nat -> to16 (v4prefix ++ b) = to16 b.
Proof. exact to16_v4_forms. Qed.
Print Assumptions C19_v4_forms_same_address.

(* RELOAD.  IPTable.Update swaps the dictionary pointer atomically; IPTable.Search reads the pointer once and
   performs the single-address lookup and the range lookup on that snapshot.  [cell t] is the pointer at time t,
   t1 <= t2 <= t3 the times of the three steps.  Whatever Updates land while the Search is in flight, its answer
   is the exact membership answer of ONE dictionary version that was current during the Search ... *)
Theorem C19_search_during_update_exact : forall sorter, valid_sorter sorter ->
  forall (sg : nat -> list Z) (items : nat -> list rng) t1 t2 t3 ip,
  (forall t, forallb wf_rng (items t) = true) -> (t1 <= t2 <= t3)%nat ->
  exists t, (t1 <= t <= t3)%nat /\
    search_during (fun t => (sg t, build sorter (items t))) t1 t2 t3 ip = spec (sg t) (items t) ip.
Proof. exact search_during_exact. Qed.
Print Assumptions C19_search_during_update_exact.

(* ... in particular an address that is a member of every version is always reported (a blocked client does not
   slip through during a reload). *)
Theorem C19_member_of_all_versions_found : forall sorter, valid_sorter sorter ->
  forall (sg : nat -> list Z) (items : nat -> list rng) t1 t2 t3 ip,
  (forall t, forallb wf_rng (items t) = true) -> (t1 <= t2 <= t3)%nat ->
  (forall t, spec (sg t) (items t) ip = true) ->
  search_during (fun t => (sg t, build sorter (items t))) t1 t2 t3 ip = true.
Proof. exact search_during_member_of_all. Qed.
Print Assumptions C19_member_of_all_versions_found.

(* Contrast (what the harness must tell apart): a lookup whose range half re-reads the live pointer mixes the
   old single-address set with the new ranges: 15 is in both versions and is reported absent. *)
Example C19_live_pointer_not_linearizable :
  let old := ([], [(10, 20)]) in let new := ([15], []) in
  let cell := fun t => if (t <? 2)%nat then old else new in
  vsearch old 15 = true /\ vsearch new 15 = true /\
  search_during cell 0 1 2 15 = true /\ search_during_live cell 0 1 2 15 = false.
Proof. exact search_live_not_linearizable. Qed.

(* CENTRAL: the executable predicate the harness evaluates on the implementation's answers holds of the model
   on every well-formed (= decodable) wire input; there is no known-finding class any more (kf_C19 = 0). *)
Theorem C19_prop_of_model : forall v, wf_C19 v = true -> kf_C19 v = 0 -> prop_C19 v (run_C19 v) = true.
Proof. exact prop_C19_of_model. Qed.
Print Assumptions C19_prop_of_model.
Example C19_wf_corpus_case :
  wf_C19 (VL [VL [VL [VB [0;0;0;0]; VB [0;0;0;5]]; VL [VB [0;0;0;2]; VB [0;0;0;9]]; VL [VB [0;0;0;0]; VB [0;0;0;0]]];
              VL []; VL [VB [0;0;0;1]; VB [0;0;0;0]; VB [0;0;0;9]; VB [0;0;0;10]]; VZ 0; VZ 0]) = true.
Proof. exact C19_wf_example. Qed.

(* The two witnesses of the repaired defects: [::,::5]+[::,::9] probe ::3, and
   [0.0.0.0,0.0.0.5]+[0.0.0.2,0.0.0.9]+[0.0.0.0,0.0.0.0] probe 0.0.0.1 (both were reported absent). *)
Example C19_former_witnesses :
  table_search [] (build go_insertion_sort [(0, 5); (0, 9)]) 3 = true /\
  table_search [] (build go_insertion_sort [(Z4, Z4 + 5); (Z4 + 2, Z4 + 9); (Z4, Z4)]) (Z4 + 1) = true.
Proof. exact C19_former_witnesses_lemma. Qed.

(* Non-vacuity: nested, overlapping, touching, adjacent, duplicate ranges around 10.0.0.0, ranges starting at
   :: and 0.0.0.0, the pairs ::-:: and 0.0.0.0-0.0.0.0 and a wide IPv6 range reaching over them (cascade). *)
Example C19_nonvacuous :
  let a := Z4 + 167772160 in
  let items := [(a + 10, a + 20); (a + 15, a + 30); (a + 12, a + 13); (a + 30, a + 31); (a + 33, a + 40);
                (a + 10, a + 20); (5, 9); (0, 3); (0, 0); (Z4, Z4); (Z4, Z4 + 2); (1, Z4 + 1)] in
  forallb wf_rng items = true /\
  build go_insertion_sort items = [(a + 33, a + 40); (a + 10, a + 31); (0, Z4 + 2)] /\
  map (fun ip => table_search [a + 50] (build go_insertion_sort items) ip)
      [a + 9; a + 10; a + 31; a + 32; a + 33; a + 41; 0; 4; Z4 + 2; Z4 + 3; a + 50]
  = [false; true; true; false; true; false; true; true; true; false; true].
Proof. exact C19_nonvacuous_lemma. Qed.
