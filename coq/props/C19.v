(* C19 placeholder, replaced once proofs are in *)
From Coq Require Import List ZArith Bool.
From Bfe Require Import lib.Val model.IpDict run.RunC19.
Import ListNotations.
Open Scope Z_scope.
Example C19_refuted_witness :
  let w := [(0, 5); (0, 9)] in
  (build go_insertion_sort w, search (build go_insertion_sort w) 3, spec [] w 3) = ([(0, 0)], false, true).
Proof. exact witness_refuted. Qed.
Print Assumptions C19_refuted_witness.
