(* C22: buffered I/O preserves the byte stream and counts it exactly.  Property theorems only.
   Model: coq/model/Bufio.v (bfe_bufio/bufio.go after fix commit fa820bf). *)
From Coq Require Import List ZArith Bool.
From Bfe Require Import lib.Val lib.Bytes model.Bufio proofs.BufioProofs proofs.BufioStreamProofs proofs.BufioCentralProofs run.RunC22.
Import ListNotations.
Open Scope Z_scope.

(* CENTRAL THEOREM.  wf_C22 is the executable well-formedness of a harness input: a reader script (tag 1, or 3 = the
   source is also an io.WriterTo: source chunks of bytes >= 0; operations Read n>=0 / ReadByte / UnreadByte /
   ReadSlice / ReadLine / Peek / ReadBytes / WriteTo / ReadRune / UnreadRune / Reset) or a writer script (tag 2, or
   4 = the sink is also an io.ReaderFrom: Write / WriteByte / WriteString / Flush / ReadFrom / WriteRune / Reset) -
   every shape the generator produces.  On every such input the predicate that the harness evaluates on the
   implementation's observations (stream slices at the running position, TotalRead = pulled - Buffered after every
   operation, delimiter shape of ReadSlice/ReadBytes lines, ReadLine terminators, Peek lengths, ReadRune = UTF-8
   decoding of the bytes at the position, UnreadRune moving back 1..4 bytes onto the bytes consumed last, Reset;
   accepted-byte accounting, TotalWrite, monotone sink, Flush, Reset) holds of the model's observations. *)
Theorem C22_prop_of_model : forall i, wf_C22 i = true -> kf_C22 i = 0 -> prop_C22 i (run_C22 i) = true.
Proof. exact prop_C22_of_model. Qed.
Print Assumptions C22_prop_of_model.
(* corpus cases readslice-refill and readfrom-early-return are well-formed *)
Example C22_wf_corpus :
  wf_C22 (VL [VZ 1; VZ 16; VL [VL [VB [97;98]; VZ 0]; VL [VB [99;100;101;10]; VZ 0]]; VL [VL [VZ 2]; VL [VZ 4; VZ 10]]]) = true /\
  wf_C22 (VL [VZ 2; VZ 4; VL [VL [VZ 0; VZ 8]]; VL [VL [VZ 6; VL [VL [VB [97;98;99;100;101;102;103;104]; VZ 0]]]]]) = true.
Proof. exact wf_C22_corpus. Qed.

(* Counter exactness of the Reader.  For every buffer size, every scripted source (any chunking, errors anywhere)
   and every history of Read / ReadByte / UnreadByte / ReadSlice / ReadLine / Peek / ReadBytes / WriteTo / ReadRune /
   Reset operations (both kinds of source),
   after EVERY operation TotalRead equals the number of bytes obtained from the underlying reader minus the bytes
   still buffered, i.e. exactly the number of bytes consumed so far.  (Each observation is
   [[results] TotalRead pulled Buffered].) *)
Theorem C22_totalread_exact : forall wt size src ops obs,
  forallb no_unrune ops = true ->      (* every operation except UnreadRune *)
  reader_run wt ops (new_reader size src, -1) = Some obs ->
  Forall (fun o => exists ret t p b, o = VL [VL ret; VZ t; VZ p; VZ b] /\ t = p - b /\ 0 <= b) obs.
Proof. exact totalread_exact. Qed.
Print Assumptions C22_totalread_exact.

(* Counter exactness of the Writer.  For every buffer size, every scripted sink (short writes, errors) and every
   history of Write / WriteByte / WriteString / Flush / ReadFrom operations, after EVERY operation TotalWrite equals
   the bytes handed to the underlying writer plus the bytes still buffered, i.e. exactly the bytes accepted so far. *)
Theorem C22_totalwrite_exact : forall rf size sink ops obs,
  writer_run rf ops (new_writer size sink) = Some obs ->
  Forall (fun o => (exists ret t k b, o = VL [VL ret; VZ t; VZ k; VZ b] /\ t = k + b) \/ exists out, o = VB out) obs.
Proof. exact totalwrite_exact. Qed.
Print Assumptions C22_totalwrite_exact.

(* Stream preservation of the Reader.  Let S be the byte stream of the scripted source (bytes >= 0).  For every
   buffer size, every chunking/error script and every history of the modelled operations Read (1), ReadByte (2),
   UnreadByte (3), ReadSlice (4), ReadLine (5), Peek (6), ReadBytes (8), WriteTo (9), the observations satisfy
   trace_ok S 0, i.e. with pos the value of TotalRead before an operation and t after it (obs_law):
     Read / ReadSlice / ReadBytes / WriteTo : the bytes handed out are exactly S[pos, pos+len) and t = pos + len
     ReadByte         : on success the byte is S[pos] and t = pos + 1, otherwise t = pos
     Peek             : the returned bytes are exactly S[pos, pos+len) and t = pos
     ReadLine         : S[pos, t) is the returned line followed by nothing, LF or CR LF
     UnreadByte       : on success t = pos - 1 (and because every later operation reads S from t, the byte that is
                        re-exposed is S[pos-1], the byte consumed last), otherwise t = pos.
   So nothing of the stream is lost, duplicated or reordered.  The proof maintains the invariant InvS: the remainder
   of S from TotalRead is the buffered window followed by what the source still delivers, and the bytes in front of
   the read index are the bytes consumed last. *)
Theorem C22_reader_stream : forall size src ops obs,
  Forall (fun b => 0 <= b) (script_stream src) ->
  forallb plain_rop ops = true ->      (* no ReadRune / UnreadRune / Reset *)
  reader_run false ops (new_reader size src, -1) = Some obs ->
  trace_ok (script_stream src) 0 ops obs.
Proof. exact reader_stream. Qed.
Print Assumptions C22_reader_stream.

(* Non-vacuity: a history with UnreadByte after ReadSlice and after Read, Peek, ReadLine over CR LF split across
   source chunks, ReadBytes and WriteTo meets the hypotheses. *)
Example C22_reader_stream_example :
  let src := [([97;98;99;10], 0); ([100;13], 0); ([10;101], 1)] in
  let ops := [VL [VZ 2]; VL [VZ 4; VZ 10]; VL [VZ 3]; VL [VZ 2]; VL [VZ 6; VZ 3]; VL [VZ 5]; VL [VZ 1; VZ 40]; VL [VZ 3]; VL [VZ 8; VZ 10]; VL [VZ 9]] in
  Forall (fun b => 0 <= b) (script_stream src) /\
  forallb plain_rop ops = true /\ exists obs, reader_run false ops (new_reader 16 src, -1) = Some obs.
Proof. exact reader_stream_example. Qed.

(* Stream preservation of the Writer.  For every buffer size, every sink script (short writes, errors) and every
   history of the modelled operations Write (1), WriteByte (2), WriteString (3), Flush (4), ReadFrom (6): with A the
   concatenation of the accepted bytes (the first n bytes of every Write/WriteString that returned n, every byte whose
   WriteByte succeeded, the first n bytes of the reader's stream for a ReadFrom that returned n), after every
   operation TotalWrite = |A| (wtrace_ok), a count n < len(data) comes with an error, a successful Flush leaves
   nothing buffered, and at the end the underlying writer has received exactly a prefix of A - the rest of A is
   what is still buffered.  Nothing is lost, duplicated or reordered on the way to the sink. *)
Theorem C22_writer_stream : forall size sink ops obs,
  forallb (fun op => negb (is_wreset op)) ops = true ->      (* Reset starts a new history *)
  writer_run false ops (new_writer size sink) = Some obs ->
  wtrace_ok [] ops obs.
Proof. exact writer_stream. Qed.
Print Assumptions C22_writer_stream.

(* Non-vacuity: a history over a sink with a short write and an error. *)
Example C22_writer_stream_example :
  exists obs, writer_run false [VL [VZ 1; VB [1;2;3;4;5;6;7]]; VL [VZ 2; VZ 8]; VL [VZ 6; VL [VL [VB [9;10;11]; VZ 1]]]; VL [VZ 3; VB [12;13]]; VL [VZ 4]]
                         (new_writer 4 [(2, 0); (5000, 0); (1, 8)]) = Some obs.
Proof. exact writer_stream_example. Qed.

(* The scripted source hands out its stream in order: what one source Read returns, followed by what the rest of
   the script will return, is the stream. *)
Theorem C22_source_in_order : forall room s d e s', 0 <= room ->
  src_read room s = (d, e, s') -> script_stream s = d ++ script_stream s' /\ blen d <= Z.max room 0.
Proof. exact src_read_stream. Qed.
Print Assumptions C22_source_in_order.

(* Non-vacuity: the pre-fix witness (ReadByte, then a ReadSlice that needs a refill): the counter is 6, not 5. *)
Example C22_totalread_example :
  run_C22 (VL [VZ 1; VZ 16; VL [VL [VB [97;98]; VZ 0]; VL [VB [99;100;101;10]; VZ 0]]; VL [VL [VZ 2]; VL [VZ 4; VZ 10]]])
  = VL [VL [VL [VZ 97; VZ 0]; VZ 1; VZ 2; VZ 1]; VL [VL [VB [98;99;100;101;10]; VZ 0]; VZ 6; VZ 6; VZ 0]].
Proof. exact totalread_example. Qed.
