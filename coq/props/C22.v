(* C22: buffered I/O preserves the byte stream and counts it exactly.  Property theorems only. *)
From Coq Require Import List ZArith Bool.
From Bfe Require Import lib.Val lib.Bytes model.Bufio proofs.BufioProofs run.RunC22.
Import ListNotations.
Open Scope Z_scope.

(* The scripted source used by model and harness hands out its stream in order: what a source Read returns,
   followed by what the rest of the script will return, is the stream. *)
Theorem C22_source_in_order : forall room s d e s', 0 <= room ->
  src_read room s = (d, e, s') -> script_stream s = d ++ script_stream s' /\ blen d <= Z.max room 0.
Proof. exact src_read_stream. Qed.
Print Assumptions C22_source_in_order.
