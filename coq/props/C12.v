(* C12: cluster lookup combines basic and advanced rules as documented.  Property theorems only.
   Model: model/ClusterLookup.v (bfe_route/host_table.go:LookupCluster) on top of the C11 tree model.
   `holds c req` is rule.Cond.Match(req) for an arbitrary condition type (abstract in every theorem);
   `basic_result basic req` is BasicRouteRuleTree.Get on the request host without ":port" and the URL path
   (None when the product has no basic table);  deferred b := b = None \/ b = Some "ADVANCED_MODE". *)
From Coq Require Import List ZArith Bool.
From Bfe Require Import lib.Val lib.ValProofs lib.Bytes model.BasicRoute model.ClusterLookup
     proofs.ClusterLookupProofs run.RunC12.
Import ListNotations.
Open Scope Z_scope.

(* The basic-rule result is final when it names a real cluster: advanced rules are not consulted. *)
Theorem C12_basic_wins : forall (C : Type) (holds : C -> request -> bool) basic adv req cl,
  basic_result basic req = Some cl -> cl <> ADVANCED_MODE -> lookup_cluster holds basic adv req = COk cl.
Proof. exact @basic_wins. Qed.
Print Assumptions C12_basic_wins.

(* HEADLINE.  When the basic table misses or yields ADVANCED_MODE, the cluster is that of the FIRST advanced rule,
   in configured order, whose condition holds: all rules before it (pre) do not hold; rules after it are irrelevant. *)
Theorem C12_advanced_first_match : forall (C : Type) (holds : C -> request -> bool) basic pre c cl post req,
  deferred (basic_result basic req) ->
  Forall (fun r => holds (fst r) req = false) pre -> holds c req = true -> cl <> [] ->
  lookup_cluster holds basic (Some (pre ++ (c, cl) :: post)) req = COk cl.
Proof. exact @advanced_first_match. Qed.
Print Assumptions C12_advanced_first_match.

(* Nothing matches: ErrNoMatchRule, no cluster (the request is not forwarded). *)
Theorem C12_no_match_error : forall (C : Type) (holds : C -> request -> bool) basic rules req,
  deferred (basic_result basic req) ->
  Forall (fun r => holds (fst r) req = false) rules ->
  lookup_cluster holds basic (Some rules) req = CErrNoMatchRule.
Proof. exact @no_match_error. Qed.
Print Assumptions C12_no_match_error.

(* The product has no advanced table at all: ErrNoProductRule. *)
Theorem C12_no_product_rule : forall (C : Type) (holds : C -> request -> bool) basic req,
  deferred (basic_result basic req) -> lookup_cluster holds basic None req = CErrNoProductRule.
Proof. exact @no_product_rule. Qed.
Print Assumptions C12_no_product_rule.

(* ADVANCED_MODE in the basic table is never returned as a cluster by the basic step: the answer is exactly the
   advanced table's decision. *)
Theorem C12_advanced_mode_falls_through : forall (C : Type) (holds : C -> request -> bool) basic adv req,
  basic_result basic req = Some ADVANCED_MODE ->
  lookup_cluster holds basic adv req = advanced_part holds adv req.
Proof. exact @advanced_mode_falls_through. Qed.
Print Assumptions C12_advanced_mode_falls_through.

(* Total characterisation: LookupCluster equals the specification function for every input. *)
Theorem C12_lookup_refines_spec : forall (C : Type) (holds : C -> request -> bool) basic adv req,
  lookup_cluster holds basic adv req = spec_cluster holds (basic_result basic req) adv req.
Proof. exact @lookup_refines_spec. Qed.
Print Assumptions C12_lookup_refines_spec.

(* PER-PRODUCT ISOLATION.  The route table holds one basic tree and one advanced list per product
   (`lookup_table` indexes both by req.Route.Product).  The answer for a request of product p is computed from p's
   own entry e alone, whatever other products (pre, post) the table contains and whatever their rules are: a request
   that misses its own product's basic rules can never be routed by another product's rule. *)
Theorem C12_products_isolated : forall (C : Type) (holds : C -> request -> bool)
    (pre post : list (product_entry C)) e p req,
  fst e = p -> find_product p pre = None ->
  lookup_table holds (pre ++ e :: post) p req = lookup_cluster holds (fst (snd e)) (snd (snd e)) req.
Proof. exact @products_isolated. Qed.
Print Assumptions C12_products_isolated.
Theorem C12_other_products_irrelevant : forall (C : Type) (holds : C -> request -> bool)
    (pre pre' post post' : list (product_entry C)) e p req,
  fst e = p -> find_product p pre = None -> find_product p pre' = None ->
  lookup_table holds (pre ++ e :: post) p req = lookup_table holds (pre' ++ e :: post') p req.
Proof. exact @other_products_irrelevant. Qed.
Print Assumptions C12_other_products_irrelevant.
(* A product that appears in neither map gets ErrNoProductRule. *)
Theorem C12_unknown_product : forall (C : Type) (holds : C -> request -> bool) (tbl : list (product_entry C)) p req,
  find_product p tbl = None -> lookup_table holds tbl p req = CErrNoProductRule.
Proof. exact @unknown_product. Qed.
Print Assumptions C12_unknown_product.

(* CENTRAL THEOREM.  The executable property the harness evaluates on the implementation's observations holds of the
   model on every well-formed input: a list of reload stages, each a whole route table with several products and
   several requests (possibly with a nil URL); each request is answered from the rules written under its own product
   in the current stage (documented basic choice doc_route of C11, else first advanced match, else error).  This
   composes C11_get_refines_doc with the theorems above.  There is no known-finding class (kf_C12 = 0). *)
Theorem C12_prop_of_model : forall i, wf_C12 i = true -> kf_C12 i = 0 -> prop_C12 i (run_C12 i) = true.
Proof. exact prop_C12_of_model. Qed.
Print Assumptions C12_prop_of_model.
(* a corpus case (corpus/C12/examples.case, "wf-example") is well-formed *)
Example C12_wf_example :
  wf_C12 (VL [VL [VL [VL [VB [112]; VL []; VL [VL [VL [VZ 0; VL []; VB [68]]]]]];
                  VL [VL [VB [112]; VB [104]; VB [47]; VB [71;69;84]; VZ 1]; VL [VB [113]; VB [104]; VB [47]; VB [71;69;84]; VZ 0]]]]) = true.
Proof. exact eq_refl. Qed.

(* Non-vacuity: basic {www.a.com /a* -> B ; www.c.com * -> ADVANCED_MODE}, advanced [POST -> P ; /x -> X ; default -> D]. *)
From Coq Require Import String.
Local Open Scope string_scope.
Import BasicRouteProofs.
Example C12_examples :
  ex_basic <> None /\
  lookup_cluster cond_holds ex_basic ex_adv (mkReq (b "www.a.com:8080") (b "/a/1") (b "POST") true) = COk (b "B") /\
  lookup_cluster cond_holds ex_basic ex_adv (mkReq (b "www.c.com") (b "/x") (b "POST") true) = COk (b "P") /\
  lookup_cluster cond_holds ex_basic ex_adv (mkReq (b "www.c.com") (b "/x") (b "GET") true) = COk (b "X") /\
  lookup_cluster cond_holds ex_basic ex_adv (mkReq (b "www.a.com") (b "/b") (b "GET") true) = COk (b "D") /\
  lookup_cluster cond_holds ex_basic (Some [(CMethodIn [b "POST"], b "P")]) (mkReq (b "www.a.com") (b "/b") (b "GET") true) = CErrNoMatchRule /\
  lookup_cluster cond_holds ex_basic None (mkReq (b "www.c.com") (b "/") (b "GET") true) = CErrNoProductRule.
Proof. exact ex_lookups. Qed.
(* two products over the same hosts: the same request is a basic hit under "pa" and falls to "pb"'s own advanced
   rules under "pb"; a miss under "pa" (no advanced rules) is an error and does not borrow "pb"'s default rule *)
Example C12_isolation_example :
  lookup_table cond_holds ex_table (b "pa") (mkReq (b "www.a.com") (b "/a/1") (b "GET") true) = COk (b "B") /\
  lookup_table cond_holds ex_table (b "pb") (mkReq (b "www.a.com") (b "/a/1") (b "GET") true) = COk (b "D") /\
  lookup_table cond_holds ex_table (b "pa") (mkReq (b "www.a.com") (b "/zzz") (b "GET") true) = CErrNoProductRule /\
  lookup_table cond_holds ex_table (b "pc") (mkReq (b "www.a.com") (b "/a/1") (b "GET") true) = CErrNoProductRule.
Proof. exact ex_isolation. Qed.
