(* C12: cluster lookup combines basic and advanced rules as documented.  Property theorems only.
   Model: model/ClusterLookup.v (bfe_route/host_table.go:LookupCluster) on top of the C11 tree model.
   `holds c req` is rule.Cond.Match(req) for an arbitrary condition type (abstract in every theorem);
   `basic_result basic req` is BasicRouteRuleTree.Get on the request host without ":port" and the URL path
   (None when the product has no basic table);  deferred b := b = None \/ b = Some "ADVANCED_MODE". *)
From Coq Require Import List ZArith Bool.
From Bfe Require Import lib.Val lib.ValProofs lib.Bytes model.BasicRoute model.ClusterLookup
     proofs.ClusterLookupProofs run.RunC12.
Import ListNotations.
Open Scope Z_scope.

(* The basic-rule result is final when it names a real cluster: advanced rules are not consulted. *)
Theorem C12_basic_wins : forall (C : Type) (holds : C -> request -> bool) basic adv req cl,
  basic_result basic req = Some cl -> cl <> ADVANCED_MODE -> lookup_cluster holds basic adv req = COk cl.
Proof. exact @basic_wins. Qed.
Print Assumptions C12_basic_wins.

(* HEADLINE.  When the basic table misses or yields ADVANCED_MODE, the cluster is that of the FIRST advanced rule,
   in configured order, whose condition holds: all rules before it (pre) do not hold; rules after it are irrelevant. *)
Theorem C12_advanced_first_match : forall (C : Type) (holds : C -> request -> bool) basic pre c cl post req,
  deferred (basic_result basic req) ->
  Forall (fun r => holds (fst r) req = false) pre -> holds c req = true -> cl <> [] ->
  lookup_cluster holds basic (Some (pre ++ (c, cl) :: post)) req = COk cl.
Proof. exact @advanced_first_match. Qed.
Print Assumptions C12_advanced_first_match.

(* Nothing matches: ErrNoMatchRule, no cluster (the request is not forwarded). *)
Theorem C12_no_match_error : forall (C : Type) (holds : C -> request -> bool) basic rules req,
  deferred (basic_result basic req) ->
  Forall (fun r => holds (fst r) req = false) rules ->
  lookup_cluster holds basic (Some rules) req = CErrNoMatchRule.
Proof. exact @no_match_error. Qed.
Print Assumptions C12_no_match_error.

(* The product has no advanced table at all: ErrNoProductRule. *)
Theorem C12_no_product_rule : forall (C : Type) (holds : C -> request -> bool) basic req,
  deferred (basic_result basic req) -> lookup_cluster holds basic None req = CErrNoProductRule.
Proof. exact @no_product_rule. Qed.
Print Assumptions C12_no_product_rule.

(* ADVANCED_MODE in the basic table is never returned as a cluster by the basic step: the answer is exactly the
   advanced table's decision. *)
Theorem C12_advanced_mode_falls_through : forall (C : Type) (holds : C -> request -> bool) basic adv req,
  basic_result basic req = Some ADVANCED_MODE ->
  lookup_cluster holds basic adv req = advanced_part holds adv req.
Proof. exact @advanced_mode_falls_through. Qed.
Print Assumptions C12_advanced_mode_falls_through.

(* Total characterisation: LookupCluster equals the specification function for every input. *)
Theorem C12_lookup_refines_spec : forall (C : Type) (holds : C -> request -> bool) basic adv req,
  lookup_cluster holds basic adv req = spec_cluster holds (basic_result basic req) adv req.
Proof. exact @lookup_refines_spec. Qed.
Print Assumptions C12_lookup_refines_spec.

(* The executable property evaluated by the harness (documented basic choice doc_route of C11 + first advanced
   match) holds of the model on every well-formed input; this composes C11_get_refines_doc with the above. *)
Theorem C12_prop_of_model : forall i, dec_C12 i <> None -> prop_C12 i (run_C12 i) = true.
Proof. exact prop_C12_of_model. Qed.
Print Assumptions C12_prop_of_model.

(* Non-vacuity: basic {www.a.com /a* -> B ; www.c.com * -> ADVANCED_MODE}, advanced [POST -> P ; /x -> X ; default -> D]. *)
From Coq Require Import String.
Local Open Scope string_scope.
Import BasicRouteProofs.
Example C12_examples :
  ex_basic <> None /\
  lookup_cluster cond_holds ex_basic ex_adv (mkReq (b "www.a.com:8080") (b "/a/1") (b "POST")) = COk (b "B") /\
  lookup_cluster cond_holds ex_basic ex_adv (mkReq (b "www.c.com") (b "/x") (b "POST")) = COk (b "P") /\
  lookup_cluster cond_holds ex_basic ex_adv (mkReq (b "www.c.com") (b "/x") (b "GET")) = COk (b "X") /\
  lookup_cluster cond_holds ex_basic ex_adv (mkReq (b "www.a.com") (b "/b") (b "GET")) = COk (b "D") /\
  lookup_cluster cond_holds ex_basic (Some [(CMethodIn [b "POST"], b "P")]) (mkReq (b "www.a.com") (b "/b") (b "GET")) = CErrNoMatchRule /\
  lookup_cluster cond_holds ex_basic None (mkReq (b "www.c.com") (b "/") (b "GET")) = CErrNoProductRule.
Proof. exact ex_lookups. Qed.
