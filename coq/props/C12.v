(* C12: cluster lookup combines basic and advanced rules as documented.  Property theorems only. *)
From Coq Require Import List ZArith Bool.
From Bfe Require Import lib.Val lib.Bytes model.BasicRoute model.ClusterLookup run.RunC12.
Import ListNotations.
Open Scope Z_scope.

Example C12_placeholder : kf_C12 (VL []) = 0.
Proof. exact eq_refl. Qed.
Print Assumptions C12_placeholder.
