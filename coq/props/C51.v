(* C51: access-control modules admit exactly the valid requests.  Property theorems only.
   Cryptographic verdicts (signature verifies under key k, password matches stored hash, MD5 digest) are inputs. *)
From Coq Require Import List ZArith Bool.
From Bfe Require Import lib.Val lib.ValProofs lib.Bytes model.Access proofs.AccessProofs run.RunC51.
Import ListNotations.
Open Scope Z_scope.

(* JWT: for every Authorization header, token shape, claims, clock and key set, the request is forwarded iff the
   header is "Bearer <token>", the token parses, its exp/iat/nbf claims hold at `now`, and some configured key
   whose declared algorithm (if any) is the token's algorithm and whose key type is the one that algorithm needs
   (HS* - oct, RS256 - RSA; none/unknown - never) verifies the signature. *)
Theorem C51_jwt_iff_valid : forall auth mal alg c now keys,
  jwt_accept auth mal alg c now keys = true <->
  (exists tok, get_token auth = Some tok) /\ mal = false /\ claims_ok c now = true /\
  exists k, In k keys /\ (k_alg k = 0 \/ k_alg k = alg) /\ alg_compat alg (k_kty k) = true /\ k_sig_ok k = true.
Proof. exact jwt_iff_valid. Qed.
Print Assumptions C51_jwt_iff_valid.

(* "signed with a configured key using that key's algorithm and within its time claims".
   The algorithm part holds after the repair of provideKey (/repo commit dccedcf; before it an HS256 token was
   accepted under an oct key declared HS512).  The time part is refuted for claims that are the number 0 or not
   numbers: jwt-go ignores them, so e.g. a signed token with "exp":0 is accepted at any time (known finding 2). *)
Theorem C51_jwt_valid_refuted :
  exists auth alg c now keys,
    jwt_accept auth false alg c now keys = true /\ jwt_valid auth false alg c now keys = false.
Proof. exact jwt_time_refuted. Qed.
Print Assumptions C51_jwt_valid_refuted.

(* For every token whose time claims are absent or non-zero numbers (claims_strict) the module's decision
   coincides with the statement's validity predicate jwt_valid of run/RunC51.v, for all headers, algorithms,
   clocks and key sets (including keys with and without a declared algorithm). *)
Theorem C51_jwt_valid_partial : forall auth mal alg c now keys, claims_strict c = true ->
  jwt_valid auth mal alg c now keys = jwt_accept auth mal alg c now keys.
Proof. exact jwt_accept_is_valid. Qed.
Print Assumptions C51_jwt_valid_partial.

(* In every case a valid request is forwarded (the defect only ever admits too much). *)
Theorem C51_jwt_valid_accepted : forall auth mal alg c now keys,
  jwt_valid auth mal alg c now keys = true -> jwt_accept auth mal alg c now keys = true.
Proof. exact jwt_valid_accepted. Qed.
Print Assumptions C51_jwt_valid_accepted.

(* Secure link: for all query values, digests and clocks, Checker.Check succeeds iff (no expiry key is configured
   or the expires value is a decimal int64 not before now) and the checksum value is non-empty and equals the
   unpadded URL-safe base64 of the MD5 digest - the whole string, not a prefix. *)
Theorem C51_securelink_iff_checksum_and_fresh : forall he expires checksum digest now,
  secure_link he expires checksum digest now = 0 <-> link_valid he expires checksum digest now = true.
Proof. exact securelink_iff. Qed.
Print Assumptions C51_securelink_iff_checksum_and_fresh.

(* Basic: forwarded iff the header is "Basic <base64(user:password)>" (prefix case-insensitive), the user is in
   the rule's table and the presented password matches that user's stored hash. *)
Theorem C51_basic_iff_hash_matches : forall auth decoded users,
  basic_accept auth decoded users = true <->
  exists u, basic_user auth decoded = Some u /\ lookup_user users u = Some true.
Proof. exact basic_iff. Qed.
Print Assumptions C51_basic_iff_hash_matches.

(* Block: a connection from an address in the global table is refused; a request is closed iff the first rule
   (global product first, then the request's product) whose condition matches and whose command is ALLOW/CLOSE
   says CLOSE. *)
Theorem C51_block_refuses : forall g p,
  global_block true = true /\
  product_block g p = match decisive g with Some c => c =? 1 | None =>
                      match decisive p with Some c => c =? 1 | None => false end end.
Proof. exact block_refuses. Qed.
Print Assumptions C51_block_refuses.

(* Central theorem.  wf_C51 i: the input decodes into one of the four operations and a Basic user table has unique
   names.  Outside the known-finding class (kf_C51 i = 2: JWT with a zero / non-numeric time claim) the executable
   property predicate evaluated on the implementation - forwarded iff not covered by a rule or valid in the statement's
   sense; secure link accepted iff checksum and freshness; block verdicts - holds of the model. *)
Theorem C51_prop_of_model : forall i, wf_C51 i = true -> kf_C51 i = 0 -> prop_C51 i (run_C51 i) = true.
Proof. exact prop_C51_of_model. Qed.
Print Assumptions C51_prop_of_model.

(* a corpus case (corpus/C51/basics.case, link-prefix: checksum one character short) is well-formed and rejected *)
Example C51_wf_example :
  let i := VL [VZ 3; VZ 0; VB []; VB (firstn 21 (b64url (repeat 7 16))); VB (repeat 7 16); VZ 0; VB []; VB []; VB []; VZ 0] in
  wf_C51 i = true /\ kf_C51 i = 0 /\ run_C51 i = VZ 4.
Proof. exact C51_wf_example_lemma. Qed.

(* Non-vacuity: an expired token is rejected although its signature verifies; a link whose checksum is a
   proper prefix of the right one is rejected (code 4). *)
Example C51_example :
  jwt_accept (BEARER ++ [32; 120]) false 1 {| c_exp := CNum 99; c_iat := CAbsent; c_nbf := CAbsent |} 100
             [{| k_kty := 0; k_alg := 1; k_sig_ok := true |}] = false /\
  secure_link false [] (firstn 21 (b64url (repeat 7 16))) (repeat 7 16) 0 = 4 /\
  secure_link false [] (b64url (repeat 7 16)) (repeat 7 16) 0 = 0.
Proof. exact C51_example_lemma. Qed.
