(* C46: PROXY protocol headers are parsed per specification.  Property theorems only. *)
From Coq Require Import List ZArith Bool.
From Bfe Require Import lib.Val lib.Bytes model.ProxyProto run.RunC46.
Import ListNotations.
Open Scope Z_scope.

Example C46_placeholder : run_C46 (VZ 0) = VErr 0.
Proof. exact eq_refl. Qed.
Print Assumptions C46_placeholder.
