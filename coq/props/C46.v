(* C46: PROXY protocol headers are parsed per specification.  Property theorems only.
   Model: model/ProxyProto.v = bfe_proxy header.go/v1.go/v2.go/conn.go after the repairs (see known_findings/C46.txt),
   running over a chunk-level model of bfe_bufio.Reader + io.LimitedReader: `chunks` is what successive Reads of the
   socket return, `limit` the configured maximum header size (0 = 2048). conn_run returns the observation
   [RemoteAddr-or-[] ; VirtualAddr-or-[] ; bytes the application reads ; final error (0 = EOF) ; closed-by-BFE]. *)
From Coq Require Import List ZArith Bool.
From Bfe Require Import lib.Val lib.Bytes model.ProxyProto proofs.ProxyProtoProofs run.RunC46.
Import ListNotations.
Open Scope Z_scope.

(* C46_v2_proxy_roundtrip (incl. split delivery): for every v2 PROXY header the specification's encoder produces for
   TCP or UDP over IPv4 (family byte 0x11/0x12, 4-byte addresses) or IPv6 (0x21/0x22, 16-byte addresses), with ANY
   trailing TLV bytes, followed by ANY payload, delivered in ANY chunking (stream <= 4096 bytes, header within the
   limit): BFE reports exactly the advertised source and destination address and port, hands the application exactly
   the payload, then EOF, and does not close the connection. *)
Theorem C46_v2_proxy_roundtrip : forall tmo limit chunks os od fam src dst sp dp tlv payload,
  concat chunks = enc_v2_proxy fam src dst sp dp tlv ++ payload ->
  blen (concat chunks) <= 4096 ->
  ((fam = 17 \/ fam = 18) /\ blen src = 4 /\ blen dst = 4) \/ ((fam = 33 \/ fam = 34) /\ blen src = 16 /\ blen dst = 16) ->
  0 <= sp < 65536 -> 0 <= dp < 65536 ->
  16 + blen (block_ip src dst sp dp ++ tlv) <= eff_limit limit ->
  conn_run tmo limit chunks os od =
  VL [VL [VB (canon_ip src); VZ sp]; VL [VB (canon_ip dst); VZ dp; VZ 1]; VB payload; VZ 0; VZ 0].
Proof. exact v2_proxy_roundtrip. Qed.
Print Assumptions C46_v2_proxy_roundtrip.

(* C46_v2_local (full statement, holds after repair 7f2f9a2/3df2ce0; it was refuted before: 3+ header bytes reached the
   application and the connection was closed): for every v2 LOCAL header (any family byte, any address block and
   TLVs, which the receiver must skip), any payload and any chunking, the socket addresses are kept and the
   application receives exactly the payload. *)
Theorem C46_v2_local : forall tmo limit chunks os od fam block tlv payload,
  concat chunks = enc_v2 32 fam block tlv ++ payload ->
  blen (concat chunks) <= 4096 ->
  16 + blen (block ++ tlv) <= eff_limit limit ->
  conn_run tmo limit chunks os od = VL [VL []; VL []; VB payload; VZ 0; VZ 0].
Proof. exact v2_local_roundtrip. Qed.
Print Assumptions C46_v2_local.

(* C46_v1_roundtrip, TCP4: for every v1 line "PROXY TCP4 <src> <dst> <sport> <dport>\r\n" the specification's encoder
   produces (dotted-decimal addresses of 4 well-formed bytes, decimal ports), any payload, any chunking: exactly the
   advertised addresses and ports are reported and exactly the payload is delivered. *)
Theorem C46_v1_tcp4_roundtrip : forall tmo limit chunks os od src dst sp dp payload,
  concat chunks = enc_v1_tcp4 src dst sp dp ++ payload ->
  blen (concat chunks) <= 4096 ->
  blen src = 4 -> blen dst = 4 -> wf_bytes src = true -> wf_bytes dst = true ->
  0 <= sp < 65536 -> 0 <= dp < 65536 ->
  blen (enc_v1_tcp4 src dst sp dp) <= eff_limit limit ->
  conn_run tmo limit chunks os od = VL [VL [VB src; VZ sp]; VL [VB dst; VZ dp; VZ 1]; VB payload; VZ 0; VZ 0].
Proof. exact v1_tcp4_roundtrip. Qed.
Print Assumptions C46_v1_tcp4_roundtrip.

(* C46_v1_roundtrip, TCP6: IPv6 text parsing is not modelled: os/od are what net.ParseIP answers for the two address
   tokens (oracle, supplied and validated by the harness).  For every line "PROXY TCP6 <ta> <tb> <sport> <dport>\r\n"
   whose address tokens contain ':' (and no space/LF) and are accepted by ParseIP, exactly ParseIP's addresses
   (IPv4-mapped ones in 4-byte form, as net.IP prints them) and the ports are reported, payload unchanged. *)
Theorem C46_v1_tcp6_roundtrip : forall tmo limit chunks os od ta tb sp dp payload,
  concat chunks = enc_v1_tcp6 ta tb sp dp ++ payload ->
  blen (concat chunks) <= 4096 ->
  existsb (Z.eqb 32) ta = false -> existsb (Z.eqb 10) ta = false -> has_colon ta = true ->
  existsb (Z.eqb 32) tb = false -> existsb (Z.eqb 10) tb = false -> has_colon tb = true ->
  os <> [] -> od <> [] ->
  0 <= sp < 65536 -> 0 <= dp < 65536 ->
  blen (enc_v1_tcp6 ta tb sp dp) <= eff_limit limit ->
  conn_run tmo limit chunks os od = VL [VL [VB (canon_ip os); VZ sp]; VL [VB (canon_ip od); VZ dp; VZ 1]; VB payload; VZ 0; VZ 0].
Proof. exact v1_tcp6_roundtrip. Qed.
Print Assumptions C46_v1_tcp6_roundtrip.

(* C46_v1_roundtrip, UNKNOWN (full statement, holds after repairs 53d0ae6/3df2ce0; refuted before: the short form was
   malformed for BFE and the long form closed the connection): "PROXY UNKNOWN\r\n", or "PROXY UNKNOWN <anything
   without LF>\r\n", keeps the socket addresses and delivers exactly the payload. *)
Theorem C46_v1_unknown_roundtrip : forall tmo limit chunks os od junk payload,
  concat chunks = enc_v1_unknown junk ++ payload ->
  blen (concat chunks) <= 4096 ->
  (junk = [] \/ exists j, junk = 32 :: j) -> existsb (Z.eqb 10) junk = false ->
  blen (enc_v1_unknown junk) <= eff_limit limit ->
  conn_run tmo limit chunks os od = VL [VL []; VL []; VB payload; VZ 0; VZ 0].
Proof. exact v1_unknown_roundtrip. Qed.
Print Assumptions C46_v1_unknown_roundtrip.

(* C46_no_header_passthrough_partial: a stream whose first byte is neither 'P' nor CR is passed through untouched in
   any chunking.  (Full statement "no signature => untouched" is refuted for short streams starting with 'P'/CR:
   known finding 1, kf_C46.) *)
Theorem C46_no_header_passthrough_partial : forall tmo limit chunks os od b rest,
  concat chunks = b :: rest -> b <> 80 -> b <> 13 -> blen (concat chunks) <= 4096 ->
  conn_run tmo limit chunks os od = VL [VL []; VL []; VB (b :: rest); VZ 0; VZ 0].
Proof. exact no_header_passthrough. Qed.
Print Assumptions C46_no_header_passthrough_partial.

(* ... and the same for streams that do start with 'P' or CR but are not a signature, as soon as 12 bytes can be
   read (stream and header limit >= 12).  Together with the previous theorem this covers every signature-less
   stream outside the finding class kf_C46 = 1 (short_sig_first). *)
Theorem C46_no_header_passthrough_sig_partial : forall tmo limit chunks os od,
  is_prefix SIGV1 (concat chunks) = false -> is_prefix SIGV2 (concat chunks) = false ->
  12 <= blen (concat chunks) -> 12 <= eff_limit limit -> blen (concat chunks) <= 4096 ->
  conn_run tmo limit chunks os od = VL [VL []; VL []; VB (concat chunks); VZ 0; VZ 0].
Proof. exact no_header_passthrough_sig. Qed.
Print Assumptions C46_no_header_passthrough_sig_partial.

(* C46_no_header_passthrough_refuted (known finding 1): "PUT" followed by EOF carries no signature, yet the
   application receives nothing and the connection is closed. *)
Theorem C46_no_header_passthrough_refuted :
  exists chunks, spec_classify 0 [] [] (concat chunks) = SNoHeader
                 /\ conn_run false 0 chunks [] [] = VL [VL []; VL []; VB []; VZ 0; VZ 1]
                 /\ short_sig_first 0 (concat chunks) = true.
Proof. exact no_header_refuted_lemma. Qed.
Print Assumptions C46_no_header_passthrough_refuted.

(* C46_malformed_no_data: whenever the header reader reports an error (malformed or truncated header, header longer
   than the limit), the application receives no byte, the addresses stay the socket's, and the connection is closed. *)
Theorem C46_malformed_no_data : forall tmo limit chunks os od code r',
  proxy_read os od (mkRd [] (ne_filter chunks) (eff_limit limit) 0 false (end_of tmo)) = (RErr code, r') ->
  conn_run tmo limit chunks os od = VL [VL []; VL []; VB []; VZ code; VZ 1].
Proof. exact malformed_no_data. Qed.
Print Assumptions C46_malformed_no_data.

(* The executable property the harness evaluates on the implementation (prop_C46: an independent classifier of the
   stream written from proxy-protocol.txt, compared with the observation) holds of the model on every conformant
   v2 PROXY header in any chunking, and such an input never belongs to a known-finding class. *)
Theorem C46_prop_of_model_v2_proxy : forall tmo limit chunks os od fam src dst sp dp tlv payload,
  concat chunks = enc_v2_proxy fam src dst sp dp tlv ++ payload ->
  blen (concat chunks) <= 4096 ->
  ((fam = 17 \/ fam = 18) /\ blen src = 4 /\ blen dst = 4) \/ ((fam = 33 \/ fam = 34) /\ blen src = 16 /\ blen dst = 16) ->
  0 <= sp < 65536 -> 0 <= dp < 65536 ->
  16 + blen (block_ip src dst sp dp ++ tlv) <= eff_limit limit ->
  prop_C46 (in_C46 tmo limit chunks os od) (run_C46 (in_C46 tmo limit chunks os od)) = true
  /\ kf_C46 (in_C46 tmo limit chunks os od) = 0.
Proof. exact prop_C46_v2_proxy. Qed.
Print Assumptions C46_prop_of_model_v2_proxy.

(* CENTRAL THEOREM (partial; the guard is stated): for every well-formed input (wf_C46: decodable, stream <= 4096
   bytes, limit 0..4000) outside the finding classes (kf_C46 = 0) whose stream the specification classifies as "no
   header" or "receiver's choice" (guard_C46), the property predicate evaluated by the harness holds of the model's
   output.  For the class "conformant header" the same is proved per encoder below and above (v2 PROXY, v2 LOCAL,
   v1 TCP4, v1 UNKNOWN); the class "malformed => refused" is not proved for all inputs (only C46_malformed_no_data). *)
Theorem C46_central_partial : forall i,
  wf_C46 i = true -> kf_C46 i = 0 -> guard_C46 i = true -> prop_C46 i (run_C46 i) = true.
Proof. exact central_general. Qed.
Print Assumptions C46_central_partial.

Theorem C46_prop_of_model_v2_local : forall tmo limit chunks os od fam block tlv payload,
  concat chunks = enc_v2 32 fam block tlv ++ payload ->
  blen (concat chunks) <= 4096 ->
  16 + blen (block ++ tlv) <= eff_limit limit ->
  prop_C46 (in_C46 tmo limit chunks os od) (run_C46 (in_C46 tmo limit chunks os od)) = true
  /\ kf_C46 (in_C46 tmo limit chunks os od) = 0.
Proof. exact prop_C46_v2_local. Qed.
Print Assumptions C46_prop_of_model_v2_local.

Theorem C46_prop_of_model_v1_tcp4 : forall tmo limit chunks os od src dst sp dp payload,
  concat chunks = enc_v1_tcp4 src dst sp dp ++ payload ->
  blen (concat chunks) <= 4096 ->
  blen src = 4 -> blen dst = 4 -> wf_bytes src = true -> wf_bytes dst = true ->
  0 <= sp < 65536 -> 0 <= dp < 65536 ->
  blen (enc_v1_tcp4 src dst sp dp) <= eff_limit limit ->
  prop_C46 (in_C46 tmo limit chunks os od) (run_C46 (in_C46 tmo limit chunks os od)) = true
  /\ kf_C46 (in_C46 tmo limit chunks os od) = 0.
Proof. exact prop_C46_v1_tcp4. Qed.
Print Assumptions C46_prop_of_model_v1_tcp4.

Theorem C46_prop_of_model_v1_unknown : forall tmo limit chunks os od junk payload,
  concat chunks = enc_v1_unknown junk ++ payload ->
  blen (concat chunks) <= 4096 ->
  (junk = [] \/ exists j, junk = 32 :: j) -> existsb (Z.eqb 10) junk = false ->
  blen (enc_v1_unknown junk) <= eff_limit limit ->
  prop_C46 (in_C46 tmo limit chunks os od) (run_C46 (in_C46 tmo limit chunks os od)) = true
  /\ kf_C46 (in_C46 tmo limit chunks os od) = 0.
Proof. exact prop_C46_v1_unknown. Qed.
Print Assumptions C46_prop_of_model_v1_unknown.

(* a generated corpus-style case (a header-less "GET /\r\n" in two chunks, silent peer) satisfies wf, guard, kf = 0;
   the worked v2 example is well-formed *)
Example C46_central_nonvacuous :
  wf_C46 (VL [VZ 0; VL [VB [71; 69; 84; 32]; VB [47; 13; 10]]; VB []; VB []; VZ 1]) = true
  /\ guard_C46 (VL [VZ 0; VL [VB [71; 69; 84; 32]; VB [47; 13; 10]]; VB []; VB []; VZ 1]) = true
  /\ kf_C46 (VL [VZ 0; VL [VB [71; 69; 84; 32]; VB [47; 13; 10]]; VB []; VB []; VZ 1]) = 0
  /\ wf_C46 (in_C46 false 0 ex_chunks_v2 [] []) = true.
Proof. exact central_examples. Qed.

(* Non-vacuity / concrete instances, incl. v1 (TCP4 delivered byte by byte, and the short UNKNOWN form). *)
Example C46_ex_v2 :
  concat ex_chunks_v2 = enc_v2_proxy 17 [1; 2; 3; 4] [5; 6; 7; 8] 80 443 [9; 9; 9] ++ [104; 105]
  /\ conn_run false 0 ex_chunks_v2 [] [] = VL [VL [VB [1; 2; 3; 4]; VZ 80]; VL [VB [5; 6; 7; 8]; VZ 443; VZ 1]; VB [104; 105]; VZ 0; VZ 0].
Proof. exact ex_v2_lemma. Qed.
Example C46_ex_local :
  concat ex_chunks_local = enc_v2 32 0 [] [] ++ [71; 69; 84]
  /\ conn_run false 0 ex_chunks_local [] [] = VL [VL []; VL []; VB [71; 69; 84]; VZ 0; VZ 0].
Proof. exact ex_local_lemma. Qed.
Example C46_ex_v1 :
  conn_run false 0 (map (fun b => [b]) ex_v1) [] [] = VL [VL [VB [1; 2; 3; 4]; VZ 80]; VL [VB [5; 6; 7; 8]; VZ 443; VZ 1]; VB [104; 105]; VZ 0; VZ 0]
  /\ conn_run false 0 [enc_v1_unknown [] ++ [104; 105]] [] [] = VL [VL []; VL []; VB [104; 105]; VZ 0; VZ 0].
Proof. exact ex_v1_lemma. Qed.
Example C46_ex_malformed :
  conn_run false 0 [[13; 10; 13; 10; 0; 13; 10; 81; 85; 73; 84; 10; 34; 17; 0; 0; 104; 105]] [] [] = VL [VL []; VL []; VB []; VZ 2; VZ 1].
Proof. exact ex_malformed_lemma. Qed.
