(* C39: SPDY frames round-trip and parsing is robust.  Property theorems only. *)
From Coq Require Import List ZArith Bool.
From Bfe Require Import lib.Val lib.Bytes model.SpdyFrame proofs.SpdyFrameProofs run.RunC39.
Import ListNotations.
Open Scope Z_scope.

(* Round trip of the header value block (the layer directly below zlib; with inflate(deflate x) = x the
   same bytes reach the reader).  For every list of at most 1024 header entries (name, ToLower(name),
   values) -- ANY names, including non-ASCII ones whose lower-casing changes their byte length; ent_ok only
   asks that ToLower is stable on its own output and that the lengths fit the 32-bit fields -- parseHeaderValueBlock applied to what writeHeaderValueBlock wrote,
   followed by any further bytes `rest`: never fails with an I/O error, consumes exactly the block
   (the remaining input is `rest`), and returns exactly the headers obtained by Header.Add of every
   NUL-separated value under the lower-cased name (spec_step), with error DuplicateHeaders (11) only
   if a lower-cased name was already present as a key. *)
Theorem C39_block_roundtrip : forall es rest,
  forallb ent_ok es = true -> (length es <= 1024)%nat ->
  parse_block rd_plain (write_block es ++ rest) =
  let '(h', e', hl', mx') := fold_left spec_step es ([], 0, 0, 4) in
  if e' =? 0 then PDone h' (u32 (hl' + Z.of_nat (length es) * 4)) 0 rest mx' else PDone h' 0 e' rest mx'.
Proof. exact parse_block_written. Qed.
Print Assumptions C39_block_roundtrip.

(* Non-vacuity: three headers including a non-ASCII name whose lower-casing keeps its length. *)
Example C39_block_roundtrip_example :
  forallb ent_ok w_ok = true /\
  parse_block rd_plain (write_block w_ok) =
  PDone [([65;99;99;101;112;116], [[103;122]; [100]]); ([58;112;97;116;104], [[47]]); ([195;169], [[49]])] 31 0 [] 6.
Proof. exact w_ok_lemma. Qed.

(* The header name "İx" (3 bytes, ToLower = "ix", 2 bytes) could not be read back before the fix in /repo
   (writeHeaderValueBlock wrote len(name) BEFORE lower-casing); it is now inside the theorem's domain. *)
Example C39_roundtrip_Ix :
  go_lower [196; 176; 120] = Some [105; 120] /\ forallb ent_ok w_Ix = true /\
  parse_block rd_plain (write_block w_Ix) = PDone [([73; 120], [[118]])] 7 0 [] 4.
Proof. exact Ix_roundtrip_lemma. Qed.

(* Framer level, fixed-size control frames: what WriteFrame writes for a valid RST_STREAM / PING /
   WINDOW_UPDATE / GOAWAY is read back by ReadFrame with the same fields (version 3, flags 0, the codec's
   length), consuming exactly 8 + length bytes and leaving any following bytes `rest` untouched. *)
Theorem C39_rst_stream_roundtrip : forall sid st rest cs,
  0 < sid < 2^31 -> 0 < st < 2^32 ->
  read_frame (st_at (fst (write_frame (FRst sid st)) ++ rest) 0 cs) =
  (VL [VZ 3; VZ 3; VZ 0; VZ 8; VZ sid; VZ st], st_at rest 16 cs).
Proof. exact rst_roundtrip. Qed.
Print Assumptions C39_rst_stream_roundtrip.
Theorem C39_ping_roundtrip : forall id rest cs,
  0 < id < 2^32 ->
  read_frame (st_at (fst (write_frame (FPing id)) ++ rest) 0 cs) =
  (VL [VZ 6; VZ 3; VZ 0; VZ 4; VZ id], st_at rest 12 cs).
Proof. exact ping_roundtrip. Qed.
Print Assumptions C39_ping_roundtrip.
Theorem C39_window_update_roundtrip : forall sid d rest cs,
  0 <= sid < 2^31 -> 0 <= d < 2^31 ->
  read_frame (st_at (fst (write_frame (FWindow sid d)) ++ rest) 0 cs) =
  (VL [VZ 9; VZ 3; VZ 0; VZ 8; VZ sid; VZ d], st_at rest 16 cs).
Proof. exact window_update_roundtrip. Qed.
Print Assumptions C39_window_update_roundtrip.
Theorem C39_goaway_roundtrip : forall last st rest cs,
  0 <= last < 2^31 -> 0 <= st < 2^32 ->
  read_frame (st_at (fst (write_frame (FGoAway last st)) ++ rest) 0 cs) =
  (VL [VZ 7; VZ 3; VZ 0; VZ 8; VZ last; VZ st], st_at rest 16 cs).
Proof. exact goaway_roundtrip. Qed.
Print Assumptions C39_goaway_roundtrip.

(* Allocation is not bounded by the input (known finding 2): a 12-byte block makes
   parseHeaderValueBlock request a buffer of 2^26 bytes (make([]byte, length) with the 32-bit length field). *)
Theorem C39_alloc_refuted :
  exists c s, parse_block rd_plain w_alloc = PIo c s (2^26) /\ blen w_alloc = 12.
Proof. exact alloc_refuted_lemma. Qed.
Print Assumptions C39_alloc_refuted.

(* Frame boundaries are lost (known finding 3): the length field of fixed-size control frames is ignored.
   An RST_STREAM declaring length 12 is returned after 16 bytes instead of 8+12 and the next frame is
   read from the middle of its payload. *)
Theorem C39_boundaries_refuted :
  hd (VZ 0) (read_stream 8 (init_state w_bound [])) = VL [VL [VZ 3; VZ 3; VZ 0; VZ 12; VZ 1; VZ 5]; VZ 16]
  /\ bounds_ok w_bound 0 (read_stream 8 (init_state w_bound [])) = false.
Proof. exact boundaries_refuted_lemma. Qed.
Print Assumptions C39_boundaries_refuted.

(* ... and for a SYN_STREAM with length 4 the byte limit handed to the header decompressor,
   uint32(length - 10), wraps to 4294967290, so the decompressor may swallow the following frames. *)
Theorem C39_underflow_limit : u32 (4 - 10) = 4294967290.
Proof. exact underflow_lemma. Qed.
Print Assumptions C39_underflow_limit.

(* Length fields (no wrap).  The 24-bit length shares a 32-bit word with the flags byte
   (uint32(flags)<<24 | length).  For every flags byte and every length below 2^24 the written word decodes
   back to exactly (flags, length); this covers every control frame header the Framer writes whose
   payload is shorter than 2^24 bytes (SETTINGS with fewer than 2^21 entries; header-bearing frames whose
   compressed block is shorter than 2^24 - 10 resp. 2^24 - 4 bytes). *)
Theorem C39_length_field_exact : forall flags len,
  0 <= flags < 256 -> 0 <= len < 2^24 ->
  lenword flags len = flags * 2^24 + len /\ lenword flags len / 2^24 = flags /\ lenword flags len mod 2^24 = len.
Proof. exact lenword_exact. Qed.
Print Assumptions C39_length_field_exact.

(* DATA frames: WriteFrame accepts a DATA frame only if its payload has at most 2^24 - 1 bytes
   (MaxDataLength), and then writes stream id, flags and exactly the payload length followed by the payload;
   a longer payload is refused and nothing is written. *)
Theorem C39_data_frame_length_exact : forall sid flags data b,
  0 <= flags < 256 -> write_frame (FData sid flags data) = (b, None) -> b <> [] ->
  blen data <= 2^24 - 1 /\ b = be32 sid ++ be32 (flags * 2^24 + blen data) ++ data.
Proof. exact write_data_frame_exact. Qed.
Print Assumptions C39_data_frame_length_exact.
Theorem C39_data_frame_too_long_rejected : forall sid flags len,
  2^24 - 1 < len -> exists c, data_header sid flags len = inl c.
Proof. exact data_header_rejects. Qed.
Print Assumptions C39_data_frame_too_long_rejected.

(* The control-frame writers have no such check (known finding 4): with a payload of 2^24 bytes, or a
   SETTINGS frame with 2^21 entries, the length runs into the flags byte. *)
Theorem C39_control_length_wraps :
  lenword 0 (2^24) / 2^24 = 1 /\ lenword 0 (2^24) mod 2^24 = 0 /\ lenword 0 (u32 (2097152 * 8 + 4)) / 2^24 = 1.
Proof. exact control_length_wraps. Qed.
Print Assumptions C39_control_length_wraps.
