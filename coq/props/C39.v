(* C39: SPDY frames round-trip and parsing is robust.  Property theorems only. *)
From Coq Require Import List ZArith Bool.
From Bfe Require Import lib.Val lib.Bytes model.SpdyFrame proofs.SpdyFrameProofs run.RunC39.
Import ListNotations.
Open Scope Z_scope.

(* Round trip of the header value block (the layer directly below zlib; with inflate(deflate x) = x the
   same bytes reach the reader).  For every list of at most 1024 header entries (name, ToLower(name),
   values) -- ANY names, including non-ASCII ones whose lower-casing changes their byte length; ent_ok only
   asks that ToLower is stable on its own output and that the lengths fit the 32-bit fields -- parseHeaderValueBlock applied to what writeHeaderValueBlock wrote,
   followed by any further bytes `rest`: never fails with an I/O error, consumes exactly the block
   (the remaining input is `rest`), and returns exactly the headers obtained by Header.Add of every
   NUL-separated value under the lower-cased name (spec_step), with error DuplicateHeaders (11) only
   if a lower-cased name was already present as a key. *)
Theorem C39_block_roundtrip : forall es rest,
  forallb ent_ok es = true -> (length es <= 1024)%nat ->
  parse_block rd_plain (write_block es ++ rest) =
  let '(h', e', hl', mx') := fold_left spec_step es ([], 0, 0, 4) in
  if e' =? 0 then PDone h' (u32 (hl' + Z.of_nat (length es) * 4)) 0 rest mx' else PDone h' 0 e' rest mx'.
Proof. exact parse_block_written. Qed.
Print Assumptions C39_block_roundtrip.

(* Non-vacuity: three headers including a non-ASCII name whose lower-casing keeps its length. *)
Example C39_block_roundtrip_example :
  forallb ent_ok w_ok = true /\
  parse_block rd_plain (write_block w_ok) =
  PDone [([65;99;99;101;112;116], [[103;122]; [100]]); ([58;112;97;116;104], [[47]]); ([195;169], [[49]])] 31 0 [] 6.
Proof. exact w_ok_lemma. Qed.

(* The header name "İx" (3 bytes, ToLower = "ix", 2 bytes) could not be read back before the fix in /repo
   (writeHeaderValueBlock wrote len(name) BEFORE lower-casing); it is now inside the theorem's domain. *)
Example C39_roundtrip_Ix :
  go_lower [196; 176; 120] = Some [105; 120] /\ forallb ent_ok w_Ix = true /\
  parse_block rd_plain (write_block w_Ix) = PDone [([73; 120], [[118]])] 7 0 [] 4.
Proof. exact Ix_roundtrip_lemma. Qed.

(* Framer level, fixed-size control frames: what WriteFrame writes for a valid RST_STREAM / PING /
   WINDOW_UPDATE / GOAWAY is read back by ReadFrame with the same fields (version 3, flags 0, the codec's
   length), consuming exactly 8 + length bytes and leaving any following bytes `rest` untouched. *)
Theorem C39_rst_stream_roundtrip : forall sid st rest cs,
  0 < sid < 2^31 -> 0 < st < 2^32 ->
  read_frame (st_at (fst (write_frame (FRst sid st)) ++ rest) 0 cs) =
  (VL [VZ 3; VZ 3; VZ 0; VZ 8; VZ sid; VZ st], st_at rest 16 cs).
Proof. exact rst_roundtrip. Qed.
Print Assumptions C39_rst_stream_roundtrip.
Theorem C39_ping_roundtrip : forall id rest cs,
  0 < id < 2^32 ->
  read_frame (st_at (fst (write_frame (FPing id)) ++ rest) 0 cs) =
  (VL [VZ 6; VZ 3; VZ 0; VZ 4; VZ id], st_at rest 12 cs).
Proof. exact ping_roundtrip. Qed.
Print Assumptions C39_ping_roundtrip.
Theorem C39_window_update_roundtrip : forall sid d rest cs,
  0 <= sid < 2^31 -> 0 <= d < 2^31 ->
  read_frame (st_at (fst (write_frame (FWindow sid d)) ++ rest) 0 cs) =
  (VL [VZ 9; VZ 3; VZ 0; VZ 8; VZ sid; VZ d], st_at rest 16 cs).
Proof. exact window_update_roundtrip. Qed.
Print Assumptions C39_window_update_roundtrip.
Theorem C39_goaway_roundtrip : forall last st rest cs,
  0 <= last < 2^31 -> 0 <= st < 2^32 ->
  read_frame (st_at (fst (write_frame (FGoAway last st)) ++ rest) 0 cs) =
  (VL [VZ 7; VZ 3; VZ 0; VZ 8; VZ last; VZ st], st_at rest 16 cs).
Proof. exact goaway_roundtrip. Qed.
Print Assumptions C39_goaway_roundtrip.

(* alloc_bounded (after the /repo fix 604820b; it was refuted before: a 12-byte block requested 2^26 bytes):
   for ANY reader (plain bytes or the header decompressor) and ANY input, every buffer parseHeaderValueBlock
   asks for has at most 4096 bytes (mx is the largest request in the model's allocation log). *)
Theorem C39_alloc_bounded : forall (T : Type) (rd : Z -> T -> rres T) (s : T),
  mx_of (parse_block rd s) <= 4096.
Proof. exact @parse_block_mx. Qed.
Print Assumptions C39_alloc_bounded.
Example C39_alloc_example :
  exists c s, parse_block rd_plain w_alloc = PIo c s 4096 /\ blen w_alloc = 12.
Proof. exact alloc_example_lemma. Qed.

(* boundaries, former witnesses (fixed in 604820b): an RST_STREAM declaring length 12 and a SYN_STREAM
   declaring length 4 (uint32(4 - 10) used to be handed to the decompressor) are refused with
   InvalidControlFrame after the 8 header bytes; reading stops (BFE closes the session on any ReadFrame error). *)
Example C39_boundaries_rst12 : read_stream 8 (init_state w_bound []) = [VL [v_serr 14 0; VZ 8]].
Proof. exact bound_example_lemma. Qed.
Example C39_boundaries_syn4 : read_stream 8 (init_state w_short []) = [VL [v_serr 14 0; VZ 8]].
Proof. exact short_example_lemma. Qed.

(* Length fields (no wrap).  The 24-bit length shares a 32-bit word with the flags byte
   (uint32(flags)<<24 | length).  For every flags byte and every length below 2^24 the written word decodes
   back to exactly (flags, length); this covers every control frame header the Framer writes whose
   payload is shorter than 2^24 bytes (SETTINGS with fewer than 2^21 entries; header-bearing frames whose
   compressed block is shorter than 2^24 - 10 resp. 2^24 - 4 bytes). *)
Theorem C39_length_field_exact : forall flags len,
  0 <= flags < 256 -> 0 <= len < 2^24 ->
  lenword flags len = flags * 2^24 + len /\ lenword flags len / 2^24 = flags /\ lenword flags len mod 2^24 = len.
Proof. exact lenword_exact. Qed.
Print Assumptions C39_length_field_exact.

(* DATA frames: WriteFrame accepts a DATA frame only if its payload has at most 2^24 - 1 bytes
   (MaxDataLength), and then writes stream id, flags and exactly the payload length followed by the payload;
   a longer payload is refused and nothing is written. *)
Theorem C39_data_frame_length_exact : forall sid flags data b,
  0 <= flags < 256 -> write_frame (FData sid flags data) = (b, None) -> b <> [] ->
  blen data <= 2^24 - 1 /\ b = be32 sid ++ be32 (flags * 2^24 + blen data) ++ data.
Proof. exact write_data_frame_exact. Qed.
Print Assumptions C39_data_frame_length_exact.
Theorem C39_data_frame_too_long_rejected : forall sid flags len,
  2^24 - 1 < len -> exists c, data_header sid flags len = inl c.
Proof. exact data_header_rejects. Qed.
Print Assumptions C39_data_frame_too_long_rejected.

(* Beyond the bound the word would wrap (length 2^24 reads back as flags 1, length 0), which is why the
   writers now refuse such frames (SETTINGS with more than 1024 entries, header blocks of 2^24 - 10 / - 4 bytes
   and more; see write_frame). *)
Example C39_control_length_would_wrap :
  lenword 0 (2^24) / 2^24 = 1 /\ lenword 0 (2^24) mod 2^24 = 0 /\ lenword 0 (u32 (2097152 * 8 + 4)) / 2^24 = 1.
Proof. exact control_length_wraps. Qed.

(* boundaries (full, after the /repo fix 604820b; refuted before): for EVERY byte stream w (bytes in 0..255) and
   EVERY inflate oracle cs, every frame Framer.ReadFrame returns while reading w from the start -- up to the
   first error, after which BFE closes the session -- has consumed exactly 8 + its declared length bytes;
   bounds_ok is the predicate the harness evaluates on the implementation's own (result, offset) trace. *)
Theorem C39_boundaries : forall w cs fuel,
  wf_bytes w = true -> bounds_ok w 0 (read_stream fuel (init_state w cs)) = true.
Proof.
  intros w cs fuel Hw. apply (read_stream_bounds w Hw fuel (init_state w cs)).
  split; [apply Z.le_refl | reflexivity].
Qed.
Print Assumptions C39_boundaries.
(* single frame form: a returned frame (tag >= 0) moved the reader by exactly 8 + length *)
Theorem C39_frame_boundary : forall w st v st',
  sfx w st -> wf_bytes w = true -> read_frame st = (v, st') -> is_frame v = true ->
  sfx w st' /\ exists l, hdr_len w (off st) = Some l /\ off st' = off st + 8 + l.
Proof. exact read_frame_boundary. Qed.
Print Assumptions C39_frame_boundary.

(* Central theorem on the sub-language of raw inputs (operation 2: any header block bytes within the
   tabulated ToLower; operation 4: any wire and any oracle): the executable property holds on the model's
   own observation; kf_C39 is constantly 0 since all findings are repaired.  Operations 1, 3, 5, 6, 7
   (write-then-read round trips) are covered by C39_block_roundtrip, the *_roundtrip theorems and the
   length-field theorems but not by this statement. *)
Theorem C39_central_partial : forall i, wf_C39 i = true -> kf_C39 i = 0 -> prop_C39 i (run_C39 i) = true.
Proof. exact central_partial. Qed.
Print Assumptions C39_central_partial.
Example C39_central_wf_example :
  wf_C39 (VL [VZ 4; VB w_bound; VL []]) = true /\ wf_C39 (VL [VZ 2; VZ 1; VB w_alloc]) = true.
Proof. exact wf_example. Qed.

(* Framer level round trips of the variable-size frames without a header block: what WriteFrame writes for a
   DATA frame (any payload up to 2^24 - 1 bytes, at any wire offset o) and for a SETTINGS frame (up to 1024
   entries with 8-bit flags, 24-bit ids, 32-bit values) is read back by ReadFrame with exactly the same fields,
   consuming exactly the frame and leaving the following bytes `rest` untouched. *)
Theorem C39_data_roundtrip : forall sid flags data rest o cs,
  0 < sid < 2^31 -> 0 <= flags < 256 -> blen data <= 2^24 - 1 ->
  read_frame (st_at (fst (write_frame (FData sid flags data)) ++ rest) o cs) =
  (VL [VZ 0; VZ sid; VZ flags; VB data], st_at rest (o + 8 + blen data) cs).
Proof. exact data_roundtrip. Qed.
Print Assumptions C39_data_roundtrip.
Theorem C39_settings_roundtrip : forall flags l rest cs,
  0 <= flags < 256 -> (length l <= 1024)%nat -> forallb set_ok l = true ->
  read_frame (st_at (fst (write_frame (FSettings flags l)) ++ rest) 0 cs) =
  (VL [VZ 4; VZ 3; VZ flags; VZ (Z.of_nat (length l) * 8 + 4); VL (map set_val l)],
   st_at rest (12 + 8 * Z.of_nat (length l)) cs).
Proof. exact settings_roundtrip. Qed.
Print Assumptions C39_settings_roundtrip.

(* Header-bearing frame through the shared (de)compression context, with the oracle "chunk 0 at offset 12
   inflates to the written block" (i.e. inflate(deflate x) = x): a SYN_REPLY with ANY header entries
   (ent_ok, at most 1024, block shorter than 2^24 - 4) whose lower-cased names are pairwise distinct (e' = 0)
   and not in the forbidden set, written by WriteFrame and read by a fresh Framer, is returned with the same
   flags and stream id and exactly the headers obtained by Header.Add of every value (spec_step). *)
Theorem C39_syn_reply_roundtrip : forall flags sid es rest,
  0 <= flags < 256 -> 0 < sid < 2^31 -> forallb ent_ok es = true -> (length es <= 1024)%nat ->
  blen (write_block es) + 4 < 2^24 ->
  let b := write_block es in
  let '(h', e', hl', mx') := fold_left spec_step es ([], 0, 0, 4) in
  e' = 0 -> has_invalid invalid_resp h' = false ->
  fst (read_frame (st_at (fst (write_frame (FReply flags sid es)) ++ rest) 0
                         [{| c_idx := 0; c_off := 12; c_size := blen b; c_plain := b |}]))
  = VL [VZ 2; VZ 3; VZ flags; VZ (blen b + 4); VZ sid; v_headers h'].
Proof. exact syn_reply_roundtrip. Qed.
Print Assumptions C39_syn_reply_roundtrip.

(* The same for the other two header-bearing frames: SYN_STREAM (with its associated stream id, 3-bit priority
   and slot; request header rules and the :path limit of 8192 bytes) and HEADERS. *)
Theorem C39_syn_stream_roundtrip : forall flags sid assoc prio slot es rest,
  0 <= flags < 256 -> 0 < sid < 2^31 -> 0 <= assoc < 2^31 -> 0 <= prio < 8 -> 0 <= slot < 256 ->
  forallb ent_ok es = true -> (length es <= 1024)%nat ->
  blen (write_block es) + 10 < 2^24 ->
  let b := write_block es in
  let '(h', e', hl', mx') := fold_left spec_step es ([], 0, 0, 4) in
  e' = 0 -> has_invalid invalid_req h' = false -> url_too_long h' = false ->
  fst (read_frame (st_at (fst (write_frame (FSyn flags sid assoc prio slot es)) ++ rest) 0
                         [{| c_idx := 0; c_off := 18; c_size := blen b; c_plain := b |}]))
  = VL [VZ 1; VZ 3; VZ flags; VZ (blen b + 10); VZ sid; VZ assoc; VZ prio; VZ slot; v_headers h'].
Proof. exact syn_stream_roundtrip. Qed.
Print Assumptions C39_syn_stream_roundtrip.
Theorem C39_headers_roundtrip : forall flags sid es rest,
  0 <= flags < 256 -> 0 < sid < 2^31 -> forallb ent_ok es = true -> (length es <= 1024)%nat ->
  blen (write_block es) + 4 < 2^24 ->
  let b := write_block es in
  let '(h', e', hl', mx') := fold_left spec_step es ([], 0, 0, 4) in
  e' = 0 -> has_invalid (if sid mod 2 =? 0 then invalid_req else invalid_resp) h' = false -> url_too_long h' = false ->
  fst (read_frame (st_at (fst (write_frame (FHeaders flags sid es)) ++ rest) 0
                         [{| c_idx := 0; c_off := 12; c_size := blen b; c_plain := b |}]))
  = VL [VZ 8; VZ 3; VZ flags; VZ (blen b + 4); VZ sid; v_headers h'].
Proof. exact headers_roundtrip. Qed.
Print Assumptions C39_headers_roundtrip.
