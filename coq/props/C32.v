From Coq Require Import List ZArith Bool.
From Bfe Require Import lib.Val model.H2Frame run.RunC32.
Import ListNotations.
Open Scope Z_scope.
Example C32_placeholder : enc32 65535 = [0; 0; 255; 255].
Proof. exact eq_refl. Qed.
Print Assumptions C32_placeholder.
