(* C32: HTTP/2 frames round-trip and malformed frames are rejected.  Property theorems only.
   Vocabulary (model/H2Frame.v): `wcmd` = one call of Framer.WriteData(Padded)/WriteHeaders/WritePriority/
   WriteRSTStream/WriteSettings/WriteSettingsAck/WritePushPromise/WritePing/WriteGoAway/WriteWindowUpdate/
   WriteContinuation with its parameters; `write_cmd c` = the bytes the call puts on the wire (None: the call
   returned an error); `expected c` = the frame (type, flags, stream, length, payload fields) the parameters
   describe; `read_frame maxread lhs bs` = one Framer.ReadFrame call on the wire bytes bs with
   SetMaxReadFrameSize(maxread) and lastHeaderStream = lhs, giving (result, new lastHeaderStream, remaining
   bytes); `must_reject` = the frame-level MUST rules of RFC 7540 4.2, 6.1-6.10 as a predicate on
   (header, payload, reader state). *)
From Coq Require Import List ZArith Bool.
From Bfe Require Import lib.Val lib.ValProofs model.H2Frame proofs.H2FrameProofs run.RunC32.
Import ListNotations.
Open Scope Z_scope.

(* Round trip, all ten frame types: for every Write call with legal parameters (wf_cmd: stream ids 1..2^31-1
   where required, bytes in 0..255, pad <= 255, SETTINGS values valid per 6.5.2, ...) other than HEADERS with an
   empty fragment, whatever follows on the wire (rest), if the frame fits the reader's limit and is in order,
   ReadFrame returns exactly the frame described by the parameters - identical type, flags, stream, length
   and payload fields - and leaves `rest` unread. *)
Theorem C32_roundtrip : forall c bytes h b maxread lhs lhs' rest,
  wf_cmd c = true -> empty_headers c = false ->
  write_cmd c = Some bytes -> expected c = Some (h, b) ->
  blen bytes < 16777216 -> h_len h <= maxread -> check_order lhs h = Some lhs' ->
  read_frame maxread lhs (bytes ++ rest) = (ROk h b, lhs', rest).
Proof. exact roundtrip_all. Qed.
Print Assumptions C32_roundtrip.

(* The excluded class is a genuine round-trip failure (known finding 1): WriteHeaders writes a HEADERS frame with
   an empty header block fragment, ReadFrame answers StreamError(PROTOCOL_ERROR). *)
Theorem C32_roundtrip_refuted :
  wf_cmd (WHeaders 1 [] false true 0 0 false 0) = true /\
  exists bytes, write_cmd (WHeaders 1 [] false true 0 0 false 0) = Some bytes /\
                read_frame 16777215 0 bytes = (RStream 1 1, 0, []).
Proof. exact empty_headers_refuted. Qed.
Print Assumptions C32_roundtrip_refuted.

(* Rules: whenever ReadFrame accepts a frame from ANY byte stream, the frame is the one announced by the 9 header
   bytes, its payload has the announced length, does not exceed the maximum read size, and violates none of the
   MUST rules: stream-0 restrictions (DATA/HEADERS/PRIORITY/RST_STREAM/PUSH_PROMISE/CONTINUATION need a stream,
   SETTINGS/PING/GOAWAY must be on stream 0), padding < remaining payload, fixed sizes of PRIORITY/RST_STREAM/
   PING/WINDOW_UPDATE, GOAWAY >= 8, SETTINGS length multiple of 6 and empty with ACK, non-zero WINDOW_UPDATE
   increment, CONTINUATION exactly after an unfinished header block of the same stream. *)
Theorem C32_rules : forall maxread lhs bs h b lhs' rest,
  bytes_ok bs = true ->
  read_frame maxread lhs bs = (ROk h b, lhs', rest) ->
  h = parse_hdr bs /\ h_len h <= maxread /\
  let p := takeZ (h_len h) (dropZ 9 bs) in
  blen p = h_len h /\ rest = dropZ (h_len h) (dropZ 9 bs) /\
  must_reject maxread lhs h p = false.
Proof. exact read_frame_ok_rules. Qed.
Print Assumptions C32_rules.

(* SETTINGS values: a frame written from valid settings carries none the server's Setting.Valid rejects, and a
   first INITIAL_WINDOW_SIZE above 2^31-1 is refused by ReadFrame itself (part of C32_roundtrip's SETTINGS case). *)
Theorem C32_settings_values : forall l fuel,
  forallb setting_ok l = true -> (length l <= fuel)%nat ->
  settings_vcode fuel (flat_map enc_setting l) = 0 /\
  match settings_value fuel (flat_map enc_setting l) 4 with Some v => v <= 2147483647 | None => True end.
Proof. exact settings_ok_gen. Qed.
Print Assumptions C32_settings_values.

(* Central statement over the wire functions, for whole command sequences: for every well-formed input (wf_C32: the
   wire is made of bytes and shorter than 2^24 octets, the reading loop has fuel, legal frames fit the read limit)
   outside the known-finding class, the predicate the harness evaluates on the implementation's observation -
   rules along the whole stream (rules_ok) and exact round trip of legal Write sequences incl. HEADERS/CONTINUATION
   order (expect_all) - holds of the model's own output. *)
Theorem C32_prop_of_model : forall i, wf_C32 i = true -> kf_C32 i = 0 -> prop_C32 i (run_C32 i) = true.
Proof. exact prop_C32_of_model. Qed.
Print Assumptions C32_prop_of_model.

(* Sequence round trip on its own: legal Write calls (none with an empty HEADERS fragment), read back with the
   maximum read size, give exactly the described frames in order, a PROTOCOL_ERROR at the first HEADERS/CONTINUATION
   order violation, and EOF at the end; no Write call fails. *)
Theorem C32_roundtrip_sequence : forall cs fuel lhs,
  forallb wf_cmd cs = true -> existsb empty_headers cs = false -> forallb len_ok cs = true ->
  blen (fst (write_all cs)) < 16777216 -> (length cs < fuel)%nat ->
  read_all fuel 16777215 lhs (fst (write_all cs)) = expect_all lhs cs /\
  forallb (fun e => e =? 0) (snd (write_all cs)) = true.
Proof. exact read_all_written. Qed.
Print Assumptions C32_roundtrip_sequence.

(* wf_C32 holds of generated cases (a HEADERS+CONTINUATION+PING round trip; a raw stream with small read limit). *)
Example C32_wf_examples :
  wf_C32 (VL [VZ 16777215; VL [VL [VZ 1; VZ 3; VB [130; 134]; VZ 1; VZ 0; VZ 2; VZ 1; VZ 1; VZ 200];
                               VL [VZ 9; VZ 3; VZ 1; VB [1; 2]]; VL [VZ 6; VZ 0; VB [1;2;3;4;5;6;7;8]]]]) = true /\
  wf_C32 (VL [VZ 8; VL [VL [VZ 11; VB [0; 0; 5; 2; 0; 0; 0; 0; 1; 1; 2; 3; 4; 5]]; VL [VZ 10; VZ 8; VZ 0; VZ 0; VB [0; 0; 0; 0]]]]) = true.
Proof. exact wf_C32_example. Qed.

(* Non-vacuity *)
Example C32_roundtrip_example :
  let c := WHeaders 3 [130; 134] true false 2 1 true 200 in
  wf_cmd c = true /\ empty_headers c = false /\
  exists bytes, write_cmd c = Some bytes /\
    read_frame 16384 0 (bytes ++ [9; 9]) =
      (ROk (mkh 1 41 3 10) (BHeaders 1 true 200 [130; 134]), 3, [9; 9]).
Proof. exact roundtrip_example. Qed.
Example C32_rules_example :
  must_reject 16384 0 (mkh 0 8 1 3) [3; 1; 2] = true /\ must_reject 16384 0 (mkh 4 0 0 5) [0; 1; 0; 0; 0] = true /\
  must_reject 16384 5 (mkh 0 0 5 0) [] = true /\ must_reject 16384 0 (mkh 0 8 1 3) [2; 1; 2] = false.
Proof. exact rules_example. Qed.
