(* C09: balancer reload keeps surviving state and releases removed targets once.  Property theorems only.
   Model: model/Reload.v (BalTableReload -> BalanceGslb.Reload / BackendReload -> BalanceRR.Update).
   Every backend object carries krel = how often its closeChan was closed; a second close panics in Go and is `None`
   in the model.  clean = never released, once = released exactly once.
   tbl_inv t = every backend reachable from the table is clean and every object that left the table is `once`. *)
From Coq Require Import List ZArith Bool.
From Bfe Require Import lib.Val model.Reload run.RunC09 proofs.ReloadProofs.
Import ListNotations.
Open Scope Z_scope.

(* One table reload, for every gslb conf, every backend conf and every table satisfying the invariant: the reload
   does not panic (nothing is closed twice) and re-establishes the invariant (released objects are unreachable, hence
   never selected again) - also when a BalanceGslb.Reload returns its "total weight = 0" error. *)
Theorem C09_reload_preserves : forall gs bc t, tbl_inv t ->
  exists t' gerr err, table_reload gs bc t = Some (t', gerr, err) /\ tbl_inv t'.
Proof. exact table_reload_inv. Qed.
Print Assumptions C09_reload_preserves.

(* Every history of reloads and backend state changes starting from the empty table: no operation panics and the
   invariant holds after each (no guard on the confs). *)
Theorem C09_release_at_most_once : forall ops,
  Forall (fun st => exists t', st = Some t' /\ tbl_inv t') (states tbl0 ops).
Proof. intros ops. exact (history_inv ops tbl0 tbl0_inv). Qed.
Print Assumptions C09_release_at_most_once.

(* BalanceRR.Update keeps the very object of every backend whose address is still configured: availability,
   connection and failure counters, name and release count are untouched, only the weight is rewritten
   (addresses in a list are distinct). *)
Theorem C09_kept_state : forall c l k rel, update_rr c l = Some (k, rel) -> NoDup (map kaddr l) ->
  forall b n w, In b l -> conf_last (kaddr b) c None = Some (n, w) -> In (set_weight b w) k.
Proof. exact update_keeps_state. Qed.
Print Assumptions C09_kept_state.

(* A sub-cluster that stays in the gslb conf keeps its backend objects verbatim through BalanceGslb.Reload
   (only its weight is rewritten). *)
Theorem C09_kept_subcluster : forall g l m nl rel m' s w, reload_gslb g l m = Some (nl, rel, false, m') ->
  In s l -> gfind (sname s) g = Some w -> In (mkSub (sname s) w (sbks s)) nl.
Proof. exact gslb_keeps. Qed.
Print Assumptions C09_kept_subcluster.

(* The whole BalTableReload keeps the very object of every backend whose cluster, sub-cluster and address persist:
   kept_image = the same record (availability, counters, name, release count) with the configured weight, or untouched
   when the backend conf does not mention its cluster / sub-cluster; the sub-cluster gets its configured weight. *)
Theorem C09_kept_state_table : forall gs bc t t' err c g s w b b',
  table_reload gs bc t = Some (t', false, err) ->
  cfind (cname c) (clus t) = Some c -> In (cname c, g) gs ->
  In s (csubs c) -> gfind (sname s) g = Some w ->
  In b (sbks s) -> NoDup (map kaddr (sbks s)) ->
  kept_image bc (cname c) (sname s) b = Some b' ->
  exists c' s', In c' (clus t') /\ cname c' = cname c /\ In s' (csubs c') /\ sname s' = sname s /\
                sweight s' = w /\ In b' (sbks s').
Proof. exact table_keeps. Qed.
Print Assumptions C09_kept_state_table.

(* A newly configured address gets a fresh backend that is available, never released, with the configured weight
   (the last entry of a duplicated address wins). *)
Theorem C09_added_selectable : forall c l k rel a n w, update_rr c l = Some (k, rel) ->
  conf_last a c None = Some (n, w) -> ~ In a (map kaddr l) ->
  In (mkBk a n (w * 100) true 0 0 0) k.
Proof. exact update_adds. Qed.
Print Assumptions C09_added_selectable.

(* What BalanceGslb.Balance can return after a reload (model of subClusterBalance over every hash residue + the
   eligible backends of the chosen sub-cluster; `meta_fresh` = totalWeight / single / avail are the values Reload
   computes from the sorted list, which C09_reload_fresh_shortcuts shows for every successful Reload): EXACTLY the
   available positive-weight backends of the positive-weight sub-clusters.  So an added sub-cluster / backend becomes
   selectable and a drained (weight 0), removed or unavailable one is never selected - in particular through the
   `single` short-cut, whose index must refer to the sorted list. *)
Theorem C09_selected_exact : forall c x, meta_fresh c -> 0 < pos_total (csubs c) ->
  (In x (fst (selected c)) <->
   exists s b, In s (csubs c) /\ sweight s > 0 /\ In b (sbks s) /\ bk_eligible b = true /\ x = sel_code s b).
Proof. exact selected_exact. Qed.
Print Assumptions C09_selected_exact.
Theorem C09_reload_fresh_shortcuts : forall g l m nl rel m', reload_gslb g l m = Some (nl, rel, false, m') ->
  meta_fresh (mkClu 0 nl m').
Proof. exact reload_gslb_fresh. Qed.
Print Assumptions C09_reload_fresh_shortcuts.

(* Wire level, release clauses of prop_C09 (obs_core: no panic observation, no closed backend in the dump, orphans =
   closed orphans): hold of the model run for every well-formed input.
   (The kept-state and configured=present clauses of prop_C09 are tied on the implementation by the harness and
   proved at model level for BalanceRR.Update above, not at wire level.) *)
Theorem C09_prop_of_model_partial : forall i, dec_in i <> None ->
  match run_C09 i with VL obs => forallb obs_core obs = true | _ => False end.
Proof. exact model_core. Qed.
Print Assumptions C09_prop_of_model_partial.

(* Non-vacuity / the repaired error path: reload 2 of err_hist has total weight 0; Reload reports the error, keeps both
   sub-clusters and releases nothing; reload 3 then removes sub-cluster 0 and releases its backend once.
   (Before /repo commit "fix: BalanceGslb.Reload releases vanished sub clusters only after the total weight check"
   reload 2 left a released backend in the table and reload 3 panicked.) *)
Example C09_gslb_error_path :
  match states tbl0 err_hist with
  | [Some t1; Some t2; Some t3] =>
      map (fun t => map sname (flat_map csubs (clus t))) [t1; t2; t3] = [[0; 1]; [0; 1]; [1]] /\
      map (fun t => length (orphans t)) [t1; t2; t3] = [0; 0; 1]%nat /\
      map snd (run_rops tbl0 err_hist) = [false; true; false]
  | _ => False
  end.
Proof. exact err_path_example. Qed.
Example C09_ex_start : tbl_inv tbl0.
Proof. exact tbl0_inv. Qed.
