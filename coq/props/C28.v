(* C28: keep-alive connections stay in sync.  Property theorems only.
   Model: KeepAlive.v (conn.serve loop, Expect handling, body draining) over the response writer of Http1Resp.v. *)
From Coq Require Import List ZArith Bool.
From Bfe Require Import lib.Val lib.Bytes model.Http1Resp model.KeepAlive run.RunC28 proofs.KeepAliveProofs.
Import ListNotations.
Open Scope Z_scope.

(* Responses are in request order, exactly one handler output per request, and body bytes are never read as a
   request.  Let the client send the requests b1 b2 .. bn back to back, each of them self-delimiting
   (frames b r: whatever follows b, the request reader finds request r and the position after r's body is exactly
   the first byte after b - body bytes may look like requests).  Then, for every handler script table, every
   content-type sniffer / clock and both the code before and after the Expect fix (fx), the bytes the modelled
   conn.serve loop writes are the concatenation, in order, of the output of the handler of r1, of r2, ... up to and
   including the first request after which the server closes the connection (outputs); nothing else is written. *)
Theorem C28_in_order_at_most_one_final :
  forall sniff now fx bs rs, Forall2 frames bs rs ->
  forall scripts fuel, (length rs < fuel)%nat ->
  serve sniff now fx fuel scripts (concat bs) = outputs sniff now fx scripts rs.
Proof. exact serve_in_order. Qed.
Print Assumptions C28_in_order_at_most_one_final.

(* Non-vacuity: a POST whose 79-byte body is itself a complete "GET /evil" request, followed by a real GET: both
   are self-delimiting, and the POST's body length is the length of the embedded request. *)
Example C28_in_order_nonvacuous :
  Forall2 frames [ex_b1; ex_b2] [ex_r1; ex_r2] /\ r_framing ex_r1 = RLen 79 /\ r_framing ex_r2 = RLen 0.
Proof. exact ex_in_order. Qed.

(* The server closes when it cannot tell where the next request starts (1): a malformed request head is answered
   with the bare "HTTP/1.1 400 Bad Request" and nothing after it is read or answered. *)
Theorem C28_close_when_unknown :
  forall sniff now fx scripts fuel s, read_request s = RBad ->
  serve sniff now fx (S fuel) scripts s = Some s_bad_request.
Proof. exact serve_bad. Qed.
Print Assumptions C28_close_when_unknown.

(* The server closes when it cannot tell where the next request starts (2), the singled-out scenario: an HTTP/1.1
   request with "Expect: 100-continue" and a body (Content-Length <> 0 or chunked) whose handler answers without
   reading the body (module response, Close or Finish verdict; not forwarded to a backend).  No "100 Continue"
   is sent, so the client may withhold the body: after the /repo fix (fix_expect = true) the loop stops after this
   request (stop flag true), whatever the response is. *)
Theorem C28_expect_without_continue_closes :
  forall sniff now scripts r sc,
  has_token (get_ci s_expect (r_fields r)) s_100c = true -> 1 <= r_minor r ->
  (match r_framing r with RLen n => negb (n =? 0) | RChunked => true end) = true ->
  find_script (get_ci s_spec (r_fields r)) scripts = Some sc ->
  h_read sc = 0 -> h_src sc <> 1 ->
  forall body_err, exists out, serve_one sniff now true scripts r body_err = Some (out, true).
Proof. exact expect_without_continue_closes. Qed.
Print Assumptions C28_expect_without_continue_closes.

(* The code before the /repo fix refuted the property: a request with "Expect: 100-continue" and Content-Length: 40
   whose body the client withholds, answered by a module response; the connection was kept alive and
   finishRequest drained 40 bytes of the client's NEXT request as if they were the body: the next request was
   answered "400 Bad Request".  On the same input the fixed code satisfies the property. *)
Theorem C28_old_expect_without_continue_refuted :
  exists i, dec_C28 i <> None /\
    prop_C28 i (old_output_of i) = false /\ prop_C28 i (run_C28 i) = true.
Proof. exact old_expect_refuted. Qed.
Print Assumptions C28_old_expect_without_continue_refuted.
