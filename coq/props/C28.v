(* C28: keep-alive connections stay in sync.  Property theorems only.
   Model: KeepAlive.v (conn.serve loop, Expect handling, body draining) over the response writer of Http1Resp.v. *)
From Coq Require Import List ZArith Bool.
From Bfe Require Import lib.Val lib.Bytes model.Http1Resp model.KeepAlive run.RunC27 run.RunC28 proofs.Http1RespProofs proofs.KeepAliveProofs.
Import ListNotations.
Open Scope Z_scope.

(* Responses are in request order, exactly one handler output per request, and body bytes are never read as a
   request.  Let the client send the requests b1 b2 .. bn back to back, each of them self-delimiting
   (frames b r: whatever follows b, the request reader finds request r and the position after r's body is exactly
   the first byte after b - body bytes may look like requests).  Then, for every handler script table, every
   content-type sniffer / clock and both the code before and after the Expect fix (fx), the bytes the modelled
   conn.serve loop writes are the concatenation, in order, of the output of the handler of r1, of r2, ... up to and
   including the first request after which the server closes the connection (outputs); nothing else is written. *)
Theorem C28_in_order_at_most_one_final :
  forall sniff now fx bs rs, Forall2 frames bs rs ->
  forall scripts fuel, (length rs < fuel)%nat ->
  serve sniff now fx fuel scripts (concat bs) = outputs sniff now fx scripts rs.
Proof. exact serve_in_order. Qed.
Print Assumptions C28_in_order_at_most_one_final.

(* Non-vacuity: a POST whose 79-byte body is itself a complete "GET /evil" request, followed by a real GET: both
   are self-delimiting, and the POST's body length is the length of the embedded request. *)
Example C28_in_order_nonvacuous :
  Forall2 frames [ex_b1; ex_b2] [ex_r1; ex_r2] /\ r_framing ex_r1 = RLen 79 /\ r_framing ex_r2 = RLen 0.
Proof. exact ex_in_order. Qed.

(* The server closes when it cannot tell where the next request starts (1): a malformed request head is answered
   with the bare "HTTP/1.1 400 Bad Request" and nothing after it is read or answered. *)
Theorem C28_close_when_unknown :
  forall sniff now fx scripts fuel s, read_request s = RBad ->
  serve sniff now fx (S fuel) scripts s = Some s_bad_request.
Proof. exact serve_bad. Qed.
Print Assumptions C28_close_when_unknown.

(* The server closes when it cannot tell where the next request starts (2), the singled-out scenario: an HTTP/1.1
   request with "Expect: 100-continue" and a body (Content-Length <> 0 or chunked) whose handler answers without
   reading the body (module response, Close or Finish verdict; not forwarded to a backend).  No "100 Continue"
   is sent, so the client may withhold the body: after the /repo fix (fix_expect = true) the loop stops after this
   request (stop flag true), whatever the response is. *)
Theorem C28_expect_without_continue_closes :
  forall sniff now scripts r sc,
  has_token (get_ci s_expect (r_fields r)) s_100c = true -> 1 <= r_minor r ->
  (match r_framing r with RLen n => negb (n =? 0) | RChunked => true end) = true ->
  find_script (get_ci s_spec (r_fields r)) scripts = Some sc ->
  h_read sc = 0 -> h_src sc <> 1 ->
  forall body_err, exists out, serve_one sniff now true scripts r body_err = Some (out, true).
Proof. exact expect_without_continue_closes. Qed.
Print Assumptions C28_expect_without_continue_closes.

(* The code before the /repo fix refuted the property: a request with "Expect: 100-continue" and Content-Length: 40
   whose body the client withholds, answered by a module response; the connection was kept alive and
   finishRequest drained 40 bytes of the client's NEXT request as if they were the body: the next request was
   answered "400 Bad Request".  On the same input the fixed code satisfies the property. *)
Theorem C28_old_expect_without_continue_refuted :
  exists i, dec_C28 i <> None /\
    prop_C28 i (old_output_of i) = false /\ prop_C28 i (run_C28 i) = true.
Proof. exact old_expect_refuted. Qed.
Print Assumptions C28_old_expect_without_continue_refuted.

(* The same for the second /repo fix (95fd21d): a POST whose chunked body starts with a 17-hex-digit size line
   directly followed by a complete "GET /evil" request.  The old code ignored the error of draining the body, kept
   the connection alive and answered the embedded request (200, X-Req: evil): request smuggling.  The fixed
   code closes the connection after the response to the POST. *)
Theorem C28_old_corrupt_chunk_refuted :
  exists i, dec_C28 i <> None /\
    prop_C28 i (old_output_of i) = false /\ prop_C28 i (run_C28 i) = true.
Proof. exact old_corrupt_chunk_refuted. Qed.
Print Assumptions C28_old_corrupt_chunk_refuted.

(* Central statement, sub-language: the client's requests are self-delimiting (frames), of kind 0 (well formed and
   complete, bodies with Content-Length or chunked framing of any content), without an Expect field, and each is
   handled by a module response (src 0; any body-consumption mode) that echoes the request id, has a well-formed
   header and a consistent supplier, status 200..599 (good_req).  Then the executable property prop_C28 - the
   one evaluated on the real server's bytes on every run - accepts the bytes the modelled conn.serve loop writes:
   every response is complete, in request order, names its request, and the next response starts exactly where
   the previous one ends (this uses C27_parses_as_one for every response with the rest of the pipeline as tail). *)
Theorem C28_prop_of_model_partial :
  forall i crs ss rqs,
  dec_C28 i = Some (crs, ss) -> Forall2 frames (map c_bytes crs) rqs -> Forall2 (good_req ss) crs rqs ->
  prop_C28 i (run_C28 i) = true.
Proof. exact prop_of_model_C28_partial. Qed.
Print Assumptions C28_prop_of_model_partial.

(* Non-vacuity: the POST whose body is a complete GET request followed by a real GET, answered by module responses. *)
Example C28_prop_of_model_nonvacuous :
  Forall2 frames (map c_bytes ex_crs) [ex_r1; ex_r2] /\ Forall2 (good_req ex_scripts) ex_crs [ex_r1; ex_r2].
Proof. exact prop_of_model_C28_nonvacuous. Qed.
