(* C25: requests forwarded to backends cannot be split or injected.  Property theorems only.
   Model: model/Http1Write.v -- write_request = Request.write (request line, Host line, Content-Length /
   Transfer-Encoding line, Header.WriteSubset: keys sorted, values with CR/LF -> SP and trimmed, raw keys,
   body / re-chunked body); accepted = the request each frontend hands over (HTTP/1: ReadRequest model of
   C24; HTTP/2: readMetaFrame + checkPseudos + newWriterAndRequest; SPDY: parseHeaderValueBlock +
   readSynStreamFrame checks + newWriterAndRequest); strict_parse = strict reference parser (CRLF only, token
   method and names, request-target without SP/CTL, exactly one Host, RFC framing, nothing after the body). *)
From Coq Require Import List ZArith Bool.
From Bfe Require Import lib.Val lib.Bytes model.Http1Req model.Http1Write proofs.Http1WriteProofs run.RunC25.
Import ListNotations.
Open Scope Z_scope.

(* Round trip: for EVERY accepted request r that is safe (method is a token; request-target non-empty
   without SP/CTL; Host without CR/LF; every forwarded field name a token) and well-formed (header keys in
   canonical form as the frontends store them; body absent, or Content-Length n with exactly n bytes,
   0 < n < 10^80, or chunked with every chunk shorter than 16^16 bytes), the bytes written to the backend
   parse, with the strict reference parser, as exactly one request, and it is the accepted one: same method,
   target, Host, same forwarded fields in key order with sanitised values, same body; nothing follows it.
   No field value whatsoever (CR, LF, NUL, ...) can add fields or messages. *)
Theorem C25_one_wellformed_request : forall r,
  safe_request r = true -> wf_wreq r = true ->
  strict_parse (write_request r) = Some (normalize r).
Proof. exact C25_one_wellformed_request_lemma. Qed.
Print Assumptions C25_one_wellformed_request.

(* Every frontend (HTTP/1 ReadRequest, HTTP/2, SPDY models) stores header keys in canonical form. *)
Theorem C25_frontends_canonical : forall i r,
  accepted i = inr r -> forallb canon_ok (w_fields r) = true.
Proof. exact frontends_canonical. Qed.
Print Assumptions C25_frontends_canonical.

(* After the repairs (/repo c496926, 505d2ce, 4b75bc7, d4ea2c7: Request.write validates method, request-target, Host and
   field names before writing anything) a request that is not safe is never written: the model of
   Request.Write returns the error code and no bytes. *)
Theorem C25_unsafe_refused : forall i r,
  accepted i = inr r -> safe_request r = false -> run_C25 i = VL [VZ 2; VB []].
Proof. exact C25_unsafe_refused_lemma. Qed.
Print Assumptions C25_unsafe_refused.

(* CENTRAL THEOREM (full, no finding class left: kf_C25 = 0 everywhere): for every well-formed input on
   every frontend -- HTTP/1 byte stream, HTTP/2 field list, SPDY pair list; wf_C25 = the value is
   well-shaped and the accepted request's body, if any, is one the model frames -- the model's output
   satisfies the property the harness evaluates on the implementation: either nothing is written
   (rejected by the frontend, refused by Request.write) or exactly the accepted request is written. *)
Theorem C25_central : forall i,
  wf_C25 i = true -> kf_C25 i = 0 -> prop_C25 i (run_C25 i) = true.
Proof. exact C25_central_lemma. Qed.
Print Assumptions C25_central.

(* The nine former witnesses (HTTP/1 method "G(T", Host with bare CR, name "X A"; HTTP/2 :method "GET /x",
   :path "/a b"; SPDY CR LF in :method, SP in :path, CR LF in :host, CR LF in a header name) now produce no
   bytes at all: rejected by ReadRequest (code 1) or refused by Request.write (code 2). *)
Theorem C25_fixed :
  refused w11 1 /\ refused w13 2 /\ refused w14 1 /\ refused w21 2 /\ refused w22 2 /\
  refused w31 2 /\ refused w32 2 /\ refused w33 2 /\ refused w34 2.
Proof. exact C25_fixed_lemma. Qed.
Print Assumptions C25_fixed.

(* ---- transport level: several requests through one bfe_http.Transport with keep-alive (model run_transport of
   getConn / putIdleConn / roundTrip / readLoop / writeLoop + markBroken) ---- *)
(* For ALL scenarios: a backend connection that is not usable any more (its last request write failed or was
   cut short of the declared Content-Length, or the response said "Connection: close") never receives
   another byte: the streams of all existing connections are preserved verbatim, later requests only add
   new connections after them. *)
Theorem C25_transport_no_reuse : forall steps conns last,
  exists more, run_transport steps (conns ++ [last]) false = conns ++ [last] ++ more.
Proof. exact C25_transport_no_reuse_lemma. Qed.
Print Assumptions C25_transport_no_reuse.
(* A connection stays usable only after a step whose bytes are the complete write_request of a request with
   a well-formed body (declared = delivered length) -- exactly the requests C25_one_wellformed_request
   covers; so what precedes any later request on a connection is a sequence of complete requests. *)
Theorem C25_transport_kept_is_complete : forall st, step_keeps st = true ->
  step_bytes st = write_request (step_req st (t_delivered st)) /\
  body_wf (w_body (step_req st (t_delivered st))) = true \/ t_declared st = 0 \/ 10 ^ 80 <= t_declared st.
Proof. exact C25_transport_kept_is_complete_lemma. Qed.
Print Assumptions C25_transport_kept_is_complete.
(* The scenario of seeded/C25-r4 (early answer, body ends after 4 of 10 bytes, then a second request): two
   connections, both acceptable to the stream predicate the harness evaluates; the spliced stream a
   connection-reusing transport produces is rejected by it; three complete requests share one connection. *)
Example C25_transport_demo :
  length (run_transport sc_demo [] false) = 2%nat /\
  forallb (fun s => seq_ok (S (length s)) s) (run_transport sc_demo [] false) = true.
Proof. exact C25_transport_demo_lemma. Qed.
Example C25_transport_splice_rejected : seq_ok (S (length spliced_demo)) spliced_demo = false.
Proof. exact C25_transport_splice_rejected_lemma. Qed.
Example C25_transport_keepalive :
  length (run_transport sc_keepalive [] false) = 1%nat /\
  forallb (fun s => seq_ok (S (length s)) s) (run_transport sc_keepalive [] false) = true.
Proof. exact C25_transport_keepalive_lemma. Qed.

(* Non-vacuity: per frontend a safe, well-formed accepted request (HTTP/1 POST with a 3-byte body and a
   value containing a bare CR; HTTP/2 with two cookies and an HTAB value; SPDY with a NUL-separated value
   containing CR LF "Evil: 1"; HTTP/1 chunked POST with two chunks and a trailer) for which the written
   bytes satisfy the property; each also satisfies wf_C25. *)
Example C25_nonvacuous : nonvac ok1 /\ nonvac ok2 /\ nonvac ok3 /\ nonvac ok4.
Proof. exact C25_nonvacuous_lemma. Qed.
Example C25_wf_examples : wf_C25 ok1 = true /\ wf_C25 ok2 = true /\ wf_C25 ok3 = true /\ wf_C25 ok4 = true /\ wf_C25 w31 = true.
Proof. exact C25_wf_examples_lemma. Qed.
