(* C25: requests forwarded to backends cannot be split or injected.  Property theorems only.
   Model: model/Http1Write.v -- write_request = Request.write (request line, Host line, Content-Length /
   Transfer-Encoding line, Header.WriteSubset: keys sorted, values with CR/LF -> SP and trimmed, raw keys,
   body / re-chunked body); accepted = the request each frontend hands over (HTTP/1: ReadRequest model of
   C24; HTTP/2: readMetaFrame + checkPseudos + newWriterAndRequest; SPDY: parseHeaderValueBlock +
   readSynStreamFrame checks + newWriterAndRequest); strict_parse = strict reference parser (CRLF only, token
   method and names, request-target without SP/CTL, exactly one Host, RFC framing, nothing after the body). *)
From Coq Require Import List ZArith Bool.
From Bfe Require Import lib.Val lib.Bytes model.Http1Req model.Http1Write proofs.Http1WriteProofs run.RunC25.
Import ListNotations.
Open Scope Z_scope.

(* Headline (guarded): for EVERY accepted request r that is safe (method is a token; request-target non-empty
   without SP/CTL; Host without CR/LF; every forwarded field name a token) and well-formed (header keys in
   canonical form as the frontends store them; body absent, or Content-Length n with exactly n bytes,
   0 < n < 10^80, or chunked with every chunk shorter than 16^16 bytes), the bytes written to the backend parse, with the strict reference parser, as exactly one
   request, and it is the accepted one: same method, target, Host, same forwarded fields in key order with
   sanitised values, same body; nothing follows it.  No field value whatsoever (CR, LF, NUL, ...) can add
   fields or messages. *)
Theorem C25_one_wellformed_request : forall r,
  safe_request r = true -> wf_wreq r = true ->
  strict_parse (write_request r) = Some (normalize r).
Proof. exact C25_one_wellformed_request_lemma. Qed.
Print Assumptions C25_one_wellformed_request.

(* The same through the executable predicates the harness evaluates on the implementation's output. *)
Theorem C25_prop_of_model : forall i r,
  accepted i = inr r -> safe_request r = true -> wf_wreq r = true ->
  prop_C25 i (run_C25 i) = true.
Proof. exact C25_prop_of_model_lemma. Qed.
Print Assumptions C25_prop_of_model.

(* Every frontend (HTTP/1 ReadRequest, HTTP/2, SPDY models) stores header keys in canonical form, so the
   canonical-key part of wf_wreq holds for every accepted request ... *)
Theorem C25_frontends_canonical : forall i r,
  accepted i = inr r -> forallb canon_ok (w_fields r) = true.
Proof. exact frontends_canonical. Qed.
Print Assumptions C25_frontends_canonical.

(* ... hence: for every input on every frontend whose accepted request is safe and whose body is absent,
   Content-Length framed (0 < n < 10^80, n bytes) or chunked (chunks < 16^16 bytes), the property holds
   of the modelled output. *)
Theorem C25_prop_of_model_strong : forall i r,
  accepted i = inr r -> safe_request r = true -> body_ok (w_body r) = true ->
  prop_C25 i (run_C25 i) = true.
Proof. exact C25_prop_of_model_strong_lemma. Qed.
Print Assumptions C25_prop_of_model_strong.

(* The frontends do NOT establish safe_request: one accepted-and-written witness per class
   (frontend*10 + component; 1 method, 2 target, 3 host, 4 field name).  HTTP/1: method "G(T", Host with a
   bare CR, name "X A".  HTTP/2: :method "GET /x", :path "/a b".  SPDY: CR LF in :method, SP in :path,
   CR LF in :host, CR LF in a header name.  Each confirmed on the real code (corpus/C25/witness.case). *)
Theorem C25_frontend_establishes_safe_refuted :
  refuted25 w11 11 /\ refuted25 w13 13 /\ refuted25 w14 14 /\ refuted25 w21 21 /\ refuted25 w22 22 /\
  refuted25 w31 31 /\ refuted25 w32 32 /\ refuted25 w33 33 /\ refuted25 w34 34.
Proof. exact C25_refuted_lemma. Qed.
Print Assumptions C25_frontend_establishes_safe_refuted.

(* Non-vacuity: per frontend a safe, well-formed accepted request (HTTP/1 POST with a 3-byte body and a
   value containing a bare CR; HTTP/2 with two cookies and an HTAB value; SPDY with a NUL-separated value
   containing CR LF "Evil: 1"; HTTP/1 chunked POST with two chunks and a trailer) for which the written bytes satisfy the property. *)
Example C25_nonvacuous : nonvac ok1 /\ nonvac ok2 /\ nonvac ok3 /\ nonvac ok4.
Proof. exact C25_nonvacuous_lemma. Qed.
