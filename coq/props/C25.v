From Coq Require Import List ZArith Bool.
From Bfe Require Import lib.Val model.Http1Req model.Http1Write proofs.Http1WriteProofs run.RunC25.
Import ListNotations.
Open Scope Z_scope.

Theorem C25_placeholder : kf_C25 (VZ 0) = 0.
Proof. exact placeholder_c25. Qed.
Print Assumptions C25_placeholder.
