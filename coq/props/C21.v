(* C21: body pipes (bfe_util/pipe: Pipe over FixedBuffer) deliver data in order exactly once.
   Property theorems only; model in model/Pipe.v, proofs in proofs/PipeProofs.v.

   Vocabulary: [run_pipe cap ops] runs the modelled pipe.NewPipeWithSize(cap) on a history of method
   calls (each call is atomic: every Pipe method holds p.mu) and returns the final state and one
   observation per call.  [reads outs] are the byte strings returned by the Read calls,
   [accepted_writes ops outs] the prefixes firstn n d of the written slices d that Write reported as
   accepted (its result n).  [pending p] is the unread content buf[r:w] of the FixedBuffer.
   A Read that would wait on the condition variable is the observation [BBlocked] (state unchanged);
   real blocking, scheduling and wake-up are outside the model (the harness exercises them). *)
From Coq Require Import List ZArith Bool.
From Bfe Require Import lib.Val lib.ValProofs model.Pipe proofs.PipeProofs run.RunC21.
Import ListNotations.
Open Scope Z_scope.

(* HEADLINE.  For every capacity and every history of Write / Read / CloseWithError / BreakWithError /
   CloseWithErrorAndCode / Err / Done / Release calls with arbitrary sizes: the concatenation of everything
   the reads delivered is a prefix of the concatenation of everything the writes accepted - bytes come
   out in the order they went in, none twice, none invented (sliding the buffer never corrupts it). *)
Theorem C21_fifo_exactly_once : forall cap ops,
  let '(p, outs) := run_pipe cap ops in
  is_prefix_of (concat (reads outs)) (concat (accepted_writes ops outs)).
Proof. exact fifo_exactly_once. Qed.
Print Assumptions C21_fifo_exactly_once.

(* Exactly once, no loss: as long as the buffer is not Released, accepted = delivered ++ still pending
   (and at most cap bytes are pending).  Only Release discards data. *)
Theorem C21_exact_until_release : forall cap ops,
  ~ In ORelease ops ->
  let '(p, outs) := run_pipe cap ops in
  concat (accepted_writes ops outs) = concat (reads outs) ++ pending p /\ (length (pending p) <= cap)%nat.
Proof. exact exact_until_release. Qed.
Print Assumptions C21_exact_until_release.

(* A write is never silently truncated: in every reachable state Write returns n <= len d with
   n < len d -> error and no error -> n = len d; exactly the first n bytes are appended; an open pipe
   accepts n = min(len d, cap - pending) (so sliding always recovers the free space) and reports an error
   only when it truncated; a closed or released pipe accepts nothing and says errClosedPipeWrite. *)
Theorem C21_write_all_or_error : forall cap p d,
  reachable cap p ->
  exists p' n e, step p (OWrite d) = (p', BWrite n e) /\
    (n <= length d)%nat /\ ((n < length d)%nat -> e <> 0) /\ (e = 0 -> n = length d) /\
    pending p' = pending p ++ firstn n d /\
    (p_err p = 0 -> p_b p <> None ->
       n = Nat.min (length d) (cap - length (pending p)) /\ (e <> 0 -> (n < length d)%nat)) /\
    (p_err p <> 0 \/ p_b p = None -> n = 0%nat /\ e = E_CLOSED_WRITE).
Proof. exact write_all_or_error. Qed.
Print Assumptions C21_write_all_or_error.

(* Close is reported only after draining: in every reachable state without a break error a Read of a
   k-byte slice (1) returns the oldest min(k, pending) bytes with a nil error while anything is pending -
   even if the pipe was closed with an error; (2) returns (0, close error) once nothing is pending;
   (3) blocks when nothing is pending and the pipe is open. *)
Theorem C21_close_after_drain : forall cap p k,
  reachable cap p -> p_brk p = 0 ->
  (pending p <> [] ->
     exists p', step p (ORead k) = (p', BRead (Nat.min k (length (pending p))) (firstn k (pending p)) 0 (p_calls p)) /\
       pending p' = skipn k (pending p) /\ p_err p' = p_err p /\ p_brk p' = 0) /\
  (pending p = [] -> p_err p <> 0 ->
     exists p' c, step p (ORead k) = (p', BRead 0 [] (p_err p) c) /\ pending p' = [] /\ p_err p' = p_err p) /\
  (pending p = [] -> p_err p = 0 -> step p (ORead k) = (p, BBlocked)).
Proof. exact read_cases. Qed.
Print Assumptions C21_close_after_drain.

(* A break error is reported immediately, whatever is still buffered, and the state is unchanged. *)
Theorem C21_break_immediate : forall p k,
  p_brk p <> 0 -> step p (ORead k) = (p, BRead 0 [] (p_brk p) (p_calls p)).
Proof. exact break_immediate. Qed.
Print Assumptions C21_break_immediate.

(* A reader waits exactly when there is nothing to deliver and no error to report, and waiting changes
   nothing.  (So any call that appends data or sets an error makes the next Read non-blocking: the
   logical half of "no lost wake-up"; that Write/closeWithError really Signal the condition variable is
   checked by the harness with real blocked readers, not proved.) *)
Theorem C21_blocked_only_when_empty : forall cap p k,
  reachable cap p ->
  (snd (step p (ORead k)) = BBlocked <-> (pending p = [] /\ p_err p = 0 /\ p_brk p = 0)) /\
  (snd (step p (ORead k)) = BBlocked -> fst (step p (ORead k)) = p).
Proof. exact blocked_iff. Qed.
Print Assumptions C21_blocked_only_when_empty.

(* The executable property evaluated on the IMPLEMENTATION's observations implies the headline: every
   observed sequential history that prop_C21 accepts is FIFO / exactly-once (and loss-free without Release).
   (In concurrent-transfer mode prop_C21 directly demands: received = all written data, then io.EOF.) *)
Theorem C21_prop_implies_fifo : forall i o cap ops outs,
  pool_mode i = false -> conc_mode i = false ->
  decode_input i = Some (cap, ops) -> decode_outs o = Some outs -> prop_C21 i o = true ->
  is_prefix_of (concat (reads outs)) (concat (accepted_writes ops outs)) /\
  (~ In ORelease ops -> exists rest, concat (accepted_writes ops outs) = concat (reads outs) ++ rest).
Proof. exact prop_implies_fifo. Qed.
Print Assumptions C21_prop_implies_fifo.

(* BUFFER REUSE.  Release resets the FixedBuffer and returns it to the pool; the next pipe built from the pool
   (pipe.NewPipeFromBufferPool, as bfe_http2 / bfe_spdy do for request bodies) runs on that very buffer.
   [run_gens cap pool gens] runs one pipe history after the other, every pipe taking its buffer from the pool
   (fresh when the pool is empty) and Release pushing the reset buffer back - whatever read/write indices and
   contents the previous pipe left behind.  For every capacity, every pool of reset buffers and every list of
   histories: each pipe's observations, on their own, are a history of a FRESH FIFO specification (so it delivers
   exactly its own bytes, in order, once: nothing of an earlier pipe leaks in, nothing of the new data is lost),
   and there is exactly one observation per call. *)
Theorem C21_pool_reuse_fresh : forall cap gens pool, pool_ok cap pool ->
  Forall2 (fun g outs => spec_ok cap g outs = true /\ length outs = length g) gens (run_gens cap pool gens).
Proof. exact (fun cap gens pool => run_gens_ok cap gens pool). Qed.
Print Assumptions C21_pool_reuse_fresh.

(* Why Reset must rewind BOTH indices (non-vacuity of the above): with a Reset that only rewinds the write index,
   a pipe released after a partial read of 2 bytes hands on a buffer on which "hello" reads back as "llo";
   with the real Reset it reads back "hello". *)
Example C21_reset_w_only_breaks :
  let b1 := fst (fst (fb_write (fb_new 8) [104;101;108;108;111])) in
  let b2 := fst (fst (fb_read b1 2)) in
  snd (run_from (pipe_from (fb_reset_w_only b2)) [OWrite [104;101;108;108;111]; ORead 8])
    = [BWrite 5 0; BRead 3 [108;108;111] 0 0] /\
  snd (run_from (pipe_from (fb_reset b2)) [OWrite [104;101;108;108;111]; ORead 8])
    = [BWrite 5 0; BRead 5 [104;101;108;108;111] 0 0].
Proof. exact reset_w_only_breaks. Qed.

(* Central shape: the model satisfies the executable property (the FIFO specification spec_step, which
   has no indices and no sliding) on every well-formed input; there is no known-finding class. *)
Theorem C21_prop_of_model : forall i, wf_C21 i = true -> kf_C21 i = 0 -> prop_C21 i (run_C21 i) = true.
Proof. exact prop_of_model. Qed.
Print Assumptions C21_prop_of_model.

(* ALL SCHEDULES (atomic-step interleavings).  A writer task writes the chunks W in order - retrying the
   unaccepted rest of a chunk - and then closes with io.EOF; a reader task reads with arbitrary buffer
   sizes until it gets an error.  [t_run cap W sch] lets the scheduler [sch] decide, call by call, which
   task performs its next pipe call (a blocked Read is a no-op).  Under EVERY schedule what the reader has
   received is a prefix of concat W, and if the reader has seen an error, that error is io.EOF and it
   has received exactly concat W.  (That every fair schedule does reach this point - no deadlock, no lost
   wake-up with the real sync.Cond - is exercised by the harness class "concurrent", not proved.) *)
Theorem C21_transfer_any_schedule : forall cap W sch,
  let t := t_run cap W sch in
  is_prefix_of (t_got t) (concat W) /\
  (t_rerr t <> 0 -> t_got t = concat W /\ t_rerr t = E_EOF).
Proof. exact transfer_any_schedule. Qed.
Print Assumptions C21_transfer_any_schedule.

(* Non-vacuity. *)
(* a schedule over a 2-byte pipe that completes the transfer of 5 bytes in 3 chunks *)
Example C21_ex_transfer :
  let t := t_run 2 [[1;2;3]; []; [4;5]]
             [SWriter; SReader 1; SWriter; SReader 3; SReader 3; SWriter; SWriter; SReader 2; SWriter; SWriter; SReader 2; SReader 2] in
  t_got t = [1;2;3;4;5] /\ t_rerr t = E_EOF.
Proof. exact ex_transfer. Qed.
(* capacity 4, partial read, then a 3-byte write that fits only after the slide (r,w = 2,3 -> 0,4) *)
Example C21_ex_slide :
  snd (run_pipe 4 ex_slide_ops) =
    [BWrite 3 0; BRead 2 [1;2] 0 0; BPeek 2 3; BWrite 3 0; BPeek 0 4; BRead 4 [3;4;5;6] 0 0; BBlocked]
  /\ concat (reads (snd (run_pipe 4 ex_slide_ops))) = [1;2;3;4;5;6]
  /\ concat (accepted_writes ex_slide_ops (snd (run_pipe 4 ex_slide_ops))) = [1;2;3;4;5;6].
Proof. exact ex_slide. Qed.
(* truncated write; close(io.EOF)+callback replaced by error 2; write refused; drain; error + callback; break *)
Example C21_ex_close :
  snd (run_pipe 4 ex_close_ops) =
    [BWrite 4 E_WRITE_FULL; BUnit; BUnit; BWrite 0 E_CLOSED_WRITE; BRead 3 [1;2;3] 0 0; BRead 1 [4] 0 0;
     BRead 0 [] 2 1; BUnit; BRead 0 [] 7 1].
Proof. exact ex_close. Qed.
(* a reachable state with r > 0, data pending and a close error set (hypotheses of the step theorems) *)
Example C21_ex_reachable :
  exists p, reachable 4 p /\ pending p = [3] /\ p_err p = 2 /\ p_brk p = 0 /\
            match p_b p with Some b => fb_r b = 2%nat | None => False end.
Proof. exact ex_reachable. Qed.
Example C21_ex_wire :
  let i := VL [VZ 4; VZ 0; VL [VL [VZ 1; VB [1;2;3]]; VL [VZ 2; VZ 2]; VL [VZ 1; VB [4;5;6]]; VL [VZ 2; VZ 9]; VL [VZ 2; VZ 1]]] in
  wf_C21 i = true /\ kf_C21 i = 0 /\
  run_C21 i = VL [VL [VZ 1; VZ 3; VZ 0]; VL [VZ 2; VZ 2; VB [1;2]; VZ 0; VZ 0]; VL [VZ 1; VZ 3; VZ 0];
                  VL [VZ 2; VZ 4; VB [3;4;5;6]; VZ 0; VZ 0]; VL [VZ (-4)]].
Proof. exact ex_wire. Qed.
(* prop_C21 accepts the correct trace and rejects reordered data, duplicated data, a close error
   reported before draining, and a silently truncated write *)
Example C21_ex_prop_rejects :
  let i := VL [VZ 4; VZ 0; VL [VL [VZ 1; VB [1;2;3]]; VL [VZ 3; VZ 2]; VL [VZ 2; VZ 2]; VL [VZ 2; VZ 2]]] in
  prop_C21 i (VL [VL [VZ 1; VZ 3; VZ 0]; VL []; VL [VZ 2; VZ 2; VB [1;2]; VZ 0; VZ 0]; VL [VZ 2; VZ 1; VB [3]; VZ 0; VZ 0]]) = true /\
  prop_C21 i (VL [VL [VZ 1; VZ 3; VZ 0]; VL []; VL [VZ 2; VZ 2; VB [2;1]; VZ 0; VZ 0]; VL [VZ 2; VZ 1; VB [3]; VZ 0; VZ 0]]) = false /\
  prop_C21 i (VL [VL [VZ 1; VZ 3; VZ 0]; VL []; VL [VZ 2; VZ 2; VB [1;2]; VZ 0; VZ 0]; VL [VZ 2; VZ 1; VB [2]; VZ 0; VZ 0]]) = false /\
  prop_C21 i (VL [VL [VZ 1; VZ 3; VZ 0]; VL []; VL [VZ 2; VZ 2; VB [1;2]; VZ 0; VZ 0]; VL [VZ 2; VZ 0; VB []; VZ 2; VZ 0]]) = false /\
  prop_C21 i (VL [VL [VZ 1; VZ 2; VZ 0]; VL []; VL [VZ 2; VZ 2; VB [1;2]; VZ 0; VZ 0]; VL [VZ 2; VZ 0; VB []; VZ 2; VZ 0]]) = false.
Proof. exact ex_prop_rejects. Qed.
