(* C35: HTTP/2 stream state machine is enforced without internal failures.  Property theorems only. *)
From Coq Require Import List ZArith Bool.
From Bfe Require Import lib.Val model.H2Flow model.H2Stream run.RunC35.
Import ListNotations.
Open Scope Z_scope.
