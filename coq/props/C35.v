(* C35: HTTP/2 stream state machine is enforced without internal failures.  Property theorems only.
   Model: model/H2Stream.v; every panic site of the modelled functions ("internal error ...",
   "invariant; can't close stream", "negative update", flow.take "took too much", window-update
   overflow, nil body pipe in endStream) is the outcome c_bug = true / event (5,0,1). *)
From Coq Require Import List ZArith Bool.
From Bfe Require Import lib.Val model.H2Flow model.H2Stream run.RunC33 run.RunC35 proofs.H2StreamProofs proofs.H2StreamCentralProofs.
Import ListNotations.
Open Scope Z_scope.

(* Headline: for every configuration and every well-formed script of client frames interleaved with
   handler reads / body closes / returns, no panic site is reached (true since /repo commit e9ece48;
   before it: HEADERS+END_STREAM twice on one stream panicked). *)
Theorem C35_no_bug_reachable : forall isw maxs ops,
  wf_cfg isw maxs = true -> forallb wf_op ops = true ->
  c_bug (fst (run_ops (init_conn isw maxs) ops)) = false.
Proof. exact no_bug_reachable. Qed.
Print Assumptions C35_no_bug_reachable.

(* The same for what the harness compares: the model output of any accepted input ends with [0] panics. *)
Theorem C35_model_output_no_panic : forall i c out isw maxs ops,
  dec_script i = Some (isw, maxs, ops) -> run_ops (init_conn isw maxs) ops = (c, out) ->
  run_C35 i = enc_out c out /\ c_bug c = false.
Proof. exact run_script_no_panic. Qed.
Print Assumptions C35_model_output_no_panic.

(* C35_rules, as coded (events: (2,id,code) RST_STREAM, (4,last,code) GOAWAY, (5,0,0) close). *)
(* even (or zero) stream id: connection error PROTOCOL_ERROR *)
Theorem C35_rule_odd_ids : forall c id es kind clen,
  (kind =? 7) = false -> (id mod 2 =? 1) = false -> step_headers c id es kind clen = goaway c 1.
Proof. exact rule_even_id. Qed.
Print Assumptions C35_rule_odd_ids.
(* HEADERS for an id that is not an open stream and is not larger than every id seen: PROTOCOL_ERROR *)
Theorem C35_rule_increasing_ids : forall c id es kind clen,
  (kind =? 7) = false -> (id mod 2 =? 1) = true -> find_live id (c_streams c) = None -> id <= c_max c ->
  step_headers c id es kind clen = goaway c 1.
Proof. exact rule_ids_increase. Qed.
Print Assumptions C35_rule_increasing_ids.
(* a new stream beyond the advertised limit: the connection is closed (BFE's choice), no panic *)
Theorem C35_rule_concurrency_limit : forall c id es kind clen c' evs,
  (kind =? 7) = false -> (id mod 2 =? 1) = true -> find_live id (c_streams c) = None -> c_max c < id -> c_adv c <= c_cur c ->
  step_headers c id es kind clen = (c', evs) -> c_dead c' = true /\ evs = [(5, 0, 0)] /\ c_bug c' = c_bug c.
Proof. exact rule_concurrency_limit. Qed.
Print Assumptions C35_rule_concurrency_limit.
(* HEADERS on a half-closed(remote) stream: stream error STREAM_CLOSED, connection continues *)
Theorem C35_rule_headers_on_half_closed : forall c st es kind clen c' evs,
  Good c -> c_bug c = false -> (kind =? 7) = false -> (s_id st mod 2 =? 1) = true ->
  find_live (s_id st) (c_streams c) = Some st -> s_state st = 2 ->
  step_headers c (s_id st) es kind clen = (c', evs) -> evs = [(2, s_id st, 5)] /\ c_dead c' = c_dead c.
Proof. exact rule_headers_on_half_closed. Qed.
Print Assumptions C35_rule_headers_on_half_closed.
(* DATA on a stream that is not open (closed, half-closed, never opened, trailers seen):
   RST_STREAM STREAM_CLOSED (or FLOW_CONTROL_ERROR when it also exceeds the connection window) *)
Theorem C35_rule_data_not_open : forall c id dlen pad es c' evs,
  Good c -> c_bug c = false -> wf_op (OData id dlen pad es) = true -> id <> 0 ->
  (forall st, find_live id (c_streams c) = Some st -> (s_state st =? 1) && negb (s_trailer st) = false) ->
  step_data c id dlen pad es = (c', evs) ->
  (In (2, id, 5) evs \/ evs = [(2, id, 3)]) /\ c_dead c' = c_dead c.
Proof. exact rule_data_not_open. Qed.
Print Assumptions C35_rule_data_not_open.

(* Non-vacuity: the pre-fix panic script now yields RST_STREAM(STREAM_CLOSED); limit 1 closes on the 2nd stream. *)
Example C35_nonvacuous :
  let ops := [OHeaders 1 true 0 (-1); OHeaders 1 true 1 (-1); OData 1 3 (-1) false; OHeaders 3 false 0 (-1)] in
  wf_cfg 0 1 = true /\ forallb wf_op ops = true /\
  snd (run_ops (init_conn 0 1) ops) = [[]; [(2, 1, 5)]; [(1, 0, 3); (2, 1, 5)]; []] /\
  snd (run_ops (init_conn 0 1) [OHeaders 1 false 0 (-1); OHeaders 3 false 0 (-1)]) = [[]; [(5, 0, 0)]].
Proof. exact (conj eq_refl (conj eq_refl (conj eq_refl eq_refl))). Qed.

(* "The connection either continues or ends with GOAWAY or close": one step from any state satisfying
   the invariant either leaves the alive/dead flag as it was, or its only event is GOAWAY (4,last,code)
   or a plain close (5,0,0); and no event of the step reports a serve-loop panic (5,0,p<>0). *)
Theorem C35_continues_or_clean_end : forall c o c' evs,
  Good c -> c_bug c = false -> wf_op o = true -> step c o = (c', evs) ->
  c_bug c' = false /\ (c_dead c' = c_dead c \/ clean_end evs) /\ (forall e, In e evs -> evt_ok e).
Proof. exact step_alive_or_clean_end. Qed.
Print Assumptions C35_continues_or_clean_end.

(* Whole scripts: no event ever printed by the model is a panic-close. *)
Theorem C35_no_panic_event : forall isw maxs ops,
  wf_cfg isw maxs = true -> forallb wf_op ops = true ->
  forall evs, In evs (snd (run_ops (init_conn isw maxs) ops)) -> forall e, In e evs -> evt_ok e.
Proof. exact no_panic_event. Qed.
Print Assumptions C35_no_panic_event.

(* The counter compared with the advertised limit (C35_rule_concurrency_limit) really is the number of
   streams that are open or half-closed: in every reachable live state curOpenStreams equals the number
   of stream objects not yet closed. *)
Theorem C35_cur_counts_live_streams : forall c,
  reach c -> c_dead c = false -> c_cur c = nlive (c_streams c).
Proof. exact cur_counts_live_streams. Qed.
Print Assumptions C35_cur_counts_live_streams.

(* ---- central statement: prop_C35 = (no panic) && core_run (continues, or ends with exactly GOAWAY / close,
   nothing afterwards, no panic-close event) && rules_run (client-side RFC rule validator) ---- *)
(* Full statement (the rules_run clause is NOT proved in general):
     forall i, wf_script i = true -> prop_C35 i (run_C35 i) = true            (kf_C35 = 0 everywhere).
   Proved for ALL accepted inputs: the panic and core clauses hold on the model's output, i.e. prop_C35 on
   the model reduces to the rule validator on the model's trace. *)
Theorem C35_central_core : forall i isw maxs ops,
  dec_script i = Some (isw, maxs, ops) ->
  prop_C35 i (run_C35 i) =
  rules_run (if maxs =? 0 then 200 else maxs) (mkR [] 0 false) ops (snd (run_ops (init_conn isw maxs) ops)).
Proof. exact prop_C35_core. Qed.
Print Assumptions C35_central_core.

(* The whole central statement for ALL scripts of length <= 4 (41371 scripts, enumerated completely in Coq)
   over: HEADERS on stream 1 (open / END_STREAM / trailers with and without END_STREAM), stream 3 (POST,
   HEAD without END_STREAM), stream 2 (even); DATA on 1 (with/without END_STREAM) and 0; RST on 1 and on
   idle 7; handler return; PUSH_PROMISE - with the default concurrency limit and with limit 1. *)
Theorem C35_central_bounded_partial : forall i maxs ops,
  dec_script i = Some (0, maxs, ops) -> maxs = 0 \/ maxs = 1 -> In ops (scripts 4 al35) ->
  prop_C35 i (run_C35 i) = true.
Proof. exact prop_C35_bounded. Qed.
Print Assumptions C35_central_bounded_partial.

Example C35_wf_corpus_case :
  let i := VL [VL [VZ 0; VZ 1]; VL [VL [VZ 1; VZ 1; VZ 1; VZ 0; VZ (-1)]; VL [VZ 1; VZ 1; VZ 1; VZ 1; VZ (-1)];
                                   VL [VZ 1; VZ 3; VZ 0; VZ 0; VZ (-1)]]] in
  wf_script i = true /\
  dec_script i = Some (0, 1, [OHeaders 1 true 0 (-1); OHeaders 1 true 1 (-1); OHeaders 3 false 0 (-1)]) /\
  prop_C35 i (run_C35 i) = true.
Proof. vm_compute. repeat split. Qed.
