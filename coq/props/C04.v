(* C04: least-connection mode picks a minimal connections/weight backend.  Property theorems only.
   wb = (backend, connNum); wb_elig b = Avail() && weight > 0; least_conns = leastConnsBalance
   (None = "all backend is down"); minimal_in bs c = c is in bs, eligible, and
   conn_c * weight_b <= conn_b * weight_c for every eligible b of bs (conn_c/weight_c minimal). *)
From Coq Require Import List ZArith Bool.
From Bfe Require Import lib.Val model.Swrr model.Wlc proofs.WlcProofs run.RunC04.
Import ListNotations.
Open Scope Z_scope.

(* Every candidate returned by leastConnsBalance is an eligible backend of the list that minimises
   connections/weight; the final pick (smooth or random) is taken among the candidates. *)
Theorem C04_minimal : forall bs cands c,
  least_conns bs = Some cands -> In c cands ->
  In c bs /\ wb_elig c = true /\
  forall b, In b bs -> wb_elig b = true -> wb_conn c * wb_w b <= wb_conn b * wb_w c.
Proof. exact (fun bs cands c H Hc => proj1 (candidates_exact bs cands H c) Hc). Qed.
Print Assumptions C04_minimal.

(* The candidate list is EXACTLY the set of minimal eligible backends ("ties are broken only among
   backends sharing that minimum", and no minimal backend is left out), and it is never empty. *)
Theorem C04_candidates_exact : forall bs cands,
  least_conns bs = Some cands -> cands <> [] /\ forall c, In c cands <-> minimal_in bs c.
Proof. exact (fun bs cands H => conj (candidates_nonempty bs cands H) (candidates_exact bs cands H)). Qed.
Print Assumptions C04_candidates_exact.

(* An error is reported exactly when no backend is eligible. *)
Theorem C04_error_iff_none : forall bs, least_conns bs = None <-> filter wb_elig bs = [].
Proof. exact least_conns_none. Qed.
Print Assumptions C04_error_iff_none.

(* Tie-break stays inside the candidates: whatever leastConnsSmoothBalance returns (directly for a single
   candidate, through smoothBalance among several) is a minimal eligible backend; only credits change. *)
Theorem C04_tie_break_within : forall bs p bs',
  wlc_smooth bs = Some (p, bs') ->
  (exists c, minimal_in bs c /\ wb_id c = p) /\ map pj_b bs' = map pj_b bs.
Proof. exact wlc_smooth_some. Qed.
Print Assumptions C04_tie_break_within.
Theorem C04_smooth_error_iff_none : forall bs, wlc_smooth bs = None <-> filter wb_elig bs = [].
Proof. exact wlc_smooth_none. Qed.
Print Assumptions C04_smooth_error_iff_none.

(* The model satisfies the executable property (every pick in an operation history of Balance(WlcSmooth /
   WlcSimple), connection-count changes and SetAvail is minimal; -1 iff nothing is eligible) on every
   well-formed input; kf_C04 = 0 everywhere. *)
Theorem C04_prop_of_model : forall i conf ops, dec_in i = Some (conf, ops) -> prop_C04 i (run_C04 i) = true.
Proof. exact prop_of_model_C04. Qed.
Print Assumptions C04_prop_of_model.

(* Non-vacuity: weights 2,1,4 with 4,2,9 connections: ratios 2,2,2.25 -> candidates are backends 0 and 1. *)
Example C04_example :
  let bs := set_conn (set_conn (set_conn (winit [(0,2);(1,1);(2,4)]) 0 4) 1 2) 2 9 in
  option_map (map wb_id) (least_conns bs) = Some [0; 1].
Proof. exact eq_refl. Qed.

(* Central statement: wf_C04 (the input decodes as a BalanceRR least-connection history) and kf_C04 = 0 imply that the
   model's run satisfies prop_C04.  Partial in one respect: kind 8 inputs (the same property observed through
   BalanceGslb, incl. the cross-cluster branch) are tied and judged at run time only. *)
Theorem C04_central_partial : forall i, wf_C04 i = true -> kf_C04 i = 0 -> prop_C04 i (run_C04 i) = true.
Proof. exact central_C04. Qed.
Print Assumptions C04_central_partial.
Example C04_central_nonvacuous : wf_C04 sample_C04 = true.
Proof. exact sample_C04_wf. Qed.

(* Slow start (input kind 7): with a backend inside its slow-start ramp, the least-connection pick is minimal with
   respect to the CURRENT weights — the weights checkSlowStart has just computed (check_ss), which for a ramping
   backend are below its target weight — for every connection-count map cs; -1 iff nothing is eligible. *)
Theorem C04_slowstart_current_weight : forall cs T l p l',
  pick2 (wlc_bal_c cs) T l = (p, l') -> minimal_pick (wcfg7 cs (check_ss T l)) p = true.
Proof. exact pick7_minimal. Qed.
Print Assumptions C04_slowstart_current_weight.
