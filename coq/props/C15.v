(* C15: hot reload is atomic: every request is handled entirely under one configuration snapshot, and in-flight
   requests finish with the snapshot they started with.  Property theorems only (proofs in proofs/SnapshotProofs.v).

   The transition system (model/Snapshot.v): any number of server-data reload threads (load; confLock.Lock; swap the
   shared pointer; Unlock; setTransports; SetGslbBasic; SetSlowStart), gslb reload threads and request threads (take the
   snapshot once under RLock, then three lookups through the request's own snapshot, then the balancer-table lookup)
   take their atomic steps in ANY order: a schedule is an arbitrary list of thread indices. *)
From Coq Require Import List ZArith Bool.
From Bfe Require Import lib.Val model.Snapshot model.SnapshotTls model.SnapshotTlsWire proofs.SnapshotProofs proofs.SnapshotTlsProofs run.RunC15.
Import ListNotations.
Open Scope Z_scope.

(* For every initial version v / generation g, every set of fresh threads and EVERY interleaving of their atomic steps:
   each lookup that a request has made so far (product, cluster name, cluster conf) observed exactly the version the
   request snapshotted when it was read from the connection - never a mixture of two configurations. *)
Theorem C15_single_snapshot :
  forall (v g : Z) (ts : list thread) (sched : list nat),
    Forall fresh_thread ts ->
    forall i q, nth_error (threads (exec (mkState (init_shared v g) ts) sched)) i = Some (TReq q) ->
    forall x, In x (rq_seen q) -> rq_snap q = Some x.
Proof. exact single_snapshot. Qed.
Print Assumptions C15_single_snapshot.

(* In-flight requests keep their snapshot: once request i holds snapshot w (after schedule s1), then after ANY further
   schedule s2 (complete or half-done reloads included) it still holds w, its earlier lookups are unchanged and every
   lookup made meanwhile yielded w. *)
Theorem C15_inflight_keep :
  forall (v g : Z) (ts : list thread) (s1 s2 : list nat),
    Forall fresh_thread ts ->
    forall i q w, nth_error (threads (exec (mkState (init_shared v g) ts) s1)) i = Some (TReq q) ->
    rq_snap q = Some w ->
    exists q', nth_error (threads (exec (mkState (init_shared v g) ts) (s1 ++ s2))) i = Some (TReq q') /\
               rq_snap q' = Some w /\
               exists more, rq_seen q' = rq_seen q ++ more /\ Forall (fun x => x = w) more.
Proof. exact inflight_keep. Qed.
Print Assumptions C15_inflight_keep.

(* Only completely and successfully loaded configurations are ever seen: in every interleaving the snapshot a request
   holds is the initial configuration or the version of a reload whose LoadServerDataConf succeeded - never the
   version of a failing reload, whatever point that reload has reached. *)
Theorem C15_snapshot_installed :
  forall (v g : Z) (ts : list thread) (sched : list nat),
    Forall fresh_thread ts ->
    forall i q x, nth_error (threads (exec (mkState (init_shared v g) ts) sched)) i = Some (TReq q) ->
    rq_snap q = Some x ->
    x = v \/ exists k r, nth_error ts k = Some (TReload r) /\ rl_ver r = x /\ rl_ok r = true.
Proof. exact snapshot_installed. Qed.
Print Assumptions C15_snapshot_installed.

(* BalTable RWMutex protocol (BalTableReload vs Lookup): in EVERY interleaving, no request looks its cluster up in the
   half-built table that exists inside BalTableReload between emptying the old map and assigning the new one - the
   writer holds t.lock for that whole span and Lookup takes the read lock. *)
Theorem C15_baltable_lock :
  forall (v g : Z) (ts : list thread) (sched : list nat),
    Forall fresh_thread ts ->
    forall i q, nth_error (threads (exec (mkState (init_shared v g) ts) sched)) i = Some (TReq q) -> rq_mid q = false.
Proof. exact baltable_lock. Qed.
Print Assumptions C15_baltable_lock.

(* The model satisfies the property predicate that the harness evaluates on the implementation (prop_C15: every view of
   a request shows, in all fields filled so far, the version that was installed when the request STARTED; successful
   reloads install their version, failing ones change nothing; the balancer generation is the one current at lookup
   time) on EVERY input made of sequential ops - reloads, failing reloads, gslb reloads, request starts and
   continuations through the hold points.  Partial: inputs containing a concurrent-burst op [5 ...] are excluded (for
   those the model's answer is computed from one pseudo-random schedule; that all requests of ANY schedule are
   consistent is C15_single_snapshot + C15_baltable_lock above). *)
Theorem C15_prop_of_model_partial : forall i ops,
  decode_C15 i = Some ops -> forallb (fun o => negb (is_burst o)) ops = true ->
  prop_C15 i (run_C15 i) = true.
Proof. exact prop_C15_of_model_partial. Qed.
Print Assumptions C15_prop_of_model_partial.

(* The follow-up steps: a reload of version v that runs alone from a quiet state (no lock held) ends with
   srv.ServerConf, the transports, the balancers' GslbBasic and slow-start parameters all at v. *)
Theorem C15_reload_converges : forall ts v0 g tr gb ss v,
  sh (run_thread 10 (mkState (Q v0 g tr gb ss) (ts ++ [new_reload v true])) (length ts)) = Q v g v v v.
Proof. exact reload_converges. Qed.
Print Assumptions C15_reload_converges.

(* ... whereas two OVERLAPPING ServerDataConfReload calls can finish with srv.ServerConf at the newer version 3 and the
   transports and the balancers' GslbBasic / slow-start parameters at the older version 2 (model-level observation about the separate
   non-atomic follow-up steps; balancer parameters are shared state outside the per-request snapshot). *)
Theorem C15_overlapping_reloads_stale_gslb_basic :
  exists sched,
    let st := exec (mkState (init_shared 1 1) [new_reload 2 true; new_reload 3 true]) sched in
    threads st = [TReload (mkReload 2 true 7); TReload (mkReload 3 true 7)] /\
    conf (sh st) = 3 /\ transports (sh st) = 2 /\ gslb_basic (sh st) = 2 /\ slow_start (sh st) = 2.
Proof. exact overlapping_reloads_stale. Qed.
Print Assumptions C15_overlapping_reloads_stale_gslb_basic.

(* ---- TLS tables (model/SnapshotTls.v: tlsConfLoad, MultiCertMap.Update / Get, TLSServerRuleMap.Update / Get) ---- *)

(* For EVERY interleaving of any number of TLS reloads (complete TLSConfReload, bare MultiCertMap.Update, failing ones of
   every kind, stopped at any stage) and handshakes: the vip -> certificate table, the SNI -> certificate table and the
   default certificate always stem from ONE configuration version, and every handshake selected its certificate from
   tables of one version (never a vip table of one configuration mixed with the SNI table of another). *)
Theorem C15_tls_tables_together :
  forall c r ts sched, Forall tl_fresh ts ->
    let st := tl_exec (mkTSt (tl_init c r) ts) sched in
    (mc_vip (tsh st) = mc_name (tsh st) /\ mc_name (tsh st) = mc_def (tsh st)) /\
    forall i h, nth_error (tthreads st) i = Some (TTShake h) -> th_vip h = th_name h /\ th_name h = th_def h.
Proof. exact tls_tables_together. Qed.
Print Assumptions C15_tls_tables_together.

(* Failed reload = identity on the observable state: in EVERY interleaving of any number of FAILING TLS reloads (loading
   or CheckTlsConf fails; a rule names an unknown certificate; the default certificate is missing - detected only after
   the new SNI table has been built) and handshakes, the shared tables and locks never change, and every handshake is
   answered from the configuration (c, r) that was installed before. *)
Theorem C15_tls_failed_reload_identity :
  forall c r ts sched, Forall fresh_failing_or_shake ts ->
    let st := tl_exec (mkTSt (tl_init c r) ts) sched in
    tsh st = tl_init c r /\
    forall i h, nth_error (tthreads st) i = Some (TTShake h) ->
      ((1 <= th_pc h)%nat -> th_vip h = c /\ th_name h = c /\ th_def h = c) /\ ((2 <= th_pc h)%nat -> th_rule h = r).
Proof. exact tls_failed_reload_identity. Qed.
Print Assumptions C15_tls_failed_reload_identity.

(* Successful reload = all lookups new: a complete TLSConfReload of version t that runs alone from a quiet state leaves
   all three certificate tables and the rule table at t; a handshake that follows is answered from t only. *)
Theorem C15_tls_successful_reload_all_new : forall ts c r t,
  tl_run_new (mkTSt (TQ c r) ts) (new_tl_reload t 0 false) = mkTSt (TQ t t) (ts ++ [TTReload (mkTR t 0 false 11)]).
Proof. exact run_good. Qed.
Print Assumptions C15_tls_successful_reload_all_new.

(* The model satisfies the TLS part of prop_C15 on every burst-free TLS input [100 [...]]. *)
Theorem C15_tls_prop_of_model_partial : forall i ops,
  decode_tls i = Some ops -> forallb (fun o => negb (is_tburst o)) ops = true ->
  prop_C15 i (run_C15 i) = true.
Proof. exact prop_C15_tls_of_model_partial. Qed.
Print Assumptions C15_tls_prop_of_model_partial.

(* Non-vacuity: a request snapshots version 1, a reload to version 2 completes while the request is between its first
   and second lookup, the request still sees [1;1;1] although version 2 is installed at the end. *)
Example C15_example :
  let st := exec (mkState (init_shared 1 1) [new_request; new_reload 2 true]) [0;0;1;1;1;1;0;0;1;1;1;0;0]%nat in
  Forall fresh_thread [new_request; new_reload 2 true] /\
  nth_error (threads st) 0 = Some (TReq (mkRequest 6 (Some 1) [1;1;1] (Some 1) false)) /\ conf (sh st) = 2.
Proof. exact single_snapshot_example. Qed.

(* The theorem is about the snapshot discipline, not a triviality of the model: a request that re-read the shared
   pointer at every lookup would be torn by the same schedule. *)
Example C15_double_read_breaks :
  exists sched,
    let st := fold_left step_bad sched (mkState (init_shared 1 1) [new_request; new_reload 2 true]) in
    all_consistent st = false.
Proof. exact double_read_breaks. Qed.

(* Non-vacuity for C15_baltable_lock: a lookup attempted while BalTableReload is between its two halves is blocked and,
   once it runs, sees the complete new table (generation 2). *)
Example C15_baltable_example :
  let st := exec (mkState (init_shared 1 1) [new_greload 2; new_request]) [0;0;0;1;1;1;1;1;0;0;1]%nat in
  nth_error (threads st) 1 = Some (TReq (mkRequest 5 (Some 1) [1;1;1] (Some 2) false)).
Proof. exact baltable_example. Qed.

(* Non-vacuity for C15_prop_of_model_partial: a burst-free input with reloads while a request is held. *)
Example C15_prop_example :
  let i := VL [VL [VZ 3; VZ 0; VZ 1]; VL [VZ 1; VZ 2]; VL [VZ 4; VZ 0; VZ 2]; VL [VZ 6; VZ 3]; VL [VZ 2; VZ 2]; VL [VZ 4; VZ 0; VZ 0]] in
  (exists ops, decode_C15 i = Some ops /\ forallb (fun o => negb (is_burst o)) ops = true) /\
  run_C15 i = VL [VL [VZ 1; VZ 0; VZ 0; VZ 0; VZ 0; VZ 0; VZ 0]; VL [VZ 0; VZ 2]; VL [VZ 1; VZ 1; VZ 0; VZ 0; VZ 0; VZ 0; VZ 0];
                  VL [VZ 1; VZ 2]; VL [VZ 0]; VL [VZ 1; VZ 1; VZ 1; VZ 1; VZ 1; VZ 2; VZ 200]].
Proof. exact prop_example. Qed.

(* Non-vacuity, TLS: a rejected update (default certificate missing) and a handshake, then a complete reload to version 3
   and a handshake with vip: the first handshake is answered from version 1, the second from version 3. *)
Example C15_tls_example :
  let st := tl_exec (mkTSt (tl_init 1 1) [new_tl_reload 2 3 true; new_tl_shake 0; new_tl_reload 3 0 false; new_tl_shake 1])
                    [0;0;0;1;1; 2;2;2;2;2;2;2;2;2;2;2; 3;3]%nat in
  Forall tl_fresh [new_tl_reload 2 3 true; new_tl_shake 0; new_tl_reload 3 0 false; new_tl_shake 1] /\
  nth_error (tthreads st) 1 = Some (TTShake (mkTH 2 0 1 1 1 1)) /\
  nth_error (tthreads st) 3 = Some (TTShake (mkTH 2 1 3 3 3 3)) /\ tsh st = tl_init 3 3.
Proof. exact tls_example. Qed.

(* The seeded defect in the model (SNI table updated in place before the default-certificate check): the same rejected
   update now changes what the handshake gets (certificate s2 instead of s1) and leaves tables of two versions. *)
Example C15_tls_in_place_update_breaks :
  let st := fold_left tl_step_bad [0;0;0;1;1]%nat
              (mkTSt (tl_init 1 1) [new_tl_reload 2 3 true; new_tl_shake 0]) in
  mc_vip (tsh st) = 1 /\ mc_name (tsh st) = 2 /\
  nth_error (tthreads st) 1 = Some (TTShake (mkTH 2 0 1 2 1 1)) /\ choose_cert 0 1 2 1 = (2, 2).
Proof. exact in_place_name_update_breaks. Qed.
