(* C16: condition expressions evaluate with the documented precedence.  Property theorems only.
   Model: coq/model/CondParse.v -- a precedence-climbing parser generic in the operator table; the table of the
   implementation (src_table) is computed from coq/gen/CondPrec.v, regenerated from cond.y on every run; the
   parser bfe runs (y.go, generated from cond.y) is tied to the model by the differential harness c16. *)
From Coq Require Import List ZArith Bool.
From Bfe Require Import lib.Val model.CondParse proofs.CondParseProofs run.RunC16.
Import ListNotations.

(* The precedence declarations of bfe_basic/condition/parser/cond.y are the documented ones
   (docs/en_us/condition/condition_grammar.md): || weaker than &&, && weaker than !, and both binary
   operators left-associative.  Fails to compile if the %left/%right lines are reordered or changed. *)
Theorem C16_grammar_matches_doc : table_matches_doc src_table = true.
Proof. exact src_table_matches_doc. Qed.
Print Assumptions C16_grammar_matches_doc.

(* For EVERY operator table that respects the documented order (whatever its level numbers) and EVERY
   expression tree e over primitives (arbitrary nesting and operator mixes): writing e with exactly the
   parentheses the documented precedence requires (parentheses only around a || under &&, a right operand of
   the same operator, and a binary operand of !) and parsing it returns e itself -- parentheses first, then !,
   then && (left-assoc), then || (left-assoc). *)
Theorem C16_parse_print_roundtrip : forall t, table_matches_doc t = true ->
  forall e, parse t (print_doc e) = Some e.
Proof. exact parse_print_roundtrip. Qed.
Print Assumptions C16_parse_print_roundtrip.

(* Instantiated at the grammar of the source, at the level of truth values: the parsed condition evaluates
   (UnaryCond/BinaryCond.Match, composite.go) to the value of the tree under every assignment of truth values
   to its primitives. *)
Theorem C16_eval_matches_doc : forall e env,
  option_map (eval env) (parse src_table (print_doc e)) = Some (eval env e).
Proof. exact src_roundtrip_eval. Qed.
Print Assumptions C16_eval_matches_doc.

(* On every token sequence -- well-formed or not, with any redundant parentheses -- the grammar of the source
   accepts/rejects and builds the same tree as the documented table. *)
Theorem C16_src_parse_is_doc_parse : forall ts, parse src_table ts = parse doc_table ts.
Proof. exact src_parse_is_doc_parse. Qed.
Print Assumptions C16_src_parse_is_doc_parse.

(* Parentheses first, whatever the operator table: an expression in which every composite sub-expression is
   parenthesised is read back as written under ANY precedences and associativities of &&, || and !. *)
Theorem C16_parentheses_first_any_table : forall t e, parse t (print_full e) = Some e.
Proof. exact parse_print_full. Qed.
Print Assumptions C16_parentheses_first_any_table.

(* The executable property the harness evaluates on the implementation's observations holds of the model on
   every input (no known-finding class is left: kf_C16 = 0 everywhere). *)
Theorem C16_prop_of_model : forall i, kf_C16 i = 0%Z -> prop_C16 i (run_C16 i) = true.
Proof. exact prop_C16_of_model. Qed.
Print Assumptions C16_prop_of_model.

(* The table cond.y had before the fix (%left LAND declared before %left LOR: || binds tighter) violates the
   property: GET-style witness  a || b && c  with a true, b and c false. *)
Theorem C16_inverted_table_refuted :
  exists ts env e, parse doc_table ts = Some e /\
    option_map (eval env) (parse inverted_table ts) <> Some (eval env e).
Proof. exact inverted_refuted. Qed.
Print Assumptions C16_inverted_table_refuted.

(* Non-vacuity: concrete readings under the documented table. *)
Example C16_or_and : forall a b c,
  parse doc_table [TAtom a; TOr; TAtom b; TAnd; TAtom c] = Some (Or (Atom a) (And (Atom b) (Atom c))).
Proof. exact doc_or_and. Qed.
Example C16_and_or : forall a b c,
  parse doc_table [TAtom a; TAnd; TAtom b; TOr; TAtom c] = Some (Or (And (Atom a) (Atom b)) (Atom c)).
Proof. exact doc_and_or. Qed.
Example C16_left_assoc_or : forall a b c,
  parse doc_table [TAtom a; TOr; TAtom b; TOr; TAtom c] = Some (Or (Or (Atom a) (Atom b)) (Atom c)).
Proof. exact doc_or_or. Qed.
Example C16_not_binds_tightest : forall a b,
  parse doc_table [TNot; TAtom a; TAnd; TAtom b] = Some (And (Not (Atom a)) (Atom b)).
Proof. exact doc_not_and. Qed.
Example C16_parentheses_first : forall a b c,
  parse doc_table [TL; TAtom a; TOr; TAtom b; TR; TAnd; TAtom c] = Some (And (Or (Atom a) (Atom b)) (Atom c)).
Proof. exact doc_paren. Qed.
