(* C07: active-connection counts match in-flight requests.  Property theorems only. *)
From Coq Require Import List ZArith Bool.
From Bfe Require Import lib.Val model.ConnCount proofs.ConnCountProofs run.RunC07 proofs.ConnCountTieProofs.
Import ListNotations.
Open Scope Z_scope.

(* For every number n of concurrent requests and every interleaving t of their clusterInvoke / FinishReq operations
   that the code can produce (run_ops = Some: each operation occurs in a phase where the code can perform it; balancing
   outcomes, HandleForward verdicts, transport results and retry decisions are arbitrary), the connection count of every
   backend b equals the number of requests that currently hold an increment on b (in flight on b). *)
Theorem C07_count_equals_inflight : forall n t s,
  (forall rid o, In (rid, o) t -> (rid < n)%nat) -> run_ops s_init t = Some s ->
  forall b, counts s b = inflight (reqs s) n b.
Proof. exact count_equals_inflight. Qed.
Print Assumptions C07_count_equals_inflight.

(* The count never goes negative. *)
Theorem C07_nonneg : forall n t s,
  (forall rid o, In (rid, o) t -> (rid < n)%nat) -> run_ops s_init t = Some s -> forall b, 0 <= counts s b.
Proof. exact count_nonneg. Qed.
Print Assumptions C07_nonneg.

(* When every request has passed FinishReq (or never started) all counts are zero again. *)
Theorem C07_zero_at_quiescence : forall n t s,
  (forall rid o, In (rid, o) t -> (rid < n)%nat) -> run_ops s_init t = Some s -> quiescent s ->
  forall b, counts s b = 0.
Proof. exact zero_at_quiescence. Qed.
Print Assumptions C07_zero_at_quiescence.

(* The operation traces the harness derives for a request from its script and the balancer's observed choices
   (ConnCount.simulate; used by agree_C07) are valid traces of the model for ANY script and choices, and they end in the
   state the harness assumes: the request has passed FinishReq and holds nothing, or it is in flight (sent, holding an
   increment) on the last backend chosen.  Together with C07_count_equals_inflight: a backend's count is the number of
   requests the harness currently holds inside that backend. *)
Theorem C07_harness_traces_valid : forall fuel dead rm retry fwd steps choice m s slot,
  simulate fuel dead rm retry fwd steps choice = Some m ->
  ph (reqs s slot) = PLoop ->
  exists s', run_ops s (map (fun x => (slot, x)) (m_ops m)) = Some s' /\ sim_end m choice (reqs s' slot).
Proof. exact simulate_valid. Qed.
Print Assumptions C07_harness_traces_valid.

(* CENTRAL THEOREM.  The property predicate the harness evaluates on the implementation's observations (prop_ops: at
   every observation point each backend's count equals the number of requests / tunnels a backend currently holds, is
   >= 0, status consistent with being held) accepts EVERY observation list the model produces (exec), for every program of
   request starts, WebSocket / TLS-stream tunnels and releases over the request slots and for every way the balancer may
   choose backends (choose is arbitrary). *)
Theorem C07_prop_accepts_model : forall rm choose ops k h hold l,
  rids_ok ops -> K h hold -> exec rm ops choose k h = Some l -> prop_ops ops l hold = true.
Proof. intros rm choose. exact (prop_accepts_exec rm choose). Qed.
Print Assumptions C07_prop_accepts_model.

(* ... and in the wire form: for every well-formed input (decodes; the default-choice run does not start a request on an
   occupied slot) outside the known-finding classes (there are none), the model's output satisfies the property. *)
Theorem C07_prop_of_run : forall v, wf_C07 v = true -> kf_C07 v = 0 -> prop_C07 v (run_C07 v) = true.
Proof. exact prop_of_run. Qed.
Print Assumptions C07_prop_of_run.

(* Record of the defect repaired in /repo (commit cd4c052): before the fix a HandleForward filter returning Finish left
   request.Trans.Backend set although IncConnNum had not run; FinishReq then decremented: count -1. *)
Theorem C07_forward_finish_refuted_prefix :
  exists t s, runp_ops s_init t = Some s /\ counts s 0%nat = -1.
Proof. exact forward_finish_refuted_prefix. Qed.
Print Assumptions C07_forward_finish_refuted_prefix.

(* Non-vacuity: the same trace on the repaired code ends at 0; two concurrent requests with a retry. *)
Example C07_forward_finish_fixed :
  exists s, run_ops s_init [(0%nat, BalanceOk 0%nat); (0%nat, ForwardFinish); (0%nat, Finish)] = Some s /\ counts s 0%nat = 0.
Proof. exact forward_finish_fixed. Qed.
Example C07_two_requests :
  exists s, run_ops s_init [(0%nat, BalanceOk 2%nat); (0%nat, ForwardGoOn); (1%nat, BalanceOk 0%nat); (1%nat, ForwardGoOn);
                        (0%nat, RoundTrip 1); (0%nat, BalanceOk 0%nat); (0%nat, ForwardGoOn)] = Some s
            /\ counts s 0%nat = 2 /\ counts s 2%nat = 0 /\ inflight (reqs s) 2 0%nat = 2.
Proof. exact two_requests. Qed.
Example C07_simulate_example :
  simulate 40 2 2 0 [1; 1] [1; 3] [0; 2; 1]%nat
  = Some (mkSim [BalanceOk 0; ForwardGoOn; RoundTrip 1; BalanceOk 2; ForwardGoOn; RoundTrip 1; BalanceOk 1; ForwardGoOn] 0 3 true).
Proof. exact simulate_example. Qed.
(* a generated-style input (two tunnels and a held GET, released in another order) is well-formed *)
Example C07_wf_example :
  wf_C07 (VL [VZ 3; VZ 0; VL [VL [VZ 3; VZ 0; VZ 0; VZ 0]; VL [VZ 1; VZ 1; VL []; VL [VZ 3]];
                              VL [VZ 3; VZ 2; VZ 1; VZ 0]; VL [VZ 2; VZ 1]; VL [VZ 2; VZ 0]; VL [VZ 2; VZ 2]]]) = true.
Proof. exact wf_example. Qed.
