(* C30: HPACK encoding round-trips and respects table limits.  Property theorems only. *)
From Coq Require Import List ZArith Bool.
From Bfe Require Import lib.Val lib.Bytes gen.HpackTables model.Huffman model.Hpack run.RunC30
  proofs.HuffmanProofs proofs.HuffmanEquivProofs proofs.HpackProofs proofs.HpackSeqProofs.
Import ListNotations.
Open Scope Z_scope.

(* Facts about the Huffman table translated from tables.go (finite; vm_compute over all 256 symbols and all
   65536 pairs): every code has 5..30 bits and fits its length; no code is a prefix of another code or of EOS
   (and EOS of none); the Kraft sum of the 256 codes plus EOS is exactly 1 (complete prefix code). *)
Theorem C30_huff_table_facts : table_wf = true /\ prefix_free = true /\ kraft_complete = true.
Proof. exact (conj table_wf_true (conj prefix_free_true kraft_complete_true)). Qed.
Print Assumptions C30_huff_table_facts.

(* For EVERY byte string s the Huffman encoder output (codes back to back, padded with ones) has exactly
   HuffmanEncodeLength(s) bytes and is decoded back to s by the RFC 7541 bit-level decoder. *)
Theorem C30_huff_roundtrip : forall s, wf_bytes s = true ->
  blen (huff_encode s) = huff_enc_len s /\ rfc_huff_decode (huff_encode s) = Some s.
Proof. exact (fun s H => conj (proj1 (proj2 (huff_encode_facts s H))) (huff_roundtrip_rfc s H)). Qed.
Print Assumptions C30_huff_roundtrip.

(* Prefixed integers: for every prefix size 1..7, every type-bit pattern above the prefix and every value
   below 2^62, readVarInt applied to appendVarInt's bytes followed by anything returns the value and the rest. *)
Theorem C30_varint_roundtrip : forall n flag i rest,
  1 <= n <= 7 -> 0 <= i < 2 ^ 62 -> 0 <= flag -> flag mod 2 ^ n = 0 ->
  exists b0 t, or_first flag (append_varint n i) = b0 :: t /\ flag <= b0 < flag + 2 ^ n
               /\ read_varint n ((b0 :: t) ++ rest) = ROk i rest.
Proof. exact varint_enc. Qed.
Print Assumptions C30_varint_roundtrip.

(* String literals (raw or Huffman, whichever appendHpackString picks) read back exactly, for any Huffman
   decoder hd that inverts the encoder (hd_ok); the RFC decoder is such a decoder (C30_hd_ok_spec). *)
Theorem C30_string_roundtrip : forall hd s rest,
  hd_ok hd -> wf_bytes s = true -> blen s < 2 ^ 62 ->
  read_string hd (append_hpack_string s ++ rest) = ROk s rest.
Proof. exact string_roundtrip. Qed.
Print Assumptions C30_string_roundtrip.
Theorem C30_hd_ok_spec : hd_ok huff_decode_spec.
Proof. exact hd_ok_spec. Qed.
Print Assumptions C30_hd_ok_spec.

(* HEADLINE.  For every negotiated limit L (0..2^32-1) and EVERY sequence of operations
   WriteField(f) / SetMaxDynamicTableSize(v) / end-of-block, optionally with the receiver disabling emit after k
   fields of the block (then exactly the first k fields are delivered, the table evolves as usual) (fields: any byte strings shorter than 2^61,
   any never-index flag; v any non-negative number; size changes are applied between header blocks, i.e. before
   the first field of a block, as RFC 7541 4.2 demands and the HTTP/2 layer does - wf_ops_b), the model encoder never panics and every block it emits
   is decoded by the model decoder (same settings, fed block by block) without error into exactly the fields
   written into that block - names, values and never-index flags - and after every block both dynamic tables
   satisfy 0 <= size <= maxSize and size <= L (blocks_ok is the executable statement of all this; it is also
   what prop_C30 evaluates on the real implementation's output).  The proof is a simulation invariant
   (sim: decoder table = encoder table modulo the size updates still pending in the encoder). *)
Theorem C30_sequence_roundtrip : forall hd L ops,
  hd_ok hd -> 0 <= L <= uint32_max -> wf_ops_b ops false = true ->
  exists out, run_C30_with hd L ops = Some out /\ blocks_ok L (expected_blocks ops []) out = true.
Proof. exact sequence_roundtrip_closed. Qed.
Print Assumptions C30_sequence_roundtrip.

(* the same with the RFC bit-level Huffman decoder plugged in: no hypothesis left *)
Theorem C30_sequence_roundtrip_rfc_huffman : forall L ops,
  0 <= L <= uint32_max -> wf_ops_b ops false = true ->
  exists out, run_C30_with huff_decode_spec L ops = Some out /\ blocks_ok L (expected_blocks ops []) out = true.
Proof. exact (fun L ops => sequence_roundtrip_closed huff_decode_spec L ops hd_ok_spec). Qed.
Print Assumptions C30_sequence_roundtrip_rfc_huffman.

(* CENTRAL THEOREM: on every well-formed wire input (wf_C30: limit in uint32, bytes in range, size changes only at
   block starts) the model's own output satisfies the executable property the harness evaluates on the
   implementation's observation.  (run_C30 decodes Huffman strings with the RFC bit-level decoder; agree_C30
   additionally requires the byte-trie transcription to produce the same observation.) *)
Theorem C30_central : forall i, wf_C30 i = true -> kf_C30 i = 0 -> prop_C30 i (run_C30 i) = true.
Proof. exact C30_central_lemma. Qed.
Print Assumptions C30_central.
Example C30_central_nonvacuous : wf_C30 ex_input = true /\ agree_C30 ex_input (run_C30 ex_input) = true.
Proof. exact ex_input_wf. Qed.

(* The byte-trie decoder (Gallina transcription of addDecoderNode + huffmanDecode with cur/cbits/sbits) equals the
   RFC bit-level decoder on EVERY byte string: finite sweep over all (trie node, next byte) pairs lifted by
   induction on the input with the invariant (node path ++ pending bits ++ remaining input) = undecoded bits.
   Hence it inverts the encoder, and the central theorem also holds with the trie decoder in the model. *)
Theorem C30_trie_equals_bitlevel : forall v, wf_bytes v = true -> huff_decode v = huff_decode_spec v.
Proof. exact huff_decode_eq_spec. Qed.
Print Assumptions C30_trie_equals_bitlevel.
Theorem C30_hd_ok_trie : hd_ok huff_decode.
Proof. exact hd_ok_trie. Qed.
Print Assumptions C30_hd_ok_trie.
Theorem C30_central_trie : forall i, wf_C30 i = true -> prop_C30 i (run_C30_hd huff_decode i) = true.
Proof. exact C30_central_trie_lemma. Qed.
Print Assumptions C30_central_trie.

(* Non-vacuity: a concrete two-block history with repeated fields, a sensitive field, eviction by a small
   limit (L = 100) and size updates 50, 0, 4096; it is well-formed, and run through the TRIE decoder model
   (huff_decode, the one tied to the Go code) it satisfies the same predicate. *)
Example C30_example_wf : wf_ops_b ex_ops false = true.
Proof. exact ex_ops_wf. Qed.
Example C30_example_runs :
  match run_C30_with huff_decode 100 ex_ops with
  | Some out => blocks_ok 100 (expected_blocks ex_ops []) out = true /\ length out = 2%nat
  | None => False
  end.
Proof. exact ex_ops_runs. Qed.
