(* C30 placeholder while the pipeline is brought up *)
From Coq Require Import List ZArith Bool.
From Bfe Require Import lib.Val model.Huffman model.Hpack run.RunC30.
Open Scope Z_scope.
Example C30_tables : table_wf = true.
Proof. vm_compute. reflexivity. Qed.
Print Assumptions C30_tables.
