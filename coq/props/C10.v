(* C10: host -> product resolution follows the host table.  Property theorems only.
   Model: model/HostTable.v (bfe_route/host_table.go, bfe_route/trie/trie.go, bfe_util/string_reverse).
   Vocabulary: a "path" is the list of labels of a host as the code splits it (TLD first, after lower-casing,
   port stripping and dropping one trailing dot); `star` is the label "*"; a wildcard host "*.suffix" has the
   path  path(suffix) ++ [star].  `exact_of tbl q` = the route of the (last) configured entry whose path is
   exactly q and which Trie.Set accepts ("*" only as the left-most host label). *)
From Coq Require Import List ZArith Bool.
From Bfe Require Import lib.Val lib.ValProofs lib.Bytes model.HostTable proofs.HostTableProofs run.RunC10.
Import ListNotations.
Open Scope Z_scope.

(* HEADLINE.  For EVERY table (any entries, any insertion order) and every path q, looking q up in the trie
   built by buildHostRoute (Trie.Set per entry, SplatEntry semantics of Trie.Get) returns exactly the
   declarative choice: the exact entry for q if there is one, otherwise the wildcard entry  pre ++ ["*"]  for the
   LONGEST strict prefix pre of q (= longest host suffix, at least one extra label), otherwise nothing. *)
Theorem C10_trie_refines_spec : forall tbl q, tget q (build_paths tbl) = spec_paths tbl q.
Proof. exact trie_refines_spec. Qed.
Print Assumptions C10_trie_refines_spec.

(* The same for findHostRoute on byte strings: table hosts are lower-cased, request hosts are lower-cased and
   stripped of ":port"; both are reversed by ReverseFqdnHost (drops one trailing dot) and split on ".". *)
Theorem C10_lookup_refines_spec : forall tbl host,
  find_host_route tbl host = spec_paths (map entry_path tbl) (req_path host).
Proof. exact lookup_refines_spec. Qed.
Print Assumptions C10_lookup_refines_spec.

(* LookupHostTagAndProduct is the documented priority chain: host table (exact, else longest wildcard), else the
   product of the VIP the connection arrived on, else the default product, else ErrNoProduct. *)
Theorem C10_priority_chain : forall tbl vips dflt host vip,
  lookup_product tbl vips dflt host vip =
  match spec_paths (map entry_path tbl) (req_path host) with
  | Some (tag, prod) => POk tag prod
  | None =>
    match (match vip with Some v => assoc v vips | None => None end) with
    | Some prod => POk [] prod
    | None => if is_nil dflt then PErrNoProduct else POk [] dflt
    end
  end.
Proof. exact priority_chain. Qed.
Print Assumptions C10_priority_chain.

(* Reading of spec_paths: an exact entry always wins over every wildcard. *)
Theorem C10_exact_wins : forall tbl q v, exact_of tbl q = Some v -> spec_paths tbl q = Some v.
Proof. exact exact_wins. Qed.
Print Assumptions C10_exact_wins.

(* Without an exact entry, the wildcard "*.suffix" with the longest matching suffix wins; it must leave at least
   one label (r <> []) for the "*": "*.example.com" does not match "example.com" but matches "a.b.example.com". *)
Theorem C10_wildcard_longest : forall tbl pre r v,
  exact_of tbl (pre ++ r) = None -> r <> [] ->
  exact_of tbl (pre ++ [star]) = Some v ->
  (forall x y, x <> [] -> y <> [] -> r = x ++ y -> exact_of tbl ((pre ++ x) ++ [star]) = None) ->
  spec_paths tbl (pre ++ r) = Some v.
Proof. exact wildcard_longest. Qed.
Print Assumptions C10_wildcard_longest.

(* No exact entry and no wildcard entry on any proper suffix: the host table yields nothing (VIP/default follow). *)
Theorem C10_no_entry_no_route : forall tbl q,
  exact_of tbl q = None ->
  (forall pre y, y <> [] -> q = pre ++ y -> exact_of tbl (pre ++ [star]) = None) ->
  spec_paths tbl q = None.
Proof. exact no_entry_no_route. Qed.
Print Assumptions C10_no_entry_no_route.

(* exact_of is plain membership in the configured table. *)
Theorem C10_exact_of_sound : forall tbl q v, exact_of tbl q = Some v -> In (q, v) tbl /\ valid_path q = true.
Proof. exact exact_of_sound. Qed.
Print Assumptions C10_exact_of_sound.
Theorem C10_exact_of_complete : forall tbl q,
  exact_of tbl q = None -> forall v, In (q, v) tbl -> valid_path q = false.
Proof. exact exact_of_complete. Qed.
Print Assumptions C10_exact_of_complete.

(* The request host is compared case-insensitively (ASCII), its port and one trailing dot are ignored. *)
Theorem C10_case_insensitive : forall tbl h h', eq_fold h h' = true -> find_host_route tbl h = find_host_route tbl h'.
Proof. exact case_insensitive. Qed.
Print Assumptions C10_case_insensitive.
Theorem C10_port_ignored : forall tbl h port, forallb (fun b => negb (b =? COLON)) h = true ->
  find_host_route tbl (h ++ COLON :: port) = find_host_route tbl h.
Proof. exact port_ignored. Qed.
Print Assumptions C10_port_ignored.
Theorem C10_trailing_dot_ignored : forall tbl h,
  forallb (fun b => negb (b =? COLON)) h = true -> ~ (exists h0, h = h0 ++ [DOT]) ->
  find_host_route tbl (h ++ [DOT]) = find_host_route tbl h.
Proof. exact trailing_dot_ignored. Qed.
Print Assumptions C10_trailing_dot_ignored.

(* The reversed-string preprocessing is faithful to plain host labels: splitting the reversed string gives the
   natural labels reversed in order and character-wise (strings.Split o ReverseFqdnHost = rv o labels). *)
Theorem C10_split_reverse : forall c s, split_byte c (rev s) = rv (split_byte c s).
Proof. exact split_rev. Qed.
Print Assumptions C10_split_reverse.

(* HEADLINE on natural labels, the form in the property text.  spec_product never reverses a string: it splits the
   lower-cased, port-less host (one trailing dot dropped) into labels l1.l2...ln and picks the configured host with
   exactly these labels, else the configured "*.s" for the longest proper suffix s of the labels, else the VIP's
   product, else the default product, else ErrNoProduct.  The modelled LookupHostTagAndProduct computes exactly that,
   for every table, VIP table, default product, request host and VIP. *)
Theorem C10_lookup_product_refines_spec : forall tbl vips dflt host vip,
  lookup_product tbl vips dflt host vip = spec_product tbl vips dflt host vip.
Proof. exact lookup_product_natural. Qed.
Print Assumptions C10_lookup_product_refines_spec.

(* CENTRAL THEOREM.  The executable property the harness evaluates on the implementation's observations holds of the
   model on every well-formed input (wf_C10 = the input decodes: pre-Update queries + a list of reload stages, each
   with host table, VIP table, default product and queries; there is no known-finding class, kf_C10 = 0).  Every
   stage is answered from its own tables (HostTable.Update replaces all state); LookupProduct is the host-table
   part of the chain and LookupProductByVip its VIP part. *)
Theorem C10_prop_of_model : forall i, wf_C10 i = true -> kf_C10 i = 0 -> prop_C10 i (run_C10 i) = true.
Proof. exact prop_C10_of_model. Qed.
Print Assumptions C10_prop_of_model.
(* LookupProduct(host) on natural labels *)
Theorem C10_find_host_route_natural : forall tbl host, find_host_route tbl host = spec_host tbl host.
Proof. exact find_host_route_natural. Qed.
Print Assumptions C10_find_host_route_natural.
(* a corpus case (corpus/C10/examples.case, "wf-example") is well-formed *)
Example C10_wf_example :
  wf_C10 (VL [VL [VL [VB [99;111;109]; VB []; VB []]];
              VL [VL [VL [VL [VB [42;46;99;111;109]; VB [116]; VB [112]]]; VL []; VB [100]; VL [VL [VB [97;46;99;111;109]; VB []; VB []]]];
                  VL [VL []; VL []; VB []; VL [VL [VB [97;46;99;111;109]; VB []; VB []]]]]]) = true.
Proof. exact eq_refl. Qed.

(* buildHostRoute ranges over a Go map, i.e. inserts in an unspecified order.  When the configured hosts are pairwise
   distinct after normalisation (lower case, one trailing dot dropped: distinct trie paths), every lookup gives the
   same answer for every insertion order; so the list-based model loses nothing.  (Hosts that collide after
   normalisation, e.g. "A.com" and "a.com", are accepted by the loader and then resolved by map iteration order.) *)
Theorem C10_order_irrelevant : forall (tbl tbl' : list host_entry) host,
  NoDup (map (fun e => fst (entry_path e)) tbl) -> Permutation.Permutation tbl tbl' ->
  find_host_route tbl host = find_host_route tbl' host.
Proof. exact order_irrelevant. Qed.
Print Assumptions C10_order_irrelevant.

(* The VIP step matches on the ADDRESS VALUE: the observation for a session whose Vip is the 4-byte form a.b.c.d equals
   the one for the 16-byte form ::ffff:a.b.c.d, and the textual form in which the vips are written in the file (v_text:
   dotted, IPv4-mapped, compressed / uncompressed / upper-case IPv6, leading zeros) is irrelevant; only the parsed
   address (v_addr) and, for LookupProductByVip(text), its canonical text (v_canon) matter.  (Holds for the model and
   the specification alike: `full`/`byhost` are arbitrary.) *)
Theorem C10_vip_by_address_value : forall full byhost tbl vs dflt host a b c d str f,
  enc_query full byhost tbl (retext f vs) dflt (host, ([a; b; c; d], str)) =
  enc_query full byhost tbl vs dflt (host, (V4_PREFIX ++ [a; b; c; d], str)).
Proof. exact vip_by_address_value. Qed.
Print Assumptions C10_vip_by_address_value.

(* The lookup depends only on WHICH labels are equal: any injective relabelling f that fixes "*" (reversing the
   characters of each label byte-wise or rune-wise, or any other encoding), applied to the table and the request,
   leaves every answer unchanged.  So for non-ASCII hosts Go's rune reversal changes nothing by itself; the only
   non-ASCII effects are the identifications made by Unicode ToLower (case folding beyond ASCII) and by []rune
   conversion of invalid UTF-8 (bytes collapse to U+FFFD), which make MORE host names equal (outside the model). *)
Theorem C10_labels_only_by_equality : forall (f : bytes -> bytes),
  (forall a b, f a = f b -> a = b) -> f star = star ->
  forall tbl q, tget (map f q) (build_paths (relabel f tbl)) = tget q (build_paths tbl).
Proof. exact trie_relabel. Qed.
Print Assumptions C10_labels_only_by_equality.

(* Non-vacuity: table {Example.com -> p1, *.example.com -> p2, *.com -> p3}; see the comments in the lemma. *)
Example C10_examples :
  lookup_product ex_tbl [] [] [101;120;97;109;112;108;101;46;67;79;77;58;56;48;56;48] None = POk [116;49] [112;49] /\
  lookup_product ex_tbl [] [] [97;46;98;46;101;120;97;109;112;108;101;46;99;111;109;46] None = POk [116;50] [112;50] /\
  lookup_product ex_tbl [] [] [111;116;104;101;114;46;99;111;109] None = POk [116;51] [112;51] /\
  lookup_product ex_tbl [([49], [118])] [100] [99;111;109] (Some [49]) = POk [] [118] /\
  lookup_product ex_tbl [([49], [118])] [100] [99;111;109] (Some [50]) = POk [] [100] /\
  lookup_product ex_tbl [([49], [118])] [] [99;111;109] None = PErrNoProduct.
Proof. exact ex_lookups. Qed.
