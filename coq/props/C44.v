(* C44 placeholder *)
From Coq Require Import List ZArith Bool.
From Bfe Require Import lib.Val model.TlsTicket proofs.TlsTicketProofs run.RunC44.
Import ListNotations.
Open Scope Z_scope.
Theorem C44_xor_nil : forall a, xor_bytes a [] = a.
Proof. exact xor_nil. Qed.
Print Assumptions C44_xor_nil.
