(* C44: session resumption cannot be forged or used to bypass policy.  Property theorems only (proofs in
   proofs/TlsTicketProofs.v).

   Model (model/TlsTicket.v): sessionState.marshal/unmarshal, encryptTicket, decryptTicket of
   bfe_tls/ticket.go and checkForResumption / tryCipherSuite / mutualVersion of handshake_server.go.
   HMAC-SHA256 (mac) and AES-CTR (ctr) are abstract; what is proved is how BFE uses them: the MAC covers
   every byte before the tag (IV and ciphertext), it is verified before anything is decrypted or parsed,
   and a session from a ticket or from the cache is resumed only if all policy checks pass. *)
From Coq Require Import List ZArith Bool.
From Bfe Require Import lib.Val lib.Bytes model.TlsTicket run.RunC44 proofs.TlsTicketProofs.
Import ListNotations.
Open Scope Z_scope.

(* C44_only_own_unmodified.  For every MAC and cipher, every key, every list `issued` of (iv, state) pairs
   for which this server called encryptTicket, and every presented byte string t: under the
   unforgeability premise for t ("if t's tag verifies under the server's MAC key, then the bytes it
   covers are bytes the server itself MAC'd when issuing a ticket"), a ticket accepted by decryptTicket
   is byte-identical to a ticket the server issued under this key.  So every bit flip, truncation,
   extension, splice and foreign-key ticket is rejected. *)
Theorem C44_only_own_unmodified :
  forall (mac : list Z -> list Z -> list Z) (ctr : list Z -> list Z -> list Z -> list Z)
         key (issued : list (list Z * sess)) t s,
    (mac_ok mac key t = true ->
     exists iv st, In (iv, st) issued /\ ticket_body t = iv ++ ctr (enc_key key) iv (marshal st)) ->
    decrypt_ticket mac ctr key t = Some s ->
    exists iv st, In (iv, st) issued /\ t = encrypt_ticket mac ctr key iv st.
Proof. exact only_own_unmodified. Qed.
Print Assumptions C44_only_own_unmodified.

(* The MAC is checked first: nothing is accepted (not even parsed) unless the tag over all preceding
   bytes verifies and the ticket has at least 16+32 bytes.  The model also fixes the state of the caller's
   buffer after the call (ticket_buf_after: untouched unless the MAC verified, the received tag is never
   overwritten); the harness compares it with the real buffer on every case. *)
Theorem C44_mac_before_parse : forall mac ctr key t s,
  decrypt_ticket mac ctr key t = Some s -> mac_ok mac key t = true.
Proof. exact decrypt_mac_ok. Qed.
Print Assumptions C44_mac_before_parse.

(* With a collision-free 32-byte MAC (no unforgeability premise needed): a ticket issued under another
   MAC key is rejected; any modification confined to the bytes before the tag (IV / ciphertext: bit
   flips, insertions, deletions, truncation of the ciphertext) or confined to the tag is rejected; every
   string shorter than 48 bytes is rejected. *)
Theorem C44_foreign_key_rejected : forall mac ctr,
  (forall k m k' m', mac k m = mac k' m' -> k = k' /\ m = m') -> (forall k m, length (mac k m) = 32%nat) ->
  forall key key' iv st, mac_key key <> mac_key key' ->
    decrypt_ticket mac ctr key (encrypt_ticket mac ctr key' iv st) = None.
Proof. exact foreign_key_rejected. Qed.
Print Assumptions C44_foreign_key_rejected.
Theorem C44_modified_rejected : forall mac ctr,
  (forall k m k' m', mac k m = mac k' m' -> k = k' /\ m = m') -> (forall k m, length (mac k m) = 32%nat) ->
  forall key iv st t', let t := encrypt_ticket mac ctr key iv st in
    t' <> t -> (ticket_body t' = ticket_body t \/ ticket_tag t' = ticket_tag t) ->
    decrypt_ticket mac ctr key t' = None.
Proof. exact modified_rejected. Qed.
Print Assumptions C44_modified_rejected.
Theorem C44_short_rejected : forall mac ctr key t, blen t < 48 -> decrypt_ticket mac ctr key t = None.
Proof. exact short_rejected. Qed.
Print Assumptions C44_short_rejected.

(* Own unmodified tickets are honoured (non-vacuity of the acceptance theorems): for a length-preserving
   involutive stream cipher and a 32-byte MAC, decryptTicket inverts encryptTicket on every session state
   whose fields fit their length prefixes, and sessionState.unmarshal inverts marshal. *)
Theorem C44_roundtrip : forall mac ctr,
  (forall k iv d, ctr k iv (ctr k iv d) = d) -> (forall k m, length (mac k m) = 32%nat) ->
  forall key iv st, length iv = 16%nat -> wf_sess st = true ->
    decrypt_ticket mac ctr key (encrypt_ticket mac ctr key iv st) = Some st.
Proof. exact decrypt_encrypt. Qed.
Print Assumptions C44_roundtrip.
Theorem C44_unmarshal_marshal : forall s, wf_sess s = true -> unmarshal (marshal s) = Some s.
Proof. exact unmarshal_marshal. Qed.
Print Assumptions C44_unmarshal_marshal.

(* C44_cache_path: the candidate session is either an accepted ticket (tickets enabled, extension
   present, ticket non-empty) or the entry the server's own cache holds under the offered session id
   (cache configured and not disabled); with the cache disabled or absent a session id never resumes. *)
Theorem C44_cache_path : forall mac ctr p s, candidate mac ctr p = Some s ->
  (ticket_path p = true /\ decrypt_ticket mac ctr (p_key p) (h_ticket p) = Some s) \/
  (ticket_path p = false /\ h_sid p <> [] /\ p_cache_disabled p = false /\ p_cache_present p = true /\
   exists v, cache_get (p_cache p) (h_sid p) = Some v /\ unmarshal v = Some s).
Proof. exact candidate_source. Qed.
Print Assumptions C44_cache_path.

(* C44_suite_still_offered_and_enabled + C44_client_cert_not_skipped: whenever checkForResumption
   resumes, the suite of the resumed connection is the session's suite, the client still offers it, the
   server still lists it and it passes tryCipherSuite's flag checks; the session's version is at most
   the client's and inside [MinVersion, MaxVersion]; RequireAnyClientCert / RequireAndVerifyClientCert
   never resume a session without client certificates, and NoClientCert never resumes one with. *)
Theorem C44_resumption_policy : forall mac ctr K table p s suite,
  check_for_resumption mac ctr K table p = Some (s, suite) ->
  candidate mac ctr p = Some s /\
  suite = s_suite s /\ In (s_suite s) (h_suites p) /\ In (s_suite s) (p_suites p) /\
  (exists fl, lookup_flags table (s_suite s) = Some fl /\ suite_usable K p fl (s_vers s) = true) /\
  s_vers s <= h_vers p /\ min_version K p <= s_vers s <= max_version K p /\
  ((p_auth p = k_require_any K \/ p_auth p = k_require_verify K) -> s_certs s <> []) /\
  (s_certs s <> [] -> p_auth p <> k_no_cert K).
Proof. exact resumption_policy. Qed.
Print Assumptions C44_resumption_policy.

(* C44_params_preserved.  The resumed connection uses the session's master secret and cipher suite
   (s and suite are what doResumeHandshake installs) but runs at c.vers = mutualVersion(clientHello.vers),
   not at the session's version.  Full statement (false):
     check_for_resumption .. p = Some (s, suite) -> conn_version K p = Some cv -> s_vers s = cv.
   Proved: the session's version is never above the connection's and equals it when the client offers
   exactly the session's version; refuted otherwise (finding 1). *)
Theorem C44_params_preserved_partial : forall mac ctr K table p s suite cv,
  check_for_resumption mac ctr K table p = Some (s, suite) -> conn_version K p = Some cv ->
  suite = s_suite s /\ s_vers s <= cv /\ (h_vers p = s_vers s -> cv = s_vers s).
Proof. exact params_preserved_partial. Qed.
Print Assumptions C44_params_preserved_partial.
Theorem C44_version_refuted : forall mac ctr,
  check_for_resumption mac ctr K0 table0 pol_refute = Some (sess10, 47) /\
  conn_version K0 pol_refute = Some 771 /\ s_vers sess10 < 771.
Proof. exact version_refuted_lemma. Qed.
Print Assumptions C44_version_refuted.

(* The property predicate the harness evaluates on the implementation holds of the model on every
   checkForResumption input outside finding class 1 (session version below connection version). *)
Theorem C44_prop_of_model_policy : forall k tb p col ks K table pol,
  dec_consts k = Some K -> all_some (map dec_pair tb) = Some table -> dec_policy p = Some pol ->
  let i := VL [VZ 3; k; VL tb; p; VB col; VB ks] in
  kf_C44 i = 0 -> prop_C44 i (run_C44 i) = true.
Proof. exact prop_C44_of_model_policy. Qed.
Print Assumptions C44_prop_of_model_policy.

(* CENTRAL THEOREM.  For every well-formed input (wf_C44: op 1 - the supplied HMAC value equals the
   presented tag only for the issued ticket under its own key, and the issued ticket decrypts to the issued
   state: the symbolic reading of the HMAC column; op 2 - state fits its length prefixes, 16-byte IV,
   32-byte HMAC value, key stream at least as long as the plaintext; op 3 - decodable) outside finding
   class 1 the property predicate evaluated by the harness holds of the model's output: accepted tickets
   are the issued ones, the buffer is untouched unless the MAC verified, encryptTicket's layout decrypts
   back to the state, and a resumption satisfies the whole policy. *)
Theorem C44_prop_of_model : forall i, wf_C44 i = true -> kf_C44 i = 0 -> prop_C44 i (run_C44 i) = true.
Proof. exact prop_C44_of_model. Qed.
Print Assumptions C44_prop_of_model.
(* generated cases (an own ticket, a single-bit flip in the ciphertext, an encryptTicket case) satisfy
   wf_C44; the own ticket is accepted and the flipped one rejected *)
Example C44_wf_examples :
  wf_C44 ex_own = true /\ wf_C44 ex_bitflip = true /\ wf_C44 ex_enc = true /\
  (exists a b c d buf, run_C44 ex_own = VL [VZ 1; a; b; c; d; buf]) /\
  (exists buf, run_C44 ex_bitflip = VL [VZ 0; buf]).
Proof. exact wf_examples_lemma. Qed.
