(* C42: TLS records are integrity-protected.  Property theorems only (proofs in proofs/TlsRecordProofs.v).

   Model (model/TlsRecord.v): Conn.Write/writeRecord/halfConn.encrypt and Conn.Read/readRecord/
   halfConn.decrypt of bfe_tls/conn.go after the handshake.  The per-record authenticated encryption
   (MAC-then-encrypt of the RC4 and CBC suites, AEAD of AES-GCM / ChaCha20-Poly1305) is an abstract pair
   seal/open; cryptographic strength is a hypothesis, what is proved is how BFE uses it: the sequence
   number, record type and version enter every check, the check precedes any use of the payload, errors
   are sticky, nothing of a rejected record is delivered. *)
From Coq Require Import List ZArith Bool.
From Bfe Require Import lib.Val lib.Bytes model.TlsRecord run.RunC42 proofs.TlsRecordProofs.
Import ListNotations.
Open Scope Z_scope.

(* C42_prefix_only.  For EVERY authenticated-encryption primitive (body type B, seal, open) such that
     - open inverts seal (open_seal),
     - a sealed body opens only under the sequence number and record type it was sealed with (open_bind:
       the MAC / AEAD additional data cover seq and type; the version is NOT assumed to be covered - the
       SSLv3 MAC does not cover it - readRecord's comparison with c.vers is what rejects a changed version),
   for every list S of plaintext records (type, payload) that the sender protected (payloads are bytes,
   at most 16384 long), and for EVERY record stream l (with `trail` bytes of an incomplete header at its
   end) in which each record body is either a body the sender sealed or one that opens under nothing
   (`authentic`: unforgeability, stated on the wire contents - the adversary may drop, reorder, replay,
   truncate, re-frame, modify and inject arbitrarily), calling Conn.Read until it fails yields (d, st, n):
     1. d is a prefix of the application data the sender wrote;
     2. the n accepted records are exactly the sender's first n records, unmodified, in order (n is the
        final sequence number: it advanced once per accepted record), and d is their application data;
     3. Read ends with io.EOF (st = 1) only if the whole stream is exactly the sender's first n records
        (a tail was cut off at a record boundary / inside the next header, or nothing was changed), or the
        sender's own close_notify was accepted in sequence.  Every other stream ends in a hard error
        (bad_record_mac 120, unexpected_message 110, record_overflow 122, protocol_version 170,
        no_renegotiation 200, io.ErrUnexpectedEOF 2). *)
Theorem C42_prefix_only :
  forall (B : Type) (seal : Z -> Z -> Z -> list Z -> B) (open : Z -> Z -> Z -> B -> option (list Z))
         (c : cfg) (S : list (Z * list Z)),
    (forall s t v p, open s t v (seal s t v p) = Some p) ->
    (forall s t v s' t' v' p, open s t v (seal s' t' v' p) <> None -> s = s' /\ t = t') ->
    Forall (fun tp => wf_bytes (snd tp) = true /\ blen (snd tp) <= maxPlaintext) S ->
    forall l trail d st n,
      Forall (authentic B seal open c S) l ->
      receive B open c l trail = (d, st, n) ->
      (exists rest, app_data S = d ++ rest) /\
      0 <= n /\ firstn (Z.to_nat n) l = firstn (Z.to_nat n) (protect B seal c S) /\
      d = app_data (firstn (Z.to_nat n) S) /\
      (st = 1 -> l = firstn (Z.to_nat n) (protect B seal c S) \/
                 (1 <= n /\ exists lvl, nth_error S (Z.to_nat n - 1) = Some (21, [lvl; 0]))).
Proof. exact receive_prefix_only. Qed.
Print Assumptions C42_prefix_only.

(* The sending side: the application data of the records produced by Conn.Write (1/n-1 split for CBC up
   to TLS 1.0, 1024-byte pieces) and Conn.Close is exactly what the application wrote. *)
Theorem C42_sender_data : forall cf writes close,
  app_data (plain_records cf writes close) = sent_bytes writes.
Proof. exact app_data_plain. Qed.
Print Assumptions C42_sender_data.

(* The executable model (free term algebra for seal/open, tamper scripts of flips, swaps, replays, drops,
   forged records, truncations and a stream cut - the inputs of the harness): for every well-formed
   input the delivered bytes are a prefix of the bytes written, the accepted records are the original
   first n, and if the adversary changed anything the receiver reads (relevant) other than cutting off
   a tail at a record boundary (tail_dropped, finding 1) Read does not end with io.EOF. *)
Theorem C42_model_prefix_and_detection : forall x w trail d st n,
  wf_base x = true -> ssl3_longpad (i_cfg x) = false -> tampered_wire x = (w, trail) ->
  receive sbody sopen (i_cfg x) w trail = (d, st, n) ->
  is_prefix d (sent_bytes (i_writes x)) = true /\
  0 <= n /\ firstn (Z.to_nat n) w = firstn (Z.to_nat n) (orig_wire x) /\
  (relevant x = true -> tail_dropped x = false -> st <> 1).
Proof. exact model_prefix_and_detection. Qed.
Print Assumptions C42_model_prefix_and_detection.

(* The property predicate that the harness evaluates on the implementation holds of the model on every
   tampered input outside finding class 1. *)
Theorem C42_prop_of_model_tampered_partial : forall i x,
  dec_C42 i = Some x -> wf_base x = true -> ssl3_longpad (i_cfg x) = false -> relevant x = true ->
  kf_C42 i = 0 -> prop_C42 i (run_C42 i) = true.
Proof. exact prop_C42_of_model_tampered. Qed.
Print Assumptions C42_prop_of_model_tampered_partial.

(* Completeness (the prefix can be everything): for every suite shape that exists in cipher_suites.go
   (cfg_ok: CBC block size 8 or 16, explicit IV empty or one block) and every peer whose CBC padding the
   receiving version accepts (pads_ok: SSLv3 looks only at the length byte - removePaddingSSL30 -, TLS
   requires uniform padding - removePadding), the untouched stream is delivered completely, Read ends
   as the client's final alert record says (clean_status: io.EOF for close_notify, for a warning alert -
   which readRecord drops - and for no alert; remote error 300+code for a fatal alert; unexpected_message
   for an alert of another level or length) and the final sequence number is the number of records. *)
Theorem C42_model_untampered : forall x, wf_base x = true -> cfg_ok (i_cfg x) = true -> pads_ok x = true ->
  receive sbody sopen (i_cfg x) (orig_wire x) 0 =
  (sent_bytes (i_writes x), clean_status (i_close x), Z.of_nat (length (S_of x))).
Proof. exact model_untampered. Qed.
Print Assumptions C42_model_untampered.

(* CENTRAL THEOREM.  For every input that decodes to a well-formed x (wf_C42: suite shape of the table,
   byte writes, stream below 16000 bytes, and a script that changes nothing the receiver reads is written
   as the empty script - the generator normalises such scripts; not the SSLv3-with-long-peer-padding
   shape of finding 2) and lies outside finding class 1, the
   property predicate evaluated by the harness holds of the model's output. *)
Theorem C42_prop_of_model : forall i x,
  dec_C42 i = Some x -> wf_C42 x = true -> kf_C42 i = 0 -> prop_C42 i (run_C42 i) = true.
Proof. exact prop_C42_of_model. Qed.
Print Assumptions C42_prop_of_model.
(* generated cases satisfy wf_C42 (corpus cases: AEAD tag flip, RC4 replay, forged close_notify, clean CBC) *)
Example C42_wf_examples :
  (exists x, dec_C42 ex_flip_tag = Some x /\ wf_C42 x = true) /\
  (exists x, dec_C42 ex_replay = Some x /\ wf_C42 x = true) /\
  (exists x, dec_C42 ex_forged_close = Some x /\ wf_C42 x = true) /\
  (exists x, dec_C42 ex_clean = Some x /\ wf_C42 x = true /\ pads_ok x = true) /\
  (exists x, dec_C42 ex_ssl3_pad_tls = Some x /\ wf_C42 x = true /\ pads_ok x = false /\
             run_C42 ex_ssl3_pad_tls = VL [VB []; VZ 120; VZ 0; VL [VL [VZ 0; VZ 120]; VL [VZ 0; VZ 120]]; VZ 120]) /\
  (exists x, dec_C42 ex_ssl3_pad_ssl3 = Some x /\ wf_C42 x = true /\ pads_ok x = true).
Proof. exact wf_examples_lemma. Qed.

(* Sticky error state.  After the Read call that returned the error st, every further Read call of the
   model returns no byte and st again, whatever its buffer size (although readRecord parks the rejected
   record in c.input: Conn.Read tests c.in.err first), so for EVERY number of Read calls the total number
   of delivered bytes is the length of the authenticated prefix d of C42_prefix_only.  The harness makes
   0-4 further Read calls with varying buffer sizes and a Write after the first error and compares;
   prop_C42 demands (0, st) of each. *)
Theorem C42_sticky_error : forall st bufs,
  Forall (fun r => r = (0, st)) (reads_after st bufs) /\
  forall d, total_delivered d (reads_after st bufs) = blen d.
Proof. exact sticky_reads. Qed.
Print Assumptions C42_sticky_error.

(* Finding 1 (refutation of "every tampering is detected as an error"): dropping the last application
   record and the close_notify is reported as plain io.EOF. *)
Theorem C42_tail_truncation_refuted : exists i x,
  dec_C42 i = Some x /\ wf_C42 x = true /\ relevant x = true /\ kf_C42 i = 1 /\
  run_C42 i = VL [VB [104; 101; 108; 108; 111]; VZ 1; VZ 1; VL [VL [VZ 0; VZ 1]; VL [VZ 0; VZ 1]]; VZ 0] /\ prop_C42 i (run_C42 i) = false.
Proof. exact tail_truncation_witness. Qed.
Print Assumptions C42_tail_truncation_refuted.

(* Finding 2 (second refutation of "every modification is detected"): SSLv3 authenticates only the last
   padding byte.  bfe_tls accepts SSLv3 records with more than one block of padding (removePaddingSSL30 does
   not bound the padding by the block size as the SSLv3 specification does), so a bit flipped inside such a
   padding is not detected: everything is delivered and Read ends with io.EOF.  In the model this is the
   one case where a body flip does not turn the body into junk (sbflip); the unforgeability premise
   `authentic` of C42_prefix_only fails for it, which is why the instance theorems carry the guard
   ssl3_longpad = false. *)
Theorem C42_ssl3_padding_refuted : exists x,
  dec_C42 ex_ssl3_longpad_flip = Some x /\ wf_base x = true /\ ssl3_longpad (i_cfg x) = true /\
  relevant x = true /\ kf_C42 ex_ssl3_longpad_flip = 2 /\
  run_C42 ex_ssl3_longpad_flip = VL [VB [104; 101; 108; 108; 111; 119; 111; 114; 108; 100]; VZ 1; VZ 5; VL [VL [VZ 0; VZ 1]; VL [VZ 0; VZ 1]]; VZ 0] /\
  prop_C42 ex_ssl3_longpad_flip (run_C42 ex_ssl3_longpad_flip) = false.
Proof. exact ssl3_padding_witness. Qed.
Print Assumptions C42_ssl3_padding_refuted.

(* Non-vacuity: a flipped AEAD tag bit, a replayed record, an injected plaintext close_notify are all
   relevant, not in the finding class, and end in bad_record_mac / unexpected_message after delivering
   only the genuine prefix. *)
Example C42_examples :
  run_C42 ex_flip_tag = VL [VB [104; 101; 108; 108; 111]; VZ 120; VZ 1; VL [VL [VZ 0; VZ 120]; VL [VZ 0; VZ 120]]; VZ 120] /\ kf_C42 ex_flip_tag = 0 /\
  run_C42 ex_replay = VL [VB [104; 101; 108; 108; 111]; VZ 120; VZ 1; VL [VL [VZ 0; VZ 120]; VL [VZ 0; VZ 120]]; VZ 120] /\ kf_C42 ex_replay = 0 /\
  run_C42 ex_forged_close = VL [VB [104]; VZ 110; VZ 1; VL [VL [VZ 0; VZ 110]; VL [VZ 0; VZ 110]]; VZ 110] /\ kf_C42 ex_forged_close = 0 /\
  run_C42 ex_clean = VL [VB [104; 101; 108; 108; 111; 119; 111; 114; 108; 100]; VZ 1; VZ 5; VL [VL [VZ 0; VZ 1]; VL [VZ 0; VZ 1]]; VZ 0].
Proof. exact examples_lemma. Qed.
