(* C42 placeholder, replaced below *)
From Coq Require Import List ZArith Bool.
From Bfe Require Import lib.Val model.TlsRecord proofs.TlsRecordProofs run.RunC42.
Open Scope Z_scope.
Theorem C42_open_seal : forall s t v p, sopen s t v (Sealed s t v p) = Some p.
Proof. exact sopen_seal. Qed.
Print Assumptions C42_open_seal.
