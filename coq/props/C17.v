(* C17: condition parsing and building are total and type-checked.  Property theorems only.
   Model: prototype_check (semant.go) and build_call (build.go:buildPrimitive + the matcher constructors of
   primitive.go) interpreted over coq/gen/CondProtos.v, which the translator regenerates from funcProtos and
   from the case clauses of buildPrimitive on every run.  External parsers (net.ParseIP, regexp.Compile,
   bfe_util.ParseTime/ParseTimeOfDay) are the fields of [ext], universally quantified here. *)
From Coq Require Import List ZArith Bool.
From Bfe Require Import lib.Val lib.Bytes gen.CondProtos model.CondParse model.CondPrim model.CondScan proofs.CondPrimProofs run.RunC17.
Import ListNotations.
Open Scope Z_scope.

(* Every primitive that prototypeCheck accepts has a case clause in buildPrimitive (and vice versa), and the
   default clause returns an error: no accepted name falls through to a nil condition. *)
Theorem C17_every_proto_has_builder : every_proto_has_builder = true /\ every_builder_has_proto = true /\ default_rejects = true.
Proof. exact (conj every_proto_has_builder_ok (conj every_builder_has_proto_ok default_rejects_ok)). Qed.
Print Assumptions C17_every_proto_has_builder.

(* After prototypeCheck has accepted a call name(args), every node.Args[k] that the selected case clause of
   buildPrimitive evaluates has k < len(args): building cannot panic with an index out of range. *)
Theorem C17_arg_indices_in_range : forall name (args : list arg),
  prototype_check protos name (map fst args) = 0 -> build_index_ok name (length args) = true.
Proof. exact indices_in_range_after_check. Qed.
Print Assumptions C17_arg_indices_in_range.

(* prototypeCheck accepts exactly the calls whose name is a known primitive and whose argument kinds are,
   in number and type, those of its prototype; unknown names, wrong counts and wrong kinds get distinct errors. *)
Theorem C17_arity_and_kind_checked : forall name kinds,
  prototype_check protos name kinds = 0 <-> lookup name protos = Some kinds.
Proof. exact proto_check_exact. Qed.
Print Assumptions C17_arity_and_kind_checked.
Theorem C17_unknown_rejected : forall name kinds, lookup name protos = None -> prototype_check protos name kinds = 1.
Proof. exact unknown_rejected. Qed.
Print Assumptions C17_unknown_rejected.

(* An accepted hash section "a-b" / "n" only addresses existing buckets: 0 <= a <= b < 10000
   (so setHashBuckets never writes outside the 10000-entry table). *)
Theorem C17_hash_section_bounds : forall sec a b,
  hash_section sec = Some (a, b) -> 0 <= a /\ a <= b /\ b < HashBuckets.
Proof. exact hash_section_bounds. Qed.
Print Assumptions C17_hash_section_bounds.

(* For all external parsers x, all names and all argument lists (any count, any kinds): the modelled Build of
   the call name(args) returns an error EXACTLY when the call must be rejected according to the property text:
   unknown primitive / wrong argument count / wrong argument types, or an invalid IP (list, range with mixed
   families or start > end), a regular expression that does not compile, an invalid hash-bucket section, an invalid
   or inverted time range / differing zones / non-empty period, or a port inside a req_host_in pattern. *)
Theorem C17_build_rejects_exactly_invalid : forall x name args,
  build_call x name args = None <-> must_reject x name args = true.
Proof. exact build_call_reject. Qed.
Print Assumptions C17_build_rejects_exactly_invalid.

(* Every implementation observation that agrees with the model satisfies the executable property (0 or 1,
   never a panic/hang marker; 1 exactly on must-reject inputs; composites: syntax errors and identifiers rejected). *)
Theorem C17_agree_implies_prop : forall i o, agree_C17 i o = true -> prop_C17 i o = true.
Proof. exact agree_implies_prop_C17. Qed.
Print Assumptions C17_agree_implies_prop.

(* Central theorem.  wf_C17 i: i is a single call (op 2), a composite over calls (op 3) or an ASCII text (op 4; the
   scanner, the Lex token filter, the callExpr/paramlist productions, the operator grammar, prototypeCheck and the
   builders are all modelled: model/CondScan.v).  On every such input the model's answer satisfies the property. *)
Theorem C17_prop_of_model : forall i, wf_C17 i = true -> kf_C17 i = 0 -> prop_C17 i (run_C17 i) = true.
Proof. exact prop_C17_of_model. Qed.
Print Assumptions C17_prop_of_model.

(* The model of Build is total: on every call, composite and ASCII text it answers 0 (condition) or 1 (error);
   in particular the modelled scanner/grammar cannot get stuck (fuel exhaustion is mapped to 1 = error). *)
Theorem C17_model_total : forall x text,
  build_text (build_composite x) text = 0 \/ build_text (build_composite x) text = 1.
Proof. exact build_text_01. Qed.
Print Assumptions C17_model_total.

(* a corpus case (corpus/C17/text.case: the lone double quote that used to panic) is well-formed, and the model
   rejects it *)
Example C17_wf_corpus : let i := VL [VZ 4; VB [34]; VL [VL []; VL []; VL []; VL []; VL []; VL []; VL []]] in
  wf_C17 i = true /\ run_C17 i = VZ 1.
Proof. split; reflexivity. Qed.
Example C17_text_accept : forall x, build_text (build_composite x)
  (* !default_t() // c *) [33;100;101;102;97;117;108;116;95;116;40;41;32;47;47;32;99] = 0.
Proof. intro x. vm_compute. reflexivity. Qed.

(* Non-vacuity: concrete calls. *)
Example C17_ex_accept : forall x, build_call x (* "req_path_in" *) [114;101;113;95;112;97;116;104;95;105;110]
                                     [(1, [47;97]); (2, [116;114;117;101])] <> None.
Proof. intros x. vm_compute. discriminate. Qed.
Example C17_ex_kind : forall x, build_call x [114;101;113;95;112;97;116;104;95;105;110] [(1, [47;97]); (1, [116;114;117;101])] = None.
Proof. intros x. reflexivity. Qed.
Example C17_ex_hash : hash_section [49;48;48;45;50;48;48] = Some (100, 200) /\ hash_section [53;45;52] = None
                      /\ hash_section [49;48;48;48;48] = None.
Proof. repeat split; reflexivity. Qed.
