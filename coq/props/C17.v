From Bfe Require Import lib.Val model.CondPrim run.RunC17.
Theorem C17_tmp : True. Proof. exact I. Qed.
Print Assumptions C17_tmp.
