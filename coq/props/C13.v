(* C13: documented configs load, loaded configs are closed, loaders never panic.  Property theorems only.
   Model (coq/model/ConfLoad.v): the decoded records of host_rule / vip_rule / route_rule / cluster_conf / gslb /
   cluster_table files, the loaders' Check functions and ServerDataConf.check as boolean functions
   (after /repo commits 71ef585 and 08d932b). *)
From Coq Require Import List ZArith Bool.
From Bfe Require Import lib.Val lib.Bytes model.ConfLoad model.ConfLoadWire proofs.ConfLoadProofs
  proofs.ConfLoadRunProofs run.RunC13.
Import ListNotations.
Open Scope Z_scope.

(* Every file set accepted by LoadServerDataConf is closed: each product named by a basic or advanced route table and
   the default product is a key of HostTags; each host-tag of Hosts is listed under some product; each cluster named by
   an advanced rule is a key of cluster_conf; each cluster named by a basic rule is a key of cluster_conf or is the
   documented keyword ADVANCED_MODE. *)
Theorem C13_accepted_is_closed : forall fs, accepted fs = true -> closed fs = true.
Proof. exact accepted_is_closed. Qed.
Print Assumptions C13_accepted_is_closed.

(* The property's "only references products that exist" also covers vip_rule.data.  BFE does not cross-check the products
   named there: the statement with closed_full (closed + every vip product is a key of HostTags) is false of the faithful
   model -- the witness is accepted and a request arriving on that vip gets the undefined product "ghost" and
   ErrNoProductRule -- and holds under the guard that excludes exactly that class (kf_C13 = 1). *)
Theorem C13_accepted_is_closed_refuted :
  exists fs, accepted fs = true /\ closed_full fs = false
    /\ match load fs with
       | Some t => oc_product (lookup t w_probe_vip) = b_ghost /\ oc_err (lookup t w_probe_vip) = 2
       | None => False
       end.
Proof. exists w_vip_ghost. exact refuted_vip_ghost. Qed.
Print Assumptions C13_accepted_is_closed_refuted.
Theorem C13_accepted_is_closed_partial : forall fs,
  vip_products_defined fs = true -> accepted fs = true -> closed_full fs = true.
Proof. exact accepted_is_closed_full. Qed.
Print Assumptions C13_accepted_is_closed_partial.

(* Every file set that follows the documented format is accepted: all documented items present with documented values,
   host names pairwise distinct as host names, each host-tag under one product, references defined -- including basic
   rules whose cluster is ADVANCED_MODE (rejected before /repo commit 71ef585, see known_findings/C13.txt). *)
Theorem C13_documented_accepted : forall fs, documented fs = true -> accepted fs = true.
Proof. exact documented_is_accepted. Qed.
Print Assumptions C13_documented_accepted.

(* The same for the two stand-alone loaders: a documented gslb.data / cluster_table.data is accepted, and an accepted one
   is usable (every cluster has a sub-cluster of positive weight / every sub-cluster has only complete backends, one of
   them with positive weight -- a JSON null in a backend list is rejected, it crashed before /repo commit 08d932b). *)
Theorem C13_gslb : forall f, (doc_gslb f = true -> gslb_conf_load f = true) /\ (gslb_conf_load f = true -> usable_gslb f = true).
Proof. intro f. split; [apply gslb_doc_load | apply gslb_load_usable]. Qed.
Print Assumptions C13_gslb.
Theorem C13_cluster_table : forall f, (doc_ctable f = true -> ctable_load f = true) /\ (ctable_load f = true -> usable_ctable f = true).
Proof. intro f. split; [apply ctable_doc_load | apply ctable_load_usable]. Qed.
Print Assumptions C13_cluster_table.

(* Totality: for every input the model produces accept/reject answers, never the crash marker: the decision logic of the
   loaders has no partial operation (every optional field is tested before use). *)
Theorem C13_total : forall st h v r c g t,
  no_panic (run_C13 (VL [VZ 1; VZ st; h; v; r; c])) = true /\ no_panic (run_C13 (VL [VZ 2; VZ st; g])) = true
  /\ no_panic (run_C13 (VL [VZ 3; VZ st; t])) = true.
Proof. intros. split; [apply model_total_sdc | split; [apply model_total_gslb | apply model_total_ctable]]. Qed.
Print Assumptions C13_total.

(* The model satisfies the executable property prop_C13 (the predicate the harness evaluates on the implementation's
   observations) on every decodable input of the three modelled operations outside the finding class (kf_C13 = 0). *)
Theorem C13_prop_of_model : forall st h v r c fs, d_files h v r c = Some fs ->
  kf_C13 (VL [VZ 1; VZ st; h; v; r; c]) = 0 ->
  prop_C13 (VL [VZ 1; VZ st; h; v; r; c]) (run_C13 (VL [VZ 1; VZ st; h; v; r; c])) = true.
Proof. exact prop_model_sdc. Qed.
Print Assumptions C13_prop_of_model.
Theorem C13_prop_of_model_gslb : forall st g f, d_gslb g = Some f ->
  prop_C13 (VL [VZ 2; VZ st; g]) (run_C13 (VL [VZ 2; VZ st; g])) = true.
Proof. exact prop_model_gslb. Qed.
Print Assumptions C13_prop_of_model_gslb.
Theorem C13_prop_of_model_cluster_table : forall st t f, d_ctable t = Some f ->
  prop_C13 (VL [VZ 3; VZ st; t]) (run_C13 (VL [VZ 3; VZ st; t])) = true.
Proof. exact prop_model_ctable. Qed.
Print Assumptions C13_prop_of_model_cluster_table.

(* Non-vacuity: a documented two-product file set with a basic rule that targets ADVANCED_MODE. *)
Example C13_documented_inhabited : documented w_doc_adv = true /\ accepted w_doc_adv = true /\ closed_full w_doc_adv = true.
Proof. exact doc_inhabited. Qed.

(* A JSON null (or a missing object) at any pointer position of host_rule.data -- Version, Hosts, HostTags, the host list
   of a host-tag, the tag list of a product -- makes HostRuleConfLoad return an error, whatever the other sections
   contain (in particular when Hosts is empty, so that no per-host loop runs). *)
Theorem C13_host_null_rejected : forall f,
  hf_version f = None \/ hf_hosts f = None \/ hf_tags f = None
  \/ (exists t, In (t, None) (olist (hf_hosts f))) \/ (exists p, In (p, None) (olist (hf_tags f))) ->
  host_conf_load f = None.
Proof. exact host_null_rejected. Qed.
Print Assumptions C13_host_null_rejected.

(* Central theorem: on every well-formed input (a decodable record of one of the three modelled operations -- what the
   generators emit) outside the finding class, the model's output satisfies the executable property the harness evaluates
   on the implementation's observations. *)
Theorem C13_central : forall i, wf_C13 i = true -> kf_C13 i = 0 -> prop_C13 i (run_C13 i) = true.
Proof. exact c13_central. Qed.
Print Assumptions C13_central.
(* a generated case (class doc-advmode) is well-formed and outside the finding class *)
Example C13_wf_generated : let i := (VL [(VZ 1); (VZ 309270901); (VL [(VL [(VB [118;49])]); (VL []); (VL [(VL [(VL [(VB [116;49]); (VL [(VL [(VB [98;46;111;114;103])])])]); (VL [(VB [116;50]); (VL [(VL [(VB [88;46;66;46;79;82;71])])])]); (VL [(VB [116;51]); (VL [(VL [(VB [67;46;110;101;116]); (VB [69;46;100;101;118])])])]); (VL [(VB [116;52]); (VL [(VL [(VB [100;46;105;111;46])])])]); (VL [(VB [116;53]); (VL [(VL [(VB [97;112;105;46;101;46;100;101;118])])])])])]); (VL [(VL [(VL [(VB [112;49]); (VL [(VL [(VB [116;49]); (VB [116;50])])])]); (VL [(VB [112;114;111;100;66]); (VL [(VL [(VB [116;51])])])]); (VL [(VB [112;51]); (VL [(VL [(VB [116;52]); (VB [116;53])])])])])])]); (VL [(VB [118;49]); (VL [(VL [(VB [112;49]); (VL [(VL [(VB [49;46;50;46;51;46;52]); (VL [(VB [49;46;50;46;51;46;52])])]); (VL [(VB [49;57;50;46;49;54;56;46;49;46;49]); (VL [(VB [49;57;50;46;49;54;56;46;49;46;49])])])])]); (VL [(VB [112;114;111;100;66]); (VL [(VL [(VB [49;55;50;46;49;54;46;48;46;57]); (VL [(VB [49;55;50;46;49;54;46;48;46;57])])])])]); (VL [(VB [112;51]); (VL [(VL [(VB [56;46;56;46;56;46;56]); (VL [(VB [56;46;56;46;56;46;56])])])])])])]); (VL [(VL [(VB [118;49])]); (VL [(VL [(VL [(VB [112;114;111;100;66]); (VL [(VL [(VL []); (VL [(VB [47;101])]); (VL [(VB [65;68;86;65;78;67;69;68;95;77;79;68;69])])])])])])]); (VL [(VL [(VL [(VB [112;49]); (VL [(VL [(VL [(VZ 1)]); (VL [(VB [99;49])])]); (VL [(VL [(VZ 0)]); (VL [(VB [99;49])])])])]); (VL [(VB [112;114;111;100;66]); (VL [(VL [(VL [(VZ 1)]); (VL [(VB [99;49])])]); (VL [(VL [(VZ 0)]); (VL [(VB [99;49])])])])])])])]); (VL [(VL [(VB [118;49])]); (VL [(VL [(VL [(VB [99;49]); (VL [(VL [(VB [119;115])]); (VL []); (VL [(VB [47;115;63;120;61;49])]); (VL []); (VL []); (VL [(VZ 3)]); (VL []); (VL [])])])])])])]) in wf_C13 i = true /\ kf_C13 i = 0.
Proof. vm_compute. split; reflexivity. Qed.
