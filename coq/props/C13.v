(* C13: documented configs load, loaded configs are closed, loaders never panic.  Property theorems only. *)
From Coq Require Import List ZArith Bool.
From Bfe Require Import lib.Val lib.Bytes model.ConfLoad model.ConfLoadWire proofs.ConfLoadProofs run.RunC13.
Import ListNotations.
Open Scope Z_scope.

(* Every file set accepted by (the model of) LoadServerDataConf is closed: each product named by a basic or advanced
   route table and the default product is a key of HostTags; each host-tag of Hosts is listed under some product; each
   cluster named by an advanced rule is a key of cluster_conf; each cluster named by a basic rule is a key of
   cluster_conf or is the documented keyword ADVANCED_MODE. *)
Theorem C13_accepted_is_closed : forall fs, accepted fs = true -> closed fs = true.
Proof. exact accepted_is_closed. Qed.
Print Assumptions C13_accepted_is_closed.
