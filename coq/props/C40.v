(* C40: SPDY server enforces stream and flow-control rules.  Property theorems only.
   The model (model/SpdyServer.v) is the serve-loop state machine; `run_events c evs` folds a list of
   events (client frames, handler reads/writes) and returns the per-event observations. *)
From Coq Require Import List ZArith Bool.
From Bfe Require Import lib.Val model.SpdyServer proofs.SpdyServerProofs run.RunC40.
Import ListNotations.
Open Scope Z_scope.

(* For EVERY sequence of events (any client frames in any order, any handler behaviour; DATA lengths are
   non-negative, as lengths are) from a fresh connection:
   - no event reaches one of the server's panic("internal error ...") sites (no Bug observation), and
   - inbound_within_window: in the final (hence in every reachable) state the invariant Inv holds:
       0 <= session receive window,  session window + all unread buffered bytes <= 65536 (what was advertised),
       and per stream 0 <= stream window, stream window + buffered <= 65536;
     i.e. the server never holds more DATA than it advertised, per stream and per session. *)
Theorem C40_no_bug_reachable_and_inbound_within_window : forall maxs evs os cf,
  forallb ev_ok evs = true -> run_events (init_conn maxs) evs = Some (os, cf) ->
  existsb (val_eqb Bug) os = false /\ Inv cf.
Proof. exact no_bug_from_init. Qed.
Print Assumptions C40_no_bug_reachable_and_inbound_within_window.

(* inbound_within_window, event level: a DATA frame longer than the stream's or the session's remaining
   window is not buffered; the stream is reset with FLOW_CONTROL_ERROR (7). *)
Theorem C40_excess_data_is_flow_error : forall c id n fin s,
  find_s id (strs c) = Some s -> sstate s = 1 -> hasbody s = true ->
  (decl s = -1 \/ bodyb s + n <= decl s) -> 0 < n -> zmin (sinflow s) (cinflow c) < n ->
  process_data c id n fin = then_tickle (reset_stream c id 7).
Proof. exact data_over_window_reset. Qed.
Print Assumptions C40_excess_data_is_flow_error.

(* ... and an accepted DATA frame takes exactly its length from both windows and buffers exactly that. *)
Theorem C40_accepted_data_accounting : forall c id n s,
  find_s id (strs c) = Some s -> sstate s = 1 -> hasbody s = true -> decl s = -1 ->
  0 < n -> n <= zmin (sinflow s) (cinflow c) -> bclosed s = false -> buf s + n <= INITWIN ->
  process_data c id n false =
  (upd (set_cin c (cinflow c - n)) (s_with_in s (sinflow s - n) (buf s + n) (bodyb s + n) 1), []).
Proof. exact data_accept. Qed.
Print Assumptions C40_accepted_data_accounting.

(* replenish_by_consumed, positive part: when a handler reads n > 0 buffered bytes (n = min(k, buffered)) the
   first frame written is WINDOW_UPDATE(session, n), in every reachable state not silenced by a GOAWAY. *)
Theorem C40_replenish_by_consumed_reads : forall c id k s,
  Inv c -> find_s id (strs c) = Some s -> 0 < zmin k (buf s) -> muted c = false ->
  exists c' fs, handler_read c id k = (c', f_wu 0 (zmin k (buf s)) :: fs, zmin k (buf s)).
Proof. exact read_replenishes. Qed.
Print Assumptions C40_replenish_by_consumed_reads.

(* replenish_by_consumed is still REFUTED for unread bytes of a closed stream (known finding 1): a client that
   sends 1000 bytes on stream 1 and resets it before the handler reads them never gets those 1000 bytes of
   session window back: the executable property is false on the model's own trace, and the input is in the
   known-finding class.  Dropped DATA frames (unknown stream) ARE returned since the fix (second example). *)
Theorem C40_replenish_by_consumed_refuted :
  prop_C40 w_leak (run_C40 w_leak) = false /\ kf_C40 w_leak = 1.
Proof. exact leak_lemma. Qed.
Print Assumptions C40_replenish_by_consumed_refuted.
Example C40_replenish_nonvacuous : prop_C40 w_noleak (run_C40 w_noleak) = true /\ kf_C40 w_noleak = 0.
Proof. exact noleak_lemma. Qed.
Example C40_dropped_data_refunded : prop_C40 w_dropped (run_C40 w_dropped) = true /\ kf_C40 w_dropped = 0.
Proof. exact dropped_lemma. Qed.

(* inbound_within_window is REFUTED from the client's point of view (known finding 2): the stream-level
   WINDOW_UPDATE waits behind the stream's flow-blocked response DATA while the server already counts the
   window as given, so 65536 bytes are accepted when the client has been told 35536. *)
Theorem C40_advertised_window_refuted :
  prop_C40 w_hol (run_C40 w_hol) = false /\ kf_C40 w_hol = 2.
Proof. exact hol_lemma. Qed.
Print Assumptions C40_advertised_window_refuted.

(* outbound_within_client_windows, event level: response DATA leaves the write scheduler only through
   take_head (see sched); a DATA frame of m > 0 bytes is released only if m fits the stream's send window,
   the session's send window and the 16384-byte frame limit, and the session window is charged exactly m.
   (Over histories this clause is checked by prop_C40 on the implementation's frames, not proved.) *)
Theorem C40_outbound_within_client_windows : forall c id s n fin q,
  find_s id (strs c) = Some s -> outq s = (0, n, fin) :: q -> 0 < n ->
  exists m c', take_head c id = (c', f_data id m (fin && (m =? n)) :: (if fin && (m =? n) && (sstate s =? 1) then [f_rst id 5] else []))
    /\ m <= n /\ m <= soflow s /\ m <= cflow c /\ m <= MAXFRAME /\ cflow c' = cflow c - m.
Proof. exact take_head_data_within_windows. Qed.
Print Assumptions C40_outbound_within_client_windows.

(* invalid_ids_rejected: before any GOAWAY, a SYN_STREAM whose id is even or lower than the highest id seen
   ends the session with GOAWAY(last-good = highest id, PROTOCOL_ERROR); a repeated highest id resets that stream. *)
Theorem C40_invalid_ids_rejected : forall c id fin cl bad,
  goaway c < 0 -> (id mod 2 <> 1 \/ id < maxid c) ->
  process_syn c id fin cl bad = go_away c 1 /\ snd (go_away c 1) = [f_goaway (maxid c) 1].
Proof. exact syn_invalid_id. Qed.
Print Assumptions C40_invalid_ids_rejected.
Theorem C40_duplicate_id_reset : forall c id fin cl bad,
  goaway c < 0 -> id mod 2 = 1 -> id = maxid c ->
  process_syn c id fin cl bad = then_tickle (reset_stream c id 1).
Proof. exact syn_dup_id. Qed.
Print Assumptions C40_duplicate_id_reset.

(* closed_stream_frames_rejected (+ replenish for dropped DATA, after the /repo fix e68f394): DATA of n > 0
   bytes for a stream that is not in the table, fitting the session window, is answered with
   WINDOW_UPDATE(session, n) -- the dropped bytes are handed back at once -- then RST_STREAM(INVALID_STREAM),
   and the server's session window is unchanged.  DATA for a stream the client already half-closed is dropped the
   same way (drop_data) with RST_STREAM(STREAM_ALREADY_CLOSED).  (emit = nothing after a GOAWAY with an error status) *)
Theorem C40_closed_stream_frames_rejected : forall c id n fin,
  find_s id (strs c) = None -> 0 < n -> n <= cinflow c ->
  exists c' fs, process_data c id n fin = (c', emit c [f_wu 0 n] ++ emit c [f_rst id 2] ++ fs) /\ cinflow c' = cinflow c.
Proof. exact data_unknown_stream. Qed.
Print Assumptions C40_closed_stream_frames_rejected.
Theorem C40_half_closed_stream_data_rejected : forall c id n fin s,
  find_s id (strs c) = Some s -> sstate s <> 1 ->
  process_data c id n fin = drop_data c id n 9.
Proof. exact data_closed_stream. Qed.
Print Assumptions C40_half_closed_stream_data_rejected.

(* Lifting to whole histories.  `reach c`: c is the state after some event history from a fresh connection.
   Every reachable state satisfies the inbound invariant, and from every reachable state ANY further event
   (client frame or handler action) reaches no panic site and leads to a reachable state again; so each of the
   per-event rule theorems above (stated for an arbitrary state c) applies at every point of every history,
   and C40_replenish_by_consumed_reads holds there without its invariant premise. *)
Theorem C40_reachable_states_invariant : forall c, reach c -> Inv c.
Proof. exact reach_inv. Qed.
Print Assumptions C40_reachable_states_invariant.
Theorem C40_every_event_after_every_history : forall c ev c' fs x,
  reach c -> ev_ok ev = true -> step c ev = Some (c', fs, x) -> has_bug fs = false /\ reach c'.
Proof. exact reach_step. Qed.
Print Assumptions C40_every_event_after_every_history.
Theorem C40_replenish_on_every_history : forall c id k s,
  reach c -> find_s id (strs c) = Some s -> 0 < zmin k (buf s) -> muted c = false ->
  exists c' fs, handler_read c id k = (c', f_wu 0 (zmin k (buf s)) :: fs, zmin k (buf s)).
Proof. exact reach_read_replenishes. Qed.
Print Assumptions C40_replenish_on_every_history.
