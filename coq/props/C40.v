(* C40: SPDY server enforces stream and flow-control rules.  Property theorems only. *)
From Coq Require Import List ZArith Bool.
From Bfe Require Import lib.Val model.SpdyServer proofs.SpdyServerProofs run.RunC40.
Import ListNotations.
Open Scope Z_scope.
Theorem C40_tmp : True. Proof. exact c40_placeholder. Qed.
Print Assumptions C40_tmp.
