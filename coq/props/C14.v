(* C14: configuration interpretation is deterministic.  Property theorems only.
   Model (coq/model/ConfLoad.v): every Go map of the configuration files is an association list whose order is the
   iteration order the Go runtime happens to use; the loaders process the lists in that order (later assignments to
   the same key overwrite earlier ones).  "Independent of map iteration order" = invariant under Permutation. *)
From Coq Require Import List ZArith Bool Permutation.
From Bfe Require Import lib.Val lib.Bytes model.ConfLoad model.ConfLoadWire proofs.ConfLoadProofs proofs.ConfLoadRunProofs run.RunC14.
Import ListNotations.
Open Scope Z_scope.

(* Take any file set fs and any fs' that contains the same entries with every JSON object (Go map) enumerated in another
   order, and any two iteration orders pick/pick' of buildHostRoute's range over host2HostTag.  If fs is outside the three
   finding classes (order_class fs = 0: host names pairwise different after lower-casing and dropping one trailing dot,
   every host-tag under one product, every canonical vip under one product) then LoadServerDataConf accepts both or
   rejects both, and if it accepts, HostTable.Lookup returns the same product, host-tag, cluster and error for every
   request (host, vip, path).  (route_keys_distinct: JSON object keys are distinct, guaranteed by encoding/json.) *)
Theorem C14_perm_invariant_partial : forall fs fs' pick pick',
  same_up_to_map_order fs fs' -> iteration_order pick -> iteration_order pick' ->
  order_class fs = 0 -> route_keys_distinct fs = true ->
  match load_with pick fs, load_with pick' fs' with
  | Some t, Some t' => forall p, lookup t p = lookup t' p
  | None, None => True
  | _, _ => False
  end.
Proof. exact perm_invariant_files. Qed.
Print Assumptions C14_perm_invariant_partial.

(* The unguarded statement (full C14: the guard order_class fs = 0 removed) is false of the faithful model, three ways. *)

(* 1. "a.com" under tag t1/product p1 and "A.com" under t2/p2: accepted; which product serves a.com depends on the order
      in which buildHostRoute visits the two map entries. *)
Theorem C14_perm_invariant_refuted_host_case :
  exists fs pick pick' p, iteration_order pick /\ iteration_order pick' /\
    match load_with pick fs, load_with pick' fs with
    | Some t, Some t' => oc_product (lookup t p) <> oc_product (lookup t' p)
    | _, _ => False
    end.
Proof.
  exists w_host_case, (fun l => l), (@rev _), w_probe_host.
  split; [exact iteration_order_id | split; [exact iteration_order_rev |]].
  generalize refuted_host_case. unfold differ.
  destruct (load_with (fun l => l) w_host_case), (load_with (@rev _) w_host_case); try discriminate.
  intros H E. rewrite E, seqb_refl in H. discriminate.
Qed.
Print Assumptions C14_perm_invariant_refuted_host_case.

(* 2. host-tag t1 listed under p1 and p2: the product of a.com depends on the order of HostTags ... *)
Theorem C14_perm_invariant_refuted_tag :
  exists fs fs' p, same_up_to_map_order fs fs' /\
    match load fs, load fs' with
    | Some t, Some t' => oc_product (lookup t p) <> oc_product (lookup t' p)
    | _, _ => False
    end.
Proof.
  exists w_tag_a, w_tag_b, w_probe_host. destruct refuted_tag as [Hs H]. split; [exact Hs|].
  revert H. unfold differ. destruct (load w_tag_a), (load w_tag_b); try discriminate.
  intros H E. rewrite E, seqb_refl in H. discriminate.
Qed.
Print Assumptions C14_perm_invariant_refuted_tag.

(*    ... and even whether the files are accepted at all (the product that loses its only tag "does not exist in host"). *)
Theorem C14_acceptance_refuted_tag :
  exists fs fs', same_up_to_map_order fs fs' /\ accepted fs = false /\ accepted fs' = true.
Proof. exists w_steal_a, w_steal_b. exact refuted_steal. Qed.
Print Assumptions C14_acceptance_refuted_tag.

(* 3. vip 1.2.3.4 listed under p1 and p2: the product chosen by vip depends on the order of Vips. *)
Theorem C14_perm_invariant_refuted_vip :
  exists fs fs' p, same_up_to_map_order fs fs' /\
    match load fs, load fs' with
    | Some t, Some t' => oc_product (lookup t p) <> oc_product (lookup t' p)
    | _, _ => False
    end.
Proof.
  exists w_vip_a, w_vip_b, w_probe_vip. destruct refuted_vip as [Hs H]. split; [exact Hs|].
  revert H. unfold differ. destruct (load w_vip_a), (load w_vip_b); try discriminate.
  intros H E. rewrite E, seqb_refl in H. discriminate.
Qed.
Print Assumptions C14_perm_invariant_refuted_vip.

(* Non-vacuity of the guarded theorem: a two-product configuration in two map orders that is in no finding class and is accepted. *)
Example C14_guard_inhabited :
  order_class w_vip_free = 0 /\ route_keys_distinct w_vip_free = true /\ accepted w_vip_free = true
  /\ same_up_to_map_order w_vip_free w_vip_free_swapped.
Proof. exact guard_inhabited. Qed.

(* Tie to the harness predicates: for an input outside the finding classes, whatever order the implementation's maps
   take (fs', pick'), the one summary it can show equals the model's, so the observed set is the model output, agrees
   with it and satisfies prop_C14 ("exactly one behaviour over all loads"). *)
Theorem C14_prop_of_model : forall i fs ps fs' pick',
  d_c14 i = Some (fs, ps) -> kf_C14 i = 0 -> route_keys_distinct fs = true ->
  same_up_to_map_order fs fs' -> iteration_order pick' ->
  let o := VL [summary pick' fs' ps] in
  o = run_C14 i /\ agree_C14 i o = true /\ prop_C14 i o = true.
Proof. exact c14_any_order. Qed.
Print Assumptions C14_prop_of_model.

(* bal_gslb.Init ranges over a Go map of sub-clusters; because the list is then sorted by name, the resulting
   (sub-cluster order, totalWeight, single, avail) does not depend on the iteration order (names are map keys: distinct). *)
Theorem C14_gslb_init_order_independent : forall conf conf',
  NoDup (map fst conf) -> Permutation conf conf' -> gslb_init conf = gslb_init conf'.
Proof. exact gslb_init_perm. Qed.
Print Assumptions C14_gslb_init_order_independent.

(* Reload-history independence of the balancer: BalanceGslb.Init(a) followed by Reload(b) (kept sub-clusters in the old
   order, new ones appended in map order, then sorted by name) ends in exactly the state of a fresh Init(b) -- sorted
   sub-cluster list, totalWeight, single, and avail when single -- so subClusterBalance picks the same sub-cluster for
   every hash value whatever was loaded before.  (Sub-cluster names are map keys: distinct.) *)
Theorem C14_gslb_reload_history_independent : forall a b,
  NoDup (map fst a) -> NoDup (map fst b) -> pos_total a <> 0 -> gslb_after_reload a b = gslb_fresh b.
Proof. exact gslb_reload_history_independent. Qed.
Print Assumptions C14_gslb_reload_history_independent.

(* Backends of a sub-cluster: BalanceRR.Init leaves them in file order, Update in (kept old order ++ new in map order);
   stickyBalance sorts by AddrInfo ("addr:port", unique per sub-cluster) first.  Hence the session-sticky backend for a
   hash value and the backend inventory depend only on the set of backends, not on the load history that ordered them
   -- also when several backends share one Name. *)
Theorem C14_sticky_backend_order_independent : forall bks bks' h,
  NoDup (map addr_info bks) -> Permutation bks bks' ->
  sticky_pick bks h = sticky_pick bks' h /\ bk_inventory bks = bk_inventory bks'.
Proof. exact sticky_pick_perm. Qed.
Print Assumptions C14_sticky_backend_order_independent.

(* Any load history: Init(a) followed by any number of successful Reloads and finally Reload(b) ends in the state of a
   fresh Init(b). *)
Theorem C14_gslb_history_independent : forall hist b,
  hist <> [] -> Forall loadable hist -> loadable b -> gslb_after_history hist b = gslb_fresh b.
Proof. exact gslb_history_independent. Qed.
Print Assumptions C14_gslb_history_independent.

(* Central theorem: on every well-formed input outside the finding classes the model output satisfies prop_C14; for
   the reload operation this says the model's (history; reload B) half equals its fresh-load-of-B half. *)
Theorem C14_central : forall i, wf_C14 i = true -> kf_C14 i = 0 -> prop_C14 i (run_C14 i) = true.
Proof. exact c14_central. Qed.
Print Assumptions C14_central.
(* generated cases (classes reload-replace-same-count-sticky-uri and sdc) are well-formed *)
Example C14_wf_generated_reload : wf_C14 (VL [(VZ 3); (VZ 8); (VL [(VZ 1); (VZ 3)]); (VL [(VL [(VL [(VB [120]); (VZ 9); (VL [(VL [(VB [97;112;112]); (VB [49;48;46;48;46;48;46;50]); (VZ 8081); (VZ 4)]); (VL [(VB [119;101;98;45;48;49]); (VB [49;48;46;48;46;48;46;49;48]); (VZ 8080); (VZ 2)])])]); (VL [(VB [97;97]); (VZ 7); (VL [(VL [(VB [119;101;98]); (VB [49;48;46;48;46;48;46;50]); (VZ 9); (VZ 1)]); (VL [(VB [119;101;98]); (VB [49;57;50;46;49;54;56;46;49;46;49]); (VZ 9); (VZ 1)]); (VL [(VB [119;101;98;45;48;49]); (VB [49;57;50;46;49;54;56;46;49;46;49]); (VZ 8081); (VZ 5)]); (VL [(VB [97;112;112]); (VB [49;57;50;46;49;54;56;46;49;46;49]); (VZ 8080); (VZ 3)]); (VL [(VB [97;112;112]); (VB [49;57;50;46;49;54;56;46;49;46;49]); (VZ 80); (VZ 4)])])]); (VL [(VB [115;117;98;95;97]); (VZ (-1)); (VL [(VL [(VB [119;101;98]); (VB [49;48;46;48;46;48;46;49]); (VZ 8080); (VZ 2)]); (VL [(VB [119;101;98]); (VB [49;48;46;48;46;48;46;49]); (VZ 9); (VZ 5)]); (VL [(VB [97;112;112]); (VB [49;57;50;46;49;54;56;46;49;46;49]); (VZ 8080); (VZ 3)]); (VL [(VB [119;101;98;45;48;49]); (VB [49;48;46;48;46;48;46;49;48]); (VZ 8080); (VZ 5)]); (VL [(VB [65;112;112]); (VB [49;48;46;48;46;48;46;49;48]); (VZ 8081); (VZ 1)])])])])]); (VL [(VL [(VB [109;49]); (VZ 0); (VL [(VL [(VB [97;112;112]); (VB [49;57;50;46;49;54;56;46;49;46;49]); (VZ 80); (VZ 5)]); (VL [(VB [119;101;98;45;48;49]); (VB [49;57;50;46;49;54;56;46;49;46;49]); (VZ 8081); (VZ 3)])])]); (VL [(VB [97;97]); (VZ 3); (VL [(VL [(VB [119;101;98]); (VB [49;57;50;46;49;54;56;46;49;46;49]); (VZ 9); (VZ 1)]); (VL [(VB [119;101;98;45;48;49]); (VB [49;57;50;46;49;54;56;46;49;46;49]); (VZ 8081); (VZ 5)]); (VL [(VB [97;112;112]); (VB [49;57;50;46;49;54;56;46;49;46;49]); (VZ 8080); (VZ 3)]); (VL [(VB [119;101;98]); (VB [49;48;46;48;46;48;46;50]); (VZ 9); (VZ 1)]); (VL [(VB [97;112;112]); (VB [49;57;50;46;49;54;56;46;49;46;49]); (VZ 80); (VZ 3)])])]); (VL [(VB [120]); (VZ 9); (VL [(VL [(VB [119;101;98;45;48;49]); (VB [49;48;46;48;46;48;46;49;48]); (VZ 8080); (VZ 2)]); (VL [(VB [97;112;112]); (VB [49;48;46;48;46;48;46;50]); (VZ 8081); (VZ 4)])])])]); (VL [(VL [(VB [10;42;188;245]); (VZ 14588092104202114209)]); (VL [(VB [10;163;157;247]); (VZ 4974517120947402620)]); (VL [(VB [10;69;6;219]); (VZ 1365090852536822037)]); (VL [(VB [10;66;76;56]); (VZ 140383274277299126)]); (VL [(VB [10;94;107;42]); (VZ 13075165901497504742)]); (VL [(VB [10;230;247;36]); (VZ 9054705765500881717)]); (VL [(VB [10;200;46;108]); (VZ 3231407368616127475)]); (VL [(VB [10;18;254;110]); (VZ 4634813991291526985)]); (VL [(VB [10;23;220;7]); (VZ 8118748324498792501)]); (VL [(VB [10;109;255;180]); (VZ 4181828536429377916)]); (VL [(VB [10;191;73;184]); (VZ 3853135134473820385)]); (VL [(VB [10;226;97;61]); (VZ 1866420667749950602)])])]) = true.
Proof. vm_compute. reflexivity. Qed.
Example C14_wf_generated_sdc : let i := (VL [(VZ 1); (VZ 1031358646); (VZ 20); (VL [(VL [(VB [118;49])]); (VL []); (VL [(VL [(VL [(VB [116;49]); (VL [(VL [(VB [97;112;105;46;101;46;100;101;118;46])])])]); (VL [(VB [116;50]); (VL [(VL [(VB [100;46;105;111])])])])])]); (VL [(VL [(VL [(VB [112;49]); (VL [(VL [(VB [116;49]); (VB [116;50])])])])])])]); (VL [(VB [118;49]); (VL [])]); (VL [(VL [(VB [118;49])]); (VL [(VL [(VL [(VB [112;49]); (VL [(VL [(VL [(VB [42])]); (VL [(VB [47;97])]); (VL [(VB [65;68;86;65;78;67;69;68;95;77;79;68;69])])])])])])]); (VL [(VL [(VL [(VB [112;49]); (VL [(VL [(VL [(VZ 1)]); (VL [(VB [99;108;117;115;116;101;114;95;98])])]); (VL [(VL [(VZ 1)]); (VL [(VB [99;49])])]); (VL [(VL [(VZ 0)]); (VL [(VB [99;108;117;115;116;101;114;95;98])])])])])])])]); (VL [(VL [(VB [118;49])]); (VL [(VL [(VL [(VB [99;49]); (VL [(VL [(VB [119;115])]); (VL []); (VL []); (VL [(VZ 2)]); (VL []); (VL [(VZ 2)]); (VL [(VB [67;111;111;107;105;101;58;85;73;68])]); (VL [])])]); (VL [(VB [99;108;117;115;116;101;114;95;98]); (VL [(VL []); (VL []); (VL [(VB [47;115;63;120;61;49])]); (VL [(VZ 2)]); (VL []); (VL []); (VL []); (VL [])])])])])]); (VL [(VL [(VB [97;112;105;46;101;46;100;101;118;58;56;48;56;48]); (VL []); (VB [47;97;98])]); (VL [(VB [117;110;107;110;111;119;110;46;101;120;97;109;112;108;101]); (VL []); (VB [47;97;47])]); (VL [(VB [115;117;98;46;97;112;105;46;101;46;100;101;118]); (VL [(VB [50;48;51;46;48;46;49;49;51;46;55])]); (VB [47;98;47;120])]); (VL [(VB [100;46;105;111;58;56;48;56;48]); (VL []); (VB [47;98])]); (VL [(VB [115;117;98;46;97;112;105;46;101;46;100;101;118]); (VL [(VB [50;48;51;46;48;46;49;49;51;46;55])]); (VB [47;99;47;100;47;101])])])]) in wf_C14 i = true /\ kf_C14 i = 0.
Proof. vm_compute. split; reflexivity. Qed.
