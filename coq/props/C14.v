(* C14: configuration interpretation is deterministic.  Property theorems only.
   Model (coq/model/ConfLoad.v): every Go map of the configuration files is an association list whose order is the
   iteration order the Go runtime happens to use; the loaders process the lists in that order (later assignments to
   the same key overwrite earlier ones).  "Independent of map iteration order" = invariant under Permutation. *)
From Coq Require Import List ZArith Bool Permutation.
From Bfe Require Import lib.Val lib.Bytes model.ConfLoad model.ConfLoadWire proofs.ConfLoadProofs proofs.ConfLoadRunProofs run.RunC14.
Import ListNotations.
Open Scope Z_scope.

(* Take any file set fs and any fs' that contains the same entries with every JSON object (Go map) enumerated in another
   order, and any two iteration orders pick/pick' of buildHostRoute's range over host2HostTag.  If fs is outside the three
   finding classes (order_class fs = 0: host names pairwise different after lower-casing and dropping one trailing dot,
   every host-tag under one product, every canonical vip under one product) then LoadServerDataConf accepts both or
   rejects both, and if it accepts, HostTable.Lookup returns the same product, host-tag, cluster and error for every
   request (host, vip, path).  (route_keys_distinct: JSON object keys are distinct, guaranteed by encoding/json.) *)
Theorem C14_perm_invariant_partial : forall fs fs' pick pick',
  same_up_to_map_order fs fs' -> iteration_order pick -> iteration_order pick' ->
  order_class fs = 0 -> route_keys_distinct fs = true ->
  match load_with pick fs, load_with pick' fs' with
  | Some t, Some t' => forall p, lookup t p = lookup t' p
  | None, None => True
  | _, _ => False
  end.
Proof. exact perm_invariant_files. Qed.
Print Assumptions C14_perm_invariant_partial.

(* The unguarded statement (full C14: the guard order_class fs = 0 removed) is false of the faithful model, three ways. *)

(* 1. "a.com" under tag t1/product p1 and "A.com" under t2/p2: accepted; which product serves a.com depends on the order
      in which buildHostRoute visits the two map entries. *)
Theorem C14_perm_invariant_refuted_host_case :
  exists fs pick pick' p, iteration_order pick /\ iteration_order pick' /\
    match load_with pick fs, load_with pick' fs with
    | Some t, Some t' => oc_product (lookup t p) <> oc_product (lookup t' p)
    | _, _ => False
    end.
Proof.
  exists w_host_case, (fun l => l), (@rev _), w_probe_host.
  split; [exact iteration_order_id | split; [exact iteration_order_rev |]].
  generalize refuted_host_case. unfold differ.
  destruct (load_with (fun l => l) w_host_case), (load_with (@rev _) w_host_case); try discriminate.
  intros H E. rewrite E, seqb_refl in H. discriminate.
Qed.
Print Assumptions C14_perm_invariant_refuted_host_case.

(* 2. host-tag t1 listed under p1 and p2: the product of a.com depends on the order of HostTags ... *)
Theorem C14_perm_invariant_refuted_tag :
  exists fs fs' p, same_up_to_map_order fs fs' /\
    match load fs, load fs' with
    | Some t, Some t' => oc_product (lookup t p) <> oc_product (lookup t' p)
    | _, _ => False
    end.
Proof.
  exists w_tag_a, w_tag_b, w_probe_host. destruct refuted_tag as [Hs H]. split; [exact Hs|].
  revert H. unfold differ. destruct (load w_tag_a), (load w_tag_b); try discriminate.
  intros H E. rewrite E, seqb_refl in H. discriminate.
Qed.
Print Assumptions C14_perm_invariant_refuted_tag.

(*    ... and even whether the files are accepted at all (the product that loses its only tag "does not exist in host"). *)
Theorem C14_acceptance_refuted_tag :
  exists fs fs', same_up_to_map_order fs fs' /\ accepted fs = false /\ accepted fs' = true.
Proof. exists w_steal_a, w_steal_b. exact refuted_steal. Qed.
Print Assumptions C14_acceptance_refuted_tag.

(* 3. vip 1.2.3.4 listed under p1 and p2: the product chosen by vip depends on the order of Vips. *)
Theorem C14_perm_invariant_refuted_vip :
  exists fs fs' p, same_up_to_map_order fs fs' /\
    match load fs, load fs' with
    | Some t, Some t' => oc_product (lookup t p) <> oc_product (lookup t' p)
    | _, _ => False
    end.
Proof.
  exists w_vip_a, w_vip_b, w_probe_vip. destruct refuted_vip as [Hs H]. split; [exact Hs|].
  revert H. unfold differ. destruct (load w_vip_a), (load w_vip_b); try discriminate.
  intros H E. rewrite E, seqb_refl in H. discriminate.
Qed.
Print Assumptions C14_perm_invariant_refuted_vip.

(* Non-vacuity of the guarded theorem: a two-product configuration in two map orders that is in no finding class and is accepted. *)
Example C14_guard_inhabited :
  order_class w_vip_free = 0 /\ route_keys_distinct w_vip_free = true /\ accepted w_vip_free = true
  /\ same_up_to_map_order w_vip_free w_vip_free_swapped.
Proof. exact guard_inhabited. Qed.

(* Tie to the harness predicates: for an input outside the finding classes, whatever order the implementation's maps
   take (fs', pick'), the one summary it can show equals the model's, so the observed set is the model output, agrees
   with it and satisfies prop_C14 ("exactly one behaviour over all loads"). *)
Theorem C14_prop_of_model : forall i fs ps fs' pick',
  d_c14 i = Some (fs, ps) -> kf_C14 i = 0 -> route_keys_distinct fs = true ->
  same_up_to_map_order fs fs' -> iteration_order pick' ->
  let o := VL [summary pick' fs' ps] in
  o = run_C14 i /\ agree_C14 i o = true /\ prop_C14 i o = true.
Proof. exact c14_any_order. Qed.
Print Assumptions C14_prop_of_model.

(* bal_gslb.Init ranges over a Go map of sub-clusters; because the list is then sorted by name, the resulting
   (sub-cluster order, totalWeight, single, avail) does not depend on the iteration order (names are map keys: distinct). *)
Theorem C14_gslb_init_order_independent : forall conf conf',
  NoDup (map fst conf) -> Permutation conf conf' -> gslb_init conf = gslb_init conf'.
Proof. exact gslb_init_perm. Qed.
Print Assumptions C14_gslb_init_order_independent.

(* Reload-history independence of the balancer: BalanceGslb.Init(a) followed by Reload(b) (kept sub-clusters in the old
   order, new ones appended in map order, then sorted by name) ends in exactly the state of a fresh Init(b) -- sorted
   sub-cluster list, totalWeight, single, and avail when single -- so subClusterBalance picks the same sub-cluster for
   every hash value whatever was loaded before.  (Sub-cluster names are map keys: distinct.) *)
Theorem C14_gslb_reload_history_independent : forall a b,
  NoDup (map fst a) -> NoDup (map fst b) -> pos_total a <> 0 -> gslb_after_reload a b = gslb_fresh b.
Proof. exact gslb_reload_history_independent. Qed.
Print Assumptions C14_gslb_reload_history_independent.

(* Backends of a sub-cluster: BalanceRR.Init leaves them in file order, Update in (kept old order ++ new in map order);
   stickyBalance sorts by AddrInfo ("addr:port", unique per sub-cluster) first.  Hence the session-sticky backend for a
   hash value and the backend inventory depend only on the set of backends, not on the load history that ordered them
   -- also when several backends share one Name. *)
Theorem C14_sticky_backend_order_independent : forall bks bks' h,
  NoDup (map addr_info bks) -> Permutation bks bks' ->
  sticky_pick bks h = sticky_pick bks' h /\ bk_inventory bks = bk_inventory bks'.
Proof. exact sticky_pick_perm. Qed.
Print Assumptions C14_sticky_backend_order_independent.
