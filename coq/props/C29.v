(* C29: the client address cannot be spoofed by untrusted peers.  Property theorems only.
   [parse] stands for Go's net.ParseIP followed by IP.String() (an external component: a premise of every theorem, for
   every possible such function).  process = mod_trust_clientip.acceptHandler (trust = membership of the peer's ip in
   the configured ranges), bfe_server.setClientAddr, mod_header.setDefaultHeader, on the header map parsed from the
   client's header lines [pairs]. *)
From Coq Require Import List ZArith Bool.
From Bfe Require Import lib.Val lib.Bytes gen.HopHeaders model.HopByHop model.ClientAddr proofs.ClientAddrProofs run.RunC29
     proofs.ClientAddrRunProofs.
Import ListNotations.
Open Scope Z_scope.

(* For EVERY trust table, peer address and client header lines: when the peer's ip is in no trusted range, the client
   address BFE uses (req.ClientAddr: conditions, balancing, logging) is the peer's socket address, and X-Real-Ip /
   X-Real-Port sent upstream are exactly the peer's ip text and port - whatever X-Real-Ip, X-Real-Port,
   X-Forwarded-For, X-Forwarded-Port the request carries (they are overwritten, duplicates included). *)
Theorem C29_untrusted_uses_peer : forall parse host local table peer pairs,
  trusted table (a_ip peer) = false ->
  let r := process parse host local table peer pairs in
  r_trusted r = false /\ r_caddr r = Some peer /\
  values_of s_xrip (r_headers r) = [a_text peer] /\
  values_of s_xrport (r_headers r) = [dec_of_Z (a_port peer)].
Proof. exact untrusted_uses_peer. Qed.
Print Assumptions C29_untrusted_uses_peer.

(* Trusted or not: X-Forwarded-For sent upstream is a single field whose last comma-separated element is the peer's ip
   (the ip text contains neither a comma nor a blank, as every net.IP.String() does). *)
Theorem C29_xff_ends_with_peer : forall parse host local table peer pairs,
  ip_text_ok (a_text peer) = true ->
  exists v, values_of s_xff (r_headers (process parse host local table peer pairs)) = [v] /\ last_elem v = a_text peer.
Proof. exact xff_ends_with_peer. Qed.
Print Assumptions C29_xff_ends_with_peer.

(* Trusted peers: the documented headers are honoured.  The address text is the first X-Real-Ip value when that is not
   empty (then the port text is the first X-Real-Port value), otherwise the first elements of X-Forwarded-For and
   X-Forwarded-Port; when the text is a valid ip, ClientAddr is that ip with the port (0 when the port text is not a
   number), and X-Real-Ip / X-Real-Port upstream are rewritten to their canonical texts. *)
Theorem C29_trusted_honours : forall parse host local table peer pairs cip cport ip text,
  trusted table (a_ip peer) = true ->
  header_candidate (hdel s_host (parse_headers pairs)) = (cip, cport) ->
  cip <> [] -> parse cip = Some (ip, text) ->
  let r := process parse host local table peer pairs in
  let port := match atoi cport with Some p => p | None => 0 end in
  r_trusted r = true /\ r_caddr r = Some (mk_addr ip text port) /\
  values_of s_xrip (r_headers r) = [text] /\ values_of s_xrport (r_headers r) = [dec_of_Z port].
Proof. exact trusted_honours. Qed.
Print Assumptions C29_trusted_honours.

(* X-Bfe-Ip upstream is the local address of the client connection, whatever X-Bfe-Ip the client sent. *)
Theorem C29_bfe_ip_overwritten : forall parse host local table peer pairs,
  values_of s_xbfeip (r_headers (process parse host local table peer pairs)) = [local].
Proof. exact bfe_ip_overwritten. Qed.
Print Assumptions C29_bfe_ip_overwritten.

(* Remark: a trusted peer that sends no address header leaves ClientAddr nil (no X-Real-Ip is added upstream). *)
Theorem C29_trusted_without_headers_nil : forall parse host local table peer pairs,
  trusted table (a_ip peer) = true ->
  fst (header_candidate (hdel s_host (parse_headers pairs))) = [] ->
  r_caddr (process parse host local table peer pairs) = None.
Proof. exact trusted_without_headers_nil. Qed.
Print Assumptions C29_trusted_without_headers_nil.

(* What mod_header wrote is what the backend receives: X-Forwarded-For, X-Real-Ip, X-Real-Port and X-Forwarded-Port pass
   the reverse proxy's hop-by-hop stage (hopByHopHeaderRemove over the generated HopHeaders list + the write-exclude
   filter, C26's model) unchanged, for EVERY header map - whatever Connection header the client sent.  (A proxy that
   acted on Connection tokens at that stage would let "Connection: X-Real-Ip" strip the peer's address; the harness
   sends such requests and prop_C29 requires the fields to be present at the backend.) *)
Theorem C29_upstream_survives : forall k m, In k addr_keys -> values_of k (to_backend m) = values_of k m.
Proof. exact upstream_survives. Qed.
Print Assumptions C29_upstream_survives.

(* End to end through the wire functions the harness evaluates on the real server: for EVERY input whose peer address
   text contains neither comma nor blank (wf_C29), the model's observation satisfies the executable property prop_C29
   (trust flag = table membership; X-Forwarded-For ends with the peer ip; untrusted: ClientAddr, X-Real-Ip, X-Real-Port
   are the peer's; trusted: the documented header is honoured).  No finding class: kf_C29 = 0 everywhere.  The model
   is tied to the running server by agree_C29 on every case. *)
Theorem C29_prop_of_model : forall i, wf_C29 i = true -> prop_C29 i (run_C29 i) = true.
Proof. exact prop_C29_of_model. Qed.
Print Assumptions C29_prop_of_model.

(* the corpus case wf-example (corpus/C29/conn-nominated.case) *)
Example C29_prop_of_model_nonvacuous :
  wf_C29 ex_wire = true /\
  run_C29 ex_wire = VL [VZ 1; VL [VB [0;0;0;0;0;0;0;0;0;0;255;255;1;2;3;4]; VZ 0];
                        VL [VB [49;50;55;46;48;46;48;46;50]]; VL [VB [49;46;50;46;51;46;52]]; VL [VB [48]];
                        VL [VB [52;48;48;48;48]]; VL [VB host_C29]; VL [VB [49;50;55;46;48;46;48;46;49]]].
Proof. exact ex_wire_ok. Qed.

(* Non-vacuity: peer 203.0.113.9:40000 sending "x-real-ip: 1.2.3.4", "X-Real-Port: 80", "X-Forwarded-For: 6.6.6.6,
   7.7.7.7"; untrusted under the table 10.0.0.0-10.255.255.255, trusted under 203.0.113.0-203.0.113.255. *)
Example C29_untrusted_example :
  trusted ex_table (a_ip ex_peer) = false /\ ip_text_ok (a_text ex_peer) = true /\
  let r := process ex_parse [] [] ex_table ex_peer ex_hdrs in
  r_caddr r = Some ex_peer /\
  values_of s_xff (r_headers r) = [[54;46;54;46;54;46;54;44;32;55;46;55;46;55;46;55;44;32] ++ a_text ex_peer].
Proof. exact untrusted_example. Qed.
Example C29_trusted_example :
  trusted ex_table_t (a_ip ex_peer) = true /\
  header_candidate (hdel s_host (parse_headers ex_hdrs)) = ([49;46;50;46;51;46;52], [56;48]) /\
  ex_parse [49;46;50;46;51;46;52] = Some ([0;0;0;0;0;0;0;0;0;0;255;255;1;2;3;4], [49;46;50;46;51;46;52]) /\
  r_caddr (process ex_parse [] [] ex_table_t ex_peer ex_hdrs) =
    Some (mk_addr [0;0;0;0;0;0;0;0;0;0;255;255;1;2;3;4] [49;46;50;46;51;46;52] 80).
Proof. exact trusted_example. Qed.
