(* C27: HTTP/1 responses to clients are correctly framed.  Property theorems only. *)
From Coq Require Import List ZArith Bool.
From Bfe Require Import lib.Val lib.Bytes model.Http1Resp run.RunC27 proofs.Http1RespProofs.
Import ListNotations.
Open Scope Z_scope.

(* The code before the /repo fix (response.bodyAllowed excluded only 304): a module response with status 204
   and a 5-byte body on an HTTP/1.1 keep-alive connection is written as a 204 header followed by the 5 bytes
   and the connection stays open: the client takes "hello" for the start of the next response. *)
Theorem C27_old_bodyless_refuted :
  exists i, dec_C27 i <> None /\
    prop_C27 i (VB (old_exchange_of i)) = false /\ prop_C27 i (run_C27 i) = true.
Proof. exact old_bodyless_refuted. Qed.
Print Assumptions C27_old_bodyless_refuted.
