(* C27: HTTP/1 responses to clients are correctly framed.  Property theorems only.
   Model: Http1Resp.v (response.WriteHeader/write/finishRequest, chunkWriter.writeHeader/Write/close, the 512-byte
   bufio between them, sendResponse/copyResponse) after the /repo fix a550697; reference parser ref_parse. *)
From Coq Require Import List ZArith Bool.
From Bfe Require Import lib.Val lib.Bytes model.Http1Resp run.RunC27 proofs.Http1RespProofs.
Import ListNotations.
Open Scope Z_scope.

(* Whatever a module (or, through backend_view, a backend) supplies as status, header h and body pieces, for every
   request version / method / Connection wish q and both copy modes ff (buffered io.Copy, or flush-per-write):
   let (out, close) be the bytes BFE writes and its decision to close the connection.  Provided
     - the supplied header is well formed (wf_hdrs: token names in canonical spelling, no Transfer-Encoding,
       at most one Content-Length, a decimal number of at most 18 digits),
     - and, when the response can carry a body (not HEAD, status not 1xx/204/304), the supplier is consistent
       (its reader does not fail and a declared Content-Length equals the body length),
   then for EVERY byte string `tail` that follows on the connection (the next response; necessarily empty when BFE
   closes), the strict reference parser reads out ++ tail as exactly one complete response with the same HTTP
   version and status, whose body is the supplied body (empty for HEAD / 1xx / 204 / 304), framed by Content-Length
   (1), chunked (2) or the end of the connection (3, then BFE does close), none (0) exactly when no body is
   allowed - and the parser stops exactly at `tail`: the next response starts where this one ends.
   The parsed header is the written header of writeHeader's decision (fs_of ...), see C27_headers_preserved. *)
Theorem C27_parses_as_one :
  forall q ff status h pieces err tail out close dr,
  wf_hdrs h = true -> (q_minor q = 0 \/ q_minor q = 1) -> 100 <= status <= 599 ->
  blen (concat pieces) < 2 ^ 62 ->
  (expects_b q status = true ->
   err = false /\ forall v, get_all s_cl h = [v] -> parse_dec v = Some (blen (concat pieces))) ->
  respond q (false, false, false, false) ff status h pieces err = (out, close, dr) ->
  (close = true -> tail = []) ->
  exists fs fr,
    ref_parse (q_head q) (out ++ tail) =
      Some (mkp (q_minor q) status fs fr (if expects_b q status then concat pieces else []) true tail) /\
    (fr =? 0) = negb (expects_b q status) /\
    exists clen hdone p, fs = fs_of (d_fields (wh q status h clen hdone p)) (d_extra (wh q status h clen hdone p)).
Proof. exact parses_as_one. Qed.
Print Assumptions C27_parses_as_one.

(* "the same end-to-end headers": the header the reference parser reads back (fs_of of writeHeader's decision,
   for every request, status, Content-Length state, and first-write) satisfies headers_ok against the supplied
   header h: for every supplied field name other than the framing fields (Content-Length, Transfer-Encoding,
   Connection; Content-Type on a 304) the same values in the same order, cleaned of line breaks and outer
   blanks; nothing else but framing fields and at most one added Date / Content-Type when none was supplied. *)
Theorem C27_headers_preserved :
  forall q status h clen hdone p, forallb key_ok h = true ->
  headers_ok status h (fs_of (d_fields (wh q status h clen hdone p)) (d_extra (wh q status h clen hdone p))) = true.
Proof. exact headers_preserved. Qed.
Print Assumptions C27_headers_preserved.

(* The central statement: on every input whose response comes from a module (src 0: before, src 2: after the
   cluster lookup) with a well-formed header and a consistent supplier, the executable property prop_C27 - the one
   evaluated on the bytes of the real server on every run - holds of the model's own output. *)
Theorem C27_prop_of_model_module :
  forall i c, dec_C27 i = Some c -> i_src c <> 1 ->
  (q_minor (i_q c) = 0 \/ q_minor (i_q c) = 1) -> 100 <= i_status c <= 599 ->
  wf_hdrs (i_hdrs c) = true -> blen (supplied_body c) < 2 ^ 62 -> irregular c = false ->
  prop_C27 i (run_C27 i) = true.
Proof. exact prop_of_model_module. Qed.
Print Assumptions C27_prop_of_model_module.

(* The same for backend replies (src 1): what sendResponse sees is backend_view of the reply (Connection: close
   removed by the transport, Content-Length re-added from the framing, no body for HEAD / 1xx / 204 / 304); the
   property is stated against the header and body the BACKEND supplied. *)
Theorem C27_prop_of_model_backend :
  forall i c, dec_C27 i = Some c -> i_src c = 1 ->
  (q_minor (i_q c) = 0 \/ q_minor (i_q c) = 1) -> 100 <= i_status c <= 599 ->
  wf_hdrs (i_hdrs c) = true -> get_all s_cl (i_hdrs c) = [] -> digits18 (dec_of_Z (i_declared c)) = true ->
  0 <= i_declared c < 10 ^ 80 ->
  blen (supplied_body c) < 2 ^ 62 -> irregular c = false ->
  prop_C27 i (run_C27 i) = true.
Proof. exact prop_of_model_backend. Qed.
Print Assumptions C27_prop_of_model_backend.

(* C27_head_and_bodyless_empty: a response that cannot carry a body (HEAD request, or status 1xx / 204 / 304)
   is never switched to chunked encoding by writeHeader, whatever the supplier's header and body are. *)
Theorem C27_head_and_bodyless_never_chunked :
  forall q status h clen hdone p,
  q_head q || negb (body_allowed_status status) = true ->
  d_chunking (write_header sniff_text fixed_date true body_allowed_status q (false, false, false, false) status h clen false hdone p) = false.
Proof. exact nobody_not_chunked. Qed.
Print Assumptions C27_head_and_bodyless_never_chunked.

(* The chunked body BFE writes for any list of non-empty writes decodes, by the strict chunk parser, to their
   concatenation, and the parser stops exactly at the byte after the last-chunk, whatever follows. *)
Theorem C27_chunked_body_decodes :
  forall ws fuel acc t,
  forallb (fun d => negb (is_empty d) && (blen d <? 16 ^ 16)) ws = true -> (length ws < fuel)%nat ->
  strict_chunks fuel (concat (map write_chunk ws) ++ last_chunk ++ t) acc = Some (acc ++ concat ws, t, true).
Proof. exact strict_chunks_written. Qed.
Print Assumptions C27_chunked_body_decodes.

(* The code before the /repo fix (response.bodyAllowed excluded only 304): a module response with status 204
   and a 5-byte body on an HTTP/1.1 keep-alive connection was written as a 204 header followed by the 5 bytes
   with the connection left open: the client takes "hello" for the start of the next response.  On the same
   input the fixed code satisfies the property. *)
Theorem C27_old_bodyless_refuted :
  exists i, dec_C27 i <> None /\
    prop_C27 i (VB (old_exchange_of i)) = false /\ prop_C27 i (run_C27 i) = true.
Proof. exact old_bodyless_refuted. Qed.
Print Assumptions C27_old_bodyless_refuted.

(* Non-vacuity of C27_parses_as_one: a 200 with a declared Content-Length, two header fields and a 5-byte body
   on HTTP/1.1 meets the hypotheses, and so does a 600-byte body without declared length (chunked). *)
Example C27_parses_as_one_nonvacuous :
  wf_hdrs ex_h1 = true /\ expects_b ex_q 200 = true /\ get_all s_cl ex_h1 = [[53]] /\
  parse_dec [53] = Some (blen (concat [ex_body5])) /\
  wf_hdrs ex_h2 = true /\ get_all s_cl ex_h2 = [] /\
  snd (fst (respond ex_q (false, false, false, false) false 200 ex_h2 [repeat 97 600] false)) = false.
Proof. exact parses_as_one_nonvacuous. Qed.

(* Non-vacuity of C27_prop_of_model_module: a module response after the cluster lookup (flush-per-write mode),
   200, declared Content-Length 5, body delivered in two pieces. *)
Example C27_prop_of_model_nonvacuous :
  exists c, dec_C27 witness_200 = Some c /\ i_src c <> 1 /\ wf_hdrs (i_hdrs c) = true /\
            expects_body c = true /\ irregular c = false /\ blen (supplied_body c) = 5.
Proof. exact prop_of_model_nonvacuous. Qed.
