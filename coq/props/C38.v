(* C38: HTTP/2 responses carry exactly the handler's response.  Property theorems only.
   frames_of e ops (model/H2Resp.v) = the frames bfe_http2 writes on a response stream when the handler performs the
   operations ops (Header().Set/Add, raw map access Header()[k] = append(..), WriteHeader, Write, Flush, in any order) and
   returns; e says whether the request
   was HEAD, the size of the response bufio.Writer and the keys of HopHeaders.  f_end f = frame f carries END_STREAM.
   The model describes the code after the two repairs recorded in known_findings/C38.txt. *)
From Coq Require Import List ZArith Bool.
From Bfe Require Import lib.Val lib.Bytes model.H2Resp run.RunC38 proofs.H2RespProofs.
Import ListNotations.
Open Scope Z_scope.

(* For every request kind, buffer size, hop list and handler script: the frame list is pre ++ [l] where no frame of
   pre carries END_STREAM and l does -- END_STREAM exactly once, on the last frame. *)
Theorem C38_end_stream_exactly_once_and_last : forall e ops,
  exists pre l, frames_of e ops = pre ++ [l] /\ (forall f, In f pre -> f_end f = false) /\ f_end l = true.
Proof. exact end_stream_exactly_once_and_last. Qed.
Print Assumptions C38_end_stream_exactly_once_and_last.

(* The body: the DATA payloads, concatenated, are exactly the bytes of the Write calls that returned nil (res has one
   0/1 entry per Write, 0 = nil error; Writes are refused for 1xx/204/304 and beyond a declared Content-Length),
   and a HEAD response carries no DATA bytes at all. *)
Theorem C38_body_exact : forall e ops fr res s,
  run_handler e ops = (fr, res, s) ->
  length res = length (write_payloads ops) /\
  concat (map f_data fr) = if e_head e then [] else accepted (write_payloads ops) res.
Proof. exact body_exact. Qed.
Print Assumptions C38_body_exact.

(* Header fields: in every HEADERS frame of the response -- the response headers and the trailers -- every field name
   is lower case (no_upper) and is none of connection, keep-alive, proxy-connection, transfer-encoding, upgrade
   (fields_ok), whatever the handler put into its header map through Header().Set/Add or by direct map access with
   arbitrary (also non-canonical) keys, provided the HopHeaders list
   contains the canonical spelling of these five names (hop_ok; Example C38_hop_ok_real: true of the real list). *)
Theorem C38_connection_specific_removed : forall e ops,
  hop_ok (e_hop e) ->
  forall es fl, In (FH es fl) (frames_of e ops) -> fields_ok fl = true.
Proof. exact connection_specific_removed. Qed.
Print Assumptions C38_connection_specific_removed.

Example C38_hop_ok_real :
  hop_ok [ [67;111;110;110;101;99;116;105;111;110]; [75;101;101;112;45;65;108;105;118;101];
           [80;114;111;120;121;45;65;117;116;104;101;110;116;105;99;97;116;101];
           [80;114;111;120;121;45;65;117;116;104;111;114;105;122;97;116;105;111;110];
           [80;114;111;120;121;45;67;111;110;110;101;99;116;105;111;110];
           [84;114;97;110;115;102;101;114;45;69;110;99;111;100;105;110;103]; [85;112;103;114;97;100;101] ].
Proof. exact hop_ok_real. Qed.

(* Status and frame order: the first frame of every response is a HEADERS frame whose first field is
   :status = the status the handler chose (spec_status: the code of the first WriteHeader unless a Write or Flush came
   first, else 200; status_field c = [(":status", decimal c)] for c <> 0); no other field of that frame (nostat fl) and
   no field of any later HEADERS frame is named :status; and every frame between that first HEADERS and the last frame
   is a DATA frame -- so a trailers HEADERS frame can only be the last frame, after the whole body. *)
Theorem C38_status_first_trailers_after_body : forall e ops,
  exists es fl rest,
    frames_of e ops = FH es (status_field (spec_status ops) ++ fl) :: rest
    /\ (forall f, In f (removelast rest) -> is_FH f = false)
    /\ nostat fl = true
    /\ (forall f, In f rest -> match f with FH _ fl' => nostat fl' = true | FD _ _ => True end).
Proof. exact status_first_trailers_last. Qed.
Print Assumptions C38_status_first_trailers_after_body.

(* Body-less statuses: when the handler's status is 1xx, 204 or 304 every Write is refused (result <> 0), so by
   C38_body_exact no DATA byte is sent. *)
Theorem C38_bodyless_statuses_refuse_writes : forall e ops fr res s,
  run_handler e ops = (fr, res, s) -> body_allowed (spec_status ops) = false ->
  forallb (fun r => negb (r =? 0)) res = true.
Proof. exact bodyless_refused. Qed.
Print Assumptions C38_bodyless_statuses_refuse_writes.

(* bufio.Writer.Write is modelled with fuel (its loop); the fuel never runs out: every Write result is 0 (accepted) or
   1 (refused), never the fuel marker 2 -- for every non-negative buffer size. *)
Theorem C38_write_results_01 : forall e ops fr res s,
  0 <= e_bsz e -> run_handler e ops = (fr, res, s) -> forallb (fun r => (r =? 0) || (r =? 1)) res = true.
Proof. exact write_results_01. Qed.
Print Assumptions C38_write_results_01.

(* THE central statement.  wf_C38 i (executable): the input decodes ([method bufsz hop script] with an optional flow-control
   script [w g], w, g > 0; method 0/1/2, bufsz > 0),
   the hop list contains the canonical spelling of the five connection-specific names (true of HopHeaders), every
   WriteHeader code is in 100..999.  On every such input the model's own observation run_C38 i satisfies the executable
   predicate prop_C38 that the harness evaluates on the frames decoded from the real server: :status first and equal to
   the handler's status and nowhere else, exactly one END_STREAM and on the last frame, all field names lower case and
   not connection-specific, DATA payloads = the bytes written successfully (none for HEAD and body-less statuses), any
   trailers HEADERS only as last frame, one result per Write.  kf_C38 is constantly 0 (the defects found were fixed). *)
Theorem C38_central : forall i, wf_C38 i = true -> kf_C38 i = 0 -> prop_C38 i (run_C38 i) = true.
Proof. exact prop_C38_central. Qed.
Print Assumptions C38_central.

(* The same for every iteration order n that Go's map range may take over the "Trailer:"-prefixed keys of the handler
   header in promoteUndeclaredTrailers (run_perm n; run_C38 = run_perm 0): the property does not depend on it ... *)
Theorem C38_central_all_orders : forall n i,
  wf_C38 i = true -> kf_C38 i = 0 -> prop_C38 i (run_perm n i) = true.
Proof. exact prop_C38_central_perm. Qed.
Print Assumptions C38_central_all_orders.

(* ... and the correspondence predicate agree_C38 (membership: the implementation's observation must equal the model's
   for one of the enumerated orders) accepts each of them. *)
Theorem C38_agree_accepts_model : forall n i, In n perms -> agree_C38 i (run_perm n i) = true.
Proof. exact agree_C38_perm. Qed.
Print Assumptions C38_agree_accepts_model.

(* The order is observable: with keys "Trailer:foo" = 1 and "Trailer:Foo" = 2 the trailer foo is sent as 2 or as 1. *)
Example C38_trailer_key_collision :
  let ops := [OWrite b_hi; OFlush; OSet (s_TrailerPrefix ++ [102;111;111]) [49]; OSet (s_TrailerPrefix ++ b_Foo) [50]] in
  frames_of (with_perm 0 env_get) ops <> frames_of (with_perm 1 env_get) ops
  /\ last (frames_of (with_perm 0 env_get) ops) (FD false []) = FH true [(to_lower b_Foo, [50])]
  /\ last (frames_of (with_perm 1 env_get) ops) (FD false []) = FH true [(to_lower b_Foo, [49])].
Proof. exact collision_witness. Qed.

(* The scheduler pass (writesched.go takeFrom): the frames above are the handler's DATA writes; on the wire each write is
   cut into pieces of at most min(stream window, 16384) bytes (wire_frames g w, for a client that starts with window w
   and grants g whenever its window reaches 0).  The pass keeps the stream well-shaped: if stream_ok holds of the
   writes it holds of the wire frames -- in particular END_STREAM stays on the last piece only and the bytes are the
   same.  (run_C38 applies the pass; C38_central above is stated about its result.) *)
Theorem C38_scheduler_pass_preserves_stream : forall g w status body fs,
  stream_ok status body fs = true -> stream_ok status body (wire_frames g w fs) = true.
Proof. exact stream_ok_wire. Qed.
Print Assumptions C38_scheduler_pass_preserves_stream.

Example C38_wire_example :
  wire_frames 3 4 [FH false []; FD true [1;2;3;4;5;6;7;8;9;10]]
  = [FH false []; FD false [1;2;3;4]; FD false [5;6;7]; FD true [8;9;10]].
Proof. exact wire_example. Qed.

(* HEADERS/CONTINUATION: writeResHeaders.writeFrame cuts an encoded header block b (response headers or trailers) into
   fragments (header_fragments b: each fragment with its END_HEADERS flag; the first is the HEADERS frame, the others
   CONTINUATION frames).  For every block: the fragments concatenate to the block, every fragment is non-empty and at
   most 16384 bytes, and for a non-empty block exactly the last fragment carries END_HEADERS. *)
Theorem C38_header_block_split : forall b,
  let fs := header_fragments b in
  concat (map fst fs) = b
  /\ Forall (fun x => 0 < blen (fst x) <= max_hdr_frame) fs
  /\ (b <> [] -> exists pre l, fs = pre ++ [(l, true)] /\ Forall (fun x => snd x = false) pre).
Proof. exact header_fragments_ok. Qed.
Print Assumptions C38_header_block_split.

(* The harness observes the fragment lengths and flags of every header block the real server writes; agree_C38 validates
   them against header_fragment_lens (total length), which is the length view of the split above ... *)
Theorem C38_header_fragment_lens_of_block : forall b,
  header_fragment_lens (blen b) = map (fun x => (blen (fst x), snd x)) (header_fragments b).
Proof. exact header_fragment_lens_of_block. Qed.
Print Assumptions C38_header_fragment_lens_of_block.

(* ... and the executable predicate block_ok that prop_C38 applies to the observed fragments (at least one fragment, each
   1..16384 bytes, END_HEADERS on the last and only there) holds of the model's split of every non-empty block. *)
Theorem C38_header_fragment_lens_ok : forall l, 0 < l -> block_ok (header_fragment_lens l) = true.
Proof. exact header_fragment_lens_ok. Qed.
Print Assumptions C38_header_fragment_lens_ok.

Example C38_header_split_boundaries :
  map snd (header_fragment_lens 16383) = [true] /\ header_fragment_lens 16384 = [(16384, true)]
  /\ header_fragment_lens 16385 = [(16384, false); (1, true)]
  /\ header_fragment_lens 32768 = [(16384, false); (16384, true)]
  /\ header_fragment_lens 32769 = [(16384, false); (16384, false); (1, true)].
Proof. exact header_fragments_examples. Qed.

(* a corpus case (declared, unset trailer) satisfies wf_C38 *)
Example C38_corpus_case_wf : wf_C38 corpus_case = true /\ prop_C38 corpus_case (run_C38 corpus_case) = true.
Proof. exact corpus_case_wf. Qed.

(* Non-vacuity / regression witnesses.  Trailer declared but never set (before the repair: HEADERS, DATA and no
   END_STREAM at all): the stream ends with an empty DATA frame. *)
Example C38_unset_trailer_ends_stream :
  let ops := [OSet b_Trailer b_Foo; OWrite b_hi] in
  exists fl, frames_of env_get ops = [FH false fl; FD false b_hi; FD true []].
Proof. exact unset_trailer_witness. Qed.
(* Declared and set trailers come after the body, END_STREAM on the trailers HEADERS. *)
Example C38_trailers_after_body_example :
  let ops := [OSet b_Trailer b_Foo; OWrite b_hi; OSet b_Foo b_close] in
  exists fl, frames_of env_get ops = [FH false fl; FD false b_hi; FH true [(to_lower b_Foo, b_close)]].
Proof. exact trailers_witness. Qed.
(* A declared trailer named Connection (before the repair: sent as `connection: close`) is not sent. *)
Example C38_connection_trailer_dropped :
  let ops := [OSet b_Trailer b_Connection; OWrite b_hi; OSet b_Connection b_close] in
  exists fl, frames_of env_get ops = [FH false fl; FD false b_hi; FD true []]
  /\ mem_bytes (to_lower b_Connection) (map fst fl) = false.
Proof. exact conn_trailer_witness. Qed.
