(* C38: HTTP/2 responses carry exactly the handler's response.  Property theorems only. *)
From Coq Require Import List ZArith Bool.
From Bfe Require Import lib.Val lib.Bytes model.H2Resp run.RunC38.
Import ListNotations.
Open Scope Z_scope.
