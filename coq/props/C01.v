(* C01: smooth weighted round robin gives exact weight shares.  Property theorems only. *)
From Coq Require Import List ZArith Bool.
From Bfe Require Import lib.Val model.Swrr proofs.SwrrProofs run.RunC01.
Import ListNotations.
Open Scope Z_scope.

(* Exact shares, for ANY tie-breaking.  `choose` is an arbitrary function from the credit state (the
   (weight, current) list of the eligible backends) to an index; the only hypothesis is that along its
   own run from the fresh state it always returns an index holding a maximal current.  The weights are
   d * a_i (d = 100 in BackendRR.Init).  Then for every offset k and every backend i, the A = sum(a)
   consecutive picks k .. k+A-1 contain backend i exactly a_i times. *)
Theorem C01_window_exact :
  forall (choose : st -> nat) (d : Z) (a : list Z),
    0 < d -> a <> [] -> Forall (fun x => 0 < x) a ->
    (forall n, ok (state choose (map (Z.mul d) a) n) (pick choose (map (Z.mul d) a) n)) ->
    forall k i, (i < length a)%nat ->
      cntw choose (map (Z.mul d) a) i k (Z.to_nat (Asum a)) = ai a i.
Proof. exact swrr_window_exact_any. Qed.
Print Assumptions C01_window_exact.

(* "repeats with period W": the credit state after n + A picks equals the state after n picks. *)
Theorem C01_period :
  forall (choose : st -> nat) (d : Z) (a : list Z),
    0 < d -> a <> [] -> Forall (fun x => 0 < x) a ->
    (forall n, ok (state choose (map (Z.mul d) a) n) (pick choose (map (Z.mul d) a) n)) ->
    forall n, state choose (map (Z.mul d) a) (n + Z.to_nat (Asum a)) = state choose (map (Z.mul d) a) n.
Proof. exact swrr_period_any. Qed.
Print Assumptions C01_period.

(* The pick of smoothBalance itself (scan left to right, a strictly greater current replaces the best)
   always returns a maximal index, so for the code no hypothesis about the choice remains: *)
Theorem C01_code_pick_maximal : forall s : st, s <> [] -> ok s (swrr_pick s).
Proof. exact swrr_pick_ok. Qed.
Print Assumptions C01_code_pick_maximal.

Theorem C01_window_exact_code :
  forall (a : list Z), a <> [] -> Forall (fun x => 0 < x) a ->
    forall k i, (i < length a)%nat ->
      cntw swrr_pick (map (Z.mul 100) a) i k (Z.to_nat (Asum a)) = ai a i.
Proof. exact swrr_window_exact_code. Qed.
Print Assumptions C01_window_exact_code.

Theorem C01_period_code :
  forall (a : list Z), a <> [] -> Forall (fun x => 0 < x) a ->
    forall n, pick swrr_pick (map (Z.mul 100) a) (n + Z.to_nat (Asum a)) = pick swrr_pick (map (Z.mul 100) a) n.
Proof. exact swrr_period_code. Qed.
Print Assumptions C01_period_code.

(* REFUTED for carried-over credits ("also every starting point after a (re)load"): BalanceRR.Update keeps
   the old `current` of kept backends (UpdateWeight does not touch it), so the windows after a
   weight-changing reload are not exact.  Weights 5,1,1 -> 3 picks -> Update to 1,1,3 -> picks
   a c c c a | c b c c a : the first window of 5 has a twice and b not at all.  The executable property
   evaluated on the model's own run is false, and the input is in known-finding class 1. *)
Theorem C01_after_reload_refuted :
  exists i, prop_C01 i (run_C01 i) = false /\ kf_C01 i = 1.
Proof. exact (ex_intro _ reload_in reload_refuted). Qed.
Print Assumptions C01_after_reload_refuted.
(* the same for a backend that comes back from unavailability with its old credit *)
Theorem C01_after_unavailable_refuted :
  exists i, prop_C01 i (run_C01 i) = false /\ kf_C01 i = 1.
Proof. exact (ex_intro _ avail_in avail_refuted). Qed.
Print Assumptions C01_after_unavailable_refuted.

(* The same through the backend list of a freshly initialised BalanceRR (any configured weights, including
   weights <= 0 which are never eligible; pairwise distinct backends) and the executable predicate the harness
   evaluates on the implementation: segment_ok says every pick is an eligible backend and EVERY window of
   A = sum of the eligible weights consecutive picks contains each eligible backend exactly weight-many times
   (all picks are the error -1 when nothing is eligible). *)
Theorem C01_fresh_run_exact : forall conf k, NoDup (map fst conf) ->
  segment_ok (cfg_elig (cfg_init conf)) (fst (picks_by swrr_pick (init conf) k)) = true.
Proof. exact fresh_run_segment_ok. Qed.
Print Assumptions C01_fresh_run_exact.

(* wire level: input = configuration + one run of k <= 5000 Balance calls; such inputs are outside the
   known-finding class (kf_C01 = 0: no operation that could carry credits over). *)
Theorem C01_prop_of_model_fresh : forall conf k,
  NoDup (map fst conf) -> Z.of_nat k <= max_k ->
  prop_C01 (VL [VL (map (fun e => VL [VZ (fst e); VZ (snd e)]) conf); VL [VL [VZ 0; VZ (Z.of_nat k)]]])
           (run_C01 (VL [VL (map (fun e => VL [VZ (fst e); VZ (snd e)]) conf); VL [VL [VZ 0; VZ (Z.of_nat k)]]])) = true.
Proof. exact prop_of_model_fresh. Qed.
Print Assumptions C01_prop_of_model_fresh.

(* Non-vacuity: the example of the source comment, weights 5,1,1: a a b a c a a, repeated. *)
Example C01_example :
  fst (picks_by swrr_pick (init [(0,5);(1,1);(2,1)]) 14) = [0;0;1;0;2;0;0; 0;0;1;0;2;0;0].
Proof. exact eq_refl. Qed.

(* ---- slow start ("slow start off or finished").  check_one T x is one iteration of checkSlowStart for a backend
   with slow-start record (final, inSlowStart, elapsed ms, restart flag, slowStartTime); ss_active = restart flag set
   or in a ramp.  When the ramp ends (inSlowStart becomes false) the weight is EXACTLY the target weight, whatever
   the elapsed time (no overshoot after a traffic gap) ... *)
Theorem C01_slowstart_finished_weight : forall T x,
  ss_active x = true -> ss_in (snd (check_one T x)) = false ->
  b_w (fst (check_one T x)) = ss_final (snd (check_one T x)).
Proof. exact check_one_finished. Qed.
Print Assumptions C01_slowstart_finished_weight.
(* ... and during the ramp it stays within [0, target] for a positive target (the lower bound is 0, not 1: right
   after initSlowStart, updateSlowStart recomputes the weight as target*elapsed/slowStartTime = 0). *)
Theorem C01_slowstart_ramp_bounds : forall T x,
  0 <= T -> ss_wf x -> 0 < ss_final (snd x) -> ss_active x = true ->
  0 <= b_w (fst (check_one T x)) <= ss_final (snd x).
Proof. exact check_one_ramp_bounds. Qed.
Print Assumptions C01_slowstart_ramp_bounds.
(* Invariant of every history (Init, Update, SetAvail, SetSlowStart, SetRestart, clock moves, Balance): outside a
   ramp weight = target = 100 x configured weight — so once all ramps have finished the smooth-WRR state has the
   configured weights again and the exact-share theorems apply from the next fresh point. *)
Theorem C01_slowstart_invariant_init : forall conf, Forall ss_good (init2 conf).
Proof. exact init2_good. Qed.
Print Assumptions C01_slowstart_invariant_init.
Theorem C01_slowstart_invariant_op : forall T l o, 0 <= T -> Forall ss_good l ->
  (match o with OSetSS t => 0 <= t | OElapsed _ e => 0 <= e | _ => True end) ->
  0 <= fst (apply_op2 (T, l) o) /\ Forall ss_good (snd (apply_op2 (T, l) o)).
Proof. exact apply_op2_good. Qed.
Print Assumptions C01_slowstart_invariant_op.
Theorem C01_slowstart_invariant_balance : forall T l p l',
  0 <= T -> Forall ss_good l -> pick2 smooth T l = (p, l') -> Forall ss_good l'.
Proof. exact (fun T l p l' HT G H => proj1 (pick2_spec smooth T l p l' smooth_bal_ok HT G H)). Qed.
Print Assumptions C01_slowstart_invariant_balance.

(* A reload that does not change anything (BalanceRR.Update with a conf that names exactly the current backends with
   their current weights, in any order) leaves the whole smooth-WRR state — list order, weights, credits — unchanged,
   so the exact windows continue across it.  The harness observes this on the implementation with IPv4, IPv6-literal
   and host-name backends and no-op reloads in the middle of a period. *)
Theorem C01_update_identity : forall bs conf, same_conf bs conf -> update bs conf = bs.
Proof. exact update_identity. Qed.
Print Assumptions C01_update_identity.
Example C01_update_identity_nonvacuous :
  let bs := snd (picks_by swrr_pick (init [(0,5);(1,1);(2,1)]) 3) in
  update bs [(2,1);(0,5);(1,1)] = bs /\ (b_c (nth 0 bs (0,0,0,true)) =? 500) = false.
Proof. exact (conj eq_refl eq_refl). Qed.
