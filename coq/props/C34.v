From Coq Require Import List ZArith Bool.
From Bfe Require Import lib.Val model.H2Sched run.RunC34.
Import ListNotations.
Open Scope Z_scope.
Example C34_placeholder : wrap32 2147483648 = -2147483648.
Proof. exact eq_refl. Qed.
Print Assumptions C34_placeholder.
