(* C34: outbound DATA respects the peer's windows, the frame size and per-stream order.  Property theorems only.
   Vocabulary (model/H2Sched.v): `sst` is the state of writeScheduler + flows (maxFrameSize, connection window,
   stream windows, control queue ws.zero, per-stream queues ws.sq); `take_with s c` is the result of
   writeScheduler.take() when Go's map iteration reaches stream c first among the eligible ones, so a statement
   "for all c" covers every scheduling choice.  `svalidate sst0 ops obs` = the observed per-step results obs
   are a behaviour the model allows for the operation list ops (this is what agree_C34 checks against the real
   code).  `spec_run spec0 ops obs` is the specification checker: it keeps the CLIENT's view (windows as
   mathematical integers: initial value + accepted updates - DATA bytes received; per stream the list of frames
   produced and not yet sent) and rejects a trace as soon as a DATA frame is longer than the stream window,
   the connection window or the max frame size, a frame of a stream is not (a byte-exact prefix chunk of) the
   oldest pending frame of that stream, a frame is sent for a stream whose queue was dropped by forgetStream
   (stream ended or reset) or the scheduler panics.
   `wf_sop`: initial windows in 0..2^31-1, window increments / SETTINGS deltas in -2^30..2^31-1,
   maxFrameSize in 1..2^31-1, payload lengths >= 0. *)
From Coq Require Import List ZArith Bool.
From Bfe Require Import lib.Val lib.ValProofs model.H2Sched proofs.H2SchedProofs run.RunC34.
Import ListNotations.
Open Scope Z_scope.

(* Every trace the model allows - for every interleaving of adds, takes, forgets, window updates, SETTINGS
   changes and EVERY map-iteration choice inside take - is accepted by the specification checker. *)
Theorem C34_within_windows_and_framesize_fifo_nothing_after_end : forall ops obs,
  Forall wf_sop ops -> svalidate sst0 ops obs = true -> spec_run spec0 ops (map fst obs) = true.
Proof. exact allowed_traces_meet_spec. Qed.
Print Assumptions C34_within_windows_and_framesize_fifo_nothing_after_end.

(* The same through the wire functions: whenever the correspondence check accepts what the implementation did,
   the property predicate holds of that observation. *)
Theorem C34_agree_implies_prop : forall i o,
  (forall ops, dec_sops i = Some ops -> Forall wf_sop ops) ->
  agree_C34 i o = true -> prop_C34 i o = true.
Proof. exact agree_implies_prop. Qed.
Print Assumptions C34_agree_implies_prop.

(* The model's own canonical run (first eligible stream in creation order) satisfies the specification. *)
Theorem C34_model_run_meets_spec : forall ops,
  Forall wf_sop ops -> spec_run spec0 ops (map fst (srun sst0 ops)) = true.
Proof. exact model_run_meets_spec. Qed.
Print Assumptions C34_model_run_meets_spec.

(* Central statement over the wire functions: for every well-formed input (wf_C34: a live script, or scheduler
   operations within wf_sop) the property predicate the harness evaluates on the implementation's observation
   holds of the model's own output. *)
Theorem C34_prop_of_model : forall i, wf_C34 i = true -> prop_C34 i (run_C34 i) = true.
Proof. exact prop_C34_of_model. Qed.
Print Assumptions C34_prop_of_model.

(* wf_C34 holds of the corpus cases corpus/C34/live.case (live script with a shrink; unit-level split scenario). *)
Example C34_wf_corpus :
  wf_C34 (VL [VZ 7; VL [VL [VZ 5; VZ 100000]; VL [VZ 1; VZ 1; VZ 200000]; VL [VZ 5; VZ 4465]; VL [VZ 4; VZ 0; VZ 1000000]]]) = true /\
  wf_C34 (VL [VL [VZ 5; VZ 0; VZ 10]; VL [VZ 6; VZ 4]; VL [VZ 1; VZ 1; VZ 6];
              VL [VZ 2; VL [VZ 1; VZ 1; VZ 7; VZ 9; VZ 1]]; VL [VZ 3]; VL [VZ 3]; VL [VZ 5; VZ 1; VZ 20]; VL [VZ 3]]) = true.
Proof. exact wf_corpus_examples. Qed.

(* Step form: a non-empty DATA frame returned by take (any choice c) is no longer than the stream window, the
   connection window and maxFrameSize of the state it is taken from, and both windows shrink by exactly its
   length (no int32 wrap). *)
Theorem C34_within_windows_and_framesize : forall s c d start len es s',
  sinv s -> take_with s c = TOk (FData d start len es) s' -> 0 < len ->
  len <= win s d /\ len <= connw s /\ len <= maxf s /\
  connw s' = connw s - len /\ win s' d = win s d - len.
Proof. exact take_within_windows. Qed.
Print Assumptions C34_within_windows_and_framesize.

(* flow.take's "took too much", the negative slice bound and q.head() on an empty queue are unreachable:
   take never panics in any reachable state, whatever stream the map iteration offers. *)
Theorem C34_take_never_panics : forall s c, sreach s -> take_with s c <> TPanic.
Proof. exact reachable_take_never_panics. Qed.
Print Assumptions C34_take_never_panics.

(* Non-vacuity: connection window 10, max frame 4, stream 1 window 6: a 9-byte DATA frame with END_STREAM is
   sent as 4 + 2 bytes (stream window exhausted), then after WINDOW_UPDATE 20 the last 3 bytes with END_STREAM
   (connection window had 4 left); control and HEADERS frames go first; after forgetStream nothing is sent. *)
Example C34_example_trace : Forall wf_sop ex_sops /\
  map fst (srun sst0 ex_sops) =
  [OBool true; ONone; OBool true; OBool true; ONone; ONone; ONone;
   OFrame (FCtl 5); OFrame (FHdr 3 2); OFrame (FData 1 7 4 false); OFrame (FData 1 11 2 false); ONone;
   OBool true; OFrame (FData 1 13 3 true); ONone; ONone].
Proof. exact ex_sops_run. Qed.
