(* Proofs about model/Health.v (C06). *)
From Coq Require Import List ZArith Bool Lia.
From Bfe Require Import lib.Val lib.ValProofs model.Health run.RunC06.
Import ListNotations.
Open Scope Z_scope.

Ltac zb :=
  repeat match goal with
  | H : context [?a >=? ?b] |- _ => rewrite (Z.geb_leb a b) in H
  | |- context [?a >=? ?b] => rewrite (Z.geb_leb a b)
  end;
  repeat match goal with
  | |- context [?a <=? ?b] => destruct (Z.leb_spec a b)
  | H : context [?a <=? ?b] |- _ => destruct (Z.leb_spec a b)
  | |- context [?a =? ?b] => destruct (Z.eqb_spec a b)
  | H : context [?a =? ?b] |- _ => destruct (Z.eqb_spec a b)
  end.

(* invariant of every reachable state *)
Definition inv (s : hstate) : Prop :=
  0 <= checkers s <= 1 /\
  (avail s = true -> checkers s = 0) /\
  (avail s = false -> released s = false -> checkers s = 1) /\
  (checkers s = 0 -> released s = false -> succN s = 0).

Lemma inv_init : forall ft st, inv (h_init ft st).
Proof. intros. unfold inv, h_init; simpl. repeat split; try lia; intros; try discriminate; reflexivity. Qed.

Ltac prep := repeat match goal with
  | H : true = true -> _ |- _ => specialize (H eq_refl)
  | H : false = false -> _ |- _ => specialize (H eq_refl)
  | H : true = false -> _ |- _ => clear H
  | H : false = true -> _ |- _ => clear H
  end.
Ltac cmp := repeat match goal with
  | |- context [?a >=? ?b] => let E := fresh "E" in destruct (a >=? b) eqn:E;
        [rewrite Z.geb_leb in E; apply Z.leb_le in E|rewrite Z.geb_leb in E; apply Z.leb_gt in E]
  | |- context [?a <=? ?b] => let E := fresh "E" in destruct (a <=? b) eqn:E;
        [apply Z.leb_le in E|apply Z.leb_gt in E]
  end.
Ltac fin := simpl; repeat split; intros; try discriminate; try lia; auto.

Lemma inv_step : forall s o, inv s -> inv (hstep s o).
Proof.
  intros [av f k c rel rs ft st rq] o [Hc [Ha [Hb Hz]]]; simpl in *.
  destruct o as [n| | | | |ft' st'|]; unfold hstep, loop_top, inv; simpl;
    destruct av, rel; prep; cmp; fin.
Qed.

Lemma inv_run : forall ops s, inv s -> Forall inv (hrun s ops).
Proof.
  induction ops as [|o r IH]; intros s Hs; simpl; constructor.
  - apply inv_step. exact Hs.
  - apply IH. apply inv_step. exact Hs.
Qed.

Theorem single_checker : forall ft st ops s, In s (hrun (h_init ft st) ops) -> 0 <= checkers s <= 1.
Proof.
  intros ft st ops s Hin. pose proof (inv_run ops _ (inv_init ft st)) as H.
  rewrite Forall_forall in H. apply H in Hin. destruct Hin as [Hc _]. exact Hc.
Qed.

Theorem checker_iff_out : forall ft st ops s, In s (hrun (h_init ft st) ops) ->
  (avail s = true -> checkers s = 0) /\ (avail s = false -> released s = false -> checkers s = 1).
Proof.
  intros ft st ops s Hin. pose proof (inv_run ops _ (inv_init ft st)) as H.
  rewrite Forall_forall in H. apply H in Hin. destruct Hin as [_ [Ha [Hb _]]]. split; assumption.
Qed.

Theorem succnum_zero_at_start : forall ft st ops s, In s (hrun (h_init ft st) ops) ->
  checkers s = 0 -> released s = false -> succN s = 0.
Proof.
  intros ft st ops s Hin. pose proof (inv_run ops _ (inv_init ft st)) as H.
  rewrite Forall_forall in H. apply H in Hin. destruct Hin as [_ [_ [_ Hz]]]. exact Hz.
Qed.

(* leaves rotation exactly at the request failure that makes failNum reach the threshold *)
Theorem out_iff_threshold : forall s o,
  (avail s = true /\ avail (hstep s o) = false) <->
  (exists n, o = ReqFail n /\ avail s = true /\ failN s + n >= failT s).
Proof.
  intros [av f k c rel rs ft st rq] o; simpl. split.
  - intros [Hav Hout]. subst av.
    destruct o as [n| | | | |ft' st'|]; unfold hstep, loop_top in Hout; simpl in Hout.
    + exists n. split; [reflexivity|]. split; [reflexivity|].
      destruct (f + n >=? ft) eqn:E; [rewrite Z.geb_leb in E; apply Z.leb_le in E; lia|simpl in Hout; discriminate].
    + discriminate.
    + destruct (c <=? 0); simpl in Hout; [discriminate|].
      destruct (k + 1 >=? rq); simpl in Hout; [discriminate|]. destruct rel; simpl in Hout; discriminate.
    + destruct (c <=? 0); simpl in Hout; [discriminate|]. destruct rel; simpl in Hout; discriminate.
    + destruct rel; simpl in Hout; discriminate.
    + discriminate.
    + discriminate.
  - intros [n [-> [Hav Hge]]]. split; [exact Hav|]. unfold hstep; simpl.
    destruct (f + n >=? ft) eqn:E; [reflexivity|]. rewrite Z.geb_leb in E. apply Z.leb_gt in E. lia.
Qed.

(* returns to rotation exactly at the successful check that completes the configured run *)
Theorem back_iff_succ : forall s o,
  (avail s = false /\ avail (hstep s o) = true) <->
  (o = CheckOk /\ avail s = false /\ checkers s >= 1 /\ succN s + 1 >= reqT s).
Proof.
  intros [av f k c rel rs ft st rq] o; simpl. split.
  - intros [Hav Hb]. subst av.
    destruct o as [n| | | | |ft' st'|]; unfold hstep, loop_top in Hb; simpl in Hb.
    + destruct (f + n >=? ft); simpl in Hb; discriminate.
    + discriminate.
    + split; [reflexivity|]. split; [reflexivity|].
      destruct (c <=? 0) eqn:Ec; simpl in Hb; [discriminate|]. apply Z.leb_gt in Ec.
      destruct (k + 1 >=? rq) eqn:E; [rewrite Z.geb_leb in E; apply Z.leb_le in E; lia|].
      destruct rel; simpl in Hb; discriminate.
    + destruct (c <=? 0); simpl in Hb; [discriminate|]. destruct rel; simpl in Hb; discriminate.
    + destruct rel; simpl in Hb; discriminate.
    + discriminate.
    + discriminate.
  - intros [-> [Hav [Hc Hk]]]. split; [exact Hav|]. unfold hstep; simpl.
    destruct (c <=? 0) eqn:Ec; [apply Z.leb_le in Ec; lia|].
    destruct (k + 1 >=? rq) eqn:E; [reflexivity|]. rewrite Z.geb_leb in E. apply Z.leb_gt in E. lia.
Qed.

(* consecutive successes: a failed check resets the run, a successful one extends it by one *)
Theorem check_counts : forall s, checkers s >= 1 ->
  succN (hstep s CheckFail) = 0 /\
  (succN s + 1 < reqT s -> succN (hstep s CheckOk) = succN s + 1 /\ avail (hstep s CheckOk) = avail s).
Proof.
  intros [av f k c rel rs ft st rq] Hc; simpl in *. unfold hstep, loop_top; simpl.
  destruct (c <=? 0) eqn:Ec; [apply Z.leb_le in Ec; lia|]. split.
  - destruct rel; reflexivity.
  - intros Hlt. destruct (k + 1 >=? rq) eqn:E; [rewrite Z.geb_leb in E; apply Z.leb_le in E; lia|].
    destruct rel; split; reflexivity.
Qed.

(* a removed backend stops being checked: no checker is ever started again and the outstanding check is the last *)
Theorem release_stops : forall s o, released s = true ->
  released (hstep s o) = true /\ checkers (hstep s o) <= checkers s /\
  ((o = CheckOk \/ o = CheckFail) -> checkers s >= 1 -> checkers (hstep s o) = checkers s - 1).
Proof.
  intros [av f k c rel rs ft st rq] o Hr; simpl in Hr; subst rel.
  destruct o as [n| | | | |ft' st'|]; unfold hstep, loop_top; simpl.
  - destruct (f + n >=? ft); simpl; [rewrite andb_false_r|]; repeat split; try lia; intros [H|H]; discriminate.
  - repeat split; try lia. intros [H|H]; discriminate.
  - destruct (c <=? 0) eqn:Ec; simpl.
    + apply Z.leb_le in Ec. repeat split; try lia.
    + destruct (k + 1 >=? rq); simpl; repeat split; lia.
  - destruct (c <=? 0) eqn:Ec; simpl.
    + apply Z.leb_le in Ec. repeat split; try lia.
    + repeat split; lia.
  - repeat split; try lia. intros [H|H]; discriminate.
  - repeat split; try lia. intros [H|H]; discriminate.
  - repeat split; try lia. intros [H|H]; discriminate.
Qed.

(* ---------- the model satisfies the specification monitor ---------- *)
Definition R (s : hstate) (m : mon) : Prop :=
  m_avail m = avail s /\ consec m = failN s /\ okrun m = succN s /\ m_rel m = released s /\
  m_ft m = failT s /\ m_st m = succT s /\ m_pend m = checkers s /\ m_req m = reqT s /\
  (drained m = true -> released s = true /\ checkers s = 0).

Lemma sim_step : forall s m o, inv s -> R s m ->
  exists m', mon_step m o (avail (hstep s o)) (checkers (hstep s o)) = Some m' /\ R (hstep s o) m' /\
             (drained m' = true -> checkers (hstep s o) = 0).
Proof.
  intros [av f k c rel rs ft st rq] [mav mc mk mrel mdr mft mst mp mrq] o
         [Hc [Ha [Hb Hz]]] [R1 [R2 [R3 [R4 [R5 [R6 [R7 [R8 R9]]]]]]]].
  simpl in *. subst mav mc mk mrel mft mst mp mrq.
  assert (Hc01 : c = 0 \/ c = 1) by lia.
  destruct o as [n| | | | |ft' st'|]; unfold mon_step, hstep, loop_top, issue, R; simpl.
  - (* ReqFail *)
    destruct (f + n >=? ft) eqn:E; simpl.
    + destruct av, rel, mdr; simpl; try (specialize (Ha eq_refl)); try (specialize (Hb eq_refl eq_refl));
        try (destruct (R9 eq_refl) as [? ?]; try discriminate); subst;
        simpl; rewrite ?Z.eqb_refl; simpl;
        try (destruct Hc01 as [-> | ->]; simpl);
        eexists; (split; [reflexivity|]); simpl; repeat split; auto; try lia; try discriminate.
    + destruct av, rel, mdr; simpl; try (specialize (Ha eq_refl)); try (specialize (Hb eq_refl eq_refl));
        try (destruct (R9 eq_refl) as [? ?]; try discriminate); subst;
        simpl; rewrite ?Z.eqb_refl; simpl;
        try (destruct Hc01 as [-> | ->]; simpl);
        eexists; (split; [reflexivity|]); simpl; repeat split; auto; try lia; try discriminate.
  - (* ReqSucc *)
    destruct av, rel, mdr; simpl; try (specialize (Ha eq_refl)); try (specialize (Hb eq_refl eq_refl));
      try (destruct (R9 eq_refl) as [? ?]; try discriminate); subst;
      simpl; rewrite ?Z.eqb_refl; simpl;
      try (destruct Hc01 as [-> | ->]; simpl);
      eexists; (split; [reflexivity|]); simpl; repeat split; auto; try lia; try discriminate.
  - (* CheckOk *)
    destruct Hc01 as [-> | ->]; simpl.
    + destruct av, rel, mdr; simpl; try (specialize (Hb eq_refl eq_refl)); try lia;
        try (destruct (R9 eq_refl) as [? ?]; try discriminate);
        eexists; (split; [reflexivity|]); simpl; repeat split; auto; try lia; try discriminate.
    + destruct av; [specialize (Ha eq_refl); lia|].
      destruct mdr; [destruct (R9 eq_refl); lia|].
      destruct (k + 1 >=? rq) eqn:E; simpl.
      * destruct rel; simpl; eexists; (split; [reflexivity|]); simpl; repeat split; auto; try lia; try discriminate.
      * destruct rel; simpl; eexists; (split; [reflexivity|]); simpl; repeat split; auto; try lia; try discriminate.
  - (* CheckFail *)
    destruct Hc01 as [-> | ->]; simpl.
    + destruct av, rel, mdr; simpl; try (specialize (Hb eq_refl eq_refl)); try lia;
        try (destruct (R9 eq_refl) as [? ?]; try discriminate);
        eexists; (split; [reflexivity|]); simpl; repeat split; auto; try lia; try discriminate.
    + destruct av; [specialize (Ha eq_refl); lia|].
      destruct mdr; [destruct (R9 eq_refl); lia|].
      destruct rel; simpl; eexists; (split; [reflexivity|]); simpl; repeat split; auto; try lia; try discriminate.
  - (* Release *)
    destruct av, rel, mdr; simpl; try (specialize (Ha eq_refl)); try (specialize (Hb eq_refl eq_refl));
      try (destruct (R9 eq_refl) as [? ?]; try discriminate); subst;
      simpl; rewrite ?Z.eqb_refl; simpl;
      try (destruct Hc01 as [-> | ->]; simpl);
      eexists; (split; [reflexivity|]); simpl; repeat split; auto; try lia; try discriminate.
  - (* SetThr *)
    destruct av, rel, mdr; simpl; try (specialize (Ha eq_refl)); try (specialize (Hb eq_refl eq_refl));
      try (destruct (R9 eq_refl) as [? ?]; try discriminate); subst;
      simpl; rewrite ?Z.eqb_refl; simpl;
      try (destruct Hc01 as [-> | ->]; simpl);
      eexists; (split; [reflexivity|]); simpl; repeat split; auto; try lia; try discriminate.
  - (* RemoveCluster *)
    destruct av, rel, mdr; simpl; try (specialize (Ha eq_refl)); try (specialize (Hb eq_refl eq_refl));
      try (destruct (R9 eq_refl) as [? ?]; try discriminate); subst;
      simpl; rewrite ?Z.eqb_refl; simpl;
      try (destruct Hc01 as [-> | ->]; simpl);
      eexists; (split; [reflexivity|]); simpl; repeat split; auto; try lia; try discriminate.
Qed.

Definition obs_of (s : hstate) : bool * Z := (avail s, checkers s).
Lemma sim_run : forall ops s m, inv s -> R s m ->
  mon_run m (combine ops (map obs_of (hrun s ops))) = true.
Proof.
  induction ops as [|o r IH]; intros s m Hi HR; [reflexivity|].
  destruct (sim_step s m o Hi HR) as [m' [Hs [HR' Hd]]].
  pose proof (IH _ _ (inv_step s o Hi) HR') as Hrest.
  change (hrun s (o :: r)) with (hstep s o :: hrun (hstep s o) r).
  change (mon_run m (combine (o :: r) (map obs_of (hstep s o :: hrun (hstep s o) r))))
    with (match mon_step m o (avail (hstep s o)) (checkers (hstep s o)) with
          | Some m' => (negb (drained m') || (checkers (hstep s o) =? 0)) &&
                       mon_run m' (combine r (map obs_of (hrun (hstep s o) r)))
          | None => false end).
  rewrite Hs, Hrest, andb_true_r.
  destruct (drained m') eqn:Ed; [|reflexivity]. simpl. rewrite (Hd eq_refl). reflexivity.
Qed.
Lemma R_init : forall ft st, R (h_init ft st) (mon_init ft st).
Proof. intros. unfold R, h_init, mon_init; simpl. repeat split; try reflexivity; discriminate. Qed.

Lemma dec_obs_enc : forall l, all_some (map dec_obs (map enc_h l)) = Some (map obs_of l).
Proof.
  induction l as [|s l IH]; [reflexivity|]. simpl. rewrite IH.
  unfold obs_of. rewrite Z.eqb_refl. destruct (avail s), (restarted s); reflexivity.
Qed.
Lemma hrun_length : forall ops s, length (hrun s ops) = length ops.
Proof. induction ops as [|o r IH]; intros s; simpl; [reflexivity|]. rewrite IH. reflexivity. Qed.

Theorem model_satisfies_prop : forall i, dec_input i <> None -> prop_C06 i (run_C06 i) = true.
Proof.
  intros i Hwf. unfold prop_C06, run_C06.
  destruct (dec_input i) as [[[ft st] ops]|]; [|exfalso; apply Hwf; reflexivity].
  rewrite dec_obs_enc. rewrite map_length, hrun_length, Nat.eqb_refl. simpl.
  apply sim_run; [apply inv_init|apply R_init].
Qed.

(* non-vacuity *)
Definition ex_ops : list hop :=
  [ReqFail 1; ReqFail 1; ReqSucc; ReqFail 2; ReqFail 1; CheckOk; CheckFail; CheckOk; SetThr 2 1; CheckOk; ReqFail 3; Release; CheckFail; ReqFail 1].
Lemma ex_run :
  map (fun s => (avail s, checkers s)) (hrun (h_init 3 2) ex_ops) =
  [(true,0);(true,0);(true,0);(true,0);(false,1);(false,1);(false,1);(false,1);(false,1);(true,0);(false,1);(false,1);(false,0);(false,0)].
Proof. vm_compute. reflexivity. Qed.
Lemma ex_wire :
  let i := VL [VZ 2; VZ 2; VL [VL [VZ 1; VZ 1]; VL [VZ 1; VZ 3]; VL [VZ 3]; VL [VZ 6; VZ 1; VZ 1]; VL [VZ 3]; VL [VZ 5]; VL [VZ 4]]] in
  dec_input i <> None /\ run_C06 i <> VErr 0.
Proof. split; vm_compute; discriminate. Qed.

(* ---------- removal of the backend or of its whole cluster ---------- *)
Lemma remove_cluster_releases : forall s,
  released (hstep s RemoveCluster) = true /\ checkers (hstep s RemoveCluster) = checkers s /\
  avail (hstep s RemoveCluster) = avail s.
Proof. intros s. unfold hstep. simpl. repeat split. Qed.
(* once released (by Release or RemoveCluster, in any state: up, down with a check outstanding, with or without a
   check conf) no later history ever raises the number of checkers again, and it drops to 0 with the first check result *)
Lemma released_forever : forall ops s, released s = true ->
  Forall (fun s' => released s' = true /\ checkers s' <= checkers s) (hrun s ops).
Proof.
  induction ops as [|o r IH]; intros s Hr; simpl; [constructor|].
  destruct (release_stops s o Hr) as [H1 [H2 _]].
  constructor; [split; assumption|].
  eapply Forall_impl; [|apply IH; exact H1]. intros s' [A B]. split; [exact A|lia].
Qed.
