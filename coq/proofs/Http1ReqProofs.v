(* Proofs about model/Http1Req.v (C24). *)
From Coq Require Import List ZArith Bool Lia.
From Bfe Require Import lib.Val lib.Bytes model.Http1Req run.RunC24.
Import ListNotations.
Open Scope Z_scope.

(* ---------- generic skeleton refinement ---------- *)
(* If validator set V1 refines V2 on every request head (whatever V1 accepts, V2 accepts with the same
   result) then every request V1 accepts on a stream is accepted by V2 at the same place with the same
   content; V2 may go on where V1 stopped. *)
Lemma skeleton_refinement_gen :
  forall V1 V2 : validators,
    (forall hd m, validate V1 hd = inr m -> validate V2 hd = inr m) ->
    forall fuel s qs e, parse_stream V1 fuel s = (qs, e) ->
      exists qs' e', parse_stream V2 fuel s = (qs ++ qs', e').
Proof.
  intros V1 V2 Href fuel. induction fuel as [|f IH]; intros s qs e H; simpl in *.
  - inversion H; subst. exists [], 99. reflexivity.
  - destruct (read_head s) as [hd|] eqn:Eh.
    + destruct (validate V1 hd) as [c|m] eqn:Ev.
      * inversion H; subst. simpl. destruct (validate V2 hd) as [c2|m2].
        -- eexists; eexists; reflexivity.
        -- destruct (read_body (r_framing m2) (h_rest hd)) as [[b rest]|].
           ++ destruct (parse_stream V2 f rest) as [qs2 e2]. eexists; eexists; reflexivity.
           ++ eexists; eexists; reflexivity.
      * rewrite (Href _ _ Ev).
        destruct (read_body (r_framing m) (h_rest hd)) as [[b rest]|].
        -- destruct (parse_stream V1 f rest) as [qs1 e1] eqn:E1. inversion H; subst.
           destruct (IH _ _ _ E1) as [qs' [e' E2]]. rewrite E2. exists qs', e'. reflexivity.
        -- inversion H; subst. exists [], 20. reflexivity.
    + inversion H; subst. exists [], 0. reflexivity.
Qed.

(* ---------- small facts ---------- *)
Lemma bytes_eqb_refl a : bytes_eqb a a = true.
Proof. apply bytes_eqb_eq. reflexivity. Qed.
Lemma fields_eqb_refl a : fields_eqb a a = true.
Proof. induction a as [|[k v] a IH]; simpl; [reflexivity|]. rewrite !bytes_eqb_refl, IH. reflexivity. Qed.

Lemma has_key_get_all k h : has_key k h = false -> get_all k h = [].
Proof.
  unfold has_key, get_all. induction h as [|kv h IH]; simpl; [reflexivity|].
  destruct (key_is k kv); simpl; [discriminate|exact IH].
Qed.
Lemma get_all_has_key k h : has_key k h = true -> get_all k h <> [].
Proof.
  unfold has_key, get_all. induction h as [|kv h IH]; simpl; [discriminate|].
  destruct (key_is k kv); simpl; [discriminate|exact IH].
Qed.

Lemma canon_go_nonempty u c r : canon_go u (c :: r) <> [].
Proof. simpl. discriminate. Qed.
Lemma token_canon_nonempty k : is_token k = true -> canon_key k <> [].
Proof.
  destruct k as [|c r]; [discriminate|]. intros _. unfold canon_key.
  destruct (forallb is_tchar (c :: r)); [apply canon_go_nonempty|discriminate].
Qed.

(* ---------- header lines ---------- *)
Lemma canon_key_token k : is_token (canon_key k) = true -> is_token k = true.
Proof.
  destruct k as [|c r]; [intro H; exact H|].
  unfold canon_key. destruct (forallb is_tchar (c :: r)) eqn:E; [|auto]. intros _. exact E.
Qed.
(* a line that BFE's reader keeps as a field with a token name is the same field for the RFC reader;
   lines it skips are the empty-name lines *)
Lemma collect_refine : forall ls fs,
  existsb emptyname_line ls = false -> collect_fields bfe_field ls = Some fs -> names_ok fs = true ->
  collect_fields ref_field ls = Some fs.
Proof.
  induction ls as [|l ls IH]; intros fs He Hc Hn; [exact Hc|].
  cbn [existsb] in He. apply orb_false_iff in He. destruct He as [He1 He2].
  cbn [collect_fields] in *. unfold bfe_field in Hc at 1. unfold ref_field at 1. unfold emptyname_line in He1.
  destruct (line_key l) as [k|]; [|discriminate].
  destruct (canon_key k) as [|z0 l0] eqn:Ek.
  - (* skipped by BFE: only possible for an empty name *)
    exfalso. destruct k as [|c r]; [discriminate|].
    unfold canon_key in Ek. destruct (forallb is_tchar (c :: r)); discriminate.
  - destruct (collect_fields bfe_field ls) as [fs'|] eqn:E'; [|discriminate]. inversion Hc; subst fs.
    unfold names_ok in Hn. cbn [forallb fst] in Hn. apply andb_true_iff in Hn. destruct Hn as [Hn1 Hn2].
    rewrite <- Ek in Hn1. rewrite (canon_key_token _ Hn1).
    rewrite (IH fs' He2 eq_refl Hn2). reflexivity.
Qed.

(* ---------- framing decision ---------- *)
Lemma parse_cl_dec cl n : parse_cl cl = Some n -> parse_dec cl = Some n.
Proof. unfold parse_cl. destruct (parse_dec cl); [|discriminate]. destruct (z <? 2^63); congruence. Qed.

(* BFE's framing decision refines the reference's on every header block (no guard needed any more) *)
Lemma frame_refine h fr : bfe_frame h = inr fr -> ref_frame h = inr fr.
Proof.
  unfold bfe_frame, ref_frame. destruct (te_decision h) as [[|]|]; [| |discriminate].
  - destruct (bfe_trailer_ok h); [auto|discriminate].
  - destruct (get_all s_cl h) as [|f r].
    + destruct (bfe_trailer_ok h); [auto|discriminate].
    + destruct (cl_consistent (f :: r)); [|discriminate].
      destruct (parse_cl (cl_first (f :: r))) as [n|] eqn:Ep; [|discriminate].
      rewrite (parse_cl_dec _ _ Ep). destruct (bfe_trailer_ok h); [auto|discriminate].
Qed.

(* ---------- one request head ---------- *)
Lemma head_refine hd m : head_class hd = 0 -> validate V_bfe hd = inr m -> validate V_ref hd = inr m.
Proof.
  unfold head_class, validate, lax_version. simpl.
  destruct (parse_request_line (h_reqline hd)) as [[[me t] p]|]; [|discriminate].
  destruct (is_token me); simpl; [|discriminate].
  destruct (bfe_version_ok p) eqn:Ebv; simpl; [|destruct (max_uri <? blen t); discriminate].
  destruct (ref_version_ok p) eqn:Erv; simpl; [|discriminate].
  destruct (max_uri <? blen t); [intros _ H; exact H|].
  destruct (existsb emptyname_line (h_lines hd)) eqn:En; [discriminate|].
  destruct (target_class me t =? 0); [intros _ H; exact H|].
  destruct (target_class me t =? 3); [intros _ H; exact H|].
  destruct (h_leadws hd); [intros _ H; exact H|].
  destruct (collect_fields bfe_field (h_lines hd)) as [fs|] eqn:Ec; [|discriminate].
  intros _ H.
  destruct (h_complete hd); simpl in *; [|discriminate].
  destruct (names_ok fs) eqn:Hn; simpl in *; [|discriminate].
  rewrite (collect_refine _ _ En Ec Hn). simpl.
  destruct (bfe_frame fs) as [c|fr] eqn:Ef; [discriminate|].
  rewrite (frame_refine _ _ Ef). exact H.
Qed.

(* ---------- the stream ---------- *)
Lemma stream_refine fuel : forall s qs e,
  stream_class fuel s = 0 -> parse_stream V_bfe fuel s = (qs, e) ->
  exists qs' e', parse_stream V_ref fuel s = (qs ++ qs', e').
Proof.
  induction fuel as [|f IH]; intros s qs e Hc H; simpl in *.
  - inversion H; subst. exists [], 99. reflexivity.
  - destruct (read_head s) as [hd|] eqn:Eh.
    + destruct (head_class hd =? 0) eqn:Ec; simpl in Hc; [|exfalso; apply Z.eqb_neq in Ec; congruence].
      apply Z.eqb_eq in Ec.
      destruct (validate V_bfe hd) as [c|m] eqn:Ev.
      * inversion H; subst. simpl. destruct (validate V_ref hd) as [c2|m2].
        -- eexists; eexists; reflexivity.
        -- destruct (read_body (r_framing m2) (h_rest hd)) as [[b rest]|].
           ++ destruct (parse_stream V_ref f rest) as [qs2 e2]. eexists; eexists; reflexivity.
           ++ eexists; eexists; reflexivity.
      * rewrite (head_refine _ _ Ec Ev).
        destruct (read_body (r_framing m) (h_rest hd)) as [[b rest]|].
        -- destruct (parse_stream V_bfe f rest) as [qs1 e1] eqn:E1. inversion H; subst.
           destruct (IH _ _ _ Hc E1) as [qs' [e' E2]]. rewrite E2. exists qs', e'. reflexivity.
        -- inversion H; subst. exists [], 20. reflexivity.
    + inversion H; subst. exists [], 0. reflexivity.
Qed.

(* ---------- BFE's header mutations do not touch the non-framing fields ---------- *)
Lemma key_is_eq k kv : key_is k kv = true -> fst kv = k.
Proof. unfold key_is. apply bytes_eqb_eq. Qed.
Lemma plain_del k h : framing_key k = true -> plain_fields (del_key k h) = plain_fields h.
Proof.
  intro Hk. unfold plain_fields, del_key. induction h as [|kv h IH]; simpl; [reflexivity|].
  destruct (key_is k kv) eqn:E; simpl.
  - apply key_is_eq in E. rewrite E, Hk. simpl. exact IH.
  - destruct (framing_key (fst kv)); simpl; rewrite IH; reflexivity.
Qed.
Lemma plain_app a b : plain_fields (a ++ b) = plain_fields a ++ plain_fields b.
Proof. unfold plain_fields. apply filter_app. Qed.
Lemma plain_dedupe f : forall seen h, plain_fields (dedupe_cl f seen h) = plain_fields h.
Proof.
  intros seen h. revert seen. induction h as [|kv h IH]; intro seen; simpl; [reflexivity|].
  destruct (key_is s_cl kv) eqn:E.
  - apply key_is_eq in E. destruct seen; unfold plain_fields in *; simpl; rewrite E; simpl; apply IH.
  - unfold plain_fields in *. simpl. rewrite IH. reflexivity.
Qed.
Lemma plain_final h fr : plain_fields (bfe_final_fields h fr) = plain_fields h.
Proof.
  unfold bfe_final_fields.
  set (h1 := del_key s_host h).
  set (h2 := if has_key s_pragma h1 && bytes_eqb (get_first s_pragma h1) s_nocache && negb (has_key s_cc h1)
             then h1 ++ [(s_cc, s_nocache)] else h1).
  assert (E2 : plain_fields h2 = plain_fields h).
  { unfold h2. destruct (has_key s_pragma h1 && bytes_eqb (get_first s_pragma h1) s_nocache && negb (has_key s_cc h1)).
    - rewrite plain_app. simpl. rewrite app_nil_r. apply plain_del. reflexivity.
    - apply plain_del. reflexivity. }
  set (h3 := del_key s_te h2).
  assert (E3 : plain_fields h3 = plain_fields h) by (unfold h3; rewrite plain_del; [exact E2|reflexivity]).
  match goal with |- plain_fields (match get_first s_trailer ?h4 with _ => _ end) = _ =>
    assert (E4 : plain_fields h4 = plain_fields h) end.
  { destruct fr as [n|].
    - destruct (get_all s_cl h3) as [|a [|b l]]; try exact E3. rewrite plain_dedupe. exact E3.
    - rewrite plain_del; [exact E3|reflexivity]. }
  match goal with |- plain_fields (match ?x with _ => _ end) = _ => destruct x end;
    [exact E4|rewrite plain_del; [exact E4|reflexivity]].
Qed.

Lemma obs_matches_self total q : obs_matches total (bfe_obs total q) q = true.
Proof.
  unfold obs_matches, bfe_obs. simpl. rewrite !bytes_eqb_refl, plain_final, fields_eqb_refl, Z.eqb_refl. reflexivity.
Qed.
Lemma obs_prefix_self total qs qs' : obs_prefix total (map (bfe_obs total) qs) (qs ++ qs') = true.
Proof. induction qs as [|q qs IH]; simpl; [reflexivity|]. rewrite obs_matches_self, IH. reflexivity. Qed.

(* ---------- headline: outside the finding classes the model of BFE satisfies the property ---------- *)
Theorem C24_partial_lemma : forall s,
  stream_class (S (length s)) s = 0 -> prop_core s (fst (bfe_run s)) = true.
Proof.
  intros s Hc. unfold prop_core, bfe_run, parse_all.
  destruct (parse_stream V_bfe (S (length s)) s) as [qs e] eqn:E.
  destruct (stream_refine _ _ _ _ Hc E) as [qs' [e' E2]]. rewrite E2. cbn [fst].
  destruct (e' =? 98).
  - rewrite firstn_all2; [apply obs_prefix_self|]. rewrite map_length, app_length. lia.
  - apply obs_prefix_self.
Qed.

(* the same through the wire functions the harness evaluates *)
Lemma dec_enc_fields fs :
  all_some (map dec_field (map (fun kv : bytes * bytes => VL [VB (fst kv); VB (snd kv)]) fs)) = Some fs.
Proof. induction fs as [|[k v] fs IHf]; simpl; [reflexivity|]. rewrite IHf. reflexivity. Qed.
Lemma dec_enc_obs o : dec_obs (enc_obs o) = Some o.
Proof. unfold enc_obs, dec_obs, enc_fields. rewrite dec_enc_fields. destruct o; reflexivity. Qed.
Lemma all_some_map_dec os : all_some (map dec_obs (map enc_obs os)) = Some os.
Proof.
  induction os as [|o os IH]; [reflexivity|].
  cbn [map all_some]. rewrite dec_enc_obs, IH. reflexivity.
Qed.
Theorem C24_prop_of_model_lemma : forall s,
  kf_C24 (VB s) = 0 -> prop_C24 (VB s) (run_C24 (VB s)) = true.
Proof.
  intros s Hk. simpl in Hk. pose proof (C24_partial_lemma s Hk) as H.
  unfold run_C24, prop_C24. destruct (bfe_run s) as [os e] eqn:E. cbn [fst] in H. cbv beta iota. rewrite all_some_map_dec. exact H.
Qed.

(* ---------- refutations: each finding class, a concrete stream on which the model violates the property ---------- *)
Definition of_str (l : list Z) : bytes := l.
(* "GET / HTTP/1.1\r\nX-A : 1\r\n\r\n" *)
Definition w_wscolon : bytes := [71;69;84;32;47;32;72;84;84;80;47;49;46;49;13;10;88;45;65;32;58;32;49;13;10;13;10].
(* "GET / HTTP/1.1\r\nX(bad): 1\r\n\r\n" *)
Definition w_nontoken : bytes := [71;69;84;32;47;32;72;84;84;80;47;49;46;49;13;10;88;40;98;97;100;41;58;32;49;13;10;13;10].
(* "POST / HTTP/1.1\r\nTransfer-Encoding: identity, chunked\r\nContent-Length: 3\r\n\r\nabc" *)
Definition w_te : bytes :=
  [80;79;83;84;32;47;32;72;84;84;80;47;49;46;49;13;10] ++ s_te ++ [58;32] ++ s_identity ++ [44;32] ++ s_chunked ++ [13;10] ++
  s_cl ++ [58;32;51;13;10;13;10;97;98;99].
(* "GET / HTTP/1.1\r\n Host: a\r\n\r\n" *)
Definition w_leadws : bytes := [71;69;84;32;47;32;72;84;84;80;47;49;46;49;13;10;32;72;111;115;116;58;32;97;13;10;13;10].
(* "GET / HTTP/+1.1\r\n\r\n" *)
Definition w_version : bytes := [71;69;84;32;47;32;72;84;84;80;47;43;49;46;49;13;10;13;10].
(* "POST / HTTP/1.1\r\nContent-Length: \r\n\r\n" *)
Definition w_emptycl : bytes := [80;79;83;84;32;47;32;72;84;84;80;47;49;46;49;13;10] ++ s_cl ++ [58;32;13;10;13;10].

(* "GET / HTTP/1.1\r\n: v\r\n\r\n" *)
Definition w_emptyname : bytes := [71;69;84;32;47;32;72;84;84;80;47;49;46;49;13;10;58;32;118;13;10;13;10].
Definition refuted (s : bytes) (k : Z) : Prop :=
  wf_bytes s = true /\ kf_C24 (VB s) = k /\ prop_C24 (VB s) (run_C24 (VB s)) = false.
Lemma C24_refuted_lemma : refuted w_emptyname 2 /\ refuted w_version 5.
Proof. repeat split; vm_compute; reflexivity. Qed.

(* the repaired defects: the former witnesses are rejected (no request accepted) with these codes *)
Definition rejected (s : bytes) (code : Z) : Prop :=
  kf_C24 (VB s) = 0 /\ bfe_run s = ([], code).
Lemma C24_fixed_lemma :
  rejected w_wscolon 12 /\ rejected w_nontoken 12 /\ rejected w_te 7 /\ rejected w_leadws 6 /\ rejected w_emptycl 8.
Proof. repeat split; vm_compute; reflexivity. Qed.

(* non-vacuity: a pipelined stream (chunked POST with trailer, then GET) outside all classes, two requests accepted *)
Definition w_pipeline : bytes :=
  [80;79;83;84;32;47;97;32;72;84;84;80;47;49;46;49;13;10] ++ s_host ++ [58;32;104;13;10] ++
  s_te ++ [58;32] ++ s_chunked ++ [13;10;13;10;51;13;10;97;98;99;13;10;48;13;10;88;45;84;58;32;49;13;10;13;10] ++
  [71;69;84;32;47;98;32;72;84;84;80;47;49;46;48;13;10] ++ s_cl ++ [58;32;50;13;10] ++ s_cl ++ [58;32;50;32;13;10;13;10;120;121].
Lemma C24_nonvacuous_lemma :
  wf_bytes w_pipeline = true /\ kf_C24 (VB w_pipeline) = 0 /\
  length (fst (bfe_run w_pipeline)) = 2%nat /\ snd (bfe_run w_pipeline) = 0 /\
  map o_body (fst (bfe_run w_pipeline)) = [[97;98;99]; [120;121]].
Proof. repeat split; vm_compute; reflexivity. Qed.

(* the fixed defects: conflicting or signed Content-Length is rejected by the model of the fixed code *)
Lemma C24_cl_conflict_rejected_lemma : forall h a b r,
  has_key s_te h = false -> get_all s_cl h = a :: b :: r -> bytes_eqb (trim4 a) (trim4 b) = false ->
  bfe_frame h = inl 8.
Proof.
  intros h a b r Ht Hc Hne. unfold bfe_frame, te_decision. rewrite (has_key_get_all _ _ Ht), Hc. simpl. rewrite Hne. reflexivity.
Qed.

(* what every accepted request head satisfies after the repairs *)
Lemma C24_accepted_wellformed_lemma : forall hd m, validate V_bfe hd = inr m ->
  is_token (r_method m) = true /\ h_leadws hd = false /\ names_ok (r_fields m) = true /\
  te_decision (r_fields m) <> None /\
  (get_all s_cl (r_fields m) <> [] -> r_framing m = FrChunked \/
     exists n, parse_dec (cl_first (get_all s_cl (r_fields m))) = Some n /\ r_framing m = FrLen n).
Proof.
  intros hd m. unfold validate. simpl.
  destruct (parse_request_line (h_reqline hd)) as [[[me t] p]|]; [|discriminate].
  destruct (is_token me) eqn:Em; simpl; [|discriminate].
  destruct (max_uri <? blen t); [discriminate|].
  destruct (bfe_version_ok p); simpl; [|discriminate].
  destruct (target_class me t =? 0); [discriminate|]. destruct (target_class me t =? 3); [discriminate|].
  destruct (h_leadws hd); [discriminate|].
  destruct (collect_fields bfe_field (h_lines hd)) as [fs|]; [|discriminate].
  destruct (h_complete hd); simpl; [|discriminate].
  destruct (names_ok fs) eqn:En; simpl; [|discriminate].
  destruct (bfe_frame fs) as [c|fr] eqn:Ef; [discriminate|].
  intro H. inversion H; subst m. cbn [r_method r_fields r_framing].
  repeat split; try assumption.
  - unfold bfe_frame in Ef. destruct (te_decision fs); [discriminate|discriminate].
  - intro Hcl. unfold bfe_frame in Ef. destruct (te_decision fs) as [[|]|]; [| |discriminate].
    + destruct (bfe_trailer_ok fs); [|discriminate]. inversion Ef. left. reflexivity.
    + destruct (get_all s_cl fs) as [|f r]; [congruence|].
      destruct (cl_consistent (f :: r)); [|discriminate].
      destruct (parse_cl (cl_first (f :: r))) as [n|] eqn:Ep; [|discriminate].
      destruct (bfe_trailer_ok fs); [|discriminate]. inversion Ef. right. exists n.
      split; [apply parse_cl_dec; exact Ep|reflexivity].
Qed.
