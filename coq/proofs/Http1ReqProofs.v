(* Proofs about model/Http1Req.v (C24). *)
From Coq Require Import List ZArith Bool Lia.
From Bfe Require Import lib.Val lib.Bytes model.Http1Req run.RunC24.
Import ListNotations.
Open Scope Z_scope.

(* ---------- generic skeleton refinement ---------- *)
(* If validator set V1 refines V2 on every request head (whatever V1 accepts, V2 accepts with the same
   result) then every request V1 accepts on a stream is accepted by V2 at the same place with the same
   content; V2 may go on where V1 stopped. *)
Lemma skeleton_refinement_gen :
  forall V1 V2 : validators,
    (forall hd m, validate V1 hd = inr m -> validate V2 hd = inr m) ->
    forall fuel s qs e, parse_stream V1 fuel s = (qs, e) ->
      exists qs' e', parse_stream V2 fuel s = (qs ++ qs', e').
Proof.
  intros V1 V2 Href fuel. induction fuel as [|f IH]; intros s qs e H; simpl in *.
  - inversion H; subst. exists [], 99. reflexivity.
  - destruct (read_head s) as [hd|] eqn:Eh.
    + destruct (validate V1 hd) as [c|m] eqn:Ev.
      * inversion H; subst. simpl. destruct (validate V2 hd) as [c2|m2].
        -- eexists; eexists; reflexivity.
        -- destruct (read_body (r_framing m2) (h_rest hd)) as [[b rest]|].
           ++ destruct (parse_stream V2 f rest) as [qs2 e2]. eexists; eexists; reflexivity.
           ++ eexists; eexists; reflexivity.
      * rewrite (Href _ _ Ev).
        destruct (read_body (r_framing m) (h_rest hd)) as [[b rest]|].
        -- destruct (parse_stream V1 f rest) as [qs1 e1] eqn:E1. inversion H; subst.
           destruct (IH _ _ _ E1) as [qs' [e' E2]]. rewrite E2. exists qs', e'. reflexivity.
        -- inversion H; subst. exists [], 20. reflexivity.
    + inversion H; subst. exists [], 0. reflexivity.
Qed.

(* ---------- small facts ---------- *)
Lemma bytes_eqb_refl a : bytes_eqb a a = true.
Proof. apply bytes_eqb_eq. reflexivity. Qed.
Lemma fields_eqb_refl a : fields_eqb a a = true.
Proof. induction a as [|[k v] a IH]; simpl; [reflexivity|]. rewrite !bytes_eqb_refl, IH. reflexivity. Qed.

Lemma has_key_get_all k h : has_key k h = false -> get_all k h = [].
Proof.
  unfold has_key, get_all. induction h as [|kv h IH]; simpl; [reflexivity|].
  destruct (key_is k kv); simpl; [discriminate|exact IH].
Qed.
Lemma get_all_has_key k h : has_key k h = true -> get_all k h <> [].
Proof.
  unfold has_key, get_all. induction h as [|kv h IH]; simpl; [discriminate|].
  destruct (key_is k kv); simpl; [discriminate|exact IH].
Qed.

Lemma canon_go_nonempty u c r : canon_go u (c :: r) <> [].
Proof. simpl. discriminate. Qed.
Lemma token_canon_nonempty k : is_token k = true -> canon_key k <> [].
Proof.
  destruct k as [|c r]; [discriminate|]. intros _. unfold canon_key.
  destruct (forallb is_tchar (c :: r)); [apply canon_go_nonempty|discriminate].
Qed.

(* ---------- header lines: BFE's reader and the RFC reader agree on lines whose name is a token ---------- *)
Lemma field_refine l : nontoken_key l = false -> bfe_field l = ref_field l.
Proof.
  unfold nontoken_key, bfe_field, ref_field. destruct (line_key l) as [k|]; [|reflexivity].
  intro H. apply negb_false_iff in H. rewrite H.
  pose proof (token_canon_nonempty _ H) as Hne. destruct (canon_key k); [congruence|reflexivity].
Qed.
Lemma collect_refine ls : existsb nontoken_key ls = false ->
  collect_fields bfe_field ls = collect_fields ref_field ls.
Proof.
  induction ls as [|l ls IH]; simpl; [reflexivity|]. intro H. apply orb_false_iff in H. destruct H as [H1 H2].
  rewrite (field_refine _ H1), (IH H2). reflexivity.
Qed.

(* ---------- framing decision ---------- *)
Lemma te_single_chunked h :
  has_key s_te h = true ->
  (match te_tokens h with [t] => bytes_eqb t s_chunked | _ => false end) = true ->
  bfe_te h = Some true.
Proof.
  intros Hk Ht. unfold bfe_te. unfold te_tokens in Ht.
  pose proof (get_all_has_key _ _ Hk) as Hne.
  destruct (get_all s_te h) as [|raw0 rest]; [congruence|].
  simpl in Ht. pose proof (split_byte_nonempty 44 raw0) as Hs.
  destruct (split_byte 44 raw0) as [|a l]; [congruence|].
  simpl in Ht.
  destruct (map (fun e => to_lower (go_trim e)) (l ++ concat (map (split_byte 44) rest))) eqn:Em; [|discriminate].
  destruct l as [|b l]; [|simpl in Em; discriminate].
  simpl. apply bytes_eqb_eq in Ht. rewrite Ht. reflexivity.
Qed.

Lemma parse_cl_dec cl n : parse_cl cl = Some n -> parse_dec cl = Some n.
Proof. unfold parse_cl. destruct (parse_dec cl); [|discriminate]. destruct (z <? 2^63); congruence. Qed.

Lemma frame_refine h fr :
  bfe_frame h = inr fr -> te_div h = false -> (negb (has_key s_te h) && empty_cl h) = false ->
  ref_frame h = inr fr.
Proof.
  unfold bfe_frame, ref_frame, te_div, empty_cl. intros Hb Hd He.
  destruct (has_key s_te h) eqn:Hk.
  - (* Transfer-Encoding present *)
    destruct (bfe_te h) as [c|] eqn:Et; [|discriminate].
    simpl in Hd. rewrite andb_true_r in Hd. apply negb_false_iff in Hd.
    rewrite (te_single_chunked _ Hk Hd) in Et. inversion Et; subst c.
    destruct (bfe_trailer_ok h); [|discriminate]. inversion Hb; subst.
    destruct (te_tokens h) as [|t [|t2 l]]; try discriminate. rewrite Hd. reflexivity.
  - unfold bfe_te in Hb. rewrite (has_key_get_all _ _ Hk) in Hb. simpl in He.
    destruct (get_all s_cl h) as [|f r] eqn:Ecl.
    + simpl in Hb. destruct (bfe_trailer_ok h); [|discriminate]. exact Hb.
    + assert (Hh : has_key s_cl h = true).
      { destruct (has_key s_cl h) eqn:E; [reflexivity|]. rewrite (has_key_get_all _ _ E) in Ecl. discriminate. }
      rewrite Hh in He. cbn [negb andb] in He.
      destruct (cl_consistent (f :: r)); [|discriminate].
      destruct (cl_first (f :: r)) as [|c0 cl] eqn:Ef; [discriminate|].
      destruct (parse_cl (c0 :: cl)) as [n|] eqn:Ep; [|discriminate].
      rewrite (parse_cl_dec _ _ Ep).
      destruct (bfe_trailer_ok h); [|discriminate]. exact Hb.
Qed.

(* ---------- one request head ---------- *)
Lemma head_refine hd m : head_class hd = 0 -> validate V_bfe hd = inr m -> validate V_ref hd = inr m.
Proof.
  unfold head_class, validate. simpl.
  destruct (parse_request_line (h_reqline hd)) as [[[me t] p]|]; [|discriminate].
  destruct (negb (is_token me) || (bfe_version_ok p && negb (ref_version_ok p))) eqn:E5; [discriminate|].
  apply orb_false_iff in E5. destruct E5 as [Em Ev]. apply negb_false_iff in Em. rewrite Em. simpl.
  destruct (bfe_version_ok p) eqn:Ebv; simpl; [|discriminate].
  simpl in Ev. apply negb_false_iff in Ev. rewrite Ev. simpl.
  destruct (h_leadws hd) eqn:El; [discriminate|].
  destruct (existsb ws_before_colon (h_lines hd)); [discriminate|].
  destruct (existsb nontoken_key (h_lines hd)) eqn:En; [discriminate|].
  rewrite <- (collect_refine _ En).
  destruct (target_class me t =? 0); [intros _ H; exact H|].
  destruct (target_class me t =? 3); [intros _ H; exact H|].
  destruct (collect_fields bfe_field (h_lines hd)) as [fs|]; [|intros _ H; exact H].
  destruct (te_div fs) eqn:Ed; [discriminate|].
  destruct (negb (has_key s_te fs) && empty_cl fs) eqn:Ee; [discriminate|].
  intros _ H.
  destruct (h_complete hd); simpl in *; [|exact H].
  destruct (bfe_frame fs) as [c|fr] eqn:Ef; [discriminate|].
  rewrite (frame_refine _ _ Ef Ed Ee). exact H.
Qed.

(* ---------- the stream ---------- *)
Lemma stream_refine fuel : forall s qs e,
  stream_class fuel s = 0 -> parse_stream V_bfe fuel s = (qs, e) ->
  exists qs' e', parse_stream V_ref fuel s = (qs ++ qs', e').
Proof.
  induction fuel as [|f IH]; intros s qs e Hc H; simpl in *.
  - inversion H; subst. exists [], 99. reflexivity.
  - destruct (read_head s) as [hd|] eqn:Eh.
    + destruct (head_class hd =? 0) eqn:Ec; simpl in Hc; [|exfalso; apply Z.eqb_neq in Ec; congruence].
      apply Z.eqb_eq in Ec.
      destruct (validate V_bfe hd) as [c|m] eqn:Ev.
      * inversion H; subst. simpl. destruct (validate V_ref hd) as [c2|m2].
        -- eexists; eexists; reflexivity.
        -- destruct (read_body (r_framing m2) (h_rest hd)) as [[b rest]|].
           ++ destruct (parse_stream V_ref f rest) as [qs2 e2]. eexists; eexists; reflexivity.
           ++ eexists; eexists; reflexivity.
      * rewrite (head_refine _ _ Ec Ev).
        destruct (read_body (r_framing m) (h_rest hd)) as [[b rest]|].
        -- destruct (parse_stream V_bfe f rest) as [qs1 e1] eqn:E1. inversion H; subst.
           destruct (IH _ _ _ Hc E1) as [qs' [e' E2]]. rewrite E2. exists qs', e'. reflexivity.
        -- inversion H; subst. exists [], 20. reflexivity.
    + inversion H; subst. exists [], 0. reflexivity.
Qed.

(* ---------- BFE's header mutations do not touch the non-framing fields ---------- *)
Lemma key_is_eq k kv : key_is k kv = true -> fst kv = k.
Proof. unfold key_is. apply bytes_eqb_eq. Qed.
Lemma plain_del k h : framing_key k = true -> plain_fields (del_key k h) = plain_fields h.
Proof.
  intro Hk. unfold plain_fields, del_key. induction h as [|kv h IH]; simpl; [reflexivity|].
  destruct (key_is k kv) eqn:E; simpl.
  - apply key_is_eq in E. rewrite E, Hk. simpl. exact IH.
  - destruct (framing_key (fst kv)); simpl; rewrite IH; reflexivity.
Qed.
Lemma plain_app a b : plain_fields (a ++ b) = plain_fields a ++ plain_fields b.
Proof. unfold plain_fields. apply filter_app. Qed.
Lemma plain_dedupe f : forall seen h, plain_fields (dedupe_cl f seen h) = plain_fields h.
Proof.
  intros seen h. revert seen. induction h as [|kv h IH]; intro seen; simpl; [reflexivity|].
  destruct (key_is s_cl kv) eqn:E.
  - apply key_is_eq in E. destruct seen; unfold plain_fields in *; simpl; rewrite E; simpl; apply IH.
  - unfold plain_fields in *. simpl. rewrite IH. reflexivity.
Qed.
Lemma plain_final h fr : plain_fields (bfe_final_fields h fr) = plain_fields h.
Proof.
  unfold bfe_final_fields.
  set (h1 := del_key s_host h).
  set (h2 := if has_key s_pragma h1 && bytes_eqb (get_first s_pragma h1) s_nocache && negb (has_key s_cc h1)
             then h1 ++ [(s_cc, s_nocache)] else h1).
  assert (E2 : plain_fields h2 = plain_fields h).
  { unfold h2. destruct (has_key s_pragma h1 && bytes_eqb (get_first s_pragma h1) s_nocache && negb (has_key s_cc h1)).
    - rewrite plain_app. simpl. rewrite app_nil_r. apply plain_del. reflexivity.
    - apply plain_del. reflexivity. }
  set (h3 := del_key s_te h2).
  assert (E3 : plain_fields h3 = plain_fields h) by (unfold h3; rewrite plain_del; [exact E2|reflexivity]).
  match goal with |- plain_fields (match get_first s_trailer ?h4 with _ => _ end) = _ =>
    assert (E4 : plain_fields h4 = plain_fields h) end.
  { destruct fr as [n|].
    - set (h' := match get_all s_cl h3 with _ :: _ :: _ => dedupe_cl (trim4 (hd [] (get_all s_cl h3))) false h3 | _ => h3 end).
      assert (E' : plain_fields h' = plain_fields h).
      { unfold h'. destruct (get_all s_cl h3) as [|a [|b l]]; try exact E3. rewrite plain_dedupe. exact E3. }
      destruct (cl_first (get_all s_cl h3)); [rewrite plain_del; [exact E'|reflexivity]|exact E'].
    - rewrite plain_del; [exact E3|reflexivity]. }
  match goal with |- plain_fields (match ?x with _ => _ end) = _ => destruct x end;
    [exact E4|rewrite plain_del; [exact E4|reflexivity]].
Qed.

Lemma obs_matches_self total q : obs_matches total (bfe_obs total q) q = true.
Proof.
  unfold obs_matches, bfe_obs. simpl. rewrite !bytes_eqb_refl, plain_final, fields_eqb_refl, Z.eqb_refl. reflexivity.
Qed.
Lemma obs_prefix_self total qs qs' : obs_prefix total (map (bfe_obs total) qs) (qs ++ qs') = true.
Proof. induction qs as [|q qs IH]; simpl; [reflexivity|]. rewrite obs_matches_self, IH. reflexivity. Qed.

(* ---------- headline: outside the finding classes the model of BFE satisfies the property ---------- *)
Theorem C24_partial_lemma : forall s,
  stream_class (S (length s)) s = 0 -> prop_core s (fst (bfe_run s)) = true.
Proof.
  intros s Hc. unfold prop_core, bfe_run, parse_all.
  destruct (parse_stream V_bfe (S (length s)) s) as [qs e] eqn:E.
  destruct (stream_refine _ _ _ _ Hc E) as [qs' [e' E2]]. rewrite E2. cbn [fst].
  destruct (e' =? 98).
  - rewrite firstn_all2; [apply obs_prefix_self|]. rewrite map_length, app_length. lia.
  - apply obs_prefix_self.
Qed.

(* the same through the wire functions the harness evaluates *)
Lemma dec_enc_fields fs :
  all_some (map dec_field (map (fun kv : bytes * bytes => VL [VB (fst kv); VB (snd kv)]) fs)) = Some fs.
Proof. induction fs as [|[k v] fs IHf]; simpl; [reflexivity|]. rewrite IHf. reflexivity. Qed.
Lemma dec_enc_obs o : dec_obs (enc_obs o) = Some o.
Proof. unfold enc_obs, dec_obs, enc_fields. rewrite dec_enc_fields. destruct o; reflexivity. Qed.
Lemma all_some_map_dec os : all_some (map dec_obs (map enc_obs os)) = Some os.
Proof.
  induction os as [|o os IH]; [reflexivity|].
  cbn [map all_some]. rewrite dec_enc_obs, IH. reflexivity.
Qed.
Theorem C24_prop_of_model_lemma : forall s,
  kf_C24 (VB s) = 0 -> prop_C24 (VB s) (run_C24 (VB s)) = true.
Proof.
  intros s Hk. simpl in Hk. pose proof (C24_partial_lemma s Hk) as H.
  unfold run_C24, prop_C24. destruct (bfe_run s) as [os e] eqn:E. cbn [fst] in H. cbv beta iota. rewrite all_some_map_dec. exact H.
Qed.

(* ---------- refutations: each finding class, a concrete stream on which the model violates the property ---------- *)
Definition of_str (l : list Z) : bytes := l.
(* "GET / HTTP/1.1\r\nX-A : 1\r\n\r\n" *)
Definition w_wscolon : bytes := [71;69;84;32;47;32;72;84;84;80;47;49;46;49;13;10;88;45;65;32;58;32;49;13;10;13;10].
(* "GET / HTTP/1.1\r\nX(bad): 1\r\n\r\n" *)
Definition w_nontoken : bytes := [71;69;84;32;47;32;72;84;84;80;47;49;46;49;13;10;88;40;98;97;100;41;58;32;49;13;10;13;10].
(* "POST / HTTP/1.1\r\nTransfer-Encoding: identity, chunked\r\nContent-Length: 3\r\n\r\nabc" *)
Definition w_te : bytes :=
  [80;79;83;84;32;47;32;72;84;84;80;47;49;46;49;13;10] ++ s_te ++ [58;32] ++ s_identity ++ [44;32] ++ s_chunked ++ [13;10] ++
  s_cl ++ [58;32;51;13;10;13;10;97;98;99].
(* "GET / HTTP/1.1\r\n Host: a\r\n\r\n" *)
Definition w_leadws : bytes := [71;69;84;32;47;32;72;84;84;80;47;49;46;49;13;10;32;72;111;115;116;58;32;97;13;10;13;10].
(* "GET / HTTP/+1.1\r\n\r\n" *)
Definition w_version : bytes := [71;69;84;32;47;32;72;84;84;80;47;43;49;46;49;13;10;13;10].
(* "POST / HTTP/1.1\r\nContent-Length: \r\n\r\n" *)
Definition w_emptycl : bytes := [80;79;83;84;32;47;32;72;84;84;80;47;49;46;49;13;10] ++ s_cl ++ [58;32;13;10;13;10].

Definition refuted (s : bytes) (k : Z) : Prop :=
  wf_bytes s = true /\ kf_C24 (VB s) = k /\ prop_C24 (VB s) (run_C24 (VB s)) = false.
Lemma C24_refuted_lemma :
  refuted w_wscolon 1 /\ refuted w_nontoken 2 /\ refuted w_te 3 /\ refuted w_leadws 4 /\
  refuted w_version 5 /\ refuted w_emptycl 6.
Proof. repeat split; vm_compute; reflexivity. Qed.

(* non-vacuity: a pipelined stream (chunked POST with trailer, then GET) outside all classes, two requests accepted *)
Definition w_pipeline : bytes :=
  [80;79;83;84;32;47;97;32;72;84;84;80;47;49;46;49;13;10] ++ s_host ++ [58;32;104;13;10] ++
  s_te ++ [58;32] ++ s_chunked ++ [13;10;13;10;51;13;10;97;98;99;13;10;48;13;10;88;45;84;58;32;49;13;10;13;10] ++
  [71;69;84;32;47;98;32;72;84;84;80;47;49;46;48;13;10] ++ s_cl ++ [58;32;50;13;10] ++ s_cl ++ [58;32;50;32;13;10;13;10;120;121].
Lemma C24_nonvacuous_lemma :
  wf_bytes w_pipeline = true /\ kf_C24 (VB w_pipeline) = 0 /\
  length (fst (bfe_run w_pipeline)) = 2%nat /\ snd (bfe_run w_pipeline) = 0 /\
  map o_body (fst (bfe_run w_pipeline)) = [[97;98;99]; [120;121]].
Proof. repeat split; vm_compute; reflexivity. Qed.

(* the fixed defects: conflicting or signed Content-Length is rejected by the model of the fixed code *)
Lemma C24_cl_conflict_rejected_lemma : forall h a b r,
  has_key s_te h = false -> get_all s_cl h = a :: b :: r -> bytes_eqb (trim4 a) (trim4 b) = false ->
  bfe_frame h = inl 8.
Proof.
  intros h a b r Ht Hc Hne. unfold bfe_frame, bfe_te. rewrite (has_key_get_all _ _ Ht), Hc. simpl. rewrite Hne. reflexivity.
Qed.
