From Coq Require Import List ZArith Bool Lia.
From Bfe Require Import lib.Val lib.Bytes model.Http1Req run.RunC24.
Import ListNotations.
Open Scope Z_scope.

Lemma placeholder_c24 : kf_C24 (VZ 0) = 0.
Proof. reflexivity. Qed.
