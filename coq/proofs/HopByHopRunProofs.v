(* C26: outside known-finding class 1 the model's observation satisfies the executable property prop_C26. *)
From Coq Require Import List ZArith Bool Lia ZifyBool.
From Bfe Require Import lib.Val lib.ValProofs lib.Bytes gen.HopHeaders model.HopByHop proofs.HopByHopProofs run.RunC26.
Import ListNotations.
Open Scope Z_scope.

(* ---- canonical keys ---- *)
Lemma lower_upper c : lower_byte (upper_byte c) = lower_byte c.
Proof.
  unfold lower_byte, upper_byte.
  destruct ((97 <=? c) && (c <=? 122)) eqn:E1; destruct ((65 <=? c) && (c <=? 90)) eqn:E2;
    repeat match goal with |- context [if ?b then _ else _] => destruct b eqn:? end; lia.
Qed.
Lemma lower_lower c : lower_byte (lower_byte c) = lower_byte c.
Proof.
  unfold lower_byte.
  destruct ((65 <=? c) && (c <=? 90)) eqn:E2;
    repeat match goal with |- context [if ?b then _ else _] => destruct b eqn:? end; lia.
Qed.
Lemma lower_eq_upper_eq x y : lower_byte x = lower_byte y -> upper_byte x = upper_byte y.
Proof.
  unfold lower_byte, upper_byte.
  destruct ((65 <=? x) && (x <=? 90)) eqn:E1; destruct ((65 <=? y) && (y <=? 90)) eqn:E2;
  destruct ((97 <=? x) && (x <=? 122)) eqn:E3; destruct ((97 <=? y) && (y <=? 122)) eqn:E4; lia.
Qed.

Lemma canon_loop_fold : forall a b u, to_lower a = to_lower b -> canon_loop u a = canon_loop u b.
Proof.
  induction a as [|x a IH]; intros [|y b] u H; simpl in *; try discriminate; [reflexivity|].
  injection H as H1 H2.
  assert (Hc : (if u then upper_byte x else lower_byte x) = (if u then upper_byte y else lower_byte y)).
  { destruct u; [apply lower_eq_upper_eq; exact H1|exact H1]. }
  rewrite Hc. f_equal. apply IH. exact H2.
Qed.
Lemma to_lower_canon_loop : forall a u, to_lower (canon_loop u a) = to_lower a.
Proof.
  induction a as [|x a IH]; intros u; simpl; [reflexivity|].
  f_equal; [destruct u; [apply lower_upper|apply lower_lower]|apply IH].
Qed.
Lemma canon_loop_idem a u : canon_loop u (canon_loop u a) = canon_loop u a.
Proof. apply canon_loop_fold. apply to_lower_canon_loop. Qed.

Definition canonical (k : bytes) : Prop := canon_loop true k = k /\ forallb is_tchar k = true.

Lemma is_tchar_upper c : is_tchar c = true -> is_tchar (upper_byte c) = true.
Proof.
  unfold upper_byte. destruct ((97 <=? c) && (c <=? 122)) eqn:E; [|auto]. intros _. unfold is_tchar.
  assert (H : ((65 <=? c - 32) && (c - 32 <=? 90)) = true) by lia. rewrite H, orb_true_r. reflexivity.
Qed.
Lemma is_tchar_lower c : is_tchar c = true -> is_tchar (lower_byte c) = true.
Proof.
  unfold lower_byte. destruct ((65 <=? c) && (c <=? 90)) eqn:E; [|auto]. intros _. unfold is_tchar.
  assert (H : ((97 <=? c + 32) && (c + 32 <=? 122)) = true) by lia. rewrite H, orb_true_r. reflexivity.
Qed.
Lemma canon_loop_tchar : forall a u, forallb is_tchar a = true -> forallb is_tchar (canon_loop u a) = true.
Proof.
  induction a as [|x a IH]; intros u H; simpl in *; [reflexivity|].
  apply andb_true_iff in H. destruct H as [H1 H2]. apply andb_true_iff. split; [|apply IH; exact H2].
  destruct u; [apply is_tchar_upper|apply is_tchar_lower]; exact H1.
Qed.

Lemma canonical_fold_eq k s : canonical k -> canonical s -> eq_fold k s = true -> k = s.
Proof.
  unfold canonical, eq_fold. intros [Hk _] [Hs _] He. apply bytes_eqb_eq in He.
  rewrite <- Hk, <- Hs. apply canon_loop_fold. exact He.
Qed.
Lemma canon_key_canonical n : forallb is_tchar n = true -> canonical (canon_key n).
Proof.
  intros H. unfold canon_key, canonical. rewrite H. split; [apply canon_loop_idem|apply canon_loop_tchar; exact H].
Qed.

Lemma spec_names_canonical : Forall canonical spec_hop_names.
Proof. repeat (constructor; [split; reflexivity|]). constructor. Qed.
Lemma canonical_no_colon k : canonical k -> forallb (fun x => negb (x =? 58)) k = true.
Proof.
  intros [_ H]. rewrite forallb_forall in *. intros x Hx. specialize (H x Hx).
  destruct (x =? 58) eqn:E; [|reflexivity]. apply Z.eqb_eq in E. subst. discriminate.
Qed.

(* ---- invariant of header maps: unique canonical keys ---- *)
Definition keys_ok (m : hmap) : Prop := NoDup (map fst m) /\ Forall (fun e => canonical (fst e)) m.

Lemma hadd_keys_in k v m x : In x (map fst (hadd k v m)) -> x = k \/ In x (map fst m).
Proof.
  induction m as [|[k' vs] r IH]; simpl.
  - intros [H|[]]. left. symmetry. exact H.
  - destruct (bytes_eqb k k'); simpl; intros [H|H]; auto.
    destruct (IH H); auto.
Qed.
Lemma hadd_ok k v m : canonical k -> keys_ok m -> keys_ok (hadd k v m).
Proof.
  intros Hk [Hnd Hc]. induction m as [|[k' vs] r IH]; simpl.
  - split; simpl; [constructor; [intros []|constructor]|constructor; [exact Hk|constructor]].
  - inversion Hnd as [|? ? Hni Hnd']; subst. inversion Hc as [|? ? Hc1 Hc']; subst.
    destruct (bytes_eqb k k') eqn:E.
    + split; simpl; [constructor; assumption|constructor; assumption].
    + destruct (IH Hnd' Hc') as [I1 I2]. split; simpl.
      * constructor; [|exact I1]. intros Hin. apply hadd_keys_in in Hin. destruct Hin as [->|Hin].
        -- rewrite bytes_eqb_refl in E. discriminate.
        -- contradiction.
      * constructor; assumption.
Qed.
Lemma hdel_ok k m : keys_ok m -> keys_ok (hdel k m).
Proof.
  intros [Hnd Hc]. split.
  - unfold hdel. apply NoDup_map_filter. exact Hnd.
  - apply Forall_forall. intros e He. apply hdel_In in He. destruct He as [He _].
    rewrite Forall_forall in Hc. apply Hc. exact He.
Qed.
Lemma NoDup_app_single {A} (l : list A) x : NoDup l -> ~ In x l -> NoDup (l ++ [x]).
Proof.
  induction l as [|y l IH]; simpl; intros Hnd Hni.
  - constructor; [intros []|constructor].
  - inversion Hnd as [|? ? Hy Hnd']; subst. constructor.
    + intros Hin. apply in_app_or in Hin. destruct Hin as [Hin|[Hin|[]]]; [contradiction|].
      subst. apply Hni. left. reflexivity.
    + apply IH; [exact Hnd'|]. intros Hin. apply Hni. right. exact Hin.
Qed.
Lemma hset_ok k v m : canonical k -> keys_ok m -> keys_ok (hset k v m).
Proof.
  intros Hk Hm. destruct (hdel_ok k m Hm) as [Hnd Hc]. unfold hset. split.
  - rewrite map_app. simpl. apply NoDup_app_single.
    + exact Hnd.
    + intros Hin. apply in_map_iff in Hin. destruct Hin as [e [He Hin]]. apply hdel_In in Hin.
      destruct Hin as [_ Hne]. congruence.
  - apply Forall_app. split; [exact Hc|constructor; [exact Hk|constructor]].
Qed.

(* ---- reading the request keeps the invariant ---- *)
Definition names_ok (pairs : list (bytes * bytes)) : bool := forallb (fun p => forallb is_tchar (fst p)) pairs.

Lemma parse_headers_ok pairs : names_ok pairs = true -> keys_ok (parse_headers pairs).
Proof.
  unfold parse_headers.
  assert (G : forall acc, keys_ok acc -> names_ok pairs = true ->
              keys_ok (fold_left (fun m p => let k := canon_key (fst p) in
                                             match k with [] => m | _ => hadd k (trim_sp (snd p)) m end) pairs acc)).
  { induction pairs as [|p ps IH]; simpl; intros acc Hacc Hn; [exact Hacc|].
    apply andb_true_iff in Hn. destruct Hn as [Hp Hps]. apply IH; [|exact Hps].
    destruct (canon_key (fst p)) as [|c cr] eqn:E; [exact Hacc|].
    rewrite <- E. apply hadd_ok; [apply canon_key_canonical; exact Hp|exact Hacc]. }
  intros Hn. apply G; [|exact Hn]. split; constructor.
Qed.

Lemma canonical_cl : canonical s_content_length.
Proof. split; reflexivity. Qed.

Lemma fix_pragma_ok m : keys_ok m -> keys_ok (fix_pragma m).
Proof.
  intros Hm. unfold fix_pragma. destruct (hfind s_pragma m) as [[|v vs]|]; try exact Hm.
  destruct (bytes_eqb v s_no_cache); [|exact Hm].
  destruct (hfind s_cache_control m); [exact Hm|]. apply hset_ok; [split; reflexivity|exact Hm].
Qed.
Lemma fix_te_ok m m' ch : keys_ok m -> fix_te m = Some (m', ch) -> keys_ok m'.
Proof.
  intros Hm. unfold fix_te. destruct (hfind s_transfer_encoding m) as [[|v [|v' vs]]|]; try discriminate.
  - destruct (bytes_eqb _ _); [|discriminate]. intros H; inversion H; subst. apply hdel_ok. apply hdel_ok. exact Hm.
  - intros H; inversion H; subst. exact Hm.
Qed.
Lemma fix_length_inv (P : hmap -> Prop) m ch m' n :
  P m -> (forall v, P (hset s_content_length v m)) ->
  fix_length m ch = Some (m', n) -> P m'.
Proof.
  intros Hm Hset. unfold fix_length. destruct ch; [intros H; inversion H; subst; exact Hm|].
  set (m1 := match hfind s_content_length m with
             | Some (v0 :: v1 :: vs) =>
               if forallb (fun v => bytes_eqb (trim_sp v) (trim_sp v0)) (v1 :: vs)
               then Some (hset s_content_length (trim_sp v0) m) else None
             | _ => Some m end).
  assert (H1 : forall x, m1 = Some x -> P x).
  { intros x. unfold m1. destruct (hfind s_content_length m) as [[|v0 [|v1 vs]]|];
      try (intros H; inversion H; subst; exact Hm).
    destruct (forallb _ _); [|discriminate]. intros H; inversion H; subst. apply Hset. }
  destruct m1 as [x|]; [|discriminate]. specialize (H1 x eq_refl).
  destruct (hfind s_content_length x); [|intros H; inversion H; subst; exact H1].
  destruct (trim_sp (hfirst s_content_length x)) as [|c cr]; [discriminate|].
  destruct (parse_dec (c :: cr)); intros H; inversion H; subst. exact H1.
Qed.
Lemma fix_length_ok m ch m' n : keys_ok m -> fix_length m ch = Some (m', n) -> keys_ok m'.
Proof.
  intros Hm. apply (fix_length_inv keys_ok); [exact Hm|]. intros v. apply hset_ok; [exact canonical_cl|exact Hm].
Qed.
Lemma fix_trailer_ok m m' : keys_ok m -> fix_trailer m = Some m' -> keys_ok m'.
Proof.
  intros Hm. unfold fix_trailer. destruct (hfirst s_trailer m) as [|c cr]; [intros H; inversion H; subst; exact Hm|].
  destruct (existsb _ _); [discriminate|]. intros H; inversion H; subst. apply hdel_ok. exact Hm.
Qed.
Lemma read_request_ok pairs m ch n :
  names_ok pairs = true -> read_request pairs = Some (m, ch, n) -> keys_ok m.
Proof.
  intros Hn. unfold read_request.
  pose proof (fix_pragma_ok _ (hdel_ok s_host _ (parse_headers_ok pairs Hn))) as H0.
  destruct (fix_te _) as [[m1 c1]|] eqn:E1; [|discriminate].
  pose proof (fix_te_ok _ _ _ H0 E1) as H1.
  destruct (fix_length m1 c1) as [[m2 n2]|] eqn:E2; [|discriminate].
  pose proof (fix_length_ok _ _ _ _ H1 E2) as H2.
  destruct (fix_trailer m2) as [m3|] eqn:E3; [|discriminate].
  intros H; inversion H; subst. eapply fix_trailer_ok; eassumption.
Qed.

(* ---- output lines ---- *)
Lemma insert_sorted_In e x l : In x (insert_sorted e l) -> x = e \/ In x l.
Proof.
  induction l as [|y l IH]; simpl; [intros [H|[]]; left; symmetry; exact H|].
  destruct (bytes_ltb (fst y) (fst e)); simpl.
  - intros [H|H]; [right; left; exact H|]. destruct (IH H) as [H'|H']; [left; exact H'|right; right; exact H'].
  - intros [H|[H|H]]; [left; symmetry; exact H|right; left; exact H|right; right; exact H].
Qed.
Lemma sort_keys_In x m : In x (sort_keys m) -> In x m.
Proof.
  induction m as [|e m IH]; simpl; [intros []|].
  intros H. apply insert_sorted_In in H. destruct H as [->|H]; [left; reflexivity|right; apply IH; exact H].
Qed.
Lemma lines_of_In l m : In l (lines_of m) -> exists k vs v, In (k, vs) m /\ In v vs /\ l = line_of k v.
Proof.
  unfold lines_of. intros H. apply in_flat_map in H. destruct H as [[k vs] [He Hl]]. simpl in Hl.
  apply in_map_iff in Hl. destruct Hl as [v [Hv Hin]].
  exists k, vs, v. split; [apply sort_keys_In; exact He|]. split; [exact Hin|symmetry; exact Hv].
Qed.

Lemma index_byte_app c k r : forallb (fun x => negb (x =? c)) k = true -> index_byte c (k ++ c :: r) = Some (length k).
Proof.
  induction k as [|x k IH]; simpl; [rewrite Z.eqb_refl; reflexivity|].
  intros H. apply andb_true_iff in H. destruct H as [H1 H2]. apply negb_true_iff in H1. rewrite H1.
  rewrite (IH H2). reflexivity.
Qed.
Lemma firstn_length_app {A} (k r : list A) : firstn (length k) (k ++ r) = k.
Proof. induction k as [|x k IH]; simpl; [reflexivity|]. rewrite IH. reflexivity. Qed.
Lemma line_name_of k v : forallb (fun x => negb (x =? 58)) k = true -> line_name (line_of k v) = k.
Proof.
  intros H. unfold line_name, line_of, colon_sp. simpl. rewrite index_byte_app by exact H. apply firstn_length_app.
Qed.

(* canonical keys of all-token names contain no colon: every key the reader produces *)
Lemma tchar_no_colon x : is_tchar x = true -> negb (x =? 58) = true.
Proof.
  intros H. destruct (x =? 58) eqn:E; [|reflexivity]. apply Z.eqb_eq in E. subst. discriminate.
Qed.

(* ---- the central statement ---- *)
Definition wf_C26 (i : val) : bool :=
  match dec_C26 i with
  | Some (mode, pairs) =>
    names_ok pairs &&
    match read_request pairs with
    | Some (_, true, _) => (mode =? 2) || (mode =? 3)      (* a chunked body is only sent in modes 2 and 3 *)
    | _ => true
    end
  | None => false
  end.

Lemma all_some_as_B ls : all_some (map as_B (map VB ls)) = Some ls.
Proof. induction ls as [|x l IH]; simpl; [reflexivity|]. rewrite IH. reflexivity. Qed.

Lemma line_ok_host mode tokens : line_ok mode tokens (line_of s_host host_C26) = true.
Proof.
  unfold line_ok.
  assert (H : own_framing mode (line_name (line_of s_host host_C26)) (line_value (line_of s_host host_C26)) = true).
  { unfold own_framing. replace (eq_fold (line_name (line_of s_host host_C26)) s_host) with true by (vm_compute; reflexivity).
    reflexivity. }
  rewrite H. reflexivity.
Qed.
Lemma line_ok_cl mode tokens v : line_ok mode tokens (line_of s_content_length v) = true.
Proof.
  unfold line_ok. rewrite line_name_of by reflexivity.
  unfold own_framing. replace (eq_fold s_content_length s_content_length) with true by reflexivity.
  rewrite orb_true_r. reflexivity.
Qed.
Lemma line_ok_chunked mode tokens :
  (mode =? 2) || (mode =? 3) = true -> line_ok mode tokens (line_of s_transfer_encoding s_chunked) = true.
Proof.
  intros Hm. unfold line_ok.
  replace (line_name (line_of s_transfer_encoding s_chunked)) with s_transfer_encoding by (vm_compute; reflexivity).
  replace (line_value (line_of s_transfer_encoding s_chunked)) with s_chunked by (vm_compute; reflexivity).
  unfold own_framing. rewrite Hm.
  replace (eq_fold s_transfer_encoding s_transfer_encoding) with true by reflexivity.
  replace (bytes_eqb s_chunked s_chunked) with true by reflexivity.
  rewrite orb_true_r. reflexivity.
Qed.

Theorem prop_C26_of_model : forall i, wf_C26 i = true -> kf_C26 i = 0 -> prop_C26 i (run_C26 i) = true.
Proof.
  intros i Hwf Hkf. unfold wf_C26 in Hwf. unfold kf_C26 in Hkf. unfold prop_C26, run_C26.
  destruct (dec_C26 i) as [[mode pairs]|] eqn:Hd; [|discriminate].
  apply andb_true_iff in Hwf. destruct Hwf as [Hn Hmode].
  unfold backend_lines.
  destruct (read_request pairs) as [[[m ch] n]|] eqn:Hr; [|reflexivity].
  pose proof (read_request_ok pairs m ch n Hn Hr) as [Hnd Hcan].
  set (tokens := conn_tokens pairs) in *.
  assert (Hnom : forall e, In e (to_backend m) -> nominated tokens (fst e) = false).
  { intros e He. destruct (nominated tokens (fst e)) eqn:E; [|reflexivity].
    assert (Hex : existsb (fun e => nominated tokens (fst e)) (to_backend m) = true).
    { apply existsb_exists. exists e. split; assumption. }
    rewrite Hex in Hkf. discriminate. }
  set (m' := hop_remove m).
  cbn [map]. cbn [as_B all_some]. rewrite all_some_as_B.
  apply forallb_forall. intros l Hl. destruct Hl as [Hl|Hl].
  - subst l. apply line_ok_host.
  - apply in_app_or in Hl. destruct Hl as [Hl|Hl].
    + (* framing *)
      unfold framing_lines in Hl. destruct ch.
      * destruct Hl as [Hl|[]]. subst l. apply line_ok_chunked. exact Hmode.
      * destruct (0 <? n).
        -- destruct Hl as [Hl|[]]. subst l. apply line_ok_cl.
        -- destruct (hfirst s_content_length m'); [destruct Hl|]. destruct Hl as [Hl|[]]. subst l. apply line_ok_cl.
    + (* forwarded header fields *)
      apply lines_of_In in Hl. destruct Hl as [k [vs [v [He [Hv Hl]]]]]. subst l.
      change (written m') with (to_backend m) in He.
      pose proof (to_backend_sub m _ He) as Hin.
      rewrite Forall_forall in Hcan. pose proof (Hcan _ Hin) as Hk. simpl in Hk.
      unfold line_ok. rewrite line_name_of by (apply canonical_no_colon; exact Hk).
      pose proof (Hnom _ He) as Hno. simpl in Hno. rewrite Hno.
      destruct (existsb (eq_fold k) spec_hop_names) eqn:Ee.
      * apply existsb_exists in Ee. destruct Ee as [s [Hs Hf]].
        pose proof spec_names_canonical as Hsc. rewrite Forall_forall in Hsc.
        pose proof (canonical_fold_eq k s Hk (Hsc s Hs) Hf) as ->.
        destruct (listed_removed m s vs Hnd Hs He) as [-> ->].
        destruct Hv as [<-|[]].
        replace (line_value (line_of s_te s_trailers)) with s_trailers by (vm_compute; reflexivity).
        replace (eq_fold s_te s_te) with true by reflexivity.
        replace (bytes_eqb s_trailers s_trailers) with true by reflexivity.
        cbn [negb andb orb]. apply orb_true_r.
      * cbn [negb andb orb]. apply orb_true_r.
Qed.

(* non-vacuity: a well-formed input outside the finding class, with hop-by-hop fields and a chunked body *)
Definition ex_wire : val :=
  VL [VZ 2; VL [VL [VB s_connection; VB [99;108;111;115;101]];                               (* Connection: close *)
                VL [VB [116;101]; VB s_trailers];                                           (* te: trailers *)
                VL [VB s_transfer_encoding; VB s_chunked];
                VL [VB [88;45;70;111;111]; VB [49]]]].                                      (* X-Foo: 1 *)
Lemma ex_wire_ok :
  wf_C26 ex_wire = true /\ kf_C26 ex_wire = 0 /\
  run_C26 ex_wire = VL (map VB [line_of s_host host_C26; line_of s_transfer_encoding s_chunked;
                                line_of s_te s_trailers; [88;45;70;111;111;58;32;49]]).
Proof. vm_compute. repeat split; reflexivity. Qed.

(* ---- the guard is exact: every input of finding class 1 does violate the property ---- *)
Definition vals_ok (m : hmap) : Prop := Forall (fun e => snd e <> []) m.

Lemma hadd_vals k v m : vals_ok m -> vals_ok (hadd k v m).
Proof.
  unfold vals_ok. induction m as [|[k' vs] r IH]; simpl; intros H.
  - constructor; [discriminate|constructor].
  - inversion H as [|? ? H1 H2]; subst. destruct (bytes_eqb k k').
    + constructor; [|exact H2]. simpl. intros E. apply app_eq_nil in E. destruct E as [_ E]. discriminate.
    + constructor; [exact H1|apply IH; exact H2].
Qed.
Lemma hdel_vals k m : vals_ok m -> vals_ok (hdel k m).
Proof.
  unfold vals_ok. intros H. apply Forall_forall. intros e He. apply hdel_In in He.
  rewrite Forall_forall in H. apply H. apply He.
Qed.
Lemma hset_vals k v m : vals_ok m -> vals_ok (hset k v m).
Proof.
  intros H. unfold hset, vals_ok. apply Forall_app. split; [apply hdel_vals; exact H|].
  constructor; [discriminate|constructor].
Qed.
Lemma parse_headers_vals pairs : vals_ok (parse_headers pairs).
Proof.
  unfold parse_headers.
  assert (G : forall acc, vals_ok acc ->
              vals_ok (fold_left (fun m p => let k := canon_key (fst p) in
                                             match k with [] => m | _ => hadd k (trim_sp (snd p)) m end) pairs acc)).
  { induction pairs as [|p ps IH]; simpl; intros acc Hacc; [exact Hacc|].
    apply IH. destruct (canon_key (fst p)); [exact Hacc|apply hadd_vals; exact Hacc]. }
  apply G. constructor.
Qed.
Lemma fix_pragma_vals m : vals_ok m -> vals_ok (fix_pragma m).
Proof.
  intros Hm. unfold fix_pragma. destruct (hfind s_pragma m) as [[|v vs]|]; try exact Hm.
  destruct (bytes_eqb v s_no_cache); [|exact Hm].
  destruct (hfind s_cache_control m); [exact Hm|]. apply hset_vals. exact Hm.
Qed.
Lemma read_request_vals pairs m ch n : read_request pairs = Some (m, ch, n) -> vals_ok m.
Proof.
  unfold read_request.
  pose proof (fix_pragma_vals _ (hdel_vals s_host _ (parse_headers_vals pairs))) as H0.
  set (m0 := fix_pragma (hdel s_host (parse_headers pairs))) in *.
  destruct (fix_te m0) as [[m1 c1]|] eqn:E1; [|discriminate].
  assert (H1 : vals_ok m1).
  { revert E1. unfold fix_te. destruct (hfind s_transfer_encoding m0) as [[|v [|v' vs]]|]; try discriminate.
    - destruct (bytes_eqb _ _); [|discriminate]. intros H; inversion H; subst. apply hdel_vals. apply hdel_vals. exact H0.
    - intros H; inversion H; subst. exact H0. }
  destruct (fix_length m1 c1) as [[m2 n2]|] eqn:E2; [|discriminate].
  assert (H2 : vals_ok m2).
  { apply (fix_length_inv vals_ok m1 c1 m2 n2); [exact H1| |exact E2]. intros v. apply hset_vals. exact H1. }
  unfold fix_trailer. destruct (hfirst s_trailer m2) as [|c cr].
  - intros H; inversion H; subst. exact H2.
  - destruct (existsb _ _); [discriminate|]. intros H; inversion H; subst. apply hdel_vals. exact H2.
Qed.

Lemma insert_sorted_In_rev e x l : x = e \/ In x l -> In x (insert_sorted e l).
Proof.
  induction l as [|y l IH]; simpl; [intros [H|[]]; left; symmetry; exact H|].
  destruct (bytes_ltb (fst y) (fst e)); simpl.
  - intros [H|[H|H]]; [right; apply IH; left; exact H|left; exact H|right; apply IH; right; exact H].
  - intros [H|[H|H]]; [left; symmetry; exact H|right; left; exact H|right; right; exact H].
Qed.
Lemma sort_keys_In_rev x m : In x m -> In x (sort_keys m).
Proof.
  induction m as [|e m IH]; simpl; [intros []|].
  intros [H|H]; apply insert_sorted_In_rev; [left; symmetry; exact H|right; apply IH; exact H].
Qed.
Lemma lines_of_In_rev k vs v m : In (k, vs) m -> In v vs -> In (line_of k v) (lines_of m).
Proof.
  intros He Hv. unfold lines_of. apply in_flat_map. exists (k, vs). split; [apply sort_keys_In_rev; exact He|].
  simpl. apply in_map. exact Hv.
Qed.

Theorem kf_C26_exact : forall i, wf_C26 i = true -> kf_C26 i = 1 -> prop_C26 i (run_C26 i) = false.
Proof.
  intros i Hwf Hkf. unfold wf_C26 in Hwf. unfold kf_C26 in Hkf. unfold prop_C26, run_C26.
  destruct (dec_C26 i) as [[mode pairs]|] eqn:Hd; [|discriminate].
  apply andb_true_iff in Hwf. destruct Hwf as [Hn _].
  unfold backend_lines.
  destruct (read_request pairs) as [[[m ch] n]|] eqn:Hr; [|discriminate].
  pose proof (read_request_ok pairs m ch n Hn Hr) as [Hnd Hcan].
  pose proof (read_request_vals pairs m ch n Hr) as Hvals.
  set (tokens := conn_tokens pairs) in *.
  destruct (existsb (fun e => nominated tokens (fst e)) (to_backend m)) eqn:Hex; [|discriminate].
  apply existsb_exists in Hex. destruct Hex as [[k vs] [He Hnom]]. simpl in Hnom.
  pose proof (to_backend_sub m _ He) as Hin.
  rewrite Forall_forall in Hcan. pose proof (Hcan _ Hin) as Hk. simpl in Hk.
  unfold vals_ok in Hvals. rewrite Forall_forall in Hvals. pose proof (Hvals _ Hin) as Hne. simpl in Hne.
  destruct vs as [|v vs']; [contradiction|].
  set (m' := hop_remove m).
  cbn [map]. cbn [as_B all_some]. rewrite all_some_as_B.
  apply not_true_is_false. intros Hall. rewrite forallb_forall in Hall.
  assert (Hl : In (line_of k v) (line_of s_host host_C26 :: framing_lines m' ch n ++ lines_of (written m'))).
  { right. apply in_or_app. right. apply (lines_of_In_rev k (v :: vs') v); [exact He|left; reflexivity]. }
  specialize (Hall _ Hl). unfold line_ok in Hall.
  rewrite line_name_of in Hall by (apply canonical_no_colon; exact Hk).
  rewrite Hnom in Hall. cbn [negb] in Hall. rewrite andb_false_r, orb_false_r in Hall.
  (* k is not one of BFE's framing names: those are in the write-exclude list *)
  apply written_In in He. destruct He as [_ Hex]. simpl in Hex.
  unfold own_framing in Hall.
  assert (F : forall s, canonical s -> In s write_exclude -> eq_fold k s = false).
  { intros s Hs Hins. destruct (eq_fold k s) eqn:E; [|reflexivity].
    apply (canonical_fold_eq k s Hk Hs) in E. subst. contradiction. }
  rewrite (F s_host) in Hall by (try (split; reflexivity); simpl; tauto).
  rewrite (F s_content_length) in Hall by (try (split; reflexivity); simpl; tauto).
  rewrite (F s_transfer_encoding) in Hall by (try (split; reflexivity); simpl; tauto).
  discriminate.
Qed.

(* the corpus case kf1-conn-nominated (corpus/C26/findings.case) is well-formed and in finding class 1 *)
Definition corpus_kf1 : val :=
  VL [VZ 0; VL [VL [VB s_connection; VB [120;45;102;111;111;44;32;99;108;111;115;101]]; VL [VB [88;45;70;111;111]; VB [49]]]].
Lemma corpus_kf1_ok : wf_C26 corpus_kf1 = true /\ kf_C26 corpus_kf1 = 1.
Proof. vm_compute. split; reflexivity. Qed.
