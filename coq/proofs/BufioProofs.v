From Coq Require Import List ZArith Bool Lia ZifyBool.
From Bfe Require Import lib.Val lib.ValProofs lib.Bytes model.Bufio run.RunC22.
Import ListNotations.
Open Scope Z_scope.

(* ---------- the scripted source hands out its stream in order ---------- *)
Definition script_stream (s : script) : bytes := concat (map fst s).

Lemma src_read_stream room s d e s' : 0 <= room ->
  src_read room s = (d, e, s') -> script_stream s = d ++ script_stream s' /\ blen d <= Z.max room 0.
Proof.
  intros Hroom. destruct s as [|[d0 e0] rest]; simpl.
  - intros H. inversion H; subst. split; [reflexivity|]. unfold blen. simpl. lia.
  - destruct (blen d0 <=? room) eqn:E; intros H; inversion H; subst; clear H.
    + split; [reflexivity|]. lia.
    + unfold script_stream. simpl. rewrite app_assoc, firstn_skipn. split; [reflexivity|].
      unfold blen. rewrite firstn_length. lia.
Qed.

(* ---------- counter exactness: TotalRead = pulled - Buffered is an invariant of every operation ---------- *)
Definition Inv (s : reader) : Prop :=
  1 <= rcap s /\ 0 <= rr s /\ rr s <= rw s /\ rw s <= rcap s /\
  rtotal s = rpulled s - (rw s - rr s) /\ rr s <= rtotal s /\ (0 <= rlast s -> 1 <= rtotal s).

Lemma sub_length l a b : 0 <= a -> a <= b -> b <= blen l -> blen (sub l a b) = b - a.
Proof. intros. unfold sub, blen in *. rewrite firstn_length, skipn_length. lia. Qed.
Lemma blit_length dst off src : 0 <= off -> off + blen src <= blen dst -> blen (blit dst off src) = blen dst.
Proof.
  intros. unfold blit, blen in *. rewrite !app_length, firstn_length, skipn_length. lia.
Qed.
Lemma src_read_len room s d e s' : 0 <= room -> src_read room s = (d, e, s') -> blen d <= room.
Proof. intros H E. destruct (src_read_stream room s d e s' H E) as [_ L]. lia. Qed.
Lemma index_byte_bound c l i : index_byte c l = Some i -> Z.of_nat i + 1 <= blen l.
Proof.
  revert i. induction l as [|x r IH]; intros i H; simpl in H; [discriminate|]. unfold blen in *. simpl length.
  destruct (x =? c); [inversion H; lia|].
  destruct (index_byte c r) as [j|]; [|discriminate]. simpl in H. inversion H. specialize (IH j eq_refl). lia.
Qed.
Lemma nonempty_blen (l : bytes) : l <> [] -> 1 <= blen l.
Proof. destruct l; [congruence|]. unfold blen. simpl. lia. Qed.
Lemma note_last_ok line old t k : (0 <= old -> 1 <= t) -> 0 <= t -> 0 <= k -> (line <> [] -> 1 <= k) ->
  0 <= note_last line old -> 1 <= t + k.
Proof.
  intros H1 H2 H3 H4 H5. destruct line as [|x r]; simpl in H5; [specialize (H1 H5); lia|].
  assert (1 <= k) by (apply H4; discriminate). lia.
Qed.

Ltac recsimpl := cbn [rbuf rr rw rerr rlast rtotal rsrc rpulled] in *.

Lemma fill_inv s : Inv s -> Inv (fill s) /\ rcap (fill s) = rcap s /\ rr (fill s) = 0 /\
  rw (fill s) >= buffered s /\ rlast (fill s) = rlast s /\ rtotal (fill s) = rtotal s.
Proof.
  unfold Inv, fill, rcap, buffered, window. intros (Hc & Hr0 & Hrw & Hwc & Ht & Hrt & Hl).
  set (slide := 0 <? rr s).
  set (w1 := if slide then rw s - rr s else rw s).
  set (buf1 := if slide then blit (rbuf s) 0 (sub (rbuf s) (rr s) (rw s)) else rbuf s).
  assert (Hw1 : 0 <= w1 <= blen (rbuf s) /\ w1 = rw s - rr s) by (unfold w1, slide; destruct (0 <? rr s) eqn:E; lia).
  assert (Hb1 : blen buf1 = blen (rbuf s)).
  { unfold buf1. destruct slide; [|reflexivity]. apply blit_length; [lia|]. rewrite sub_length; lia. }
  destruct (src_read (blen (rbuf s) - w1) (rsrc s)) as [[d e] src'] eqn:Es.
  assert (Hroom : 0 <= blen (rbuf s) - w1) by lia.
  pose proof (src_read_len _ _ _ _ _ Hroom Es) as Hd.
  assert (0 <= blen d) by (unfold blen; lia).
  recsimpl. rewrite blit_length by lia. rewrite Hb1. repeat split; try lia.
Qed.

Lemma rd_copy_inv n s d e s' : Inv s -> 0 < n -> rr s < rw s -> rd_copy n s = (d, e, s') -> Inv s'.
Proof.
  unfold rd_copy, Inv, advance, buffered, rcap. intros (Hc & Hr0 & Hrw & Hwc & Ht & Hrt & Hl) Hn Hlt E.
  inversion E; subst; clear E. recsimpl. repeat split; try lia.
Qed.

Lemma rd_read_inv n s d e s' : Inv s -> 0 <= n -> rd_read n s = (d, e, s') -> Inv s'.
Proof.
  intros HI Hn. unfold rd_read.
  destruct (n =? 0) eqn:En; [intros E; inversion E; subst; unfold Inv, set_err, rcap in *; recsimpl; exact HI|].
  destruct (rw s =? rr s) eqn:Ew.
  - destruct (negb (rerr s =? 0)); [intros E; inversion E; subst; unfold Inv, set_err, rcap in *; recsimpl; exact HI|].
    destruct (rcap s <=? n) eqn:Ec.
    + destruct (src_read n (rsrc s)) as [[d0 e0] src'] eqn:Es. intros E; inversion E; subst; clear E.
      pose proof (src_read_len _ _ _ _ _ Hn Es) as Hd. assert (0 <= blen d) by (unfold blen; lia).
      unfold Inv, rcap in *. recsimpl. destruct HI as (Hc & Hr0 & Hrw & Hwc & Ht & Hrt & Hl).
      repeat split; try lia. intros Hn0. apply (note_last_ok d (rlast s)); try lia; try assumption.
      intros Hne. apply nonempty_blen. exact Hne.
    + destruct (fill_inv s HI) as (HI1 & _). destruct (rw (fill s) =? rr (fill s)) eqn:Ef.
      * intros E; inversion E; subst. unfold Inv, set_err, rcap in *; recsimpl; exact HI1.
      * intros E. apply (rd_copy_inv n (fill s) d e s' HI1); [lia| |exact E].
        unfold Inv in HI1. lia.
  - intros E. apply (rd_copy_inv n s d e s' HI); [lia| |exact E]. unfold Inv in HI. lia.
Qed.

Lemma rd_byte_loop_inv : forall fuel s c e s', Inv s -> rd_byte_loop fuel s = (c, e, s') -> Inv s'.
Proof.
  induction fuel as [|f IH]; intros s c e s' HI; cbn [rd_byte_loop];
  (destruct (rw s =? rr s) eqn:Ew;
   [destruct (negb (rerr s =? 0));
     [intros E; inversion E; subst; unfold Inv, set_err, rcap in *; recsimpl; exact HI|]
   |intros E; inversion E; subst; unfold Inv, advance, rcap in *; recsimpl; lia]).
  - intros E; inversion E; subst. exact HI.
  - intros E. apply (IH (fill s) c e s'); [apply fill_inv; exact HI|exact E].
Qed.

Lemma rd_unread_inv s e s' : Inv s -> rd_unread s = (e, s') -> Inv s'.
Proof.
  unfold rd_unread. intros HI.
  destruct ((rr s =? rw s) && (0 <=? rlast s)) eqn:E1.
  - intros E; inversion E; subst; clear E. unfold Inv, rcap, dec_total in *. recsimpl.
    destruct HI as (Hc & Hr0 & Hrw & Hwc & Ht & Hrt & Hl).
    rewrite blit_length by (unfold blen; simpl; lia).
    assert (1 <= rtotal s) by (apply Hl; lia). assert (0 <? rtotal s = true) as -> by lia.
    repeat split; lia.
  - destruct (rr s <=? 0) eqn:E2; intros E; inversion E; subst; clear E; [exact HI|].
    unfold Inv, rcap, dec_total in *. recsimpl. destruct HI as (Hc & Hr0 & Hrw & Hwc & Ht & Hrt & Hl).
    assert (0 <? rtotal s = true) as -> by lia. repeat split; lia.
Qed.
