From Coq Require Import List ZArith Bool Lia ZifyBool.
From Bfe Require Import lib.Val lib.ValProofs lib.Bytes model.Bufio run.RunC22.
Import ListNotations.
Open Scope Z_scope.

(* ---------- the scripted source hands out its stream in order ---------- *)
Definition script_stream (s : script) : bytes := concat (map fst s).

Lemma src_read_stream room s d e s' : 0 <= room ->
  src_read room s = (d, e, s') -> script_stream s = d ++ script_stream s' /\ blen d <= Z.max room 0.
Proof.
  intros Hroom. destruct s as [|[d0 e0] rest]; simpl.
  - intros H. inversion H; subst. split; [reflexivity|]. unfold blen. simpl. lia.
  - destruct (blen d0 <=? room) eqn:E; intros H; inversion H; subst; clear H.
    + split; [reflexivity|]. lia.
    + unfold script_stream. simpl. rewrite app_assoc, firstn_skipn. split; [reflexivity|].
      unfold blen. rewrite firstn_length. lia.
Qed.
