From Coq Require Import List ZArith Bool Lia ZifyBool.
From Bfe Require Import lib.Val lib.ValProofs lib.Bytes model.Bufio run.RunC22.
Import ListNotations.
Open Scope Z_scope.

(* ---------- the scripted source hands out its stream in order ---------- *)
Definition script_stream (s : script) : bytes := concat (map fst s).

Lemma src_read_stream room s d e s' : 0 <= room ->
  src_read room s = (d, e, s') -> script_stream s = d ++ script_stream s' /\ blen d <= Z.max room 0.
Proof.
  intros Hroom. destruct s as [|[d0 e0] rest]; simpl.
  - intros H. inversion H; subst. split; [reflexivity|]. unfold blen. simpl. lia.
  - destruct (blen d0 <=? room) eqn:E; intros H; inversion H; subst; clear H.
    + split; [reflexivity|]. lia.
    + unfold script_stream. simpl. rewrite app_assoc, firstn_skipn. split; [reflexivity|].
      unfold blen. rewrite firstn_length. lia.
Qed.

(* ---------- counter exactness: TotalRead = pulled - Buffered is an invariant of every operation ---------- *)
Lemma blen_nonneg_early (l : bytes) : 0 <= blen l.
Proof. unfold blen. lia. Qed.

Definition Inv (s : reader) : Prop :=
  1 <= rcap s /\ 0 <= rr s /\ rr s <= rw s /\ rw s <= rcap s /\
  rtotal s = rpulled s - (rw s - rr s) /\ rr s <= rtotal s /\ (0 <= rlast s -> rr s = rw s -> 1 <= rtotal s).

Lemma sub_length l a b : 0 <= a -> a <= b -> b <= blen l -> blen (sub l a b) = b - a.
Proof. intros. unfold sub, blen in *. rewrite firstn_length, skipn_length. lia. Qed.
Lemma blit_length dst off src : 0 <= off -> off + blen src <= blen dst -> blen (blit dst off src) = blen dst.
Proof.
  intros. unfold blit, blen in *. rewrite !app_length, firstn_length, skipn_length. lia.
Qed.
Lemma src_read_len room s d e s' : 0 <= room -> src_read room s = (d, e, s') -> blen d <= room.
Proof. intros H E. destruct (src_read_stream room s d e s' H E) as [_ L]. lia. Qed.
Lemma index_byte_bound c l i : index_byte c l = Some i -> Z.of_nat i + 1 <= blen l.
Proof.
  revert i. induction l as [|x r IH]; intros i H; simpl in H; [discriminate|]. unfold blen in *. simpl length.
  destruct (x =? c); [inversion H; lia|].
  destruct (index_byte c r) as [j|]; [|discriminate]. simpl in H. inversion H. specialize (IH j eq_refl). lia.
Qed.
Lemma nonempty_blen (l : bytes) : l <> [] -> 1 <= blen l.
Proof. destruct l; [congruence|]. unfold blen. simpl. lia. Qed.
Lemma note_last_ok line old t k : (line = [] -> 0 <= old -> 1 <= t) -> 0 <= t -> 0 <= k -> (line <> [] -> 1 <= k) ->
  0 <= note_last line old -> 1 <= t + k.
Proof.
  intros H1 H2 H3 H4 H5. destruct line as [|x r]; simpl in H5; [specialize (H1 eq_refl H5); lia|].
  assert (1 <= k) by (apply H4; discriminate). lia.
Qed.

Ltac recsimpl := cbn [rbuf rr rw rerr rlast rtotal rsrc rpulled] in *.

Lemma fill_inv s : Inv s -> Inv (fill s) /\ rcap (fill s) = rcap s /\ rr (fill s) = 0 /\
  rw (fill s) >= buffered s /\ rlast (fill s) = rlast s /\ rtotal (fill s) = rtotal s.
Proof.
  unfold Inv, fill, rcap, buffered, window. intros (Hc & Hr0 & Hrw & Hwc & Ht & Hrt & Hl).
  set (slide := 0 <? rr s).
  set (w1 := if slide then rw s - rr s else rw s).
  set (buf1 := if slide then blit (rbuf s) 0 (sub (rbuf s) (rr s) (rw s)) else rbuf s).
  assert (Hw1 : 0 <= w1 <= blen (rbuf s) /\ w1 = rw s - rr s) by (unfold w1, slide; destruct (0 <? rr s) eqn:E; lia).
  assert (Hb1 : blen buf1 = blen (rbuf s)).
  { unfold buf1. destruct slide; [|reflexivity]. apply blit_length; [lia|]. rewrite sub_length; lia. }
  destruct (src_read (blen (rbuf s) - w1) (rsrc s)) as [[d e] src'] eqn:Es.
  assert (Hroom : 0 <= blen (rbuf s) - w1) by lia.
  pose proof (src_read_len _ _ _ _ _ Hroom Es) as Hd.
  assert (0 <= blen d) by (unfold blen; lia).
  recsimpl. rewrite blit_length by lia. rewrite Hb1. repeat split; try lia.
Qed.

Lemma rd_copy_inv n s d e s' : Inv s -> 0 < n -> rr s < rw s -> rd_copy n s = (d, e, s') -> Inv s'.
Proof.
  unfold rd_copy, Inv, advance, buffered, rcap. intros (Hc & Hr0 & Hrw & Hwc & Ht & Hrt & Hl) Hn Hlt E.
  inversion E; subst; clear E. recsimpl. repeat split; try lia.
Qed.

Lemma rd_read_inv n s d e s' : Inv s -> 0 <= n -> rd_read n s = (d, e, s') -> Inv s'.
Proof.
  intros HI Hn. unfold rd_read.
  destruct (n =? 0) eqn:En; [intros E; inversion E; subst; unfold Inv, set_err, rcap in *; recsimpl; exact HI|].
  destruct (rw s =? rr s) eqn:Ew.
  - destruct (negb (rerr s =? 0)); [intros E; inversion E; subst; unfold Inv, set_err, rcap in *; recsimpl; exact HI|].
    destruct (rcap s <=? n) eqn:Ec.
    + destruct (src_read n (rsrc s)) as [[d0 e0] src'] eqn:Es. intros E; inversion E; subst; clear E.
      pose proof (src_read_len _ _ _ _ _ Hn Es) as Hd. assert (0 <= blen d) by (unfold blen; lia).
      unfold Inv, rcap in *. recsimpl. destruct HI as (Hc & Hr0 & Hrw & Hwc & Ht & Hrt & Hl).
      repeat split; try lia. intros Hn0 _.
      apply (note_last_ok d (rlast s)); [intros _ H0; apply Hl; lia|lia|lia| |exact Hn0].
      intros Hne. apply nonempty_blen. exact Hne.
    + destruct (fill_inv s HI) as (HI1 & _). destruct (rw (fill s) =? rr (fill s)) eqn:Ef.
      * intros E; inversion E; subst. unfold Inv, set_err, rcap in *; recsimpl; exact HI1.
      * intros E. apply (rd_copy_inv n (fill s) d e s' HI1); [lia| |exact E].
        unfold Inv in HI1. lia.
  - intros E. apply (rd_copy_inv n s d e s' HI); [lia| |exact E]. unfold Inv in HI. lia.
Qed.

Lemma rd_byte_loop_inv : forall fuel s c e s', Inv s -> rd_byte_loop fuel s = (c, e, s') -> Inv s'.
Proof.
  induction fuel as [|f IH]; intros s c e s' HI; cbn [rd_byte_loop];
  (destruct (rw s =? rr s) eqn:Ew;
   [destruct (negb (rerr s =? 0));
     [intros E; inversion E; subst; unfold Inv, set_err, rcap in *; recsimpl; exact HI|]
   |intros E; inversion E; subst; unfold Inv, advance, rcap in *; recsimpl; lia]).
  - intros E; inversion E; subst. exact HI.
  - intros E. apply (IH (fill s) c e s'); [apply fill_inv; exact HI|exact E].
Qed.

Lemma rd_unread_inv s e s' : Inv s -> rd_unread s = (e, s') -> Inv s'.
Proof.
  unfold rd_unread. intros HI.
  destruct ((rr s =? rw s) && (0 <=? rlast s)) eqn:E1.
  - intros E; inversion E; subst; clear E. unfold Inv, rcap, dec_total in *. recsimpl.
    destruct HI as (Hc & Hr0 & Hrw & Hwc & Ht & Hrt & Hl).
    rewrite blit_length by (unfold blen in *; simpl; lia).
    assert (1 <= rtotal s) by (apply Hl; lia). assert (0 <? rtotal s = true) as -> by lia.
    repeat split; lia.
  - destruct (rr s <=? 0) eqn:E2; intros E; inversion E; subst; clear E; [exact HI|].
    unfold Inv, rcap, dec_total in *. recsimpl. destruct HI as (Hc & Hr0 & Hrw & Hwc & Ht & Hrt & Hl).
    assert (0 <? rtotal s = true) as -> by lia. repeat split; lia.
Qed.

Lemma window_len s : Inv s -> blen (window s) = rw s - rr s.
Proof. unfold Inv, window, rcap. intros (Hc & Hr0 & Hrw & Hwc & _). apply sub_length; lia. Qed.

Lemma set_err_inv s e : Inv s -> Inv (set_err s e).
Proof. unfold Inv, set_err, rcap. recsimpl. tauto. Qed.

(* consuming k bytes of the window *)
Lemma advance_inv s r' l k : Inv s -> k = r' - rr s -> 0 <= k -> r' <= rw s -> (0 <= l -> 1 <= rtotal s + k) ->
  Inv (advance s r' l k).
Proof.
  unfold Inv, advance, rcap. intros (Hc & Hr0 & Hrw & Hwc & Ht & Hrt & Hl) Hk Hk0 Hr' Hlast. recsimpl.
  repeat split; try lia; try exact Hlast.
Qed.

Lemma rd_slice_loop_inv : forall fuel delim s d e s', Inv s -> rd_slice_loop fuel delim s = (d, e, s') ->
  Inv s' /\ blen d <= rr s'.
Proof.
  induction fuel as [|f IH]; intros delim s d e s' HI; cbn [rd_slice_loop].
  - intros E; inversion E; subst. split; [exact HI|]. unfold blen. simpl. unfold Inv in HI. lia.
  - destruct (negb (rerr s =? 0)).
    + intros E; inversion E; subst; clear E.
      pose proof (window_len s HI) as Hwl. pose proof HI as (Hc & Hr0 & Hrw & Hwc & Ht & Hrt & Hl).
      split.
      * apply set_err_inv. apply advance_inv; try assumption; unfold buffered; try lia.
        intros H0. apply (note_last_ok (window s) (rlast s)); [|lia|lia| |exact H0].
        { intros Hempty H1. rewrite Hempty in Hwl. unfold blen in Hwl. simpl in Hwl. apply Hl; lia. }
        intros Hne. apply nonempty_blen in Hne. lia.
      * unfold set_err, advance. recsimpl. lia.
    + destruct (fill_inv s HI) as (HI1 & Hcap & Hr1 & Hw1 & Hl1 & Ht1).
      pose proof HI1 as (Hc & Hr0 & Hrw & Hwc & Ht & Hrt & Hl).
      pose proof HI as (_ & Hr0' & Hrw' & _).
      destruct (index_byte delim (sub (rbuf (fill s)) (buffered s) (rw (fill s)))) as [i|] eqn:Ei.
      * intros E; inversion E; subst; clear E.
        apply index_byte_bound in Ei. unfold buffered in *. rewrite sub_length in Ei by (unfold rcap in *; lia).
        split; [apply advance_inv; try assumption; try lia|].
        unfold advance. recsimpl. rewrite sub_length by (unfold rcap in *; lia). lia.
      * destruct (rcap (fill s) <=? buffered (fill s)) eqn:Efull.
        -- intros E; inversion E; subst; clear E. unfold buffered in *.
           split; [apply advance_inv; try assumption; try lia|].
           unfold advance, rcap in *. recsimpl. lia.
        -- intros E. apply (IH delim (fill s) d e s' HI1 E).
Qed.

Lemma rd_slice_inv delim s d e s' : Inv s -> rd_slice delim s = (d, e, s') -> Inv s' /\ blen d <= rr s'.
Proof.
  intros HI. unfold rd_slice. destruct (index_byte delim (window s)) as [i|] eqn:Ei.
  - intros E; inversion E; subst; clear E. apply index_byte_bound in Ei. rewrite (window_len s HI) in Ei.
    pose proof HI as (Hc & Hr0 & Hrw & Hwc & Ht & Hrt & Hl).
    split; [apply advance_inv; try assumption; try lia|].
    unfold advance. recsimpl. rewrite sub_length by (unfold rcap in *; lia). lia.
  - apply rd_slice_loop_inv. exact HI.
Qed.

Lemma rd_line_inv s d pre e s' : Inv s -> rd_line s = (d, pre, e, s') -> Inv s'.
Proof.
  intros HI. unfold rd_line. destruct (rd_slice 10 s) as [[line err] s1] eqn:Es.
  destruct (rd_slice_inv 10 s line err s1 HI Es) as [HI1 Hlen].
  destruct (err =? 3).
  - destruct (rev line) as [|c rl] eqn:Er; [intros E; inversion E; subst; exact HI1|].
    assert (Hl1 : 1 <= blen line).
    { apply nonempty_blen. intro H0. rewrite H0 in Er. discriminate. }
    assert (Hdec : Inv (mkR (rbuf s1) (rr s1 - 1) (rw s1) (rerr s1) (rlast s1) (rtotal s1 - 1) (rsrc s1) (rpulled s1))).
    { unfold Inv, rcap in *. recsimpl. destruct HI1 as (Hc & Hr0 & Hrw & Hwc & Ht & Hrt & Hl).
      repeat split; try lia. }
    (* only the branch c = 13 un-reads; the other branches return s1 *)
    destruct c as [|p|p]; try (intros E; inversion E; subst; exact HI1).
    repeat (destruct p as [p|p|]; try (intros E; inversion E; subst; exact HI1)).
    intros E; inversion E; subst. exact Hdec.
  - destruct (rev line) as [|c rl]; [intros E; inversion E; subst; exact HI1|].
    destruct c as [|p|p]; try (intros E; inversion E; subst; exact HI1).
    repeat (destruct p as [p|p|]; try (intros E; inversion E; subst; exact HI1)).
    destruct rl as [|c2 rl2]; [intros E; inversion E; subst; exact HI1|].
    destruct c2 as [|p|p]; try (intros E; inversion E; subst; exact HI1).
    repeat (destruct p as [p|p|]; try (intros E; inversion E; subst; exact HI1)).
Qed.

Lemma rd_peek_loop_inv : forall fuel n s, Inv s -> Inv (rd_peek_loop fuel n s).
Proof.
  induction fuel as [|f IH]; intros n s HI; cbn [rd_peek_loop]; [exact HI|].
  destruct ((buffered s <? n) && (rerr s =? 0)); [|exact HI]. apply IH. apply fill_inv. exact HI.
Qed.
Lemma rd_peek_inv n s d e s' : Inv s -> rd_peek n s = (d, e, s') -> Inv s'.
Proof.
  intros HI. unfold rd_peek. destruct (n <? 0); [intros E; inversion E; subst; exact HI|].
  destruct (rcap s <? n); [intros E; inversion E; subst; exact HI|].
  pose proof (rd_peek_loop_inv (rfuel s) n s HI) as HI1.
  destruct (Z.min (buffered (rd_peek_loop (rfuel s) n s)) n <? n); intros E; inversion E; subst;
    [apply set_err_inv|]; exact HI1.
Qed.

Lemma rd_bytes_loop_inv : forall fuel delim s d e s', Inv s -> rd_bytes_loop fuel delim s = (d, e, s') -> Inv s'.
Proof.
  induction fuel as [|f IH]; intros delim s d e s' HI; cbn [rd_bytes_loop].
  - intros E; inversion E; subst. exact HI.
  - destruct (rd_slice delim s) as [[frag e1] s1] eqn:Es.
    destruct (rd_slice_inv delim s frag e1 s1 HI Es) as [HI1 _].
    destruct (e1 =? 0); [intros E; inversion E; subst; exact HI1|].
    destruct (negb (e1 =? 3)); [intros E; inversion E; subst; exact HI1|].
    destruct (rd_bytes_loop f delim s1) as [[rest e2] s2] eqn:Er.
    intros E; inversion E; subst. apply (IH delim s1 rest e s' HI1 Er).
Qed.

Lemma write_buf_inv out s out' s' : Inv s -> write_buf out s = (out', s') -> Inv s'.
Proof.
  unfold write_buf. intros HI E; inversion E; subst; clear E.
  pose proof HI as (Hc & Hr0 & Hrw & Hwc & Ht & Hrt & Hl). unfold buffered.
  apply advance_inv; try assumption; try lia.
Qed.
Lemma rd_wt_loop_inv : forall fuel out s out' s', Inv s -> rd_wt_loop fuel out s = (out', s') -> Inv s'.
Proof.
  induction fuel as [|f IH]; intros out s out' s' HI; cbn [rd_wt_loop].
  - intros E; inversion E; subst. apply set_err_inv. exact HI.
  - destruct (fill_inv s HI) as (HI1 & _). destruct (rr (fill s) <? rw (fill s)).
    + destruct (write_buf out (fill s)) as [o2 s2] eqn:Ew. intros E.
      apply (IH o2 s2 out' s' (write_buf_inv _ _ _ _ HI1 Ew) E).
    + intros E; inversion E; subst. exact HI1.
Qed.
Lemma rd_writeto_inv s d e s' : Inv s -> rd_writeto s = (d, e, s') -> Inv s'.
Proof.
  intros HI. unfold rd_writeto.
  set (s0 := mkR (rbuf s) (rr s) (rw s) (rerr s) (-1) (rtotal s) (rsrc s) (rpulled s)).
  assert (HI0 : Inv s0).
  { unfold Inv, rcap, s0 in *. recsimpl. destruct HI as (Hc & Hr0 & Hrw & Hwc & Ht & Hrt & Hl). repeat split; lia. }
  destruct (write_buf [] s0) as [out s1] eqn:E1.
  pose proof (write_buf_inv _ _ _ _ HI0 E1) as HI1.
  destruct (rd_wt_loop (rfuel s) out s1) as [out2 s2] eqn:E2.
  pose proof (rd_wt_loop_inv _ _ _ _ _ HI1 E2) as HI2.
  intros E; inversion E; subst. apply set_err_inv. destruct (rerr s2 =? 1); [apply set_err_inv|]; exact HI2.
Qed.

(* ---------- ReadRune ---------- *)
Lemma decode_rune_size w : w <> [] -> 1 <= snd (decode_rune w) <= blen w /\ 1 <= snd (decode_rune w) <= 4.
Proof.
  intros Hne. destruct w as [|b0 t]; [congruence|]. unfold decode_rune, blen.
  destruct (b0 <? 128); [simpl; lia|].
  destruct (rune_need b0 =? 2).
  { destruct t as [|b1 t]; [simpl; lia|]. destruct (is_cont b1); simpl; lia. }
  destruct (rune_need b0 =? 3).
  { destruct t as [|b1 [|b2 t]]; try (simpl; lia). destruct (second_ok b0 b1 && is_cont b2); simpl; lia. }
  destruct (rune_need b0 =? 4).
  { destruct t as [|b1 [|b2 [|b3 t]]]; try (simpl; lia). destruct (second_ok b0 b1 && is_cont b2 && is_cont b3); simpl; lia. }
  simpl; lia.
Qed.

Lemma rd_rune_fill_inv : forall fuel s, Inv s -> Inv (rd_rune_fill fuel s).
Proof.
  induction fuel as [|f IH]; intros s HI; cbn [rd_rune_fill]; [apply set_err_inv; exact HI|].
  destruct ((rw s <? rr s + 4) && negb (full_rune (window s)) && (rerr s =? 0)); [|exact HI].
  apply IH. apply fill_inv. exact HI.
Qed.

(* the size ReadRune consumes, for a state with a non-empty window *)
Definition rune_size (s1 : reader) : Z :=
  snd (if nth (Z.to_nat (rr s1)) (rbuf s1) 0 <? 128 then (nth (Z.to_nat (rr s1)) (rbuf s1) 0, 1) else decode_rune (window s1)).
Lemma rune_size_bound s1 : Inv s1 -> rr s1 <> rw s1 -> 1 <= rune_size s1 <= buffered s1 /\ rune_size s1 <= 4.
Proof.
  intros HI Hne. pose proof (window_len s1 HI) as Hwl. pose proof HI as (_ & _ & Hrw & _).
  unfold rune_size, buffered. destruct (nth (Z.to_nat (rr s1)) (rbuf s1) 0 <? 128); [simpl; lia|].
  assert (Hw : window s1 <> []) by (intro H0; rewrite H0 in Hwl; unfold blen in Hwl; simpl in Hwl; lia).
  pose proof (decode_rune_size _ Hw). lia.
Qed.

Lemma rd_rune_inv s r size e s' lrs' : Inv s -> rd_rune s = (r, size, e, s', lrs') -> Inv s'.
Proof.
  intros HI. unfold rd_rune. pose proof (rd_rune_fill_inv (rfuel s) s HI) as HI1.
  set (s1 := rd_rune_fill (rfuel s) s) in *.
  destruct (rr s1 =? rw s1) eqn:Er; [intros E; inversion E; subst; apply set_err_inv; exact HI1|].
  destruct (rune_size_bound s1 HI1 ltac:(lia)) as [Hb _]. unfold rune_size in Hb.
  destruct (if nth (Z.to_nat (rr s1)) (rbuf s1) 0 <? 128 then (nth (Z.to_nat (rr s1)) (rbuf s1) 0, 1) else decode_rune (window s1))
    as [r0 k] eqn:Ek.
  cbn [snd] in Hb. intros E; inversion E; subst; clear E.
  pose proof HI1 as (Hc & Hr0 & Hrw & Hwc & Ht & Hrt & Hl). unfold buffered in Hb.
  apply advance_inv; try assumption; try lia.
Qed.
Lemma decode_rune_prefix w : w <> [] ->
  decode_rune (firstn (Z.to_nat (snd (decode_rune w))) w) = decode_rune w.
Proof.
  intros Hne. destruct w as [|b0 t]; [congruence|]. unfold decode_rune at 2 3.
  destruct (b0 <? 128) eqn:E0; [simpl; rewrite E0; reflexivity|].
  destruct (rune_need b0 =? 2) eqn:E2.
  { destruct t as [|b1 t]; [simpl; rewrite E0, E2; reflexivity|].
    destruct (is_cont b1) eqn:Ec; simpl; rewrite E0, E2; [rewrite Ec; reflexivity|reflexivity]. }
  destruct (rune_need b0 =? 3) eqn:E3.
  { destruct t as [|b1 [|b2 t]]; try (simpl; rewrite E0, E2, E3; reflexivity).
    destruct (second_ok b0 b1 && is_cont b2) eqn:Ec; simpl; rewrite E0, E2, E3; [rewrite Ec; reflexivity|reflexivity]. }
  destruct (rune_need b0 =? 4) eqn:E4.
  { destruct t as [|b1 [|b2 [|b3 t]]]; try (simpl; rewrite E0, E2, E3, E4; reflexivity).
    destruct (second_ok b0 b1 && is_cont b2 && is_cont b3) eqn:Ec; simpl; rewrite E0, E2, E3, E4; [rewrite Ec; reflexivity|reflexivity]. }
  simpl. rewrite E0, E2, E3, E4. reflexivity.
Qed.

Lemma rd_rune_fill_exit : forall fuel s, Inv s -> rr (rd_rune_fill fuel s) = rw (rd_rune_fill fuel s) ->
  rerr (rd_rune_fill fuel s) <> 0.
Proof.
  induction fuel as [|f IH]; intros s HI; cbn [rd_rune_fill]; [unfold set_err; recsimpl; lia|].
  destruct ((rw s <? rr s + 4) && negb (full_rune (window s)) && (rerr s =? 0)) eqn:Ec.
  - apply IH. apply fill_inv. exact HI.
  - intros Heq. pose proof (window_len s HI) as Hwl.
    assert (Hw : window s = []) by (destruct (window s); [reflexivity|]; unfold blen in Hwl; simpl in Hwl; lia).
    rewrite Hw in Ec. cbn [full_rune negb] in Ec. lia.
Qed.

Lemma rd_reset_inv s pb s' : Inv s -> rd_reset s = (pb, s') -> Inv s'.
Proof.
  unfold rd_reset. intros HI E; inversion E; subst. unfold Inv, rcap in *. recsimpl.
  destruct HI as (Hc & _). repeat split; lia.
Qed.

(* every modelled Reader operation preserves the invariant, and its observation reports the new state *)
Ltac step_fin :=
  let H := fresh "H" in let E := fresh "E" in
  match goal with
  | |- context [rd_rune ?s] => destruct (rd_rune s) as [[[[? ?] ?] ?] ?] eqn:E; intros H; inversion H; subst;
      split; [eapply rd_rune_inv; eassumption|eexists; reflexivity]
  | |- context [rd_reset ?s] => destruct (rd_reset s) as [? ?] eqn:E; intros H; inversion H; subst;
      split; [eapply rd_reset_inv; eassumption|eexists; reflexivity]
  | |- context [rd_writeto ?s] => destruct (rd_writeto s) as [[? ?] ?] eqn:E; intros H; inversion H; subst;
      split; [eapply rd_writeto_inv; eassumption|eexists; reflexivity]
  | |- context [rd_line ?s] => destruct (rd_line s) as [[[? ?] ?] ?] eqn:E; intros H; inversion H; subst;
      split; [eapply rd_line_inv; eassumption|eexists; reflexivity]
  | |- context [rd_unread ?s] => destruct (rd_unread s) as [? ?] eqn:E; intros H; inversion H; subst;
      split; [eapply rd_unread_inv; eassumption|eexists; reflexivity]
  | |- context [rd_bytes ?d ?s] => destruct (rd_bytes d s) as [[? ?] ?] eqn:E; intros H; inversion H; subst;
      split; [eapply rd_bytes_loop_inv; eassumption|eexists; reflexivity]
  | |- context [rd_slice ?d ?s] => destruct (rd_slice d s) as [[? ?] ?] eqn:E; intros H; inversion H; subst;
      split; [eapply rd_slice_inv; eassumption|eexists; reflexivity]
  | |- context [rd_peek ?n ?s] => destruct (rd_peek n s) as [[? ?] ?] eqn:E; intros H; inversion H; subst;
      split; [eapply rd_peek_inv; eassumption|eexists; reflexivity]
  | |- context [rd_byte ?s] => destruct (rd_byte s) as [[? ?] ?] eqn:E; intros H; inversion H; subst;
      split; [eapply rd_byte_loop_inv; eassumption|eexists; reflexivity]
  | |- context [rd_read ?n ?s] =>
      let En := fresh "En" in destruct (n <? 0) eqn:En; [discriminate|];
      destruct (rd_read n s) as [[? ?] ?] eqn:E; intros H; inversion H; subst;
      split; [eapply rd_read_inv; [eassumption| |eassumption]; lia|eexists; reflexivity]
  end.

Lemma src_drain_len : forall sc d e rest, src_drain sc = (d, e, rest) -> 0 <= blen d.
Proof. intros. apply blen_nonneg_early. Qed.

Lemma rd_writeto_wt_inv s d e s' : Inv s -> rd_writeto_wt s = (d, e, s') -> Inv s'.
Proof.
  intros HI. unfold rd_writeto_wt.
  set (s0 := mkR (rbuf s) (rr s) (rw s) (rerr s) (-1) (rtotal s) (rsrc s) (rpulled s)).
  assert (HI0 : Inv s0).
  { unfold Inv, rcap, s0 in *. recsimpl. destruct HI as (Hc & Hr0 & Hrw & Hwc & Ht & Hrt & Hl). repeat split; lia. }
  destruct (write_buf [] s0) as [out s1] eqn:E1.
  pose proof (write_buf_inv _ _ _ _ HI0 E1) as HI1.
  assert (Hl1 : rlast s1 = -1) by (unfold write_buf in E1; inversion E1; reflexivity).
  destruct (src_drain (rsrc s1)) as [[d0 e0] rest] eqn:Ed.
  intros E; inversion E; subst; clear E. pose proof (blen_nonneg_early d0).
  unfold Inv, rcap in *. recsimpl. destruct HI1 as (Hc & Hr0 & Hrw & Hwc & Ht & Hrt & Hl).
  destruct (rr s1 =? rw s1) eqn:Ez; repeat split; lia.
Qed.

(* operations without the rune pair (ReadRune / UnreadRune are covered by the correspondence check only) *)
Definition rune_free (op : val) : bool :=
  match op with
  | VL (VZ t :: _) => negb ((t =? 10) || (t =? 11))
  | _ => true
  end.
(* operations other than UnreadRune *)
Definition no_unrune (op : val) : bool :=
  match op with
  | VL (VZ t :: _) => negb (t =? 11)
  | _ => true
  end.

Lemma reader_step_inv wt op s lrs o s' lrs' : Inv s -> no_unrune op = true ->
  reader_step wt op (s, lrs) = Some (o, (s', lrs')) ->
  Inv s' /\ exists ret, o = VL [VL ret; VZ (rtotal s'); VZ (rpulled s'); VZ (buffered s')].
Proof.
  intros HI. unfold reader_step, no_unrune.
  destruct op as [z|b|l]; try discriminate.
  destruct l as [|[tag| |] l]; try discriminate.
  destruct tag as [|p|p]; try discriminate.
  repeat (destruct p as [p|p|]; try discriminate).
  all: intros Hrf; try (vm_compute in Hrf; discriminate Hrf).
  all: destruct l as [|[n| |] [|? ?]]; try discriminate.
  all: try (destruct wt;
            [destruct (rd_writeto_wt s) as [[? ?] ?] eqn:E; intros H; inversion H; subst;
             split; [eapply rd_writeto_wt_inv; eassumption|eexists; reflexivity]|]).
  all: try (destruct (rd_slice 10 s) as [[line0 ?] ?] eqn:E0).
  all: step_fin.
Qed.

Theorem reader_run_counts : forall wt ops s lrs obs, Inv s -> forallb no_unrune ops = true ->
  reader_run wt ops (s, lrs) = Some obs ->
  Forall (fun o => exists ret t p b, o = VL [VL ret; VZ t; VZ p; VZ b] /\ t = p - b /\ 0 <= b) obs.
Proof.
  induction ops as [|op ops IH]; intros s lrs obs HI Hrf; cbn [reader_run].
  - intros E; inversion E; subst. constructor.
  - cbn [forallb] in Hrf. apply andb_true_iff in Hrf. destruct Hrf as [Hr1 Hr2].
    destruct (reader_step wt op (s, lrs)) as [[o [s1 l1]]|] eqn:Es; [|discriminate].
    destruct (reader_step_inv wt op s lrs o s1 l1 HI Hr1 Es) as [HI1 [ret Ho]].
    destruct (reader_run wt ops (s1, l1)) as [os|] eqn:Er; [|discriminate].
    intros E; inversion E; subst. constructor; [|apply (IH s1 l1 os HI1 Hr2 Er)].
    exists ret, (rtotal s1), (rpulled s1), (buffered s1). split; [reflexivity|].
    unfold Inv, buffered in *. lia.
Qed.

Lemma new_reader_inv size src : Inv (new_reader size src).
Proof.
  unfold Inv, new_reader, rcap, blen. recsimpl. rewrite repeat_length.
  destruct (size <? 16) eqn:E; repeat split; try lia.
Qed.

(* ---------- Writer: TotalWrite = bytes handed to the sink + bytes buffered, after every operation ---------- *)
Definition WInvN (nn : Z) (s : writer) : Prop :=
  wtotal s + nn = blen (wout s) + blen (wbuf s) /\ blen (wbuf s) <= wcap s /\ 0 < wcap s.
Definition WInv (s : writer) : Prop := WInvN 0 s.

Ltac wsimpl := cbn [wbuf wcap werr wtotal wsink wout] in *.
Lemma blen_app (a b : bytes) : blen (a ++ b) = blen a + blen b.
Proof. unfold blen. rewrite app_length. lia. Qed.
Lemma blen_firstn (k : Z) (l : bytes) : 0 <= k <= blen l -> blen (firstn (Z.to_nat k) l) = k.
Proof. unfold blen. rewrite firstn_length. lia. Qed.
Lemma blen_skipn (k : Z) (l : bytes) : 0 <= k <= blen l -> blen (skipn (Z.to_nat k) l) = blen l - k.
Proof. unfold blen. rewrite skipn_length. lia. Qed.
Lemma blen_nonneg (l : bytes) : 0 <= blen l.
Proof. unfold blen. lia. Qed.

Lemma sink_write_spec p s k e s1 : sink_write p s = (k, e, s1) ->
  0 <= k <= blen p /\ blen (wout s1) = blen (wout s) + k /\ wbuf s1 = wbuf s /\ wcap s1 = wcap s /\
  wtotal s1 = wtotal s /\ werr s1 = werr s.
Proof.
  unfold sink_write. pose proof (blen_nonneg p). destruct (wsink s) as [|[lim e0] rest].
  - intros E; inversion E; subst. wsimpl. rewrite blen_app. repeat split; lia.
  - intros E; inversion E; subst. wsimpl. rewrite blen_app, blen_firstn by lia. repeat split; lia.
Qed.

Lemma w_flush_inv nn s e s' : WInvN nn s -> w_flush s = (e, s') ->
  WInvN nn s' /\ (e = 0 -> werr s = 0 -> wbuf s' = []) /\ (e <> 0 -> werr s' <> 0) /\ (e = 0 -> werr s' = werr s).
Proof.
  unfold w_flush, WInvN. intros (Ht & Hb & Hc).
  destruct (negb (werr s =? 0)) eqn:Ee.
  - intros E; inversion E; subst. repeat split; try assumption; try lia.
  - destruct (wbuf s) as [|x b] eqn:Eb.
    + intros E; inversion E; subst. rewrite Eb. repeat split; try assumption; try lia.
    + rewrite <- Eb in *. destruct (sink_write (wbuf s) s) as [[k e0] s1] eqn:Es.
      destruct (sink_write_spec _ _ _ _ _ Es) as (Hk & Ho & Hbuf & Hcap & Htot & Herr).
      destruct (negb ((if (k <? blen (wbuf s)) && (e0 =? 0) then 7 else e0) =? 0)) eqn:E1.
      * intros E; inversion E; subst; clear E. unfold w_set. wsimpl. rewrite blen_skipn by lia.
        repeat split; try lia.
      * intros E; inversion E; subst; clear E. unfold w_set. wsimpl.
        assert (k = blen (wbuf s)).
        { destruct (k <? blen (wbuf s)) eqn:Ek, (e0 =? 0) eqn:E0; simpl in E1; try discriminate; lia. }
        change (blen []) with 0. repeat split; try lia.
Qed.

Lemma w_write_loop_inv : forall fuel direct p nn s p' nn' s', WInvN nn s -> 0 <= nn ->
  w_write_loop fuel direct p nn s = (p', nn', s') ->
  WInvN nn' s' /\ 0 <= nn' /\ (werr s' = 0 -> blen p' <= avail s').
Proof.
  induction fuel as [|f IH]; intros direct p nn s p' nn' s' HI Hnn; cbn [w_write_loop].
  - intros E; inversion E; subst. unfold w_set, WInvN in *. wsimpl. repeat split; try lia; try discriminate.
  - destruct ((avail s <? blen p) && (werr s =? 0)) eqn:Ec.
    + assert (Hgen : forall s2 n2 p2, WInvN n2 s2 -> 0 <= n2 -> w_write_loop f direct p2 n2 s2 = (p', nn', s') ->
                WInvN nn' s' /\ 0 <= nn' /\ (werr s' = 0 -> blen p' <= avail s')) by (intros; eapply IH; eassumption).
      assert (Hbuf : forall n, n = avail s ->
         (let s1 := w_set s (wbuf s ++ firstn (Z.to_nat n) p) (werr s) in
          let '(_, s2) := w_flush s1 in w_write_loop f direct (skipn (Z.to_nat n) p) (nn + n) s2) = (p', nn', s') ->
         WInvN nn' s' /\ 0 <= nn' /\ (werr s' = 0 -> blen p' <= avail s')).
      { intros n Hn. cbn zeta.
        destruct (w_flush (w_set s (wbuf s ++ firstn (Z.to_nat n) p) (werr s))) as [fe s2] eqn:Ef.
        assert (HI1 : WInvN (nn + n) (w_set s (wbuf s ++ firstn (Z.to_nat n) p) (werr s))).
        { unfold WInvN, w_set, avail in *. wsimpl. destruct HI as (Ht & Hb & Hcp).
          rewrite blen_app, blen_firstn by lia. repeat split; lia. }
        destruct (w_flush_inv _ _ _ _ HI1 Ef) as (HI2 & _).
        apply Hgen; [exact HI2|]. unfold avail, WInvN in *. lia. }
      destruct direct.
      * destruct (wbuf s) as [|x b] eqn:Eb.
        -- destruct (sink_write p s) as [[k e] s1] eqn:Es.
           destruct (sink_write_spec _ _ _ _ _ Es) as (Hk & Ho & Hbf & Hcap & Htot & Herr).
           apply Hgen; [|lia]. unfold WInvN, w_set in *. wsimpl. rewrite Hbf, Eb in *. lia.
        -- rewrite <- Eb in *. apply Hbuf. reflexivity.
      * apply Hbuf. reflexivity.
    + intros E; inversion E; subst. split; [exact HI|]. split; [exact Hnn|]. intros He. unfold avail in *. lia.
Qed.

Lemma w_write_gen_inv direct p s n e s' : WInv s -> w_write_gen direct p s = (n, e, s') -> WInv s'.
Proof.
  unfold w_write_gen, WInv. intros HI.
  destruct (w_write_loop (length p + length (wsink s) + 3) direct p 0 s) as [[p' nn] s1] eqn:El.
  destruct (w_write_loop_inv _ _ _ _ _ _ _ _ HI ltac:(lia) El) as (HI1 & Hnn & Hav).
  destruct (negb (werr s1 =? 0)) eqn:Ee; intros E; inversion E; subst; clear E;
    unfold WInvN, w_add_total, w_set, avail in *; wsimpl.
  - lia.
  - rewrite blen_app. specialize (Hav ltac:(lia)). pose proof (blen_nonneg p'). lia.
Qed.

Lemma w_write_byte_inv c s e s' : WInv s -> w_write_byte c s = (e, s') -> WInv s'.
Proof.
  unfold w_write_byte, WInv. intros HI. destruct (negb (werr s =? 0)) eqn:Ee; [intros E; inversion E; subst; exact HI|].
  destruct (avail s <=? 0) eqn:Ea.
  - destruct (w_flush s) as [fe s1] eqn:Ef. destruct (w_flush_inv _ _ _ _ HI Ef) as (HI1 & Hempty & _).
    destruct (negb (fe =? 0)) eqn:Efe; intros E; inversion E; subst; clear E; [exact HI1|].
    assert (Hb : wbuf s1 = []) by (apply Hempty; lia). unfold WInvN, w_add_total, w_set in *. wsimpl. rewrite Hb in *.
    cbn [app] in *. change (blen [c]) with 1. change (blen []) with 0 in *. lia.
  - cbn [negb Z.eqb]. intros E; inversion E; subst; clear E.
    unfold WInvN, w_add_total, w_set, avail in *. wsimpl. rewrite blen_app. change (blen [c]) with 1. lia.
Qed.

Lemma w_readfrom_loop_inv : forall fuel src n s early n' e' s', WInvN n s -> 0 <= n ->
  w_readfrom_loop fuel src n s = (early, (n', e', s')) ->
  match early with
  | Some (n1, e1, s1) => WInv s1
  | None => WInvN n' s' /\ 0 <= n'
  end.
Proof.
  induction fuel as [|f IH]; intros src n s early n' e' s' HI Hn; cbn [w_readfrom_loop].
  - intros E; inversion E; subst. split; assumption.
  - destruct (avail s =? 0) eqn:Ea.
    + destruct (w_flush s) as [fe s1] eqn:Ef. destruct (w_flush_inv _ _ _ _ HI Ef) as (HI1 & Hempty & Hne & Hsame).
      destruct (negb (fe =? 0)) eqn:Efe.
      * intros E; inversion E; subst; clear E. unfold WInv, WInvN, w_add_total in *. wsimpl. lia.
      * destruct (src_read (avail s1) src) as [[d e] src'] eqn:Es.
        assert (Hroom : 0 <= avail s1) by (unfold avail, WInvN in *; lia).
        pose proof (src_read_len _ _ _ _ _ Hroom Es) as Hd. pose proof (blen_nonneg d).
        destruct (blen d =? 0); [intros E; inversion E; subst; split; assumption|].
        assert (HI2 : WInvN (n + blen d) (w_set s1 (wbuf s1 ++ d) (werr s1))).
        { unfold WInvN, w_set, avail in *. wsimpl. rewrite blen_app. lia. }
        destruct (negb (e =? 0)); [intros E; inversion E; subst; split; [exact HI2|lia]|].
        intros E. apply (IH _ _ _ _ _ _ _ HI2 ltac:(lia) E).
    + destruct (src_read (avail s) src) as [[d e] src'] eqn:Es.
      assert (Hroom : 0 <= avail s) by (unfold avail, WInvN in *; lia).
      pose proof (src_read_len _ _ _ _ _ Hroom Es) as Hd. pose proof (blen_nonneg d).
      cbn [negb Z.eqb].
      destruct (blen d =? 0); [intros E; inversion E; subst; split; assumption|].
      assert (HI2 : WInvN (n + blen d) (w_set s (wbuf s ++ d) (werr s))).
      { unfold WInvN, w_set, avail in *. wsimpl. rewrite blen_app. lia. }
      destruct (negb (e =? 0)); [intros E; inversion E; subst; split; [exact HI2|lia]|].
      intros E. apply (IH _ _ _ _ _ _ _ HI2 ltac:(lia) E).
Qed.

Lemma w_readfrom_inv src s n e s' : WInv s -> w_readfrom src s = (n, e, s') -> WInv s'.
Proof.
  unfold w_readfrom. intros HI.
  destruct (w_readfrom_loop _ src 0 s) as [early [[n1 e1] s1]] eqn:El.
  pose proof (w_readfrom_loop_inv _ _ _ _ _ _ _ _ HI ltac:(lia) El) as H.
  destruct early as [[[n2 e2] s2]|].
  - intros E; inversion E; subst. exact H.
  - destruct H as [HI1 Hn1].
    destruct (e1 =? 1).
    + destruct (avail s1 =? 0).
      * destruct (w_flush s1) as [fe s2] eqn:Ef. destruct (w_flush_inv _ _ _ _ HI1 Ef) as (HI2 & _).
        intros E; inversion E; subst. unfold WInv, WInvN, w_add_total in *. wsimpl. lia.
      * intros E; inversion E; subst. unfold WInv, WInvN, w_add_total in *. wsimpl. lia.
    + intros E; inversion E; subst. unfold WInv, WInvN, w_add_total in *. wsimpl. lia.
Qed.

Lemma encode_rune_len r : 1 <= blen (encode_rune r) <= 4.
Proof.
  unfold encode_rune.
  repeat match goal with |- context [if ?c then _ else _] => destruct c end; unfold blen; simpl; lia.
Qed.

Lemma w_write_rune_inv r s n e s' : WInv s -> w_write_rune r s = (n, e, s') -> WInv s'.
Proof.
  unfold w_write_rune. intros HI. destruct (r <? 128).
  - destruct (w_write_byte (r mod 256) s) as [e1 s1] eqn:E1. pose proof (w_write_byte_inv _ _ _ _ HI E1) as H1.
    destruct (negb (e1 =? 0)); intros E; inversion E; subst; exact H1.
  - destruct (negb (werr s =? 0)); [intros E; inversion E; subst; exact HI|].
    pose proof (encode_rune_len r) as Hlen.
    assert (Happ : forall s1, WInv s1 -> 4 <= avail s1 ->
              WInv (w_add_total (w_set s1 (wbuf s1 ++ encode_rune r) (werr s1)) (blen (encode_rune r)))).
    { intros s1 H1 Hav. unfold WInv, WInvN, w_add_total, w_set, avail in *. wsimpl. rewrite blen_app. lia. }
    destruct (avail s <? 4) eqn:Ea.
    + destruct (w_flush s) as [fe s1] eqn:Ef. destruct (w_flush_inv _ _ _ _ HI Ef) as (HI1 & _).
      destruct (negb (werr s1 =? 0)); [intros E; inversion E; subst; exact HI1|].
      destruct (avail s1 <? 4) eqn:Ea1.
      * intros E. apply (w_write_gen_inv false _ _ _ _ _ HI1 E).
      * intros E; inversion E; subst. apply Happ; [exact HI1|lia].
    + intros E; inversion E; subst. apply Happ; [exact HI|lia].
Qed.

Lemma w_readfrom_rf_inv src s n e s' : WInv s -> w_readfrom_rf src s = (n, e, s') -> WInv s'.
Proof.
  unfold w_readfrom_rf. intros HI. destruct (wbuf s) as [|x b] eqn:Eb.
  - destruct (src_drain src) as [[d e0] rest]. intros E; inversion E; subst; clear E.
    unfold WInv, WInvN in *. wsimpl. rewrite Eb in *. rewrite blen_app. change (blen []) with 0 in *. lia.
  - apply w_readfrom_inv. exact HI.
Qed.

Lemma w_reset_inv s out s' : WInv s -> w_reset s = (out, s') -> WInv s'.
Proof.
  unfold w_reset. intros HI E; inversion E; subst. unfold WInv, WInvN in *. wsimpl. change (blen []) with 0. lia.
Qed.

Lemma writer_step_inv rf op s o s' : WInv s -> writer_step rf op s = Some (o, s') ->
  WInv s' /\ exists ret, o = VL [VL ret; VZ (wtotal s'); VZ (blen (wout s')); VZ (blen (wbuf s'))].
Proof.
  intros HI. unfold writer_step.
  destruct op as [z|b|l]; try discriminate.
  destruct l as [|[tag| |] l]; try discriminate.
  destruct tag as [|p|p]; try discriminate.
  repeat (destruct p as [p|p|]; try discriminate).
  all: destruct l as [|x [|? ?]]; try discriminate.
  all: try (destruct x as [c|d|src]; try discriminate).
  all: try (destruct (dec_script (VL src)) as [sc|]; [|discriminate]).
  all: match goal with
  | |- context [w_reset ?s] => destruct (w_reset s) as [? ?] eqn:E; intros H; inversion H; subst;
      split; [eapply w_reset_inv; eassumption|eexists; reflexivity]
  | |- context [w_write_rune ?c ?s] => destruct (w_write_rune c s) as [[? ?] ?] eqn:E; intros H; inversion H; subst;
      split; [eapply w_write_rune_inv; eassumption|eexists; reflexivity]
  | |- context [w_readfrom_rf ?sc ?s] =>
      destruct rf;
      [destruct (w_readfrom_rf sc s) as [[? ?] ?] eqn:E; intros H; inversion H; subst;
       split; [eapply w_readfrom_rf_inv; eassumption|eexists; reflexivity]
      |destruct (w_readfrom sc s) as [[? ?] ?] eqn:E; intros H; inversion H; subst;
       split; [eapply w_readfrom_inv; eassumption|eexists; reflexivity]]
  | |- context [w_flush ?s] => destruct (w_flush s) as [? ?] eqn:E; intros H; inversion H; subst;
      split; [eapply w_flush_inv; eassumption|eexists; reflexivity]
  | |- context [w_write_byte ?c ?s] => destruct (w_write_byte c s) as [? ?] eqn:E; intros H; inversion H; subst;
      split; [eapply w_write_byte_inv; eassumption|eexists; reflexivity]
  | |- context [w_write_string ?d ?s] => destruct (w_write_string d s) as [[? ?] ?] eqn:E; intros H; inversion H; subst;
      split; [eapply w_write_gen_inv; eassumption|eexists; reflexivity]
  | |- context [w_write ?d ?s] => destruct (w_write d s) as [[? ?] ?] eqn:E; intros H; inversion H; subst;
      split; [eapply w_write_gen_inv; eassumption|eexists; reflexivity]
  end.
Qed.

Theorem writer_run_counts : forall rf ops s obs, WInv s -> writer_run rf ops s = Some obs ->
  Forall (fun o => (exists ret t k b, o = VL [VL ret; VZ t; VZ k; VZ b] /\ t = k + b) \/ exists out, o = VB out) obs.
Proof.
  induction ops as [|op ops IH]; intros s obs HI; cbn [writer_run].
  - intros E; inversion E; subst. constructor; [right; eexists; reflexivity|constructor].
  - destruct (writer_step rf op s) as [[o s1]|] eqn:Es; [|discriminate].
    destruct (writer_step_inv rf op s o s1 HI Es) as [HI1 [ret Ho]].
    destruct (writer_run rf ops s1) as [os|] eqn:Er; [|discriminate].
    intros E; inversion E; subst. constructor; [|apply (IH s1 os HI1 Er)].
    left. exists ret, (wtotal s1), (blen (wout s1)), (blen (wbuf s1)). split; [reflexivity|].
    unfold WInv, WInvN in HI1. lia.
Qed.

Lemma new_writer_inv size sink : WInv (new_writer size sink).
Proof. unfold WInv, WInvN, new_writer. wsimpl. change (blen []) with 0. destruct (size <=? 0) eqn:E; lia. Qed.

Theorem totalread_exact wt size src ops obs : forallb no_unrune ops = true ->
  reader_run wt ops (new_reader size src, -1) = Some obs ->
  Forall (fun o => exists ret t p b, o = VL [VL ret; VZ t; VZ p; VZ b] /\ t = p - b /\ 0 <= b) obs.
Proof. intros Hrf. apply reader_run_counts; [apply new_reader_inv|exact Hrf]. Qed.
Theorem totalwrite_exact rf size sink ops obs : writer_run rf ops (new_writer size sink) = Some obs ->
  Forall (fun o => (exists ret t k b, o = VL [VL ret; VZ t; VZ k; VZ b] /\ t = k + b) \/ exists out, o = VB out) obs.
Proof. apply writer_run_counts. apply new_writer_inv. Qed.

Lemma totalread_example :
  run_C22 (VL [VZ 1; VZ 16; VL [VL [VB [97;98]; VZ 0]; VL [VB [99;100;101;10]; VZ 0]]; VL [VL [VZ 2]; VL [VZ 4; VZ 10]]])
  = VL [VL [VL [VZ 97; VZ 0]; VZ 1; VZ 2; VZ 1]; VL [VL [VB [98;99;100;101;10]; VZ 0]; VZ 6; VZ 6; VZ 0]].
Proof. vm_compute. reflexivity. Qed.

