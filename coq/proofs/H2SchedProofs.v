(* Proofs about the write scheduler / flow model (C34).
   Main result: every observation trace that the model allows (for ANY sequence of map-iteration choices)
   is accepted by the specification checker spec_run: DATA within both windows and the frame size,
   per-stream FIFO with byte-exact splitting, nothing after forgetStream, no panic. *)
From Coq Require Import List ZArith Bool Lia.
From Bfe Require Import lib.Val lib.ValProofs model.H2Sched run.RunC34.
Import ListNotations.
Open Scope Z_scope.

Ltac Zify.zify_post_hook ::= Z.div_mod_to_equations.

Lemma wrap32_id z : -2147483648 <= z < 2147483648 -> wrap32 z = z.
Proof. intro H. unfold wrap32. rewrite Z.mod_small by lia. lia. Qed.

Lemma flow_add_exact f n w :
  in32 f -> -1073741824 <= n <= 2147483647 -> flow_add f n = Some w -> w = f + n /\ in32 w.
Proof.
  unfold in32, flow_add. intros Hf Hn H.
  destruct (Z_lt_ge_dec f 0) as [Hneg|Hpos].
  - exfalso. assert (E : wrap32 (2147483647 - f) = 2147483647 - f - 4294967296).
    { unfold wrap32. lia. }
    rewrite E in H. destruct (Z.gtb_spec n (2147483647 - f - 4294967296)); [discriminate|lia].
  - rewrite (wrap32_id (2147483647 - f)) in H by lia.
    destruct (Z.gtb_spec n (2147483647 - f)); [discriminate|].
    rewrite wrap32_id in H by lia. inversion H. lia.
Qed.

Lemma fr_eqb_eq a b : fr_eqb a b = true -> a = b.
Proof.
  destruct a, b; simpl; intro H; try discriminate.
  - apply Z.eqb_eq in H. congruence.
  - repeat (apply andb_true_iff in H; destruct H as [H ?]).
    apply Z.eqb_eq in H. apply Bool.eqb_prop in H0. apply Z.eqb_eq in H1. apply Z.eqb_eq in H2. congruence.
  - apply andb_true_iff in H. destruct H as [H1 H2]. apply Z.eqb_eq in H1. apply Z.eqb_eq in H2. congruence.
Qed.
Lemma fr_eqb_refl a : fr_eqb a a = true.
Proof. destruct a; simpl; rewrite ?Z.eqb_refl, ?Bool.eqb_reflx; reflexivity. Qed.

Lemma sobs_eqb_eq a b : sobs_eqb a b = true -> a = b.
Proof.
  destruct a, b; simpl; intro H; try discriminate; try reflexivity.
  - apply fr_eqb_eq in H. congruence.
  - apply Bool.eqb_prop in H. congruence.
Qed.

Lemma memz_In x l : memz x l = true <-> In x l.
Proof.
  unfold memz. rewrite existsb_exists. split.
  - intros (y & Hy & E). apply Z.eqb_eq in E. congruence.
  - intro H. exists x. split; [exact H|apply Z.eqb_refl].
Qed.

Lemma updf_eq {A} (f : Z -> A) k v : updf f k v k = v.
Proof. unfold updf. rewrite Z.eqb_refl. reflexivity. Qed.
Lemma updf_ne {A} (f : Z -> A) k v x : x <> k -> updf f k v x = f x.
Proof. unfold updf. intro H. destruct (Z.eqb_spec x k); congruence. Qed.

Lemma available_le s sid : available s sid <= win s sid /\ available s sid <= connw s.
Proof. unfold available. destruct (Z.ltb_spec (connw s) (win s sid)); lia. Qed.

(* a choice of take() whose queue head is a non-empty DATA frame was selected for being writable *)
Lemma choice_writable s c d start len es t :
  memz c (take_choices s) = true -> sq s c = FData d start len es :: t -> 0 < len ->
  writable s c len > 0.
Proof.
  intros Hm Hq Hlen. unfold take_choices in Hm.
  assert (Hnc : head_nocost s c = false).
  { unfold head_nocost. rewrite Hq. simpl. apply Z.eqb_neq. lia. }
  destruct (filter (head_nocost s) (sids s)) as [|y l] eqn:Ef.
  - apply memz_In in Hm. apply filter_In in Hm. destruct Hm as [_ Hw].
    unfold head_writable in Hw. rewrite Hq in Hw. apply Z.gtb_lt in Hw. lia.
  - apply memz_In in Hm. rewrite <- Ef in Hm. apply filter_In in Hm. destruct Hm as [_ Hw]. congruence.
Qed.

Lemma writable_pos s c len :
  0 < maxf s < 2147483648 -> writable s c len > 0 ->
  let a := available s c in
  let a' := if wrap32 (maxf s) <? a then wrap32 (maxf s) else a in
  a <> 0 /\ 0 < a' /\ a' <= a /\ a' <= maxf s.
Proof.
  intros Hm Hw. unfold writable in Hw. rewrite (wrap32_id (maxf s)) in * by lia.
  cbv zeta. destruct (Z.eqb_spec (available s c) 0) as [E|E]; [lia|].
  split; [exact E|].
  destruct (Z.ltb_spec (maxf s) (available s c)).
  - lia.
  - destruct (Z.ltb_spec len (available s c)); lia.
Qed.

Ltac solve_upd_with Rw Rp :=
  let x := fresh "x" in
  intro x; unfold updf; match goal with |- context [x =? ?k] => destruct (Z.eqb_spec x k) as [->|] end; rewrite ?Rw, ?Rp;
  first [reflexivity | lia | auto].

(* ---- simulation between model state and specification state ---- *)
Record Rel (s : sst) (p : spec) : Prop := mkRel {
  r_max : p_max p = maxf s;
  r_conn : p_conn p = connw s;
  r_win : forall x, p_win p x = win s x;
  r_pend : forall x, p_pend p x = sq s x;
  r_zero : p_zero p = zeroq s;
  r_known : forall x, memz x (p_known p) = memz x (sids s)
}.

Lemma Rel0 : Rel sst0 spec0.
Proof. constructor; reflexivity. Qed.
Lemma sinv0 : sinv sst0.
Proof.
  constructor; simpl; unfold in32; try lia; intros; try lia; contradiction.
Qed.

Lemma wf_fr_rest d start a len es : 0 < a -> a < len -> wf_fr (FData d ((start + a) mod 256) (len - a) es).
Proof. simpl. lia. Qed.

(* the take step: whatever eligible stream the map iteration picks *)
Lemma take_step s p c g s' :
  sinv s -> Rel s p -> take_with s c = TOk g s' -> (zeroq s = [] -> c = fr_sid g) ->
  sinv s' /\ exists p', spec_step p STake (OFrame g) = Some p' /\ Rel s' p'.
Proof.
  intros I Rr H Hc. destruct I as [Imax Iconn Iwin Izero Isq]. destruct Rr as [Rmax Rconn Rwin Rpend Rzero Rknown].
  unfold take_with in H. destruct (Z.eqb_spec (maxf s) 0) as [E0|_]; [lia|].
  destruct (zeroq s) as [|h t] eqn:Ez.
  - (* a stream queue *)
    destruct (memz c (take_choices s)) eqn:Em; [|discriminate].
    unfold take_from in H. destruct (sq s c) as [|h t] eqn:Eq; [discriminate|].
    destruct (Isq c h) as (Hsid & Hnctl & Hwf); [rewrite Eq; left; reflexivity|].
    assert (Isq_t : forall x f, In f (updf (sq s) c t x) -> fr_sid f = x /\ (forall t0, f <> FCtl t0) /\ wf_fr f).
    { intros x f Hin. destruct (Z.eq_dec x c) as [->|Hx].
      - rewrite updf_eq in Hin. apply Isq. rewrite Eq. right. exact Hin.
      - rewrite updf_ne in Hin by exact Hx. apply Isq. exact Hin. }
    destruct h as [tag|d start len es|d tag].
    + exfalso. exact (Hnctl tag eq_refl).
    + simpl in Hsid. subst d. simpl in Hwf.
      destruct (Z.gtb_spec len 0) as [Hpos|Hz].
      * pose proof (choice_writable s c c start len es t Em Eq ltac:(lia)) as Hw.
        pose proof (writable_pos s c len Imax Hw) as Hp. cbv zeta in Hp.
        destruct (available_le s c) as [Haw Hac].
        destruct (Z.eqb_spec (available s c) 0) as [E|_]; [lia|].
        set (a' := if wrap32 (maxf s) <? available s c then wrap32 (maxf s) else available s c) in *.
        destruct Hp as (_ & Ha1 & Ha2 & Ha3).
        pose proof (Iwin c) as Iwc. unfold in32 in *.
        destruct (Z.gtb_spec len a') as [Hsplit|Hwhole].
        -- unfold flow_take in H. destruct (Z.gtb_spec a' (available s c)); [lia|].
           destruct (Z.ltb_spec a' 0); [lia|]. inversion H; subst g s'; clear H.
           rewrite !wrap32_id by lia. split.
           ++ constructor; simpl; unfold in32; try lia.
              ** intro x. destruct (Z.eq_dec x c) as [->|Hx]; [rewrite updf_eq; lia|rewrite updf_ne by exact Hx; apply Iwin].
              ** rewrite Ez. intros f [].
              ** intros x f Hin. destruct (Z.eq_dec x c) as [->|Hx].
                 --- rewrite updf_eq in Hin. destruct Hin as [<-|Hin].
                     +++ split; [reflexivity|]. split; [discriminate|]. apply wf_fr_rest; lia.
                     +++ apply Isq. rewrite Eq. right. exact Hin.
                 --- rewrite updf_ne in Hin by exact Hx. apply Isq. exact Hin.
           ++ simpl. rewrite Rpend, Eq. simpl. rewrite !Z.eqb_refl. simpl.
              destruct (Z.eqb_spec a' len); [lia|]. simpl.
              destruct (Z.ltb_spec 0 a'); [|lia]. destruct (Z.ltb_spec a' len); [|lia]. simpl.
              rewrite Rwin, Rconn, Rmax.
              destruct (Z.eqb_spec a' 0); [lia|]. simpl.
              destruct (Z.leb_spec a' (win s c)); [|lia]. destruct (Z.leb_spec a' (connw s)); [|lia].
              destruct (Z.leb_spec a' (maxf s)); [|lia]. simpl.
              eexists; split; [reflexivity|]. constructor; simpl; try congruence.
              ** solve_upd_with Rwin Rpend.
              ** solve_upd_with Rwin Rpend.
        -- unfold flow_take in H. destruct (Z.gtb_spec len (available s c)); [lia|].
           inversion H; subst g s'; clear H.
           rewrite !wrap32_id by lia. split.
           ++ constructor; simpl; unfold in32; try lia.
              ** intro x. destruct (Z.eq_dec x c) as [->|Hx]; [rewrite updf_eq; lia|rewrite updf_ne by exact Hx; apply Iwin].
              ** rewrite Ez. intros f [].
              ** exact Isq_t.
           ++ simpl. rewrite Rpend, Eq. simpl. rewrite !Z.eqb_refl, Bool.eqb_reflx. simpl.
              rewrite Rwin, Rconn, Rmax.
              destruct (Z.eqb_spec len 0); [lia|]. simpl.
              destruct (Z.leb_spec len (win s c)); [|lia]. destruct (Z.leb_spec len (connw s)); [|lia].
              destruct (Z.leb_spec len (maxf s)); [|lia]. simpl.
              eexists; split; [reflexivity|]. constructor; simpl; try congruence.
              ** solve_upd_with Rwin Rpend.
              ** solve_upd_with Rwin Rpend.
      * assert (len = 0) by lia. subst len. inversion H; subst g s'; clear H. split.
        -- constructor; simpl; auto. rewrite Ez. intros f [].
        -- simpl. rewrite Rpend, Eq. simpl. rewrite !Z.eqb_refl, Bool.eqb_reflx. simpl.
           eexists; split; [reflexivity|]. constructor; simpl; try congruence; try lia.
           ++ solve_upd_with Rwin Rpend.
           ++ solve_upd_with Rwin Rpend.
    + simpl in Hsid. subst d. inversion H; subst g s'; clear H. split.
      * constructor; simpl; auto. rewrite Ez. intros f [].
      * simpl. rewrite Rpend, Eq. simpl. rewrite !Z.eqb_refl. simpl.
        eexists; split; [reflexivity|]. constructor; simpl; try congruence; try lia.
        -- solve_upd_with Rwin Rpend.
        -- solve_upd_with Rwin Rpend.
  - (* the control queue goes first *)
    inversion H; subst g s'; clear H.
    destruct (Izero h) as (tag & ->); [left; reflexivity|]. split.
    + constructor; simpl; auto. intros f Hin. apply Izero. right. exact Hin.
    + simpl. rewrite Rzero. rewrite Z.eqb_refl.
      eexists; split; [reflexivity|]. constructor; simpl; auto.
Qed.

(* every other operation *)
Lemma det_step s p o s' ob :
  sinv s -> Rel s p -> wf_sop o -> o <> STake -> sstep_det s o = (s', ob) ->
  sinv s' /\ exists p', spec_step p o ob = Some p' /\ Rel s' p'.
Proof.
  intros I Rr Hwf Hnt H. destruct I as [Imax Iconn Iwin Izero Isq]. destruct Rr as [Rmax Rconn Rwin Rpend Rzero Rknown].
  destruct o as [sid init|f| |sid|sid n|v]; simpl in H, Hwf.
  - (* SNew *)
    destruct ((sid <=? 0) || memz sid (sids s)) eqn:E.
    + inversion H; subst. split; [constructor; auto|]. eexists; split; [reflexivity|constructor; auto].
    + destruct (flow_add 0 init) as [w|] eqn:Ea.
      * destruct (flow_add_exact 0 init w) as [-> Hw]; [unfold in32; lia|lia|exact Ea|].
        inversion H; subst; clear H. split.
        -- constructor; simpl; auto. solve_upd_with Rwin Rpend.
        -- simpl. eexists; split; [reflexivity|]. constructor; simpl; auto.
           ++ solve_upd_with Rwin Rpend.
           ++ intro x. unfold memz in *. rewrite existsb_app. simpl. rewrite Rknown, orb_false_r. apply orb_comm.
      * exfalso. unfold flow_add in Ea. rewrite wrap32_id in Ea by lia.
        destruct (Z.gtb_spec init (2147483647 - 0)); [lia|discriminate].
  - (* SAdd *)
    destruct f as [tag|d start len es|d tag]; simpl in H.
    + inversion H; subst; clear H. split.
      * constructor; simpl; auto. intros f Hin. apply in_app_or in Hin. destruct Hin as [Hin|[<-|[]]]; [auto|eauto].
      * simpl. eexists; split; [reflexivity|]. constructor; simpl; auto. congruence.
    + simpl. rewrite Rknown. destruct (memz d (sids s)) eqn:Em; inversion H; subst; clear H.
      * split.
        -- constructor; simpl; auto. intros x f Hin. destruct (Z.eq_dec x d) as [->|Hx].
           ++ rewrite updf_eq in Hin. apply in_app_or in Hin. destruct Hin as [Hin|[<-|[]]]; [auto|].
              split; [reflexivity|]. split; [discriminate|exact Hwf].
           ++ rewrite updf_ne in Hin by exact Hx. auto.
        -- eexists; split; [reflexivity|]. constructor; simpl; auto.
           solve_upd_with Rwin Rpend.
      * split; [constructor; auto|]. eexists; split; [reflexivity|constructor; auto].
    + simpl. rewrite Rknown. destruct (memz d (sids s)) eqn:Em; inversion H; subst; clear H.
      * split.
        -- constructor; simpl; auto. intros x f Hin. destruct (Z.eq_dec x d) as [->|Hx].
           ++ rewrite updf_eq in Hin. apply in_app_or in Hin. destruct Hin as [Hin|[<-|[]]]; [auto|].
              split; [reflexivity|]. split; [discriminate|exact I].
           ++ rewrite updf_ne in Hin by exact Hx. auto.
        -- eexists; split; [reflexivity|]. constructor; simpl; auto.
           solve_upd_with Rwin Rpend.
      * split; [constructor; auto|]. eexists; split; [reflexivity|constructor; auto].
  - congruence.
  - (* SForget *)
    inversion H; subst; clear H. split.
    + constructor; simpl; auto. intros x f Hin. destruct (Z.eq_dec x sid) as [->|Hx].
      * rewrite updf_eq in Hin. destruct Hin.
      * rewrite updf_ne in Hin by exact Hx. auto.
    + simpl. eexists; split; [reflexivity|]. constructor; simpl; auto.
      solve_upd_with Rwin Rpend.
  - (* SWin *)
    destruct (Z.eqb_spec sid 0) as [->|Hs].
    + destruct (flow_add (connw s) n) as [w|] eqn:Ea; inversion H; subst; clear H.
      * destruct (flow_add_exact _ _ _ Iconn Hwf Ea) as [-> Hw]. split; [constructor; simpl; auto|].
        simpl. eexists; split; [reflexivity|]. constructor; simpl; auto. congruence.
      * split; [constructor; auto|]. eexists; split; [reflexivity|constructor; auto].
    + destruct (memz sid (sids s)) eqn:Em.
      * destruct (flow_add (win s sid) n) as [w|] eqn:Ea; inversion H; subst; clear H.
        -- destruct (flow_add_exact _ _ _ (Iwin sid) Hwf Ea) as [-> Hw]. split.
           ++ constructor; simpl; auto. solve_upd_with Rwin Rpend.
           ++ simpl. destruct (Z.eqb_spec sid 0); [contradiction|].
              eexists; split; [reflexivity|]. constructor; simpl; auto.
              solve_upd_with Rwin Rpend.
        -- split; [constructor; auto|]. eexists; split; [reflexivity|constructor; auto].
      * inversion H; subst; clear H. split; [constructor; auto|]. eexists; split; [reflexivity|constructor; auto].
  - (* SMax *)
    inversion H; subst; clear H. split; [constructor; simpl; auto|].
    simpl. eexists; split; [reflexivity|]. constructor; simpl; auto.
Qed.

Lemma validate_step s p o ob s' :
  sinv s -> Rel s p -> wf_sop o -> step_validate s o ob = Some s' ->
  sinv s' /\ exists p', spec_step p o ob = Some p' /\ Rel s' p'.
Proof.
  intros I Rr Hwf H. destruct (sop_is_take o) eqn:Et.
  - destruct o; try discriminate. simpl in H. destruct ob as [|f|b|].
    + destruct (zeroq s); [|discriminate]. destruct (take_choices s); [|discriminate].
      destruct (maxf s =? 0); [discriminate|]. inversion H; subst. split; [exact I|]. exists p. split; [reflexivity|exact Rr].
    + destruct (take_with s (fr_sid f)) as [| |g s2] eqn:Ew; try discriminate.
      destruct (fr_eqb f g) eqn:Ef; [|discriminate]. apply fr_eqb_eq in Ef. subst g. inversion H; subst s2.
      eapply take_step; eauto.
    + discriminate.
    + destruct I as [Imax _ _ _ _]. destruct (Z.eqb_spec (maxf s) 0); [lia|discriminate].
  - assert (Hnt : o <> STake) by (intro; subst; discriminate).
    assert (H' : exists ob', sstep_det s o = (s', ob') /\ ob = ob').
    { assert (E : step_validate s o ob =
                  let '(s2, ob2) := sstep_det s o in if sobs_eqb ob ob2 then Some s2 else None).
      { destruct o; try reflexivity. exfalso; apply Hnt; reflexivity. }
      rewrite E in H. destruct (sstep_det s o) as [s2 ob2].
      destruct (sobs_eqb ob ob2) eqn:Eo; [|discriminate]. apply sobs_eqb_eq in Eo. inversion H; subst. eauto. }
    destruct H' as (ob' & Ed & ->). eapply det_step; eauto.
Qed.

(* C34 main theorem (general form) *)
Lemma validate_spec ops : forall s p obs,
  sinv s -> Rel s p -> Forall wf_sop ops -> svalidate s ops obs = true ->
  spec_run p ops (map fst obs) = true.
Proof.
  induction ops as [|o r IH]; intros s p obs I Rr Hwf H; destruct obs as [|[ob [cw ws]] obs]; simpl in H |- *;
    try discriminate; try reflexivity.
  destruct (step_validate s o ob) as [s'|] eqn:Ev; [|discriminate].
  inversion Hwf as [|? ? Ho Hr]; subst.
  destruct (validate_step s p o ob s' I Rr Ho Ev) as (I' & p' & Ep & R').
  rewrite Ep. apply andb_true_iff in H. destruct H as [_ H]. eapply IH; eauto.
Qed.

(* the canonical run is itself a validated trace *)
Lemma take_first_choice s g s' : take_first s = TOk g s' -> sinv s ->
  exists c, take_with s c = TOk g s' /\ (zeroq s = [] -> c = fr_sid g).
Proof.
  intros H I. unfold take_first in H. destruct (take_choices s) as [|c l] eqn:Ec.
  - exists 0. split; [exact H|]. intro Ez. unfold take_with in H. rewrite Ez, Ec in H.
    destruct (maxf s =? 0); discriminate.
  - exists c. split; [exact H|]. intro Ez. unfold take_with in H. rewrite Ez in H.
    destruct (maxf s =? 0); [discriminate|]. destruct (memz c (take_choices s)); [|discriminate].
    unfold take_from in H. destruct (sq s c) as [|h t] eqn:Eq; [discriminate|].
    destruct (i_sq s I c h) as (Hsid & _); [rewrite Eq; left; reflexivity|].
    destruct h as [tag|d start len es|d tag]; simpl in Hsid; subst.
    + inversion H; reflexivity.
    + destruct (len >? 0).
      * destruct (available s c =? 0); [discriminate|].
        match type of H with context [if len >? ?a then _ else _] => destruct (len >? a) end.
        -- match type of H with context [flow_take ?s ?c ?a] => destruct (flow_take s c a) end; [|discriminate].
           match type of H with context [?a <? 0] => destruct (a <? 0) end; [discriminate|].
           inversion H; reflexivity.
        -- match type of H with context [flow_take ?s ?c ?a] => destruct (flow_take s c a) end; [|discriminate].
           inversion H; reflexivity.
      * inversion H; reflexivity.
    + inversion H; reflexivity.
Qed.

(* take never panics on a state satisfying the invariant, whatever the choice *)
Lemma take_never_panics s c : sinv s -> take_with s c <> TPanic.
Proof.
  intros I H. destruct I as [Imax Iconn Iwin Izero Isq]. unfold take_with in H.
  destruct (Z.eqb_spec (maxf s) 0); [lia|]. destruct (zeroq s); [|discriminate].
  destruct (memz c (take_choices s)) eqn:Em; [|discriminate].
  unfold take_from in H. destruct (sq s c) as [|h t] eqn:Eq.
  - (* a chosen stream has a non-empty queue *)
    unfold take_choices in Em. apply memz_In in Em.
    destruct (filter (head_nocost s) (sids s)) eqn:Ef.
    + apply filter_In in Em. destruct Em as [_ Hw]. unfold head_writable in Hw. rewrite Eq in Hw. discriminate.
    + rewrite <- Ef in Em. apply filter_In in Em. destruct Em as [_ Hw]. unfold head_nocost in Hw. rewrite Eq in Hw. discriminate.
  - destruct (Isq c h) as (Hsid & Hnctl & Hwf); [rewrite Eq; left; reflexivity|].
    destruct h as [tag|d start len es|d tag]; try discriminate.
    simpl in Hsid. subst d. destruct (Z.gtb_spec len 0) as [Hpos|]; [|discriminate].
    pose proof (choice_writable s c c start len es t Em Eq ltac:(lia)) as Hw.
    pose proof (writable_pos s c len Imax Hw) as Hp. cbv zeta in Hp.
    destruct (Z.eqb_spec (available s c) 0); [discriminate|].
    set (a' := if wrap32 (maxf s) <? available s c then wrap32 (maxf s) else available s c) in *.
    destruct Hp as (_ & Ha1 & Ha2 & Ha3).
    destruct (Z.gtb_spec len a').
    + unfold flow_take in H. destruct (Z.gtb_spec a' (available s c)); [lia|].
      destruct (Z.ltb_spec a' 0); [lia|discriminate].
    + unfold flow_take in H. destruct (Z.gtb_spec len (available s c)); [lia|discriminate].
Qed.

Lemma sobs_eqb_refl a : sobs_eqb a a = true.
Proof. destruct a; simpl; auto using fr_eqb_refl, Bool.eqb_reflx. Qed.

Lemma take_from_not_none s c : sinv s -> memz c (take_choices s) = true -> take_from s c <> TNone.
Proof.
  intros I Em H. destruct I as [Imax Iconn Iwin Izero Isq].
  unfold take_from in H. destruct (sq s c) as [|h t] eqn:Eq; [discriminate|].
  destruct (Isq c h) as (Hsid & Hnctl & Hwf); [rewrite Eq; left; reflexivity|].
  destruct h as [tag|d start len es|d tag]; try discriminate.
  simpl in Hsid. subst d. destruct (Z.gtb_spec len 0) as [Hpos|]; [|discriminate].
  pose proof (choice_writable s c c start len es t Em Eq ltac:(lia)) as Hw.
  pose proof (writable_pos s c len Imax Hw) as Hp. cbv zeta in Hp.
  destruct (Z.eqb_spec (available s c) 0); [lia|].
  set (a' := if wrap32 (maxf s) <? available s c then wrap32 (maxf s) else available s c) in *.
  destruct (len >? a').
  - destruct (flow_take s c a'); [|discriminate]. destruct (a' <? 0); discriminate.
  - destruct (flow_take s c len); discriminate.
Qed.

(* the canonical run (first eligible stream in creation order) is one of the allowed traces *)
Lemma sstep_first_validates s o : sinv s ->
  step_validate s o (snd (sstep_first s o)) = Some (fst (sstep_first s o)).
Proof.
  intro I. destruct (sop_is_take o) eqn:Eo.
  2:{ assert (E1 : sstep_first s o = sstep_det s o) by (destruct o; try reflexivity; discriminate).
      assert (E2 : forall ob, step_validate s o ob =
                  let '(s2, ob2) := sstep_det s o in if sobs_eqb ob ob2 then Some s2 else None)
        by (intro ob; destruct o; try reflexivity; discriminate).
      rewrite E1, E2. destruct (sstep_det s o) as [s2 ob2]. simpl. rewrite sobs_eqb_refl. reflexivity. }
  destruct o; try discriminate. simpl.
  destruct (take_first s) as [| |g s'] eqn:Et; simpl.
  - exfalso. unfold take_first in Et. destruct (take_choices s); eapply take_never_panics; eauto.
  - unfold take_first in Et. destruct (take_choices s) as [|c l] eqn:Ec.
    + unfold take_with in Et. destruct (maxf s =? 0); [discriminate|].
      destruct (zeroq s); [reflexivity|discriminate].
    + exfalso. unfold take_with in Et. destruct (maxf s =? 0); [discriminate|].
      destruct (zeroq s); [|discriminate].
      assert (Em : memz c (take_choices s) = true) by (rewrite Ec; simpl; rewrite Z.eqb_refl; reflexivity).
      rewrite Em in Et. exact (take_from_not_none s c I Em Et).
  - destruct (take_first_choice s g s' Et I) as (c & Hw & Hc).
    assert (E : take_with s (fr_sid g) = TOk g s').
    { destruct (zeroq s) as [|h t] eqn:Ez.
      - rewrite <- (Hc eq_refl). exact Hw.
      - unfold take_with in Hw |- *. rewrite Ez in *. exact Hw. }
    rewrite E, fr_eqb_refl. reflexivity.
Qed.

Lemma lz_eqb_refl l : lz_eqb l l = true.
Proof. induction l; simpl; rewrite ?Z.eqb_refl; auto. Qed.

Lemma srun_validates ops : forall s p, sinv s -> Rel s p -> Forall wf_sop ops ->
  svalidate s ops (srun s ops) = true.
Proof.
  induction ops as [|o r IH]; intros s p I Rr Hwf; simpl; [reflexivity|].
  inversion Hwf as [|? ? Ho Hr]; subst.
  pose proof (sstep_first_validates s o I) as Hv.
  destruct (sstep_first s o) as [s' ob] eqn:Es. simpl in Hv. simpl. rewrite Hv.
  destruct (validate_step s p o ob s' I Rr Ho Hv) as (I' & p' & _ & R').
  rewrite Z.eqb_refl, lz_eqb_refl. simpl. eapply IH; eauto.
Qed.

(* headline statements *)
Lemma allowed_traces_meet_spec ops obs :
  Forall wf_sop ops -> svalidate sst0 ops obs = true -> spec_run spec0 ops (map fst obs) = true.
Proof. intros. eapply validate_spec; eauto using sinv0, Rel0. Qed.

Lemma model_run_meets_spec ops :
  Forall wf_sop ops -> spec_run spec0 ops (map fst (srun sst0 ops)) = true.
Proof.
  intro Hwf. apply allowed_traces_meet_spec; [exact Hwf|].
  eapply srun_validates; eauto using sinv0, Rel0.
Qed.

(* wire level: whenever the harness' correspondence check accepts an observation, the property holds of it *)
Lemma agree_implies_prop i o :
  (forall ops, dec_sops i = Some ops -> Forall wf_sop ops) ->
  agree_C34 i o = true -> prop_C34 i o = true.
Proof.
  unfold agree_C34, prop_C34. intros Hwf H.
  destruct (dec_live i); [exact H|].
  destruct (dec_sops i) as [ops|]; [|discriminate]. destruct (dec_steps o) as [obs|]; [|discriminate].
  apply allowed_traces_meet_spec; auto.
Qed.

(* reachable states satisfy the invariant, hence take never panics on them, for any choice *)
Inductive sreach : sst -> Prop :=
| sreach0 : sreach sst0
| sreach_det s o : sreach s -> wf_sop o -> o <> STake -> sreach (fst (sstep_det s o))
| sreach_take s c f s' : sreach s -> take_with s c = TOk f s' -> (zeroq s = [] -> c = fr_sid f) -> sreach s'.

Lemma sreach_inv s : sreach s -> sinv s /\ exists p, Rel s p.
Proof.
  induction 1 as [|s o _ [I [p Rr]] Hwf Hnt|s c f s' _ [I [p Rr]] Ht Hc].
  - split; [exact sinv0|exists spec0; exact Rel0].
  - destruct (sstep_det s o) as [s2 ob] eqn:Ed. simpl.
    destruct (det_step s p o s2 ob I Rr Hwf Hnt Ed) as (I' & p' & _ & R'). eauto.
  - destruct (take_step s p c f s' I Rr Ht Hc) as (I' & p' & _ & R'). eauto.
Qed.

Lemma reachable_take_never_panics s c : sreach s -> take_with s c <> TPanic.
Proof. intro H. apply take_never_panics. exact (proj1 (sreach_inv s H)). Qed.

(* the DATA frame handed out by take fits both windows and the frame size, and the windows shrink by its length *)
Lemma take_within_windows s c d start len es s' :
  sinv s -> take_with s c = TOk (FData d start len es) s' -> 0 < len ->
  len <= win s d /\ len <= connw s /\ len <= maxf s /\
  connw s' = connw s - len /\ win s' d = win s d - len.
Proof.
  intros I H Hlen. destruct I as [Imax Iconn Iwin Izero Isq]. unfold take_with in H.
  destruct (Z.eqb_spec (maxf s) 0); [lia|]. destruct (zeroq s) as [|h t] eqn:Ez.
  2:{ inversion H; subst. destruct (Izero (FData d start len es)) as (tg & E); [left; reflexivity|discriminate]. }
  destruct (memz c (take_choices s)) eqn:Em; [|discriminate].
  unfold take_from in H. destruct (sq s c) as [|h t] eqn:Eq; [discriminate|].
  destruct (Isq c h) as (Hsid & Hnctl & Hwf); [rewrite Eq; left; reflexivity|].
  destruct h as [tag|d0 start0 len0 es0|d0 tag]; [exfalso; exact (Hnctl tag eq_refl)| |inversion H].
  simpl in Hsid. subst d0. destruct (Z.gtb_spec len0 0) as [Hpos|Hz].
  2:{ inversion H; subst. lia. }
  pose proof (choice_writable s c c start0 len0 es0 t Em Eq ltac:(lia)) as Hw.
  pose proof (writable_pos s c len0 Imax Hw) as Hp. cbv zeta in Hp.
  destruct (available_le s c) as [Haw Hac].
  destruct (Z.eqb_spec (available s c) 0) as [E|_]; [lia|].
  set (a' := if wrap32 (maxf s) <? available s c then wrap32 (maxf s) else available s c) in *.
  destruct Hp as (_ & Ha1 & Ha2 & Ha3). pose proof (Iwin c) as Iwc. unfold in32 in *.
  destruct (Z.gtb_spec len0 a').
  - unfold flow_take in H. destruct (Z.gtb_spec a' (available s c)); [lia|].
    destruct (Z.ltb_spec a' 0); [lia|]. inversion H; subst. simpl.
    rewrite updf_eq, !wrap32_id by lia. lia.
  - unfold flow_take in H. destruct (Z.gtb_spec len0 (available s c)); [lia|].
    inversion H; subst. simpl. rewrite updf_eq, !wrap32_id by lia. lia.
Qed.

(* non-vacuity *)
Definition ex_sops : list sop :=
  [SWin 0 10; SMax 4; SNew 1 6; SNew 3 100; SAdd (FData 1 7 9 true); SAdd (FCtl 5); SAdd (FHdr 3 2);
   STake; STake; STake; STake; STake; SWin 1 20; STake; SForget 1; STake].
Lemma ex_sops_run : Forall wf_sop ex_sops /\
  map fst (srun sst0 ex_sops) =
  [OBool true; ONone; OBool true; OBool true; ONone; ONone; ONone;
   OFrame (FCtl 5); OFrame (FHdr 3 2); OFrame (FData 1 7 4 false); OFrame (FData 1 11 2 false); ONone;
   OBool true; OFrame (FData 1 13 3 true); ONone; ONone].
Proof. split; [repeat constructor; simpl; lia|vm_compute; reflexivity]. Qed.

(* ---------- the central statement over the wire functions ---------- *)
Lemma wf_sopb_wf o : wf_sopb o = true -> wf_sop o.
Proof. destruct o as [? ?|f| |?|? ?|?]; try destruct f; simpl; intro H; try exact I; lia. Qed.

Lemma as_LZ_vLZ l : as_LZ (vLZ l) = Some l.
Proof.
  unfold as_LZ, vLZ. rewrite map_map. induction l as [|x l IH]; simpl; [reflexivity|].
  simpl in IH. rewrite IH. reflexivity.
Qed.
Lemma dec_fr_enc f : dec_fr (enc_fr f) = Some f.
Proof. destruct f as [?|? ? ? []|? ?]; reflexivity. Qed.
Lemma dec_sobs_enc ob : dec_sobs (enc_sobs ob) = Some ob.
Proof. destruct ob as [|f|[]|]; simpl; try reflexivity. rewrite dec_fr_enc. reflexivity. Qed.
Lemma dec_steps_enc l : dec_steps (VL (map enc_step l)) = Some l.
Proof.
  unfold dec_steps. rewrite map_map. induction l as [|[ob [cw ws]] r IH]; simpl; [reflexivity|].
  rewrite dec_sobs_enc. pose proof (as_LZ_vLZ ws) as E. unfold as_LZ, vLZ in E. rewrite E. simpl in IH. rewrite IH. reflexivity.
Qed.

Lemma dec_lobs_enc l : dec_lobs (enc_lobs l) = Some l.
Proof.
  unfold dec_lobs, enc_lobs. rewrite map_map. induction l as [|es r IH]; simpl; [reflexivity|].
  assert (E : all_some (map dec_levent (map enc_levent es)) = Some es).
  { rewrite map_map. induction es as [|e es IHe]; simpl; [reflexivity|].
    assert (dec_levent (enc_levent e) = Some e) as -> by (destruct e as [? ? [] []| |]; reflexivity).
    simpl in IHe. rewrite IHe. reflexivity. }
  rewrite E. simpl in IH. rewrite IH. reflexivity.
Qed.

(* a server that acknowledges SETTINGS and sends nothing is always within the client's windows *)
Lemma lcanon_ok script : forall s, l_pend s = [] -> l_dead s = false -> lvalidate s script (lcanon script) = true.
Proof.
  induction script as [|a r IH]; intros s Hp Hd; [reflexivity|].
  destruct s as [cw iw mf pend last str dead]. simpl in Hp, Hd. subst pend dead.
  destruct a as [sid n|sid inc|v|v|sid]; cbn.
  - destruct (find_stream sid str); cbn; apply IH; reflexivity.
  - destruct (sid =? 0); cbn; apply IH; reflexivity.
  - cbn. apply IH; reflexivity.
  - cbn. apply IH; reflexivity.
  - cbn. apply IH; reflexivity.
Qed.

Lemma prop_C34_of_model i : wf_C34 i = true -> prop_C34 i (run_C34 i) = true.
Proof.
  unfold wf_C34, prop_C34, run_C34. destruct (dec_live i) as [script|].
  - intros _. unfold live_ok. rewrite dec_lobs_enc. apply lcanon_ok; reflexivity.
  - destruct (dec_sops i) as [ops|]; [|discriminate]. intro Hwf.
    rewrite dec_steps_enc. apply model_run_meets_spec.
    apply Forall_forall. intros o Ho. apply wf_sopb_wf. rewrite forallb_forall in Hwf. auto.
Qed.

Lemma wf_corpus_examples :
  wf_C34 (VL [VZ 7; VL [VL [VZ 5; VZ 100000]; VL [VZ 1; VZ 1; VZ 200000]; VL [VZ 5; VZ 4465]; VL [VZ 4; VZ 0; VZ 1000000]]]) = true /\
  wf_C34 (VL [VL [VZ 5; VZ 0; VZ 10]; VL [VZ 6; VZ 4]; VL [VZ 1; VZ 1; VZ 6];
              VL [VZ 2; VL [VZ 1; VZ 1; VZ 7; VZ 9; VZ 1]]; VL [VZ 3]; VL [VZ 3]; VL [VZ 5; VZ 1; VZ 20]; VL [VZ 3]]) = true.
Proof. split; reflexivity. Qed.
