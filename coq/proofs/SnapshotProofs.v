(* C15: proofs about the reload / request transition system of model/Snapshot.v. *)
From Coq Require Import List ZArith Bool Lia.
From Bfe Require Import lib.Val lib.ValProofs model.Snapshot model.SnapshotTlsWire run.RunC15.
Import ListNotations.
Open Scope Z_scope.

(* ---------------------------------------------------------------- upd_nth *)
Lemma nth_error_upd_nth_eq {A} (l : list A) i x t :
  nth_error l i = Some t -> nth_error (upd_nth l i x) i = Some x.
Proof.
  revert i; induction l as [|y l IH]; intros [|i] H; simpl in *; try discriminate; auto.
Qed.

Lemma nth_error_upd_nth_neq {A} (l : list A) i j x :
  i <> j -> nth_error (upd_nth l i x) j = nth_error l j.
Proof.
  revert i j; induction l as [|y l IH]; intros [|i] [|j] H; simpl; auto; try congruence.
Qed.

Lemma length_upd_nth {A} (l : list A) i x : length (upd_nth l i x) = length l.
Proof. revert i; induction l as [|y l IH]; intros [|i]; simpl; auto. Qed.

(* ---------------------------------------------------------------- shape of one step *)
(* A step of thread j leaves every other thread untouched and replaces thread j by its successor. *)
Lemma step_shape st j i t :
  nth_error (threads st) i = Some t ->
  exists t', nth_error (threads (step st j)) i = Some t' /\
             (t' = t \/ (i = j /\ t' = snd (step_thread (sh st) t) /\ sh (step st j) = fst (step_thread (sh st) t))).
Proof.
  intros H. unfold step.
  destruct (nth_error (threads st) j) as [tj|] eqn:Hj.
  - destruct (step_thread (sh st) tj) as [s' t'] eqn:Hs. simpl.
    destruct (Nat.eq_dec j i) as [->|Hne].
    + rewrite H in Hj. inversion Hj; subst tj. exists t'. split.
      * eapply nth_error_upd_nth_eq; eauto.
      * right. rewrite Hs. auto.
    + exists t. split; [rewrite nth_error_upd_nth_neq; auto|auto].
  - exists t. auto.
Qed.

Lemma step_sh_other st j :
  nth_error (threads st) j = None -> step st j = st.
Proof. intros H. unfold step. rewrite H. reflexivity. Qed.

Lemma step_length st j : length (threads (step st j)) = length (threads st).
Proof.
  unfold step. destruct (nth_error (threads st) j); auto.
  destruct (step_thread (sh st) t). simpl. apply length_upd_nth.
Qed.

Lemma exec_app st a b : exec st (a ++ b) = exec (exec st a) b.
Proof. unfold exec. apply fold_left_app. Qed.

Lemma exec_length st sched : length (threads (exec st sched)) = length (threads st).
Proof.
  revert st; induction sched as [|j r IH]; intros st; simpl; auto.
  unfold exec in *. simpl. rewrite IH. apply step_length.
Qed.

(* ---------------------------------------------------------------- request invariant *)
Definition req_inv (q : request) : Prop :=
  match rq_snap q with
  | None => rq_pc q = 0%nat /\ rq_seen q = []
  | Some v => (1 <= rq_pc q)%nat /\ Forall (fun x => x = v) (rq_seen q)
  end.

Definition fresh_thread (t : thread) : Prop :=
  match t with
  | TReload r => rl_pc r = 0%nat
  | TGslb g => gl_pc g = 0%nat
  | TReq q => q = mkRequest 0 None [] None false
  end.

Lemma step_request_inv s q : req_inv q -> req_inv (step_request s q).
Proof.
  unfold req_inv, step_request. intros H.
  destruct (rq_pc q) as [|[|[|[|[|[|n]]]]]] eqn:Hpc; destruct (rq_snap q) as [v|] eqn:Hs;
    destruct H as [H1 H2]; try lia; simpl.
  - destruct (conf_w s); simpl; rewrite ?Hs, ?Hpc; simpl; auto. split; [lia|rewrite H2; constructor].
  - split; [lia|apply Forall_app; split; auto].
  - split; [lia|apply Forall_app; split; auto].
  - split; [lia|apply Forall_app; split; auto].
  - destruct (bal_w s); simpl; rewrite ?Hs, ?Hpc; simpl; split; auto; lia.
  - split; auto; lia.
  - rewrite ?Hs, ?Hpc. split; auto.
Qed.

(* what a request step may do to a request: its snapshot is kept once taken, lookups only append the snapshot version *)
Definition extends (q q' : request) : Prop :=
  forall v, rq_snap q = Some v ->
    rq_snap q' = Some v /\ exists more, rq_seen q' = rq_seen q ++ more /\ Forall (fun x => x = v) more.

Lemma extends_refl q : extends q q.
Proof. intros v H. split; auto. exists []. rewrite app_nil_r. auto. Qed.

Lemma extends_trans a b c : extends a b -> extends b c -> extends a c.
Proof.
  intros H1 H2 v Ha. destruct (H1 v Ha) as [Hb [m1 [E1 F1]]]. destruct (H2 v Hb) as [Hc [m2 [E2 F2]]].
  split; auto. exists (m1 ++ m2). rewrite E2, E1, app_assoc. split; auto. apply Forall_app; auto.
Qed.

Lemma step_request_extends s q : req_inv q -> extends q (step_request s q).
Proof.
  intros Hinv v Hs. unfold req_inv in Hinv. rewrite Hs in Hinv. destruct Hinv as [Hpc Hall].
  unfold step_request.
  destruct (rq_pc q) as [|[|[|[|[|[|n]]]]]] eqn:E; try lia; simpl;
    try (destruct (bal_w s)); simpl; rewrite ?Hs; (split; [reflexivity|]).
  all: try (exists []; rewrite app_nil_r; split; [reflexivity|constructor]).
  all: exists [v]; simpl; split; [reflexivity|repeat constructor].
Qed.

(* the kind of a thread never changes; a request thread is either untouched or stepped *)
Lemma step_req_at st j i q :
  nth_error (threads st) i = Some (TReq q) ->
  exists q', nth_error (threads (step st j)) i = Some (TReq q') /\ (q' = q \/ q' = step_request (sh st) q).
Proof.
  intros H. destruct (step_shape st j i _ H) as [t' [Hn [->|[_ [-> _]]]]].
  - exists q. auto.
  - simpl. exists (step_request (sh st) q). auto.
Qed.

Lemma exec_req_at st sched i q :
  nth_error (threads st) i = Some (TReq q) -> req_inv q ->
  exists q', nth_error (threads (exec st sched)) i = Some (TReq q') /\ req_inv q' /\ extends q q'.
Proof.
  revert st q; induction sched as [|j r IH]; intros st q H Hinv.
  - exists q. simpl. auto using extends_refl.
  - destruct (step_req_at st j i q H) as [q1 [H1 Hq1]].
    assert (req_inv q1 /\ extends q q1) as [I1 X1].
    { destruct Hq1 as [->| ->]; auto using extends_refl, step_request_inv, step_request_extends. }
    destruct (IH (step st j) q1 H1 I1) as [q' [Hn [Hi Hx]]].
    exists q'. unfold exec in *. simpl. split; auto. split; auto. eapply extends_trans; eauto.
Qed.

Lemma fresh_req_inv q : fresh_thread (TReq q) -> req_inv q.
Proof. simpl. intros ->. unfold req_inv. simpl. auto. Qed.

(* ---------------------------------------------------------------- headline: single snapshot *)
Lemma kind_reload_stable i : forall s st r1, nth_error (threads st) i = Some (TReload r1) ->
  exists r, nth_error (threads (exec st s)) i = Some (TReload r) /\ rl_ver r = rl_ver r1 /\ rl_ok r = rl_ok r1.
Proof.
  induction s as [|j s IH]; intros st r1 Hst; [eauto|].
  destruct (step_shape st j i _ Hst) as [t' [Hn [->|[_ [-> _]]]]].
  - unfold exec in *. simpl. eapply IH; eauto.
  - simpl in Hn. destruct (step_reload (sh st) r1) as [s' r'] eqn:E. simpl in Hn.
    assert (rl_ver r' = rl_ver r1 /\ rl_ok r' = rl_ok r1) as [E1 E2].
    { unfold step_reload in E. destruct (rl_pc r1) as [|[|[|[|[|[|[|n]]]]]]];
        try destruct (rl_ok r1) eqn:Eok; try destruct (conf_w (sh st)); try destruct (bal_w (sh st));
        inversion E; subst; simpl; auto. }
    destruct (IH (step st j) r' Hn) as [r [H1 [H2 H3]]].
    exists r. unfold exec in *. simpl. split; auto. split; congruence.
Qed.

Lemma kind_gslb_stable i : forall s st g1, nth_error (threads st) i = Some (TGslb g1) ->
  exists g2, nth_error (threads (exec st s)) i = Some (TGslb g2).
Proof.
  induction s as [|j s IH]; intros st g1 Hst; [eauto|].
  destruct (step_shape st j i _ Hst) as [t' [Hn [->|[_ [-> _]]]]].
  - unfold exec in *. simpl. eapply IH; eauto.
  - simpl in Hn. destruct (step_greload (sh st) g1) as [s' g'] eqn:E. simpl in Hn.
    unfold exec in *. simpl. eapply IH; eauto.
Qed.

(* every request thread of a reachable state satisfies the invariant *)
Lemma reachable_req_inv :
  forall (v g : Z) (ts : list thread) (sched : list nat),
    Forall fresh_thread ts ->
    forall i q, nth_error (threads (exec (mkState (init_shared v g) ts) sched)) i = Some (TReq q) -> req_inv q.
Proof.
  intros v g ts sched Hfresh i q Hq.
  set (st0 := mkState (init_shared v g) ts) in *.
  assert (Hlen : (i < length ts)%nat).
  { assert (nth_error (threads (exec st0 sched)) i <> None) as Hne by (rewrite Hq; discriminate).
    apply nth_error_Some in Hne. rewrite exec_length in Hne. exact Hne. }
  destruct (nth_error ts i) as [t0|] eqn:Ht0; [|apply nth_error_None in Ht0; lia].
  assert (Hf : fresh_thread t0). { rewrite Forall_forall in Hfresh. apply Hfresh. eapply nth_error_In; eauto. }
  destruct t0 as [r0|g0|q0].
  - exfalso. destruct (kind_reload_stable i sched st0 r0 Ht0) as [r [Hr _]]. rewrite Hr in Hq. discriminate.
  - exfalso. destruct (kind_gslb_stable i sched st0 g0 Ht0) as [g2 Hg2]. rewrite Hg2 in Hq. discriminate.
  - destruct (exec_req_at st0 sched i q0 Ht0 (fresh_req_inv q0 Hf)) as [q' [Hn [Hinv _]]].
    rewrite Hn in Hq. inversion Hq; subst q'. exact Hinv.
Qed.

Theorem single_snapshot :
  forall (v g : Z) (ts : list thread) (sched : list nat),
    Forall fresh_thread ts ->
    forall i q, nth_error (threads (exec (mkState (init_shared v g) ts) sched)) i = Some (TReq q) ->
    forall x, In x (rq_seen q) -> rq_snap q = Some x.
Proof.
  intros v g ts sched Hfresh i q Hq x Hx.
  pose proof (reachable_req_inv v g ts sched Hfresh i q Hq) as Hinv. unfold req_inv in Hinv.
  destruct (rq_snap q) as [w|].
  - destruct Hinv as [_ Hall]. rewrite Forall_forall in Hall. rewrite (Hall x Hx). reflexivity.
  - destruct Hinv as [_ E]. rewrite E in Hx. destruct Hx.
Qed.

(* In-flight requests keep their snapshot: whatever happens after a request has taken its snapshot w (any number of
   complete or partial reloads, other requests), it still holds w and every further lookup yields w. *)
Theorem inflight_keep :
  forall (v g : Z) (ts : list thread) (s1 s2 : list nat),
    Forall fresh_thread ts ->
    forall i q w, nth_error (threads (exec (mkState (init_shared v g) ts) s1)) i = Some (TReq q) ->
    rq_snap q = Some w ->
    exists q', nth_error (threads (exec (mkState (init_shared v g) ts) (s1 ++ s2))) i = Some (TReq q') /\
               rq_snap q' = Some w /\
               exists more, rq_seen q' = rq_seen q ++ more /\ Forall (fun x => x = w) more.
Proof.
  intros v g ts s1 s2 Hfresh i q w Hq Hw.
  pose proof (reachable_req_inv v g ts s1 Hfresh i q Hq) as Hinv.
  rewrite exec_app.
  destruct (exec_req_at _ s2 i q Hq Hinv) as [q' [Hn [_ Hx]]].
  exists q'. split; [exact Hn|apply Hx; exact Hw].
Qed.

(* A request that has run to completion made exactly three lookups (product, cluster name, cluster conf). *)
Lemma req_len_inv_step s q :
  (length (rq_seen q) = Nat.min (Nat.pred (rq_pc q)) 3) -> length (rq_seen (step_request s q)) = Nat.min (Nat.pred (rq_pc (step_request s q))) 3.
Proof.
  unfold step_request. intros H.
  destruct (rq_pc q) as [|[|[|[|[|[|n]]]]]] eqn:E; simpl in *;
    try destruct (conf_w s); try destruct (bal_w s); simpl; rewrite ?E, ?app_length; simpl; try lia.
Qed.

(* ---------------------------------------------------------------- non-vacuity: the snapshot discipline matters *)
(* If requests read srv.ServerConf afresh at every lookup (step_request_bad), a reload that completes between two
   lookups makes one request see two versions. *)
Definition step_bad (st : state) (i : nat) : state :=
  match nth_error (threads st) i with
  | Some (TReq q) => mkState (sh st) (upd_nth (threads st) i (TReq (step_request_bad (sh st) q)))
  | _ => step st i
  end.

Lemma double_read_breaks :
  exists sched,
    let st := fold_left step_bad sched (mkState (init_shared 1 1) [new_request; new_reload 2 true]) in
    all_consistent st = false.
Proof. exists [0;0;1;1;1;1;0;0]%nat. vm_compute. reflexivity. Qed.

Lemma single_snapshot_example :
  let st := exec (mkState (init_shared 1 1) [new_request; new_reload 2 true]) [0;0;1;1;1;1;0;0;1;1;1;0;0]%nat in
  Forall fresh_thread [new_request; new_reload 2 true] /\
  nth_error (threads st) 0 = Some (TReq (mkRequest 6 (Some 1) [1;1;1] (Some 1) false)) /\ conf (sh st) = 2.
Proof. vm_compute. repeat split; auto; repeat constructor. Qed.

(* ---------------------------------------------------------------- BalTable RWMutex protocol *)
Definition at_pc (k : nat) (t : thread) : nat :=
  match t with TGslb g => if Nat.eqb (gl_pc g) k then 1%nat else 0%nat | _ => 0%nat end.
Definition tot (f : thread -> nat) (ts : list thread) : nat := fold_right (fun t a => (f t + a)%nat) 0%nat ts.

Lemma tot_upd f : forall ts i t t', nth_error ts i = Some t ->
  (tot f (upd_nth ts i t') + f t = tot f ts + f t')%nat.
Proof.
  induction ts as [|y ts IH]; intros [|i] t t' H; simpl in *; try discriminate.
  - inversion H; subst. lia.
  - specialize (IH i t t' H). lia.
Qed.

Definition b2n (b : bool) : nat := if b then 1%nat else 0%nat.

Definition mid_free (t : thread) : Prop := match t with TReq q => rq_mid q = false | _ => True end.

Definition bal_inv (st : state) : Prop :=
  (tot (at_pc 2) (threads st) + tot (at_pc 3) (threads st) + tot (at_pc 4) (threads st) = b2n (bal_w (sh st)))%nat /\
  (bal_mid (sh st) = true -> (1 <= tot (at_pc 3) (threads st))%nat) /\
  Forall mid_free (threads st).

Lemma Forall_upd_nth {A} (P : A -> Prop) : forall l i x, Forall P l -> P x -> Forall P (upd_nth l i x).
Proof.
  induction l as [|y l IH]; intros [|i] x H Hx; simpl; auto; inversion H; subst; constructor; auto.
Qed.

Lemma bal_inv_step st j : bal_inv st -> bal_inv (step st j).
Proof.
  intros (Hs & Hm & Hf). unfold step.
  destruct (nth_error (threads st) j) as [t|] eqn:Hj; [|unfold bal_inv; auto].
  pose proof (fun t' => tot_upd (at_pc 2) _ _ _ t' Hj) as U2.
  pose proof (fun t' => tot_upd (at_pc 3) _ _ _ t' Hj) as U3.
  pose proof (fun t' => tot_upd (at_pc 4) _ _ _ t' Hj) as U4.
  assert (Hft : mid_free t). { rewrite Forall_forall in Hf. apply Hf. eapply nth_error_In; eauto. }
  destruct t as [r|g|q]; simpl.
  - (* reload threads never touch the balancer-table lock *)
    destruct (step_reload (sh st) r) as [s' r'] eqn:E.
    assert (bal_w s' = bal_w (sh st) /\ bal_mid s' = bal_mid (sh st)) as [E1 E2].
    { unfold step_reload in E. destruct (rl_pc r) as [|[|[|[|[|[|[|n]]]]]]];
        try destruct (rl_ok r); try destruct (conf_w (sh st)); try destruct (bal_w (sh st)) eqn:Ew;
        inversion E; subst; simpl; auto. }
    unfold bal_inv; simpl. specialize (U2 (TReload r')). specialize (U3 (TReload r')). specialize (U4 (TReload r')).
    simpl in *. rewrite E1, E2. repeat split; try lia.
    + intros K. specialize (Hm K). lia.
    + apply Forall_upd_nth; simpl; auto.
  - destruct (step_greload (sh st) g) as [s' g'] eqn:E.
    specialize (U2 (TGslb g')). specialize (U3 (TGslb g')). specialize (U4 (TGslb g')).
    unfold bal_inv; simpl.
    assert (Ff : Forall mid_free (upd_nth (threads st) j (TGslb g'))) by (apply Forall_upd_nth; simpl; auto).
    unfold step_greload in E.
    destruct (gl_pc g) as [|[|[|[|[|[|[|[|n]]]]]]]] eqn:Epc; simpl in *; rewrite ?Epc in *; simpl in *;
      try destruct (bal_w (sh st)) eqn:Ew; try destruct (conf_w (sh st)) eqn:Ec;
      inversion E; subst; simpl in *; rewrite ?Epc, ?Ew in *; simpl in *;
      try solve [repeat split; auto; try lia; try discriminate;
                 try (let K := fresh in intros K; specialize (Hm K); lia)].
  - (* a request only reads; its balancer lookup runs under RLock, i.e. only while no writer holds the lock *)
    specialize (U2 (TReq (step_request (sh st) q))). specialize (U3 (TReq (step_request (sh st) q))).
    specialize (U4 (TReq (step_request (sh st) q))).
    unfold bal_inv; simpl in *. repeat split; try lia.
    + intros K. specialize (Hm K). lia.
    + apply Forall_upd_nth; auto. simpl. unfold step_request.
      destruct (rq_pc q) as [|[|[|[|[|[|n]]]]]]; simpl; auto.
      * destruct (conf_w (sh st)); simpl; auto.
      * destruct (bal_w (sh st)) eqn:Ew; simpl; auto.
        destruct (bal_mid (sh st)) eqn:Em; auto. specialize (Hm eq_refl). simpl in Hs. lia.
Qed.

Lemma bal_inv_exec sched : forall st, bal_inv st -> bal_inv (exec st sched).
Proof.
  induction sched as [|j r IH]; intros st H; [exact H|].
  unfold exec in *. simpl. apply IH. apply bal_inv_step. exact H.
Qed.

Lemma tot_fresh k ts : (1 <= k)%nat -> Forall fresh_thread ts -> tot (at_pc k) ts = 0%nat.
Proof.
  intros Hk H. induction H as [|t ts Ht _ IH]; simpl; auto. rewrite IH.
  destruct t as [r|g|q]; simpl in *; auto. rewrite Ht. destruct k; [lia|reflexivity].
Qed.

Lemma bal_inv_init v g ts : Forall fresh_thread ts -> bal_inv (mkState (init_shared v g) ts).
Proof.
  intros H. unfold bal_inv; simpl. rewrite !tot_fresh by (auto; lia). repeat split; auto; try discriminate.
  rewrite Forall_forall in *. intros t Ht. specialize (H t Ht). destruct t; simpl in *; auto. subst. reflexivity.
Qed.

(* BalTableReload vs Lookup: in every interleaving, no request ever looks its cluster up in the half-built table that
   exists between "delete old entries" and "t.balTable = bmNew" inside BalTableReload. *)
Theorem baltable_lock :
  forall (v g : Z) (ts : list thread) (sched : list nat),
    Forall fresh_thread ts ->
    forall i q, nth_error (threads (exec (mkState (init_shared v g) ts) sched)) i = Some (TReq q) -> rq_mid q = false.
Proof.
  intros v g ts sched Hf i q Hq.
  destruct (bal_inv_exec sched _ (bal_inv_init v g ts Hf)) as (_ & _ & H).
  rewrite Forall_forall in H. apply (H (TReq q)). eapply nth_error_In; eauto.
Qed.

(* and the protocol matters: without the lock a lookup can hit the half-built table *)
Lemma baltable_example :
  let st := exec (mkState (init_shared 1 1) [new_greload 2; new_request]) [0;0;0;1;1;1;1;1;0;0;1]%nat in
  nth_error (threads st) 1 = Some (TReq (mkRequest 5 (Some 1) [1;1;1] (Some 2) false)).
Proof. reflexivity. Qed.

(* ---------------------------------------------------------------- the model satisfies prop_C15 (sequential ops) *)
Definition Q (v g tr gb ss : Z) : shared := mkShared v false g false false tr gb ss.

Lemma nth_error_last {A} (ts : list A) t : nth_error (ts ++ [t]) (length ts) = Some t.
Proof. induction ts; simpl; auto. Qed.
Lemma upd_nth_last {A} (ts : list A) t t' : upd_nth (ts ++ [t]) (length ts) t' = ts ++ [t'].
Proof. induction ts; simpl; auto. rewrite IHts. reflexivity. Qed.

Lemma step_last s ts t :
  step (mkState s (ts ++ [t])) (length ts) = mkState (fst (step_thread s t)) (ts ++ [snd (step_thread s t)]).
Proof.
  unfold step. simpl. rewrite nth_error_last. destruct (step_thread s t) as [s' t']. simpl. rewrite upd_nth_last. reflexivity.
Qed.

Lemma reload_run_ok ts v0 g tr gb ss v :
  run_thread 10 (mkState (Q v0 g tr gb ss) (ts ++ [new_reload v true])) (length ts)
  = mkState (Q v g v v v) (ts ++ [TReload (mkReload v true 7)]).
Proof. unfold run_thread, new_reload, Q. repeat (rewrite step_last; simpl). reflexivity. Qed.

Lemma reload_run_bad ts v0 g tr gb ss v :
  run_thread 10 (mkState (Q v0 g tr gb ss) (ts ++ [new_reload v false])) (length ts)
  = mkState (Q v0 g tr gb ss) (ts ++ [TReload (mkReload v false 7)]).
Proof. unfold run_thread, new_reload, Q. repeat (rewrite step_last; simpl). reflexivity. Qed.

Lemma greload_run ts v0 g tr gb ss g' :
  run_thread 10 (mkState (Q v0 g tr gb ss) (ts ++ [new_greload g'])) (length ts)
  = mkState (Q v0 g' tr v0 v0) (ts ++ [TGslb (mkGReload g' 8 v0)]).
Proof. unfold run_thread, new_greload, Q. repeat (rewrite step_last; simpl). reflexivity. Qed.

(* requests: the pure iteration behind run_req_to *)
Fixpoint iter_req (fuel : nat) (s : shared) (q : request) (target : nat) {struct fuel} : request :=
  match fuel with
  | O => q
  | S f => if (target <=? rq_pc q)%nat then q else iter_req f s (step_request s q) target
  end.

Lemma upd_nth_same {A} : forall (ts : list A) i t, nth_error ts i = Some t -> upd_nth ts i t = ts.
Proof. induction ts as [|y ts IH]; intros [|i] t H; simpl in *; try discriminate; [inversion H; auto|rewrite IH; auto]. Qed.
Lemma upd_nth_twice {A} : forall (ts : list A) i a b, upd_nth (upd_nth ts i a) i b = upd_nth ts i b.
Proof. induction ts as [|y ts IH]; intros [|i] a b; simpl; auto. rewrite IH. reflexivity. Qed.

Lemma step_req_quiet s ts i q :
  nth_error ts i = Some (TReq q) -> step (mkState s ts) i = mkState s (upd_nth ts i (TReq (step_request s q))).
Proof. intros H. unfold step. simpl. rewrite H. simpl. reflexivity. Qed.

Lemma run_req_to_spec : forall fuel s ts i q target,
  nth_error ts i = Some (TReq q) ->
  run_req_to fuel (mkState s ts) i target = mkState s (upd_nth ts i (TReq (iter_req fuel s q target))).
Proof.
  induction fuel as [|f IH]; intros s ts i q target H; simpl.
  - rewrite upd_nth_same; auto.
  - unfold req_at. simpl. rewrite H. destruct (target <=? rq_pc q)%nat.
    + rewrite upd_nth_same; auto.
    + rewrite (step_req_quiet s ts i q H).
      rewrite (IH s _ i (step_request s q) target) by (eapply nth_error_upd_nth_eq; eauto).
      rewrite upd_nth_twice. reflexivity.
Qed.

(* canonical form of a request that has snapshot e, is at program counter pc and (if it has looked the balancer up) holds go *)
Definition creq (e : Z) (go : option Z) (pc : nat) : request :=
  mkRequest pc (Some e) (repeat e (Nat.min (Nat.pred pc) 3)) go false.

Definition hp_ok (hp : Z) : Prop := hp = 0 \/ hp = 1 \/ hp = 2 \/ hp = 3 \/ hp = 4.

Lemma iter_fresh v g tr gb ss hp : hp_ok hp ->
  iter_req 8 (Q v g tr gb ss) (mkRequest 0 None [] None false) (target_pc hp)
  = creq v (if (hp =? 0) || (hp =? 4) then Some g else None) (target_pc hp).
Proof. intros [->|[->|[->|[->| ->]]]]; reflexivity. Qed.

Lemma iter_cont v g tr gb ss e go hp0 hp : (hp0 = 1 \/ hp0 = 2 \/ hp0 = 3 \/ hp0 = 4) -> hp_ok hp -> (hp = 0 \/ hp0 < hp) ->
  iter_req 8 (Q v g tr gb ss) (creq e go (target_pc hp0)) (target_pc hp)
  = creq e (if (hp0 <? 4) && ((hp =? 0) || (hp =? 4)) then Some g else go) (target_pc hp).
Proof.
  intros [->|[->|[->| ->]]] [->|[->|[->|[->| ->]]]] [H|H]; try lia; try discriminate; reflexivity.
Qed.

Lemma view_check e go hp curg gprev :
  hp_ok hp ->
  (go = if (hp =? 0) || (hp =? 4) then Some (if gprev =? 0 then curg else gprev) else None) ->
  (hp = 0 \/ hp = 4 -> (if gprev =? 0 then curg else gprev) <> 0) ->
  check_view e curg gprev hp (view_of (creq e go (target_pc hp)))
  = Some (if (hp =? 0) || (hp =? 4) then (if gprev =? 0 then curg else gprev) else 0).
Proof.
  intros Hhp -> Hnz. unfold check_view, view_of, creq.
  destruct Hhp as [->|[->|[->|[->| ->]]]]; simpl; rewrite ?Z.eqb_refl; simpl; try reflexivity.
  - destruct (gprev =? 0) eqn:E; simpl; rewrite ?Z.eqb_refl; reflexivity.
  - destruct (gprev =? 0) eqn:E; simpl; rewrite ?Z.eqb_refl; reflexivity.
Qed.
Definition op_wf (o : hop) : Prop :=
  match o with
  | HGslb g => g <> 0
  | HStart _ hp | HCont _ hp => hp_ok hp
  | HBurst _ _ _ _ _ => False
  | _ => True
  end.

Definition slot_ok (h : hstate) (p : pstate) (rid : nat) : Prop :=
  match h_slot h rid, p_exp p rid with
  | None, None => True
  | Some i, Some e =>
    let hp := h_hp h rid in
    (hp = 1 \/ hp = 2 \/ hp = 3 \/ hp = 4) /\ p_php p rid = hp /\
    (hp = 4 -> p_g p rid <> 0) /\ (hp <> 4 -> p_g p rid = 0) /\
    nth_error (threads (h_st h)) i = Some (TReq (creq e (if hp =? 4 then Some (p_g p rid) else None) (target_pc hp)))
  | _, _ => False
  end.

Definition R (h : hstate) (p : pstate) : Prop :=
  (exists tr gb ss, sh (h_st h) = Q (p_cur p) (p_gen p) tr gb ss) /\
  p_gen p <> 0 /\
  (forall rid, slot_ok h p rid) /\
  (forall r1 r2 i, h_slot h r1 = Some i -> h_slot h r2 = Some i -> r1 = r2).

Lemma R_init : R h_init p_init.
Proof.
  unfold R, h_init, p_init, slot_ok; simpl. repeat split; try discriminate.
  exists 1, 1, 1. reflexivity.
Qed.

Lemma nth_error_app_old {A} (ts : list A) x i t : nth_error ts i = Some t -> nth_error (ts ++ [x]) i = Some t.
Proof. intros H. rewrite nth_error_app1; auto. apply nth_error_Some. congruence. Qed.

(* appending a finished thread and changing the shared state does not disturb the held requests *)
Lemma slots_append s ts slot hpf x s' p p' :
  p_exp p' = p_exp p -> p_g p' = p_g p -> p_php p' = p_php p ->
  (forall rid, slot_ok (mkH (mkState s ts) slot hpf) p rid) ->
  (forall rid, slot_ok (mkH (mkState s' (ts ++ [x])) slot hpf) p' rid).
Proof.
  intros E1 E2 E3 H rid. specialize (H rid). unfold slot_ok in *. simpl in *. rewrite E1, E2, E3.
  destruct (slot rid) as [i|]; destruct (p_exp p rid) as [e|]; auto.
  destruct H as (A & B & C & D & E). repeat split; auto. apply nth_error_app_old. exact E.
Qed.

Lemma exec_op_sound h p o hv' :
  R h p -> op_wf o -> exec_op h o = Some hv' ->
  exists p', prop_op p o (snd hv') = Some p' /\ R (fst hv') p'.
Proof.
  intros (HQ & Hg & Hs & Hd) Hwf Hex.
  destruct h as [[s ts] slot hpf]. simpl in HQ. destruct HQ as (tr & gb & ss & ->). simpl in Hd.
  destruct o as [v|v|g|rid hp|rid hp| |g|a b c d e]; simpl in Hwf; try contradiction.
  - (* reload *)
    cbn [exec_op add_thread h_st h_slot h_hp threads sh] in Hex. rewrite reload_run_ok in Hex. inversion Hex; subst hv'; clear Hex. simpl.
    eexists. split; [rewrite Z.eqb_refl; reflexivity|]. unfold R; simpl. repeat split; auto.
    + exists v, v, v. reflexivity.
    + apply (slots_append (Q (p_cur p) (p_gen p) tr gb ss) ts slot hpf _ _ p _); auto.
  - (* failing reload *)
    cbn [exec_op add_thread h_st h_slot h_hp threads sh] in Hex. rewrite reload_run_bad in Hex. inversion Hex; subst hv'; clear Hex. simpl.
    eexists. split; [rewrite Z.eqb_refl; reflexivity|]. unfold R; simpl. repeat split; auto.
    + exists tr, gb, ss. reflexivity.
    + apply (slots_append (Q (p_cur p) (p_gen p) tr gb ss) ts slot hpf _ _ p _); auto.
  - (* gslb reload *)
    cbn [exec_op add_thread h_st h_slot h_hp threads sh] in Hex. rewrite greload_run in Hex. inversion Hex; subst hv'; clear Hex. simpl.
    eexists. split; [reflexivity|]. unfold R; simpl. repeat split; auto.
    + exists tr, (p_cur p), (p_cur p). reflexivity.
    + apply (slots_append (Q (p_cur p) (p_gen p) tr gb ss) ts slot hpf _ _ p _); auto.
  - (* start *)
    cbn [exec_op add_thread h_st h_slot h_hp threads sh] in Hex. pose proof (Hs rid) as Hr. unfold slot_ok in Hr. simpl in Hr.
    destruct (slot rid) as [i0|] eqn:Es; [discriminate|].
    destruct (p_exp p rid) as [e0|] eqn:Ee; [contradiction|].
    unfold advance in Hex. cbn [h_st h_slot h_hp] in Hex.
    rewrite (run_req_to_spec 8 _ (ts ++ [new_request]) (length ts) (mkRequest 0 None [] None false)) in Hex
      by apply nth_error_last.
    rewrite upd_nth_last, iter_fresh in Hex by exact Hwf.
    unfold req_at in Hex. simpl in Hex. rewrite nth_error_last in Hex. simpl in Hex.
    rewrite Nat.eqb_refl in Hex. cbn [negb] in Hex. inversion Hex; subst hv'; clear Hex. cbn [fst snd prop_op].
    eexists. split.
    { rewrite Ee. rewrite (view_check (p_cur p) (if (hp =? 0) || (hp =? 4) then Some (p_gen p) else None) hp (p_gen p) 0 Hwf); [reflexivity | reflexivity | intros _; exact Hg]. }
    unfold R; simpl. repeat split; auto.
    + exists tr, gb, ss. reflexivity.
    + intros r. unfold slot_ok; cbn [h_slot h_hp h_st threads p_exp p_g p_php].
      pose proof (Hs r) as Hr'; unfold slot_ok in Hr'; cbn [h_slot h_hp h_st threads] in Hr'.
      destruct (hp =? 0) eqn:E0; unfold upd; cbn beta; destruct (Nat.eqb r rid) eqn:Er.
      * exact I.
      * destruct (slot r) as [i|]; destruct (p_exp p r) as [e|]; auto.
        destruct Hr' as (A & B & C & D & E); repeat split; auto; apply nth_error_app_old; exact E.
      * assert (hp = 1 \/ hp = 2 \/ hp = 3 \/ hp = 4) as H14.
        { destruct Hwf as [->|H]; [discriminate|exact H]. }
        repeat split; auto.
        -- intros ->. simpl. exact Hg.
        -- intros Hn. destruct H14 as [->|[->|[->| ->]]]; simpl; auto. congruence.
        -- rewrite nth_error_last. destruct H14 as [->|[->|[->| ->]]]; reflexivity.
      * destruct (slot r) as [i|]; destruct (p_exp p r) as [e|]; auto.
        destruct Hr' as (A & B & C & D & E); repeat split; auto; apply nth_error_app_old; exact E.
    + intros r1 r2 i. cbn [h_slot]. destruct (hp =? 0); unfold upd; cbn beta.
      * destruct (Nat.eqb r1 rid) eqn:E1; [discriminate|]. destruct (Nat.eqb r2 rid) eqn:E2; [discriminate|]. apply Hd.
      * destruct (Nat.eqb r1 rid) eqn:E1; destruct (Nat.eqb r2 rid) eqn:E2; intros H1 H2.
        -- apply Nat.eqb_eq in E1, E2. congruence.
        -- exfalso. inversion H1; subst i. pose proof (Hs r2) as Hr'. unfold slot_ok in Hr'. simpl in Hr'.
           rewrite H2 in Hr'. destruct (p_exp p r2); [|contradiction]. destruct Hr' as (_ & _ & _ & _ & E).
           apply nth_error_Some_lt in E || (assert (nth_error ts (length ts) <> None) as K by congruence;
                                            apply nth_error_Some in K; lia).
        -- exfalso. inversion H2; subst i. pose proof (Hs r1) as Hr'. unfold slot_ok in Hr'. simpl in Hr'.
           rewrite H1 in Hr'. destruct (p_exp p r1); [|contradiction]. destruct Hr' as (_ & _ & _ & _ & E).
           assert (nth_error ts (length ts) <> None) as K by congruence. apply nth_error_Some in K. lia.
        -- exact (Hd r1 r2 i H1 H2).
  - (* continue *)
    cbn [exec_op add_thread h_st h_slot h_hp threads sh] in Hex. pose proof (Hs rid) as Hr. unfold slot_ok in Hr. simpl in Hr.
    destruct (slot rid) as [i|] eqn:Es; [|discriminate].
    destruct (p_exp p rid) as [e|] eqn:Ee; [|contradiction].
    destruct Hr as (H14 & Hphp & Hg4 & Hgn & Hnth).
    destruct ((hp =? 0) || (hpf rid <? hp)) eqn:Ecnd; [|discriminate].
    unfold advance in Hex. cbn [h_st h_slot h_hp] in Hex.
    rewrite (run_req_to_spec 8 _ ts i _ (target_pc hp) Hnth) in Hex.
    assert (Hlt : hp = 0 \/ hpf rid < hp).
    { apply orb_true_iff in Ecnd. destruct Ecnd as [E|E]; [left; apply Z.eqb_eq; exact E|right; apply Z.ltb_lt; exact E]. }
    rewrite (iter_cont _ _ _ _ _ e _ (hpf rid) hp H14 Hwf Hlt) in Hex.
    unfold req_at in Hex. simpl in Hex. rewrite (nth_error_upd_nth_eq ts i _ _ Hnth) in Hex. simpl in Hex.
    rewrite Nat.eqb_refl in Hex. cbn [negb] in Hex. inversion Hex; subst hv'; clear Hex. cbn [fst snd prop_op].
    set (gprev := p_g p rid) in *.
    assert (Hgo : (if (hpf rid <? 4) && ((hp =? 0) || (hp =? 4)) then Some (p_gen p)
                   else if hpf rid =? 4 then Some gprev else None)
                  = (if (hp =? 0) || (hp =? 4) then Some (if gprev =? 0 then p_gen p else gprev) else None)).
    { destruct H14 as [E|[E|[E|E]]]; rewrite E in *; simpl;
        try (rewrite (Hgn ltac:(lia)); simpl; destruct ((hp =? 0) || (hp =? 4)); reflexivity).
      assert (hp = 0) as -> by (unfold hp_ok in Hwf; lia). simpl. specialize (Hg4 eq_refl). apply Z.eqb_neq in Hg4. rewrite Hg4. reflexivity. }
    rewrite Hgo.
    eexists. split.
    { rewrite Ee, Hphp, Ecnd. fold gprev. rewrite (view_check e _ hp (p_gen p) gprev Hwf eq_refl); [reflexivity|].
      intros _. destruct (gprev =? 0) eqn:E; [exact Hg|apply Z.eqb_neq; exact E]. }
    unfold R; simpl. repeat split; auto.
    + exists tr, gb, ss. reflexivity.
    + intros r. unfold slot_ok; cbn [h_slot h_hp h_st threads p_exp p_g p_php].
      pose proof (Hs r) as Hr'; unfold slot_ok in Hr'; cbn [h_slot h_hp h_st threads] in Hr'.
      assert (Hne : forall i', (r =? rid)%nat = false -> slot r = Some i' -> i' <> i).
      { intros i' Er Hi' ->. assert (r = rid) by (eapply Hd; eauto). subst r. rewrite Nat.eqb_refl in Er. discriminate. }
      destruct (hp =? 0) eqn:E0; unfold upd; cbn beta; destruct (Nat.eqb r rid) eqn:Er.
      * exact I.
      * destruct (slot r) as [i'|] eqn:Er'; destruct (p_exp p r) as [e'|]; auto.
        destruct Hr' as (A & B & C & D & E); repeat split; auto.
        rewrite nth_error_upd_nth_neq; [exact E|]. intros K. apply (Hne i' eq_refl eq_refl). auto.
      * assert (hp = 1 \/ hp = 2 \/ hp = 3 \/ hp = 4) as H14'.
        { destruct Hwf as [->|H]; [discriminate|exact H]. }
        assert (Hlt' : hpf rid < hp) by (destruct Hlt as [->|]; [discriminate|auto]).
        assert (Hg0 : gprev = 0) by (apply Hgn; lia).
        repeat split; auto.
        -- intros ->. simpl. rewrite Hg0. simpl. exact Hg.
        -- intros Hn. destruct H14' as [->|[->|[->| ->]]]; simpl; auto. congruence.
        -- rewrite (nth_error_upd_nth_eq ts i _ _ Hnth). rewrite Hg0.
           destruct H14' as [->|[->|[->| ->]]]; reflexivity.
      * destruct (slot r) as [i'|] eqn:Er'; destruct (p_exp p r) as [e'|]; auto.
        destruct Hr' as (A & B & C & D & E); repeat split; auto.
        rewrite nth_error_upd_nth_neq; [exact E|]. intros K. apply (Hne i' eq_refl eq_refl). auto.
    + intros r1 r2 i'. cbn [h_slot]. destruct (hp =? 0); unfold upd; cbn beta.
      * destruct (Nat.eqb r1 rid) eqn:E1; [discriminate|]. destruct (Nat.eqb r2 rid) eqn:E2; [discriminate|]. apply Hd.
      * destruct (Nat.eqb r1 rid) eqn:E1; destruct (Nat.eqb r2 rid) eqn:E2; intros H1 H2.
        -- apply Nat.eqb_eq in E1, E2. congruence.
        -- apply Nat.eqb_eq in E1. subst r1. inversion H1; subst i'. exact (Hd rid r2 i Es H2).
        -- apply Nat.eqb_eq in E2. subst r2. inversion H2; subst i'. exact (Hd r1 rid i H1 Es).
        -- exact (Hd r1 r2 i' H1 H2).
  - (* one more request on the keep-alive connection: a fresh request thread run to completion *)
    cbn [exec_op add_thread h_st h_slot h_hp threads sh] in Hex.
    rewrite (run_req_to_spec 8 _ (ts ++ [new_request]) (length ts) (mkRequest 0 None [] None false)) in Hex
      by apply nth_error_last.
    rewrite upd_nth_last in Hex.
    replace (iter_req 8 (Q (p_cur p) (p_gen p) tr gb ss) (mkRequest 0 None [] None false) 6)
      with (creq (p_cur p) (Some (p_gen p)) 6) in Hex by reflexivity.
    unfold req_at in Hex. simpl in Hex. rewrite nth_error_last in Hex. simpl in Hex.
    inversion Hex; subst hv'; clear Hex. cbn [fst snd prop_op].
    eexists. split.
    { pose proof (view_check (p_cur p) (Some (p_gen p)) 0 (p_gen p) 0 (or_introl eq_refl) eq_refl (fun _ => Hg)) as V.
      change (target_pc 0) with 6%nat in V. simpl in V. unfold creq in *. simpl in *. rewrite V. reflexivity. }
    unfold R; simpl. repeat split; auto.
    + exists tr, gb, ss. reflexivity.
    + apply (slots_append (Q (p_cur p) (p_gen p) tr gb ss) ts slot hpf _ _ p _); auto.
  - (* failing gslb reload: a finished thread is appended, nothing else changes *)
    cbn [exec_op add_thread h_st h_slot h_hp threads sh] in Hex.
    inversion Hex; subst hv'; clear Hex. cbn [fst snd prop_op].
    eexists. split; [reflexivity|]. unfold R; simpl. repeat split; auto.
    + exists tr, gb, ss. reflexivity.
    + apply (slots_append (Q (p_cur p) (p_gen p) tr gb ss) ts slot hpf _ _ p _); auto.
Qed.

Definition is_burst (o : hop) : bool := match o with HBurst _ _ _ _ _ => true | _ => false end.

Lemma decode_op_wf v o : decode_op v = Some o -> is_burst o = false -> op_wf o.
Proof.
  intros H Hb. unfold decode_op in H.
  repeat match type of H with
         | match ?x with _ => _ end = _ => destruct x eqn:?; try discriminate
         end;
    unfold in_range, NV, NG in *;
    repeat match type of H with
           | (if ?c then _ else _) = _ => destruct c eqn:?; try discriminate
           end;
    inversion H; subst; simpl in *; try discriminate; auto;
    repeat match goal with
           | H : _ && _ = true |- _ => apply andb_true_iff in H; destruct H
           | H : (_ <=? _) = true |- _ => apply Z.leb_le in H
           end; unfold hp_ok; lia.
Qed.

Lemma all_some_Forall {A B} (f : A -> option B) (P : B -> Prop) :
  (forall a b, f a = Some b -> P b) -> forall l r, all_some (map f l) = Some r -> Forall P r.
Proof.
  intros Hf. induction l as [|a l IH]; intros r H; simpl in H.
  - inversion H. constructor.
  - destruct (f a) eqn:E; [|discriminate]. destruct (all_some (map f l)) eqn:E2; [|discriminate].
    inversion H; subst. constructor; eauto.
Qed.

Lemma exec_ops_sound : forall ops h p l,
  R h p -> Forall op_wf ops -> exec_ops h ops = Some l -> prop_ops p ops l = true.
Proof.
  induction ops as [|o r IH]; intros h p l HR Hwf Hex; simpl in Hex.
  - inversion Hex. reflexivity.
  - inversion Hwf as [|? ? Ho Hr]; subst.
    destruct (exec_op h o) as [[h' v]|] eqn:E; [|discriminate].
    destruct (exec_ops h' r) as [l'|] eqn:E2; [|discriminate].
    inversion Hex; subst l. simpl.
    destruct (exec_op_sound h p o (h', v) HR Ho E) as [p' [Hp HR']]. simpl in Hp, HR'.
    rewrite Hp. eapply IH; eauto.
Qed.

(* The model satisfies the property predicate on every input without a concurrent-burst op: whatever sequence of
   reloads (good or failing), gslb reloads and request starts / continuations through the hold points is executed, every
   view the model produces shows the version that was installed when that request started. *)
Theorem prop_C15_of_model_partial : forall i ops,
  decode_C15 i = Some ops -> forallb (fun o => negb (is_burst o)) ops = true ->
  prop_C15 i (run_C15 i) = true.
Proof.
  intros i ops Hd Hnb.
  assert (Ht : SnapshotTlsWire.decode_tls i = None).
  { unfold SnapshotTlsWire.decode_tls. destruct i as [| |l]; auto. destruct l as [|a l]; auto.
    destruct a as [z| |]; auto. destruct z as [|p|]; auto.
    do 7 (destruct p as [p|p|]; auto). destruct l as [|b l]; auto. destruct b as [| |bl]; auto. destruct l; auto.
    (* the input is [100 [...]]: not a list of ops *)
    exfalso. unfold decode_C15 in Hd. destruct (length [VZ 100; VL bl] <=? 14)%nat; discriminate. }
  unfold prop_C15, run_C15. rewrite Ht, Hd.
  destruct (exec_ops h_init ops) as [l|] eqn:E.
  - rewrite (exec_ops_sound ops h_init p_init l R_init); auto.
    unfold decode_C15 in Hd. destruct i as [| |vs]; try discriminate.
    destruct (length vs <=? 14)%nat; [|discriminate].
    rewrite forallb_forall in Hnb.
    assert (Forall (fun o => In o ops -> op_wf o) ops) as K.
    { eapply (all_some_Forall decode_op (fun o => In o ops -> op_wf o)); [|exact Hd].
      intros a b Hab Hin. eapply decode_op_wf; eauto. specialize (Hnb b Hin). destruct (is_burst b); auto; discriminate. }
    rewrite Forall_forall in *. intros o Ho. apply K; auto.
  - unfold VErr. simpl. rewrite orb_true_r. reflexivity.
Qed.

Lemma prop_example :
  let i := VL [VL [VZ 3; VZ 0; VZ 1]; VL [VZ 1; VZ 2]; VL [VZ 4; VZ 0; VZ 2]; VL [VZ 6; VZ 3]; VL [VZ 2; VZ 2]; VL [VZ 4; VZ 0; VZ 0]] in
  (exists ops, decode_C15 i = Some ops /\ forallb (fun o => negb (is_burst o)) ops = true) /\
  run_C15 i = VL [VL [VZ 1; VZ 0; VZ 0; VZ 0; VZ 0; VZ 0; VZ 0]; VL [VZ 0; VZ 2]; VL [VZ 1; VZ 1; VZ 0; VZ 0; VZ 0; VZ 0; VZ 0];
                  VL [VZ 1; VZ 2]; VL [VZ 0]; VL [VZ 1; VZ 1; VZ 1; VZ 1; VZ 1; VZ 2; VZ 200]].
Proof. split; [eexists; split; [vm_compute; reflexivity|reflexivity]|vm_compute; reflexivity]. Qed.

(* ---------------------------------------------------------------- the follow-up steps of a reload *)
(* A reload that runs alone from a quiet state leaves transports, GslbBasic and slow-start parameters at its version. *)
Lemma reload_converges ts v0 g tr gb ss v :
  sh (run_thread 10 (mkState (Q v0 g tr gb ss) (ts ++ [new_reload v true])) (length ts)) = Q v g v v v.
Proof. rewrite reload_run_ok. reflexivity. Qed.

(* Two OVERLAPPING reloads can leave the balancers with the GslbBasic / slow-start parameters of the OLDER configuration
   although srv.ServerConf is the newer one (each reload pushes its own newServerConf.ClusterTable, in its own time):
   all threads have finished, conf = 3 but transports = gslb_basic = slow_start = 2.  This does not contradict C15_single_snapshot - route lookups go through the request's snapshot -
   it concerns the balancer-level parameters, which are shared state outside the snapshot. *)
Lemma overlapping_reloads_stale :
  exists sched,
    let st := exec (mkState (init_shared 1 1) [new_reload 2 true; new_reload 3 true]) sched in
    threads st = [TReload (mkReload 2 true 7); TReload (mkReload 3 true 7)] /\
    conf (sh st) = 3 /\ transports (sh st) = 2 /\ gslb_basic (sh st) = 2 /\ slow_start (sh st) = 2.
Proof. exists [0;0;0;0;1;1;1;1;1;1;1;0;0;0]%nat. vm_compute. repeat split; reflexivity. Qed.

(* ---------------------------------------------------------------- only completely loaded configurations are ever seen *)
Definition installed (v0 : Z) (ts : list thread) (x : Z) : Prop :=
  x = v0 \/ exists i r, nth_error ts i = Some (TReload r) /\ rl_ver r = x /\ rl_ok r = true.

Definition inst_inv (v0 : Z) (st : state) : Prop :=
  installed v0 (threads st) (conf (sh st)) /\
  (forall i r, nth_error (threads st) i = Some (TReload r) -> (1 <= rl_pc r <= 6)%nat -> rl_ok r = true) /\
  (forall i q x, nth_error (threads st) i = Some (TReq q) -> rq_snap q = Some x -> installed v0 (threads st) x).

Lemma installed_step v0 st j x : installed v0 (threads st) x -> installed v0 (threads (step st j)) x.
Proof.
  intros [->|(i & r & Hn & Hv & Ho)]; [left; reflexivity|right].
  destruct (kind_reload_stable i [j] st r Hn) as (r' & Hn' & Hv' & Ho').
  exists i, r'. unfold exec in Hn'. simpl in Hn'. repeat split; congruence.
Qed.

Lemma step_reload_wf s r s' r' :
  step_reload s r = (s', r') -> ((1 <= rl_pc r <= 6)%nat -> rl_ok r = true) -> ((1 <= rl_pc r' <= 6)%nat -> rl_ok r' = true).
Proof.
  unfold step_reload. intros E H.
  destruct (rl_pc r) as [|[|[|[|[|[|[|n]]]]]]] eqn:Epc;
    try destruct (rl_ok r) eqn:Eok; try destruct (conf_w s); try destruct (bal_w s);
    inversion E; subst; simpl; intros; auto; try lia; try (apply H; lia); try (rewrite Epc; lia).
Qed.

Lemma step_reload_conf s r s' r' :
  step_reload s r = (s', r') -> conf s' = conf s \/ (rl_pc r = 2%nat /\ conf s' = rl_ver r).
Proof.
  unfold step_reload. intros E.
  destruct (rl_pc r) as [|[|[|[|[|[|[|n]]]]]]] eqn:Epc;
    try destruct (rl_ok r); try destruct (conf_w s); try destruct (bal_w s);
    inversion E; subst; simpl; auto.
Qed.

Lemma step_greload_conf s g s' g' : step_greload s g = (s', g') -> conf s' = conf s.
Proof.
  unfold step_greload. intros E.
  destruct (gl_pc g) as [|[|[|[|[|[|[|[|n]]]]]]]]; try destruct (conf_w s); try destruct (bal_w s);
    inversion E; subst; simpl; auto.
Qed.

Lemma inst_inv_step v0 st j : inst_inv v0 st -> inst_inv v0 (step st j).
Proof.
  intros (Hc & Hw & Hq).
  assert (Hconf : installed v0 (threads (step st j)) (conf (sh (step st j)))).
  { unfold step at 2. destruct (nth_error (threads st) j) as [t|] eqn:Hj; [|rewrite step_sh_other; auto].
    destruct t as [r|g|q]; simpl.
    - destruct (step_reload (sh st) r) as [s' r'] eqn:E. simpl.
      destruct (step_reload_conf _ _ _ _ E) as [Ec|[Epc Ec]]; rewrite Ec.
      + apply installed_step. exact Hc.
      + right. destruct (kind_reload_stable j [j] st r Hj) as (r2 & Hn2 & Hv2 & Ho2).
        unfold exec in Hn2. simpl in Hn2. exists j, r2. repeat split; auto.
        rewrite Ho2. eapply Hw; eauto. lia.
    - destruct (step_greload (sh st) g) as [s' g'] eqn:E. simpl.
      rewrite (step_greload_conf _ _ _ _ E). apply installed_step. exact Hc.
    - apply installed_step. exact Hc. }
  split; [exact Hconf|]. split.
  - intros i r' Hn Hpc.
    assert (exists t, nth_error (threads st) i = Some t) as [t Ht].
    { destruct (nth_error (threads st) i) eqn:E; eauto.
      assert (nth_error (threads (step st j)) i <> None) as K by congruence.
      apply nth_error_Some in K. rewrite step_length in K. apply nth_error_None in E. lia. }
    destruct (step_shape st j i t Ht) as (t' & Hn' & [->|(-> & -> & _)]); rewrite Hn' in Hn; inversion Hn; subst.
    + eapply Hw; eauto.
    + destruct t as [r|g|q]; simpl in *; try (destruct (step_greload (sh st) g)); try discriminate.
      destruct (step_reload (sh st) r) as [s' r2] eqn:E. simpl in *. inversion H0; subst.
      eapply step_reload_wf; eauto.
  - intros i q' x Hn Hs.
    assert (exists t, nth_error (threads st) i = Some t) as [t Ht].
    { destruct (nth_error (threads st) i) eqn:E; eauto.
      assert (nth_error (threads (step st j)) i <> None) as K by congruence.
      apply nth_error_Some in K. rewrite step_length in K. apply nth_error_None in E. lia. }
    destruct (step_shape st j i t Ht) as (t' & Hn' & [->|(-> & -> & _)]); rewrite Hn' in Hn; inversion Hn; subst.
    + apply installed_step. eapply Hq; eauto.
    + destruct t as [r|g|q]; simpl in *;
        try (destruct (step_reload (sh st) r)); try (destruct (step_greload (sh st) g)); try discriminate.
      inversion H0; subst. clear H0.
      unfold step_request in Hs.
      destruct (rq_pc q) as [|[|[|[|[|[|n]]]]]]; simpl in Hs;
        try (destruct (conf_w (sh st))); try (destruct (bal_w (sh st))); simpl in Hs;
        try (apply installed_step; eapply Hq; eauto; fail).
      all: inversion Hs; subst; apply installed_step; exact Hc.
Qed.

Lemma inst_inv_exec v0 sched : forall st, inst_inv v0 st -> inst_inv v0 (exec st sched).
Proof.
  induction sched as [|j r IH]; intros st H; [exact H|].
  unfold exec in *. simpl. apply IH. apply inst_inv_step. exact H.
Qed.

(* A request never holds a configuration whose load failed or has not completed: its snapshot is the initial
   configuration or the version of a reload thread whose LoadServerDataConf succeeded. *)
Theorem snapshot_installed :
  forall (v g : Z) (ts : list thread) (sched : list nat),
    Forall fresh_thread ts ->
    forall i q x, nth_error (threads (exec (mkState (init_shared v g) ts) sched)) i = Some (TReq q) ->
    rq_snap q = Some x ->
    x = v \/ exists k r, nth_error ts k = Some (TReload r) /\ rl_ver r = x /\ rl_ok r = true.
Proof.
  intros v g ts sched Hf i q x Hn Hs.
  assert (I0 : inst_inv v (mkState (init_shared v g) ts)).
  { unfold inst_inv; simpl. split; [left; reflexivity|]. split.
    - intros k r Hk Hpc. rewrite Forall_forall in Hf. pose proof (Hf _ (nth_error_In _ _ Hk)) as F. simpl in F. lia.
    - intros k q0 x0 Hk Hx. rewrite Forall_forall in Hf. pose proof (Hf _ (nth_error_In _ _ Hk)) as F. simpl in F.
      subst q0. discriminate. }
  destruct (inst_inv_exec v sched _ I0) as (_ & _ & H).
  destruct (H i q x Hn Hs) as [->|(k & r & Hk & Hv & Ho)]; [left; reflexivity|right].
  (* the reload thread at index k was there from the start, with the same version and load result *)
  assert (exists t, nth_error ts k = Some t) as [t Ht].
  { destruct (nth_error ts k) eqn:E; eauto.
    assert (nth_error (threads (exec (mkState (init_shared v g) ts) sched)) k <> None) as K by congruence.
    apply nth_error_Some in K. rewrite exec_length in K. apply nth_error_None in E. simpl in K. lia. }
  destruct t as [r0|g0|q0].
  - destruct (kind_reload_stable k sched (mkState (init_shared v g) ts) r0 Ht) as (r1 & H1 & H2 & H3).
    rewrite H1 in Hk. inversion Hk; subst r1. exists k, r0. repeat split; congruence.
  - destruct (kind_gslb_stable k sched (mkState (init_shared v g) ts) g0 Ht) as (g1 & H1). congruence.
  - assert (req_inv q0).
    { rewrite Forall_forall in Hf. apply fresh_req_inv. apply Hf. eapply nth_error_In; eauto. }
    destruct (exec_req_at (mkState (init_shared v g) ts) sched k q0 Ht H0) as (q1 & H1 & _). congruence.
Qed.
