(* C15: proofs about the reload / request transition system of model/Snapshot.v. *)
From Coq Require Import List ZArith Bool Lia.
From Bfe Require Import lib.Val model.Snapshot.
Import ListNotations.
Open Scope Z_scope.

(* ---------------------------------------------------------------- upd_nth *)
Lemma nth_error_upd_nth_eq {A} (l : list A) i x t :
  nth_error l i = Some t -> nth_error (upd_nth l i x) i = Some x.
Proof.
  revert i; induction l as [|y l IH]; intros [|i] H; simpl in *; try discriminate; auto.
Qed.

Lemma nth_error_upd_nth_neq {A} (l : list A) i j x :
  i <> j -> nth_error (upd_nth l i x) j = nth_error l j.
Proof.
  revert i j; induction l as [|y l IH]; intros [|i] [|j] H; simpl; auto; try congruence.
Qed.

Lemma length_upd_nth {A} (l : list A) i x : length (upd_nth l i x) = length l.
Proof. revert i; induction l as [|y l IH]; intros [|i]; simpl; auto. Qed.

(* ---------------------------------------------------------------- shape of one step *)
(* A step of thread j leaves every other thread untouched and replaces thread j by its successor. *)
Lemma step_shape st j i t :
  nth_error (threads st) i = Some t ->
  exists t', nth_error (threads (step st j)) i = Some t' /\
             (t' = t \/ (i = j /\ t' = snd (step_thread (sh st) t) /\ sh (step st j) = fst (step_thread (sh st) t))).
Proof.
  intros H. unfold step.
  destruct (nth_error (threads st) j) as [tj|] eqn:Hj.
  - destruct (step_thread (sh st) tj) as [s' t'] eqn:Hs. simpl.
    destruct (Nat.eq_dec j i) as [->|Hne].
    + rewrite H in Hj. inversion Hj; subst tj. exists t'. split.
      * eapply nth_error_upd_nth_eq; eauto.
      * right. rewrite Hs. auto.
    + exists t. split; [rewrite nth_error_upd_nth_neq; auto|auto].
  - exists t. auto.
Qed.

Lemma step_sh_other st j :
  nth_error (threads st) j = None -> step st j = st.
Proof. intros H. unfold step. rewrite H. reflexivity. Qed.

Lemma step_length st j : length (threads (step st j)) = length (threads st).
Proof.
  unfold step. destruct (nth_error (threads st) j); auto.
  destruct (step_thread (sh st) t). simpl. apply length_upd_nth.
Qed.

Lemma exec_app st a b : exec st (a ++ b) = exec (exec st a) b.
Proof. unfold exec. apply fold_left_app. Qed.

Lemma exec_length st sched : length (threads (exec st sched)) = length (threads st).
Proof.
  revert st; induction sched as [|j r IH]; intros st; simpl; auto.
  unfold exec in *. simpl. rewrite IH. apply step_length.
Qed.

(* ---------------------------------------------------------------- request invariant *)
Definition req_inv (q : request) : Prop :=
  match rq_snap q with
  | None => rq_pc q = 0%nat /\ rq_seen q = []
  | Some v => (1 <= rq_pc q)%nat /\ Forall (fun x => x = v) (rq_seen q)
  end.

Definition fresh_thread (t : thread) : Prop :=
  match t with
  | TReload r => rl_pc r = 0%nat
  | TGslb g => gl_pc g = 0%nat
  | TReq q => q = mkRequest 0 None [] None false
  end.

Lemma step_request_inv s q : req_inv q -> req_inv (step_request s q).
Proof.
  unfold req_inv, step_request. intros H.
  destruct (rq_pc q) as [|[|[|[|[|[|n]]]]]] eqn:Hpc; destruct (rq_snap q) as [v|] eqn:Hs;
    destruct H as [H1 H2]; try lia; simpl.
  - destruct (conf_w s); simpl; rewrite ?Hs, ?Hpc; simpl; auto. split; [lia|rewrite H2; constructor].
  - split; [lia|apply Forall_app; split; auto].
  - split; [lia|apply Forall_app; split; auto].
  - split; [lia|apply Forall_app; split; auto].
  - destruct (bal_w s); simpl; rewrite ?Hs, ?Hpc; simpl; split; auto; lia.
  - split; auto; lia.
  - rewrite ?Hs, ?Hpc. split; auto.
Qed.

(* what a request step may do to a request: its snapshot is kept once taken, lookups only append the snapshot version *)
Definition extends (q q' : request) : Prop :=
  forall v, rq_snap q = Some v ->
    rq_snap q' = Some v /\ exists more, rq_seen q' = rq_seen q ++ more /\ Forall (fun x => x = v) more.

Lemma extends_refl q : extends q q.
Proof. intros v H. split; auto. exists []. rewrite app_nil_r. auto. Qed.

Lemma extends_trans a b c : extends a b -> extends b c -> extends a c.
Proof.
  intros H1 H2 v Ha. destruct (H1 v Ha) as [Hb [m1 [E1 F1]]]. destruct (H2 v Hb) as [Hc [m2 [E2 F2]]].
  split; auto. exists (m1 ++ m2). rewrite E2, E1, app_assoc. split; auto. apply Forall_app; auto.
Qed.

Lemma step_request_extends s q : req_inv q -> extends q (step_request s q).
Proof.
  intros Hinv v Hs. unfold req_inv in Hinv. rewrite Hs in Hinv. destruct Hinv as [Hpc Hall].
  unfold step_request.
  destruct (rq_pc q) as [|[|[|[|[|[|n]]]]]] eqn:E; try lia; simpl;
    try (destruct (bal_w s)); simpl; rewrite ?Hs; (split; [reflexivity|]).
  all: try (exists []; rewrite app_nil_r; split; [reflexivity|constructor]).
  all: exists [v]; simpl; split; [reflexivity|repeat constructor].
Qed.

(* the kind of a thread never changes; a request thread is either untouched or stepped *)
Lemma step_req_at st j i q :
  nth_error (threads st) i = Some (TReq q) ->
  exists q', nth_error (threads (step st j)) i = Some (TReq q') /\ (q' = q \/ q' = step_request (sh st) q).
Proof.
  intros H. destruct (step_shape st j i _ H) as [t' [Hn [->|[_ [-> _]]]]].
  - exists q. auto.
  - simpl. exists (step_request (sh st) q). auto.
Qed.

Lemma exec_req_at st sched i q :
  nth_error (threads st) i = Some (TReq q) -> req_inv q ->
  exists q', nth_error (threads (exec st sched)) i = Some (TReq q') /\ req_inv q' /\ extends q q'.
Proof.
  revert st q; induction sched as [|j r IH]; intros st q H Hinv.
  - exists q. simpl. auto using extends_refl.
  - destruct (step_req_at st j i q H) as [q1 [H1 Hq1]].
    assert (req_inv q1 /\ extends q q1) as [I1 X1].
    { destruct Hq1 as [->| ->]; auto using extends_refl, step_request_inv, step_request_extends. }
    destruct (IH (step st j) q1 H1 I1) as [q' [Hn [Hi Hx]]].
    exists q'. unfold exec in *. simpl. split; auto. split; auto. eapply extends_trans; eauto.
Qed.

Lemma fresh_req_inv q : fresh_thread (TReq q) -> req_inv q.
Proof. simpl. intros ->. unfold req_inv. simpl. auto. Qed.

(* ---------------------------------------------------------------- headline: single snapshot *)
Lemma kind_reload_stable i : forall s st r1, nth_error (threads st) i = Some (TReload r1) ->
  exists r, nth_error (threads (exec st s)) i = Some (TReload r) /\ rl_ver r = rl_ver r1 /\ rl_ok r = rl_ok r1.
Proof.
  induction s as [|j s IH]; intros st r1 Hst; [eauto|].
  destruct (step_shape st j i _ Hst) as [t' [Hn [->|[_ [-> _]]]]].
  - unfold exec in *. simpl. eapply IH; eauto.
  - simpl in Hn. destruct (step_reload (sh st) r1) as [s' r'] eqn:E. simpl in Hn.
    assert (rl_ver r' = rl_ver r1 /\ rl_ok r' = rl_ok r1) as [E1 E2].
    { unfold step_reload in E. destruct (rl_pc r1) as [|[|[|[|[|[|[|n]]]]]]];
        try destruct (rl_ok r1) eqn:Eok; try destruct (conf_w (sh st)); try destruct (bal_w (sh st));
        inversion E; subst; simpl; auto. }
    destruct (IH (step st j) r' Hn) as [r [H1 [H2 H3]]].
    exists r. unfold exec in *. simpl. split; auto. split; congruence.
Qed.

Lemma kind_gslb_stable i : forall s st g1, nth_error (threads st) i = Some (TGslb g1) ->
  exists g2, nth_error (threads (exec st s)) i = Some (TGslb g2).
Proof.
  induction s as [|j s IH]; intros st g1 Hst; [eauto|].
  destruct (step_shape st j i _ Hst) as [t' [Hn [->|[_ [-> _]]]]].
  - unfold exec in *. simpl. eapply IH; eauto.
  - simpl in Hn. destruct (step_greload (sh st) g1) as [s' g'] eqn:E. simpl in Hn.
    unfold exec in *. simpl. eapply IH; eauto.
Qed.

(* every request thread of a reachable state satisfies the invariant *)
Lemma reachable_req_inv :
  forall (v g : Z) (ts : list thread) (sched : list nat),
    Forall fresh_thread ts ->
    forall i q, nth_error (threads (exec (mkState (init_shared v g) ts) sched)) i = Some (TReq q) -> req_inv q.
Proof.
  intros v g ts sched Hfresh i q Hq.
  set (st0 := mkState (init_shared v g) ts) in *.
  assert (Hlen : (i < length ts)%nat).
  { assert (nth_error (threads (exec st0 sched)) i <> None) as Hne by (rewrite Hq; discriminate).
    apply nth_error_Some in Hne. rewrite exec_length in Hne. exact Hne. }
  destruct (nth_error ts i) as [t0|] eqn:Ht0; [|apply nth_error_None in Ht0; lia].
  assert (Hf : fresh_thread t0). { rewrite Forall_forall in Hfresh. apply Hfresh. eapply nth_error_In; eauto. }
  destruct t0 as [r0|g0|q0].
  - exfalso. destruct (kind_reload_stable i sched st0 r0 Ht0) as [r [Hr _]]. rewrite Hr in Hq. discriminate.
  - exfalso. destruct (kind_gslb_stable i sched st0 g0 Ht0) as [g2 Hg2]. rewrite Hg2 in Hq. discriminate.
  - destruct (exec_req_at st0 sched i q0 Ht0 (fresh_req_inv q0 Hf)) as [q' [Hn [Hinv _]]].
    rewrite Hn in Hq. inversion Hq; subst q'. exact Hinv.
Qed.

Theorem single_snapshot :
  forall (v g : Z) (ts : list thread) (sched : list nat),
    Forall fresh_thread ts ->
    forall i q, nth_error (threads (exec (mkState (init_shared v g) ts) sched)) i = Some (TReq q) ->
    forall x, In x (rq_seen q) -> rq_snap q = Some x.
Proof.
  intros v g ts sched Hfresh i q Hq x Hx.
  pose proof (reachable_req_inv v g ts sched Hfresh i q Hq) as Hinv. unfold req_inv in Hinv.
  destruct (rq_snap q) as [w|].
  - destruct Hinv as [_ Hall]. rewrite Forall_forall in Hall. rewrite (Hall x Hx). reflexivity.
  - destruct Hinv as [_ E]. rewrite E in Hx. destruct Hx.
Qed.

(* In-flight requests keep their snapshot: whatever happens after a request has taken its snapshot w (any number of
   complete or partial reloads, other requests), it still holds w and every further lookup yields w. *)
Theorem inflight_keep :
  forall (v g : Z) (ts : list thread) (s1 s2 : list nat),
    Forall fresh_thread ts ->
    forall i q w, nth_error (threads (exec (mkState (init_shared v g) ts) s1)) i = Some (TReq q) ->
    rq_snap q = Some w ->
    exists q', nth_error (threads (exec (mkState (init_shared v g) ts) (s1 ++ s2))) i = Some (TReq q') /\
               rq_snap q' = Some w /\
               exists more, rq_seen q' = rq_seen q ++ more /\ Forall (fun x => x = w) more.
Proof.
  intros v g ts s1 s2 Hfresh i q w Hq Hw.
  pose proof (reachable_req_inv v g ts s1 Hfresh i q Hq) as Hinv.
  rewrite exec_app.
  destruct (exec_req_at _ s2 i q Hq Hinv) as [q' [Hn [_ Hx]]].
  exists q'. split; [exact Hn|apply Hx; exact Hw].
Qed.

(* A request that has run to completion made exactly three lookups (product, cluster name, cluster conf). *)
Lemma req_len_inv_step s q :
  (length (rq_seen q) = Nat.min (Nat.pred (rq_pc q)) 3) -> length (rq_seen (step_request s q)) = Nat.min (Nat.pred (rq_pc (step_request s q))) 3.
Proof.
  unfold step_request. intros H.
  destruct (rq_pc q) as [|[|[|[|[|[|n]]]]]] eqn:E; simpl in *;
    try destruct (conf_w s); try destruct (bal_w s); simpl; rewrite ?E, ?app_length; simpl; try lia.
Qed.

(* ---------------------------------------------------------------- non-vacuity: the snapshot discipline matters *)
(* If requests read srv.ServerConf afresh at every lookup (step_request_bad), a reload that completes between two
   lookups makes one request see two versions. *)
Definition step_bad (st : state) (i : nat) : state :=
  match nth_error (threads st) i with
  | Some (TReq q) => mkState (sh st) (upd_nth (threads st) i (TReq (step_request_bad (sh st) q)))
  | _ => step st i
  end.

Lemma double_read_breaks :
  exists sched,
    let st := fold_left step_bad sched (mkState (init_shared 1 1) [new_request; new_reload 2 true]) in
    all_consistent st = false.
Proof. exists [0;0;1;1;1;1;0;0]%nat. vm_compute. reflexivity. Qed.

Lemma single_snapshot_example :
  let st := exec (mkState (init_shared 1 1) [new_request; new_reload 2 true]) [0;0;1;1;1;1;0;0;1;1;1;0;0]%nat in
  Forall fresh_thread [new_request; new_reload 2 true] /\
  nth_error (threads st) 0 = Some (TReq (mkRequest 6 (Some 1) [1;1;1] (Some 1) false)) /\ conf (sh st) = 2.
Proof. vm_compute. repeat split; auto; repeat constructor. Qed.

(* ---------------------------------------------------------------- BalTable RWMutex protocol *)
Definition at_pc (k : nat) (t : thread) : nat :=
  match t with TGslb g => if Nat.eqb (gl_pc g) k then 1%nat else 0%nat | _ => 0%nat end.
Definition tot (f : thread -> nat) (ts : list thread) : nat := fold_right (fun t a => (f t + a)%nat) 0%nat ts.

Lemma tot_upd f : forall ts i t t', nth_error ts i = Some t ->
  (tot f (upd_nth ts i t') + f t = tot f ts + f t')%nat.
Proof.
  induction ts as [|y ts IH]; intros [|i] t t' H; simpl in *; try discriminate.
  - inversion H; subst. lia.
  - specialize (IH i t t' H). lia.
Qed.

Definition b2n (b : bool) : nat := if b then 1%nat else 0%nat.

Definition mid_free (t : thread) : Prop := match t with TReq q => rq_mid q = false | _ => True end.

Definition bal_inv (st : state) : Prop :=
  (tot (at_pc 2) (threads st) + tot (at_pc 3) (threads st) + tot (at_pc 4) (threads st) = b2n (bal_w (sh st)))%nat /\
  (bal_mid (sh st) = true -> (1 <= tot (at_pc 3) (threads st))%nat) /\
  Forall mid_free (threads st).

Lemma Forall_upd_nth {A} (P : A -> Prop) : forall l i x, Forall P l -> P x -> Forall P (upd_nth l i x).
Proof.
  induction l as [|y l IH]; intros [|i] x H Hx; simpl; auto; inversion H; subst; constructor; auto.
Qed.

Lemma bal_inv_step st j : bal_inv st -> bal_inv (step st j).
Proof.
  intros (Hs & Hm & Hf). unfold step.
  destruct (nth_error (threads st) j) as [t|] eqn:Hj; [|unfold bal_inv; auto].
  pose proof (fun t' => tot_upd (at_pc 2) _ _ _ t' Hj) as U2.
  pose proof (fun t' => tot_upd (at_pc 3) _ _ _ t' Hj) as U3.
  pose proof (fun t' => tot_upd (at_pc 4) _ _ _ t' Hj) as U4.
  assert (Hft : mid_free t). { rewrite Forall_forall in Hf. apply Hf. eapply nth_error_In; eauto. }
  destruct t as [r|g|q]; simpl.
  - (* reload threads never touch the balancer-table lock *)
    destruct (step_reload (sh st) r) as [s' r'] eqn:E.
    assert (bal_w s' = bal_w (sh st) /\ bal_mid s' = bal_mid (sh st)) as [E1 E2].
    { unfold step_reload in E. destruct (rl_pc r) as [|[|[|[|[|[|[|n]]]]]]];
        try destruct (rl_ok r); try destruct (conf_w (sh st)); try destruct (bal_w (sh st)) eqn:Ew;
        inversion E; subst; simpl; auto. }
    unfold bal_inv; simpl. specialize (U2 (TReload r')). specialize (U3 (TReload r')). specialize (U4 (TReload r')).
    simpl in *. rewrite E1, E2. repeat split; try lia.
    + intros K. specialize (Hm K). lia.
    + apply Forall_upd_nth; simpl; auto.
  - destruct (step_greload (sh st) g) as [s' g'] eqn:E.
    specialize (U2 (TGslb g')). specialize (U3 (TGslb g')). specialize (U4 (TGslb g')).
    unfold bal_inv; simpl.
    assert (Ff : Forall mid_free (upd_nth (threads st) j (TGslb g'))) by (apply Forall_upd_nth; simpl; auto).
    unfold step_greload in E.
    destruct (gl_pc g) as [|[|[|[|[|[|[|[|n]]]]]]]] eqn:Epc; simpl in *; rewrite ?Epc in *; simpl in *;
      try destruct (bal_w (sh st)) eqn:Ew; try destruct (conf_w (sh st)) eqn:Ec;
      inversion E; subst; simpl in *; rewrite ?Epc, ?Ew in *; simpl in *;
      try solve [repeat split; auto; try lia; try discriminate;
                 try (let K := fresh in intros K; specialize (Hm K); lia)].
  - (* a request only reads; its balancer lookup runs under RLock, i.e. only while no writer holds the lock *)
    specialize (U2 (TReq (step_request (sh st) q))). specialize (U3 (TReq (step_request (sh st) q))).
    specialize (U4 (TReq (step_request (sh st) q))).
    unfold bal_inv; simpl in *. repeat split; try lia.
    + intros K. specialize (Hm K). lia.
    + apply Forall_upd_nth; auto. simpl. unfold step_request.
      destruct (rq_pc q) as [|[|[|[|[|[|n]]]]]]; simpl; auto.
      * destruct (conf_w (sh st)); simpl; auto.
      * destruct (bal_w (sh st)) eqn:Ew; simpl; auto.
        destruct (bal_mid (sh st)) eqn:Em; auto. specialize (Hm eq_refl). simpl in Hs. lia.
Qed.

Lemma bal_inv_exec sched : forall st, bal_inv st -> bal_inv (exec st sched).
Proof.
  induction sched as [|j r IH]; intros st H; [exact H|].
  unfold exec in *. simpl. apply IH. apply bal_inv_step. exact H.
Qed.

Lemma tot_fresh k ts : (1 <= k)%nat -> Forall fresh_thread ts -> tot (at_pc k) ts = 0%nat.
Proof.
  intros Hk H. induction H as [|t ts Ht _ IH]; simpl; auto. rewrite IH.
  destruct t as [r|g|q]; simpl in *; auto. rewrite Ht. destruct k; [lia|reflexivity].
Qed.

Lemma bal_inv_init v g ts : Forall fresh_thread ts -> bal_inv (mkState (init_shared v g) ts).
Proof.
  intros H. unfold bal_inv; simpl. rewrite !tot_fresh by (auto; lia). repeat split; auto; try discriminate.
  rewrite Forall_forall in *. intros t Ht. specialize (H t Ht). destruct t; simpl in *; auto. subst. reflexivity.
Qed.

(* BalTableReload vs Lookup: in every interleaving, no request ever looks its cluster up in the half-built table that
   exists between "delete old entries" and "t.balTable = bmNew" inside BalTableReload. *)
Theorem baltable_lock :
  forall (v g : Z) (ts : list thread) (sched : list nat),
    Forall fresh_thread ts ->
    forall i q, nth_error (threads (exec (mkState (init_shared v g) ts) sched)) i = Some (TReq q) -> rq_mid q = false.
Proof.
  intros v g ts sched Hf i q Hq.
  destruct (bal_inv_exec sched _ (bal_inv_init v g ts Hf)) as (_ & _ & H).
  rewrite Forall_forall in H. apply (H (TReq q)). eapply nth_error_In; eauto.
Qed.

(* and the protocol matters: without the lock a lookup can hit the half-built table *)
Lemma baltable_example :
  let st := exec (mkState (init_shared 1 1) [new_greload 2; new_request]) [0;0;0;1;1;1;1;1;0;0;1]%nat in
  nth_error (threads st) 1 = Some (TReq (mkRequest 5 (Some 1) [1;1;1] (Some 2) false)).
Proof. reflexivity. Qed.
