(* C47: proofs about the tunnel transition system of model/Tunnel.v. *)
From Coq Require Import List ZArith Bool Lia.
From Bfe Require Import lib.Val model.Tunnel.
Import ListNotations.
Open Scope Z_scope.

(* every byte a source endpoint was given: what is in the network (in order) followed by what it has not written yet *)
Definition total (x : dir) : list Z := in_network x ++ tosend x.

Definition dir_ok (x : dir) : Prop :=
  (flushed x = true -> buf x = []) /\ (flushed x = false -> hold x = []).

Definition inv (s : state) : Prop := dir_ok (cb s) /\ dir_ok (bc s).

Lemma get_put_same s d x : get (put s d x) d = x.
Proof. destruct d; reflexivity. Qed.
Lemma get_put_other s d e x : d <> e -> get (put s d x) e = get s e.
Proof. destruct d, e; simpl; congruence. Qed.

Lemma is_nil_true {A} (l : list A) : (match l with [] => true | _ => false end) = true -> l = [].
Proof. destruct l; auto; discriminate. Qed.

Ltac unf := unfold total, in_network, dir_ok in *; simpl in *.

(* one step preserves the invariant and the byte stream of BOTH directions *)
Lemma step_preserves s l :
  inv s -> inv (step s l) /\ total (cb (step s l)) = total (cb s) /\ total (bc (step s l)) = total (bc s).
Proof.
  intros [Hc Hb].
  destruct l as [d n| | |d n|d|d n|d|d| |d]; simpl.
  - (* LSend *)
    destruct d; simpl; [destruct (src_closed (cb s))|destruct (src_closed (bc s))]; simpl; unfold inv; simpl;
      try (split; [split; assumption|split; reflexivity]).
    + split; [split; [exact Hc|exact Hb]|]. split; [|reflexivity]. unf.
      rewrite <- !app_assoc. rewrite firstn_skipn. reflexivity.
    + split; [split; [exact Hc|exact Hb]|]. split; [reflexivity|]. unf.
      rewrite <- !app_assoc. rewrite firstn_skipn. reflexivity.
  - (* LFlushC *)
    destruct (flushed (cb s)) eqn:F; simpl; [unfold inv; auto|].
    destruct (pclosed s); simpl; [unfold inv; auto|].
    unfold inv; simpl. destruct Hc as [Hc1 Hc2]. specialize (Hc2 F).
    split; [split; [|exact Hb]|split; [|reflexivity]].
    + unf. split; [reflexivity|discriminate].
    + unf. rewrite Hc2. simpl. rewrite <- !app_assoc. reflexivity.
  - (* LFlushB *)
    destruct (flushed (bc s)) eqn:F; simpl; [unfold inv; auto|].
    destruct (negb (flushed (cb s))); simpl; [unfold inv; auto|].
    destruct (pclosed s); simpl; [unfold inv; auto|].
    unfold inv; simpl. destruct Hb as [Hb1 Hb2]. specialize (Hb2 F).
    split; [split; [exact Hc|]|split; [reflexivity|]].
    + unf. split; [reflexivity|discriminate].
    + unf. rewrite Hb2. simpl. rewrite <- !app_assoc. reflexivity.
  - (* LRead *)
    unfold copying.
    destruct (flushed (cb s)) eqn:Fc; simpl; [|unfold inv; auto].
    destruct (flushed (bc s)) eqn:Fb; simpl; [|unfold inv; auto].
    destruct d; simpl.
    + destruct (negb (copier (cb s))); simpl; [unfold inv; auto|].
      destruct (pclosed s); simpl; [unfold inv; auto|].
      destruct (hold (cb s)) eqn:Hh; simpl; [|unfold inv; auto].
      destruct Hc as [Hc1 Hc2]. specialize (Hc1 Fc).
      unfold inv; simpl. split; [split; [|exact Hb]|split; [|reflexivity]].
      * unf. split; [intros _; exact Hc1|rewrite Fc; discriminate].
      * unf. rewrite Hh, Hc1. simpl. Show. rewrite <- !app_assoc. rewrite firstn_skipn. reflexivity.
    + destruct (negb (copier (bc s))); simpl; [unfold inv; auto|].
      destruct (pclosed s); simpl; [unfold inv; auto|].
      destruct (hold (bc s)) eqn:Hh; simpl; [|unfold inv; auto].
      destruct Hb as [Hb1 Hb2]. specialize (Hb1 Fb).
      unfold inv; simpl. split; [split; [exact Hc|]|split; [reflexivity|]].
      * unf. split; [intros _; exact Hb1|rewrite Fb; discriminate].
      * unf. rewrite Hh, Hb1. simpl. rewrite <- !app_assoc. rewrite firstn_skipn. reflexivity.
  - (* LWrite *)
    destruct d; simpl.
    + destruct (negb (copier (cb s))); simpl; [unfold inv; auto|].
      destruct (pclosed s); simpl; [unfold inv; auto|].
      unfold inv; simpl. split; [split; [|exact Hb]|split; [|reflexivity]].
      * unf. destruct Hc as [Hc1 Hc2]. split; auto.
      * unf. rewrite <- !app_assoc. reflexivity.
    + destruct (negb (copier (bc s))); simpl; [unfold inv; auto|].
      destruct (pclosed s); simpl; [unfold inv; auto|].
      unfold inv; simpl. split; [split; [exact Hc|]|split; [reflexivity|]].
      * unf. destruct Hb as [Hb1 Hb2]. split; auto.
      * unf. rewrite <- !app_assoc. reflexivity.
  - (* LRecv *)
    destruct d; simpl.
    + destruct (dst_eof (cb s)); simpl; [unfold inv; auto|].
      unfold inv; simpl. split; [split; [exact Hc|exact Hb]|split; [|reflexivity]].
      unf. rewrite <- !app_assoc. rewrite (app_assoc (firstn n (wire_out (cb s)))). rewrite firstn_skipn. reflexivity.
    + destruct (dst_eof (bc s)); simpl; [unfold inv; auto|].
      unfold inv; simpl. split; [split; [exact Hc|exact Hb]|split; [reflexivity|]].
      unf. rewrite <- !app_assoc. rewrite (app_assoc (firstn n (wire_out (bc s)))). rewrite firstn_skipn. reflexivity.
  - (* LClose *)
    destruct d; unfold inv; simpl; auto.
  - (* LEof *)
    match goal with |- context [if ?c then _ else _] => destruct c end; [|unfold inv; auto].
    destruct d; unfold inv; simpl; auto.
  - (* LShutdown *)
    destruct (armed s && negb (pclosed s)); unfold inv; simpl; auto.
  - (* LRecvEof *)
    match goal with |- context [if ?c then _ else _] => destruct c end; [|unfold inv; auto].
    destruct d; unfold inv; simpl; auto.
Qed.

Lemma exec_preserves sched : forall s,
  inv s -> inv (exec s sched) /\ total (cb (exec s sched)) = total (cb s) /\ total (bc (exec s sched)) = total (bc s).
Proof.
  induction sched as [|l r IH]; intros s H; [simpl; auto|].
  destruct (step_preserves s l H) as [H1 [H2 H3]].
  destruct (IH (step s l) H1) as [K1 [K2 K3]].
  unfold exec in *. simpl. split; auto. split; congruence.
Qed.

Lemma init_inv ce cp be bp : inv (init ce cp be bp).
Proof. unfold inv, init, init_dir, dir_ok; simpl. repeat split; auto; discriminate. Qed.

(* ---------------------------------------------------------------- headline *)
(* For every interleaving: what the backend has received so far, followed by what is still in the proxy / on the wire (in
   pipeline order), followed by what the client has not written yet, is exactly early ++ payload; symmetrically. *)
Theorem transparent_full :
  forall ce cp be bp sched,
    let s := exec (init ce cp be bp) sched in
    recv (cb s) ++ (wire_out (cb s) ++ hold (cb s) ++ buf (cb s) ++ wire_in (cb s)) ++ tosend (cb s) = ce ++ cp /\
    recv (bc s) ++ (wire_out (bc s) ++ hold (bc s) ++ buf (bc s) ++ wire_in (bc s)) ++ tosend (bc s) = be ++ bp.
Proof.
  intros ce cp be bp sched s.
  destruct (exec_preserves sched _ (init_inv ce cp be bp)) as [_ [H1 H2]].
  fold s in H1, H2. unfold total, in_network in H1, H2. simpl in H1, H2.
  rewrite <- !app_assoc in *. split; [exact H1|exact H2].
Qed.

Definition prefix (a b : list Z) : Prop := exists r, b = a ++ r.

Theorem transparent :
  forall ce cp be bp sched,
    let s := exec (init ce cp be bp) sched in
    prefix (recv (cb s)) (ce ++ cp) /\ prefix (recv (bc s)) (be ++ bp).
Proof.
  intros ce cp be bp sched s.
  destruct (transparent_full ce cp be bp sched) as [H1 H2]. fold s in H1, H2.
  split; eexists; symmetry; eassumption.
Qed.
