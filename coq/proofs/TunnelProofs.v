(* C47: proofs about the tunnel transition system of model/Tunnel.v. *)
From Coq Require Import List ZArith Bool Lia.
From Bfe Require Import lib.Val lib.ValProofs model.Tunnel run.RunC47.
Import ListNotations.
Open Scope Z_scope.

(* every byte a source endpoint was given: what is in the network (in order) followed by what it has not written yet *)
Definition total (x : dir) : list Z := in_network x ++ tosend x.

Definition dir_ok (x : dir) : Prop :=
  (flushed x = true -> buf x = []) /\ (flushed x = false -> hold x = []).

Definition inv (s : state) : Prop := dir_ok (cb s) /\ dir_ok (bc s).

Lemma get_put_same s d x : get (put s d x) d = x.
Proof. destruct d; reflexivity. Qed.
Lemma get_put_other s d e x : d <> e -> get (put s d x) e = get s e.
Proof. destruct d, e; simpl; congruence. Qed.

Lemma is_nil_true {A} (l : list A) : (match l with [] => true | _ => false end) = true -> l = [].
Proof. destruct l; auto; discriminate. Qed.

Lemma firstn_skipn_app {A} n (l r : list A) : firstn n l ++ skipn n l ++ r = l ++ r.
Proof. rewrite app_assoc, firstn_skipn. reflexivity. Qed.

Ltac fin := repeat rewrite <- app_assoc; repeat rewrite firstn_skipn_app; repeat rewrite firstn_skipn; reflexivity.

Ltac unf := unfold total, in_network, dir_ok in *; simpl in *.

(* one step preserves the invariant and the byte stream of BOTH directions *)
Lemma step_preserves s l :
  inv s -> inv (step s l) /\ total (cb (step s l)) = total (cb s) /\ total (bc (step s l)) = total (bc s).
Proof.
  intros [Hc Hb].
  destruct l as [d n| | |d n|d|d n|d|d| |d]; simpl.
  - (* LSend *)
    destruct d; simpl; [destruct (src_closed (cb s))|destruct (src_closed (bc s))]; simpl; unfold inv; simpl;
      try (split; [split; assumption|split; reflexivity]).
    + split; [split; [exact Hc|exact Hb]|]. split; [|reflexivity]. unf.
      fin.
    + split; [split; [exact Hc|exact Hb]|]. split; [reflexivity|]. unf.
      fin.
  - (* LFlushC *)
    destruct (flushed (cb s)) eqn:F; simpl; [unfold inv; auto|].
    destruct (pclosed s); simpl; [unfold inv; auto|].
    unfold inv; simpl. destruct Hc as [Hc1 Hc2]. specialize (Hc2 F).
    split; [split; [|exact Hb]|split; [|reflexivity]].
    + unf. split; [reflexivity|discriminate].
    + unf. rewrite Hc2. simpl. fin.
  - (* LFlushB *)
    destruct (flushed (bc s)) eqn:F; simpl; [unfold inv; auto|].
    destruct (negb (flushed (cb s))); simpl; [unfold inv; auto|].
    destruct (pclosed s); simpl; [unfold inv; auto|].
    unfold inv; simpl. destruct Hb as [Hb1 Hb2]. specialize (Hb2 F).
    split; [split; [exact Hc|]|split; [reflexivity|]].
    + unf. split; [reflexivity|discriminate].
    + unf. rewrite Hb2. simpl. fin.
  - (* LRead *)
    unfold copying.
    destruct (flushed (cb s)) eqn:Fc; simpl; [|unfold inv; auto].
    destruct (flushed (bc s)) eqn:Fb; simpl; [|unfold inv; auto].
    destruct d; simpl.
    + destruct (negb (copier (cb s))); simpl; [unfold inv; auto|].
      destruct (pclosed s); simpl; [unfold inv; auto|].
      destruct (hold (cb s)) eqn:Hh; simpl; [|unfold inv; auto].
      destruct Hc as [Hc1 Hc2]. specialize (Hc1 Fc).
      unfold inv; simpl. split; [split; [|exact Hb]|split; [|reflexivity]].
      * unf. split; [intros _; exact Hc1|rewrite Fc; discriminate].
      * unf. rewrite Hh, Hc1. simpl. fin.
    + destruct (negb (copier (bc s))); simpl; [unfold inv; auto|].
      destruct (pclosed s); simpl; [unfold inv; auto|].
      destruct (hold (bc s)) eqn:Hh; simpl; [|unfold inv; auto].
      destruct Hb as [Hb1 Hb2]. specialize (Hb1 Fb).
      unfold inv; simpl. split; [split; [exact Hc|]|split; [reflexivity|]].
      * unf. split; [intros _; exact Hb1|rewrite Fb; discriminate].
      * unf. rewrite Hh, Hb1. simpl. fin.
  - (* LWrite *)
    destruct d; simpl.
    + destruct (negb (copier (cb s))); simpl; [unfold inv; auto|].
      destruct (pclosed s); simpl; [unfold inv; auto|].
      unfold inv; simpl. split; [split; [|exact Hb]|split; [|reflexivity]].
      * unf. destruct Hc as [Hc1 Hc2]. split; auto.
      * unf. fin.
    + destruct (negb (copier (bc s))); simpl; [unfold inv; auto|].
      destruct (pclosed s); simpl; [unfold inv; auto|].
      unfold inv; simpl. split; [split; [exact Hc|]|split; [reflexivity|]].
      * unf. destruct Hb as [Hb1 Hb2]. split; auto.
      * unf. fin.
  - (* LRecv *)
    destruct d; simpl.
    + destruct (dst_eof (cb s)); simpl; [unfold inv; auto|].
      unfold inv; simpl. split; [split; [exact Hc|exact Hb]|split; [|reflexivity]].
      unf. fin.
    + destruct (dst_eof (bc s)); simpl; [unfold inv; auto|].
      unfold inv; simpl. split; [split; [exact Hc|exact Hb]|split; [reflexivity|]].
      unf. fin.
  - (* LClose *)
    destruct d; unfold inv; simpl; auto.
  - (* LEof *)
    match goal with |- context [if ?c then _ else _] => destruct c end; [|unfold inv; auto].
    destruct d; unfold inv; simpl; auto.
  - (* LShutdown *)
    destruct (armed s && negb (pclosed s)); unfold inv; simpl; auto.
  - (* LRecvEof *)
    match goal with |- context [if ?c then _ else _] => destruct c end; [|unfold inv; auto].
    destruct d; unfold inv; simpl; auto.
Qed.

Lemma exec_preserves sched : forall s,
  inv s -> inv (exec s sched) /\ total (cb (exec s sched)) = total (cb s) /\ total (bc (exec s sched)) = total (bc s).
Proof.
  induction sched as [|l r IH]; intros s H; [simpl; auto|].
  destruct (step_preserves s l H) as [H1 [H2 H3]].
  destruct (IH (step s l) H1) as [K1 [K2 K3]].
  unfold exec in *. simpl. split; auto. split; congruence.
Qed.

Lemma init_inv ce cp be bp : inv (init ce cp be bp).
Proof. unfold inv, init, init_dir, dir_ok; simpl. repeat split; auto; discriminate. Qed.

(* ---------------------------------------------------------------- headline *)
(* For every interleaving: what the backend has received so far, followed by what is still in the proxy / on the wire (in
   pipeline order), followed by what the client has not written yet, is exactly early ++ payload; symmetrically. *)
Theorem transparent_full :
  forall ce cp be bp sched,
    let s := exec (init ce cp be bp) sched in
    recv (cb s) ++ (wire_out (cb s) ++ hold (cb s) ++ buf (cb s) ++ wire_in (cb s)) ++ tosend (cb s) = ce ++ cp /\
    recv (bc s) ++ (wire_out (bc s) ++ hold (bc s) ++ buf (bc s) ++ wire_in (bc s)) ++ tosend (bc s) = be ++ bp.
Proof.
  intros ce cp be bp sched s.
  destruct (exec_preserves sched _ (init_inv ce cp be bp)) as [_ [H1 H2]].
  fold s in H1, H2. unfold total, in_network in H1, H2. simpl in H1, H2.
  rewrite <- !app_assoc in *. split; [exact H1|exact H2].
Qed.

Definition prefix (a b : list Z) : Prop := exists r, b = a ++ r.

Theorem transparent :
  forall ce cp be bp sched,
    let s := exec (init ce cp be bp) sched in
    prefix (recv (cb s)) (ce ++ cp) /\ prefix (recv (bc s)) (be ++ bp).
Proof.
  intros ce cp be bp sched s.
  destruct (transparent_full ce cp be bp sched) as [H1 H2]. fold s in H1, H2.
  split; eexists; symmetry; eassumption.
Qed.

(* ---------------------------------------------------------------- control invariant *)
Definition ctl_inv (s : state) : Prop :=
  (copier (cb s) = false -> armed s = true /\ src_closed (cb s) = true) /\
  (copier (bc s) = false -> armed s = true /\ src_closed (bc s) = true) /\
  (armed s = true -> copier (cb s) = false \/ copier (bc s) = false) /\
  (pclosed s = true -> armed s = true) /\
  (dst_eof (cb s) = true -> pclosed s = true /\ wire_out (cb s) = []) /\
  (dst_eof (bc s) = true -> pclosed s = true /\ wire_out (bc s) = []).

Lemma ctl_init ce cp be bp : ctl_inv (init ce cp be bp).
Proof. unfold ctl_inv, init, init_dir; simpl. repeat split; intros; try discriminate. Qed.

Ltac brk :=
  repeat match goal with
         | |- context [if ?c then _ else _] => let E := fresh "E" in destruct c eqn:E; simpl in *
         end.

Lemma ctl_step s l : ctl_inv s -> ctl_inv (step s l).
Proof.
  intros (H1 & H2 & H3 & H4 & H5 & H6).
  destruct l as [d n| | |d n|d|d n|d|d| |d]; try destruct d; unfold step, get, put, copying; simpl;
    brk; unfold ctl_inv; simpl; repeat split; intros;
    repeat match goal with
           | H : _ && _ = true |- _ => apply andb_true_iff in H; destruct H
           | H : _ || _ = false |- _ => apply orb_false_iff in H; destruct H
           | H : negb _ = true |- _ => apply negb_true_iff in H
           | H : negb _ = false |- _ => apply negb_false_iff in H
           end;
    try solve [apply is_nil_true; assumption];
    try solve [intuition congruence];
    try solve [destruct (H5 ltac:(assumption)); intuition congruence];
    try solve [destruct (H6 ltac:(assumption)); intuition congruence].
Qed.

Lemma ctl_exec sched : forall s, ctl_inv s -> ctl_inv (exec s sched).
Proof.
  induction sched as [|l r IH]; intros s H; [exact H|].
  unfold exec in *. simpl. apply IH. apply ctl_step. exact H.
Qed.

(* ---------------------------------------------------------------- quiescence *)
(* no step other than an endpoint's own decision to close changes the state *)
Definition quiescent (s : state) : Prop := forall l, (forall d, l <> LClose d) -> step s l = s.

Lemma skipn1_fix {A} (l : list A) : skipn 1 l = l -> l = [].
Proof.
  destruct l as [|a l]; auto. simpl. intros H. apply (f_equal (@length A)) in H. simpl in H. lia.
Qed.
Lemma firstn1_nil {A} (l : list A) : firstn 1 l = [] -> l = [].
Proof. destruct l; auto; discriminate. Qed.

Definition dirs_of (s : state) (d : which) : dir := get s d.

Lemma q_send s d : step s (LSend d 1) = s -> src_closed (get s d) = false -> tosend (get s d) = [].
Proof.
  intros H Hc. apply (f_equal (fun s => tosend (get s d))) in H. unfold step in H. rewrite Hc in H.
  rewrite get_put_same in H. simpl in H. apply skipn1_fix. exact H.
Qed.

Lemma q_flushC s : step s LFlushC = s -> pclosed s = false -> flushed (cb s) = true.
Proof.
  intros H Hp. destruct (flushed (cb s)) eqn:F; auto.
  apply (f_equal (fun s => flushed (cb s))) in H. unfold step in H. rewrite F, Hp in H. simpl in H. congruence.
Qed.

Lemma q_flushB s : step s LFlushB = s -> pclosed s = false -> flushed (cb s) = true -> flushed (bc s) = true.
Proof.
  intros H Hp Fc. destruct (flushed (bc s)) eqn:F; auto.
  apply (f_equal (fun s => flushed (bc s))) in H. unfold step in H. rewrite F, Hp, Fc in H. simpl in H. congruence.
Qed.

Lemma q_write s d : step s (LWrite d) = s -> copier (get s d) = true -> pclosed s = false -> hold (get s d) = [].
Proof.
  intros H Hc Hp. apply (f_equal (fun s => hold (get s d))) in H. unfold step in H. rewrite Hc, Hp in H. simpl in H.
  rewrite get_put_same in H. simpl in H. congruence.
Qed.

Lemma q_read s d : step s (LRead d 1) = s -> copying s = true -> copier (get s d) = true -> pclosed s = false ->
  hold (get s d) = [] -> wire_in (get s d) = [].
Proof.
  intros H Hcp Hc Hp Hh. apply firstn1_nil.
  destruct d; unfold get in *; cbn [step get] in H; rewrite Hcp, Hc, Hp, Hh in H; cbn [negb orb] in H.
  - apply (f_equal (fun s => hold (cb s))) in H. cbn in H. rewrite Hh in H. exact H.
  - apply (f_equal (fun s => hold (bc s))) in H. cbn in H. rewrite Hh in H. exact H.
Qed.

Lemma q_recv s d : step s (LRecv d 1) = s -> dst_eof (get s d) = false -> wire_out (get s d) = [].
Proof.
  intros H He. apply (f_equal (fun s => wire_out (get s d))) in H. unfold step in H. rewrite He in H.
  rewrite get_put_same in H. simpl in H. apply skipn1_fix. exact H.
Qed.

Lemma q_eof s d : step s (LEof d) = s -> copying s = true -> copier (get s d) = true -> src_closed (get s d) = true ->
  pclosed s = false -> wire_in (get s d) = [] -> hold (get s d) = [] -> False.
Proof.
  intros H Hcp Hc Hs Hp Hw Hh. apply (f_equal (fun s => copier (get s d))) in H. unfold step in H.
  rewrite Hcp, Hc, Hs, Hp, Hw, Hh in H. simpl in H.
  destruct d; simpl in H; congruence.
Qed.

Lemma q_shutdown s : step s LShutdown = s -> armed s = true -> pclosed s = true.
Proof.
  intros H Ha. destruct (pclosed s) eqn:Hp; auto.
  apply (f_equal pclosed) in H. unfold step in H. rewrite Ha, Hp in H. simpl in H. congruence.
Qed.

Lemma q_recveof s d : step s (LRecvEof d) = s -> pclosed s = true -> wire_out (get s d) = [] -> dst_eof (get s d) = true.
Proof.
  intros H Hp Hw. apply (f_equal (fun s => dst_eof (get s d))) in H. unfold step in H. rewrite Hp, Hw in H. simpl in H.
  rewrite get_put_same in H. simpl in H. congruence.
Qed.

Ltac nocl := intros ?; discriminate.

(* a quiescent state in which the proxy has not closed holds no byte inside the proxy or on a wire, in direction d,
   provided that direction's copy loop is still running *)
Lemma quiescent_drained s d :
  inv s -> ctl_inv s -> quiescent s -> pclosed s = false -> copier (get s d) = true ->
  buf (get s d) = [] /\ hold (get s d) = [] /\ wire_in (get s d) = [] /\ wire_out (get s d) = [] /\ copying s = true.
Proof.
  intros [Ic Ib] (H1 & H2 & H3 & H4 & H5 & H6) Q Hp Hc.
  assert (Fc : flushed (cb s) = true) by (apply q_flushC; auto; apply Q; nocl).
  assert (Fb : flushed (bc s) = true) by (apply q_flushB; auto; apply Q; nocl).
  assert (Hcp : copying s = true) by (unfold copying; rewrite Fc, Fb; reflexivity).
  assert (Hh : hold (get s d) = []) by (apply q_write; auto; apply Q; nocl).
  assert (Hw : wire_in (get s d) = []) by (apply q_read; auto; apply Q; nocl).
  assert (He : dst_eof (get s d) = false).
  { destruct (dst_eof (get s d)) eqn:E; auto. destruct d; simpl in E; [destruct (H5 E)|destruct (H6 E)]; congruence. }
  assert (Ho : wire_out (get s d) = []) by (apply q_recv; auto; apply Q; nocl).
  assert (Hb : buf (get s d) = []).
  { destruct d; simpl; [destruct Ic as [K _]|destruct Ib as [K _]]; auto. }
  auto.
Qed.

(* Equality at quiescence without close: if neither endpoint has closed and nothing can move any more, each end has
   received exactly everything: early bytes first, then the payload. *)
Theorem complete_at_quiescence :
  forall ce cp be bp sched,
    let s := exec (init ce cp be bp) sched in
    quiescent s -> src_closed (cb s) = false -> src_closed (bc s) = false ->
    recv (cb s) = ce ++ cp /\ recv (bc s) = be ++ bp.
Proof.
  intros ce cp be bp sched s Q Sc Sb.
  pose proof (ctl_exec sched _ (ctl_init ce cp be bp)) as C. fold s in C.
  destruct (exec_preserves sched _ (init_inv ce cp be bp)) as [I _]. fold s in I.
  destruct (transparent_full ce cp be bp sched) as [T1 T2]. fold s in T1, T2.
  pose proof C as (H1 & H2 & H3 & H4 & H5 & H6).
  assert (Kc : copier (cb s) = true). { destruct (copier (cb s)) eqn:E; auto. destruct (H1 eq_refl). congruence. }
  assert (Kb : copier (bc s) = true). { destruct (copier (bc s)) eqn:E; auto. destruct (H2 eq_refl). congruence. }
  assert (Hp : pclosed s = false).
  { destruct (pclosed s) eqn:E; auto. destruct (H3 (H4 eq_refl)); congruence. }
  destruct (quiescent_drained s CB I C Q Hp Kc) as (A1 & A2 & A3 & A4 & _).
  destruct (quiescent_drained s BC I C Q Hp Kb) as (B1 & B2 & B3 & B4 & _).
  simpl in *.
  assert (Tc : tosend (cb s) = []) by (apply (q_send s CB); auto; apply Q; nocl).
  assert (Tb : tosend (bc s) = []) by (apply (q_send s BC); auto; apply Q; nocl).
  rewrite A1, A2, A3, A4, Tc in T1. rewrite B1, B2, B3, B4, Tb in T2. simpl in T1, T2.
  rewrite app_nil_r in T1, T2. auto.
Qed.

(* Close propagation: once either endpoint has closed and nothing can move any more, the proxy has closed BOTH
   connections and both endpoints have read EOF. *)
Theorem close_propagates :
  forall ce cp be bp sched,
    let s := exec (init ce cp be bp) sched in
    quiescent s -> src_closed (cb s) = true \/ src_closed (bc s) = true ->
    pclosed s = true /\ dst_eof (cb s) = true /\ dst_eof (bc s) = true.
Proof.
  intros ce cp be bp sched s Q Hcl.
  pose proof (ctl_exec sched _ (ctl_init ce cp be bp)) as C. fold s in C.
  destruct (exec_preserves sched _ (init_inv ce cp be bp)) as [I _]. fold s in I.
  pose proof C as (H1 & H2 & H3 & H4 & H5 & H6).
  assert (Hp : pclosed s = true).
  { destruct (pclosed s) eqn:Hp; auto. exfalso.
    assert (exists d, src_closed (get s d) = true) as [d Hd] by (destruct Hcl; [exists CB|exists BC]; auto).
    destruct (copier (get s d)) eqn:Kc.
    - destruct (quiescent_drained s d I C Q Hp Kc) as (A1 & A2 & A3 & A4 & Hcp).
      eapply (q_eof s d); eauto. apply Q; nocl.
    - assert (armed s = true) as Ha by (destruct d; simpl in Kc; [destruct (H1 Kc)|destruct (H2 Kc)]; auto).
      assert (pclosed s = true) by (apply q_shutdown; auto; apply Q; nocl). congruence. }
  split; auto.
  assert (forall d, dst_eof (get s d) = true) as K.
  { intros d. destruct (dst_eof (get s d)) eqn:E; auto.
    assert (Ho : wire_out (get s d) = []) by (apply q_recv; auto; apply Q; nocl).
    rewrite <- E. apply q_recveof; auto. apply Q; nocl. }
  split; [apply (K CB)|apply (K BC)].
Qed.

(* quiescent states exist and are reached by ordinary schedules: the example of the model file ends in one *)
Lemma quiescent_example :
  let s := exec (init [1;2] [3;4;5] [9] [8;7])
                ([LFlushC; LFlushB] ++ drain 10 ++ chunk_sched [(CB, 2%nat); (BC, 2%nat); (CB, 1%nat)]
                 ++ [LClose CB; LEof CB; LShutdown; LRecvEof CB; LRecvEof BC]) in
  quiescent s /\ src_closed (cb s) = true.
Proof.
  cbv zeta.
  match goal with |- quiescent ?s /\ _ => let s' := eval vm_compute in s in change s with s' end.
  split; [|reflexivity].
  intros l Hl. destruct l as [d n| | |d n|d|d n|d|d| |d]; try destruct d; try (exfalso; eapply Hl; reflexivity);
    try (destruct n); reflexivity.
Qed.

(* ---------------------------------------------------------------- the model satisfies prop_C47 *)
Definition St (rc rb tc tb : list Z) : state :=
  mkState (mkDir tc [] [] true [] [] rc false true false) (mkDir tb [] [] true [] [] rb false true false) false false.

Lemma firstn_len_app {A} (b r : list A) : firstn (length b) (b ++ r) = b.
Proof. rewrite firstn_app, Nat.sub_diag, firstn_all. simpl. apply app_nil_r. Qed.
Lemma skipn_len_app {A} (b r : list A) : skipn (length b) (b ++ r) = r.
Proof. rewrite skipn_app, Nat.sub_diag, skipn_all. reflexivity. Qed.

Lemma chunk_CB rc rb b tc tb :
  exec (St rc rb (b ++ tc) tb) [LSend CB (length b); LRead CB (length b); LWrite CB; LRecv CB (length b)] = St (rc ++ b) rb tc tb.
Proof.
  unfold exec, St. cbn [fold_left step get put cb bc src_closed copying flushed copier pclosed hold negb orb andb
                        tosend wire_in buf wire_out recv dst_eof armed].
  rewrite firstn_len_app, skipn_len_app. cbn [app].
  repeat (rewrite firstn_all || rewrite skipn_all || (progress cbn [app])). reflexivity.
Qed.

Lemma chunk_BC rc rb b tc tb :
  exec (St rc rb tc (b ++ tb)) [LSend BC (length b); LRead BC (length b); LWrite BC; LRecv BC (length b)] = St rc (rb ++ b) tc tb.
Proof.
  unfold exec, St. cbn [fold_left step get put cb bc src_closed copying flushed copier pclosed hold negb orb andb
                        tosend wire_in buf wire_out recv dst_eof armed].
  rewrite firstn_len_app, skipn_len_app. cbn [app].
  repeat (rewrite firstn_all || rewrite skipn_all || (progress cbn [app])). reflexivity.
Qed.

Lemma exec_app' s a b : exec s (a ++ b) = exec (exec s a) b.
Proof. unfold exec. apply fold_left_app. Qed.

Lemma chunks_run : forall es rc rb,
  exec (St rc rb (payload CB es) (payload BC es)) (chunk_sched (map (fun e => (fst e, length (snd e))) es))
  = St (rc ++ payload CB es) (rb ++ payload BC es) [] [].
Proof.
  induction es as [|[d b] es IH]; intros rc rb.
  - simpl. rewrite !app_nil_r. reflexivity.
  - cbn [map fst snd chunk_sched]. rewrite exec_app'.
    destruct d; unfold payload; cbn [flat_map fst snd]; fold (payload CB es); fold (payload BC es).
    + cbn [app]. rewrite chunk_CB. rewrite IH. rewrite <- app_assoc. reflexivity.
    + cbn [app]. rewrite chunk_BC. rewrite IH. rewrite <- app_assoc. reflexivity.
Qed.

Lemma run_tunnel_spec t :
  run_tunnel t = VL [VB (t_cearly t ++ payload CB (t_events t)); VB (t_bearly t ++ payload BC (t_events t)); VZ 1; VZ 1].
Proof.
  unfold run_tunnel, tunnel_sched.
  rewrite exec_app'.
  assert (E0 : exec (init (t_cearly t) (payload CB (t_events t)) (t_bearly t) (payload BC (t_events t)))
                    [LFlushC; LFlushB; LRecv CB (length (t_cearly t)); LRecv BC (length (t_bearly t))]
               = St (t_cearly t) (t_bearly t) (payload CB (t_events t)) (payload BC (t_events t))).
  { unfold exec, init, init_dir, St.
    cbn [fold_left step get put cb bc src_closed copying flushed copier pclosed hold negb orb andb
         tosend wire_in buf wire_out recv dst_eof armed app].
    repeat (rewrite firstn_all || rewrite skipn_all || (progress cbn [app])). reflexivity. }
  rewrite E0. rewrite exec_app'. rewrite chunks_run.
  destruct (t_closer t); reflexivity.
Qed.

Lemma prop_all_run ts : prop_all ts (map run_tunnel ts) = true.
Proof.
  induction ts as [|t ts IH]; [reflexivity|].
  simpl. rewrite IH, andb_true_r. unfold prop_tunnel. rewrite run_tunnel_spec. apply val_eqb_refl.
Qed.

(* for every input: the model's output satisfies the property predicate that the harness evaluates on the implementation *)
Theorem prop_C47_of_model : forall i, prop_C47 i (run_C47 i) = true.
Proof.
  intros i. unfold prop_C47, run_C47. destruct (decode_C47 i) as [ts|].
  - apply prop_all_run.
  - apply val_eqb_refl.
Qed.
