(* Finite sweep tying the 256-ary decoding trie (transcription of addDecoderNode) to the bit-level code:
   for EVERY internal trie node (15) and EVERY next byte (256): one byte step of the trie equals the walk of
   the same eight bits through the binary code (3840 cases, vm_compute). *)
From Coq Require Import List ZArith Bool.
From Bfe Require Import lib.Val lib.Bytes gen.HpackTables model.Huffman.
Import ListNotations.
Open Scope Z_scope.

(* the bit path leading to each internal node, discovered from the root *)
Definition path_step (acc : list (nat * list bool)) : list (nat * list bool) :=
  flat_map (fun np : nat * list bool => let '(n, p) := np in
    flat_map (fun b => match get_child huff_trie n b with
                       | Some (CNode m) => [(m, p ++ byte_bits b)]
                       | _ => []
                       end) symbols) acc.
Definition node_paths : list (nat * list bool) :=
  let l0 := [(O, @nil bool)] in let l1 := path_step l0 in let l2 := path_step l1 in let l3 := path_step l2 in
  l0 ++ l1 ++ l2 ++ l3.
(* some code strictly continues the bit string w *)
Definition extends (w : list bool) : bool := existsb (fun cb : Z * list bool => is_prefix_b w (snd cb)) code_table.
Definition step_ok (np : nat * list bool) (b : Z) : bool :=
  let '(n, p) := np in
  let w := p ++ byte_bits b in
  match get_child huff_trie n b with
  | Some (CLeaf sym k) =>       (* a symbol ends inside this byte: its code is the first |p|+k bits *)
    (1 <=? k) && (k <=? 8) && (len_of sym =? Z.of_nat (length p) + k) && is_prefix_b (code_bits sym) w
  | Some (CNode m) =>           (* no symbol ends within these bits, and some code continues them *)
    match sym_match w with None => extends w | Some _ => false end
  | Some CNil =>                (* no code is compatible with these bits (only EOS prefixes get here) *)
    match sym_match w with None => negb (extends w) | Some _ => false end
  | None => false
  end.
Definition trie_step_agrees : bool :=
  (length huff_trie =? 15)%nat && (length node_paths =? 15)%nat
  && forallb (fun k => existsb (fun np : nat * list bool => Nat.eqb k (fst np)) node_paths) (seq 0 15)
  && forallb (fun nd : tnode => (length nd =? 256)%nat) huff_trie
  && forallb (fun np => forallb (step_ok np) symbols) node_paths.
Lemma trie_step_agrees_true : trie_step_agrees = true.
Proof. vm_compute. reflexivity. Qed.

(* every single symbol, alone and followed by each of four other symbols, decodes identically in the trie
   decoder and in the RFC decoder (1280 strings) *)
Definition trie_symbols_agree : bool :=
  forallb (fun c => forallb (fun s => match huff_decode (huff_encode s), huff_decode_spec (huff_encode s) with
                                      | HOk x, HOk y => list_Z_eqb x s && list_Z_eqb y s
                                      | _, _ => false
                                      end) [[c]; [c; 48]; [c; 255]; [10; c]; [c; 22; c]]) symbols.
Lemma trie_symbols_agree_true : trie_symbols_agree = true.
Proof. vm_compute. reflexivity. Qed.
