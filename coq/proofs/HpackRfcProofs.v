(* C31: the decoder model against the RFC 7541 reference (specification) functions of model/Hpack.v. *)
From Coq Require Import List ZArith Bool Lia ZifyBool ZifyNat.
From Bfe Require Import lib.Val lib.Bytes gen.HpackTables model.Huffman model.Hpack
  proofs.HuffmanProofs proofs.HpackProofs.
Import ListNotations.
Open Scope Z_scope.

(* ---------- the RFC Huffman decoder accepts exactly "codes ++ fewer than 8 one bits" ---------- *)
Definition huff_valid (bits : list bool) (s : bytes) : Prop :=
  Forall (fun c => In c symbols) s /\
  exists pad, bits = huff_bits s ++ pad /\ (length pad < 8)%nat /\ forallb (fun b => b) pad = true.

Lemma is_padding_inv bits : is_padding bits = true -> (length bits < 8)%nat /\ forallb (fun b => b) bits = true.
Proof.
  unfold is_padding. intros H. apply andb_true_iff in H. destruct H as [H1 H2]. split; [|exact H2].
  apply Nat.ltb_lt in H1. destruct (Nat.le_gt_cases 8 (length bits)) as [Hge|Hlt]; [|exact Hlt].
  rewrite firstn_length_le in H1 by exact Hge. lia.
Qed.
Lemma sym_match_inv bits c : sym_match bits = Some c -> In c symbols /\ exists r, bits = code_bits c ++ r.
Proof.
  unfold sym_match. destruct (find _ code_table) as [[d bd]|] eqn:E; [|discriminate].
  intros H. inversion H; subst d. apply find_some in E. destruct E as [Hin Hp]. simpl in Hp.
  unfold code_table in Hin. apply in_map_iff in Hin. destruct Hin as [d' [Heq Hd]]. inversion Heq; subst d' bd.
  split; [exact Hd|]. apply is_prefix_b_spec. exact Hp.
Qed.
Lemma bit_decode_sound : forall fuel bits s, bit_decode fuel bits = Some s -> huff_valid bits s.
Proof.
  induction fuel as [|f IH]; intros bits s H.
  - cbn [bit_decode] in H. destruct (is_padding bits) eqn:Ep; [|discriminate].
    inversion H; subst s. destruct (is_padding_inv bits Ep) as [Hl Ha].
    split; [constructor|]. exists bits. split; [reflexivity|split; assumption].
  - cbn [bit_decode] in H. destruct (is_padding bits) eqn:Ep.
    + inversion H; subst s. destruct (is_padding_inv bits Ep) as [Hl Ha].
      split; [constructor|]. exists bits. split; [reflexivity|split; assumption].
    + destruct (sym_match bits) as [c|] eqn:Es; [|discriminate].
      destruct (sym_match_inv bits c Es) as [Hc [r Hr]]. subst bits.
      rewrite (skipn_app_exact (code_bits c)) in H by (symmetry; apply code_bits_length).
      destruct (bit_decode f r) as [s'|] eqn:Er; [|discriminate]. inversion H; subst s.
      destruct (IH r s' Er) as [Hs' [pad [Hp [Hl Ha]]]].
      split; [constructor; assumption|]. exists pad. split; [|split; assumption].
      subst r. unfold huff_bits. cbn [flat_map]. rewrite <- app_assoc. reflexivity.
Qed.
Lemma bytes_bits_length v : length (bytes_bits v) = (length v * 8)%nat.
Proof.
  induction v as [|b l IH]; [reflexivity|]. cbn [bytes_bits flat_map]. rewrite app_length. fold (bytes_bits l).
  rewrite IH. unfold byte_bits. rewrite bits_msb_length. simpl. lia.
Qed.
Theorem rfc_huff_decode_iff v s : rfc_huff_decode v = Some s <-> huff_valid (bytes_bits v) s.
Proof.
  unfold rfc_huff_decode. split; [apply bit_decode_sound|].
  intros [Hs [pad [Hb [Hl Ha]]]]. rewrite Hb. apply bit_decode_roundtrip; try assumption.
  pose proof (huff_bits_length_ge s Hs). pose proof (bytes_bits_length v) as Hlen.
  rewrite Hb, app_length in Hlen. lia.
Qed.

(* ---------- integers and strings: model reader vs RFC reference ---------- *)
Definition rd_rfc {A} (a : rd A) (b : rfc A) : Prop :=
  match a, b with
  | ROk v r, Good v' r' => v = v' /\ r = r'
  | RNeedMore, Bad => True
  | RErr c, Bad => 0 < c
  | _, _ => False
  end.

Lemma varint_loop_rfc : forall p k i m, wf_bytes p = true -> (k <= 8)%nat -> m = 7 * (8 - Z.of_nat k) ->
  rd_rfc (varint_loop p i m) (rfc_int_cont k p i m).
Proof.
  induction p as [|b r IH]; intros k i m Hw Hk Hm; [destruct k; first [exact I | assumption | reflexivity]|].
  cbn [wf_bytes forallb] in Hw. apply andb_true_iff in Hw. destruct Hw as [Hb Hw]. unfold wf_byte in Hb.
  assert (b <? 128 = true -> b mod 128 = b) as Hsmall by (intros; apply Z.mod_small; lia).
  assert (b <? 128 = false -> b mod 128 = b - 128) as Hmod.
  { intros. symmetry. apply Z.mod_unique with (q := 1); lia. }
  destruct k as [|k']; cbn [varint_loop rfc_int_cont]; destruct (b <? 128) eqn:E.
  - rewrite (Hsmall eq_refl). split; reflexivity.
  - assert (m + 7 >=? 63 = true) as -> by lia. first [exact I | assumption | reflexivity].
  - rewrite (Hsmall eq_refl). split; reflexivity.
  - assert (m + 7 >=? 63 = false) as -> by lia. rewrite (Hmod eq_refl). apply IH; [exact Hw|lia|lia].
Qed.
Theorem read_varint_rfc n p : 0 <= n -> wf_bytes p = true -> rd_rfc (read_varint n p) (rfc_int n p).
Proof.
  intros Hn Hw. destruct p as [|b r]; [first [exact I | assumption | reflexivity]|]. cbn [read_varint rfc_int].
  cbn [wf_bytes forallb] in Hw. apply andb_true_iff in Hw. destruct Hw as [_ Hw].
  assert (0 < 2 ^ n) as Hp by (apply Z.pow_pos_nonneg; lia).
  pose proof (Z.mod_pos_bound b (2 ^ n) Hp) as Hb.
  remember (b mod 2 ^ n) as x. remember (2 ^ n) as y. clear Heqx Heqy.
  destruct (x <? y - 1) eqn:E1, (x =? y - 1) eqn:E2; try lia.
  - split; reflexivity.
  - apply varint_loop_rfc; [exact Hw|lia|reflexivity].
Qed.

Lemma wf_bytes_skipn p k : wf_bytes p = true -> wf_bytes (skipn k p) = true.
Proof.
  unfold wf_bytes. rewrite !forallb_forall. intros H x Hx. apply H.
  rewrite <- (firstn_skipn k p). apply in_or_app. right. exact Hx.
Qed.

Theorem read_string_rfc p : wf_bytes p = true -> rd_rfc (read_string huff_decode_spec p) (rfc_string p).
Proof.
  intros Hw. destruct p as [|b0 r0]; [first [exact I | assumption | reflexivity]|]. unfold read_string, rfc_string.
  pose proof (read_varint_rfc 7 (b0 :: r0) ltac:(lia) Hw) as Hv.
  destruct (read_varint 7 (b0 :: r0)) as [len r| |c|] eqn:E1; destruct (rfc_int 7 (b0 :: r0)) as [len' r'|] eqn:E2;
    cbn [rd_rfc] in Hv; try contradiction; try first [exact I | assumption | reflexivity].
  destruct Hv as [<- <-].
  destruct (blen r <? len) eqn:El.
  - assert (len >? blen r = true) as -> by lia. first [exact I | assumption | reflexivity].
  - assert (len >? blen r = false) as -> by lia.
    destruct (128 <=? b0) eqn:Eb.
    + assert (b0 <? 128 = false) as -> by lia. unfold huff_decode_spec.
      destruct (rfc_huff_decode (firstn (Z.to_nat len) r)); [split; reflexivity|first [exact I | assumption | reflexivity]].
    + assert (b0 <? 128 = true) as -> by lia. split; reflexivity.
Qed.

(* ---------- dynamic table: Go's evict-from-the-front loop vs the RFC "newest entries that fit" ---------- *)
Lemma tsum_rev l : tsum (rev l) = tsum l.
Proof. induction l as [|f l IH]; [reflexivity|]. cbn [rev]. rewrite tsum_app, IH. simpl. lia. Qed.
Lemma rfc_fit_all l : forall mx, tsum l <= mx -> rfc_fit l mx = l.
Proof.
  induction l as [|f l IH]; intros mx H; [reflexivity|]. cbn [rfc_fit]. simpl in H.
  pose proof (tsum_nonneg l). assert (fsize f <=? mx = true) as -> by lia. rewrite IH by lia. reflexivity.
Qed.
Lemma rfc_fit_drop l e : forall mx, tsum (l ++ [e]) > mx -> rfc_fit (l ++ [e]) mx = rfc_fit l mx.
Proof.
  induction l as [|f l IH]; intros mx H.
  - simpl in H. cbn [app rfc_fit]. assert (fsize e <=? mx = false) as -> by lia. reflexivity.
  - cbn [app rfc_fit]. destruct (fsize f <=? mx) eqn:E; [|reflexivity].
    rewrite IH; [reflexivity|]. cbn [app tsum fold_right] in H. fold (tsum (l ++ [e])) in H. lia.
Qed.
Lemma rev_fit es : forall mx, rev (fit es mx) = rfc_fit (rev es) mx.
Proof.
  induction es as [|e r IH]; intros mx; [reflexivity|].
  cbn [fit]. destruct (tsum (e :: r) >? mx) eqn:E.
  - rewrite IH. cbn [rev]. rewrite rfc_fit_drop; [reflexivity|]. rewrite tsum_app, tsum_rev. simpl in *. lia.
  - rewrite rfc_fit_all; [reflexivity|]. rewrite tsum_rev. lia.
Qed.

Definition trel (d : dyntab) (t : rtab) : Prop := rents t = rev (ents d) /\ rmax t = dmax d /\ tab_ok d.

Lemma lookup_rel d t i : trel d t -> dec_at d i = rfc_lookup (rents t) i.
Proof.
  intros [Hr [_ _]]. unfold dec_at, rfc_lookup. rewrite Hr, rev_length, static_len_61.
  destruct (i <? 1) eqn:E1, (i >? Z.of_nat (length (ents d)) + 61) eqn:E2, (i <=? 61) eqn:E3, (1 <=? i) eqn:E4,
    (61 <? i) eqn:E5, (i <=? 61 + Z.of_nat (length (ents d))) eqn:E6; cbn [andb]; try reflexivity; try (exfalso; lia).
  unfold pairs_newest_first. rewrite nth_error_map. reflexivity.
Qed.

Lemma varint_loop_wf : forall p i m v r, wf_bytes p = true -> varint_loop p i m = ROk v r -> wf_bytes r = true /\ (0 <= i -> 0 <= m -> 0 <= v).
Proof.
  induction p as [|b p IH]; intros i m v r Hw H; [discriminate|].
  cbn [wf_bytes forallb] in Hw. apply andb_true_iff in Hw. destruct Hw as [Hb Hw]. unfold wf_byte in Hb.
  cbn [varint_loop] in H. pose proof (Z.mod_pos_bound b 128 ltac:(lia)) as Hmb.
  destruct (b <? 128).
  - inversion H; subst. split; [exact Hw|]. intros Hi Hm. assert (0 < 2 ^ m) by (apply Z.pow_pos_nonneg; lia). nia.
  - destruct (m + 7 >=? 63); [discriminate|]. destruct (IH _ _ _ _ Hw H) as [H1 H2]. split; [exact H1|].
    intros Hi Hm. apply H2; [|lia]. assert (0 < 2 ^ m) by (apply Z.pow_pos_nonneg; lia). nia.
Qed.
Lemma read_varint_wf n p v r : 0 <= n -> wf_bytes p = true -> read_varint n p = ROk v r -> wf_bytes r = true /\ 0 <= v.
Proof.
  intros Hn Hw H. destruct p as [|b p]; [discriminate|].
  cbn [wf_bytes forallb] in Hw. apply andb_true_iff in Hw. destruct Hw as [Hb Hw].
  cbn [read_varint] in H. assert (0 < 2 ^ n) as Hp by (apply Z.pow_pos_nonneg; lia).
  pose proof (Z.mod_pos_bound b (2 ^ n) Hp) as Hmb.
  destruct (b mod 2 ^ n <? 2 ^ n - 1).
  - inversion H; subst. split; [exact Hw|lia].
  - destruct (varint_loop_wf _ _ _ _ _ Hw H) as [H1 H2]. split; [exact H1|apply H2; lia].
Qed.
Lemma read_string_wf hd p s r : wf_bytes p = true -> read_string hd p = ROk s r -> wf_bytes r = true.
Proof.
  intros Hw H. destruct p as [|b0 p0]; [discriminate|]. unfold read_string in H.
  destruct (read_varint 7 (b0 :: p0)) as [len r0| | |] eqn:E; try discriminate.
  destruct (read_varint_wf 7 _ _ _ ltac:(lia) Hw E) as [Hw0 _].
  destruct (blen r0 <? len); [discriminate|].
  destruct (128 <=? b0).
  - destruct (hd (firstn (Z.to_nat len) r0)); try discriminate. inversion H; subst. apply wf_bytes_skipn. exact Hw0.
  - inversion H; subst. apply wf_bytes_skipn. exact Hw0.
Qed.

(* one representation: the decoder model with the RFC Huffman decoder refines rfc_repr *)
Definition res_rel (d : dyntab) (a : rd (dyntab * option field)) (b : rfc (rtab * option field)) : Prop :=
  match a, b with
  | ROk (d', o) r, Good (t', o') r' => trel d' t' /\ dallowed d' = dallowed d /\ o = o' /\ r = r' /\ wf_bytes r = true
  | RNeedMore, Bad => True
  | RErr c, Bad => 0 < c
  | _, _ => False
  end.

Lemma trel_add d t f : trel d t ->
  exists d', dt_add d f = Some d' /\ trel d' (mkR (rfc_fit (f :: rents t) (rmax t)) (rmax t)) /\ dallowed d' = dallowed d.
Proof.
  intros [Hr [Hm Hok]]. rewrite (dt_add_ok d f Hok). eexists. split; [reflexivity|]. split; [|reflexivity].
  unfold trel. cbn [rents rmax ents dmax]. rewrite rev_fit, rev_app_distr, Hr, Hm. cbn [rev app].
  split; [reflexivity|split; [reflexivity|apply tab_ok_add; exact Hok]].
Qed.
Lemma trel_set_max d t v : trel d t -> 0 <= v ->
  exists d', dt_set_max d v = Some d' /\ trel d' (mkR (rfc_fit (rents t) v) v) /\ dallowed d' = dallowed d.
Proof.
  intros [Hr [Hm Hok]] Hv. rewrite (dt_set_max_ok d v Hok Hv). eexists. split; [reflexivity|]. split; [|reflexivity].
  unfold trel. cbn [rents rmax ents dmax]. rewrite rev_fit, Hr.
  split; [reflexivity|split; [reflexivity|apply tab_ok_set_max; exact Hv]].
Qed.

Definition rfc_literal (t : rtab) (n : Z) (incr sens : bool) (p : bytes) : rfc (rtab * option field) :=
  match rfc_int n p with
  | Good idx r =>
    match rfc_name t idx r with
    | Good nm r1 =>
      match rfc_string r1 with
      | Good v r2 =>
        let t' := if incr then mkR (rfc_fit (mkF nm v false :: rents t) (rmax t)) (rmax t) else t in
        Good (t', Some (mkF nm v sens)) r2
      | Bad => Bad
      end
    | Bad => Bad
    end
  | Bad => Bad
  end.

Lemma literal_rfc d t p n it incr sens : 0 <= n -> wf_bytes p = true -> trel d t ->
  (it =? 0) = incr -> (it =? 2) = sens ->
  res_rel d (parse_literal huff_decode_spec d n it p) (rfc_literal t n incr sens p).
Proof.
  intros Hn Hw Hrel Hi Hs. unfold parse_literal, rfc_literal.
  pose proof (read_varint_rfc n p Hn Hw) as Hv.
  destruct (read_varint n p) as [idx r| |c|] eqn:E1; destruct (rfc_int n p) as [idx' r'|] eqn:E2;
    cbn [rd_rfc] in Hv; try contradiction; try first [exact I | assumption | reflexivity].
  destruct Hv as [<- <-]. destruct (read_varint_wf n _ _ _ Hn Hw E1) as [Hwr Hidx].
  unfold rfc_name.
  assert (exists (a : rd bytes) (b : rfc bytes),
            (if idx >? 0 then match dec_at d idx with Some (nm, _) => ROk nm r | None => RErr E_INDEX end
             else read_string huff_decode_spec r) = a /\
            (if idx =? 0 then rfc_string r
             else match rfc_lookup (rents t) idx with Some (n0, _) => Good n0 r | None => Bad end) = b /\
            rd_rfc a b /\ (forall nm r1, a = ROk nm r1 -> wf_bytes r1 = true)) as [a [b [Ha [Hb [Hab Hwf]]]]].
  { destruct (idx =? 0) eqn:E0.
    - assert (idx >? 0 = false) as -> by lia. eexists; eexists. split; [reflexivity|split; [reflexivity|]].
      split; [apply read_string_rfc; exact Hwr|]. intros nm r1 H. eapply read_string_wf; eassumption.
    - assert (idx >? 0 = true) as -> by lia. rewrite <- (lookup_rel d t idx Hrel).
      eexists; eexists. split; [reflexivity|split; [reflexivity|]].
      destruct (dec_at d idx) as [[nm x]|]; cbn [rd_rfc]; [|split; [first [exact I | assumption | reflexivity]|intros; discriminate]].
      split; [split; reflexivity|]. intros nm' r1 H. inversion H; subst. exact Hwr. }
  rewrite Ha, Hb. destruct a as [nm r1| |c|]; destruct b as [nm' r1'|]; cbn [rd_rfc] in Hab; try contradiction; try first [exact I | assumption | reflexivity].
  destruct Hab as [<- <-]. specialize (Hwf nm r1 eq_refl).
  pose proof (read_string_rfc r1 Hwf) as Hsv.
  destruct (read_string huff_decode_spec r1) as [v r2| |c|] eqn:E3; destruct (rfc_string r1) as [v' r2'|];
    cbn [rd_rfc] in Hsv; try contradiction; try first [exact I | assumption | reflexivity].
  destruct Hsv as [<- <-]. pose proof (read_string_wf _ _ _ _ Hwf E3) as Hw2.
  rewrite Hi, Hs. destruct incr.
  - destruct (trel_add d t (mkF nm v false) Hrel) as [d' [Hadd [Hrel' Hal]]]. rewrite Hadd.
    cbn [res_rel]. repeat split; try assumption; try reflexivity; apply Hrel'.
  - cbn [res_rel]. repeat split; try assumption; try reflexivity; apply Hrel.
Qed.

Lemma parse_repr_rfc first d t p : wf_bytes p = true -> trel d t ->
  res_rel d (parse_repr huff_decode_spec first d p) (rfc_repr (dallowed d) first t p).
Proof.
  intros Hw Hrel. destruct p as [|b p0]; [first [exact I | assumption | reflexivity]|]. unfold parse_repr, rfc_repr.
  destruct (128 <=? b) eqn:E128.
  - unfold parse_indexed.
    pose proof (read_varint_rfc 7 (b :: p0) ltac:(lia) Hw) as Hv.
    destruct (read_varint 7 (b :: p0)) as [idx r| |c|] eqn:E1; destruct (rfc_int 7 (b :: p0)) as [idx' r'|] eqn:E2;
      cbn [rd_rfc] in Hv; try contradiction; try first [exact I | assumption | reflexivity].
    destruct Hv as [<- <-]. destruct (read_varint_wf 7 _ _ _ ltac:(lia) Hw E1) as [Hwr _].
    rewrite <- (lookup_rel d t idx Hrel). destruct (dec_at d idx) as [[n v]|]; [|first [exact I | assumption | reflexivity]].
    cbn [res_rel]. repeat split; try assumption; try reflexivity; apply Hrel.
  - destruct (64 <=? b) eqn:E64.
    + assert ((32 <=? b) && (b <? 64) = false) as -> by lia.
      assert ((16 <=? b) && (b <? 32) = false) as -> by lia.
      apply (literal_rfc d t (b :: p0) 6 0 true false); auto; lia.
    + destruct (b <? 16) eqn:E16.
      * assert ((32 <=? b) && (b <? 64) = false) as -> by lia.
        assert ((16 <=? b) && (b <? 32) = false) as -> by lia.
        apply (literal_rfc d t (b :: p0) 4 1 false false); auto; lia.
      * destruct (b <? 32) eqn:E32.
        -- assert ((32 <=? b) && (b <? 64) = false) as -> by lia.
           assert (16 <=? b = true) as -> by lia. cbn [andb].
           apply (literal_rfc d t (b :: p0) 4 2 false true); auto; lia.
        -- assert ((32 <=? b) && (b <? 64) = true) as -> by lia.
           unfold parse_size_update. destruct first; cbn [negb]; [|reflexivity].
           pose proof (read_varint_rfc 5 (b :: p0) ltac:(lia) Hw) as Hv.
           destruct (read_varint 5 (b :: p0)) as [v r| |c|] eqn:E1; destruct (rfc_int 5 (b :: p0)) as [v' r'|] eqn:E2;
             cbn [rd_rfc] in Hv; try contradiction; try first [exact I | assumption | reflexivity].
           destruct Hv as [<- <-]. destruct (read_varint_wf 5 _ _ _ ltac:(lia) Hw E1) as [Hwr Hv0].
           destruct (v >? dallowed d) eqn:Ev.
           ++ assert (v <=? dallowed d = false) as -> by lia. first [exact I | assumption | reflexivity].
           ++ assert (v <=? dallowed d = true) as -> by lia.
              destruct (trel_set_max d t v Hrel Hv0) as [d' [Hset [Hrel' Hal]]]. rewrite Hset.
              cbn [res_rel]. repeat split; try assumption; try reflexivity; apply Hrel'.
Qed.

(* ---------- whole block ---------- *)
Definition loop_rel (acc : list field) (a : dec * list field * Z) (b : option (rtab * list field)) : Prop :=
  let '(dd, acc', st) := a in
  st <> ST_PANIC /\
  match b with
  | Some (t', fs) => st = 0 /\ dsave dd = [] /\ acc' = rev fs ++ acc /\ trel (ddt dd) t'
  | None => st <> 0 \/ dsave dd <> []
  end.

Lemma parse_loop_rfc : forall fuel first d t p acc, wf_bytes p = true -> trel d t ->
  loop_rel acc (parse_loop huff_decode_spec fuel first d p acc) (rfc_block fuel (dallowed d) first t p).
Proof.
  induction fuel as [|f IH]; intros first d t p acc Hw Hrel.
  - destruct p as [|b p0]; cbn [parse_loop rfc_block loop_rel].
    + split; [discriminate|]. cbn [dsave ddt]. split; [reflexivity|split; [reflexivity|split; [reflexivity|exact Hrel]]].
    + split; [discriminate|]. left. discriminate.
  - destruct p as [|b p0]; cbn [parse_loop rfc_block].
    + cbn [loop_rel]. split; [discriminate|]. cbn [dsave ddt]. split; [reflexivity|split; [reflexivity|split; [reflexivity|exact Hrel]]].
    + pose proof (parse_repr_rfc first d t (b :: p0) Hw Hrel) as Hr.
      destruct (parse_repr huff_decode_spec first d (b :: p0)) as [[d' o] rest| |c|] eqn:E1;
        destruct (rfc_repr (dallowed d) first t (b :: p0)) as [[t' o'] rest'|] eqn:E2; cbn [res_rel] in Hr; try contradiction.
      * destruct Hr as [Hrel' [Hal [<- [<- Hwr]]]].
        specialize (IH (next_first first o) d' t' rest (match o with Some x => x :: acc | None => acc end) Hwr Hrel'). unfold next_first in IH.
        rewrite Hal in IH.
        unfold next_first.
        destruct (parse_loop huff_decode_spec f (match o with Some _ => false | None => first end) d' rest (match o with Some x => x :: acc | None => acc end)) as [[dd acc'] st].
        destruct (rfc_block f (dallowed d) (match o with Some _ => false | None => first end) t' rest) as [[t'' fs]|]; cbn [loop_rel] in *.
        -- destruct IH as [Hnp [Hst [Hsv [Hacc Hrel'']]]]. split; [exact Hnp|].
           split; [exact Hst|split; [exact Hsv|split; [|exact Hrel'']]].
           rewrite Hacc. destruct o; cbn [rev]; [rewrite <- app_assoc|]; reflexivity.
        -- exact IH.
      * cbn [loop_rel]. split; [discriminate|]. right. cbn [dsave]. discriminate.
      * cbn [loop_rel]. unfold ST_PANIC. split; [lia|left; lia].
Qed.
