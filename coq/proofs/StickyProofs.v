(* C02 proofs: (1) the subtract-and-test walk of stickyBalance / subClusterBalance gives each target exactly
   the residue interval [prefix, prefix + weight); (2) the key-sorted list, hence the pick, does not depend on
   the order of the configuration when the keys are distinct; (3) the `single` short-cut is consistent. *)
From Coq Require Import List ZArith Lia Bool Arith Permutation.
From Bfe Require Import lib.Val model.Sticky.
Import ListNotations.
Open Scope Z_scope.

(* ---------------------------------------------------------------- the byte-string order *)
Lemma key_ltb_irrefl a : key_ltb a a = false.
Proof. induction a as [|x a IH]; simpl; [reflexivity|]. rewrite Z.ltb_irrefl. exact IH. Qed.

Lemma key_ltb_trans : forall a b c, key_ltb a b = true -> key_ltb b c = true -> key_ltb a c = true.
Proof.
  induction a as [|x a IH]; intros [|y b] [|z c] H1 H2; simpl in *; try discriminate; try reflexivity.
  destruct (Z.ltb_spec x y), (Z.ltb_spec y z), (Z.ltb_spec x z); try reflexivity; try lia;
    destruct (Z.ltb_spec y x), (Z.ltb_spec z y), (Z.ltb_spec z x); try discriminate; try lia.
  eapply IH; eassumption.
Qed.

Lemma key_ltb_asym : forall a b, key_ltb a b = true -> key_ltb b a = false.
Proof.
  intros a b H. destruct (key_ltb b a) eqn:E; [|reflexivity].
  pose proof (key_ltb_trans a b a H E) as C. rewrite key_ltb_irrefl in C. discriminate.
Qed.

Lemma key_total : forall a b, key_ltb a b = false -> key_ltb b a = false -> a = b.
Proof.
  induction a as [|x a IH]; intros [|y b] H1 H2; simpl in *; try discriminate; [reflexivity|].
  destruct (Z.ltb_spec x y); [discriminate|]. destruct (Z.ltb_spec y x); [discriminate|].
  assert (x = y) by lia. subst. f_equal. apply IH; assumption.
Qed.

Definition kle (a b : key) : Prop := key_ltb b a = false.
Lemma kle_trans a b c : kle a b -> kle b c -> kle a c.
Proof.
  unfold kle. intros H1 H2. destruct (key_ltb c a) eqn:E; [|reflexivity]. exfalso.
  destruct (key_ltb b c) eqn:E2.
  - pose proof (key_ltb_trans b c a E2 E) as C. congruence.
  - assert (b = c) by (apply key_total; assumption). subst. congruence.
Qed.

Lemma key_eqb_eq a b : key_eqb a b = true <-> a = b.
Proof.
  revert b; induction a as [|x a IH]; intros [|y b]; simpl; split; intro H; try reflexivity; try discriminate.
  - apply andb_true_iff in H. destruct H as [H1 H2]. apply Z.eqb_eq in H1. apply IH in H2. congruence.
  - inversion H; subst. rewrite Z.eqb_refl. simpl. apply IH. reflexivity.
Qed.

Lemma distinct_keys_NoDup l : distinct_keys l = true <-> NoDup l.
Proof.
  induction l as [|k r IH]; simpl; split; intro H; try reflexivity; try constructor.
  - apply andb_true_iff in H. destruct H as [H1 _]. intro Hin.
    assert (existsb (key_eqb k) r = true) by (apply existsb_exists; exists k; split; [exact Hin|apply key_eqb_eq; reflexivity]).
    rewrite H in H1. discriminate.
  - apply IH. apply andb_true_iff in H. tauto.
  - inversion H; subst. apply andb_true_iff. split; [|apply IH; assumption].
    destruct (existsb (key_eqb k) r) eqn:E; [|reflexivity]. apply existsb_exists in E. destruct E as [x [Hx Hk]].
    apply key_eqb_eq in Hk. subst. contradiction.
Qed.

(* ---------------------------------------------------------------- insertion sort *)
Inductive sorted : list target -> Prop :=
| sorted_nil : sorted []
| sorted_cons t l : (forall u, In u l -> kle (t_key t) (t_key u)) -> sorted l -> sorted (t :: l).

Lemma insert_perm t l : Permutation (insert t l) (t :: l).
Proof.
  induction l as [|u r IH]; simpl; [reflexivity|].
  destruct (key_ltb (t_key u) (t_key t)); [|reflexivity].
  rewrite IH. apply perm_swap.
Qed.
Lemma sort_perm l : Permutation (sort_targets l) l.
Proof. induction l as [|t r IH]; simpl; [reflexivity|]. rewrite insert_perm. constructor. exact IH. Qed.

Lemma insert_sorted t l : sorted l -> sorted (insert t l).
Proof.
  induction 1 as [|u r Hu Hs IH]; simpl.
  - constructor; [intros ? []|constructor].
  - destruct (key_ltb (t_key u) (t_key t)) eqn:E.
    + constructor; [|exact IH]. intros v Hv.
      apply (Permutation_in _ (insert_perm t r)) in Hv. destruct Hv as [Hv|Hv].
      * subst v. unfold kle. apply key_ltb_asym. exact E.
      * apply Hu. exact Hv.
    + constructor; [|constructor; assumption]. intros v [Hv|Hv].
      * subst v. exact E.
      * apply (kle_trans _ (t_key u)); [exact E|apply Hu; exact Hv].
Qed.
Lemma sort_sorted l : sorted (sort_targets l).
Proof. induction l as [|t r IH]; simpl; [constructor|]. apply insert_sorted. exact IH. Qed.

(* two sorted lists with the same elements and pairwise distinct keys are equal *)
Lemma sorted_unique : forall l1 l2, sorted l1 -> sorted l2 -> Permutation l1 l2 ->
  NoDup (map t_key l1) -> l1 = l2.
Proof.
  induction l1 as [|a l1 IH]; intros l2 H1 H2 Hp Hnd.
  - apply Permutation_nil in Hp. congruence.
  - destruct l2 as [|b l2]; [apply Permutation_sym, Permutation_nil in Hp; discriminate|].
    inversion H1 as [|? ? Ha Hs1]; subst. inversion H2 as [|? ? Hb Hs2]; subst.
    inversion Hnd as [|? ? Hna Hnd']; subst.
    assert (Hab : a = b).
    { assert (Hin1 : In a (b :: l2)) by (apply (Permutation_in _ Hp); left; reflexivity).
      assert (Hin2 : In b (a :: l1)) by (apply (Permutation_in _ (Permutation_sym Hp)); left; reflexivity).
      destruct Hin1 as [E|Hin1]; [congruence|]. destruct Hin2 as [E|Hin2]; [congruence|].
      exfalso. pose proof (Ha b Hin2) as L1. pose proof (Hb a Hin1) as L2. unfold kle in *.
      assert (t_key a = t_key b) by (apply key_total; assumption).
      apply Hna. rewrite H. apply in_map. exact Hin2. }
    subst b. f_equal. apply IH; try assumption. apply Permutation_cons_inv in Hp. exact Hp.
Qed.

Theorem sort_order_independent l l' :
  Permutation l l' -> NoDup (map t_key l) -> sort_targets l = sort_targets l'.
Proof.
  intros Hp Hnd. apply sorted_unique; try apply sort_sorted.
  - rewrite sort_perm, Hp. symmetry. apply sort_perm.
  - apply (Permutation_NoDup (l := map t_key l)); [|exact Hnd]. apply Permutation_map. symmetry. apply sort_perm.
Qed.

Theorem sticky_order_independent l l' h :
  Permutation l l' -> NoDup (map t_key l) -> sticky l h = sticky l' h.
Proof. intros Hp Hnd. unfold sticky, cands. rewrite (sort_order_independent l l' Hp Hnd). reflexivity. Qed.
Theorem sub_pick_order_independent l l' h :
  Permutation l l' -> NoDup (map t_key l) -> sub_pick l h = sub_pick l' h.
Proof. intros Hp Hnd. unfold sub_pick, sub_cands. rewrite (sort_order_independent l l' Hp Hnd). reflexivity. Qed.

(* ---------------------------------------------------------------- walk = interval ownership *)
Lemma walk_owner : forall ts lo v, lo <= v -> walk ts (v - lo) = owner ts lo v.
Proof.
  induction ts as [|[k w] r IH]; intros lo v H; simpl; [reflexivity|].
  destruct (Z.ltb_spec (v - lo - w) 0) as [Hlt|Hge].
  - destruct (Z.leb_spec lo v); [|lia]. destruct (Z.ltb_spec v (lo + w)); [reflexivity|lia].
  - destruct (Z.ltb_spec v (lo + w)); [lia|]. rewrite andb_false_r.
    replace (v - lo - w) with (v - (lo + w)) by lia. apply IH. lia.
Qed.

Fixpoint prefix (ts : list (key * Z)) (i : nat) : Z :=
  match i, ts with
  | S i', (_, w) :: r => w + prefix r i'
  | _, _ => 0
  end.

(* residue partition: with positive weights and 0 <= v < W the walk returns the target whose interval
   [prefix_i, prefix_i + w_i) contains v (so it never falls through to "never come here") *)
Theorem walk_interval : forall ts v,
  Forall (fun t => 0 < snd t) ts -> 0 <= v < sumw ts ->
  exists i k w, nth_error ts i = Some (k, w) /\ walk ts v = Some k /\ prefix ts i <= v < prefix ts i + w.
Proof.
  induction ts as [|[k w] r IH]; intros v Hpos Hv; simpl in Hv; [lia|].
  inversion Hpos as [|? ? Hw Hr]; subst. simpl in Hw. simpl walk.
  destruct (Z.ltb_spec (v - w) 0) as [Hlt|Hge].
  - exists 0%nat, k, w. simpl. split; [reflexivity|]. split; [reflexivity|lia].
  - destruct (IH (v - w) Hr) as [i [k' [w' [Hn [Hwk Hint]]]]]; [lia|].
    exists (S i), k', w'. simpl. split; [exact Hn|]. split; [exact Hwk|lia].
Qed.

(* the interval determines the target: ownership is a function of the residue *)
Theorem owner_interval : forall ts lo v i k w,
  Forall (fun t => 0 < snd t) ts -> nth_error ts i = Some (k, w) ->
  lo + prefix ts i <= v < lo + prefix ts i + w -> owner ts lo v = Some k.
Proof.
  induction ts as [|[k0 w0] r IH]; intros lo v i k w Hpos Hn Hv; [destruct i; discriminate|].
  inversion Hpos as [|? ? Hw Hr]; subst. simpl in Hw. destruct i as [|i]; simpl in *.
  - inversion Hn; subst. destruct (Z.leb_spec lo v); [|lia]. destruct (Z.ltb_spec v (lo + w)); [reflexivity|lia].
  - assert (0 <= prefix r i).
    { clear - Hr. revert i. induction r as [|[k1 w1] r IHr]; intros [|i]; simpl; try lia.
      inversion Hr; subst. simpl in *. specialize (IHr H2 i). lia. }
    destruct (Z.ltb_spec v (lo + w0)); [lia|]. rewrite andb_false_r.
    apply (IH (lo + w0) v i k w Hr Hn). lia.
Qed.

Lemma sumw_pos ts : ts <> [] -> Forall (fun t => 0 < snd t) ts -> 0 < sumw ts.
Proof.
  destruct ts as [|t r]; [congruence|]. intros _ H. inversion H; subst. simpl.
  assert (0 <= sumw r). { clear - H3. induction r as [|x r IH]; simpl; [lia|]. inversion H3; subst. specialize (IH H2). lia. }
  lia.
Qed.

(* ---------------------------------------------------------------- model = specification *)
Lemma cands_pos bs : Forall (fun t => 0 < snd t) (cands bs).
Proof.
  unfold cands. apply Forall_forall. intros [k w] Hin. apply in_map_iff in Hin. destruct Hin as [t [E Hin]].
  inversion E; subst. apply filter_In in Hin. destruct Hin as [_ Hf]. apply andb_true_iff in Hf. destruct Hf as [_ Hf].
  apply Z.ltb_lt in Hf. simpl. exact Hf.
Qed.
Lemma sub_cands_pos bs : Forall (fun t => 0 < snd t) (sub_cands bs).
Proof.
  unfold sub_cands. apply Forall_forall. intros [k w] Hin. apply in_map_iff in Hin. destruct Hin as [t [E Hin]].
  inversion E; subst. apply filter_In in Hin. destruct Hin as [_ Hf]. apply Z.ltb_lt in Hf. simpl. exact Hf.
Qed.

Lemma walk_mod_owner cs h : cs <> [] -> Forall (fun t => 0 < snd t) cs ->
  walk cs (h mod sumw cs) = owner cs 0 (h mod sumw cs).
Proof.
  intros Hne Hpos. pose proof (sumw_pos cs Hne Hpos) as Hw.
  pose proof (Z.mod_pos_bound h (sumw cs) Hw) as Hb.
  rewrite <- (walk_owner cs 0 (h mod sumw cs)) by lia. f_equal. lia.
Qed.

Lemma spec_el_sticky bs :
  map (fun t => (t_key t, 100 * t_w t))
      (filter (fun t => (negb true || t_av t) && (0 <? t_w t)) (sort_targets bs)) = cands bs.
Proof.
  unfold cands. f_equal. apply filter_ext. intros t. change (negb true || t_av t) with (t_av t). f_equal.
  destruct (Z.ltb_spec 0 (t_w t)), (Z.ltb_spec 0 (100 * t_w t)); try reflexivity; lia.
Qed.
Lemma spec_el_sub bs :
  map (fun t => (t_key t, 1 * t_w t))
      (filter (fun t => (negb false || t_av t) && (0 <? t_w t)) (sort_targets bs)) = sub_cands bs.
Proof.
  unfold sub_cands. rewrite (filter_ext _ (fun t => 0 <? t_w t)) by (intros t; reflexivity).
  apply map_ext. intros t. f_equal. lia.
Qed.

Theorem sticky_spec bs h : sticky bs h = spec_pick 100 true bs h.
Proof.
  unfold sticky, spec_pick. rewrite spec_el_sticky. destruct (cands bs) as [|c r] eqn:E; [reflexivity|].
  apply walk_mod_owner; [discriminate|]. rewrite <- E. apply cands_pos.
Qed.

(* the `single` short-cut returns what the general walk returns *)
Theorem single_consistent k w h : 0 < w -> walk [(k, w)] (h mod sumw [(k, w)]) = Some k.
Proof.
  intros Hw. simpl. replace (w + 0) with w by lia. pose proof (Z.mod_pos_bound h w Hw).
  destruct (Z.ltb_spec (h mod w - w) 0); [reflexivity|lia].
Qed.

Theorem sub_pick_spec subs h : sub_pick subs h = spec_pick 1 false subs h.
Proof.
  unfold sub_pick, spec_pick. rewrite spec_el_sub. pose proof (sub_cands_pos subs) as Hpos.
  destruct (sub_cands subs) as [|[k w] r] eqn:E; [reflexivity|].
  destruct r as [|c2 r].
  - inversion Hpos; subst. simpl in H1. rewrite <- (walk_mod_owner [(k, w)] h); [|discriminate|exact Hpos].
    symmetry. apply single_consistent. exact H1.
  - apply walk_mod_owner; [discriminate|exact Hpos].
Qed.

Theorem gslb_pick_spec subs h : gslb_pick subs h = gslb_spec subs h.
Proof.
  unfold gslb_pick, gslb_spec, gslb_by. rewrite sub_pick_spec.
  destruct (spec_pick 1 false _ h) as [name|]; [|reflexivity].
  destruct (key_eqb name blackhole_name); [reflexivity|]. rewrite sticky_spec. reflexivity.
Qed.

(* ---------------------------------------------------------------- the wire-level statement *)
From Bfe Require Import lib.ValProofs run.RunC02.

Lemma is_perm_Permutation n p : is_perm n p = true -> Permutation (map Z.of_nat (seq 0 n)) p.
Proof.
  unfold is_perm. intros H. apply andb_true_iff in H. destruct H as [Hl Hc]. apply Nat.eqb_eq in Hl.
  apply NoDup_Permutation_bis.
  - apply FinFun.Injective_map_NoDup; [intros x y; apply Nat2Z.inj|apply seq_NoDup].
  - rewrite map_length, seq_length. lia.
  - intros z Hz. apply in_map_iff in Hz. destruct Hz as [i [E Hi]]. subst z.
    rewrite forallb_forall in Hc. specialize (Hc i Hi). apply Nat.eqb_eq in Hc.
    destruct (filter (Z.eqb (Z.of_nat i)) p) as [|x r] eqn:Ef; [discriminate|].
    assert (Hx : In x (filter (Z.eqb (Z.of_nat i)) p)) by (rewrite Ef; left; reflexivity).
    apply filter_In in Hx. destruct Hx as [Hx Hq]. apply Z.eqb_eq in Hq. subst x. exact Hx.
Qed.

Lemma permute_id_gen {X} : forall (l pre : list X),
  flat_map (fun i => match nth_error (pre ++ l) (Z.to_nat i) with Some x => [x] | None => [] end)
           (map Z.of_nat (seq (length pre) (length l))) = l.
Proof.
  induction l as [|x r IH]; intros pre; [reflexivity|].
  cbn [length seq map flat_map]. rewrite Nat2Z.id.
  rewrite nth_error_app2 by lia. rewrite Nat.sub_diag. cbn [nth_error app]. f_equal.
  specialize (IH (pre ++ [x])). rewrite <- app_assoc in IH. cbn [app] in IH.
  rewrite app_length in IH. cbn [length] in IH. rewrite Nat.add_1_r in IH. exact IH.
Qed.
Lemma permute_id {X} (l : list X) : permute l (map Z.of_nat (seq 0 (length l))) = l.
Proof. exact (permute_id_gen l []). Qed.

Lemma permute_Permutation {X} (l : list X) p : is_perm (length l) p = true -> Permutation l (permute l p).
Proof.
  intros H. rewrite <- (permute_id l) at 1. unfold permute. apply Permutation_flat_map.
  apply is_perm_Permutation. exact H.
Qed.

Lemma all_eq_map {X} (v : val) (f : X -> val) l : (forall x, In x l -> f x = v) -> all_eq v (map f l) = true.
Proof.
  intros H. unfold all_eq. apply forallb_forall. intros y Hy. apply in_map_iff in Hy. destruct Hy as [x [E Hx]].
  subst y. rewrite (H x Hx). apply val_eqb_refl.
Qed.

Theorem prop_of_model_sticky : forall bs h k ps l perms,
  dec_targets bs = Some l -> dec_perms (length l) ps = Some perms -> wf_hash h = true ->
  distinct_keys (map t_key l) = true ->
  prop_C02 (VL [VZ 1; bs; VZ h; VB k; ps]) (run_C02 (VL [VZ 1; bs; VZ h; VB k; ps])) = true.
Proof.
  intros bs h k ps l perms Hl Hp Hh Hd. unfold prop_C02, run_C02. rewrite Hl, Hp, Hh, Hd. simpl andb.
  rewrite map_length, Nat.eqb_refl. simpl andb. apply all_eq_map. intros p Hin. f_equal.
  rewrite <- sticky_spec. symmetry. apply sticky_order_independent.
  - apply permute_Permutation. unfold dec_perms in Hp. destruct ps as [| |pl]; try discriminate.
    destruct (all_some (map as_LZ pl)) as [pp|]; [|discriminate].
    destruct (forallb (is_perm (length l)) pp) eqn:Ef; [|discriminate]. inversion Hp; subst.
    rewrite forallb_forall in Ef. apply Ef. exact Hin.
  - apply distinct_keys_NoDup. exact Hd.
Qed.

Theorem prop_of_model_gslb : forall ss h st k n subs,
  dec_subs ss = Some subs -> wf_hash h = true -> 0 <= n <= 8 ->
  distinct_keys (map (fun s : subc => fst (fst s)) subs) = true ->
  forallb (fun s : subc => distinct_keys (map t_key (snd s))) subs = true ->
  prop_C02 (VL [VZ 2; ss; VZ h; VZ st; VB k; VZ n]) (run_C02 (VL [VZ 2; ss; VZ h; VZ st; VB k; VZ n])) = true.
Proof.
  intros ss h st k n subs Hs Hh Hn Hd1 Hd2. unfold prop_C02, run_C02. rewrite Hs, Hh, Hd1, Hd2.
  destruct (Z.leb_spec 0 n); [|lia]. destruct (Z.leb_spec n 8); [|lia]. simpl andb. cbv iota.
  rewrite repeat_length, Z2Nat.id by lia. rewrite Z.eqb_refl. simpl andb.
  unfold all_eq. apply forallb_forall. intros y Hy. apply repeat_spec in Hy. subst y.
  rewrite gslb_pick_spec. apply val_eqb_refl.
Qed.

(* ---------------------------------------------------------------- reload histories *)
Lemma hrun_spec : forall ops c, hrun_by sticky c ops = hrun_by (spec_pick 100 true) c ops.
Proof.
  induction ops as [|o r IH]; intros c; [reflexivity|]. destruct o; simpl; rewrite ?IH, ?sticky_spec; reflexivity.
Qed.
Theorem prop_of_model_hist : forall c ops conf os,
  dec_hist c ops = Some (conf, os) ->
  prop_C02 (VL [VZ 3; c; ops]) (run_C02 (VL [VZ 3; c; ops])) = true.
Proof.
  intros c ops conf os H. unfold prop_C02, run_C02. rewrite H, hrun_spec. apply val_eqb_refl.
Qed.
(* the pick after any history depends only on the current configuration as a set: any two balancers whose
   current lists are permutations of each other (distinct AddrInfo) answer every later pick identically *)
Theorem hist_pick_order_independent : forall c c' h,
  Permutation c c' -> NoDup (map t_key c) -> sticky c h = sticky c' h.
Proof. exact sticky_order_independent. Qed.
