(* C22, central theorem: the executable predicate prop_C22 accepts every observation list the model produces on a
   well-formed input.  Built on the invariants of BufioProofs (counters) and BufioStreamProofs (stream). *)
From Coq Require Import List ZArith Bool Lia ZifyBool.
From Bfe Require Import lib.Val lib.ValProofs lib.Bytes model.Bufio run.RunC22 proofs.BufioProofs proofs.BufioStreamProofs.
Import ListNotations.
Open Scope Z_scope.

(* ---------- delimiter facts ---------- *)
Lemma mem_byte_app c a b : mem_byte c (a ++ b) = mem_byte c a || mem_byte c b.
Proof. unfold mem_byte. apply existsb_app. Qed.
Lemma index_byte_none c : forall l, index_byte c l = None -> mem_byte c l = false.
Proof.
  induction l as [|x r IH]; intros H; [reflexivity|]. simpl in *. destruct (x =? c) eqn:E; [discriminate|].
  destruct (index_byte c r); [discriminate|]. rewrite Z.eqb_sym, E. apply IH. reflexivity.
Qed.
Lemma index_byte_some c : forall l i, index_byte c l = Some i ->
  exists pre, firstn (S i) l = pre ++ [c] /\ mem_byte c pre = false.
Proof.
  induction l as [|x r IH]; intros i H; [discriminate|]. simpl in H. destruct (x =? c) eqn:E.
  - inversion H; subst. exists []. apply Z.eqb_eq in E. subst. split; reflexivity.
  - destruct (index_byte c r) as [j|] eqn:Ej; [|discriminate]. simpl in H. inversion H; subst.
    destruct (IH j eq_refl) as [pre [Hp Hm]]. exists (x :: pre). split.
    + change (firstn (S (S j)) (x :: r)) with (x :: firstn (S j) r). rewrite Hp. reflexivity.
    + simpl. rewrite Z.eqb_sym, E. exact Hm.
Qed.
Lemma existsb_rev_own {A} (f : A -> bool) (l : list A) : existsb f (rev l) = existsb f l.
Proof.
  induction l as [|x l IH]; [reflexivity|]. simpl. rewrite existsb_app, IH. simpl. rewrite orb_false_r. apply orb_comm.
Qed.
Lemma line_shape_found c pre : mem_byte c pre = false -> line_shape c (pre ++ [c]) 0 = true.
Proof.
  intros H. unfold line_shape. simpl. rewrite rev_app_distr. simpl. rewrite Z.eqb_refl. unfold mem_byte in *.
  rewrite existsb_rev_own, H. reflexivity.
Qed.
Lemma line_shape_none c d e : e <> 0 -> mem_byte c d = false -> line_shape c d e = true.
Proof. intros He H. unfold line_shape. destruct (e =? 0) eqn:E; [lia|]. rewrite H. reflexivity. Qed.
Lemma line_shape_nodelim c d e : line_shape c d e = true -> e <> 0 -> mem_byte c d = false.
Proof. unfold line_shape. intros H He. destruct (e =? 0) eqn:E; [lia|]. destruct (mem_byte c d); [discriminate|reflexivity]. Qed.
Lemma line_shape_delim c d : line_shape c d 0 = true -> exists pre, d = pre ++ [c] /\ mem_byte c pre = false.
Proof.
  unfold line_shape. simpl. destruct (rev d) as [|x r] eqn:Er; [discriminate|]. intros H.
  apply andb_true_iff in H. destruct H as [Hx Hr]. apply Z.eqb_eq in Hx. subst x.
  exists (rev r). split; [apply rev_eq_app; exact Er|]. unfold mem_byte in *. rewrite existsb_rev_own.
  destruct (existsb (Z.eqb c) r); [discriminate|reflexivity].
Qed.

Lemma app_eq_len {A} (a b c d : list A) : a ++ b = c ++ d -> length a = length c -> a = c /\ b = d.
Proof.
  revert c. induction a as [|x a IH]; intros [|y c] H L; simpl in *; try discriminate.
  - split; [reflexivity|exact H].
  - inversion H; subst. destruct (IH c H2 ltac:(lia)) as [-> ->]. split; reflexivity.
Qed.

(* what a fill adds to the window *)
Lemma fill_window s : Inv s -> exists d, window (fill s) = window s ++ d /\
  sub (rbuf (fill s)) (buffered s) (rw (fill s)) = d /\ rr (fill s) = 0.
Proof.
  intros HI. destruct (src_read (rcap s - buffered s) (rsrc s)) as [[d e] src'] eqn:Es.
  destruct (fill_eq s d e src' HI Es) as [buf' [Ef Hw]].
  destruct (fill_inv s HI) as (HI1 & Hcap & Hr1 & _).
  pose proof HI as (Hc & Hr0 & Hrw & Hwc & _). pose proof HI1 as (_ & _ & _ & Hwc1 & _).
  pose proof (window_len s HI) as Hwl. pose proof (blen_nonneg d) as Hd0.
  exists d. rewrite Ef in *. cbn [rbuf rr rw] in *. unfold window at 1. cbn [rbuf rr rw]. split; [exact Hw|]. split; [|reflexivity].
  unfold buffered in *.
  rewrite (sub_split buf' 0 (rw s - rr s) (rw s - rr s + blen d)) in Hw by lia.
  apply app_eq_len in Hw; [apply Hw|].
  pose proof (sub_length buf' 0 (rw s - rr s) ltac:(lia) ltac:(lia) ltac:(unfold rcap in *; cbn [rbuf] in *; lia)) as Hl.
  unfold blen in *. lia.
Qed.

Lemma rd_slice_loop_shape : forall fuel delim s d e s', Inv s -> mem_byte delim (window s) = false ->
  rd_slice_loop fuel delim s = (d, e, s') -> line_shape delim d e = true.
Proof.
  induction fuel as [|f IH]; intros delim s d e s' HI Hno; cbn [rd_slice_loop].
  - intros E; inversion E; subst. reflexivity.
  - destruct (negb (rerr s =? 0)) eqn:Ee.
    + intros E; inversion E; subst. apply line_shape_none; [lia|exact Hno].
    + destruct (fill_window s HI) as [dn [Hw [Hs Hr1]]]. destruct (fill_inv s HI) as (HI1 & _).
      pose proof HI1 as (Hc1 & _ & Hrw1 & Hwc1 & _). pose proof HI as (_ & Hr0 & Hrw & _).
      pose proof (window_len s HI) as Hwl.
      rewrite Hs. clear Hs. destruct (index_byte delim dn) as [i|] eqn:Ei.
      * intros E; inversion E; subst; clear E.
        destruct (index_byte_some _ _ _ Ei) as [pre [Hp Hm]]. pose proof (index_byte_bound _ _ _ Ei) as Hib.
        assert (Hline : sub (rbuf (fill s)) 0 (buffered s + Z.of_nat i + 1) = (window s ++ pre) ++ [delim]).
        { assert (Hwin : window (fill s) = sub (rbuf (fill s)) 0 (rw (fill s))) by (unfold window; rewrite Hr1; reflexivity).
          assert (Hrwf : rw (fill s) = buffered s + blen dn).
          { apply (f_equal blen) in Hw. rewrite blen_app, (window_len _ HI1), Hwl, Hr1 in Hw. unfold buffered. lia. }
          rewrite sub_0. rewrite Hwin, sub_0 in Hw.
          assert (Hf : firstn (Z.to_nat (buffered s + Z.of_nat i + 1)) (rbuf (fill s)) =
                       firstn (Z.to_nat (buffered s + Z.of_nat i + 1)) (firstn (Z.to_nat (rw (fill s))) (rbuf (fill s)))).
          { rewrite firstn_firstn. f_equal. unfold buffered in *. lia. }
          rewrite Hf, Hw. unfold buffered in *.
          replace (Z.to_nat (rw s - rr s + Z.of_nat i + 1)) with (length (window s) + S i)%nat by (unfold blen in Hwl; lia).
          rewrite firstn_app_2, Hp, app_assoc. reflexivity. }
        rewrite Hline. apply line_shape_found. rewrite mem_byte_app, Hno, Hm. reflexivity.
      * apply index_byte_none in Ei.
        assert (Hno1 : mem_byte delim (window (fill s)) = false) by (rewrite Hw, mem_byte_app, Hno, Ei; reflexivity).
        destruct (rcap (fill s) <=? buffered (fill s)) eqn:Efull.
        -- intros E; inversion E; subst; clear E. apply line_shape_none; [lia|].
           assert (Hfull : rbuf (fill s) = window (fill s)).
           { unfold window. rewrite Hr1, sub_0. symmetry. apply firstn_all2. unfold rcap, buffered, blen in *. lia. }
           rewrite Hfull. exact Hno1.
        -- intros E. apply (IH delim (fill s) d e s' HI1 Hno1 E).
Qed.

Lemma rd_slice_shape delim s d e s' : Inv s -> rd_slice delim s = (d, e, s') -> line_shape delim d e = true.
Proof.
  intros HI. unfold rd_slice. destruct (index_byte delim (window s)) as [i|] eqn:Ei.
  - intros E; inversion E; subst; clear E. destruct (index_byte_some _ _ _ Ei) as [pre [Hp Hm]].
    assert (Hd : sub (rbuf s) (rr s) (rr s + Z.of_nat i + 1) = firstn (S i) (window s)).
    { unfold window, sub. rewrite firstn_firstn. f_equal.
      apply index_byte_bound in Ei. rewrite (window_len s HI) in Ei. lia. }
    rewrite Hd, Hp. apply line_shape_found. exact Hm.
  - apply rd_slice_loop_shape; [exact HI|apply index_byte_none; exact Ei].
Qed.

Lemma rd_bytes_loop_shape : forall fuel delim s d e s', Inv s -> rd_bytes_loop fuel delim s = (d, e, s') ->
  line_shape delim d e = true.
Proof.
  induction fuel as [|f IH]; intros delim s d e s' HI; cbn [rd_bytes_loop].
  - intros E; inversion E; subst. reflexivity.
  - destruct (rd_slice delim s) as [[frag e1] s1] eqn:Es.
    pose proof (rd_slice_shape _ _ _ _ _ HI Es) as Hsh. destruct (rd_slice_inv _ _ _ _ _ HI Es) as [HI1 _].
    destruct (e1 =? 0) eqn:E0; [apply Z.eqb_eq in E0; subst; intros E; inversion E; subst; exact Hsh|].
    destruct (negb (e1 =? 3)); [intros E; inversion E; subst; exact Hsh|].
    destruct (rd_bytes_loop f delim s1) as [[rest e2] s2] eqn:Er. pose proof (IH _ _ _ _ _ HI1 Er) as Hr.
    intros E; inversion E; subst; clear E.
    pose proof (line_shape_nodelim _ _ _ Hsh ltac:(lia)) as Hf.
    destruct (Z.eq_dec e 0) as [->|He].
    + destruct (line_shape_delim _ _ Hr) as [pre [-> Hp]]. rewrite app_assoc. apply line_shape_found.
      rewrite mem_byte_app, Hf, Hp. reflexivity.
    + apply line_shape_none; [exact He|]. rewrite mem_byte_app, Hf, (line_shape_nodelim _ _ _ Hr He). reflexivity.
Qed.

(* ---------- further shape facts ---------- *)
Lemma rd_read_len n s d e s' : Inv s -> 0 <= n -> rd_read n s = (d, e, s') -> blen d <= n.
Proof.
  intros HI Hn. unfold rd_read.
  assert (Hcopy : forall s0, Inv s0 -> rd_copy n s0 = (d, e, s') -> blen d <= n).
  { intros s0 H0. unfold rd_copy. intros E; inversion E; subst; clear E.
    pose proof H0 as (Hc & Hr0 & Hrw & Hwc & _). unfold buffered.
    destruct (Z_le_gt_dec 0 (Z.min n (rw s0 - rr s0))).
    - rewrite sub_length; unfold rcap in *; lia.
    - unfold sub, blen. rewrite firstn_length. lia. }
  destruct (n =? 0); [intros E; inversion E; subst; unfold blen; simpl; lia|].
  destruct (rw s =? rr s).
  - destruct (negb (rerr s =? 0)); [intros E; inversion E; subst; unfold blen; simpl; lia|].
    destruct (rcap s <=? n).
    + destruct (src_read n (rsrc s)) as [[d0 e0] src'] eqn:Es. intros E; inversion E; subst.
      apply (src_read_len _ _ _ _ _ Hn Es).
    + destruct (fill_inv s HI) as (HI1 & _). destruct (rw (fill s) =? rr (fill s)).
      * intros E; inversion E; subst; unfold blen; simpl; lia.
      * apply Hcopy. exact HI1.
  - apply Hcopy. exact HI.
Qed.

Lemma rd_peek_shape n s d e s' : Inv s -> rd_peek n s = (d, e, s') ->
  (if e =? 0 then blen d =? n else blen d <? Z.max n 1) = true.
Proof.
  intros HI. unfold rd_peek.
  destruct (n <? 0) eqn:En; [intros E; inversion E; subst; change (blen []) with 0; simpl; lia|].
  destruct (rcap s <? n); [intros E; inversion E; subst; change (blen []) with 0; simpl; lia|].
  pose proof (rd_peek_loop_inv (rfuel s) n s HI) as HI1. set (s1 := rd_peek_loop (rfuel s) n s) in *.
  pose proof HI1 as (Hc & Hr0 & Hrw & Hwc & _).
  assert (Hl : blen (sub (rbuf s1) (rr s1) (rr s1 + Z.min (buffered s1) n)) = Z.min (buffered s1) n).
  { unfold buffered. rewrite sub_length; unfold rcap in *; lia. }
  destruct (Z.min (buffered s1) n <? n) eqn:Em; intros E; inversion E; subst; clear E.
  - assert ((if rerr s1 =? 0 then 3 else rerr s1) =? 0 = false) as -> by (destruct (rerr s1 =? 0) eqn:X; lia).
    rewrite Hl. lia.
  - simpl. rewrite Hl. lia.
Qed.

Lemma mem_byte_rev c l : mem_byte c (rev l) = mem_byte c l.
Proof. unfold mem_byte. apply existsb_rev_own. Qed.

(* ReadLine never returns a line containing LF, and returns an error only with an empty line *)
Lemma rd_line_shape s d pre e s' : Inv s -> rd_line s = (d, pre, e, s') ->
  mem_byte 10 d = false /\ (e <> 0 -> d = []).
Proof.
  intros HI. unfold rd_line. destruct (rd_slice 10 s) as [[line err] s1] eqn:Es.
  pose proof (rd_slice_shape _ _ _ _ _ HI Es) as Hsh.
  destruct (err =? 3) eqn:E3.
  - assert (Hno : mem_byte 10 line = false) by (apply (line_shape_nodelim _ _ _ Hsh); lia).
    assert (Hother : (line, true, 0, s1) = (d, pre, e, s') -> mem_byte 10 d = false /\ (e <> 0 -> d = [])).
    { intros E; inversion E; subst. split; [exact Hno|lia]. }
    destruct (rev line) as [|c rl] eqn:Er; [exact Hother|].
    apply rev_eq_app in Er.
    destruct (Z.eq_dec c 13) as [->|Hc]; [|destruct c as [|p|p]; try exact Hother;
      repeat (destruct p as [p|p|]; try exact Hother); congruence].
    intros E; inversion E; subst. split; [|lia].
    rewrite mem_byte_app in Hno. destruct (mem_byte 10 (rev rl)); [discriminate|reflexivity].
  - destruct (rev line) as [|c rl] eqn:Er.
    + intros E; inversion E; subst. split; [reflexivity|reflexivity].
    + apply rev_eq_app in Er.
      assert (Hlast : c <> 10 -> err <> 0).
      { intros Hc He. subst err. destruct (line_shape_delim _ _ Hsh) as [pre0 [Hp _]]. rewrite Hp in Er.
        apply app_inj_tail in Er. lia. }
      assert (Hother : (line, false, 0, s1) = (d, pre, e, s') -> c <> 10 -> mem_byte 10 d = false /\ (e <> 0 -> d = [])).
      { intros E Hc; inversion E; subst. split; [|lia]. apply (line_shape_nodelim _ _ _ Hsh). apply Hlast. exact Hc. }
      destruct (Z.eq_dec c 10) as [->|Hc]; [|destruct c as [|p|p]; try (intros E; apply (Hother E); lia);
        repeat (destruct p as [p|p|]; try (intros E; apply (Hother E); lia)); congruence].
      (* the line ends in LF: everything before it is free of LF *)
      assert (Hpre : mem_byte 10 (rev rl) = false).
      { destruct (Z.eq_dec err 0) as [->|He].
        - destruct (line_shape_delim _ _ Hsh) as [pre0 [Hp Hm]]. rewrite Hp in Er. apply app_inj_tail in Er.
          destruct Er as [-> _]. exact Hm.
        - pose proof (line_shape_nodelim _ _ _ Hsh He) as Hn. rewrite Er, mem_byte_app in Hn.
          destruct (mem_byte 10 (rev rl)); [discriminate|reflexivity]. }
      assert (Hten : (rev rl, false, 0, s1) = (d, pre, e, s') -> mem_byte 10 d = false /\ (e <> 0 -> d = [])).
      { intros E; inversion E; subst. split; [exact Hpre|lia]. }
      destruct rl as [|c2 rl2]; [exact Hten|].
      destruct (Z.eq_dec c2 13) as [->|Hc2]; [|destruct c2 as [|p|p]; try exact Hten;
        repeat (destruct p as [p|p|]; try exact Hten); congruence].
      intros E; inversion E; subst. split; [|lia].
      simpl in Hpre. rewrite mem_byte_app in Hpre. destruct (mem_byte 10 (rev rl2)); [discriminate|reflexivity].
Qed.

(* ---------- one reader step satisfies the executable predicate ---------- *)
Section Central.
Variable S : bytes.
Hypothesis Swf : Forall (fun b => 0 <= b) S.

Lemma slice_at_of_law pos (d : bytes) : 0 <= pos -> d = sub S pos (pos + blen d) -> slice_at S pos d = true.
Proof.
  intros Hp Hd. unfold slice_at. apply andb_true_iff. split; [lia|]. apply is_prefix_spec.
  exists (skipn (length d) (skipn (Z.to_nat pos) S)).
  unfold sub in Hd. replace (Z.to_nat (pos + blen d - pos)) with (length d) in Hd by (unfold blen; lia).
  rewrite Hd at 1. symmetry. rewrite Hd at 1. rewrite firstn_length.
  assert (Hmin : Nat.min (length d) (length (skipn (Z.to_nat pos) S)) = length d).
  { apply (f_equal (@length Z)) in Hd. rewrite firstn_length in Hd. lia. }
  rewrite Hmin. apply firstn_skipn.
Qed.

Lemma pulled_bound s : InvS S s -> rpulled s <= blen S /\ 0 <= rtotal s /\ 0 <= buffered s /\ rtotal s = rpulled s - buffered s.
Proof.
  intros (HI & HtS & HR & _). pose proof HI as (Hc & Hr0 & Hrw & Hwc & Ht & Hrt & _).
  pose proof (window_len s HI) as Hwl. unfold buffered.
  apply (f_equal (@length Z)) in HR. unfold R in HR. rewrite skipn_length, app_length in HR. unfold blen in *. lia.
Qed.

Lemma sub_parts pos (d term : bytes) t : 0 <= pos -> t <= blen S -> sub S pos t = d ++ term -> t = pos + blen d + blen term ->
  d = sub S pos (pos + blen d) /\ sub S (pos + blen d) t = term.
Proof.
  intros Hp Ht Hs Hlen. pose proof (blen_nonneg d). pose proof (blen_nonneg term).
  rewrite (sub_split S pos (pos + blen d) t) in Hs by lia.
  apply app_eq_len in Hs; [destruct Hs as [H1 H2]; split; [symmetry; exact H1|exact H2]|].
  pose proof (sub_length S pos (pos + blen d) ltac:(lia) ltac:(lia) ltac:(lia)) as Hl. unfold blen in *. lia.
Qed.

Lemma reader_step_ok wt op s lrs o s' lrs' : InvS S s -> no_unrune op = true -> is_reset op = false ->
  reader_step wt op (s, lrs) = Some (o, (s', lrs')) ->
  InvS S s' /\ exists ret, o = VL [VL ret; VZ (rtotal s'); VZ (rpulled s'); VZ (buffered s')] /\
                          reader_op_ok S (rtotal s) (rtotal s') op ret = true.
Proof.
  intros HS. destruct (pulled_bound s HS) as (_ & Hpos & _). pose proof HS as (HI & _).
  unfold reader_step, no_unrune, is_reset.
  destruct op as [z|b|l]; try discriminate.
  destruct l as [|[tag| |] l]; try discriminate.
  destruct tag as [|p|p]; try discriminate.
  repeat (destruct p as [p|p|]; try discriminate).
  all: intros Hrf; try (vm_compute in Hrf; discriminate Hrf).
  all: destruct l as [|[n| |] [|? ?]]; try discriminate.
  all: intros Hnr; try discriminate Hnr.
  all: try (destruct (rd_slice 10 s) as [[line0 ?] ?] eqn:E0).
  - (* 9 *) destruct wt.
    + destruct (rd_writeto_wt s) as [[d e] s1] eqn:E. intros H; inversion H; subst.
      destruct (rd_writeto_wt_S S s d e s' HS E) as (HS1 & [HL1 HL2]). split; [exact HS1|].
      eexists. split; [reflexivity|]. cbn [reader_op_ok]. rewrite (slice_at_of_law _ _ Hpos HL1). lia.
    + destruct (rd_writeto s) as [[d e] s1] eqn:E. intros H; inversion H; subst.
      destruct (rd_writeto_S S s d e s' HS E) as (HS1 & [HL1 HL2]). split; [exact HS1|].
      eexists. split; [reflexivity|]. cbn [reader_op_ok]. rewrite (slice_at_of_law _ _ Hpos HL1). lia.
  - (* 5 *) destruct (rd_line s) as [[[d pre] e] s1] eqn:E. intros H; inversion H; subst.
    destruct (rd_line_S S s d pre e s' HS E) as [HS1 [term (Hsub & Hterm & Hlen & Hpre)]].
    destruct (rd_line_shape s d pre e s' HI E) as [Hno Herr].
    destruct (pulled_bound s' HS1) as (_ & _ & _ & _). pose proof HS1 as (_ & HtS1 & _).
    destruct (sub_parts _ _ _ _ Hpos HtS1 Hsub Hlen) as [Hd Ht].
    split; [exact HS1|]. eexists. split; [reflexivity|].
    assert (Hpre' : (if negb ((if pre then 1 else 0) =? 0) then bytes_eqb term [] else bytes_eqb term [] || bytes_eqb term [10] || bytes_eqb term [13; 10]) = true).
    { destruct pre; [rewrite (Hpre eq_refl); reflexivity|]. destruct Hterm as [->|[->| ->]]; reflexivity. }
    unfold vbool, VT, VF. destruct pre; cbn [reader_op_ok]; rewrite (slice_at_of_law _ _ Hpos Hd), Hno, Ht; cbn [negb andb];
      (assert (blen term =? rtotal s' - (rtotal s + blen d) = true) as -> by lia); cbn [andb]; rewrite Hpre'; cbn [andb];
      (destruct (e =? 0) eqn:Ee; [reflexivity|rewrite (Herr ltac:(lia)); reflexivity]).
  - (* 3 *) destruct (rd_unread s) as [e s1] eqn:E. intros H; inversion H; subst.
    destruct (rd_unread_S S s e s' HS E) as [HS1 HL]. split; [exact HS1|].
    eexists. split; [reflexivity|]. cbn [reader_op_ok]. destruct (e =? 0); lia.
  - (* 10 *) destruct (rd_rune s) as [[[[r0 size] e] s1] l1] eqn:E. intros H; inversion H; subst.
    destruct (rd_rune_S S s r0 size e s' lrs' HS E) as [HS1 HL]. split; [exact HS1|].
    eexists. split; [reflexivity|]. cbn [reader_op_ok].
    destruct (e =? 0).
    + destruct HL as (Hsz & Ht & Hdec). pose proof HS1 as (_ & HtS1 & _).
      rewrite Ht in *. rewrite Hdec, !Z.eqb_refl. lia.
    + destruct HL as [Ht Hs0]. lia.
  - (* 6 *) destruct (rd_peek n s) as [[d e] s1] eqn:E. intros H; inversion H; subst.
    destruct (rd_peek_S S n s d e s' HS E) as (HS1 & Ht & HL). pose proof (rd_peek_shape n s d e s' HI E) as Hsh.
    split; [exact HS1|]. eexists. split; [reflexivity|]. cbn [reader_op_ok].
    rewrite (slice_at_of_law _ _ Hpos HL), Hsh, Ht, Z.eqb_refl. reflexivity.
  - (* 8 *) destruct (rd_bytes n s) as [[d e] s1] eqn:E. intros H; inversion H; subst.
    destruct (rd_bytes_loop_S S _ n s d e s' HS E) as (HS1 & [HL1 HL2]).
    pose proof (rd_bytes_loop_shape _ n s d e s' HI E) as Hsh.
    split; [exact HS1|]. eexists. split; [reflexivity|]. cbn [reader_op_ok].
    rewrite (slice_at_of_law _ _ Hpos HL1), Hsh. lia.
  - (* 4 *) destruct (rd_slice n s) as [[d e] s1] eqn:E. intros H; inversion H; subst.
    destruct (rd_slice_S S n s d e s' HS E) as (HS1 & [HL1 HL2] & _).
    pose proof (rd_slice_shape n s d e s' HI E) as Hsh.
    split; [exact HS1|]. eexists. split; [reflexivity|]. cbn [reader_op_ok].
    rewrite (slice_at_of_law _ _ Hpos HL1), Hsh. lia.
  - (* 2 *) destruct (rd_byte s) as [[c e] s1] eqn:E. intros H; inversion H; subst.
    destruct (rd_byte_loop_S S _ s c e s' HS E) as [HS1 HL]. split; [exact HS1|].
    eexists. split; [reflexivity|]. cbn [reader_op_ok]. destruct (e =? 0); [|lia].
    destruct HL as [Hc Ht]. pose proof HS1 as (_ & HtS1 & _).
    assert (Hd : [c] = sub S (rtotal s) (rtotal s + blen [c])).
    { change (blen [c]) with 1. rewrite sub_single by lia. rewrite Hc. reflexivity. }
    rewrite (slice_at_of_law _ _ Hpos Hd). lia.
  - (* 1 *) destruct (n <? 0) eqn:En; [discriminate|].
    destruct (rd_read n s) as [[d e] s1] eqn:E. intros H; inversion H; subst.
    destruct (rd_read_S S Swf n s d e s' HS ltac:(lia) E) as [HS1 [HL1 HL2]].
    pose proof (rd_read_len n s d e s' HI ltac:(lia) E) as Hlen.
    split; [exact HS1|]. eexists. split; [reflexivity|]. cbn [reader_op_ok].
    rewrite (slice_at_of_law _ _ Hpos HL1). lia.
Qed.
End Central.

(* ---------- reader histories ---------- *)
(* ---------- lastRuneSize invariant through the other operations ---------- *)
Lemma reader_step_L S wt op s lrs o s' lrs' : InvS S s -> LInv S s lrs -> no_unrune op = true -> is_reset op = false ->
  reader_step wt op (s, lrs) = Some (o, (s', lrs')) -> LInv S s' lrs'.
Proof.
  intros HS HL. pose proof HS as (HI & _).
  unfold reader_step, no_unrune, is_reset.
  destruct op as [z|b|l]; try discriminate.
  destruct l as [|[tag| |] l]; try discriminate.
  destruct tag as [|p|p]; try discriminate.
  repeat (destruct p as [p|p|]; try discriminate).
  all: intros Hrf; try (vm_compute in Hrf; discriminate Hrf).
  all: destruct l as [|[n| |] [|? ?]]; try discriminate.
  all: intros Hnr; try discriminate Hnr.
  all: try (destruct (rd_slice 10 s) as [[line0 ?] ?] eqn:E0).
  - (* 9 *) destruct wt; [destruct (rd_writeto_wt s) as [[d e] s1]|destruct (rd_writeto s) as [[d e] s1]];
      intros H; inversion H; subst; intros Hneg; lia.
  - (* 5 *) destruct (rd_line s) as [[[d pre] e] s1] eqn:E. intros H; inversion H; subst.
    destruct line0 as [|x l0]; [|intros Hneg; lia].
    pose proof (rd_line_empty s _ _ _ _ _ _ E0 E) as ->.
    destruct (rd_slice_S S 10 s [] _ _ HS E0) as (_ & [_ Hd2] & _). change (blen []) with 0 in Hd2.
    apply (keep_LInv S s _ lrs HL). apply (rd_slice_keep 10 s _ _ _ HI E0). lia.
  - (* 3 *) destruct (rd_unread s) as [e s1]. intros H; inversion H; subst. intros Hneg; lia.
  - (* 10 *) destruct (rd_rune s) as [[[[r0 size] e] s1] l1] eqn:E. intros H; inversion H; subst.
    apply (rd_rune_L S s r0 size e s' lrs' HS E).
  - (* 6 *) destruct (rd_peek n s) as [[d e] s1] eqn:E. intros H; inversion H; subst.
    apply (keep_LInv S s s' lrs' HL). apply (rd_peek_keep n s d e s' E).
  - (* 8 *) destruct (rd_bytes n s) as [[d e] s1] eqn:E. intros H; inversion H; subst.
    unfold lrs_after. destruct (rtotal s' =? rtotal s) eqn:Et; [|intros Hneg; lia].
    apply (keep_LInv S s s' lrs HL). apply (rd_bytes_loop_keep S _ n s d e s' HS E). lia.
  - (* 4 *) destruct (rd_slice n s) as [[d e] s1] eqn:E. intros H; inversion H; subst.
    unfold lrs_after. destruct (rtotal s' =? rtotal s) eqn:Et; [|intros Hneg; lia].
    apply (keep_LInv S s s' lrs HL). apply (rd_slice_keep n s d e s' HI E). lia.
  - (* 2 *) destruct (rd_byte s) as [[c e] s1]. intros H; inversion H; subst. intros Hneg; lia.
  - (* 1 *) destruct (n <? 0) eqn:En; [discriminate|].
    destruct (rd_read n s) as [[d e] s1] eqn:E. intros H; inversion H; subst.
    unfold lrs_after. destruct (rtotal s' =? rtotal s) eqn:Et; [|intros Hneg; lia].
    apply (keep_LInv S s s' lrs HL). apply (rd_read_keep n s d e s' HI ltac:(lia) E). lia.
Qed.

Lemma unrune_shape op : no_unrune op = false -> exists l, op = VL (VZ 11 :: l).
Proof.
  unfold no_unrune. destruct op as [z|b|l]; try discriminate. destruct l as [|[t| |] l]; try discriminate.
  intros H. assert (t = 11) by lia. subst. exists l. reflexivity.
Qed.

Lemma Forall_skipn_own {A} (P : A -> Prop) n (l : list A) : Forall P l -> Forall P (skipn n l).
Proof. intros H. rewrite <- (firstn_skipn n l) in H. apply Forall_app in H. apply H. Qed.

Lemma is_reset_true op : is_reset op = true -> op = VL [VZ 12].
Proof.
  unfold is_reset. destruct op as [z|b|l]; try discriminate.
  destruct l as [|[tag| |] rest]; try discriminate.
  destruct tag as [|p|p]; try discriminate.
  repeat (destruct p as [p|p|]; try discriminate).
  all: destruct rest; try discriminate.
  all: intros _; reflexivity.
Qed.

Lemma rd_reset_S S s : InvS S s ->
  InvS (skipn (Z.to_nat (rpulled s)) S) (snd (rd_reset s)) /\ rtotal s <= rpulled s <= blen S.
Proof.
  intros HS. destruct (pulled_bound S s HS) as (Hp & Ht0 & Hb & Ht). pose proof HS as (HI & HtS & HR & _).
  pose proof (window_len s HI) as Hwl. split; [|unfold buffered in *; lia].
  unfold rd_reset. cbn [snd]. split; [apply (rd_reset_inv s (rpulled s) _ HI eq_refl)|].
  cbn [rtotal rr rw rlast rbuf rsrc]. split; [apply blen_nonneg|]. split; [|split].
  - unfold R, window. cbn [rbuf rr rw rsrc]. rewrite sub_empty. cbn [app skipn Z.to_nat].
    destruct (S_consume S (rtotal s) (window s) (script_stream (rsrc s)) (blen (window s)) Ht0 HR
                ltac:(pose proof (blen_nonneg (window s)); lia)) as (Hsk & _).
    replace (rpulled s) with (rtotal s + blen (window s)) by (unfold buffered in *; lia).
    rewrite Hsk. unfold blen. rewrite Nat2Z.id, skipn_all. reflexivity.
  - right. intros i Hi. cbn [rr] in Hi. lia.
  - unfold LastOK. cbn [rlast]. lia.
Qed.

Lemma reader_run_ok wt : forall ops S s lrs obs, Forall (fun b => 0 <= b) S -> InvS S s -> LInv S s lrs ->
  reader_run wt ops (s, lrs) = Some obs ->
  prop_reader S (rtotal s) ops obs = true.
Proof.
  induction ops as [|op ops IH]; intros S s lrs obs Swf HS HL; cbn [reader_run].
  - intros E; inversion E; subst. reflexivity.
  - destruct (is_reset op) eqn:Eres.
    + apply is_reset_true in Eres. subst op. cbn [reader_step].
      destruct (rd_reset_S S s HS) as [HS1 Hb]. unfold rd_reset in *. cbn [snd] in HS1.
      destruct (reader_run wt ops (_, -1)) as [os|] eqn:Er; [|discriminate].
      intros E; inversion E; subst. cbn [prop_reader is_reset]. unfold robs, buffered. cbn [rtotal rpulled rr rw].
      assert (HL1 : LInv (skipn (Z.to_nat (rpulled s)) S) (mkR (rbuf s) 0 0 0 (-1) 0 (rsrc s) 0) (-1)) by (intros Hneg; lia).
      pose proof (IH _ _ _ _ (Forall_skipn_own _ _ _ Swf) HS1 HL1 Er) as Hrec. cbn [rtotal] in Hrec. rewrite Hrec.
      cbn. lia.
    + destruct (no_unrune op) eqn:Enu.
      * destruct (reader_step wt op (s, lrs)) as [[o [s1 l1]]|] eqn:Es; [|discriminate].
        destruct (reader_step_ok S Swf wt op s lrs o s1 l1 HS Enu Eres Es) as [HS1 [ret [Ho Hok]]].
        pose proof (reader_step_L S wt op s lrs o s1 l1 HS HL Enu Eres Es) as HL1.
        destruct (reader_run wt ops (s1, l1)) as [os|] eqn:Er; [|discriminate].
        intros E; inversion E; subst. cbn [prop_reader]. rewrite Eres.
        destruct (pulled_bound S s1 HS1) as (Hp & Ht0 & Hb & Ht).
        replace (rpulled s1 - buffered s1) with (rtotal s1) by lia.
        rewrite Hok, (IH S s1 l1 os Swf HS1 HL1 Er). lia.
      * destruct (unrune_shape op Enu) as [l ->]. destruct l as [|v l]; [|cbn [reader_step]; discriminate].
        cbn [reader_step].
        destruct (rd_unread_rune s lrs) as [[e s1] l1] eqn:Eu.
        destruct (rd_unread_rune_S S s lrs e s1 l1 HS HL Eu) as (HS1 & HL1 & Hlaw).
        destruct (reader_run wt ops (s1, l1)) as [os|] eqn:Er; [|discriminate].
        intros E; inversion E; subst. cbn [prop_reader is_reset]. unfold robs.
        destruct (pulled_bound S s1 HS1) as (Hp & Ht0 & Hb & Ht).
        replace (rpulled s1 - buffered s1) with (rtotal s1) by lia.
        rewrite (IH S s1 l1 os Swf HS1 HL1 Er). cbn [reader_op_ok].
        destruct (e =? 0); lia.
Qed.

Definition wf_rop (op : val) : bool :=
  match op with
  | VL [VZ 1; VZ n] => 0 <=? n
  | VL [VZ 2] | VL [VZ 3] | VL [VZ 5] | VL [VZ 9] | VL [VZ 10] | VL [VZ 11] | VL [VZ 12] => true
  | VL [VZ 4; VZ _] | VL [VZ 6; VZ _] | VL [VZ 8; VZ _] => true
  | _ => false
  end.

Lemma wf_rop_step wt op st : wf_rop op = true -> exists o st', reader_step wt op st = Some (o, st').
Proof.
  destruct st as [s lrs]. unfold wf_rop, reader_step.
  destruct op as [z|b|l]; try discriminate.
  destruct l as [|[tag| |] l]; try discriminate.
  destruct tag as [|p|p]; try discriminate.
  repeat (destruct p as [p|p|]; try discriminate).
  all: destruct l as [|[n| |] [|? ?]]; try discriminate.
  all: intros Hwf.
  all: try (assert (n <? 0 = false) as -> by lia).
  all: try destruct wt.
  all: repeat match goal with |- context [let '(_, _) := ?x in _] => destruct x end.
  all: eexists; eexists; reflexivity.
Qed.

Lemma wf_rops_run wt : forall ops st, forallb wf_rop ops = true -> exists obs, reader_run wt ops st = Some obs.
Proof.
  induction ops as [|op ops IH]; intros st H; cbn [forallb reader_run] in *; [eexists; reflexivity|].
  apply andb_true_iff in H. destruct H as [H1 H2].
  destruct (wf_rop_step wt op st H1) as [o [st' Hs]]. rewrite Hs.
  destruct (IH st' H2) as [obs Ho]. rewrite Ho. eexists; reflexivity.
Qed.

(* ---------- writer: the sink only grows ---------- *)
Definition sunk (s : writer) : Z := blen (wout s).
Lemma sink_write_mono p s k e s1 : sink_write p s = (k, e, s1) -> sunk s <= sunk s1.
Proof. intros E. destruct (sink_write_spec _ _ _ _ _ E) as (Hk & Ho & _). unfold sunk. lia. Qed.
Lemma w_flush_mono s e s' : w_flush s = (e, s') -> sunk s <= sunk s'.
Proof.
  unfold w_flush. destruct (negb (werr s =? 0)); [intros E; inversion E; subst; lia|].
  destruct (wbuf s) as [|x b] eqn:Eb; [intros E; inversion E; subst; lia|]. rewrite <- Eb.
  destruct (sink_write (wbuf s) s) as [[k e0] s1] eqn:Es. pose proof (sink_write_mono _ _ _ _ _ Es) as Hm.
  destruct (negb ((if (k <? blen (wbuf s)) && (e0 =? 0) then 7 else e0) =? 0)); intros E; inversion E; subst;
    unfold sunk, w_set in *; cbn [wout]; exact Hm.
Qed.
Lemma w_write_loop_mono : forall fuel direct p nn s p' nn' s',
  w_write_loop fuel direct p nn s = (p', nn', s') -> sunk s <= sunk s'.
Proof.
  induction fuel as [|f IH]; intros direct p nn s p' nn' s'; cbn [w_write_loop].
  - intros E; inversion E; subst. unfold sunk, w_set. cbn [wout]. lia.
  - destruct ((avail s <? blen p) && (werr s =? 0)); [|intros E; inversion E; subst; lia].
    assert (Hbuf : forall n,
       (let s1 := w_set s (wbuf s ++ firstn (Z.to_nat n) p) (werr s) in
        let '(_, s2) := w_flush s1 in w_write_loop f direct (skipn (Z.to_nat n) p) (nn + n) s2) = (p', nn', s') ->
       sunk s <= sunk s').
    { intros n. cbn zeta. destruct (w_flush (w_set s (wbuf s ++ firstn (Z.to_nat n) p) (werr s))) as [fe s2] eqn:Ef.
      pose proof (w_flush_mono _ _ _ Ef) as H1. intros E. pose proof (IH _ _ _ _ _ _ _ E) as H2.
      unfold sunk, w_set in *. cbn [wout] in *. lia. }
    destruct direct; [|apply Hbuf].
    destruct (wbuf s) as [|x b] eqn:Eb; [|rewrite <- Eb in *; apply Hbuf].
    destruct (sink_write p s) as [[k e] s1] eqn:Es. pose proof (sink_write_mono _ _ _ _ _ Es) as H1.
    intros E. pose proof (IH _ _ _ _ _ _ _ E) as H2. unfold sunk, w_set in *. cbn [wout] in *. lia.
Qed.
Lemma w_write_gen_mono direct p s n e s' : w_write_gen direct p s = (n, e, s') -> sunk s <= sunk s'.
Proof.
  unfold w_write_gen. destruct (w_write_loop _ direct p 0 s) as [[p' nn] s1] eqn:El.
  pose proof (w_write_loop_mono _ _ _ _ _ _ _ _ El) as H1.
  destruct (negb (werr s1 =? 0)); intros E; inversion E; subst; unfold sunk, w_add_total, w_set in *; cbn [wout] in *; exact H1.
Qed.
Lemma w_write_byte_mono c s e s' : w_write_byte c s = (e, s') -> sunk s <= sunk s'.
Proof.
  unfold w_write_byte. destruct (negb (werr s =? 0)); [intros E; inversion E; subst; lia|].
  destruct (avail s <=? 0).
  - destruct (w_flush s) as [fe s1] eqn:Ef. pose proof (w_flush_mono _ _ _ Ef) as H1.
    destruct (negb (fe =? 0)); intros E; inversion E; subst; unfold sunk, w_add_total, w_set in *; cbn [wout] in *; exact H1.
  - cbn [negb Z.eqb]. intros E; inversion E; subst. unfold sunk, w_add_total, w_set. cbn [wout]. lia.
Qed.
Lemma w_readfrom_loop_mono : forall fuel src n s early n' e' s',
  w_readfrom_loop fuel src n s = (early, (n', e', s')) ->
  match early with Some (_, _, s1) => sunk s <= sunk s1 | None => sunk s <= sunk s' end.
Proof.
  induction fuel as [|f IH]; intros src n s early n' e' s'; cbn [w_readfrom_loop].
  - intros E; inversion E; subst. lia.
  - assert (Hcore : forall s1, sunk s <= sunk s1 ->
      (let '(d, e, src') := src_read (avail s1) src in
       if blen d =? 0 then (None, (n, e, s1))
       else let s2 := w_set s1 (wbuf s1 ++ d) (werr s1) in
            if negb (e =? 0) then (None, (n + blen d, e, s2)) else w_readfrom_loop f src' (n + blen d) s2)
      = (early, (n', e', s')) ->
      match early with Some (_, _, s1') => sunk s <= sunk s1' | None => sunk s <= sunk s' end).
    { intros s1 H1. destruct (src_read (avail s1) src) as [[d e] src'].
      destruct (blen d =? 0); [intros E; inversion E; subst; exact H1|].
      destruct (negb (e =? 0)); [intros E; inversion E; subst; unfold sunk, w_set in *; cbn [wout]; exact H1|].
      intros E. pose proof (IH _ _ _ _ _ _ _ E) as H2. unfold sunk, w_set in *. cbn [wout] in *.
      destruct early as [[[? ?] ?]|]; lia. }
    destruct (avail s =? 0).
    + destruct (w_flush s) as [fe s1] eqn:Ef. pose proof (w_flush_mono _ _ _ Ef) as H1.
      destruct (negb (fe =? 0)); [intros E; inversion E; subst; unfold sunk, w_add_total in *; cbn [wout]; exact H1|].
      apply Hcore. exact H1.
    + cbn [negb Z.eqb]. apply Hcore. lia.
Qed.
Lemma w_readfrom_mono src s n e s' : w_readfrom src s = (n, e, s') -> sunk s <= sunk s'.
Proof.
  unfold w_readfrom. destruct (w_readfrom_loop _ src 0 s) as [early [[n1 e1] s1]] eqn:El.
  pose proof (w_readfrom_loop_mono _ _ _ _ _ _ _ _ El) as H.
  destruct early as [[[n2 e2] s2]|]; [intros E; inversion E; subst; exact H|].
  destruct (e1 =? 1).
  - destruct (avail s1 =? 0).
    + destruct (w_flush s1) as [fe s2] eqn:Ef. pose proof (w_flush_mono _ _ _ Ef).
      intros E; inversion E; subst. unfold sunk, w_add_total in *. cbn [wout]. lia.
    + intros E; inversion E; subst. unfold sunk, w_add_total in *. cbn [wout]. lia.
  - intros E; inversion E; subst. unfold sunk, w_add_total in *. cbn [wout]. lia.
Qed.
Lemma w_write_rune_mono r s n e s' : w_write_rune r s = (n, e, s') -> sunk s <= sunk s'.
Proof.
  unfold w_write_rune. destruct (r <? 128).
  - destruct (w_write_byte (r mod 256) s) as [e1 s1] eqn:E1. pose proof (w_write_byte_mono _ _ _ _ E1).
    destruct (negb (e1 =? 0)); intros E; inversion E; subst; assumption.
  - destruct (negb (werr s =? 0)); [intros E; inversion E; subst; lia|].
    destruct (avail s <? 4).
    + destruct (w_flush s) as [fe s1] eqn:Ef. pose proof (w_flush_mono _ _ _ Ef) as H1.
      destruct (negb (werr s1 =? 0)); [intros E; inversion E; subst; exact H1|].
      destruct (avail s1 <? 4).
      * intros E. pose proof (w_write_gen_mono _ _ _ _ _ _ E). lia.
      * intros E; inversion E; subst. unfold sunk, w_add_total, w_set in *. cbn [wout]. exact H1.
    + intros E; inversion E; subst. unfold sunk, w_add_total, w_set. cbn [wout]. lia.
Qed.

(* ---------- one writer step satisfies the executable predicate ---------- *)
Lemma w_readfrom_rf_mono src s n e s' : w_readfrom_rf src s = (n, e, s') -> sunk s <= sunk s'.
Proof.
  unfold w_readfrom_rf. destruct (wbuf s); [|apply w_readfrom_mono].
  destruct (src_drain src) as [[d e0] rest]. intros E; inversion E; subst. unfold sunk. cbn [wout].
  rewrite blen_app. pose proof (blen_nonneg d). lia.
Qed.

Lemma writer_step_ok rf op s o s' : WInv s -> is_wreset op = false -> writer_step rf op s = Some (o, s') ->
  WInv s' /\ sunk s <= sunk s' /\
  exists ret a e fl, o = VL [VL ret; VZ (wtotal s'); VZ (sunk s'); VZ (blen (wbuf s'))] /\
     writer_op_acc op ret = Some (a, e, fl) /\ wall s' = wall s ++ a /\
     (fl && (e =? 0) = true -> blen (wbuf s') = 0).
Proof.
  intros HI Hnr Hstep. destruct (writer_step_inv rf op s o s' HI Hstep) as [HI1 _]. split; [exact HI1|].
  revert Hnr Hstep. unfold writer_step, sunk, is_wreset.
  destruct op as [z|b|l]; try discriminate.
  destruct l as [|[tag| |] l]; try discriminate.
  destruct tag as [|p|p]; try discriminate.
  repeat (destruct p as [p|p|]; try discriminate).
  all: destruct l as [|x [|? ?]]; try discriminate.
  all: try (destruct x as [c|d|src]; try discriminate).
  all: intros Hnr; try discriminate Hnr.
  - (* 7 WriteRune *) destruct (w_write_rune c s) as [[n e] s1] eqn:E. intros H; inversion H; subst.
    destruct (w_write_rune_wall c s n e s' HI E) as (Hn & Hw & He). split; [apply (w_write_rune_mono _ _ _ _ _ E)|].
    eexists [VZ n; VZ e], _, e, false. split; [reflexivity|]. split; [|split; [exact Hw|discriminate]].
    cbn [writer_op_acc]. cbv zeta in *.
    match goal with |- (if ?b then _ else _) = _ => let Hb := fresh in assert (Hb : b = true) by lia; rewrite Hb end.
    reflexivity.
  - (* 3 WriteString *) destruct (w_write_string d s) as [[n e] s1] eqn:E. intros H; inversion H; subst.
    destruct (w_write_gen_wall false d s n e s' HI E) as (Hn & Hw & He). split; [apply (w_write_gen_mono _ _ _ _ _ _ E)|].
    eexists [VZ n; VZ e], _, e, false. split; [reflexivity|]. split; [|split; [exact Hw|discriminate]].
    cbn [writer_op_acc].
    match goal with |- (if ?b then _ else _) = _ => let Hb := fresh in assert (Hb : b = true) by lia; rewrite Hb end.
    reflexivity.
  - (* 6 ReadFrom *) destruct (dec_script (VL src)) as [sc|] eqn:Ed; [|discriminate].
    assert (Hfin : forall n e, o = wobs [VZ n; VZ e] s' -> sunk s <= sunk s' ->
              wall s' = wall s ++ firstn (Z.to_nat n) (script_stream sc) -> 0 <= n <= blen (script_stream sc) ->
              blen (wout s) <= blen (wout s') /\
              exists ret a e0 fl, o = VL [VL ret; VZ (wtotal s'); VZ (blen (wout s')); VZ (blen (wbuf s'))] /\
                writer_op_acc (VL [VZ 6; VL src]) ret = Some (a, e0, fl) /\ wall s' = wall s ++ a /\
                (fl && (e0 =? 0) = true -> blen (wbuf s') = 0)).
    { intros n e -> Hm Hw Hn. split; [exact Hm|].
      eexists [VZ n; VZ e], _, e, false. split; [reflexivity|]. split; [|split; [exact Hw|discriminate]].
      cbn [writer_op_acc]. rewrite Ed. unfold script_stream in Hn.
      match goal with |- (if ?b then _ else _) = _ => let Hb := fresh in assert (Hb : b = true) by lia; rewrite Hb end.
      reflexivity. }
    destruct rf.
    + destruct (w_readfrom_rf sc s) as [[n e] s1] eqn:E. intros H; inversion H; subst.
      destruct (w_readfrom_rf_wall sc s n e s' HI E) as [Hw Hn].
      apply (Hfin n e eq_refl (w_readfrom_rf_mono _ _ _ _ _ E) Hw Hn).
    + destruct (w_readfrom sc s) as [[n e] s1] eqn:E. intros H; inversion H; subst.
      destruct (w_readfrom_wall sc s n e s' HI E) as [Hw Hn].
      apply (Hfin n e eq_refl (w_readfrom_mono _ _ _ _ _ E) Hw Hn).
  - (* 4 Flush *) destruct (w_flush s) as [e s1] eqn:E. intros H; inversion H; subst.
    split; [apply (w_flush_mono _ _ _ E)|].
    eexists [VZ e], [], e, true. split; [reflexivity|]. split; [reflexivity|]. split.
    + rewrite app_nil_r. apply (w_flush_wall _ _ _ E).
    + intros He. destruct (w_flush_inv _ _ _ _ HI E) as (_ & Hempty & _).
      assert (e = 0) by (destruct (e =? 0) eqn:X; [lia|discriminate]).
      rewrite (Hempty H0 (w_flush_err0 _ _ _ E H0)). reflexivity.
  - (* 2 WriteByte *) destruct (w_write_byte c s) as [e s1] eqn:E. intros H; inversion H; subst.
    split; [apply (w_write_byte_mono _ _ _ _ E)|].
    eexists [VZ e], _, e, false. split; [reflexivity|]. split; [reflexivity|]. split; [|discriminate].
    apply (w_write_byte_wall _ _ _ _ HI E).
  - (* 1 Write *) destruct (w_write d s) as [[n e] s1] eqn:E. intros H; inversion H; subst.
    destruct (w_write_gen_wall true d s n e s' HI E) as (Hn & Hw & He). split; [apply (w_write_gen_mono _ _ _ _ _ _ E)|].
    eexists [VZ n; VZ e], _, e, false. split; [reflexivity|]. split; [|split; [exact Hw|discriminate]].
    cbn [writer_op_acc].
    match goal with |- (if ?b then _ else _) = _ => let Hb := fresh in assert (Hb : b = true) by lia; rewrite Hb end.
    reflexivity.
Qed.

Lemma is_wreset_true op : is_wreset op = true -> op = VL [VZ 5].
Proof.
  unfold is_wreset. destruct op as [z|b|l]; try discriminate.
  destruct l as [|[tag| |] rest]; try discriminate.
  destruct tag as [|p|p]; try discriminate.
  repeat (destruct p as [p|p|]; try discriminate).
  all: destruct rest; try discriminate.
  all: intros _; reflexivity.
Qed.

Lemma writer_run_ok rf : forall ops s obs, WInv s -> writer_run rf ops s = Some obs ->
  prop_writer (wall s) (sunk s) ops obs = true.
Proof.
  induction ops as [|op ops IH]; intros s obs HI; cbn [writer_run].
  - intros E; inversion E; subst. cbn [prop_writer]. unfold sunk. rewrite Z.eqb_refl. cbn [andb].
    apply is_prefix_spec. exists (wbuf s). reflexivity.
  - destruct (is_wreset op) eqn:Eres.
    + apply is_wreset_true in Eres. subst op. cbn [writer_step]. unfold w_reset.
      destruct (writer_run rf ops _) as [os|] eqn:Er; [|discriminate].
      intros E; inversion E; subst. cbn [prop_writer is_wreset]. unfold wobs. cbn [wtotal wout wbuf].
      assert (HI1 : WInv (mkW [] (wcap s) 0 0 (wsink s) [])) by (apply (w_reset_inv s _ _ HI eq_refl)).
      pose proof (IH _ _ HI1 Er) as Hrec. unfold wall, sunk in Hrec. cbn [wout wbuf app] in Hrec.
      change (blen []) with 0 in *. rewrite Hrec. unfold sunk. rewrite Z.eqb_refl. cbn [andb].
      assert (Hp : is_prefix (wout s) (wall s) = true) by (apply is_prefix_spec; exists (wbuf s); reflexivity).
      rewrite Hp. reflexivity.
    + destruct (writer_step rf op s) as [[o s1]|] eqn:Es; [|discriminate].
      destruct (writer_step_ok rf op s o s1 HI Eres Es) as (HI1 & Hm & ret & a & e & fl & Ho & Hacc & Hw & Hfl).
      destruct (writer_run rf ops s1) as [os|] eqn:Er; [|discriminate].
      intros E; inversion E; subst. cbn [prop_writer]. rewrite Eres, Hacc.
      pose proof (IH s1 os HI1 Er) as Hrec. rewrite Hw in Hrec. rewrite Hrec.
      pose proof (wall_len s1 HI1) as Hlen. rewrite Hw in Hlen.
      pose proof HI1 as (Ht & Hb & Hc). pose proof (blen_nonneg (wbuf s1)).
      assert (Hf : (if fl && (e =? 0) then blen (wbuf s1) =? 0 else true) = true).
      { destruct (fl && (e =? 0)) eqn:X; [rewrite (Hfl eq_refl); reflexivity|reflexivity]. }
      rewrite Hf. unfold sunk in *. lia.
Qed.

Definition wf_wop (op : val) : bool :=
  match op with
  | VL [VZ 1; VB _] | VL [VZ 3; VB _] => true
  | VL [VZ 2; VZ _] | VL [VZ 7; VZ _] => true
  | VL [VZ 4] | VL [VZ 5] => true
  | VL [VZ 6; src] => match dec_script src with Some _ => true | None => false end
  | _ => false
  end.
Lemma wf_wop_step rf op s : wf_wop op = true -> exists o s', writer_step rf op s = Some (o, s').
Proof.
  unfold wf_wop, writer_step.
  destruct op as [z|b|l]; try discriminate.
  destruct l as [|[tag| |] l]; try discriminate.
  destruct tag as [|p|p]; try discriminate.
  repeat (destruct p as [p|p|]; try discriminate).
  all: destruct l as [|x [|? ?]]; try discriminate.
  all: try (destruct x as [c|d|src]; try discriminate).
  all: try (destruct (dec_script (VL src)) as [sc|]; [|discriminate]).
  all: intros _.
  all: try destruct rf.
  all: repeat match goal with |- context [let '(_, _) := ?x in _] => destruct x end.
  all: eexists; eexists; reflexivity.
Qed.
Lemma wf_wops_run rf : forall ops s, forallb wf_wop ops = true -> exists obs, writer_run rf ops s = Some obs.
Proof.
  induction ops as [|op ops IH]; intros s H; cbn [forallb writer_run] in *; [eexists; reflexivity|].
  apply andb_true_iff in H. destruct H as [H1 H2].
  destruct (wf_wop_step rf op s H1) as [o [s' Hs]]. rewrite Hs. destruct (IH s' H2) as [obs Ho]. rewrite Ho. eexists; reflexivity.
Qed.

(* ---------- the central theorem ---------- *)
Definition wf_C22 (i : val) : bool :=
  match i with
  | VL [VZ tag; VZ cap; src; VL ops] =>
    if (tag =? 1) || (tag =? 3) then
      match dec_script src with
      | Some sc => forallb (fun c => forallb (Z.leb 0) (fst c)) sc && forallb wf_rop ops
      | None => false
      end
    else if (tag =? 2) || (tag =? 4) then
      match dec_sink src with Some _ => forallb wf_wop ops | None => false end
    else false
  | _ => false
  end.

Lemma stream_nonneg sc : forallb (fun c => forallb (Z.leb 0) (fst c)) sc = true -> Forall (fun b => 0 <= b) (script_stream sc).
Proof.
  unfold script_stream. induction sc as [|[d e] r IH]; intros H; simpl in *; [constructor|].
  apply andb_true_iff in H. destruct H as [H1 H2]. apply Forall_app. split; [|apply IH; exact H2].
  rewrite Forall_forall. rewrite forallb_forall in H1. intros b Hb. specialize (H1 b Hb). lia.
Qed.

Theorem prop_C22_of_model i : wf_C22 i = true -> kf_C22 i = 0 -> prop_C22 i (run_C22 i) = true.
Proof.
  intros Hwf _. unfold wf_C22 in Hwf.
  destruct i as [z|b|l]; try discriminate.
  destruct l as [|[tag| |] [|[cap| |] [|src [|[| |ops] [|? ?]]]]]; try discriminate.
  unfold run_C22, prop_C22.
  destruct ((tag =? 1) || (tag =? 3)) eqn:E1.
  - destruct (dec_script src) as [sc|] eqn:Ed; [|discriminate].
    apply andb_true_iff in Hwf. destruct Hwf as [Hb Hops].
    destruct (wf_rops_run (tag =? 3) ops (new_reader cap sc, -1) Hops) as [obs Hrun].
    rewrite Hrun.
    assert (HL0 : LInv (script_stream sc) (new_reader cap sc) (-1)) by (intros Hneg; lia).
    exact (reader_run_ok (tag =? 3) ops (script_stream sc) (new_reader cap sc) (-1) obs (stream_nonneg sc Hb)
             (new_reader_invS cap sc) HL0 Hrun).
  - destruct ((tag =? 2) || (tag =? 4)) eqn:E2; [|discriminate].
    destruct (dec_sink src) as [sk|] eqn:Ed; [|discriminate].
    destruct (wf_wops_run (tag =? 4) ops (new_writer cap sk) Hwf) as [obs Hrun].
    rewrite Hrun.
    exact (writer_run_ok (tag =? 4) ops (new_writer cap sk) obs (new_writer_inv cap sk) Hrun).
Qed.

Lemma wf_C22_corpus :
  wf_C22 (VL [VZ 1; VZ 16; VL [VL [VB [97;98]; VZ 0]; VL [VB [99;100;101;10]; VZ 0]]; VL [VL [VZ 2]; VL [VZ 4; VZ 10]]]) = true /\
  wf_C22 (VL [VZ 2; VZ 4; VL [VL [VZ 0; VZ 8]]; VL [VL [VZ 6; VL [VL [VB [97;98;99;100;101;102;103;104]; VZ 0]]]]]) = true.
Proof. vm_compute. split; reflexivity. Qed.
