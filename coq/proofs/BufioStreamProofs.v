(* C22, stream preservation of the Reader: for a fixed source stream S, after every operation the unread remainder
   of S (from position TotalRead) is exactly the buffered window followed by what the source will still deliver;
   data handed out is the slice of S at the old position. *)
From Coq Require Import List ZArith Bool Lia ZifyBool.
From Bfe Require Import lib.Val lib.ValProofs lib.Bytes model.Bufio run.RunC22 proofs.BufioProofs.
Import ListNotations.
Open Scope Z_scope.

(* ---------- list facts ---------- *)
Lemma firstn_app_l {A} (l t : list A) n : (n <= length l)%nat -> firstn n (l ++ t) = firstn n l.
Proof. intros H. rewrite firstn_app. replace (n - length l)%nat with 0%nat by lia. simpl. apply app_nil_r. Qed.
Lemma skipn_app_l {A} (l t : list A) n : (n <= length l)%nat -> skipn n (l ++ t) = skipn n l ++ t.
Proof. intros H. rewrite skipn_app. replace (n - length l)%nat with 0%nat by lia. reflexivity. Qed.
Lemma skipn_skipn' {A} (a b : nat) (l : list A) : skipn a (skipn b l) = skipn (b + a) l.
Proof. revert l. induction b as [|b IH]; intros l; [reflexivity|]. destruct l; [rewrite !skipn_nil; reflexivity|]. simpl. apply IH. Qed.
Lemma nth_skipn {A} (l : list A) a i d : nth i (skipn a l) d = nth (a + i) l d.
Proof. revert l. induction a as [|a IH]; intros l; [reflexivity|]. destruct l; [simpl; destruct i; reflexivity|]. simpl. apply IH. Qed.
Lemma skipn_cons_nth {A} (l : list A) i d : (i < length l)%nat -> skipn i l = nth i l d :: skipn (S i) l.
Proof. revert l. induction i as [|i IH]; intros l H; destruct l; simpl in *; try lia; [reflexivity|]. apply IH. lia. Qed.
Lemma firstn_add {A} : forall a b (l : list A), firstn (a + b) l = firstn a l ++ firstn b (skipn a l).
Proof.
  induction a as [|a IH]; intros b l; [reflexivity|]. destruct l as [|x l]; simpl.
  - rewrite firstn_nil. destruct b; reflexivity.
  - rewrite IH. reflexivity.
Qed.
Lemma sub_0 (l : bytes) b : sub l 0 b = firstn (Z.to_nat b) l.
Proof. unfold sub. simpl. rewrite Z.sub_0_r. reflexivity. Qed.

Lemma sub_split (l : bytes) a b c : 0 <= a -> a <= b -> b <= c -> sub l a c = sub l a b ++ sub l b c.
Proof.
  intros Ha Hab Hbc. unfold sub.
  replace (Z.to_nat (c - a)) with (Z.to_nat (b - a) + Z.to_nat (c - b))%nat by lia.
  rewrite firstn_add. f_equal. rewrite skipn_skipn'. f_equal. f_equal. lia.
Qed.

Lemma blit_sub (dst : bytes) off (src : bytes) : 0 <= off -> off + blen src <= blen dst ->
  sub (blit dst off src) 0 (off + blen src) = firstn (Z.to_nat off) dst ++ src.
Proof.
  intros H0 H1. rewrite sub_0. unfold blit, blen in *.
  rewrite app_assoc. rewrite firstn_app_l by (rewrite app_length, firstn_length; lia).
  apply firstn_all2. rewrite app_length, firstn_length. lia.
Qed.
Lemma blit_prefix (dst : bytes) off (src : bytes) : 0 <= off -> off <= blen dst ->
  firstn (Z.to_nat off) (blit dst off src) = firstn (Z.to_nat off) dst.
Proof.
  intros H0 H1. unfold blit, blen in *. rewrite firstn_app_l by (rewrite firstn_length; lia).
  apply firstn_all2. rewrite firstn_length. lia.
Qed.

Lemma last_nth_own (l : bytes) d : l <> [] -> last l d = nth (length l - 1) l d.
Proof.
  induction l as [|x l IH]; intros H; [congruence|]. destruct l as [|y l]; [reflexivity|].
  change (last (x :: y :: l) d) with (last (y :: l) d). rewrite IH by discriminate.
  simpl length. replace (S (S (length l)) - 1)%nat with (S (length l)) by lia.
  simpl. rewrite Nat.sub_0_r. reflexivity.
Qed.
Lemma nth_firstn_own (l : bytes) m j d : (j < m)%nat -> nth j (firstn m l) d = nth j l d.
Proof.
  revert l j. induction m as [|m IH]; intros l j H; [lia|]. destruct l; [destruct j; reflexivity|].
  destruct j; [reflexivity|]. simpl. apply IH. lia.
Qed.

(* ---------- facts about the stream S ---------- *)
Section Stream.
Variable S : bytes.

Lemma S_consume t (X Y : bytes) k : 0 <= t -> skipn (Z.to_nat t) S = X ++ Y -> 0 <= k <= blen X ->
  skipn (Z.to_nat (t + k)) S = skipn (Z.to_nat k) X ++ Y /\ (t <= blen S -> t + k <= blen S) /\
  sub S t (t + k) = firstn (Z.to_nat k) X.
Proof.
  intros Ht E Hk. unfold blen in *. split; [|split].
  - replace (Z.to_nat (t + k)) with (Z.to_nat t + Z.to_nat k)%nat by lia.
    rewrite <- skipn_skipn', E, skipn_app_l by lia. reflexivity.
  - intros HtS. apply (f_equal (@length Z)) in E. rewrite skipn_length, app_length in E. lia.
  - unfold sub. replace (t + k - t) with k by lia. rewrite E. apply firstn_app_l. lia.
Qed.
Lemma S_nth t (X Y : bytes) j : 0 <= t -> skipn (Z.to_nat t) S = X ++ Y -> 0 <= j < blen X ->
  nth (Z.to_nat (t + j)) S 0 = nth (Z.to_nat j) X 0.
Proof.
  intros Ht E Hj. unfold blen in *. replace (Z.to_nat (t + j)) with (Z.to_nat t + Z.to_nat j)%nat by lia.
  rewrite <- nth_skipn, E. apply app_nth1. lia.
Qed.

Definition R (s : reader) : bytes := window s ++ script_stream (rsrc s).
Definition PrefB (s : reader) : Prop :=
  forall i, 0 <= i < rr s -> nth (Z.to_nat i) (rbuf s) 0 = nth (Z.to_nat (rtotal s - rr s + i)) S 0.
Definition PrefA (s : reader) : Prop := rr s = rw s /\ 0 <= rlast s.
Definition LastOK (s : reader) : Prop :=
  0 <= rlast s -> rr s = rw s -> rlast s = nth (Z.to_nat (rtotal s - 1)) S 0.
Definition InvS (s : reader) : Prop :=
  Inv s /\ rtotal s <= blen S /\ skipn (Z.to_nat (rtotal s)) S = R s /\ (PrefA s \/ PrefB s) /\ LastOK s.

(* ---------- the buffer window ---------- *)
Lemma nth_window s i : Inv s -> rr s <= i < rw s ->
  nth (Z.to_nat i) (rbuf s) 0 = nth (Z.to_nat (i - rr s)) (window s) 0.
Proof.
  intros (Hc & Hr0 & Hrw & Hwc & _) Hi. unfold window, sub.
  rewrite nth_firstn_own by lia. rewrite nth_skipn. f_equal. lia.
Qed.

Lemma fill_eq s d e src' : Inv s -> src_read (rcap s - buffered s) (rsrc s) = (d, e, src') ->
  exists buf', fill s = mkR buf' 0 (buffered s + blen d) (if e =? 0 then rerr s else e) (rlast s) (rtotal s) src'
                            (rpulled s + blen d) /\
               sub buf' 0 (buffered s + blen d) = window s ++ d.
Proof.
  intros HI Es. pose proof HI as (Hc & Hr0 & Hrw & Hwc & _). unfold buffered, rcap in *.
  assert (Hroom : 0 <= blen (rbuf s) - (rw s - rr s)) by lia.
  pose proof (src_read_len _ _ _ _ _ Hroom Es) as Hd. pose proof (blen_nonneg d) as Hd0.
  pose proof (window_len s HI) as Hwl.
  unfold fill, rcap. destruct (0 <? rr s) eqn:Esl.
  - rewrite Es. eexists. split; [reflexivity|].
    assert (Hb1 : blen (blit (rbuf s) 0 (window s)) = blen (rbuf s)) by (apply blit_length; lia).
    rewrite blit_sub by lia. f_equal.
    unfold blit. simpl firstn. simpl app. rewrite <- Hwl. unfold blen. rewrite Nat2Z.id.
    rewrite firstn_app_l by lia. apply firstn_all.
  - assert (rr s = 0) by lia. replace (blen (rbuf s) - rw s) with (blen (rbuf s) - (rw s - rr s)) by lia.
    rewrite Es. eexists. split; [f_equal; lia|].
    replace (rw s - rr s + blen d) with (rw s + blen d) by lia.
    rewrite blit_sub by lia. f_equal. unfold window. rewrite H. symmetry. apply sub_0.
Qed.

Lemma fill_invS s : InvS s -> InvS (fill s) /\ rr (fill s) = 0 /\ rtotal (fill s) = rtotal s /\ rlast (fill s) = rlast s.
Proof.
  intros (HI & HtS & HR & HP & HL).
  destruct (fill_inv s HI) as (HI1 & _ & Hr1 & _ & Hl1 & Ht1).
  destruct (src_read (rcap s - buffered s) (rsrc s)) as [[d e] src'] eqn:Es.
  destruct (fill_eq s d e src' HI Es) as [buf' [Ef Hw]].
  pose proof HI as (Hc & Hr0 & Hrw & Hwc & _).
  assert (Hroom : 0 <= rcap s - buffered s) by (unfold buffered; lia).
  destruct (src_read_stream _ _ _ _ _ Hroom Es) as [Hstream _].
  split; [|repeat split; assumption].
  split; [exact HI1|]. rewrite Ht1. split; [exact HtS|]. split.
  - rewrite HR. unfold R. rewrite Ef. unfold window. cbn [rbuf rr rw rsrc]. rewrite Hw, Hstream, app_assoc. reflexivity.
  - split.
    + right. intros i Hi. rewrite Hr1 in Hi. lia.
    + unfold LastOK in *. rewrite Hl1, Ht1, Hr1. intros H0 Hrw1. apply HL; [exact H0|].
      rewrite Ef in Hrw1. cbn [rw] in Hrw1. pose proof (blen_nonneg d). unfold buffered in *. lia.
Qed.

Lemma window_last s k x : InvS s -> 1 <= k <= buffered s ->
  last (sub (rbuf s) (rr s) (rr s + k)) x = nth (Z.to_nat (rtotal s + k - 1)) S 0 /\
  sub (rbuf s) (rr s) (rr s + k) <> [] /\ blen (sub (rbuf s) (rr s) (rr s + k)) = k.
Proof.
  intros (HI & HtS & HR & HP & HL) Hk. pose proof HI as (Hc & Hr0 & Hrw & Hwc & Ht & Hrt & _). unfold buffered in *.
  pose proof (window_len s HI) as Hwl.
  assert (Hlen : blen (sub (rbuf s) (rr s) (rr s + k)) = k) by (rewrite sub_length; unfold rcap in *; lia).
  assert (Hne : sub (rbuf s) (rr s) (rr s + k) <> []).
  { intro H0. rewrite H0 in Hlen. unfold blen in Hlen. simpl in Hlen. lia. }
  split; [|split; assumption].
  rewrite (last_nth_own _ x Hne).
  replace (length (sub (rbuf s) (rr s) (rr s + k)) - 1)%nat with (Z.to_nat (k - 1)) by (unfold blen in Hlen; lia).
  assert (Hsub : sub (rbuf s) (rr s) (rr s + k) = firstn (Z.to_nat k) (window s)).
  { unfold window, sub. replace (rr s + k - rr s) with k by lia. rewrite firstn_firstn. f_equal. lia. }
  rewrite Hsub, nth_firstn_own by lia.
  replace (rtotal s + k - 1) with (rtotal s + (k - 1)) by lia.
  rewrite (S_nth (rtotal s) (window s) (script_stream (rsrc s)) (k - 1)); [apply nth_indep; unfold blen in Hwl; lia|lia|exact HR|lia].
Qed.

Lemma consume_invS s k l : InvS s -> 1 <= k <= buffered s ->
  (0 <= l -> rr s + k = rw s -> l = nth (Z.to_nat (rtotal s + k - 1)) S 0) ->
  InvS (advance s (rr s + k) l k) /\ sub (rbuf s) (rr s) (rr s + k) = sub S (rtotal s) (rtotal s + k) /\
  PrefB (advance s (rr s + k) l k).
Proof.
  intros HS Hk Hlast. pose proof HS as (HI & HtS & HR & HP & HL).
  pose proof HI as (Hc & Hr0 & Hrw & Hwc & Ht & Hrt & Hl0). unfold buffered in *.
  pose proof (window_len s HI) as Hwl.
  assert (HPB : PrefB s).
  { destruct HP as [[Heq _]|HB]; [lia|exact HB]. }
  destruct (S_consume (rtotal s) (window s) (script_stream (rsrc s)) k ltac:(lia) HR ltac:(lia)) as (Hsk & Hle & Hsub).
  assert (Hd : sub (rbuf s) (rr s) (rr s + k) = firstn (Z.to_nat k) (window s)).
  { unfold window, sub. replace (rr s + k - rr s) with k by lia. rewrite firstn_firstn. f_equal. lia. }
  assert (HPB' : PrefB (advance s (rr s + k) l k)).
  { intros i Hi. unfold advance in *. cbn [rbuf rr rtotal] in *.
    destruct (Z_lt_ge_dec i (rr s)) as [Hlt|Hge].
    - rewrite (HPB i ltac:(lia)). f_equal. lia.
    - rewrite (nth_window s i HI ltac:(lia)).
      replace (rtotal s + k - (rr s + k) + i) with (rtotal s + (i - rr s)) by lia.
      symmetry. apply (S_nth (rtotal s) (window s) (script_stream (rsrc s)) (i - rr s)); [lia|exact HR|lia]. }
  split; [|split; [rewrite Hd, Hsub; reflexivity|exact HPB']].
  assert (HI1 : Inv (advance s (rr s + k) l k)) by (apply advance_inv; try assumption; lia).
  split; [exact HI1|]. unfold advance. cbn [rtotal rr rw rlast rbuf rsrc]. split; [lia|]. split.
  - rewrite Hsk. unfold R, window. cbn [rbuf rr rw rsrc]. f_equal.
    rewrite (sub_split (rbuf s) (rr s) (rr s + k) (rw s)) by lia.
    rewrite skipn_app_l by (rewrite Hd, firstn_length; unfold blen in Hwl; lia).
    assert (Hall : skipn (Z.to_nat k) (sub (rbuf s) (rr s) (rr s + k)) = []).
    { apply skipn_all2. pose proof (sub_length (rbuf s) (rr s) (rr s + k) ltac:(lia) ltac:(lia) ltac:(unfold rcap in *; lia)) as Hl1.
      unfold blen in Hl1. lia. }
    rewrite Hall. reflexivity.
  - split.
    + right. exact HPB'.
    + unfold LastOK. cbn [rlast rr rw rtotal]. intros H0 Heq. apply Hlast; assumption.
Qed.

Hypothesis Swf : Forall (fun b => 0 <= b) S.
Lemma S_nth_nonneg i : 0 <= nth i S 0.
Proof.
  destruct (Nat.lt_ge_cases i (length S)) as [H|H].
  - rewrite Forall_forall in Swf. apply Swf. apply nth_In. exact H.
  - rewrite nth_overflow by lia. lia.
Qed.

Lemma sub_empty (l : bytes) a : sub l a a = [].
Proof. unfold sub. rewrite Z.sub_diag. reflexivity. Qed.

Lemma set_err_invS s e : InvS s -> InvS (set_err s e).
Proof.
  intros (HI & HtS & HR & HP & HL). split; [apply set_err_inv; exact HI|].
  unfold set_err, R, window, PrefA, PrefB, LastOK in *. cbn [rbuf rr rw rerr rlast rtotal rsrc rpulled]. tauto.
Qed.

(* data handed out by a consuming operation: the slice of S at the old position *)
Definition data_law (s s' : reader) (d : bytes) : Prop :=
  d = sub S (rtotal s) (rtotal s + blen d) /\ rtotal s' = rtotal s + blen d.

Lemma data_law_nil s e : data_law s (set_err s e) [].
Proof. unfold data_law, set_err. cbn [rtotal]. change (blen []) with 0. rewrite Z.add_0_r, sub_empty. split; [reflexivity|lia]. Qed.

Lemma rd_copy_S n s d e s' : InvS s -> 0 < n -> rr s < rw s -> rd_copy n s = (d, e, s') ->
  InvS s' /\ data_law s s' d /\ PrefB s'.
Proof.
  intros HS Hn Hlt E. unfold rd_copy in E. set (m := Z.min n (buffered s)) in *.
  assert (Hm : 1 <= m <= buffered s) by (unfold m, buffered; lia).
  destruct (window_last s m (-1) HS Hm) as (Hlast & Hne & Hlen).
  inversion E; subst; clear E.
  destruct (consume_invS s m (last (sub (rbuf s) (rr s) (rr s + m)) (-1)) HS Hm ltac:(intros _ _; exact Hlast)) as (HS1 & Hd & HPB).
  split; [exact HS1|]. split; [|exact HPB]. unfold data_law. rewrite Hlen. split; [exact Hd|]. unfold advance. cbn [rtotal]. lia.
Qed.

Lemma rd_read_S n s d e s' : InvS s -> 0 <= n -> rd_read n s = (d, e, s') -> InvS s' /\ data_law s s' d.
Proof.
  intros HS Hn. pose proof HS as (HI & HtS & HR & HP & HL). unfold rd_read.
  destruct (n =? 0) eqn:En; [intros E; inversion E; subst; split; [apply set_err_invS; exact HS|apply data_law_nil]|].
  destruct (rw s =? rr s) eqn:Ew.
  - destruct (negb (rerr s =? 0)) eqn:E1; [intros E; inversion E; subst; split; [apply set_err_invS; exact HS|apply data_law_nil]|].
    destruct (rcap s <=? n) eqn:Ec.
    + (* direct read into p *)
      destruct (src_read n (rsrc s)) as [[d0 e0] src'] eqn:Es. intros E; inversion E; subst; clear E.
      pose proof HI as (Hc & Hr0 & Hrw & Hwc & Ht & Hrt & Hl0).
      destruct (src_read_stream _ _ _ _ _ Hn Es) as [Hstream _].
      pose proof (window_len s HI) as Hwl.
      assert (Hw0 : window s = []).
      { destruct (window s); [reflexivity|]. unfold blen in Hwl. simpl in Hwl. lia. }
      assert (HR' : skipn (Z.to_nat (rtotal s)) S = d ++ script_stream src').
      { rewrite HR. unfold R. rewrite Hw0, Hstream. reflexivity. }
      pose proof (blen_nonneg d) as Hd0.
      destruct (S_consume (rtotal s) d (script_stream src') (blen d) ltac:(lia) HR' ltac:(lia)) as (Hsk & Hle & Hsub).
      assert (HI1 : Inv (mkR (rbuf s) (rr s) (rw s) 0 (note_last d (rlast s)) (rtotal s + blen d) src' (rpulled s + blen d))).
      { eapply (rd_read_inv n s d e). exact HI. exact Hn. unfold rd_read. rewrite En, Ew, E1, Ec, Es. reflexivity. }
      split.
      * split; [exact HI1|]. cbn [rtotal rr rw rlast rbuf rsrc]. split; [apply Hle; exact HtS|]. split.
        -- rewrite Hsk. unfold R, window. cbn [rbuf rr rw rsrc]. fold (window s). rewrite Hw0.
           unfold blen. rewrite Nat2Z.id, skipn_all. reflexivity.
        -- destruct d as [|x d1] eqn:Ed.
           ++ cbn [note_last]. change (blen []) with 0. split.
              ** destruct HP as [HA|HB]; [left; exact HA|right].
                 intros i Hi. cbn [rbuf rr rtotal] in *. rewrite (HB i Hi). f_equal. lia.
              ** unfold LastOK in *. cbn [rlast rr rw rtotal]. rewrite Z.add_0_r. exact HL.
           ++ rewrite <- Ed in *. assert (Hne : d <> []) by (rewrite Ed; discriminate).
              assert (Hlastd : note_last d (rlast s) = nth (Z.to_nat (rtotal s + blen d - 1)) S 0).
              { rewrite Ed. cbn [note_last]. rewrite <- Ed. rewrite (last_nth_own d 0 Hne).
                assert (1 <= blen d) by (apply nonempty_blen; exact Hne).
                replace (rtotal s + blen d - 1) with (rtotal s + (blen d - 1)) by lia.
                rewrite (S_nth (rtotal s) d (script_stream src') (blen d - 1)); [f_equal; unfold blen; lia|lia|exact HR'|lia]. }
              split.
              ** left. split; [cbn [rr rw]; lia|]. cbn [rlast]. rewrite Hlastd. apply S_nth_nonneg.
              ** unfold LastOK. cbn [rlast rr rw rtotal]. intros _ _. exact Hlastd.
      * unfold data_law. cbn [rtotal]. split; [|reflexivity].
        rewrite Hsub. unfold blen. rewrite Nat2Z.id, firstn_all. reflexivity.
    + destruct (fill_invS s HS) as (HS1 & Hr1 & Ht1 & Hl1). destruct (rw (fill s) =? rr (fill s)) eqn:Ef.
      * intros E; inversion E; subst. split; [apply set_err_invS; exact HS1|].
        unfold data_law, set_err. cbn [rtotal]. change (blen []) with 0. rewrite Ht1, Z.add_0_r, sub_empty. split; [reflexivity|lia].
      * intros E. pose proof HS1 as (HIf & _). pose proof HIf as (_ & _ & Hrwf & _).
        destruct (rd_copy_S n (fill s) d e s' HS1 ltac:(lia) ltac:(lia) E) as (HS2 & [Hd1 Hd2] & _).
        split; [exact HS2|]. unfold data_law. rewrite <- Ht1. split; assumption.
  - intros E. pose proof HI as (_ & _ & Hrw & _).
    destruct (rd_copy_S n s d e s' HS ltac:(lia) ltac:(lia) E) as (HS2 & Hd & _). split; assumption.
Qed.

(* --- ReadByte *)
Lemma rd_byte_loop_S : forall fuel s c e s', InvS s -> rd_byte_loop fuel s = (c, e, s') ->
  InvS s' /\ (if e =? 0 then c = nth (Z.to_nat (rtotal s)) S 0 /\ rtotal s' = rtotal s + 1 else rtotal s' = rtotal s).
Proof.
  assert (Hhit : forall s c e s', InvS s -> (rw s =? rr s) = false ->
            (nth (Z.to_nat (rr s)) (rbuf s) 0, 0, advance s (rr s + 1) (nth (Z.to_nat (rr s)) (rbuf s) 0) 1) = (c, e, s') ->
            InvS s' /\ (if e =? 0 then c = nth (Z.to_nat (rtotal s)) S 0 /\ rtotal s' = rtotal s + 1 else rtotal s' = rtotal s)).
  { intros s c e s' HS Ew E. inversion E; subst; clear E. pose proof HS as (HI & HtS & HR & HP & HL).
    pose proof HI as (Hc & Hr0 & Hrw & Hwc & Ht & Hrt & _). pose proof (window_len s HI) as Hwl.
    assert (Hc0 : nth (Z.to_nat (rr s)) (rbuf s) 0 = nth (Z.to_nat (rtotal s)) S 0).
    { rewrite (nth_window s (rr s) HI ltac:(lia)). rewrite Z.sub_diag.
      rewrite <- (S_nth (rtotal s) (window s) (script_stream (rsrc s)) 0 ltac:(lia) HR ltac:(lia)). f_equal. lia. }
    destruct (consume_invS s 1 (nth (Z.to_nat (rr s)) (rbuf s) 0) HS ltac:(unfold buffered; lia)
                ltac:(intros _ _; rewrite Hc0; f_equal; lia)) as (HS1 & _ & _).
    split; [exact HS1|]. cbn [Z.eqb]. split; [exact Hc0|]. unfold advance. cbn [rtotal]. reflexivity. }
  induction fuel as [|f IH]; intros s c e s' HS; cbn [rd_byte_loop];
    (destruct (rw s =? rr s) eqn:Ew; [|apply Hhit; assumption]);
    (destruct (negb (rerr s =? 0)) eqn:Ee;
      [intros E; inversion E; subst; split; [apply set_err_invS; exact HS|];
       destruct (rerr s =? 0); [discriminate|reflexivity]|]).
  - intros E; inversion E; subst. split; [exact HS|reflexivity].
  - intros E. destruct (fill_invS s HS) as (HS1 & _ & Ht1 & _).
    destruct (IH (fill s) c e s' HS1 E) as [H1 H2]. split; [exact H1|]. rewrite Ht1 in H2. exact H2.
Qed.

(* --- UnreadByte: a successful un-read moves the position back by one; the invariant (the remainder of S from the
   new position is window ++ future) says that the re-exposed byte is the one consumed last *)
Lemma sub_single (l : bytes) a : 0 <= a < blen l -> sub l a (a + 1) = [nth (Z.to_nat a) l 0].
Proof.
  intros H. unfold sub, blen in *. replace (a + 1 - a) with 1 by lia.
  rewrite (skipn_cons_nth l (Z.to_nat a) 0) by lia. reflexivity.
Qed.
Lemma S_back t : 1 <= t <= blen S ->
  skipn (Z.to_nat (t - 1)) S = nth (Z.to_nat (t - 1)) S 0 :: skipn (Z.to_nat t) S.
Proof.
  intros H. unfold blen in *. rewrite (skipn_cons_nth S (Z.to_nat (t - 1)) 0) by lia. do 2 f_equal. lia.
Qed.

Lemma rd_unread_S s e s' : InvS s -> rd_unread s = (e, s') ->
  InvS s' /\ (if e =? 0 then rtotal s' = rtotal s - 1 else rtotal s' = rtotal s).
Proof.
  intros HS. pose proof HS as (HI & HtS & HR & HP & HL).
  pose proof HI as (Hc & Hr0 & Hrw & Hwc & Ht & Hrt & Hl0). pose proof (window_len s HI) as Hwl.
  pose proof (rd_unread_inv s) as Hinv. unfold rd_unread in *.
  destruct ((rr s =? rw s) && (0 <=? rlast s)) eqn:E1.
  - intros E. specialize (Hinv e s' HI E). inversion E; subst; clear E.
    assert (Ht1 : 1 <= rtotal s) by (apply Hl0; lia).
    assert (Hdec : dec_total (rtotal s) = rtotal s - 1) by (unfold dec_total; destruct (0 <? rtotal s) eqn:X; lia).
    rewrite Hdec in *. split; [|cbn [Z.eqb rtotal]; reflexivity].
    split; [exact Hinv|]. cbn [rtotal rr rw rlast rbuf rsrc]. split; [lia|]. split.
    + rewrite (S_back (rtotal s)) by lia. rewrite HR. unfold R, window. cbn [rbuf rr rw rsrc].
      assert (Hw0 : sub (rbuf s) (rr s) (rw s) = []).
      { fold (window s). destruct (window s); [reflexivity|]. unfold blen in Hwl. simpl in Hwl. lia. }
      rewrite Hw0. replace 1 with (0 + blen [rlast s]) at 2 by reflexivity.
      rewrite blit_sub by (unfold rcap, blen in *; simpl; lia). simpl.
      rewrite <- (HL ltac:(lia) ltac:(lia)). reflexivity.
    + split; [right; intros i Hi; cbn [rr] in Hi; lia|]. unfold LastOK. cbn [rlast]. lia.
  - destruct (rr s <=? 0) eqn:E2; intros E.
    + inversion E; subst. split; [exact HS|reflexivity].
    + specialize (Hinv e s' HI E). inversion E; subst; clear E.
      assert (Hdec : dec_total (rtotal s) = rtotal s - 1) by (unfold dec_total; destruct (0 <? rtotal s) eqn:X; lia).
      rewrite Hdec in *. split; [|cbn [Z.eqb rtotal]; reflexivity].
      assert (HPB : PrefB s).
      { destruct HP as [[Heq Hge]|HB]; [|exact HB]. lia. }
      split; [exact Hinv|]. cbn [rtotal rr rw rlast rbuf rsrc]. split; [lia|]. split.
      * rewrite (S_back (rtotal s)) by lia. rewrite HR. unfold R, window. cbn [rbuf rr rw rsrc].
        rewrite (sub_split (rbuf s) (rr s - 1) (rr s) (rw s)) by lia.
        pose proof (sub_single (rbuf s) (rr s - 1) ltac:(unfold rcap in *; lia)) as Hsg.
        replace (rr s - 1 + 1) with (rr s) in Hsg by lia. rewrite Hsg.
        rewrite (HPB (rr s - 1) ltac:(lia)). simpl. do 3 f_equal. lia.
      * split; [right; intros i Hi; cbn [rbuf rr rtotal] in *; rewrite (HPB i ltac:(lia)); f_equal; lia|].
        unfold LastOK. cbn [rlast]. lia.
Qed.

(* --- ReadSlice *)
Lemma consume_line s r0 r' k line : InvS s -> r0 = rr s -> r' = rr s + k -> 1 <= k <= buffered s ->
  line = sub (rbuf s) r0 r' ->
  let s' := advance s r' (note_last line (rlast s)) k in
  InvS s' /\ data_law s s' line /\ PrefB s' /\ line <> [] /\ 1 <= rr s'.
Proof.
  intros HS -> -> Hk ->. cbn zeta.
  destruct (window_last s k 0 HS Hk) as (Hlast & Hne & Hlen).
  assert (Hnl : note_last (sub (rbuf s) (rr s) (rr s + k)) (rlast s) = last (sub (rbuf s) (rr s) (rr s + k)) 0).
  { destruct (sub (rbuf s) (rr s) (rr s + k)); [congruence|reflexivity]. }
  rewrite Hnl.
  destruct (consume_invS s k (last (sub (rbuf s) (rr s) (rr s + k)) 0) HS Hk ltac:(intros _ _; exact Hlast)) as (HS1 & Hd & HPB).
  pose proof HS as ((_ & Hr0 & _) & _).
  split; [exact HS1|]. split; [|split; [exact HPB|split; [exact Hne|unfold advance; cbn [rr]; lia]]].
  unfold data_law. rewrite Hlen. split; [exact Hd|]. unfold advance. cbn [rtotal]. lia.
Qed.

Lemma advance_zero_S s : InvS s -> rr s = rw s -> InvS (advance s (rw s) (rlast s) 0).
Proof.
  intros (HI & HtS & HR & HP & HL) Heq.
  split; [apply advance_inv; try assumption; try lia; destruct HI as (_ & _ & _ & _ & _ & _ & Hl); intros; rewrite Z.add_0_r; apply Hl; lia|].
  unfold advance. cbn [rtotal]. rewrite Z.add_0_r. split; [exact HtS|]. split; [|split].
  - rewrite HR. unfold R, window. cbn [rbuf rr rw rsrc]. rewrite Heq. reflexivity.
  - destruct HP as [[HA1 HA2]|HB]; [left; split; [reflexivity|exact HA2]|right].
    unfold PrefB in *. cbn [rbuf rr rtotal]. rewrite ?Z.add_0_r, <- Heq. exact HB.
  - unfold LastOK in *. cbn [rlast rr rw rtotal]. rewrite ?Z.add_0_r. intros H0 _. apply HL; assumption.
Qed.

Definition slice_post (s s' : reader) (line : bytes) : Prop :=
  InvS s' /\ data_law s s' line /\ (line <> [] -> PrefB s' /\ 1 <= rr s').

Lemma rd_slice_loop_S : forall fuel delim s line e s', InvS s -> rd_slice_loop fuel delim s = (line, e, s') ->
  slice_post s s' line.
Proof.
  induction fuel as [|f IH]; intros delim s line e s' HS; cbn [rd_slice_loop].
  - intros E; inversion E; subst. split; [exact HS|]. split; [|congruence].
    unfold data_law. change (blen []) with 0. rewrite Z.add_0_r, sub_empty. split; [reflexivity|lia].
  - pose proof HS as (HI & HtS & HR & HP & HL). pose proof HI as (Hc & Hr0 & Hrw & Hwc & _).
    pose proof (window_len s HI) as Hwl.
    destruct (negb (rerr s =? 0)).
    + intros E; inversion E; subst; clear E. destruct (Z.eq_dec (buffered s) 0) as [Hz|Hnz].
      * assert (Hw0 : window s = []).
        { destruct (window s); [reflexivity|]. unfold blen, buffered in *. simpl in Hwl. lia. }
        rewrite Hw0, Hz. cbn [note_last]. unfold buffered in Hz.
        split; [apply set_err_invS; apply advance_zero_S; [exact HS|lia]|]. split; [|congruence].
        unfold data_law, set_err, advance. cbn [rtotal]. change (blen []) with 0. rewrite Z.add_0_r, sub_empty. split; [reflexivity|lia].
      * destruct (consume_line s (rr s) (rw s) (buffered s) (window s) HS eq_refl ltac:(unfold buffered; lia)
                    ltac:(unfold buffered in *; lia) eq_refl) as (HS1 & Hd & HPB & Hne & Hr1).
        split; [apply set_err_invS; exact HS1|]. split; [exact Hd|]. intros _. split; [|exact Hr1].
        unfold PrefB, set_err in *. cbn [rbuf rr rtotal] in *. exact HPB.
    + destruct (fill_invS s HS) as (HS1 & Hr1 & Ht1 & Hl1).
      pose proof HS1 as (HI1 & _). pose proof HI1 as (Hc1 & _ & Hrw1 & Hwc1 & _).
      destruct (fill_inv s HI) as (_ & Hcap & _ & Hw1 & _).
      destruct (index_byte delim (sub (rbuf (fill s)) (buffered s) (rw (fill s)))) as [i|] eqn:Ei.
      * intros E; inversion E; subst; clear E.
        apply index_byte_bound in Ei. unfold buffered in *. rewrite sub_length in Ei by (unfold rcap in *; lia).
        destruct (consume_line (fill s) 0 (rw s - rr s + Z.of_nat i + 1) (rw s - rr s + Z.of_nat i + 1) _ HS1
                    ltac:(lia) ltac:(lia) ltac:(unfold buffered; lia) eq_refl) as (HS2 & Hd & HPB & Hne & Hr2).
        split; [exact HS2|]. split; [|intros _; split; assumption].
        unfold data_law in *. rewrite <- Ht1. exact Hd.
      * destruct (rcap (fill s) <=? buffered (fill s)) eqn:Efull.
        -- intros E; inversion E; subst; clear E. unfold buffered in *.
           assert (Hfull : rbuf (fill s) = sub (rbuf (fill s)) 0 (rw (fill s))).
           { rewrite sub_0. symmetry. apply firstn_all2. unfold rcap, blen in *. lia. }
           destruct (consume_line (fill s) 0 (rw (fill s)) (rcap (fill s)) (rbuf (fill s)) HS1
                       ltac:(lia) ltac:(lia) ltac:(unfold buffered; lia) Hfull) as (HS2 & Hd & HPB & Hne & Hr2).
           split; [exact HS2|]. split; [|intros _; split; assumption].
           unfold data_law in *. rewrite <- Ht1. exact Hd.
        -- intros E. destruct (IH delim (fill s) line e s' HS1 E) as (HS2 & Hd & Hp).
           split; [exact HS2|]. split; [|exact Hp]. unfold data_law in *. rewrite <- Ht1. exact Hd.
Qed.

Lemma rd_slice_S delim s line e s' : InvS s -> rd_slice delim s = (line, e, s') -> slice_post s s' line.
Proof.
  intros HS. unfold rd_slice. destruct (index_byte delim (window s)) as [i|] eqn:Ei.
  - intros E; inversion E; subst; clear E. pose proof HS as (HI & _).
    apply index_byte_bound in Ei. rewrite (window_len s HI) in Ei.
    destruct (consume_line s (rr s) (rr s + Z.of_nat i + 1) (Z.of_nat i + 1) _ HS eq_refl ltac:(lia)
                ltac:(unfold buffered; lia) eq_refl) as (HS2 & Hd & HPB & Hne & Hr2).
    split; [exact HS2|]. split; [exact Hd|intros _; split; assumption].
  - apply rd_slice_loop_S. exact HS.
Qed.

(* --- ReadBytes: ReadSlice repeated over full buffers *)
Lemma rd_bytes_loop_S : forall fuel delim s d e s', InvS s -> rd_bytes_loop fuel delim s = (d, e, s') ->
  InvS s' /\ data_law s s' d.
Proof.
  induction fuel as [|f IH]; intros delim s d e s' HS; cbn [rd_bytes_loop].
  - intros E; inversion E; subst. split; [exact HS|].
    unfold data_law. change (blen []) with 0. rewrite Z.add_0_r, sub_empty. split; [reflexivity|lia].
  - destruct (rd_slice delim s) as [[frag e1] s1] eqn:Es.
    destruct (rd_slice_S delim s frag e1 s1 HS Es) as (HS1 & [Hd1 Hd2] & _).
    destruct (e1 =? 0); [intros E; inversion E; subst; split; [exact HS1|split; assumption]|].
    destruct (negb (e1 =? 3)); [intros E; inversion E; subst; split; [exact HS1|split; assumption]|].
    destruct (rd_bytes_loop f delim s1) as [[rest e2] s2] eqn:Er.
    destruct (IH delim s1 rest e2 s2 HS1 Er) as (HS2 & [Hr1 Hr2]).
    intros E; inversion E; subst. split; [exact HS2|].
    pose proof HS as ((_ & Hr0 & _ & _ & _ & Hrt & _) & _).
    pose proof (blen_nonneg frag). pose proof (blen_nonneg rest).
    unfold data_law. rewrite blen_app. split; [|lia].
    rewrite (sub_split S (rtotal s) (rtotal s + blen frag) (rtotal s + (blen frag + blen rest))) by lia.
    rewrite <- Hd1. f_equal. rewrite Hr1 at 1. rewrite Hd2. f_equal. lia.
Qed.

(* --- WriteTo (sink never fails).  lastByte is reset first, so between the steps only the weaker invariant
   without the "bytes in front of r" clause holds; the first fill re-establishes it. *)
Definition InvS0 (s : reader) : Prop :=
  Inv s /\ rtotal s <= blen S /\ skipn (Z.to_nat (rtotal s)) S = R s /\ LastOK s.
Lemma InvS_InvS0 s : InvS s -> InvS0 s.
Proof. intros (H1 & H2 & H3 & _ & H5). split; [exact H1|split; [exact H2|split; [exact H3|exact H5]]]. Qed.

Lemma fill_invS0 s : InvS0 s -> InvS (fill s) /\ rtotal (fill s) = rtotal s /\ rlast (fill s) = rlast s.
Proof.
  intros (HI & HtS & HR & HL).
  destruct (fill_inv s HI) as (HI1 & _ & Hr1 & _ & Hl1 & Ht1).
  destruct (src_read (rcap s - buffered s) (rsrc s)) as [[d e] src'] eqn:Es.
  destruct (fill_eq s d e src' HI Es) as [buf' [Ef Hw]].
  pose proof HI as (Hc & Hr0 & Hrw & Hwc & _).
  assert (Hroom : 0 <= rcap s - buffered s) by (unfold buffered; lia).
  destruct (src_read_stream _ _ _ _ _ Hroom Es) as [Hstream _].
  split; [|split; assumption].
  split; [exact HI1|]. rewrite Ht1. split; [exact HtS|]. split.
  - rewrite HR. unfold R. rewrite Ef. unfold window. cbn [rbuf rr rw rsrc]. rewrite Hw, Hstream, app_assoc. reflexivity.
  - split.
    + right. intros i Hi. rewrite Hr1 in Hi. lia.
    + unfold LastOK in *. rewrite Hl1, Ht1, Hr1. intros H0 Hrw1. apply HL; [exact H0|].
      rewrite Ef in Hrw1. cbn [rw] in Hrw1. pose proof (blen_nonneg d). unfold buffered in *. lia.
Qed.

Lemma write_buf_S out s out' s' : InvS s -> rlast s = -1 -> rr s < rw s -> write_buf out s = (out', s') ->
  InvS s' /\ rlast s' = -1 /\ rtotal s' = rtotal s + buffered s /\
  out' = out ++ sub S (rtotal s) (rtotal s + buffered s).
Proof.
  intros HS Hl Hlt. unfold write_buf. intros E; inversion E; subst; clear E.
  destruct (consume_invS s (buffered s) (rlast s) HS ltac:(unfold buffered; lia) ltac:(lia)) as (HS1 & Hd & _).
  replace (rr s + buffered s) with (rw s) in * by (unfold buffered; lia).
  split; [exact HS1|]. split; [unfold advance; cbn [rlast]; exact Hl|]. split; [unfold advance; cbn [rtotal]; reflexivity|].
  unfold window. rewrite Hd. reflexivity.
Qed.

Lemma rd_wt_loop_S : forall fuel out s out' s' t0, InvS0 s -> (fuel = O -> InvS s) -> rlast s = -1 ->
  0 <= t0 <= rtotal s -> out = sub S t0 (rtotal s) ->
  rd_wt_loop fuel out s = (out', s') -> InvS s' /\ out' = sub S t0 (rtotal s') /\ rtotal s <= rtotal s'.
Proof.
  induction fuel as [|f IH]; intros out s out' s' t0 HS0 HO Hl Ht0 Hout; cbn [rd_wt_loop].
  - intros E; inversion E; subst. split; [apply set_err_invS; apply HO; reflexivity|].
    unfold set_err. cbn [rtotal]. split; [reflexivity|lia].
  - destruct (fill_invS0 s HS0) as (HS1 & Ht1 & Hl1).
    destruct (rr (fill s) <? rw (fill s)) eqn:Elt.
    + destruct (write_buf out (fill s)) as [o2 s2] eqn:Ew.
      destruct (write_buf_S out (fill s) o2 s2 HS1 ltac:(lia) ltac:(lia) Ew) as (HS2 & Hl2 & Ht2 & Ho2).
      intros E. pose proof HS1 as ((_ & Hr0f & Hrwf & _) & _).
      assert (Hb : 0 <= buffered (fill s)) by (unfold buffered; lia).
      destruct (IH o2 s2 out' s' t0 (InvS_InvS0 s2 HS2) ltac:(intros _; exact HS2) Hl2 ltac:(lia)
                  ltac:(rewrite Ho2, Hout, Ht2, Ht1; symmetry; apply sub_split; lia) E) as (H1 & H2 & H3).
      split; [exact H1|]. split; [exact H2|]. lia.
    + intros E; inversion E; subst. split; [exact HS1|]. rewrite Ht1. split; [reflexivity|lia].
Qed.

Lemma rd_writeto_S s d e s' : InvS s -> rd_writeto s = (d, e, s') -> InvS s' /\ data_law s s' d.
Proof.
  intros HS. pose proof HS as (HI & HtS & HR & HP & HL).
  pose proof HI as (Hc & Hr0 & Hrw & Hwc & Ht & Hrt & Hl0).
  unfold rd_writeto.
  set (s0 := mkR (rbuf s) (rr s) (rw s) (rerr s) (-1) (rtotal s) (rsrc s) (rpulled s)).
  assert (HI0 : Inv s0).
  { unfold Inv, rcap, s0 in *. cbn [rbuf rr rw rerr rlast rtotal rsrc rpulled]. repeat split; lia. }
  assert (Hfin : forall out s1 t1, InvS0 s1 -> rlast s1 = -1 -> rtotal s1 = t1 -> rtotal s <= t1 ->
            out = sub S (rtotal s) t1 ->
            (let '(out2, s2) := rd_wt_loop (rfuel s) out s1 in
             let s3 := if rerr s2 =? 1 then set_err s2 0 else s2 in (out2, rerr s3, set_err s3 0)) = (d, e, s') ->
            InvS s' /\ data_law s s' d).
  { intros out s1 t1 HS1 Hl1 Ht1 Hle Hout.
    destruct (rd_wt_loop (rfuel s) out s1) as [out2 s2] eqn:E2.
    assert (Hfuel : rfuel s = O -> InvS s1) by (unfold rfuel; lia).
    destruct (rd_wt_loop_S (rfuel s) out s1 out2 s2 (rtotal s) HS1 Hfuel Hl1 ltac:(lia) ltac:(rewrite Ht1; exact Hout) E2)
      as (HS2 & Ho2 & Hle2).
    intros E; inversion E; subst; clear E.
    assert (HS3 : InvS (if rerr s2 =? 1 then set_err s2 0 else s2)) by (destruct (rerr s2 =? 1); [apply set_err_invS|]; exact HS2).
    split; [apply set_err_invS; exact HS3|].
    assert (Ht3 : rtotal (set_err (if rerr s2 =? 1 then set_err s2 0 else s2) 0) = rtotal s2)
      by (destruct (rerr s2 =? 1); reflexivity).
    unfold data_law. rewrite Ht3.
    assert (Hlen : blen (sub S (rtotal s) (rtotal s2)) = rtotal s2 - rtotal s).
    { pose proof HS2 as (_ & HtS2 & _). apply sub_length; lia. }
    rewrite Hlen. split; [f_equal; lia|lia]. }
  destruct (Z_lt_ge_dec (rr s) (rw s)) as [Hlt|Hge].
  - assert (HS0 : InvS s0).
    { split; [exact HI0|]. unfold s0, R, window, PrefA, PrefB, LastOK in *. cbn [rbuf rr rw rerr rlast rtotal rsrc rpulled].
      split; [exact HtS|]. split; [exact HR|]. split; [|lia].
      right. destruct HP as [[Heq _]|HB]; [lia|exact HB]. }
    destruct (write_buf [] s0) as [out s1] eqn:E1.
    destruct (write_buf_S [] s0 out s1 HS0 eq_refl Hlt E1) as (HS1 & Hl1 & Ht1 & Ho1).
    apply (Hfin out s1 (rtotal s + buffered s0)); [apply InvS_InvS0; exact HS1|exact Hl1|exact Ht1|unfold buffered, s0; cbn [rr rw]; lia|exact Ho1].
  - assert (Heq : rr s = rw s) by lia.
    assert (Hw0 : window s = []).
    { pose proof (window_len s HI) as Hwl. destruct (window s); [reflexivity|]. unfold blen in Hwl. simpl in Hwl. lia. }
    unfold write_buf. cbn [app]. replace (window s0) with (@nil Z) by (symmetry; exact Hw0).
    apply (Hfin [] (advance s0 (rw s0) (rlast s0) (buffered s0)) (rtotal s)).
    + split; [apply advance_inv; [exact HI0|unfold buffered, s0; cbn [rr rw]; lia|unfold buffered, s0; cbn [rr rw]; lia|lia|unfold s0; cbn [rlast]; lia]|].
      unfold advance, buffered, s0, R, window, LastOK. cbn [rbuf rr rw rerr rlast rtotal rsrc rpulled].
      replace (rw s - rr s) with 0 by lia. rewrite Z.add_0_r. split; [exact HtS|]. split; [|lia].
      rewrite HR. unfold R, window. rewrite Heq. reflexivity.
    + reflexivity.
    + unfold advance, buffered, s0. cbn [rtotal rr rw]. lia.
    + lia.
    + rewrite sub_empty. reflexivity.
Qed.

(* --- ReadLine: the returned line followed by the dropped terminator is the slice of S that was consumed *)
Definition line_law (s s' : reader) (d : bytes) (pre : bool) : Prop :=
  exists term, sub S (rtotal s) (rtotal s') = d ++ term /\ (term = [] \/ term = [10] \/ term = [13; 10]) /\
               rtotal s' = rtotal s + blen d + blen term /\ (pre = true -> term = []).

Lemma rev_eq_app (l : bytes) x r : rev l = x :: r -> l = rev r ++ [x].
Proof. intros H. rewrite <- (rev_involutive l), H. reflexivity. Qed.

Lemma rd_line_S s d pre e s' : InvS s -> rd_line s = (d, pre, e, s') -> InvS s' /\ line_law s s' d pre.
Proof.
  intros HS. unfold rd_line. destruct (rd_slice 10 s) as [[line err] s1] eqn:Es.
  destruct (rd_slice_S 10 s line err s1 HS Es) as (HS1 & [Hd1 Hd2] & Hp).
  assert (Hkeep : forall term, line = d ++ term -> (term = [] \/ term = [10] \/ term = [13; 10]) ->
            (pre = true -> term = []) -> line_law s s1 d pre).
  { intros term -> Hterm Hpre. exists term. split; [|split; [exact Hterm|split; [|exact Hpre]]].
    - rewrite Hd2. exact (eq_sym Hd1).
    - rewrite Hd2, blen_app. lia. }
  destruct (err =? 3).
  - destruct (rev line) as [|c rl] eqn:Er.
    + intros E; inversion E; subst. split; [exact HS1|]. apply (Hkeep []); [rewrite app_nil_r; reflexivity|left; reflexivity|intros _; reflexivity].
    + apply rev_eq_app in Er.
      assert (Hne : line <> []) by (rewrite Er; destruct (rev rl); discriminate).
      destruct (Hp Hne) as (HPB & Hr1).
      assert (Hother : (line, true, 0, s1) = (d, pre, e, s') -> InvS s' /\ line_law s s' d pre).
      { intros E; inversion E; subst. split; [exact HS1|]. apply (Hkeep []); [rewrite app_nil_r; reflexivity|left; reflexivity|intros _; reflexivity]. }
      destruct (Z.eq_dec c 13) as [->|Hc]; [|destruct c as [|p|p]; try exact Hother;
        repeat (destruct p as [p|p|]; try exact Hother); congruence].
      intros E; inversion E; subst; clear E.
      (* un-read the CR *)
      pose proof HS1 as (HI1 & HtS1 & HR1 & HP1 & HL1).
      pose proof HI1 as (Hc1 & Hr01 & Hrw1 & Hwc1 & Ht1 & Hrt1 & Hl1).
      set (s2 := mkR (rbuf s1) (rr s1 - 1) (rw s1) (rerr s1) (rlast s1) (rtotal s1 - 1) (rsrc s1) (rpulled s1)).
      assert (HI2 : Inv s2).
      { unfold Inv, rcap, s2 in *. cbn [rbuf rr rw rerr rlast rtotal rsrc rpulled]. repeat split; try lia. }
      assert (Hlenl : blen (rev rl ++ [13]) = blen (rev rl) + 1) by (rewrite blen_app; reflexivity).
      pose proof (blen_nonneg (rev rl)) as Hrl0.
      split.
      * split; [exact HI2|]. unfold s2. cbn [rtotal rr rw rlast rbuf rsrc]. split; [lia|]. split.
        -- rewrite (S_back (rtotal s1)) by lia. rewrite HR1. unfold R, window. cbn [rbuf rr rw rsrc].
           rewrite (sub_split (rbuf s1) (rr s1 - 1) (rr s1) (rw s1)) by lia.
           pose proof (sub_single (rbuf s1) (rr s1 - 1) ltac:(unfold rcap in *; lia)) as Hsg.
           replace (rr s1 - 1 + 1) with (rr s1) in Hsg by lia. rewrite Hsg.
           rewrite (HPB (rr s1 - 1) ltac:(lia)). simpl. do 3 f_equal. lia.
        -- split; [right; intros i Hi; cbn [rbuf rr rtotal] in *; rewrite (HPB i ltac:(lia)); f_equal; lia|].
           unfold LastOK. cbn [rlast rr rw rtotal]. lia.
      * exists []. rewrite app_nil_r. unfold s2. cbn [rtotal]. change (blen []) with 0. split; [|split; [left; reflexivity|split; [lia|reflexivity]]].
        rewrite Hd2, Hlenl. replace (rtotal s + (blen (rev rl) + 1) - 1) with (rtotal s + blen (rev rl)) by lia.
        rewrite Hlenl in Hd1.
        assert (Hf : sub S (rtotal s) (rtotal s + blen (rev rl)) =
                     firstn (Z.to_nat (blen (rev rl))) (sub S (rtotal s) (rtotal s + (blen (rev rl) + 1)))).
        { unfold sub. rewrite firstn_firstn. f_equal. lia. }
        rewrite Hf, <- Hd1. unfold blen. rewrite Nat2Z.id, firstn_app, Nat.sub_diag, firstn_all. simpl. apply app_nil_r.
  - destruct (rev line) as [|c rl] eqn:Er.
    + assert (line = []) by (destruct line as [|x l]; [reflexivity|]; simpl in Er; destruct (rev l); discriminate).
      subst line. intros E; inversion E; subst. split; [exact HS1|]. apply (Hkeep []); [reflexivity|left; reflexivity|intros _; reflexivity].
    + apply rev_eq_app in Er.
      assert (Hother : (line, false, 0, s1) = (d, pre, e, s') -> InvS s' /\ line_law s s' d pre).
      { intros E; inversion E; subst. split; [exact HS1|]. apply (Hkeep []); [rewrite app_nil_r; reflexivity|left; reflexivity|intros _; reflexivity]. }
      destruct (Z.eq_dec c 10) as [->|Hc]; [|destruct c as [|p|p]; try exact Hother;
        repeat (destruct p as [p|p|]; try exact Hother); congruence].
      assert (Hten : (rev rl, false, 0, s1) = (d, pre, e, s') -> InvS s' /\ line_law s s' d pre).
      { intros E; inversion E; subst. split; [exact HS1|]. apply (Hkeep [10]); [reflexivity|right; left; reflexivity|discriminate]. }
      destruct rl as [|c2 rl2]; [exact Hten|].
      destruct (Z.eq_dec c2 13) as [->|Hc2]; [|destruct c2 as [|p|p]; try exact Hten;
        repeat (destruct p as [p|p|]; try exact Hten); congruence].
      intros E; inversion E; subst. split; [exact HS1|].
      apply (Hkeep [13; 10]); [simpl; rewrite <- app_assoc; reflexivity|right; right; reflexivity|discriminate].
Qed.

(* --- Peek: the data is the slice of S at the position, nothing is consumed *)
Lemma rd_peek_loop_S : forall fuel n s, InvS s -> InvS (rd_peek_loop fuel n s) /\ rtotal (rd_peek_loop fuel n s) = rtotal s.
Proof.
  induction fuel as [|f IH]; intros n s HS; cbn [rd_peek_loop]; [split; [exact HS|reflexivity]|].
  destruct ((buffered s <? n) && (rerr s =? 0)); [|split; [exact HS|reflexivity]].
  destruct (fill_invS s HS) as (HS1 & _ & Ht1 & _). destruct (IH n (fill s) HS1) as [H1 H2].
  split; [exact H1|]. rewrite H2. exact Ht1.
Qed.
Lemma rd_peek_S n s d e s' : InvS s -> rd_peek n s = (d, e, s') ->
  InvS s' /\ rtotal s' = rtotal s /\ d = sub S (rtotal s) (rtotal s + blen d).
Proof.
  intros HS. unfold rd_peek.
  assert (Hnil : forall t, [] = sub S t (t + blen (@nil Z))).
  { intros t. change (blen []) with 0. rewrite Z.add_0_r, sub_empty. reflexivity. }
  destruct (n <? 0) eqn:En; [intros E; inversion E; subst; split; [exact HS|split; [reflexivity|apply Hnil]]|].
  destruct (rcap s <? n); [intros E; inversion E; subst; split; [exact HS|split; [reflexivity|apply Hnil]]|].
  destruct (rd_peek_loop_S (rfuel s) n s HS) as [HS1 Ht1].
  set (s1 := rd_peek_loop (rfuel s) n s) in *.
  pose proof HS1 as (HI1 & HtS1 & HR1 & _). pose proof HI1 as (Hc1 & Hr01 & Hrw1 & Hwc1 & Ht & Hrt1 & _).
  pose proof (window_len s1 HI1) as Hwl.
  set (m := Z.min (buffered s1) n).
  assert (Hm : 0 <= m <= buffered s1) by (unfold m, buffered; lia).
  assert (Hd : sub (rbuf s1) (rr s1) (rr s1 + m) = sub S (rtotal s) (rtotal s + blen (sub (rbuf s1) (rr s1) (rr s1 + m)))).
  { rewrite sub_length by (unfold buffered, rcap in *; lia). replace (rr s1 + m - rr s1) with m by lia.
    destruct (S_consume (rtotal s1) (window s1) (script_stream (rsrc s1)) m ltac:(lia) HR1 ltac:(unfold buffered in *; lia)) as (_ & _ & Hsub).
    rewrite <- Ht1, Hsub. unfold window, sub. replace (rr s1 + m - rr s1) with m by lia.
    rewrite firstn_firstn. f_equal. unfold buffered in *. lia. }
  destruct (m <? n); intros E; inversion E; subst; clear E.
  - split; [apply set_err_invS; exact HS1|]. split; [unfold set_err; cbn [rtotal]; exact Ht1|exact Hd].
  - split; [exact HS1|]. split; [exact Ht1|exact Hd].
Qed.

(* ---------- histories of the core operations ---------- *)
(* what one observation [ret] of operation op says, at stream position pos, with t = TotalRead afterwards *)
Definition obs_law (pos : Z) (op : val) (ret : list val) (t : Z) : Prop :=
  match op, ret with
  | VL [VZ 1; VZ n], [VB d; VZ e] => d = sub S pos (pos + blen d) /\ t = pos + blen d
  | VL [VZ 2], [VZ c; VZ e] => if e =? 0 then c = nth (Z.to_nat pos) S 0 /\ t = pos + 1 else t = pos
  | VL [VZ 3], [VZ e] => if e =? 0 then t = pos - 1 else t = pos
  | VL [VZ 4; VZ delim], [VB d; VZ e] => d = sub S pos (pos + blen d) /\ t = pos + blen d
  | VL [VZ 5], [VB d; VZ pre; VZ e] =>
    exists term, sub S pos t = d ++ term /\ (term = [] \/ term = [10] \/ term = [13; 10]) /\ t = pos + blen d + blen term /\
                 (negb (pre =? 0) = true -> term = [])
  | VL [VZ 6; VZ n], [VB d; VZ e] => d = sub S pos (pos + blen d) /\ t = pos
  | VL [VZ 8; VZ delim], [VB d; VZ e] => d = sub S pos (pos + blen d) /\ t = pos + blen d
  | VL [VZ 9], [VB d; VZ n; VZ e] => d = sub S pos (pos + blen d) /\ t = pos + blen d /\ n = blen d
  | _, _ => False
  end.

Fixpoint trace_ok (pos : Z) (ops obs : list val) {struct ops} : Prop :=
  match ops, obs with
  | [], [] => True
  | op :: ops', VL [VL ret; VZ t; VZ p; VZ b] :: obs' => obs_law pos op ret t /\ trace_ok t ops' obs'
  | _, _ => False
  end.

Lemma reader_step_S op s lrs o s' lrs' : InvS s -> rune_free op = true -> is_reset op = false ->
  reader_step false op (s, lrs) = Some (o, (s', lrs')) ->
  InvS s' /\ exists ret, o = VL [VL ret; VZ (rtotal s'); VZ (rpulled s'); VZ (buffered s')] /\
                        obs_law (rtotal s) op ret (rtotal s').
Proof.
  intros HS. unfold reader_step, rune_free, is_reset.
  destruct op as [z|b|l]; try discriminate.
  destruct l as [|[tag| |] l]; try discriminate.
  destruct tag as [|p|p]; try discriminate.
  repeat (destruct p as [p|p|]; try discriminate).
  all: intros Hrf; try (vm_compute in Hrf; discriminate Hrf).
  all: destruct l as [|[n| |] [|? ?]]; try discriminate.
  all: intros Hnr; try discriminate Hnr.
  all: try (destruct (rd_slice 10 s) as [[line0 ?] ?] eqn:E0).
  - (* 9 *) destruct (rd_writeto s) as [[d e] s1] eqn:E. intros H; inversion H; subst.
    destruct (rd_writeto_S s d e s' HS E) as (HS1 & [HL1 HL2]). split; [exact HS1|].
    eexists. split; [reflexivity|]. unfold obs_law. split; [exact HL1|split; [exact HL2|reflexivity]].
  - (* 5 *) destruct (rd_line s) as [[[d pre] e] s1] eqn:E. intros H; inversion H; subst.
    destruct (rd_line_S s d pre e s' HS E) as [HS1 HL]. split; [exact HS1|].
    eexists. split; [reflexivity|]. unfold obs_law, vbool. destruct pre; exact HL.
  - (* 3 *) destruct (rd_unread s) as [e s1] eqn:E. intros H; inversion H; subst.
    destruct (rd_unread_S s e s' HS E) as [HS1 HL]. split; [exact HS1|].
    eexists. split; [reflexivity|]. exact HL.
  - (* 6 *) destruct (rd_peek n s) as [[d e] s1] eqn:E. intros H; inversion H; subst.
    destruct (rd_peek_S n s d e s' HS E) as (HS1 & Ht & HL). split; [exact HS1|].
    eexists. split; [reflexivity|]. unfold obs_law. rewrite Ht. split; [exact HL|reflexivity].
  - (* 8 *) destruct (rd_bytes n s) as [[d e] s1] eqn:E. intros H; inversion H; subst.
    destruct (rd_bytes_loop_S _ n s d e s' HS E) as (HS1 & HL). split; [exact HS1|].
    eexists. split; [reflexivity|]. exact HL.
  - (* 4 *) destruct (rd_slice n s) as [[d e] s1] eqn:E. intros H; inversion H; subst.
    destruct (rd_slice_S n s d e s' HS E) as (HS1 & HL & _). split; [exact HS1|].
    eexists. split; [reflexivity|]. exact HL.
  - (* 2 *) destruct (rd_byte s) as [[c e] s1] eqn:E. intros H; inversion H; subst.
    destruct (rd_byte_loop_S _ s c e s' HS E) as [HS1 HL]. split; [exact HS1|].
    eexists. split; [reflexivity|]. exact HL.
  - (* 1 *) destruct (n <? 0) eqn:En; [discriminate|].
    destruct (rd_read n s) as [[d e] s1] eqn:E. intros H; inversion H; subst.
    destruct (rd_read_S n s d e s' HS ltac:(lia) E) as [HS1 HL]. split; [exact HS1|].
    eexists. split; [reflexivity|]. exact HL.
Qed.

Definition plain_rop (op : val) : bool := rune_free op && negb (is_reset op).
Theorem reader_run_S : forall ops s lrs obs, InvS s -> forallb plain_rop ops = true ->
  reader_run false ops (s, lrs) = Some obs -> trace_ok (rtotal s) ops obs.
Proof.
  induction ops as [|op ops IH]; intros s lrs obs HS Hrf; cbn [reader_run].
  - intros E; inversion E; subst. exact I.
  - cbn [forallb] in Hrf. apply andb_true_iff in Hrf. destruct Hrf as [Hr1 Hr2].
    unfold plain_rop in Hr1. apply andb_true_iff in Hr1. destruct Hr1 as [Hr1 Hnr]. apply negb_true_iff in Hnr.
    destruct (reader_step false op (s, lrs)) as [[o [s1 l1]]|] eqn:Es; [|discriminate].
    destruct (reader_step_S op s lrs o s1 l1 HS Hr1 Hnr Es) as [HS1 [ret [Ho HL]]].
    destruct (reader_run false ops (s1, l1)) as [os|] eqn:Er; [|discriminate].
    intros E; inversion E; subst. cbn [trace_ok]. split; [exact HL|]. apply (IH s1 l1 os HS1 Hr2 Er).
Qed.
End Stream.

Lemma new_reader_invS size src : InvS (script_stream src) (new_reader size src).
Proof.
  split; [apply new_reader_inv|]. unfold new_reader. cbn [rtotal rr rw rlast rbuf rsrc].
  split; [apply blen_nonneg|]. split; [|split].
  - unfold R, window. cbn [rbuf rr rw rsrc]. rewrite sub_empty. reflexivity.
  - right. intros i Hi. cbn [rr] in Hi. lia.
  - unfold LastOK. cbn [rlast]. lia.
Qed.

Theorem reader_stream size src ops obs : Forall (fun b => 0 <= b) (script_stream src) ->
  forallb plain_rop ops = true ->
  reader_run false ops (new_reader size src, -1) = Some obs ->
  trace_ok (script_stream src) 0 ops obs.
Proof.
  intros Hwf Hrf Hrun.
  apply (reader_run_S (script_stream src) Hwf ops (new_reader size src) (-1) obs (new_reader_invS size src) Hrf Hrun).
Qed.

Lemma reader_stream_example :
  let src := [([97;98;99;10], 0); ([100;13], 0); ([10;101], 1)] in
  let ops := [VL [VZ 2]; VL [VZ 4; VZ 10]; VL [VZ 3]; VL [VZ 2]; VL [VZ 6; VZ 3]; VL [VZ 5]; VL [VZ 1; VZ 40]; VL [VZ 3]; VL [VZ 8; VZ 10]; VL [VZ 9]] in
  Forall (fun b => 0 <= b) (script_stream src) /\
  forallb plain_rop ops = true /\ exists obs, reader_run false ops (new_reader 16 src, -1) = Some obs.
Proof. cbn zeta. split; [repeat constructor; lia|]. split; [reflexivity|]. eexists. vm_compute. reflexivity. Qed.

(* ---------- Writer stream: sink ++ buffer is exactly the sequence of accepted bytes ---------- *)
Lemma firstn_app_exact_own {A} (l t : list A) : firstn (length l) (l ++ t) = l.
Proof. rewrite firstn_app, Nat.sub_diag, firstn_all. simpl. apply app_nil_r. Qed.
Lemma skipn_app_exact_own {A} (l t : list A) : skipn (length l) (l ++ t) = t.
Proof. rewrite skipn_app, Nat.sub_diag, skipn_all. reflexivity. Qed.
Definition wall (s : writer) : bytes := wout s ++ wbuf s.

Lemma sink_write_out p s k e s1 : sink_write p s = (k, e, s1) ->
  wout s1 = wout s ++ firstn (Z.to_nat k) p /\ (wsink s = [] -> k = blen p).
Proof.
  unfold sink_write. destruct (wsink s) as [|[lim e0] rest]; intros E; inversion E; subst; cbn [wout].
  - unfold blen. rewrite Nat2Z.id, firstn_all. split; reflexivity.
  - split; [reflexivity|discriminate].
Qed.

Lemma w_flush_wall s e s' : w_flush s = (e, s') -> wall s' = wall s.
Proof.
  unfold w_flush, wall. destruct (negb (werr s =? 0)); [intros E; inversion E; subst; reflexivity|].
  destruct (wbuf s) as [|x b] eqn:Eb; [intros E; inversion E; subst; rewrite Eb; reflexivity|].
  rewrite <- Eb. destruct (sink_write (wbuf s) s) as [[k e0] s1] eqn:Es.
  destruct (sink_write_out _ _ _ _ _ Es) as [Ho _].
  destruct (sink_write_spec _ _ _ _ _ Es) as (Hk & Hlen & _).
  destruct (negb ((if (k <? blen (wbuf s)) && (e0 =? 0) then 7 else e0) =? 0)) eqn:E1;
    intros E; inversion E; subst; clear E; unfold w_set; cbn [wout wbuf]; rewrite Ho.
  - rewrite <- app_assoc, firstn_skipn. reflexivity.
  - assert (k = blen (wbuf s)).
    { destruct (k <? blen (wbuf s)) eqn:Ek, (e0 =? 0) eqn:E0; simpl in E1; try discriminate; lia. }
    subst k. unfold blen. rewrite Nat2Z.id, firstn_all, app_nil_r. reflexivity.
Qed.

Lemma w_write_loop_wall : forall fuel direct p nn s p' nn' s', WInvN nn s -> 0 <= nn ->
  w_write_loop fuel direct p nn s = (p', nn', s') ->
  wall s' ++ p' = wall s ++ p /\ nn' + blen p' = nn + blen p.
Proof.
  induction fuel as [|f IH]; intros direct p nn s p' nn' s' HI Hnn; cbn [w_write_loop].
  - intros E; inversion E; subst. split; reflexivity.
  - destruct ((avail s <? blen p) && (werr s =? 0)) eqn:Ec; [|intros E; inversion E; subst; split; reflexivity].
    assert (Hbuf : forall n, n = avail s ->
       (let s1 := w_set s (wbuf s ++ firstn (Z.to_nat n) p) (werr s) in
        let '(_, s2) := w_flush s1 in w_write_loop f direct (skipn (Z.to_nat n) p) (nn + n) s2) = (p', nn', s') ->
       wall s' ++ p' = wall s ++ p /\ nn' + blen p' = nn + blen p).
    { intros n Hn. cbn zeta.
      destruct (w_flush (w_set s (wbuf s ++ firstn (Z.to_nat n) p) (werr s))) as [fe s2] eqn:Ef.
      assert (Hav : 0 <= n <= blen p) by (unfold avail, WInvN in *; lia).
      assert (HI1 : WInvN (nn + n) (w_set s (wbuf s ++ firstn (Z.to_nat n) p) (werr s))).
      { unfold WInvN, w_set, avail in *. cbn [wbuf wcap werr wtotal wsink wout]. destruct HI as (Ht & Hb & Hcp).
        rewrite blen_app, blen_firstn by lia. repeat split; lia. }
      destruct (w_flush_inv _ _ _ _ HI1 Ef) as (HI2 & _).
      pose proof (w_flush_wall _ _ _ Ef) as Hw. intros E.
      destruct (IH _ _ _ _ _ _ _ HI2 ltac:(lia) E) as [H1 H2].
      split.
      - rewrite H1, Hw. unfold wall, w_set. cbn [wout wbuf]. rewrite <- !app_assoc. rewrite firstn_skipn. reflexivity.
      - rewrite H2, blen_skipn by lia. lia. }
    destruct direct.
    + destruct (wbuf s) as [|x b] eqn:Eb.
      * destruct (sink_write p s) as [[k e] s1] eqn:Es.
        destruct (sink_write_spec _ _ _ _ _ Es) as (Hk & Ho & Hbf & Hcap & Htot & Herr).
        destruct (sink_write_out _ _ _ _ _ Es) as [Hout _].
        intros E.
        assert (HI1 : WInvN (nn + k) (w_set s1 (wbuf s1) e)).
        { unfold WInvN, w_set in *. cbn [wbuf wcap werr wtotal wsink wout]. rewrite Hbf, Eb in *. lia. }
        destruct (IH _ _ _ _ _ _ _ HI1 ltac:(lia) E) as [H1 H2].
        split.
        -- rewrite H1. unfold wall, w_set. cbn [wout wbuf]. rewrite Hbf, Eb, Hout, !app_nil_r, <- app_assoc, firstn_skipn. reflexivity.
        -- rewrite H2, blen_skipn by lia. lia.
      * rewrite <- Eb in *. apply Hbuf. reflexivity.
    + apply Hbuf. reflexivity.
Qed.

(* Write / WriteString accept exactly the first nn bytes of p: sink ++ buffer grows by exactly those bytes, and a
   short count comes with an error *)
Lemma w_write_gen_wall direct p s n e s' : WInv s -> w_write_gen direct p s = (n, e, s') ->
  0 <= n <= blen p /\ wall s' = wall s ++ firstn (Z.to_nat n) p /\ (n < blen p -> e <> 0).
Proof.
  unfold w_write_gen, WInv. intros HI.
  destruct (w_write_loop (length p + length (wsink s) + 3) direct p 0 s) as [[p' nn] s1] eqn:El.
  destruct (w_write_loop_inv _ _ _ _ _ _ _ _ HI ltac:(lia) El) as (HI1 & Hnn & Hav).
  destruct (w_write_loop_wall _ _ _ _ _ _ _ _ HI ltac:(lia) El) as [Hw Hlen].
  pose proof (blen_nonneg p') as Hp'.
  assert (Hsplit : p = firstn (Z.to_nat nn) p ++ p').
  { assert (Hl : length (wall s1) = (length (wall s) + Z.to_nat nn)%nat).
    { apply (f_equal (@length Z)) in Hw. rewrite !app_length in Hw. unfold blen in *. lia. }
    assert (Hf : firstn (length (wall s1)) (wall s1 ++ p') = wall s1) by apply firstn_app_exact_own.
    assert (Hs : skipn (length (wall s1)) (wall s1 ++ p') = p') by apply skipn_app_exact_own.
    rewrite Hw, Hl in Hs. rewrite skipn_app in Hs.
    rewrite skipn_all2 in Hs by lia. simpl in Hs.
    replace (length (wall s) + Z.to_nat nn - length (wall s))%nat with (Z.to_nat nn) in Hs by lia.
    rewrite <- Hs. symmetry. apply firstn_skipn. }
  destruct (negb (werr s1 =? 0)) eqn:Ee; intros E; inversion E; subst; clear E.
  - split; [lia|]. split.
    + unfold w_add_total, wall in *. cbn [wout wbuf].
      rewrite Hsplit in Hw. rewrite app_assoc in Hw. apply app_inv_tail in Hw. exact Hw.
    + intros _. lia.
  - split; [lia|]. replace (nn + blen p') with (blen p) by lia. split; [|lia].
    unfold w_add_total, w_set, wall in *. cbn [wout wbuf]. rewrite app_assoc, Hw.
    unfold blen. rewrite Nat2Z.id, firstn_all. reflexivity.
Qed.

Lemma w_flush_err0 s e s' : w_flush s = (e, s') -> e = 0 -> werr s = 0.
Proof.
  unfold w_flush. destruct (negb (werr s =? 0)) eqn:Ee; [intros E; inversion E; subst; lia|lia].
Qed.

Lemma w_write_byte_wall c s e s' : WInv s -> w_write_byte c s = (e, s') ->
  wall s' = wall s ++ (if e =? 0 then [c] else []).
Proof.
  unfold w_write_byte. intros HI. destruct (negb (werr s =? 0)) eqn:Ee.
  - intros E; inversion E; subst. rewrite negb_true_iff in Ee. rewrite Ee, app_nil_r. reflexivity.
  - destruct (avail s <=? 0).
    + destruct (w_flush s) as [fe s1] eqn:Ef. destruct (w_flush_inv _ _ _ _ HI Ef) as (_ & _ & Hne & _).
      pose proof (w_flush_wall _ _ _ Ef) as Hw.
      destruct (negb (fe =? 0)) eqn:Efe; intros E; inversion E; subst; clear E.
      * assert (werr s' <> 0) by (apply Hne; lia). destruct (werr s' =? 0) eqn:E0; [lia|]. rewrite app_nil_r. exact Hw.
      * unfold wall, w_add_total, w_set in *. cbn [wout wbuf Z.eqb]. rewrite app_assoc, Hw. reflexivity.
    + cbn [negb Z.eqb]. intros E; inversion E; subst; clear E.
      unfold wall, w_add_total, w_set. cbn [wout wbuf Z.eqb]. rewrite app_assoc. reflexivity.
Qed.

(* --- ReadFrom: the bytes taken from the reader, in order, are appended *)
Lemma w_readfrom_loop_wall : forall fuel src n s early n' e' s', WInvN n s -> 0 <= n ->
  w_readfrom_loop fuel src n s = (early, (n', e', s')) ->
  exists a rest, script_stream src = a ++ rest /\ blen a = n' - n /\
    match early with
    | Some (n1, e1, s1) => wall s1 = wall s ++ a /\ n1 = n'
    | None => wall s' = wall s ++ a
    end.
Proof.
  induction fuel as [|f IH]; intros src n s early n' e' s' HI Hn; cbn [w_readfrom_loop].
  - intros E; inversion E; subst. exists [], (script_stream src). rewrite app_nil_r. change (blen []) with 0.
    repeat split; lia.
  - assert (Hcore : forall s1, WInvN n s1 -> wall s1 = wall s ->
      (let '(d, e, src') := src_read (avail s1) src in
       if blen d =? 0 then (None, (n, e, s1))
       else let s2 := w_set s1 (wbuf s1 ++ d) (werr s1) in
            if negb (e =? 0) then (None, (n + blen d, e, s2)) else w_readfrom_loop f src' (n + blen d) s2)
      = (early, (n', e', s')) ->
      exists a rest, script_stream src = a ++ rest /\ blen a = n' - n /\
        match early with
        | Some (n1, e1, s1') => wall s1' = wall s ++ a /\ n1 = n'
        | None => wall s' = wall s ++ a
        end).
    { intros s1 HI1 Hw1. destruct (src_read (avail s1) src) as [[d e] src'] eqn:Es.
      assert (Hroom : 0 <= avail s1) by (unfold avail, WInvN in *; lia).
      pose proof (src_read_len _ _ _ _ _ Hroom Es) as Hd. pose proof (blen_nonneg d) as Hd0.
      destruct (src_read_stream _ _ _ _ _ Hroom Es) as [Hstream _].
      destruct (blen d =? 0) eqn:Ed0.
      - intros E; inversion E; subst. exists [], (script_stream src). rewrite app_nil_r. change (blen []) with 0.
        repeat split; [lia|exact Hw1].
      - assert (HI2 : WInvN (n + blen d) (w_set s1 (wbuf s1 ++ d) (werr s1))).
        { unfold WInvN, w_set, avail in *. cbn [wbuf wcap werr wtotal wsink wout]. rewrite blen_app. lia. }
        assert (Hw2 : wall (w_set s1 (wbuf s1 ++ d) (werr s1)) = wall s ++ d).
        { unfold wall, w_set in *. cbn [wout wbuf]. rewrite app_assoc, Hw1. reflexivity. }
        destruct (negb (e =? 0)).
        + intros E; inversion E; subst. exists d, (script_stream src'). repeat split; [exact Hstream|lia|exact Hw2].
        + intros E. destruct (IH _ _ _ _ _ _ _ HI2 ltac:(lia) E) as [a [rest [Hs [Hl Hm]]]].
          exists (d ++ a), rest. split; [rewrite Hstream, Hs, app_assoc; reflexivity|]. split; [rewrite blen_app; lia|].
          destruct early as [[[n1 e1] s1']|]; rewrite Hw2, <- app_assoc in Hm; exact Hm. }
    destruct (avail s =? 0) eqn:Ea.
    + destruct (w_flush s) as [fe s1] eqn:Ef. destruct (w_flush_inv _ _ _ _ HI Ef) as (HI1 & _).
      pose proof (w_flush_wall _ _ _ Ef) as Hw.
      destruct (negb (fe =? 0)) eqn:Efe.
      * intros E; inversion E; subst. exists [], (script_stream src). rewrite app_nil_r. change (blen []) with 0.
        repeat split; [lia|]. unfold wall, w_add_total in *. cbn [wout wbuf]. exact Hw.
      * apply Hcore; assumption.
    + cbn [negb Z.eqb]. apply Hcore; [exact HI|reflexivity].
Qed.

Lemma firstn_prefix_len (a rest : bytes) : firstn (Z.to_nat (blen a)) (a ++ rest) = a.
Proof. unfold blen. rewrite Nat2Z.id. apply firstn_app_exact_own. Qed.

Lemma w_readfrom_wall src s n e s' : WInv s -> w_readfrom src s = (n, e, s') ->
  wall s' = wall s ++ firstn (Z.to_nat n) (script_stream src) /\ 0 <= n <= blen (script_stream src).
Proof.
  unfold w_readfrom. intros HI.
  destruct (w_readfrom_loop _ src 0 s) as [early [[n1 e1] s1]] eqn:El.
  destruct (w_readfrom_loop_wall _ _ _ _ _ _ _ _ HI ltac:(lia) El) as [a [rest [Hs [Hl Hm]]]].
  pose proof (blen_nonneg a) as Ha. pose proof (blen_nonneg rest) as Hr.
  assert (Hn1 : n1 = blen a) by lia.
  assert (Hfirst : firstn (Z.to_nat n1) (script_stream src) = a) by (rewrite Hn1, Hs; apply firstn_prefix_len).
  assert (Hbound : 0 <= n1 <= blen (script_stream src)) by (rewrite Hs, blen_app; lia).
  destruct early as [[[n2 e2] s2]|].
  - destruct Hm as [Hw ->]. intros E; inversion E; subst. rewrite Hfirst. split; [exact Hw|exact Hbound].
  - assert (Hend : forall sx, wall sx = wall s1 -> wall (w_add_total sx n1) = wall s ++ firstn (Z.to_nat n1) (script_stream src)).
    { intros sx Hx. unfold w_add_total, wall in *. cbn [wout wbuf]. rewrite Hx, Hfirst. exact Hm. }
    destruct (e1 =? 1).
    + destruct (avail s1 =? 0).
      * destruct (w_flush s1) as [fe s2] eqn:Ef. pose proof (w_flush_wall _ _ _ Ef) as Hw.
        intros E; inversion E; subst. split; [apply Hend; exact Hw|exact Hbound].
      * intros E; inversion E; subst. split; [apply Hend; reflexivity|exact Hbound].
    + intros E; inversion E; subst. split; [apply Hend; reflexivity|exact Hbound].
Qed.

Lemma w_write_rune_wall r s n e s' : WInv s -> w_write_rune r s = (n, e, s') ->
  let enc := if r <? 128 then [r mod 256] else encode_rune r in
  0 <= n <= blen enc /\ wall s' = wall s ++ firstn (Z.to_nat n) enc /\ (n < blen enc -> e <> 0).
Proof.
  unfold w_write_rune. intros HI. destruct (r <? 128) eqn:Er; cbn zeta.
  - destruct (w_write_byte (r mod 256) s) as [e1 s1] eqn:E1. pose proof (w_write_byte_wall _ _ _ _ HI E1) as Hw.
    change (blen [r mod 256]) with 1.
    destruct (e1 =? 0) eqn:E0; cbn [negb]; intros E; inversion E; subst; clear E.
    + split; [lia|]. split; [exact Hw|lia].
    + split; [lia|]. split; [exact Hw|lia].
  - pose proof (encode_rune_len r) as Hlen.
    destruct (negb (werr s =? 0)) eqn:Ee.
    + intros E; inversion E; subst. split; [lia|]. split; [simpl; rewrite app_nil_r; reflexivity|lia].
    + assert (Happ : forall s1, wall (w_add_total (w_set s1 (wbuf s1 ++ encode_rune r) (werr s1)) (blen (encode_rune r)))
                        = wall s1 ++ firstn (Z.to_nat (blen (encode_rune r))) (encode_rune r)).
      { intros s1. unfold wall, w_add_total, w_set. cbn [wout wbuf]. unfold blen. rewrite Nat2Z.id, firstn_all, app_assoc. reflexivity. }
      destruct (avail s <? 4).
      * destruct (w_flush s) as [fe s1] eqn:Ef. destruct (w_flush_inv _ _ _ _ HI Ef) as (HI1 & _).
        pose proof (w_flush_wall _ _ _ Ef) as Hw.
        destruct (negb (werr s1 =? 0)) eqn:Ee1.
        -- intros E; inversion E; subst. split; [lia|]. split; [simpl; rewrite app_nil_r; exact Hw|lia].
        -- destruct (avail s1 <? 4).
           ++ intros E. destruct (w_write_gen_wall false _ _ _ _ _ HI1 E) as (H1 & H2 & H3). rewrite Hw in H2.
              split; [exact H1|split; [exact H2|exact H3]].
           ++ intros E; inversion E; subst. split; [lia|]. split; [rewrite Happ, Hw; reflexivity|lia].
      * intros E; inversion E; subst. split; [lia|]. split; [apply Happ|lia].
Qed.

(* a = the bytes the operation accepted; b = Buffered afterwards *)
Definition wobs_law (op : val) (ret : list val) (a : bytes) (b : Z) : Prop :=
  match op, ret with
  | VL [VZ 1; VB d], [VZ n; VZ e] => a = firstn (Z.to_nat n) d /\ 0 <= n <= blen d /\ (n < blen d -> e <> 0)
  | VL [VZ 3; VB d], [VZ n; VZ e] => a = firstn (Z.to_nat n) d /\ 0 <= n <= blen d /\ (n < blen d -> e <> 0)
  | VL [VZ 2; VZ c], [VZ e] => a = (if e =? 0 then [c] else [])
  | VL [VZ 4], [VZ e] => a = [] /\ (e = 0 -> b = 0)
  | VL [VZ 7; VZ r], [VZ n; VZ e] =>
    let enc := if r <? 128 then [r mod 256] else encode_rune r in
    a = firstn (Z.to_nat n) enc /\ 0 <= n <= blen enc /\ (n < blen enc -> e <> 0)
  | VL [VZ 6; src], [VZ n; VZ e] =>
    exists sc, dec_script src = Some sc /\ a = firstn (Z.to_nat n) (script_stream sc) /\ 0 <= n <= blen (script_stream sc)
  | _, _ => False
  end.
Fixpoint wtrace_ok (A : bytes) (ops obs : list val) {struct ops} : Prop :=
  match ops, obs with
  | [], [VB out] => exists rest, A = out ++ rest
  | op :: ops', VL [VL ret; VZ t; VZ k; VZ b] :: obs' =>
    exists a, wobs_law op ret a b /\ t = blen (A ++ a) /\ wtrace_ok (A ++ a) ops' obs'
  | _, _ => False
  end.

Lemma wall_len s : WInv s -> wtotal s = blen (wall s).
Proof. unfold WInv, WInvN, wall. intros (H & _). rewrite blen_app. lia. Qed.

Lemma writer_step_S op s o s' : WInv s -> is_wreset op = false -> writer_step false op s = Some (o, s') ->
  WInv s' /\ exists ret a, o = VL [VL ret; VZ (wtotal s'); VZ (blen (wout s')); VZ (blen (wbuf s'))] /\
                          wobs_law op ret a (blen (wbuf s')) /\ wall s' = wall s ++ a.
Proof.
  intros HI Hnr Hstep. destruct (writer_step_inv false op s o s' HI Hstep) as [HI1 _]. split; [exact HI1|].
  revert Hnr Hstep. unfold writer_step, is_wreset.
  destruct op as [z|b|l]; try discriminate.
  destruct l as [|[tag| |] l]; try discriminate.
  destruct tag as [|p|p]; try discriminate.
  repeat (destruct p as [p|p|]; try discriminate).
  all: destruct l as [|x [|? ?]]; try discriminate.
  all: try (destruct x as [c|d|src]; try discriminate).
  all: intros Hnr; try discriminate Hnr.
  - (* 7 WriteRune *) destruct (w_write_rune c s) as [[n e] s1] eqn:E. intros H; inversion H; subst.
    destruct (w_write_rune_wall c s n e s' HI E) as (Hn & Hw & He).
    eexists [VZ n; VZ e], _. split; [reflexivity|]. split; [|exact Hw].
    unfold wobs_law. split; [reflexivity|split; assumption].
  - (* 3 WriteString *) destruct (w_write_string d s) as [[n e] s1] eqn:E. intros H; inversion H; subst.
    destruct (w_write_gen_wall false d s n e s' HI E) as (Hn & Hw & He).
    exists [VZ n; VZ e], (firstn (Z.to_nat n) d). split; [reflexivity|]. split; [|exact Hw].
    split; [reflexivity|split; assumption].
  - (* 6 ReadFrom *) destruct (dec_script (VL src)) as [sc|] eqn:Ed; [|discriminate].
    destruct (w_readfrom sc s) as [[n e] s1] eqn:E. intros H; inversion H; subst.
    destruct (w_readfrom_wall sc s n e s' HI E) as [Hw Hn].
    exists [VZ n; VZ e], (firstn (Z.to_nat n) (script_stream sc)). split; [reflexivity|]. split; [|exact Hw].
    exists sc. split; [exact Ed|split; [reflexivity|exact Hn]].
  - (* 4 Flush *) destruct (w_flush s) as [e s1] eqn:E. intros H; inversion H; subst.
    exists [VZ e], []. split; [reflexivity|]. split.
    + split; [reflexivity|]. intros He. destruct (w_flush_inv _ _ _ _ HI E) as (_ & Hempty & _).
      rewrite (Hempty He (w_flush_err0 _ _ _ E He)). reflexivity.
    + rewrite app_nil_r. apply (w_flush_wall _ _ _ E).
  - (* 2 WriteByte *) destruct (w_write_byte c s) as [e s1] eqn:E. intros H; inversion H; subst.
    exists [VZ e], (if e =? 0 then [c] else []). split; [reflexivity|]. split; [reflexivity|].
    apply (w_write_byte_wall _ _ _ _ HI E).
  - (* 1 Write *) destruct (w_write d s) as [[n e] s1] eqn:E. intros H; inversion H; subst.
    destruct (w_write_gen_wall true d s n e s' HI E) as (Hn & Hw & He).
    exists [VZ n; VZ e], (firstn (Z.to_nat n) d). split; [reflexivity|]. split; [|exact Hw].
    split; [reflexivity|split; assumption].
Qed.

Theorem writer_run_S : forall ops s obs, WInv s -> forallb (fun op => negb (is_wreset op)) ops = true ->
  writer_run false ops s = Some obs -> wtrace_ok (wall s) ops obs.
Proof.
  induction ops as [|op ops IH]; intros s obs HI Hnr; cbn [writer_run].
  - intros E; inversion E; subst. exists (wbuf s). reflexivity.
  - cbn [forallb] in Hnr. apply andb_true_iff in Hnr. destruct Hnr as [Hn1 Hn2]. apply negb_true_iff in Hn1.
    destruct (writer_step false op s) as [[o s1]|] eqn:Es; [|discriminate].
    destruct (writer_step_S op s o s1 HI Hn1 Es) as [HI1 [ret [a [Ho [HL Hw]]]]].
    destruct (writer_run false ops s1) as [os|] eqn:Er; [|discriminate].
    intros E; inversion E; subst. cbn [wtrace_ok]. exists a. split; [exact HL|]. split.
    + rewrite <- Hw. apply wall_len. exact HI1.
    + rewrite <- Hw. apply (IH s1 os HI1 Hn2 Er).
Qed.

Theorem writer_stream size sink ops obs : forallb (fun op => negb (is_wreset op)) ops = true ->
  writer_run false ops (new_writer size sink) = Some obs -> wtrace_ok [] ops obs.
Proof.
  intros Hn Hr. apply (writer_run_S ops (new_writer size sink) obs (new_writer_inv size sink) Hn Hr).
Qed.

Lemma writer_stream_example :
  exists obs, writer_run false [VL [VZ 1; VB [1;2;3;4;5;6;7]]; VL [VZ 2; VZ 8]; VL [VZ 6; VL [VL [VB [9;10;11]; VZ 1]]]; VL [VZ 3; VB [12;13]]; VL [VZ 4]]
                         (new_writer 4 [(2, 0); (5000, 0); (1, 8)]) = Some obs.
Proof. eexists. vm_compute. reflexivity. Qed.

(* ---------- the io.WriterTo-source and io.ReaderFrom-sink variants ---------- *)
Lemma src_drain_stream : forall sc d e rest, src_drain sc = (d, e, rest) -> script_stream sc = d ++ script_stream rest.
Proof.
  unfold script_stream. induction sc as [|[d0 e0] r IH]; intros d e rest; cbn [src_drain].
  - intros E; inversion E; subst. reflexivity.
  - destruct (e0 =? 0).
    + destruct (src_drain r) as [[d2 e2] r2] eqn:Ed. intros E; inversion E; subst.
      simpl. rewrite (IH _ _ _ eq_refl), app_assoc. reflexivity.
    + intros E; inversion E; subst. reflexivity.
Qed.

Lemma w_readfrom_rf_wall src s n e s' : WInv s -> w_readfrom_rf src s = (n, e, s') ->
  wall s' = wall s ++ firstn (Z.to_nat n) (script_stream src) /\ 0 <= n <= blen (script_stream src).
Proof.
  unfold w_readfrom_rf. intros HI. destruct (wbuf s) as [|x b] eqn:Eb.
  - destruct (src_drain src) as [[d e0] rest] eqn:Ed. pose proof (src_drain_stream _ _ _ _ Ed) as Hs.
    intros E; inversion E; subst; clear E. pose proof (blen_nonneg d). pose proof (blen_nonneg (script_stream rest)).
    split; [|rewrite Hs, blen_app; lia].
    rewrite Hs, firstn_prefix_len. unfold wall. cbn [wout wbuf]. rewrite Eb, !app_nil_r. reflexivity.
  - apply w_readfrom_wall. exact HI.
Qed.

Section StreamWT.
Variable S : bytes.
Lemma rd_writeto_wt_S s d e s' : InvS S s -> rd_writeto_wt s = (d, e, s') -> InvS S s' /\ data_law S s s' d.
Proof.
  intros HS. pose proof HS as (HI & HtS & HR & HP & HL).
  pose proof HI as (Hc & Hr0 & Hrw & Hwc & Ht & Hrt & Hl0).
  pose proof (rd_writeto_wt_inv s d e s' HI) as Hinv.
  unfold rd_writeto_wt in *.
  set (s0 := mkR (rbuf s) (rr s) (rw s) (rerr s) (-1) (rtotal s) (rsrc s) (rpulled s)) in *.
  (* after write_buf: everything buffered went out, the window is empty *)
  assert (Hwb : exists s1 out, write_buf [] s0 = (out, s1) /\ rr s1 = rw s1 /\ rlast s1 = -1 /\
            rtotal s1 = rtotal s + blen out /\ out = sub S (rtotal s) (rtotal s + blen out) /\
            rtotal s1 <= blen S /\ 0 <= blen out /\
            skipn (Z.to_nat (rtotal s1)) S = script_stream (rsrc s1) /\ Inv s1).
  { destruct (Z_lt_ge_dec (rr s) (rw s)) as [Hlt|Hge].
    - assert (HS0 : InvS S s0).
      { split; [unfold Inv, rcap, s0 in *; cbn [rbuf rr rw rerr rlast rtotal rsrc rpulled]; repeat split; lia|].
        unfold s0, R, window, PrefA, PrefB, LastOK in *. cbn [rbuf rr rw rerr rlast rtotal rsrc rpulled].
        split; [exact HtS|]. split; [exact HR|]. split; [|lia].
        right. destruct HP as [[Heq _]|HB]; [lia|exact HB]. }
      destruct (write_buf [] s0) as [out s1] eqn:E1.
      destruct (write_buf_S S [] s0 out s1 HS0 eq_refl Hlt E1) as (HS1 & Hl1 & Ht1 & Ho1).
      exists s1, out. split; [reflexivity|].
      assert (Hblen : blen out = buffered s0).
      { rewrite Ho1. cbn [app]. pose proof HS1 as (_ & HtS1 & _). rewrite Ht1 in HtS1.
        rewrite sub_length; unfold buffered, s0 in *; cbn [rr rw rtotal] in *; lia. }
      pose proof HS1 as (HI1 & HtS1 & HR1 & _).
      assert (Hrw1 : rr s1 = rw s1) by (unfold write_buf in E1; inversion E1; reflexivity).
      split; [exact Hrw1|]. split; [exact Hl1|]. split; [rewrite Ht1, Hblen; reflexivity|].
      split; [rewrite Hblen; exact Ho1|]. split; [exact HtS1|]. split; [apply blen_nonneg|]. split; [|exact HI1].
      rewrite HR1. unfold R. pose proof (window_len s1 HI1) as Hwl.
      destruct (window s1); [reflexivity|]. unfold blen in Hwl. simpl in Hwl. lia.
    - assert (Heq : rr s = rw s) by lia.
      assert (Hw0 : window s = []).
      { pose proof (window_len s HI) as Hwl. destruct (window s); [reflexivity|]. unfold blen in Hwl. simpl in Hwl. lia. }
      assert (HI0 : Inv s0).
      { unfold Inv, rcap, s0 in *. cbn [rbuf rr rw rerr rlast rtotal rsrc rpulled]. repeat split; lia. }
      assert (HIa : Inv (advance s0 (rw s0) (rlast s0) (buffered s0))).
      { apply advance_inv; [exact HI0|unfold buffered, s0; cbn [rr rw]; lia|unfold buffered, s0; cbn [rr rw]; lia|lia|unfold s0; cbn [rlast]; lia]. }
      exists (advance s0 (rw s0) (rlast s0) (buffered s0)), []. unfold write_buf. cbn [app].
      replace (window s0) with (@nil Z) by (symmetry; exact Hw0).
      split; [reflexivity|]. split; [reflexivity|]. split; [reflexivity|].
      change (blen []) with 0. rewrite !Z.add_0_r, sub_empty.
      assert (Hb0 : buffered s0 = 0) by (unfold buffered, s0; cbn [rr rw]; lia).
      split; [unfold advance; cbn [rtotal]; rewrite Hb0; unfold s0; cbn [rtotal]; lia|].
      split; [reflexivity|].
      split; [unfold advance; cbn [rtotal]; rewrite Hb0; unfold s0; cbn [rtotal]; lia|].
      split; [lia|]. split; [|exact HIa].
      unfold advance. cbn [rtotal rsrc]. rewrite Hb0. unfold s0. cbn [rtotal rsrc]. rewrite Z.add_0_r, HR. unfold R. rewrite Hw0. reflexivity. }
  destruct Hwb as (s1 & out & E1 & Hrw1 & Hl1 & Ht1 & Ho1 & HtS1 & Hout0 & HR1 & HI1).
  rewrite E1 in *. destruct (src_drain (rsrc s1)) as [[d0 e0] rest] eqn:Ed.
  pose proof (src_drain_stream _ _ _ _ Ed) as Hstream.
  intros E. specialize (Hinv E). inversion E; subst; clear E.
  pose proof (blen_nonneg d0) as Hd0.
  assert (HR1' : skipn (Z.to_nat (rtotal s1)) S = d0 ++ script_stream rest) by (rewrite HR1, Hstream; reflexivity).
  destruct (S_consume S (rtotal s1) d0 (script_stream rest) (blen d0) ltac:(lia) HR1' ltac:(lia)) as (Hsk & Hle & Hsub).
  assert (Hz : (rr s1 =? rw s1) = true) by lia. rewrite Hz in *.
  split.
  - split; [exact Hinv|]. cbn [rtotal rr rw rlast rbuf rsrc]. split; [apply Hle; exact HtS1|]. split; [|split].
    + rewrite Hsk. unfold R, window. cbn [rbuf rr rw rsrc]. rewrite sub_empty.
      unfold blen. rewrite Nat2Z.id, skipn_all. reflexivity.
    + right. intros i Hi. cbn [rr] in Hi. lia.
    + unfold LastOK. cbn [rlast]. lia.
  - unfold data_law. cbn [rtotal]. rewrite blen_app. split; [|lia].
    rewrite (sub_split S (rtotal s) (rtotal s + blen out) (rtotal s + (blen out + blen d0))) by lia.
    rewrite <- Ho1. f_equal. rewrite <- Ht1.
    replace (rtotal s + (blen out + blen d0)) with (rtotal s1 + blen d0) by lia.
    rewrite Hsub. unfold blen. rewrite Nat2Z.id, firstn_all. reflexivity.
Qed.
End StreamWT.

(* ---------- ReadRune ---------- *)
Section StreamRune.
Variable S : bytes.
Lemma rd_rune_fill_S : forall fuel s, InvS S s -> InvS S (rd_rune_fill fuel s) /\ rtotal (rd_rune_fill fuel s) = rtotal s.
Proof.
  induction fuel as [|f IH]; intros s HS; cbn [rd_rune_fill]; [split; [apply set_err_invS; exact HS|reflexivity]|].
  destruct ((rw s <? rr s + 4) && negb (full_rune (window s)) && (rerr s =? 0)); [|split; [exact HS|reflexivity]].
  destruct (fill_invS S s HS) as (HS1 & _ & Ht1 & _). destruct (IH (fill s) HS1) as [H1 H2].
  split; [exact H1|]. rewrite H2. exact Ht1.
Qed.

(* on success the size bytes at the position decode to exactly (r, size) *)
Lemma rd_rune_S s r size e s' lrs' : InvS S s -> rd_rune s = (r, size, e, s', lrs') ->
  InvS S s' /\
  (if e =? 0 then 1 <= size <= 4 /\ rtotal s' = rtotal s + size /\
                  decode_rune (sub S (rtotal s) (rtotal s + size)) = (r, size)
   else rtotal s' = rtotal s /\ size = 0).
Proof.
  intros HS. pose proof HS as (HI & _). unfold rd_rune.
  destruct (rd_rune_fill_S (rfuel s) s HS) as [HS1 Ht1]. pose proof (rd_rune_fill_exit (rfuel s) s HI) as Hexit.
  set (s1 := rd_rune_fill (rfuel s) s) in *. pose proof HS1 as (HI1 & HtS1 & HR1 & _).
  destruct (rr s1 =? rw s1) eqn:Er.
  - intros E; inversion E; subst; clear E. split; [apply set_err_invS; exact HS1|].
    assert (rerr s1 <> 0) by (apply Hexit; lia). destruct (rerr s1 =? 0) eqn:E0; [lia|].
    unfold set_err. cbn [rtotal]. split; [exact Ht1|reflexivity].
  - destruct (rune_size_bound s1 HI1 ltac:(lia)) as [Hb H4]. unfold rune_size in Hb, H4.
    pose proof (window_len s1 HI1) as Hwl. pose proof HI1 as (Hc & Hr0 & Hrw & Hwc & Ht & Hrt & _).
    assert (Hw : window s1 <> []) by (intro H0; rewrite H0 in Hwl; unfold blen in Hwl; simpl in Hwl; lia).
    set (c := nth (Z.to_nat (rr s1)) (rbuf s1) 0) in *.
    assert (Hc0 : c = hd 0 (window s1)).
    { unfold c. rewrite (nth_window s1 (rr s1) HI1 ltac:(lia)), Z.sub_diag. destruct (window s1); [congruence|reflexivity]. }
    assert (Hdec : (if c <? 128 then (c, 1) else decode_rune (window s1)) = decode_rune (window s1)).
    { destruct (c <? 128) eqn:E128; [|reflexivity]. destruct (window s1) as [|b0 t]; [congruence|].
      simpl in Hc0. subst b0. unfold decode_rune. rewrite E128. reflexivity. }
    rewrite Hdec in *. destruct (decode_rune (window s1)) as [r0 k] eqn:Ek. cbn [snd] in Hb, H4.
    intros E; inversion E; subst; clear E.
    destruct (window_last S s1 lrs' 0 HS1 ltac:(lia)) as (Hlast & _ & _).
    destruct (consume_invS S s1 lrs' (last (sub (rbuf s1) (rr s1) (rr s1 + lrs')) 0) HS1 ltac:(lia)
                ltac:(intros _ _; exact Hlast)) as (HS2 & Hd & _).
    split; [exact HS2|]. cbn [Z.eqb]. split; [lia|]. split; [unfold advance; cbn [rtotal]; lia|].
    rewrite <- Ht1, <- Hd.
    assert (Hsub : sub (rbuf s1) (rr s1) (rr s1 + lrs') = firstn (Z.to_nat lrs') (window s1)).
    { unfold window, sub. replace (rr s1 + lrs' - rr s1) with lrs' by lia. rewrite firstn_firstn. f_equal. unfold buffered in *. lia. }
    rewrite Hsub. pose proof (decode_rune_prefix (window s1) Hw) as Hp. rewrite Ek in Hp. cbn [snd] in Hp. exact Hp.
Qed.
End StreamRune.

(* ---------- UnreadRune: lastRuneSize (lrs) is kept beside the reader ---------- *)
Section StreamUnrune.
Variable S : bytes.

(* when lrs >= 0 (a ReadRune was the last consuming operation) either the buffer has since been slid (r = 0, and
   UnreadRune refuses) or the lrs bytes in front of r are the bytes consumed last *)
Definition LInv (s : reader) (lrs : Z) : Prop :=
  0 <= lrs -> rr s = 0 \/ (1 <= lrs <= rr s /\ lrs <= 4 /\ PrefB S s).

(* an operation that consumed nothing leaves the read index and the bytes in front of it alone, or slid *)
Definition keep (s s' : reader) : Prop :=
  rr s' = 0 \/ (rr s' = rr s /\ rtotal s' = rtotal s /\ rbuf s' = rbuf s).
Lemma keep_LInv s s' lrs : LInv s lrs -> keep s s' -> LInv s' lrs.
Proof.
  intros HL [H0|(Hr & Ht & Hb)] Hl; [left; exact H0|].
  destruct (HL Hl) as [Hz|(H1 & H4 & HP)]; [left; lia|]. right. split; [lia|]. split; [exact H4|].
  unfold PrefB in *. rewrite Hr, Ht, Hb. exact HP.
Qed.
Lemma keep_refl s : keep s s.
Proof. right. repeat split; reflexivity. Qed.
Lemma keep_set_err s e : keep s (set_err s e).
Proof. right. repeat split; reflexivity. Qed.
Lemma keep_zero_trans s s1 s' : rr s1 = 0 -> keep s1 s' -> keep s s'.
Proof. intros H0 [H|(Hr & _)]; left; lia. Qed.

Lemma rd_read_keep n s d e s' : Inv s -> 0 <= n -> rd_read n s = (d, e, s') -> rtotal s' = rtotal s -> keep s s'.
Proof.
  intros HI Hn. unfold rd_read.
  assert (Hcopy : forall s0, Inv s0 -> rr s0 < rw s0 -> 0 < n -> rd_copy n s0 = (d, e, s') -> rtotal s' = rtotal s0 -> False).
  { intros s0 H0 Hlt Hn0. unfold rd_copy, buffered. intros E; inversion E; subst; clear E. unfold advance. cbn [rtotal]. lia. }
  destruct (n =? 0) eqn:En; [intros E; inversion E; subst; intros _; apply keep_set_err|].
  destruct (rw s =? rr s) eqn:Ew.
  - destruct (negb (rerr s =? 0)); [intros E; inversion E; subst; intros _; apply keep_set_err|].
    destruct (rcap s <=? n).
    + destruct (src_read n (rsrc s)) as [[d0 e0] src']. intros E; inversion E; subst. intros Ht.
      right. cbn [rr rbuf rtotal] in *. repeat split; try reflexivity. exact Ht.
    + destruct (fill_inv s HI) as (HI1 & _ & Hr1 & _ & _ & Ht1). destruct (rw (fill s) =? rr (fill s)) eqn:Ef.
      * intros E; inversion E; subst. intros _. left. unfold set_err. cbn [rr]. exact Hr1.
      * intros E Ht. exfalso. pose proof HI1 as (_ & _ & Hrw1 & _).
        apply (Hcopy (fill s) HI1 ltac:(lia) ltac:(lia) E). lia.
  - intros E Ht. exfalso. pose proof HI as (_ & _ & Hrw & _). apply (Hcopy s HI ltac:(lia) ltac:(lia) E Ht).
Qed.

Lemma rd_slice_loop_keep : forall fuel delim s d e s', Inv s -> rd_slice_loop fuel delim s = (d, e, s') ->
  rtotal s' = rtotal s -> keep s s'.
Proof.
  induction fuel as [|f IH]; intros delim s d e s' HI; cbn [rd_slice_loop].
  - intros E; inversion E; subst. intros _. apply keep_refl.
  - pose proof HI as (Hc & Hr0 & Hrw & Hwc & _).
    destruct (negb (rerr s =? 0)).
    + intros E; inversion E; subst; clear E. unfold set_err, advance, buffered. cbn [rtotal rr rbuf]. intros Ht.
      right. cbn [rtotal rr rw rbuf]. repeat split; try reflexivity; lia.
    + destruct (fill_inv s HI) as (HI1 & Hcap & Hr1 & _ & _ & Ht1). pose proof HI1 as (Hc1 & _ & Hrw1 & _).
      destruct (index_byte delim (sub (rbuf (fill s)) (buffered s) (rw (fill s)))) as [i|].
      * intros E; inversion E; subst; clear E. unfold advance, buffered. cbn [rtotal]. intros Ht. lia.
      * destruct (rcap (fill s) <=? buffered (fill s)).
        -- intros E; inversion E; subst; clear E. unfold advance. cbn [rtotal]. intros Ht. lia.
        -- intros E Ht. apply (keep_zero_trans s (fill s) s' Hr1). apply (IH delim (fill s) d e s' HI1 E). lia.
Qed.
Lemma rd_slice_keep delim s d e s' : Inv s -> rd_slice delim s = (d, e, s') -> rtotal s' = rtotal s -> keep s s'.
Proof.
  intros HI. unfold rd_slice. destruct (index_byte delim (window s)) as [i|].
  - intros E; inversion E; subst; clear E. unfold advance. cbn [rtotal]. intros Ht. lia.
  - apply rd_slice_loop_keep. exact HI.
Qed.

Lemma rd_peek_loop_keep : forall fuel n s, rr (rd_peek_loop fuel n s) = 0 \/ rd_peek_loop fuel n s = s.
Proof.
  induction fuel as [|f IH]; intros n s; cbn [rd_peek_loop]; [right; reflexivity|].
  destruct ((buffered s <? n) && (rerr s =? 0)); [|right; reflexivity].
  left. destruct (IH n (fill s)) as [H|H]; [exact H|]. rewrite H. unfold fill.
  destruct (src_read _ _) as [[? ?] ?]. reflexivity.
Qed.
Lemma rd_peek_keep n s d e s' : rd_peek n s = (d, e, s') -> keep s s'.
Proof.
  unfold rd_peek. destruct (n <? 0); [intros E; inversion E; subst; apply keep_refl|].
  destruct (rcap s <? n); [intros E; inversion E; subst; apply keep_refl|].
  destruct (rd_peek_loop_keep (rfuel s) n s) as [H|H].
  - destruct (Z.min _ n <? n); intros E; inversion E; subst; left; [unfold set_err; cbn [rr]|]; exact H.
  - rewrite H. destruct (Z.min _ n <? n); intros E; inversion E; subst; [apply keep_set_err|apply keep_refl].
Qed.

Lemma nth_sub (l : bytes) a b i : 0 <= a -> 0 <= i < b - a -> b <= blen l ->
  nth (Z.to_nat i) (sub l a b) 0 = nth (Z.to_nat (a + i)) l 0.
Proof.
  intros Ha Hi Hb. unfold sub. rewrite nth_firstn_own by lia. rewrite nth_skipn. f_equal. lia.
Qed.

(* the k bytes in front of the read index are the k bytes of S in front of the position *)
Lemma prefB_sub s k : InvS S s -> PrefB S s -> 0 <= k <= rr s ->
  sub (rbuf s) (rr s - k) (rr s) = sub S (rtotal s - k) (rtotal s).
Proof.
  intros (HI & HtS & _) HP Hk. pose proof HI as (Hc & Hr0 & Hrw & Hwc & Ht & Hrt & _).
  assert (L1 : blen (sub (rbuf s) (rr s - k) (rr s)) = k) by (rewrite sub_length; unfold rcap in *; lia).
  assert (L2 : blen (sub S (rtotal s - k) (rtotal s)) = k) by (rewrite sub_length; lia).
  apply (nth_ext _ _ 0 0); [unfold blen in *; lia|].
  intros j Hj. assert (Hjk : 0 <= Z.of_nat j < k) by (unfold blen in L1; lia).
  replace j with (Z.to_nat (Z.of_nat j)) by lia.
  rewrite nth_sub by (unfold rcap in *; lia). rewrite nth_sub by lia.
  rewrite (HP (rr s - k + Z.of_nat j) ltac:(lia)). f_equal. lia.
Qed.

Lemma S_back_k t k : 0 <= k <= t -> t <= blen S ->
  skipn (Z.to_nat (t - k)) S = sub S (t - k) t ++ skipn (Z.to_nat t) S.
Proof.
  intros Hk Ht. unfold sub. replace (t - (t - k)) with k by lia.
  rewrite <- (firstn_skipn (Z.to_nat k) (skipn (Z.to_nat (t - k)) S)) at 1. f_equal.
  rewrite skipn_skipn'. f_equal. lia.
Qed.

Lemma rd_unread_rune_S s lrs e s' lrs' : InvS S s -> LInv s lrs -> rd_unread_rune s lrs = (e, s', lrs') ->
  InvS S s' /\ LInv s' lrs' /\
  (if e =? 0 then 1 <= rtotal s - rtotal s' <= 4 else rtotal s' = rtotal s).
Proof.
  intros HS HL. pose proof HS as (HI & HtS & HR & HP & HLast).
  pose proof HI as (Hc & Hr0 & Hrw & Hwc & Ht & Hrt & Hl0). unfold rd_unread_rune.
  destruct ((lrs <? 0) || (rr s =? 0)) eqn:Ec.
  - intros E; inversion E; subst. split; [exact HS|]. split; [exact HL|]. reflexivity.
  - intros E; inversion E; subst; clear E.
    destruct (HL ltac:(lia)) as [Hz|(H1 & H4 & HPB)]; [lia|].
    assert (Hle : (lrs <=? rtotal s) = true) by lia. rewrite Hle.
    pose proof (prefB_sub s lrs HS HPB ltac:(lia)) as Hsub.
    split; [|split; [intros Hneg; lia|cbn [Z.eqb rtotal]; lia]].
    split.
    + unfold Inv, rcap in *. cbn [rbuf rr rw rerr rlast rtotal rsrc rpulled]. repeat split; lia.
    + cbn [rtotal rr rw rlast rbuf rsrc]. split; [lia|]. split; [|split].
      * rewrite (S_back_k (rtotal s) lrs) by lia. rewrite HR, <- Hsub. unfold R, window. cbn [rbuf rr rw rsrc].
        rewrite (sub_split (rbuf s) (rr s - lrs) (rr s) (rw s)) by lia. rewrite <- app_assoc. reflexivity.
      * right. intros i Hi. cbn [rbuf rr rtotal] in *. rewrite (HPB i ltac:(lia)). f_equal. lia.
      * unfold LastOK. cbn [rlast]. lia.
Qed.

Lemma rd_rune_L s r size e s' lrs' : InvS S s -> rd_rune s = (r, size, e, s', lrs') -> LInv s' lrs'.
Proof.
  intros HS. pose proof HS as (HI & _). unfold rd_rune.
  destruct (rd_rune_fill_S S (rfuel s) s HS) as [HS1 Ht1].
  set (s1 := rd_rune_fill (rfuel s) s) in *. pose proof HS1 as (HI1 & _).
  destruct (rr s1 =? rw s1) eqn:Er; [intros E; inversion E; subst; intros Hneg; lia|].
  destruct (rune_size_bound s1 HI1 ltac:(lia)) as [Hb H4]. unfold rune_size in Hb, H4.
  pose proof HI1 as (Hc & Hr0 & Hrw & Hwc & _).
  destruct (if nth (Z.to_nat (rr s1)) (rbuf s1) 0 <? 128 then (nth (Z.to_nat (rr s1)) (rbuf s1) 0, 1) else decode_rune (window s1))
    as [r0 k] eqn:Ek. cbn [snd] in Hb, H4.
  intros E; inversion E; subst; clear E.
  destruct (window_last S s1 lrs' 0 HS1 ltac:(lia)) as (Hlast & _ & _).
  destruct (consume_invS S s1 lrs' (last (sub (rbuf s1) (rr s1) (rr s1 + lrs')) 0) HS1 ltac:(lia)
              ltac:(intros _ _; exact Hlast)) as (_ & _ & HPB).
  intros _. right. unfold advance in *. cbn [rr] in *. split; [lia|]. split; [exact H4|exact HPB].
Qed.

Lemma keep_trans s s1 s' : keep s s1 -> keep s1 s' -> keep s s'.
Proof.
  intros H1 [H2|(Hr & Ht & Hb)]; [left; exact H2|].
  destruct H1 as [H1|(Hr1 & Ht1 & Hb1)]; [left; lia|]. right. repeat split; congruence.
Qed.

Lemma rd_bytes_loop_keep : forall fuel delim s d e s', InvS S s -> rd_bytes_loop fuel delim s = (d, e, s') ->
  rtotal s' = rtotal s -> keep s s'.
Proof.
  induction fuel as [|f IH]; intros delim s d e s' HS; cbn [rd_bytes_loop].
  - intros E; inversion E; subst. intros _. apply keep_refl.
  - pose proof HS as (HI & _). destruct (rd_slice delim s) as [[frag e1] s1] eqn:Es.
    destruct (rd_slice_S S delim s frag e1 s1 HS Es) as (HS1 & [_ Hd2] & _).
    pose proof (blen_nonneg frag) as Hf.
    destruct (e1 =? 0); [intros E; inversion E; subst; apply (rd_slice_keep delim s _ _ s' HI Es)|].
    destruct (negb (e1 =? 3)); [intros E; inversion E; subst; apply (rd_slice_keep delim s _ _ s' HI Es)|].
    destruct (rd_bytes_loop f delim s1) as [[rest e2] s2] eqn:Er.
    destruct (rd_bytes_loop_S S f delim s1 rest e2 s2 HS1 Er) as (_ & [_ Hr2]). pose proof (blen_nonneg rest) as Hr.
    intros E; inversion E; subst. intros Ht.
    apply (keep_trans s s1 s'); [apply (rd_slice_keep delim s frag e1 s1 HI Es); lia|].
    apply (IH delim s1 rest _ s' HS1 Er). lia.
Qed.

Lemma rd_line_empty s z r d pre e s' : rd_slice 10 s = ([], z, r) -> rd_line s = (d, pre, e, s') -> s' = r.
Proof.
  intros E0. unfold rd_line. rewrite E0. destruct (z =? 3); simpl; intros E; inversion E; reflexivity.
Qed.
End StreamUnrune.
