(* C48 proofs about model/Callbacks.v *)
From Coq Require Import List ZArith Bool Lia.
From Bfe Require Import lib.Val lib.ValProofs model.Callbacks run.RunC48.
Import ListNotations.
Open Scope Z_scope.

(* ---- the chain walk ---- *)
Lemma run_chain_calls l : fst (run_chain l) = firstn (S (first_non_continue l)) l.
Proof.
  induction l as [|c r IH]; [reflexivity|].
  cbn [run_chain first_non_continue]. destruct (ret c =? VGoOn) eqn:E.
  - destruct (run_chain r) as [cs v] eqn:R. cbn [fst] in *. rewrite IH. reflexivity.
  - reflexivity.
Qed.

Lemma run_chain_verdict l : snd (run_chain l) = nth (first_non_continue l) l VGoOn.
Proof.
  induction l as [|c r IH]; [reflexivity|].
  cbn [run_chain first_non_continue]. destruct (ret c =? VGoOn) eqn:E.
  - destruct (run_chain r) as [cs v] eqn:R. cbn [snd nth] in *. exact IH.
  - reflexivity.
Qed.

Lemma first_non_continue_le l : (first_non_continue l <= length l)%nat.
Proof. induction l as [|c r IH]; cbn; [lia|]. destruct (ret c =? VGoOn); cbn; lia. Qed.

(* every handler before the stopping one continued; the stopping one (if any) did not *)
Lemma before_stop_continue l k :
  (k < first_non_continue l)%nat -> ret (nth k l VGoOn) = VGoOn.
Proof.
  revert k; induction l as [|c r IH]; intros k H; cbn in *; [lia|].
  destruct (ret c =? VGoOn) eqn:E; [|lia].
  destruct k as [|k]; [apply Z.eqb_eq; exact E|]. apply IH. lia.
Qed.

Lemma stop_not_continue l :
  (first_non_continue l < length l)%nat -> ret (nth (first_non_continue l) l VGoOn) <> VGoOn.
Proof.
  induction l as [|c r IH]; cbn; [lia|].
  destruct (ret c =? VGoOn) eqn:E; cbn; intro H.
  - apply IH. lia.
  - apply Z.eqb_neq. exact E.
Qed.

(* handlers after the stopping one never run: the number of invocations *)
Lemma run_chain_count l :
  length (fst (run_chain l)) = Nat.min (length l) (S (first_non_continue l)).
Proof. rewrite run_chain_calls, firstn_length. lia. Qed.

(* ---- reaction table ---- *)
Definition honoured (p r : Z) : bool :=
  ((p =? PAccept) && (r =? VClose))
  || (is_request_point p && ((r =? VClose) || (r =? VFinish) || (r =? VRedirect) || (r =? VResponse)))
  || ((p =? PForward) && (r =? VFinish))
  || ((p =? PReadResponse) && ((r =? VFinish) || (r =? VRedirect)))
  || ((p =? PRequestFinish) && (r =? VFinish)).

Lemma reaction_total p r :
  reaction p r = RIgnore \/ reaction p r = RCloseDirect \/ reaction p r = RCloseAfterReply
  \/ reaction p r = RRedirect \/ reaction p r = RResponse.
Proof.
  unfold reaction.
  repeat match goal with |- context [if ?b then _ else _] => destruct b end; auto 6.
Qed.

Lemma reaction_ignored_iff p r : reaction p r = RIgnore <-> honoured p r = false.
Proof.
  unfold reaction, honoured, is_request_point, PAccept, PBeforeLocation, PFoundProduct, PAfterLocation,
    PForward, PReadResponse, PRequestFinish, VClose, VFinish, VRedirect, VResponse,
    RIgnore, RCloseDirect, RCloseAfterReply, RRedirect, RResponse.
  destruct (p =? 0) eqn:E0; destruct (p =? 2) eqn:E2; destruct (p =? 3) eqn:E3; destruct (p =? 4) eqn:E4;
  destruct (p =? 5) eqn:E5; destruct (p =? 6) eqn:E6; destruct (p =? 7) eqn:E7;
  destruct (r =? 4) eqn:R4; destruct (r =? 0) eqn:R0; destruct (r =? 2) eqn:R2; destruct (r =? 3) eqn:R3;
  cbn; split; intro H; try reflexivity; try discriminate; try lia.
Qed.
