(* C48 proofs about model/Callbacks.v *)
From Coq Require Import List ZArith Bool Lia.
From Bfe Require Import lib.Val lib.ValProofs model.Callbacks run.RunC48.
Import ListNotations.
Open Scope Z_scope.

(* ---- the chain walk ---- *)
Lemma run_chain_calls l : fst (run_chain l) = firstn (S (first_non_continue l)) l.
Proof.
  induction l as [|c r IH]; [reflexivity|].
  cbn [run_chain first_non_continue]. destruct (ret c =? VGoOn) eqn:E.
  - destruct (run_chain r) as [cs v] eqn:R. cbn [fst] in *. rewrite IH. reflexivity.
  - reflexivity.
Qed.

Lemma run_chain_verdict l : snd (run_chain l) = nth (first_non_continue l) l VGoOn.
Proof.
  induction l as [|c r IH]; [reflexivity|].
  cbn [run_chain first_non_continue]. destruct (ret c =? VGoOn) eqn:E.
  - destruct (run_chain r) as [cs v] eqn:R. cbn [snd nth] in *. exact IH.
  - reflexivity.
Qed.

Lemma first_non_continue_le l : (first_non_continue l <= length l)%nat.
Proof. induction l as [|c r IH]; cbn; [lia|]. destruct (ret c =? VGoOn); cbn; lia. Qed.

(* every handler before the stopping one continued; the stopping one (if any) did not *)
Lemma before_stop_continue l k :
  (k < first_non_continue l)%nat -> ret (nth k l VGoOn) = VGoOn.
Proof.
  revert k; induction l as [|c r IH]; intros k H; cbn in *; [lia|].
  destruct (ret c =? VGoOn) eqn:E; [|lia].
  destruct k as [|k]; [apply Z.eqb_eq; exact E|]. apply IH. lia.
Qed.

Lemma stop_not_continue l :
  (first_non_continue l < length l)%nat -> ret (nth (first_non_continue l) l VGoOn) <> VGoOn.
Proof.
  induction l as [|c r IH]; cbn; [lia|].
  destruct (ret c =? VGoOn) eqn:E; cbn; intro H.
  - apply IH. lia.
  - apply Z.eqb_neq. exact E.
Qed.

(* handlers after the stopping one never run: the number of invocations *)
Lemma run_chain_count l :
  length (fst (run_chain l)) = Nat.min (length l) (S (first_non_continue l)).
Proof. rewrite run_chain_calls, firstn_length. lia. Qed.

(* ---- reaction table ---- *)
Definition honoured (p r : Z) : bool :=
  (((p =? PAccept) || (p =? PHandshake)) && (r =? VClose))
  || (is_request_point p && ((r =? VClose) || (r =? VFinish) || (r =? VRedirect) || (r =? VResponse)))
  || ((p =? PForward) && (r =? VFinish))
  || ((p =? PReadResponse) && ((r =? VFinish) || (r =? VRedirect)))
  || ((p =? PRequestFinish) && (r =? VFinish)).

Lemma reaction_total p r :
  reaction p r = RIgnore \/ reaction p r = RCloseDirect \/ reaction p r = RCloseAfterReply
  \/ reaction p r = RRedirect \/ reaction p r = RResponse.
Proof.
  unfold reaction.
  repeat match goal with |- context [if ?b then _ else _] => destruct b end; auto 6.
Qed.

Lemma reaction_ignored_iff p r : reaction p r = RIgnore <-> honoured p r = false.
Proof.
  unfold reaction, honoured, is_request_point, PAccept, PHandshake, PBeforeLocation, PFoundProduct, PAfterLocation,
    PForward, PReadResponse, PRequestFinish, VClose, VFinish, VRedirect, VResponse,
    RIgnore, RCloseDirect, RCloseAfterReply, RRedirect, RResponse.
  destruct (p =? 0) eqn:E0; destruct (p =? 1) eqn:E1; destruct (p =? 2) eqn:E2; destruct (p =? 3) eqn:E3; destruct (p =? 4) eqn:E4;
  destruct (p =? 5) eqn:E5; destruct (p =? 6) eqn:E6; destruct (p =? 7) eqn:E7;
  destruct (r =? 4) eqn:R4; destruct (r =? 0) eqn:R0; destruct (r =? 2) eqn:R2; destruct (r =? 3) eqn:R3;
  cbn; split; intro H; try reflexivity; try discriminate; try lia.
Qed.

(* ---- the server's reaction, end to end for one request (ReverseProxy.ServeHTTP + FinishReq) ---- *)
Definition react (chains : Z -> list Z) (p : Z) : Z := reaction p (ret (snd (run_chain (chains p)))).
Definition verdict_at (chains : Z -> list Z) (p : Z) : Z := snd (run_chain (chains p)).
(* every request-phase point before p let the request pass (verdict continue or ignored) *)
Definition earlier_pass (chains : Z -> list Z) (p : Z) : Prop :=
  forall q, In q [PBeforeLocation; PFoundProduct; PAfterLocation] -> q < p -> react chains q = RIgnore.

Ltac open_request chains :=
  cbv zeta;
  unfold serve_request, request_points, forward_phase, response_got, finish_req, walk, react, verdict_at in *;
  unfold PAccept, PHandshake, PBeforeLocation, PFoundProduct, PAfterLocation, PForward, PReadResponse, PRequestFinish, PFinish in *;
  repeat match goal with
         | |- context [run_chain (chains ?p)] =>
           let c := fresh "c" in let v := fresh "v" in let E := fresh "E" in
           destruct (run_chain (chains p)) as [c v] eqn:E; rewrite ?E in *
         end;
  cbn [snd fst] in *.

Ltac use_pass H q :=
  let Hq := fresh "Hq" in
  assert (Hq := H q); cbn [In] in Hq; unfold PBeforeLocation, PFoundProduct, PAfterLocation in Hq;
  let T := type of Hq in
  match T with ?A -> ?B -> _ => assert (A) as HA by auto 6; assert (B) as HB by lia; specialize (Hq HA HB); clear HA HB end.

Lemma request_point_cases p : In p [PBeforeLocation; PFoundProduct; PAfterLocation] -> p = 2 \/ p = 3 \/ p = 4.
Proof. cbn. unfold PBeforeLocation, PFoundProduct, PAfterLocation. intuition. Qed.

(* a close verdict at a request-phase point: nothing is sent, no backend is contacted, the connection is closed *)
Theorem close_sends_nothing chains bst p :
  In p [PBeforeLocation; PFoundProduct; PAfterLocation] -> earlier_pass chains p -> react chains p = RCloseDirect ->
  let q := serve_request chains bst in q_reply q = no_reply /\ q_contacted q = 0 /\ q_keep q = false.
Proof.
  intros Hin Hpass Hr. destruct (request_point_cases p Hin) as [E|[E|E]]; subst p.
  - unfold earlier_pass in Hpass. open_request chains.
    unfold PBeforeLocation in *. rewrite Hr. cbn. auto.
  - unfold earlier_pass in Hpass. assert (H2 := Hpass 2). open_request chains.
    unfold PBeforeLocation, PFoundProduct in *.
    rewrite H2 by (cbn; auto; try lia). rewrite Hr. cbn. auto.
  - unfold earlier_pass in Hpass. assert (H2 := Hpass 2). assert (H3 := Hpass 3). open_request chains.
    unfold PBeforeLocation, PFoundProduct, PAfterLocation in *.
    rewrite H2 by (cbn; auto; try lia). rewrite H3 by (cbn; auto; try lia). rewrite Hr. cbn. auto.
Qed.

(* a redirect verdict at a request-phase point: exactly that redirect, no backend contact *)
Theorem redirect_exact chains bst p :
  In p [PBeforeLocation; PFoundProduct; PAfterLocation] -> earlier_pass chains p -> react chains p = RRedirect ->
  let q := serve_request chains bst in
  q_reply q = redir_reply (variant (verdict_at chains p)) /\ q_contacted q = 0.
Proof.
  intros Hin Hpass Hr. destruct (request_point_cases p Hin) as [E|[E|E]]; subst p.
  - unfold earlier_pass in Hpass. open_request chains.
    unfold PBeforeLocation in *. rewrite Hr. cbn. auto.
  - unfold earlier_pass in Hpass. assert (H2 := Hpass 2). open_request chains.
    unfold PBeforeLocation, PFoundProduct in *.
    rewrite H2 by (cbn; auto; try lia). rewrite Hr. cbn. auto.
  - unfold earlier_pass in Hpass. assert (H2 := Hpass 2). assert (H3 := Hpass 3). open_request chains.
    unfold PBeforeLocation, PFoundProduct, PAfterLocation in *.
    rewrite H2 by (cbn; auto; try lia). rewrite H3 by (cbn; auto; try lia). rewrite Hr. cbn. auto.
Qed.

(* a response verdict at a request-phase point: exactly that response (unless the HandleReadResponse chain, which
   still runs on it, finishes or redirects), no backend contact *)
Ltac finish_response :=
  let r6 := fresh "r6" in
  match goal with |- context [reaction 6 ?x] => remember (reaction 6 x) as r6 end;
  cbn;
  let A := fresh "A" in let B := fresh "B" in let H := fresh "H" in
  destruct (r6 =? RCloseAfterReply) eqn:A; [cbn; split; [reflexivity|intro H; rewrite H in A; discriminate]|];
  destruct (r6 =? RRedirect) eqn:B; cbn; (split; [reflexivity|]); intro H; rewrite H in B; try discriminate; reflexivity.

Theorem response_exact chains bst p :
  In p [PBeforeLocation; PFoundProduct; PAfterLocation] -> earlier_pass chains p -> react chains p = RResponse ->
  let q := serve_request chains bst in
  q_contacted q = 0 /\ (react chains PReadResponse = RIgnore -> q_reply q = mod_reply (variant (verdict_at chains p))).
Proof.
  intros Hin Hpass Hr. destruct (request_point_cases p Hin) as [E|[E|E]]; subst p.
  - unfold earlier_pass in Hpass. open_request chains.
    rewrite Hr. finish_response.
  - unfold earlier_pass in Hpass. assert (H2 := Hpass 2). open_request chains.
    rewrite H2 by (cbn; auto; try lia). rewrite Hr. finish_response.
  - unfold earlier_pass in Hpass. assert (H2 := Hpass 2). assert (H3 := Hpass 3). open_request chains.
    rewrite H2 by (cbn; auto; try lia). rewrite H3 by (cbn; auto; try lia). rewrite Hr. finish_response.
Qed.

(* a finish verdict wherever the server honours it: the connection is closed after a reply was sent *)
Theorem finish_closes_request_point chains bst p :
  In p [PBeforeLocation; PFoundProduct; PAfterLocation] -> earlier_pass chains p -> react chains p = RCloseAfterReply ->
  let q := serve_request chains bst in q_keep q = false /\ r_status (q_reply q) <> 0 /\ q_contacted q = 0.
Proof.
  intros Hin Hpass Hr. destruct (request_point_cases p Hin) as [E|[E|E]]; subst p.
  - unfold earlier_pass in Hpass. open_request chains.
    rewrite Hr. cbn. repeat split; discriminate.
  - unfold earlier_pass in Hpass. assert (H2 := Hpass 2). open_request chains.
    rewrite H2 by (cbn; auto; try lia). rewrite Hr. cbn. repeat split; discriminate.
  - unfold earlier_pass in Hpass. assert (H2 := Hpass 2). assert (H3 := Hpass 3). open_request chains.
    rewrite H2 by (cbn; auto; try lia). rewrite H3 by (cbn; auto; try lia). rewrite Hr. cbn. repeat split; discriminate.
Qed.

Lemma redir_code_nonzero k : redir_code k <> 0.
Proof. unfold redir_code. destruct (k =? 0); [discriminate|]. destruct (k =? 1); discriminate. Qed.
Lemma resp_status_nonzero k : resp_status k <> 0.
Proof. unfold resp_status. destruct (k =? 0); [discriminate|]. destruct (k =? 1); discriminate. Qed.

(* HandleRequestFinish: Finish closes the connection whatever happened before (the reply has been sent by then) *)
Theorem finish_closes_at_request_finish chains bst :
  react chains PRequestFinish = RCloseAfterReply -> q_keep (serve_request chains bst) = false.
Proof.
  intro Hr. open_request chains. rewrite Hr. cbn.
  repeat match goal with |- context [if ?b then _ else _] => destruct b end; cbn; try reflexivity; apply andb_false_r.
Qed.

(* HandleForward / HandleReadResponse: when all request-phase points pass *)
Theorem finish_closes_forward chains bst :
  earlier_pass chains PForward -> react chains PForward = RCloseAfterReply ->
  let q := serve_request chains bst in q_keep q = false /\ r_status (q_reply q) <> 0 /\ q_contacted q = 0.
Proof.
  intros Hpass Hr. unfold earlier_pass in Hpass.
  assert (H2 := Hpass 2). assert (H3 := Hpass 3). assert (H4 := Hpass 4). open_request chains.
  rewrite H2 by (cbn; auto; try lia). rewrite H3 by (cbn; auto; try lia). rewrite H4 by (cbn; auto; try lia). rewrite Hr.
  match goal with |- context [reaction 6 ?x] => remember (reaction 6 x) as r6 end.
  match goal with |- context [reaction 7 ?x] => remember (reaction 7 x) as r7 end.
  cbn. destruct (r6 =? RCloseAfterReply); [cbn; repeat split; discriminate|].
  destruct (r6 =? RRedirect); cbn; repeat split; try discriminate. apply redir_code_nonzero.
Qed.

Theorem finish_closes_read_response chains bst :
  earlier_pass chains PForward -> react chains PReadResponse = RCloseAfterReply ->
  let q := serve_request chains bst in q_keep q = false /\ r_status (q_reply q) <> 0.
Proof.
  intros Hpass Hr. unfold earlier_pass in Hpass.
  assert (H2 := Hpass 2). assert (H3 := Hpass 3). assert (H4 := Hpass 4). open_request chains.
  rewrite H2 by (cbn; auto; try lia). rewrite H3 by (cbn; auto; try lia). rewrite H4 by (cbn; auto; try lia). rewrite Hr.
  match goal with |- context [reaction 5 ?x] => remember (reaction 5 x) as r5 end.
  match goal with |- context [reaction 7 ?x] => remember (reaction 7 x) as r7 end.
  cbn. destruct (r5 =? RCloseAfterReply); cbn; repeat split; discriminate.
Qed.

(* a pair the switch ignores behaves exactly like continue at that point (request-phase points) *)
Theorem ignored_is_continue chains bst p calls rest :
  In p [PBeforeLocation; PFoundProduct; PAfterLocation] -> react chains p = RIgnore ->
  request_points chains bst (p :: rest) calls = request_points chains bst rest (calls ++ [(p, fst (run_chain (chains p)))]).
Proof.
  intros _ Hr. unfold react in Hr. cbn [request_points]. unfold walk.
  destruct (run_chain (chains p)) as [c v] eqn:E. cbn [snd fst] in *. rewrite Hr. reflexivity.
Qed.

(* HandleAccept Close / HandleHandshake Close: nothing is sent, no request is served *)
Theorem accept_close_sends_nothing h bst tls chains :
  react chains PAccept = RCloseDirect \/ (tls = true /\ react chains PHandshake = RCloseDirect) ->
  let k := serve_conn h bst tls chains in
  k_reply k = no_reply /\ k_contacted k = 0 /\ k_open k = 0.
Proof.
  intro Hr. unfold react in Hr. cbv zeta. unfold serve_conn.
  destruct (run_chain (chains PAccept)) as [c0 v0] eqn:E0. destruct (run_chain (chains PHandshake)) as [c1 v1] eqn:E1.
  destruct (run_chain (chains PFinish)) as [c8 v8] eqn:E8.
  cbn [snd] in Hr. destruct (reaction PAccept (ret v0) =? RCloseDirect) eqn:A; [cbn; auto|].
  destruct Hr as [Hr|[Ht Hr]]; [rewrite Hr in A; discriminate|].
  subst tls. rewrite Hr. cbn. auto.
Qed.

Example close_example :
  let chains := fun p => if p =? 3 then [1; 4] else [1; 1] in
  earlier_pass chains 3 /\ react chains 3 = RCloseDirect /\ q_calls (serve_request chains 200) = [(2, [1; 1]); (3, [1; 4]); (7, [1; 1])].
Proof.
  cbv zeta. split; [|split; reflexivity].
  intros q Hq Hlt. cbn in Hq. destruct Hq as [H|[H|[H|[]]]]; subst q; try (unfold PFoundProduct, PAfterLocation in Hlt; lia). reflexivity.
Qed.
