(* C44: proofs about the session-resumption model (model/TlsTicket.v). *)
From Coq Require Import List ZArith Bool Lia.
From Bfe Require Import lib.Val lib.ValProofs lib.Bytes model.TlsTicket run.RunC44.
Import ListNotations.
Open Scope Z_scope.

Lemma firstn_app_exact {A} (a b : list A) n : n = length a -> firstn n (a ++ b) = a.
Proof. intros ->. rewrite firstn_app, Nat.sub_diag, firstn_all. simpl. apply app_nil_r. Qed.
Lemma skipn_app_exact {A} (a b : list A) n : n = length a -> skipn n (a ++ b) = b.
Proof. intros ->. rewrite skipn_app, Nat.sub_diag, skipn_all. reflexivity. Qed.

Section Generic.
  Variable mac : list Z -> list Z -> list Z.
  Variable ctr : list Z -> list Z -> list Z -> list Z.

  Lemma ticket_split t : t = ticket_body t ++ ticket_tag t.
  Proof. unfold ticket_body, ticket_tag. symmetry. apply firstn_skipn. Qed.

  (* decryptTicket accepts nothing whose MAC (over everything before the tag) is not right *)
  Lemma decrypt_mac_ok key t s : decrypt_ticket mac ctr key t = Some s -> mac_ok mac key t = true.
  Proof.
    unfold decrypt_ticket, mac_ok. destruct (blen t <? 48) eqn:E; [discriminate|].
    destruct (bytes_eqb (ticket_tag t) (mac (mac_key key) (ticket_body t))); [|discriminate].
    intros _. apply Z.ltb_ge in E. apply andb_true_iff. split; [apply Z.leb_le; lia|reflexivity].
  Qed.
  Lemma mac_ok_tag key t : mac_ok mac key t = true -> ticket_tag t = mac (mac_key key) (ticket_body t).
  Proof. unfold mac_ok. intro H. apply andb_true_iff in H. destruct H as [_ H]. apply bytes_eqb_eq. exact H. Qed.

  (* C44 headline.  Unforgeability premise for the presented ticket t: if its tag verifies under the
     server's MAC key then the MAC'd bytes are bytes the server itself MAC'd when issuing some ticket. *)
  Theorem only_own_unmodified : forall key (issued : list (list Z * sess)) t s,
    (mac_ok mac key t = true ->
     exists iv st, In (iv, st) issued /\ ticket_body t = iv ++ ctr (enc_key key) iv (marshal st)) ->
    decrypt_ticket mac ctr key t = Some s ->
    exists iv st, In (iv, st) issued /\ t = encrypt_ticket mac ctr key iv st.
  Proof.
    intros key issued t s Hunf Hd. pose proof (decrypt_mac_ok _ _ _ Hd) as Hok.
    destruct (Hunf Hok) as [iv [st [Hin Hb]]]. exists iv, st. split; [exact Hin|].
    unfold encrypt_ticket. rewrite <- Hb, <- (mac_ok_tag _ _ Hok). apply ticket_split.
  Qed.

  Section Collision.
    (* HMAC is collision-free, also across keys, and 32 bytes long *)
    Hypothesis mac_inj : forall k m k' m', mac k m = mac k' m' -> k = k' /\ m = m'.
    Hypothesis mac_len : forall k m, length (mac k m) = 32%nat.

    Lemma body_of_encrypt key iv st :
      ticket_body (encrypt_ticket mac ctr key iv st) = iv ++ ctr (enc_key key) iv (marshal st) /\
      ticket_tag (encrypt_ticket mac ctr key iv st) = mac (mac_key key) (iv ++ ctr (enc_key key) iv (marshal st)).
    Proof.
      unfold ticket_body, ticket_tag, encrypt_ticket. set (b := iv ++ ctr (enc_key key) iv (marshal st)).
      assert (E : (length (b ++ mac (mac_key key) b) - 32 = length b)%nat) by (rewrite app_length, mac_len; lia).
      rewrite E. split; [apply firstn_app_exact|apply skipn_app_exact]; reflexivity.
    Qed.

    (* a ticket issued under a different MAC key is rejected *)
    Theorem foreign_key_rejected : forall key key' iv st,
      mac_key key <> mac_key key' -> decrypt_ticket mac ctr key (encrypt_ticket mac ctr key' iv st) = None.
    Proof.
      intros key key' iv st Hk. destruct (decrypt_ticket mac ctr key _) as [s|] eqn:Hd; [|reflexivity].
      exfalso. pose proof (mac_ok_tag _ _ (decrypt_mac_ok _ _ _ Hd)) as Ht.
      destruct (body_of_encrypt key' iv st) as [Hb Hg]. rewrite Hb, Hg in Ht.
      apply mac_inj in Ht. destruct Ht as [Ht _]. congruence.
    Qed.

    (* any change confined to the part before the tag (IV, ciphertext: flips, insertions, deletions), or
       confined to the tag, is rejected *)
    Theorem modified_rejected : forall key iv st t',
      let t := encrypt_ticket mac ctr key iv st in
      t' <> t -> (ticket_body t' = ticket_body t \/ ticket_tag t' = ticket_tag t) ->
      decrypt_ticket mac ctr key t' = None.
    Proof.
      intros key iv st t' t Hne Hor. destruct (decrypt_ticket mac ctr key t') as [s|] eqn:Hd; [|reflexivity].
      exfalso. pose proof (mac_ok_tag _ _ (decrypt_mac_ok _ _ _ Hd)) as Ht.
      destruct (body_of_encrypt key iv st) as [Hb Hg]. fold t in Hb, Hg. apply Hne.
      rewrite (ticket_split t'), (ticket_split t). destruct Hor as [E|E].
      - rewrite E in *. rewrite Ht, Hg, Hb. reflexivity.
      - rewrite E, Hg in Ht. apply mac_inj in Ht. destruct Ht as [_ Ht]. rewrite E, Hb, Ht. reflexivity.
    Qed.

    (* a truncated ticket of fewer than 48 bytes is rejected whatever the primitives *)
    Theorem short_rejected : forall key t, blen t < 48 -> decrypt_ticket mac ctr key t = None.
    Proof. intros key t H. unfold decrypt_ticket. apply Z.ltb_lt in H. rewrite H. reflexivity. Qed.
  End Collision.

  (* ---- checkForResumption ---- *)
  Variable K : consts.
  Variable table : list (Z * Z).

  Lemma try_suite_sound p id sup v r : try_cipher_suite K table p id sup v = Some r ->
    r = id /\ In id sup /\ exists fl, lookup_flags table id = Some fl /\ suite_usable K p fl v = true.
  Proof.
    induction sup as [|s sup IH]; simpl; [discriminate|].
    destruct (id =? s) eqn:E.
    - apply Z.eqb_eq in E. subst s. destruct (lookup_flags table id) as [fl|] eqn:El.
      + destruct (suite_usable K p fl v) eqn:Eu.
        * intro H. inversion H; subst. split; [reflexivity|]. split; [left; reflexivity|]. exists fl. auto.
        * intro H. destruct (IH H) as [A [B C]]. auto.
      + intro H. destruct (IH H) as [A [B C]]. auto.
    - intro H. destruct (IH H) as [A [B C]]. auto.
  Qed.

  Lemma existsb_eqb_In x l : existsb (Z.eqb x) l = true <-> In x l.
  Proof.
    rewrite existsb_exists. split.
    - intros [y [Hy E]]. apply Z.eqb_eq in E. subst. exact Hy.
    - intro H. exists x. split; [exact H|apply Z.eqb_refl].
  Qed.

  Lemma mutual_version_range p v r : mutual_version K p v = Some r ->
    min_version K p <= v /\ (r = v -> v <= max_version K p) /\ r <= v /\ (v <= max_version K p -> r = v).
  Proof.
    unfold mutual_version. destruct (v <? min_version K p) eqn:E; [discriminate|]. apply Z.ltb_ge in E.
    destruct (v >? max_version K p) eqn:E2; intro H; inversion H as [Hr]; clear H.
    - apply Z.gtb_lt in E2. lia.
    - rewrite Z.gtb_ltb in E2. apply Z.ltb_ge in E2. lia.
  Qed.

  (* where the candidate session comes from: an accepted ticket, or the server's own cache under the
     session id the client offered (cache configured and enabled) *)
  Theorem candidate_source : forall p s, candidate mac ctr p = Some s ->
    (ticket_path p = true /\ decrypt_ticket mac ctr (p_key p) (h_ticket p) = Some s) \/
    (ticket_path p = false /\ h_sid p <> [] /\ p_cache_disabled p = false /\ p_cache_present p = true /\
     exists v, cache_get (p_cache p) (h_sid p) = Some v /\ unmarshal v = Some s).
  Proof.
    intros p s. unfold candidate. destruct (ticket_path p); [intro H; left; auto|].
    destruct (blen (h_sid p) =? 0) eqn:Es; [discriminate|].
    destruct (p_cache_disabled p); simpl; [discriminate|]. destruct (p_cache_present p); [|discriminate].
    destruct (cache_get (p_cache p) (h_sid p)) as [v|] eqn:Ec; [|discriminate].
    intro H. right. repeat split; try reflexivity.
    - intro E. rewrite E in Es. discriminate.
    - exists v. auto.
  Qed.

  (* the policy: every clause that checkForResumption enforces before resuming *)
  Theorem resumption_policy : forall p s suite,
    check_for_resumption mac ctr K table p = Some (s, suite) ->
    candidate mac ctr p = Some s /\
    (* the cipher suite of the resumed connection is the session's, still offered by the client,
       still in the server's configured list, and usable under the connection's flags *)
    suite = s_suite s /\ In (s_suite s) (h_suites p) /\ In (s_suite s) (p_suites p) /\
    (exists fl, lookup_flags table (s_suite s) = Some fl /\ suite_usable K p fl (s_vers s) = true) /\
    (* the session's version is not above the client's and inside the configured range *)
    s_vers s <= h_vers p /\ min_version K p <= s_vers s <= max_version K p /\
    (* client certificates: a requirement is never skipped, certificates are never carried into a
       connection that asks for none *)
    ((p_auth p = k_require_any K \/ p_auth p = k_require_verify K) -> s_certs s <> []) /\
    (s_certs s <> [] -> p_auth p <> k_no_cert K).
  Proof.
    intros p s suite. unfold check_for_resumption.
    destruct (candidate mac ctr p) as [s0|] eqn:Ec; [|discriminate].
    destruct (s_vers s0 >? h_vers p) eqn:Ev; [discriminate|].
    destruct (mutual_version K p (s_vers s0)) as [v|] eqn:Em; [|discriminate].
    destruct (negb (v =? s_vers s0)) eqn:Evv; [discriminate|].
    destruct (negb (existsb (Z.eqb (s_suite s0)) (h_suites p))) eqn:Eo; [discriminate|].
    destruct (try_cipher_suite K table p (s_suite s0) (p_suites p) (s_vers s0)) as [r|] eqn:Et; [|discriminate].
    set (hc := negb (Z.of_nat (length (s_certs s0)) =? 0)).
    set (need := (p_auth p =? k_require_any K) || (p_auth p =? k_require_verify K)).
    destruct (need && negb hc) eqn:E1; [discriminate|].
    destruct (hc && (p_auth p =? k_no_cert K)) eqn:E2; [discriminate|].
    intro H. inversion H; subst s0 r. clear H.
    destruct (try_suite_sound _ _ _ _ _ Et) as [Hr [Hin Hfl]].
    apply negb_false_iff, Z.eqb_eq in Evv. apply negb_false_iff, existsb_eqb_In in Eo.
    destruct (mutual_version_range _ _ _ Em) as [Hmin [Hmax _]].
    assert (Hgt : s_vers s <= h_vers p) by (rewrite Z.gtb_ltb in Ev; apply Z.ltb_ge in Ev; exact Ev).
    repeat split; auto; try lia.
    - intros Hneed Hnil. assert (need = true).
      { unfold need. apply orb_true_iff. destruct Hneed as [Hn|Hn]; [left|right]; apply Z.eqb_eq; exact Hn. }
      assert (hc = false) by (unfold hc; rewrite Hnil; reflexivity).
      rewrite H, H0 in E1. discriminate.
    - intros Hc Ha. assert (hc = true).
      { unfold hc. destruct (s_certs s); [contradiction|reflexivity]. }
      rewrite H, Ha, Z.eqb_refl in E2. discriminate.
  Qed.

  (* parameters of the resumed connection.  It runs at conn_version = mutualVersion(clientHello.vers)
     with the session's master secret (s is what doResumeHandshake installs) and suite.  The version
     clause: the session's version is never ABOVE the connection's, and equals it when the client offers
     exactly the session's version; it can be lower otherwise (finding 1, C44_version_refuted). *)
  Theorem params_preserved_partial : forall p s suite cv,
    check_for_resumption mac ctr K table p = Some (s, suite) -> conn_version K p = Some cv ->
    suite = s_suite s /\ s_vers s <= cv /\ (h_vers p = s_vers s -> cv = s_vers s).
  Proof.
    intros p s suite cv H Hc. destruct (resumption_policy _ _ _ H) as [_ [Hs [_ [_ [_ [Hv [[Hmin Hmax] _]]]]]]].
    split; [exact Hs|]. unfold conn_version in Hc.
    destruct (mutual_version_range _ _ _ Hc) as [_ [_ [Hle Heq]]].
    unfold mutual_version in Hc. destruct (h_vers p <? min_version K p); [discriminate|].
    destruct (h_vers p >? max_version K p) eqn:E; inversion Hc; subst cv.
    - split; [lia|]. intro E2. apply Z.gtb_lt in E. lia.
    - split; [lia|]. intro E2. lia.
  Qed.
End Generic.

(* ---- sessionState.unmarshal inverts marshal ---- *)
Lemma be16_val n : 0 <= n < 65536 -> (n / 256) mod 256 * 256 + n mod 256 = n.
Proof. intro H. pose proof (Z.div_mod n 256 ltac:(lia)). pose proof (Z.mod_pos_bound n 256 ltac:(lia)).
  assert (0 <= n / 256 < 256) by (split; [apply Z.div_pos; lia|apply Z.div_lt_upper_bound; lia]).
  rewrite (Z.mod_small (n / 256)) by lia. lia. Qed.
Lemma be32_val n : 0 <= n < 16777216 ->
  (((n / 16777216) mod 256 * 256 + (n / 65536) mod 256) * 256 + (n / 256) mod 256) * 256 + n mod 256 = n.
Proof.
  intro H. rewrite (Z.div_small n 16777216) by lia. rewrite Z.mod_0_l by lia.
  assert (0 <= n / 65536 < 256) by (split; [apply Z.div_pos; lia|apply Z.div_lt_upper_bound; lia]).
  rewrite (Z.mod_small (n / 65536)) by lia.
  pose proof (Z.div_mod n 256 ltac:(lia)). pose proof (Z.mod_pos_bound n 256 ltac:(lia)).
  pose proof (Z.div_mod (n / 256) 256 ltac:(lia)). pose proof (Z.mod_pos_bound (n / 256) 256 ltac:(lia)).
  assert (n / 256 / 256 = n / 65536) by (rewrite Z.div_div by lia; reflexivity). lia.
Qed.

Lemma un_certs_S f k d : un_certs (S f) k d =
  if k <=? 0 then Some ([], d)
  else match d with
       | b0 :: b1 :: b2 :: b3 :: d' =>
         let n := ((b0 * 256 + b1) * 256 + b2) * 256 + b3 in
         if blen d' <? n then None
         else match un_certs f (k - 1) (skipn (Z.to_nat n) d') with
              | Some (cs, rest) => Some (firstn (Z.to_nat n) d' :: cs, rest)
              | None => None
              end
       | _ => None
       end.
Proof. reflexivity. Qed.

Lemma firstn_app_len {A} (a b : list A) : firstn (length a) (a ++ b) = a.
Proof. rewrite firstn_app, Nat.sub_diag, firstn_all. simpl. apply app_nil_r. Qed.
Lemma skipn_app_len {A} (a b : list A) : skipn (length a) (a ++ b) = b.
Proof. rewrite skipn_app, Nat.sub_diag, skipn_all. reflexivity. Qed.

Lemma un_certs_marshal : forall cs fuel rest,
  (length cs <= fuel)%nat -> forallb (fun c => wf_bytes c && (blen c <? 16777216)) cs = true ->
  un_certs fuel (Z.of_nat (length cs)) (flat_map marshal_cert cs ++ rest) = Some (cs, rest).
Proof.
  induction cs as [|c cs IH]; intros fuel rest Hf Hw.
  - destruct fuel; reflexivity.
  - destruct fuel as [|f]; [simpl in Hf; lia|]. rewrite un_certs_S.
    replace (Z.of_nat (length (c :: cs)) <=? 0) with false by (symmetry; apply Z.leb_gt; simpl length; lia).
    cbn [forallb] in Hw. apply andb_true_iff in Hw. destruct Hw as [Hc Hw]. apply andb_true_iff in Hc.
    destruct Hc as [_ Hc]. apply Z.ltb_lt in Hc.
    cbn [flat_map]. unfold marshal_cert at 1. unfold be32. cbn [app].
    assert (Hpos : 0 <= blen c) by (unfold blen; lia).
    cbv zeta. rewrite (be32_val (blen c)) by lia. rewrite <- !app_assoc.
    replace (blen (c ++ flat_map marshal_cert cs ++ rest) <? blen c) with false
      by (symmetry; apply Z.ltb_ge; unfold blen; rewrite app_length; lia).
    unfold blen. rewrite !Nat2Z.id, skipn_app_len, firstn_app_len.
    replace (Z.of_nat (length (c :: cs)) - 1) with (Z.of_nat (length cs)) by (simpl length; lia).
    rewrite IH; [reflexivity|simpl in Hf; lia|exact Hw].
Qed.

Lemma flat_len cs : (length cs <= length (flat_map marshal_cert cs))%nat.
Proof.
  induction cs as [|c cs IH]; [simpl; lia|]. cbn [flat_map]. rewrite app_length. unfold marshal_cert at 1.
  rewrite app_length. unfold be32. simpl length. lia.
Qed.

Lemma unmarshal_marshal s : wf_sess s = true -> unmarshal (marshal s) = Some s.
Proof.
  destruct s as [v c m cs]. unfold wf_sess. cbn [s_vers s_suite s_master s_certs]. intro H.
  repeat (apply andb_true_iff in H; destruct H as [H ?]).
  repeat match goal with H : (_ <=? _) = true |- _ => apply Z.leb_le in H | H : (_ <? _) = true |- _ => apply Z.ltb_lt in H end.
  unfold marshal. cbn [s_vers s_suite s_master s_certs]. unfold be16. cbn [app].
  unfold unmarshal.
  match goal with |- context [blen ?d <? 8] => destruct (blen d <? 8) eqn:E end.
  { exfalso. apply Z.ltb_lt in E. unfold blen in E. cbn [length] in E. rewrite app_length in E. cbn [length] in E. lia. }
  cbv zeta. assert (Hm : 0 <= blen m) by (unfold blen; lia).
  rewrite (be16_val (blen m)) by lia. rewrite (be16_val v) by lia. rewrite (be16_val c) by lia.
  match goal with |- context [blen ?d <? blen m] => replace (blen d <? blen m) with false
      by (symmetry; apply Z.ltb_ge; unfold blen; rewrite app_length; lia) end.
  unfold blen at 1 2. rewrite Nat2Z.id, skipn_app_len, firstn_app_len.
  rewrite (be16_val (Z.of_nat (length cs))) by lia.
  rewrite <- (app_nil_r (flat_map marshal_cert cs)) at 2.
  rewrite un_certs_marshal; [reflexivity| |assumption].
  apply le_S, flat_len.
Qed.

(* own unmodified tickets are honoured: decryptTicket inverts encryptTicket *)
Section Roundtrip.
  Variable mac : list Z -> list Z -> list Z.
  Variable ctr : list Z -> list Z -> list Z -> list Z.
  Hypothesis ctr_inv : forall k iv d, ctr k iv (ctr k iv d) = d.
  Hypothesis mac_len : forall k m, length (mac k m) = 32%nat.

  Theorem decrypt_encrypt : forall key iv st, length iv = 16%nat -> wf_sess st = true ->
    decrypt_ticket mac ctr key (encrypt_ticket mac ctr key iv st) = Some st.
  Proof.
    intros key iv st Hiv Hwf. unfold decrypt_ticket.
    destruct (body_of_encrypt mac ctr mac_len key iv st) as [Hb Hg]. rewrite Hb, Hg.
    unfold bytes_eqb. rewrite list_Z_eqb_refl. cbn [negb].
    set (ct := ctr (enc_key key) iv (marshal st)) in *.
    assert (E : blen (encrypt_ticket mac ctr key iv st) <? 48 = false).
    { apply Z.ltb_ge. unfold encrypt_ticket, blen. fold ct. rewrite !app_length, mac_len, Hiv. lia. }
    rewrite E.
    assert (F : firstn 16 (encrypt_ticket mac ctr key iv st) = iv).
    { unfold encrypt_ticket. fold ct. rewrite <- app_assoc. rewrite <- Hiv. apply firstn_app_len. }
    rewrite F. rewrite <- Hiv, skipn_app_len. unfold ct. rewrite ctr_inv. apply unmarshal_marshal, Hwf.
  Qed.
End Roundtrip.

(* ---- the version clause fails: a TLS 1.0 session from the cache is resumed on a TLS 1.2 connection ---- *)
Definition K0 : consts := mkConsts 1 2 4 8 16 1 3 0 2 4 771 768 771.
Definition table0 : list (Z * Z) := [(47, 0); (49199, 5)].
Definition sess10 : sess := mkSess 769 47 (repeat 7 48) [].
Definition pol_refute : policy :=
  mkPolicy (repeat 0 32) false false true [([1; 2; 3], marshal sess10)] 0 0 [47] 0
           771 [49199; 47] true [] [1; 2; 3] true false false 0.
Lemma version_refuted_lemma : forall mac ctr,
  check_for_resumption mac ctr K0 table0 pol_refute = Some (sess10, 47) /\
  conn_version K0 pol_refute = Some 771 /\ s_vers sess10 < 771.
Proof. intros mac ctr. vm_compute. repeat split. Qed.

(* ---- prop_C44 holds of the model on checkForResumption inputs outside finding 1 ---- *)
Lemma sess_eqb_refl s : sess_eqb s s = true.
Proof. unfold sess_eqb. rewrite !Z.eqb_refl. unfold bytes_eqb. rewrite list_Z_eqb_refl, val_eqb_refl. reflexivity. Qed.

Lemma as_LB_vLB cs : as_LB (vLB cs) = Some cs.
Proof. unfold as_LB, vLB. induction cs as [|x cs IH]; [reflexivity|]. simpl in *. rewrite IH. reflexivity. Qed.
Lemma dec_enc_sess s : dec_sess (VL (enc_sess s)) = Some s.
Proof.
  destruct s as [v c m cs]. unfold enc_sess, dec_sess. cbn [s_vers s_suite s_master s_certs].
  rewrite as_LB_vLB. reflexivity.
Qed.

Theorem prop_C44_of_model_policy : forall k tb p col ks K table pol,
  dec_consts k = Some K -> all_some (map dec_pair tb) = Some table -> dec_policy p = Some pol ->
  let i := VL [VZ 3; k; VL tb; p; VB col; VB ks] in
  kf_C44 i = 0 -> prop_C44 i (run_C44 i) = true.
Proof.
  intros k tb p col ks K table pol Hk Ht Hp i Hkf. unfold kf_C44 in Hkf. subst i.
  unfold run_C44, prop_C44 in *. rewrite Hk, Ht, Hp in *.
  destruct (conn_version K pol) as [cv|] eqn:Ecv; [|reflexivity].
  destruct (check_for_resumption (cmac col) (cctr ks) K table pol) as [[s suite]|] eqn:Ec; [|reflexivity].
  unfold enc_sess in *. cbv iota beta in Hkf. cbv iota beta.
  destruct (s_vers s =? cv) eqn:Ev; [|discriminate]. apply Z.eqb_eq in Ev.
  change (VL [VZ (s_vers s); VZ (s_suite s); VB (s_master s); vLB (s_certs s)]) with (VL (enc_sess s)).
  rewrite dec_enc_sess.
  destruct (resumption_policy _ _ _ _ _ _ _ Ec) as [Hc [Hs [Ho [He [[fl [Hl Hu]] [Hv [[Hmin Hmax] [Hn Hnc]]]]]]]].
  unfold prop_resume. rewrite Hl, <- Ev, Hu.
  assert (P1 : (if ticket_path pol
     then tag_ok (h_ticket pol) col &&
          match unmarshal (ticket_plain (h_ticket pol) ks) with Some s0 => sess_eqb s0 s | None => false end
     else negb (blen (h_sid pol) =? 0) && negb (p_cache_disabled pol) && p_cache_present pol &&
          match cache_get (p_cache pol) (h_sid pol) with
          | Some v => match unmarshal v with Some s0 => sess_eqb s0 s | None => false end
          | None => false
          end) = true).
  { destruct (candidate_source _ _ _ _ Hc) as [[Htp Hd]|[Htp [Hsid [Hcd [Hcp [v [Hg Hun]]]]]]]; rewrite Htp.
    - unfold decrypt_ticket in Hd. unfold tag_ok. destruct (blen (h_ticket pol) <? 48) eqn:E48; [discriminate|].
      apply Z.ltb_ge in E48. replace (48 <=? blen (h_ticket pol)) with true by (symmetry; apply Z.leb_le; lia).
      unfold cmac in Hd. unfold ticket_tag in Hd.
      destruct (bytes_eqb (skipn (length (h_ticket pol) - 32) (h_ticket pol)) col); [|discriminate].
      cbn [negb] in Hd. cbv iota in Hd. unfold cctr, ticket_body in Hd. unfold ticket_plain. cbn [andb]. rewrite Hd. apply sess_eqb_refl.
    - rewrite Hcd, Hcp, Hg, Hun, sess_eqb_refl. simpl.
      destruct (h_sid pol); [contradiction|reflexivity]. }
  rewrite P1. rewrite Hs, Z.eqb_refl, Z.eqb_refl.
  apply (existsb_eqb_In (s_suite s)) in Ho. apply (existsb_eqb_In (s_suite s)) in He. rewrite Ho, He.
  replace (min_version K pol <=? s_vers s) with true by (symmetry; apply Z.leb_le; lia).
  replace (s_vers s <=? max_version K pol) with true by (symmetry; apply Z.leb_le; lia).
  replace (s_vers s <=? h_vers pol) with true by (symmetry; apply Z.leb_le; lia).
  simpl.
  destruct (Z.of_nat (length (s_certs s)) =? 0) eqn:Ecs; simpl.
  - assert (Hnil : s_certs s = []) by (destruct (s_certs s); [reflexivity|discriminate]).
    destruct (p_auth pol =? k_require_any K) eqn:E1; [apply Z.eqb_eq in E1; exfalso; apply (Hn (or_introl E1) Hnil)|].
    destruct (p_auth pol =? k_require_verify K) eqn:E2; [apply Z.eqb_eq in E2; exfalso; apply (Hn (or_intror E2) Hnil)|].
    reflexivity.
  - assert (Hne : s_certs s <> []) by (destruct (s_certs s); [discriminate|discriminate]).
    specialize (Hnc Hne). apply Z.eqb_neq in Hnc. rewrite Hnc.
    destruct ((p_auth pol =? k_require_any K) || (p_auth pol =? k_require_verify K)); reflexivity.
Qed.

(* ---- central theorem: prop_C44 holds of the model on every well-formed input outside finding 1 ---- *)
Lemma decrypt_cols col ks key t :
  decrypt_ticket (cmac col) (cctr ks) key t = if tag_ok t col then unmarshal (ticket_plain t ks) else None.
Proof.
  unfold decrypt_ticket, tag_ok, cmac, cctr, ticket_plain, ticket_tag, ticket_body.
  destruct (blen t <? 48) eqn:E.
  - apply Z.ltb_lt in E. replace (48 <=? blen t) with false by (symmetry; apply Z.leb_gt; lia). reflexivity.
  - apply Z.ltb_ge in E. replace (48 <=? blen t) with true by (symmetry; apply Z.leb_le; lia). cbn [andb].
    destruct (bytes_eqb (skipn (length t - 32) t) col); reflexivity.
Qed.
Lemma buf_cols col ks key t : tag_ok t col = false -> ticket_buf_after (cmac col) (cctr ks) key t = t.
Proof.
  unfold ticket_buf_after, tag_ok, cmac, ticket_tag. intro H. destruct (blen t <? 48) eqn:E; [reflexivity|].
  apply Z.ltb_ge in E. replace (48 <=? blen t) with true in H by (symmetry; apply Z.leb_le; lia). cbn [andb] in H.
  rewrite H. reflexivity.
Qed.

Lemma xor_length : forall a b, length (xor_bytes a b) = length a.
Proof. induction a as [|x a IH]; intros [|y b]; simpl; try reflexivity. rewrite IH. reflexivity. Qed.
Lemma xor_invol : forall a b, (length a <= length b)%nat -> xor_bytes (xor_bytes a b) b = a.
Proof.
  induction a as [|x a IH]; intros [|y b] H; simpl in *; try reflexivity.
  rewrite IH by lia. rewrite Z.lxor_assoc, Z.lxor_nilpotent, Z.lxor_0_r. reflexivity.
Qed.

Lemma central_op1 key t col ks ikey it ist :
  let i := VL [VZ 1; VB key; VB t; VB col; VB ks; VB ikey; VB it; ist] in
  wf_C44 i = true -> prop_C44 i (run_C44 i) = true.
Proof.
  intros i Hwf. subst i. cbn [wf_C44] in Hwf. destruct (dec_sess ist) as [s0|] eqn:Es; [|discriminate].
  unfold run_C44, prop_C44. rewrite Es, decrypt_cols.
  set (own := bytes_eqb key ikey && bytes_eqb t it) in *.
  apply andb_true_iff in Hwf. destruct Hwf as [H1 H2].
  destruct (tag_ok t col) eqn:Et.
  - cbn [implb] in H1. rewrite H1 in *. cbn [implb andb] in H2.
    destruct (unmarshal (ticket_plain t ks)) as [s|] eqn:Eu; [|discriminate].
    unfold enc_sess in *. cbn [app]. cbv iota beta. rewrite H2. reflexivity.
  - rewrite buf_cols by exact Et. destruct own; [discriminate|]. cbn [negb andb orb].
    unfold bytes_eqb. apply list_Z_eqb_refl.
Qed.

Lemma central_op2 key iv st ks col :
  let i := VL [VZ 2; VB key; VB iv; st; VB ks; VB col] in
  wf_C44 i = true -> prop_C44 i (run_C44 i) = true.
Proof.
  intros i Hwf. subst i. cbn [wf_C44] in Hwf. destruct (dec_sess st) as [s|] eqn:Es; [|discriminate].
  apply andb_true_iff in Hwf; destruct Hwf as [Hwf W]. apply andb_true_iff in Hwf; destruct Hwf as [Hwf W0].
  apply andb_true_iff in Hwf; destruct Hwf as [Hwf W1].
  apply Z.eqb_eq in W1, W0. apply Z.leb_le in W.
  unfold run_C44, prop_C44. rewrite Es. unfold encrypt_ticket, cmac, cctr, enc_key.
  set (ct := xor_bytes (marshal s) ks).
  assert (Hiv : length iv = 16%nat) by (unfold blen in W1; lia).
  assert (Hcol : length col = 32%nat) by (unfold blen in W0; lia).
  assert (Hlen : (length ((iv ++ ct) ++ col) - 32 = length (iv ++ ct))%nat) by (rewrite app_length; lia).
  assert (F1 : firstn 16 ((iv ++ ct) ++ col) = iv).
  { rewrite <- app_assoc. apply firstn_app_exact. lia. }
  rewrite F1. unfold bytes_eqb at 1. rewrite list_Z_eqb_refl. rewrite W1. cbn [andb Z.eqb Pos.eqb].
  unfold tag_ok, ticket_plain. rewrite Hlen.
  rewrite (skipn_app_exact (iv ++ ct) col) by reflexivity.
  rewrite (firstn_app_exact (iv ++ ct) col) by reflexivity.
  rewrite (skipn_app_exact iv ct) by lia.
  unfold bytes_eqb. rewrite list_Z_eqb_refl.
  replace (48 <=? blen ((iv ++ ct) ++ col)) with true
    by (symmetry; apply Z.leb_le; unfold blen; rewrite !app_length; lia).
  cbn [andb]. unfold ct. rewrite xor_invol by (unfold blen in W; lia).
  rewrite unmarshal_marshal by exact Hwf. apply sess_eqb_refl.
Qed.

Lemma central_op3 k tb p col ks :
  let i := VL [VZ 3; k; VL tb; p; VB col; VB ks] in
  wf_C44 i = true -> kf_C44 i = 0 -> prop_C44 i (run_C44 i) = true.
Proof.
  intros i Hwf Hkf. subst i. cbn [wf_C44] in Hwf.
  destruct (dec_consts k) as [K|] eqn:Ek; [|discriminate].
  destruct (all_some (map dec_pair tb)) as [table|] eqn:Et; [|discriminate].
  destruct (dec_policy p) as [pol|] eqn:Ep; [|discriminate].
  apply (prop_C44_of_model_policy k tb p col ks K table pol Ek Et Ep Hkf).
Qed.

Ltac crush_shape H := repeat match type of H with
  | (match ?x with _ => _ end) = true => is_var x; destruct x; try discriminate H
  end.

Theorem prop_C44_of_model : forall i, wf_C44 i = true -> kf_C44 i = 0 -> prop_C44 i (run_C44 i) = true.
Proof.
  intros i Hwf Hkf. pose proof Hwf as Hs. unfold wf_C44 in Hs. crush_shape Hs;
    first [ apply central_op1; exact Hwf | apply central_op2; exact Hwf | apply central_op3; [exact Hwf|exact Hkf] ].
Qed.

(* ---- generated cases (seed 1) satisfy wf_C44 ---- *)
Definition ex_own : val := (VL [(VZ 1); (VB [74;193;52;108;59;6;30;49;211;161;72;175;208;129;255;202;27;149;84;214;186;203;55;45;194;155;190;3;195;31;234;180]); (VB [215;221;7;17;198;32;144;181;205;25;212;218;95;136;69;113;138;99;164;195;143;132;117;171;97;250;69;160;71;125;196;136;164;150;22;171;44;197;164;16;144;48;198;150;189;15;134;89;205;85;251;66;118;183;22;83]); (VB [97;250;69;160;71;125;196;136;164;150;22;171;44;197;164;16;144;48;198;150;189;15;134;89;205;85;251;66;118;183;22;83]); (VB [137;97;164;246;143;132;117;171]); (VB [74;193;52;108;59;6;30;49;211;161;72;175;208;129;255;202;27;149;84;214;186;203;55;45;194;155;190;3;195;31;234;180]); (VB [215;221;7;17;198;32;144;181;205;25;212;218;95;136;69;113;138;99;164;195;143;132;117;171;97;250;69;160;71;125;196;136;164;150;22;171;44;197;164;16;144;48;198;150;189;15;134;89;205;85;251;66;118;183;22;83]); (VL [(VZ 770); (VZ 53); (VB []); (VL [])])]).
Definition ex_bitflip : val := (VL [(VZ 1); (VB [48;49;50;51;52;53;54;55;56;57;97;98;99;100;101;102;70;69;68;67;66;65;57;56;55;54;53;52;51;50;49;48]); (VB [105;118;105;118;105;118;105;118;73;86;73;86;73;86;73;86;204;27;133;123;240;61;176;56;81;123;62;243;241;171;192;25;21;99;192;52;145;149;221;221;61;180;103;105;151;108;143;181;2;69;171;230;3;104;245;81;222;70;157;52;14;202;99;60;22;96;190;109;246;68;164;76;66;13;219;51;140;79;208;150;174;118;160;127;141;181;4;224;112;39;163;41;234;37;7;158;246;48;146;243;183;45;51;217]); (VB [46;13;50;12;114;204;110;235;169;42;223;196;135;141;255;76;94;118;250;135;128;214;210;138;140;26;56;219;179;116;166;207]); (VB [207;24;69;84;240;13;176;61;91;116;42;238;239;136;232;52;39;84;252;117;215;222;141;136;103;235;3;0;249;31;247;200;128;194;39;119;149;243;85;244;116;233;41;141;176;9;171;241;196;183;98;140;16;175;164;76]); (VB [48;49;50;51;52;53;54;55;56;57;97;98;99;100;101;102;70;69;68;67;66;65;57;56;55;54;53;52;51;50;49;48]); (VB [105;118;105;118;105;118;105;118;73;86;73;86;73;86;73;86;204;27;133;123;240;61;176;56;81;123;62;247;241;171;192;25;21;99;192;52;145;149;221;221;61;180;103;105;151;108;143;181;2;69;171;230;3;104;245;81;222;70;157;52;14;202;99;60;22;96;190;109;246;68;164;76;66;13;219;51;140;79;208;150;174;118;160;127;141;181;4;224;112;39;163;41;234;37;7;158;246;48;146;243;183;45;51;217]); (VL [(VZ 771); (VZ 49199); (VB [0;5;10;15;20;25;30;35;40;45;50;55;60;65;70;75;80;85;90;95;100;105;110;115;120;125;130;135;140;145;150;155;160;165;170;175;180;185;190;195;200;205;210;215;220;225;230;235]); (VL [])])]).
Definition ex_enc : val := (VL [(VZ 2); (VB [64;97;154;240;48;27;220;225;99;5;99;124;118;248;188;167;38;179;151;10;39;57;246;76;46;253;221;119;138;27;183;236]); (VB [155;204;53;68;210;188;77;169;90;153;59;101;85;223;214;105]); (VL [(VZ 768); (VZ 5); (VB []); (VL [])]); (VB [14;35;74;21;28;245;150;55]); (VB [83;39;149;186;26;157;144;76;129;124;222;183;132;115;224;50;203;59;230;132;47;49;99;141;99;39;123;123;249;141;8;193])]).

Lemma wf_examples_lemma :
  wf_C44 ex_own = true /\ wf_C44 ex_bitflip = true /\ wf_C44 ex_enc = true /\
  (exists a b c d buf, run_C44 ex_own = VL [VZ 1; a; b; c; d; buf]) /\
  (exists buf, run_C44 ex_bitflip = VL [VZ 0; buf]).
Proof. vm_compute. repeat split; repeat eexists. Qed.
