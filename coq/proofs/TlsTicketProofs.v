From Coq Require Import List ZArith Bool Lia.
From Bfe Require Import lib.Val lib.ValProofs lib.Bytes model.TlsTicket run.RunC44.
Import ListNotations.
Open Scope Z_scope.

Lemma xor_nil a : xor_bytes a [] = a.
Proof. destruct a; reflexivity. Qed.
