(* Proofs about the hash-set model: the bucket-list level (B) refines the bounded set (S) for every hash
   function and every operation history; soundness of the executable lock-step check relating the array
   level (A) to (B); direct facts about (A). *)
From Coq Require Import List ZArith Bool Lia ZifyBool.
From Bfe Require Import lib.Val lib.ValProofs model.HashSet.
Import ListNotations.
Open Scope Z_scope.

Lemma key_eqb_eq a b : key_eqb a b = true <-> a = b.
Proof. apply list_Z_eqb_eq. Qed.
Lemma key_eqb_neq a b : key_eqb a b = false <-> a <> b.
Proof. rewrite <- key_eqb_eq. destruct (key_eqb a b); split; congruence. Qed.
Lemma kmem_In k l : kmem k l = true <-> In k l.
Proof.
  unfold kmem. rewrite existsb_exists. split.
  - intros (x & Hin & E). apply key_eqb_eq in E. subst. exact Hin.
  - intros H. exists k. split; [exact H | apply key_eqb_eq; reflexivity].
Qed.
Lemma bool_eq_iff (a b : bool) : (a = true <-> b = true) -> a = b.
Proof. destruct a, b; intuition congruence. Qed.

Lemma kremove_notin k l : ~ In k l -> kremove k l = l.
Proof.
  induction l as [|a r IH]; intros H; [reflexivity|]. simpl.
  destruct (key_eqb k a) eqn:E.
  - apply key_eqb_eq in E. subst. exfalso. apply H. left. reflexivity.
  - f_equal. apply IH. intros Hin. apply H. right. exact Hin.
Qed.
Lemma kremove_In x k l : NoDup l -> (In x (kremove k l) <-> In x l /\ x <> k).
Proof.
  induction 1 as [|a r Hni Hnd IH]; simpl; [tauto|].
  destruct (key_eqb k a) eqn:E.
  - apply key_eqb_eq in E. subst a. split.
    + intros Hin. split; [right; exact Hin | intros ->; contradiction].
    + intros [[-> | Hin] Hne]; [congruence | exact Hin].
  - apply key_eqb_neq in E. simpl. rewrite IH. split.
    + intros [-> | [Hin Hne]]; [split; [left; reflexivity | congruence] | tauto].
    + intros [[-> | Hin] Hne]; [left; reflexivity | right; tauto].
Qed.
Lemma kremove_NoDup k l : NoDup l -> NoDup (kremove k l).
Proof.
  induction 1 as [|a r Hni Hnd IH]; simpl; [constructor|].
  destruct (key_eqb k a); [exact Hnd|]. constructor; [|exact IH].
  intros Hin. apply (kremove_In a k r Hnd) in Hin. tauto.
Qed.
Lemma kremove_length k l : In k l -> Z.of_nat (length (kremove k l)) = Z.of_nat (length l) - 1.
Proof.
  induction l as [|a r IH]; intros Hin; [destruct Hin|]. simpl kremove.
  destruct (key_eqb k a) eqn:E; [simpl length; lia|].
  apply key_eqb_neq in E. destruct Hin as [-> | Hin]; [congruence|]. specialize (IH Hin). simpl length. lia.
Qed.

Definition consistent (hash : key -> Z) (o : op) : Prop :=
  match o with OAdd k h | ORemove k h | OExist k h => h = hash k | OLen => True end.

Section Refine.
  Variable hash : key -> Z.        (* the hash function: arbitrary (murmur3, fnv, a constant, ...) *)
  Variable c : cfg.
  Definition hb (k : key) : Z := bucket c (hash k).

  Record R (s : bl) (S : list key) : Prop := {
    R_nd : NoDup S;
    R_n : bn s = Z.of_nat (length S);
    R_in : forall k, In k S <-> In k (bk s (hb k));
    R_home : forall b k, In k (bk s b) -> hb k = b;
    R_ndb : forall b, NoDup (bk s b) }.

  Lemma R_init : R bl_init [].
  Proof.
    constructor; cbn [bl_init bk bn length].
    - constructor.
    - reflexivity.
    - intros k. tauto.
    - intros b k [].
    - intros b. constructor.
  Qed.

  Lemma R_kmem s S k : R s S -> kmem k (bk s (hb k)) = kmem k S.
  Proof. intros HR. apply bool_eq_iff. rewrite !kmem_In. symmetry. apply (R_in _ _ HR). Qed.

  Lemma step_sim' s S o : R s S -> consistent hash o ->
    snd (bl_step c s o) = snd (sp_step c S o) /\ R (fst (bl_step c s o)) (fst (sp_step c S o)).
  Proof.
    intros HR Hc. destruct o as [k h | k h | k h |]; cbn [consistent] in Hc; try subst h;
      cbn [bl_step sp_step].
    - (* Add *)
      fold (hb k). rewrite <- (R_n _ _ HR). destruct (cap c <=? bn s); [split; [reflexivity | exact HR]|].
      destruct (negb (validate c k)); [split; [reflexivity | exact HR]|].
      rewrite (R_kmem _ _ k HR). destruct (kmem k S) eqn:Em; [split; [reflexivity | exact HR]|].
      destruct (pool_accepts c k); [|split; [reflexivity | exact HR]].
      cbn [fst snd]. split; [reflexivity|].
      assert (HnS : ~ In k S) by (rewrite <- kmem_In; congruence).
      assert (Hnb : ~ In k (bk s (hb k))) by (rewrite <- (R_in _ _ HR); exact HnS).
      constructor; cbn [bk bn].
      + constructor; [exact HnS | apply (R_nd _ _ HR)].
      + rewrite (R_n _ _ HR). simpl length. lia.
      + intros k'. unfold bk_set. destruct (hb k' =? hb k) eqn:E.
        * assert (E' : hb k' = hb k) by lia. simpl. rewrite (R_in _ _ HR k'), E'. tauto.
        * simpl. rewrite (R_in _ _ HR k'). split; [intros [<- | H]; [lia | exact H] | tauto].
      + intros b k'. unfold bk_set. destruct (b =? hb k) eqn:E.
        * intros [<- | H]; [lia | rewrite (R_home _ _ HR _ _ H); lia].
        * apply (R_home _ _ HR).
      + intros b. unfold bk_set. destruct (b =? hb k); [|apply (R_ndb _ _ HR)].
        constructor; [exact Hnb | apply (R_ndb _ _ HR)].
    - (* Remove *)
      fold (hb k). destruct (negb (validate c k)); [split; [reflexivity | exact HR]|].
      rewrite (R_kmem _ _ k HR). destruct (kmem k S) eqn:Em; cbn [fst snd].
      + split; [reflexivity|].
        assert (HiS : In k S) by (apply kmem_In; exact Em).
        pose proof (R_nd _ _ HR) as HndS.
        constructor; cbn [bk bn].
        * apply kremove_NoDup. exact HndS.
        * rewrite (kremove_length _ _ HiS), (R_n _ _ HR). reflexivity.
        * intros k'. rewrite (kremove_In _ _ _ HndS). unfold bk_set. destruct (hb k' =? hb k) eqn:E.
          -- assert (E' : hb k' = hb k) by lia. rewrite (kremove_In _ _ _ (R_ndb _ _ HR _)).
             rewrite (R_in _ _ HR k'), E'. tauto.
          -- rewrite (R_in _ _ HR k'). split; [tauto|]. intros H. split; [exact H | intros ->; lia].
        * intros b k'. unfold bk_set. destruct (b =? hb k) eqn:E; [|apply (R_home _ _ HR)].
          intros H. apply (kremove_In _ _ _ (R_ndb _ _ HR _)) in H. destruct H as [H _].
          rewrite (R_home _ _ HR _ _ H). lia.
        * intros b. unfold bk_set. destruct (b =? hb k); [apply kremove_NoDup|]; apply (R_ndb _ _ HR).
      + split; [reflexivity|]. rewrite kremove_notin; [exact HR|]. rewrite <- kmem_In. congruence.
    - (* Exist *)
      fold (hb k). destruct (negb (validate c k)); [split; [reflexivity | exact HR]|].
      rewrite (R_kmem _ _ k HR). split; [reflexivity | exact HR].
    - split; [apply (R_n _ _ HR) | exact HR].
  Qed.

  Lemma run_sim : forall ops s S, R s S -> Forall (consistent hash) ops -> bl_run c s ops = sp_run c S ops.
  Proof.
    induction ops as [|o r IH]; intros s S HR Hc; [reflexivity|].
    inversion Hc as [|? ? Ho Hr]; subst. cbn [bl_run sp_run].
    destruct (step_sim' s S o HR Ho) as [Hx HR'].
    destruct (bl_step c s o) as [s1 x]. destruct (sp_step c S o) as [S1 y]. cbn [fst snd] in *.
    subst y. f_equal. apply IH; assumption.
  Qed.
End Refine.

(* (B) refines (S): every hash function, configuration and history whose hash column is the key's hash *)
Theorem bl_refines_set : forall (hash : key -> Z) (c : cfg) (ops : list op),
  Forall (consistent hash) ops -> bl_run c bl_init ops = sp_run c [] ops.
Proof. intros hash c ops H. apply (run_sim hash c ops bl_init [] (R_init hash c) H). Qed.

(* what the executable lock-step check certifies *)
Theorem sim_check_sound : forall c ops s b, sim_check c s b ops = true -> snd (run_ops c s ops) = bl_run c b ops.
Proof.
  induction ops as [|o r IH]; intros s b H; [reflexivity|]. cbn [sim_check run_ops bl_run] in *.
  destruct (step c s o) as [s1 x]. destruct (bl_step c b o) as [b1 y].
  apply andb_true_iff in H. destruct H as [H H4]. apply andb_true_iff in H. destruct H as [H _].
  apply andb_true_iff in H. destruct H as [H _].
  specialize (IH _ _ H4). destruct (run_ops c s1 r) as [s2 xs]. cbn [snd] in *. f_equal; [lia | exact IH].
Qed.

(* checked histories therefore behave like the bounded set *)
Corollary checked_run_is_set : forall hash c ops,
  Forall (consistent hash) ops -> sim_check c (init c) bl_init ops = true ->
  snd (run_ops c (init c) ops) = sp_run c [] ops.
Proof. intros hash c ops Hc Hs. rewrite (sim_check_sound _ _ _ _ Hs). apply (bl_refines_set hash). exact Hc. Qed.

(* ---- array level, direct ---- *)
Theorem full_fails_clean : forall c s k h, cap c <= len s -> step c s (OAdd k h) = (s, 1).
Proof. intros c s k h H. cbn [step]. destruct (cap c <=? len s) eqn:E; [reflexivity | lia]. Qed.

Theorem long_key_rejected : forall c s k h, ksz c < klen k ->
  (len s < cap c -> step c s (OAdd k h) = (s, 2)) /\
  step c s (ORemove k h) = (s, 2) /\ step c s (OExist k h) = (s, 0).
Proof.
  intros c s k h H. assert (E : validate c k = false) by (unfold validate; lia).
  cbn [step]. rewrite E. cbn [negb]. repeat split. intros Hl. destruct (cap c <=? len s) eqn:E2; [lia | reflexivity].
Qed.

Lemma upd_nat_twice {A} (l : list A) i a b : upd_nat (upd_nat l i a) i b = upd_nat l i b.
Proof. revert i. induction l as [|x l IH]; intros [|i]; simpl; try reflexivity. f_equal. apply IH. Qed.
Lemma upd_nat_same {A} (l : list A) i d : (i < length l)%nat -> upd_nat l i (nth i l d) = l.
Proof. revert i. induction l as [|x l IH]; intros [|i] H; simpl in *; try lia; try reflexivity. f_equal. apply IH. lia. Qed.

(* the refused Set of a fixed-length pool leaves the arrays exactly as they were *)
Theorem refused_state_same : forall s, 0 <= free s < Z.of_nat (length (nxt s)) -> np_add_refused_state s = s.
Proof.
  intros [h n f l sl] H. unfold np_add_refused_state. cbn [ha nxt free len slots] in *. f_equal.
  unfold upd, getZ. rewrite upd_nat_twice. apply upd_nat_same. lia.
Qed.

(* a short key offered to a fixed-length set: refused with code 3, state unchanged (after the fix) *)
Theorem fixed_short_key_refused : forall c s k h,
  fixed c = true -> klen k < ksz c -> len s < cap c ->
  0 <= free s < Z.of_nat (length (nxt s)) ->
  np_exist (fuel_of c) s (getZ (ha s) (bucket c h)) k = Some false ->
  step c s (OAdd k h) = (s, 3).
Proof.
  intros c s k h Hf Hk Hl Hfree He. cbn [step].
  destruct (cap c <=? len s) eqn:E1; [lia|].
  assert (E2 : validate c k = true) by (unfold validate; lia). rewrite E2. cbn [negb]. rewrite He.
  unfold np_add. destruct (free s =? -1) eqn:E3; [lia|].
  assert (E4 : pool_accepts c k = false) by (unfold pool_accepts; rewrite Hf; lia). rewrite E4.
  rewrite (refused_state_same s Hfree). reflexivity.
Qed.

(* ---- non-vacuity ---- *)
Definition ex_cfg : cfg := {| cap := 3; ksz := 2; fixed := false; nb := 15 |}.
Definition ex_ops : list op :=
  (* constant hash 7: every key in bucket 7; fill, overflow, remove from the middle of the chain, re-add *)
  [OAdd [1] 7; OAdd [2] 7; OAdd [1;1] 7; OLen; OAdd [3] 7; OExist [2] 7; ORemove [2] 7; OExist [2] 7;
   OExist [1] 7; OExist [1;1] 7; OLen; OAdd [3] 7; OAdd [3] 7; OLen; OAdd [1;2;3] 7; ORemove [1;1] 7; ORemove [9] 7; OLen].
Lemma ex_run :
  snd (run_ops ex_cfg (init ex_cfg) ex_ops) = [0; 0; 0; 3; 1; 1; 0; 0; 1; 1; 2; 0; 1; 3; 1; 0; 0; 2]
  /\ sp_run ex_cfg [] ex_ops = snd (run_ops ex_cfg (init ex_cfg) ex_ops)
  /\ sim_check ex_cfg (init ex_cfg) bl_init ex_ops = true
  /\ Forall (consistent (fun _ => 7)) ex_ops.
Proof. split; [vm_compute; reflexivity|]. split; [vm_compute; reflexivity|]. split; [vm_compute; reflexivity|]. repeat constructor. Qed.
Lemma ex_fixed_short :
  let c := {| cap := 2; ksz := 2; fixed := true; nb := 10 |} in
  snd (run_ops c (init c) [OAdd [1;1] 1; OAdd [1] 1; OLen; OExist [1] 1; OExist [1;1] 1; ORemove [1] 1; OLen])
  = [0; 3; 1; 0; 1; 0; 1].
Proof. vm_compute. reflexivity. Qed.
